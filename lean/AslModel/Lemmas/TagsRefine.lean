import AslModel.Lemmas.TagsRun
/-! Lemmas for C11 (processor layer), part 6: the construct cases of the refinement and the induction over the tree
(`runI` / `runB`), then the definition phase (macro table) and the whole program. -/
namespace AslModel.Tags
open AslModel.MacroSpec AslModel.Macro AslModel.Generated

variable (q : Quirks) (cs : Bool)

/-! ### the macro table a tree needs -/

def recOf (cs : Bool) (id : Nat) (ps ds : List Line) (body : Body) : MacroRec :=
  ⟨id, ps, ds, (flatBody body).map (SLine.map (storeLine cs ps))⟩

mutual
def TblI (cs : Bool) (tbl : List MacroRec) : Item → Prop
  | .line _ => True
  | .exitm => True
  | .rept _ _ _ body => TblB cs tbl body
  | .irp _ _ _ _ body => TblB cs tbl body
  | .irpn _ _ _ _ body => TblB cs tbl body
  | .irpc _ _ _ _ body => TblB cs tbl body
  | .call id ps ds _ body _ => findMacro tbl id = some (recOf cs id ps ds body) ∧ TblB cs tbl body
def TblB (cs : Bool) (tbl : List MacroRec) : Body → Prop
  | .nil => True
  | .cons i rest => TblI cs tbl i ∧ TblB cs tbl rest
end

/-! ### delivered blocks -/

theorem flatMap_congr_mem {α β} (f g : α → List β) : ∀ (l : List α), (∀ x ∈ l, f x = g x) → l.flatMap f = l.flatMap g
  | [], _ => rfl
  | a :: l, h => by
    rw [List.flatMap_cons, List.flatMap_cons, h a (by simp), flatMap_congr_mem f g l (fun x hx => h x (by simp [hx]))]

theorem map_SLine_congr (f g : Line → Line) : ∀ (ls : List SLine), (∀ sl ∈ ls, sl.All (fun l => f l = g l)) →
    ls.map (SLine.map f) = ls.map (SLine.map g)
  | [], _ => rfl
  | a :: ls, h => by
    rw [List.map_cons, List.map_cons, SLine.map_congr f g a (h a (by simp)),
      map_SLine_congr f g ls (fun x hx => h x (by simp [hx]))]

/-- one IRP/IRPN/IRPC iteration: the stored body delivered for the group `g` is the body with `names := g` substituted -/
theorem irp_block (env : Env) (he : EnvClean env) (body : Body) (scope : List Line) (ex : Bool)
    (names g : List Line) (hwf : WFB q cs (scope ++ names) ex body)
    (hn : ∀ p ∈ names, NameOK p) (hg : ∀ a ∈ g, Clean a) (hlen : names.length ≤ g.length) (hz : g.length ≤ 495) :
    irpBlock ((flatBody (substEB cs env body)).map (SLine.map (irpStore cs names))) g =
      flatBody (substEB cs (env ++ [(names, g)]) body) := by
  unfold irpBlock
  rw [List.map_map]
  have h1 : (flatBody (substEB cs env body)).map (SLine.map (expandAll 1 g) ∘ SLine.map (irpStore cs names)) =
      (flatBody (substEB cs env body)).map (SLine.map (substWhole cs names g)) := by
    have : ∀ sl : SLine, (SLine.map (expandAll 1 g) ∘ SLine.map (irpStore cs names)) sl
        = sl.map (expandAll 1 g ∘ irpStore cs names) := fun sl => SLine.map_map _ _ sl
    rw [List.map_congr_left (fun sl _ => this sl)]
    apply map_SLine_congr
    intro sl hsl
    have hc := flat_cleanB q cs env he body _ ex hwf sl hsl
    exact SLine.All_mono _ _ (fun l hl => irp_line cs names g l hl hn hg hlen hz) sl hc
  rw [h1]
  exact flat_substB q cs env (names, g) body (scope ++ names) ex hwf (fun n hn' => List.mem_append_right _ hn')

/-- REPT: the collected body is delivered unchanged; this is the body under the empty substitution -/
theorem rept_block (env : Env) (he : EnvClean env) (body : Body) (scope : List Line) (ex : Bool)
    (hwf : WFB q cs scope ex body) :
    flatBody (substEB cs env body) = flatBody (substEB cs (env ++ [([], [])]) body) := by
  rw [← flat_substB q cs env ([], []) body scope ex hwf (fun n hn => by cases hn)]
  have : (flatBody (substEB cs env body)).map (SLine.map (substWhole cs [] [])) =
      (flatBody (substEB cs env body)).map (SLine.map (fun l => l)) := by
    apply map_SLine_congr
    intro sl hsl
    have hc := flat_cleanB q cs env he body scope ex hwf sl hsl
    exact SLine.All_mono _ _ (fun l hl => substWhole_noparams cs l hl) sl hc
  show _ = (flatBody (substEB cs env body)).map (SLine.map (substWhole cs ([], []).1 ([], []).2))
  rw [this, map_SLine_id]

/-! ### REPT -/

theorem run_rept (tbl : List MacroRec) (id n : Nat) (body : Body) (env : Env) (scope : List Line)
    (he : EnvClean env) (hwf : WFB q cs scope true body)
    (IH : BodyRuns q cs tbl .rept body (env ++ [([], [])]))
    (sfx : Line) (junk : List ATag) (hj : AllE junk) (k0 : TKind) (R : List SLine) (rest : List ATag) (out : List Line) :
    ∃ junk', AllE junk' ∧
      Go q cs (cfg (junk ++ ⟨k0, flatItem (substEI cs env (.rept id n [] body)) ++ R⟩ :: rest) none tbl out)
        (cfg (junk' ++ ⟨k0, R⟩ :: rest) none tbl (out ++ (expandItem cs env sfx (.rept id n [] body)).1)) := by
  have hflat : flatItem (substEI cs env (.rept id n [] body)) =
      SLine.rept n :: (flatBody (substEB cs env body) ++ [.endm]) := by simp [substEI, flatItem]
  rw [hflat]
  have g1 := gather q cs (.rept n) (.rept n) (by simp) (fun _ => rfl) (flatBody (substEB cs env body))
    (collectsB q cs _) junk hj k0 R rest tbl out
  have hst : (flatBody (substEB cs env body)).map (CKind.store cs (.rept n)) = flatBody (substEB cs env body) := by
    simp [CKind.store]
  rw [hst] at g1
  have hexp : (expandItem cs env sfx (.rept id n [] body)).1 =
      runIters (fun i (_ : Nat) => expandBody cs (env ++ [([], [])]) (instSfx sfx id i) body) 0 (List.range n) := by
    simp [expandItem, withLocals]
  rw [hexp]
  by_cases hn : n = 0
  · subst hn
    refine ⟨[], allE_nil, ?_⟩
    have : finishColl aops q ⟨.rept ((0 : Nat) : Int), 0, flatBody (substEB cs env body)⟩
        (cfg (⟨k0, R⟩ :: rest) (some ⟨.rept ((0 : Nat) : Int), 0, flatBody (substEB cs env body)⟩) tbl out)
        = cfg (⟨k0, R⟩ :: rest) none tbl out := by simp [finishColl, cfg]
    rw [this] at g1
    simpa [runIters] using g1
  · have hpos : ((n : Nat) : Int) > 0 := by omega
    have hfin : finishColl aops q ⟨.rept (n : Int), 0, flatBody (substEB cs env body)⟩
        (cfg (⟨k0, R⟩ :: rest) (some ⟨.rept (n : Int), 0, flatBody (substEB cs env body)⟩) tbl out)
        = cfg (⟨.rept, rem (mkRept n (flatBody (substEB cs env body)))⟩ :: ⟨k0, R⟩ :: rest) none tbl out := by
      simp only [finishColl, hpos, if_true, cfg, Int.toNat_natCast]
      rfl
    rw [hfin, rem_mkRept n _ (by omega)] at g1
    obtain ⟨j, hj', g2⟩ := pushed q cs tbl .rept body (fun (_ : Nat) => env ++ [([], [])]) (fun i => instSfx sfx id i)
      (fun i (_ : Nat) => expandBody cs (env ++ [([], [])]) (instSfx sfx id i) body) (fun _ _ => rfl)
      (List.range n) (fun _ _ => IH)
      ((List.range n).flatMap (fun _ => flatBody (substEB cs env body)))
      (by rw [rept_block q cs env he body scope true hwf]) k0 R rest out
    exact ⟨j, hj', Go.trans q cs g1 g2⟩

/-! ### IRP -/

theorem run_irp (tbl : List MacroRec) (id : Nat) (var : Line) (args : List Line) (body : Body) (env : Env)
    (scope : List Line) (he : EnvClean env)
    (hv : Binder cs scope var) (hne : args ≠ []) (hmax : args.length + 1 ≤ argCntMax) (hcl : ∀ a ∈ args, Tidy a)
    (hwf : WFB q cs (scope ++ [var]) (!q.exitmIrpCrash) body)
    (IH : ∀ a, Tidy a → BodyRuns q cs tbl .irp body (env ++ [([var], [a])]))
    (sfx : Line) (junk : List ATag) (hj : AllE junk) (k0 : TKind) (R : List SLine) (rest : List ATag) (out : List Line) :
    ∃ junk', AllE junk' ∧
      Go q cs (cfg (junk ++ ⟨k0, flatItem (substEI cs env (.irp id var args [] body)) ++ R⟩ :: rest) none tbl out)
        (cfg (junk' ++ ⟨k0, R⟩ :: rest) none tbl (out ++ (expandItem cs env sfx (.irp id var args [] body)).1)) := by
  let args' := args.map (applyEnv cs env)
  have hflat : flatItem (substEI cs env (.irp id var args [] body)) =
      SLine.irp var args' :: (flatBody (substEB cs env body) ++ [.endm]) := by simp [substEI, flatItem, args']
  rw [hflat]
  have hne' : args' ≠ [] := by
    intro h; apply hne; simpa [args'] using h
  have hlen' : args'.length = args.length := by simp [args']
  have hcl' : ∀ a ∈ args', Tidy a := by
    intro a ha
    obtain ⟨a0, ha0, rfl⟩ := List.mem_map.mp ha
    exact applyEnv_tidy cs env a0 he (hcl a0 ha0)
  have hx : ∀ s : St ATag, execute aops q cs (.irp var args') s = startColl s (.irp [var] args' 0) := by
    intro s
    have h1 : args'.isEmpty = false := by
      cases h : args' with
      | nil => exact absurd h hne'
      | cons _ _ => rfl
    have h2 : ¬ (args'.length + 1 > argCntMax) := by omega
    have t1 : trimArg var = var := trim_tidy var (binder_tidy cs scope var hv)
    have t2 : args'.map trimArg = args' := map_trim_tidy args' hcl'
    simp [execute, t1, t2, h1, h2, hv.1]
  have g1 := gather q cs (.irp var args') (.irp [var] args' 0) (by simp) hx (flatBody (substEB cs env body))
    (collectsB q cs _) junk hj k0 R rest tbl out
  have hst : (flatBody (substEB cs env body)).map (CKind.store cs (.irp [var] args' 0)) =
      (flatBody (substEB cs env body)).map (SLine.map (irpStore cs [var])) := rfl
  rw [hst] at g1
  have hfin : ∀ ls, finishColl aops q ⟨.irp [var] args' 0, 0, ls⟩
      (cfg (⟨k0, R⟩ :: rest) (some ⟨.irp [var] args' 0, 0, ls⟩) tbl out)
      = cfg (⟨.irp, rem (mkIrp 0 args' ls)⟩ :: ⟨k0, R⟩ :: rest) none tbl out := fun _ => rfl
  rw [hfin] at g1
  have hpos : 1 ≤ args'.length := List.length_pos_iff.mpr hne'
  rw [rem_mkIrp 0 args' _ 1 rfl (Nat.mod_one _) hpos, groupsOf_one _ _ (Nat.le_refl _), List.flatMap_map] at g1
  have hnv : ∀ p ∈ [var], NameOK p := by
    intro p hp
    have : p = var := by simpa using hp
    rw [this]; exact nameOK_of_chk var hv.1
  have hexp : (expandItem cs env sfx (.irp id var args [] body)).1 =
      runIters (fun i a => expandBody cs (env ++ [([var], [a])]) (instSfx sfx id i) body) 0 args' := by
    simp [expandItem, withLocals, args']
  rw [hexp]
  obtain ⟨j, hj', g2⟩ := pushed q cs tbl .irp body (fun a => env ++ [([var], [a])]) (fun i => instSfx sfx id i)
    (fun i a => expandBody cs (env ++ [([var], [a])]) (instSfx sfx id i) body) (fun _ _ => rfl)
    args' (fun a ha => IH a (hcl' a ha))
    (args'.flatMap (fun a => irpBlock ((flatBody (substEB cs env body)).map (SLine.map (irpStore cs [var]))) [a]))
    (by
      apply flatMap_congr_mem
      intro a ha
      exact irp_block q cs env he body scope _ [var] [a] hwf hnv
        (by intro x hx'; have : x = a := by simpa using hx'
            rw [this]; exact tidy_clean (hcl' a ha)) (by simp) (by simp))
    k0 R rest out
  exact ⟨j, hj', Go.trans q cs g1 g2⟩

/-! ### IRPN -/

theorem pad_mod (n k : Nat) (hk : 1 ≤ k) : (n + (k - n % k) % k) % k = 0 := by
  have hm : n % k < k := Nat.mod_lt _ (by omega)
  by_cases h0 : n % k = 0
  · rw [h0]; simp [h0]
  · have : (k - n % k) % k = k - n % k := Nat.mod_eq_of_lt (by omega)
    rw [this]
    have hd := Nat.div_add_mod n k
    have : n + (k - n % k) = k * (n / k + 1) := by
      rw [Nat.mul_add, Nat.mul_one]; omega
    rw [this]; exact Nat.mul_mod_right _ _

theorem groupsOf_mem (k : Nat) (hk : 1 ≤ k) : ∀ (fuel : Nat) (l : List Line) (g : List Line), g ∈ groupsOf k fuel l →
    g.length = k ∧ ∀ a ∈ g, a ∈ l ∨ a = []
  | 0, _, _, h => by simp [groupsOf] at h
  | fuel + 1, l, g, h => by
    simp only [groupsOf] at h
    split at h
    · cases h
    · rcases List.mem_cons.mp h with rfl | h
      · refine ⟨by simp; omega, ?_⟩
        intro a ha
        rcases List.mem_append.mp ha with h1 | h1
        · left; exact List.mem_of_mem_take h1
        · right; exact List.eq_of_mem_replicate h1
      · obtain ⟨h1, h2⟩ := groupsOf_mem k hk fuel (l.drop k) g h
        refine ⟨h1, fun a ha => ?_⟩
        rcases h2 a ha with h3 | h3
        · left; exact List.mem_of_mem_drop h3
        · right; exact h3

theorem run_irpn (tbl : List MacroRec) (id : Nat) (vars args : List Line) (body : Body) (env : Env)
    (scope : List Line) (he : EnvClean env)
    (hvne : vars ≠ []) (hv : ∀ v ∈ vars, Binder cs scope v) (hle : vars.length ≤ args.length)
    (hmax : vars.length + args.length + 1 ≤ argCntMax) (hcl : ∀ a ∈ args, Tidy a)
    (hwf : WFB q cs (scope ++ vars) (!q.exitmIrpCrash) body)
    (IH : ∀ g : List Line, (∀ a ∈ g, Tidy a) → BodyRuns q cs tbl .irp body (env ++ [(vars, g)]))
    (sfx : Line) (junk : List ATag) (hj : AllE junk) (k0 : TKind) (R : List SLine) (rest : List ATag) (out : List Line) :
    ∃ junk', AllE junk' ∧
      Go q cs (cfg (junk ++ ⟨k0, flatItem (substEI cs env (.irpn id vars args [] body)) ++ R⟩ :: rest) none tbl out)
        (cfg (junk' ++ ⟨k0, R⟩ :: rest) none tbl (out ++ (expandItem cs env sfx (.irpn id vars args [] body)).1)) := by
  let args' := args.map (applyEnv cs env)
  let k := vars.length
  have hk1 : 1 ≤ k := List.length_pos_iff.mpr hvne
  have hflat : flatItem (substEI cs env (.irpn id vars args [] body)) =
      SLine.irpn k (vars ++ args') :: (flatBody (substEB cs env body) ++ [.endm]) := by
    simp [substEI, flatItem, args', k]
  rw [hflat]
  have hlen' : args'.length = args.length := by simp [args']
  have hcl' : ∀ a ∈ args', Tidy a := by
    intro a ha
    obtain ⟨a0, ha0, rfl⟩ := List.mem_map.mp ha
    exact applyEnv_tidy cs env a0 he (hcl a0 ha0)
  let params := args' ++ List.replicate ((k - args'.length % k) % k) ([] : Line)
  have hx : ∀ s : St ATag, execute aops q cs (.irpn k (vars ++ args')) s = startColl s (.irp vars params k) := by
    intro s
    have h0 : k ≠ 0 := by omega
    have h1 : ¬ ((vars ++ args').length < 2 * k) := by simp [k]; omega
    have h2 : ¬ ((vars ++ args').length + 1 > argCntMax) := by simp; omega
    have h3 : (vars ++ args').take k = vars := by simp [k]
    have h4 : (vars ++ args').drop k = args' := by simp [k]
    have h5 : vars.all chkMacSymbName = true := List.all_eq_true.mpr (fun v hv' => (hv v hv').1)
    have t0 : (vars ++ args').map trimArg = vars ++ args' := map_trim_tidy _ (by
      intro a ha
      rcases List.mem_append.mp ha with h | h
      · exact binder_tidy cs scope a (hv a h)
      · exact hcl' a h)
    simp only [execute, t0]
    rw [if_neg]
    · simp only [h3, h4]; rfl
    · have h1' : 2 * k ≤ vars.length + args'.length := by simpa using h1
      have h2' : vars.length + args'.length + 1 ≤ argCntMax := by simpa using h2
      simp [h0, h3, h5, h1', h2']
  have g1 := gather q cs (.irpn k (vars ++ args')) (.irp vars params k) (by simp) hx (flatBody (substEB cs env body))
    (collectsB q cs _) junk hj k0 R rest tbl out
  have hst : (flatBody (substEB cs env body)).map (CKind.store cs (.irp vars params k)) =
      (flatBody (substEB cs env body)).map (SLine.map (irpStore cs vars)) := rfl
  rw [hst] at g1
  have hfin : ∀ ls, finishColl aops q ⟨.irp vars params k, 0, ls⟩
      (cfg (⟨k0, R⟩ :: rest) (some ⟨.irp vars params k, 0, ls⟩) tbl out)
      = cfg (⟨.irp, rem (mkIrp k params ls)⟩ :: ⟨k0, R⟩ :: rest) none tbl out := fun _ => rfl
  rw [hfin] at g1
  have hplen : params.length = args'.length + (k - args'.length % k) % k := by simp [params]
  have hr : (k - args'.length % k) % k < k := Nat.mod_lt _ (by omega)
  have hkk : k = if k = 0 then 1 else k := by
    have : k ≠ 0 := by omega
    simp [this]
  rw [rem_mkIrp k params _ k hkk (by rw [hplen]; exact pad_mod _ _ hk1) (by omega),
    groupsOf_fuel k hk1 params.length (args'.length + k) params (Nat.le_refl _) (by omega),
    groupsOf_padded k hk1 args'.length args' (Nat.le_refl _)] at g1
  have hnv : ∀ p ∈ vars, NameOK p := fun p hp => nameOK_of_chk p (hv p hp).1
  have hexp : (expandItem cs env sfx (.irpn id vars args [] body)).1 =
      runIters (fun i g => expandBody cs (env ++ [(vars, g)]) (instSfx sfx id i) body) 0
        (groupsOf k args'.length args') := by
    simp [expandItem, withLocals, args', k]
  rw [hexp]
  have hgroups : ∀ g ∈ groupsOf k args'.length args', g.length = k ∧ ∀ a ∈ g, Tidy a := by
    intro g hg
    obtain ⟨h1, h2⟩ := groupsOf_mem k hk1 _ _ g hg
    refine ⟨h1, fun a ha => ?_⟩
    rcases h2 a ha with h3 | h3
    · exact hcl' a h3
    · rw [h3]; exact tidy_nil
  have hacm : argCntMax + 4 < 496 := by decide
  obtain ⟨j, hj', g2⟩ := pushed q cs tbl .irp body (fun g => env ++ [(vars, g)]) (fun i => instSfx sfx id i)
    (fun i g => expandBody cs (env ++ [(vars, g)]) (instSfx sfx id i) body) (fun _ _ => rfl)
    (groupsOf k args'.length args') (fun g hg => IH g (hgroups g hg).2)
    ((groupsOf k args'.length args').flatMap
      (irpBlock ((flatBody (substEB cs env body)).map (SLine.map (irpStore cs vars)))))
    (by
      apply flatMap_congr_mem
      intro g hg
      exact irp_block q cs env he body scope _ vars g hwf hnv (fun a ha => tidy_clean ((hgroups g hg).2 a ha))
        (by rw [(hgroups g hg).1]; exact Nat.le_refl _) (by rw [(hgroups g hg).1]; omega))
    k0 R rest out
  exact ⟨j, hj', Go.trans q cs g1 g2⟩

/-! ### IRPC -/

theorem charArg_clean (c : Ch) (h : 32 ≤ c.toNat ∧ c ≠ 92) : charArg c = [c] := by
  have h1 : (c == 92) = false := by simpa using h.2
  have h2 : (c == 0) = false := by
    cases hh : c == 0 with
    | false => rfl
    | true =>
      have : c = 0 := by simpa using hh
      rw [this] at h; exact absurd h.1 (by decide)
  simp [charArg, h1, h2]

theorem run_irpc (tbl : List MacroRec) (id : Nat) (var chars : Line) (body : Body) (env : Env)
    (scope : List Line) (he : EnvClean env) (hin : EnvIn env scope)
    (hv : Binder cs scope var) (hne : chars ≠ []) (hcl : Tidy chars) (hst : StableIn cs scope chars)
    (hwf : WFB q cs (scope ++ [var]) true body)
    (IH : ∀ c : Ch, (33 ≤ c.toNat ∧ c ≠ 92) → BodyRuns q cs tbl .irpc body (env ++ [([var], [[c]])]))
    (sfx : Line) (junk : List ATag) (hj : AllE junk) (k0 : TKind) (R : List SLine) (rest : List ATag) (out : List Line) :
    ∃ junk', AllE junk' ∧
      Go q cs (cfg (junk ++ ⟨k0, flatItem (substEI cs env (.irpc id var chars [] body)) ++ R⟩ :: rest) none tbl out)
        (cfg (junk' ++ ⟨k0, R⟩ :: rest) none tbl (out ++ (expandItem cs env sfx (.irpc id var chars [] body)).1)) := by
  have hch : applyEnv cs env chars = chars := applyEnv_stable cs scope chars (tidy_clean hcl) hst env hin
  have hflat : flatItem (substEI cs env (.irpc id var chars [] body)) =
      SLine.irpc var chars :: (flatBody (substEB cs env body) ++ [.endm]) := by simp [substEI, flatItem, hch]
  rw [hflat]
  have hx : ∀ s : St ATag, execute aops q cs (.irpc var chars) s = startColl s (.irpc var chars) := by
    intro s
    have t1 : trimArg var = var := trim_tidy var (binder_tidy cs scope var hv)
    simp [execute, t1, hv.1]
  have g1 := gather q cs (.irpc var chars) (.irpc var chars) (by simp) hx (flatBody (substEB cs env body))
    (collectsB q cs _) junk hj k0 R rest tbl out
  have hstore : (flatBody (substEB cs env body)).map (CKind.store cs (.irpc var chars)) =
      (flatBody (substEB cs env body)).map (SLine.map (irpStore cs [var])) := rfl
  rw [hstore] at g1
  have hnotempty : chars.isEmpty = false := by
    cases h : chars with
    | nil => exact absurd h hne
    | cons _ _ => rfl
  have hfin : ∀ ls, finishColl aops q ⟨.irpc var chars, 0, ls⟩
      (cfg (⟨k0, R⟩ :: rest) (some ⟨.irpc var chars, 0, ls⟩) tbl out)
      = cfg (⟨.irpc, rem (mkIrpc chars ls)⟩ :: ⟨k0, R⟩ :: rest) none tbl out := by
    intro ls
    simp only [finishColl, hnotempty, Bool.false_and, Bool.false_eq_true, if_false]
    rfl
  rw [hfin, rem_mkIrpc chars _ hne] at g1
  have hnv : ∀ p ∈ [var], NameOK p := by
    intro p hp
    have : p = var := by simpa using hp
    rw [this]; exact nameOK_of_chk var hv.1
  have hexp : (expandItem cs env sfx (.irpc id var chars [] body)).1 =
      runIters (fun i c => expandBody cs (env ++ [([var], [[c]])]) (instSfx sfx id i) body) 0 chars := by
    simp [expandItem, withLocals, hch]
  rw [hexp]
  obtain ⟨j, hj', g2⟩ := pushed q cs tbl .irpc body (fun (c : Ch) => env ++ [([var], [[c]])]) (fun i => instSfx sfx id i)
    (fun i c => expandBody cs (env ++ [([var], [[c]])]) (instSfx sfx id i) body) (fun _ _ => rfl)
    chars (fun c hc => IH c (hcl c hc))
    (chars.flatMap (irpcBlock ((flatBody (substEB cs env body)).map (SLine.map (irpStore cs [var])))))
    (by
      apply flatMap_congr_mem
      intro c hc
      have e : irpcBlock ((flatBody (substEB cs env body)).map (SLine.map (irpStore cs [var]))) c =
          irpBlock ((flatBody (substEB cs env body)).map (SLine.map (irpStore cs [var]))) [[c]] := by
        simp only [irpcBlock, irpBlock, charArg_clean c (tidy_clean hcl c hc)]
        rfl
      rw [e]
      exact irp_block q cs env he body scope _ [var] [[c]] hwf hnv
        (by intro x hx'; have : x = [c] := by simpa using hx'
            rw [this]; intro y hy; have : y = c := by simpa using hy
            rw [this]; exact tidy_clean hcl c hc) (by simp) (by simp))
    k0 R rest out
  exact ⟨j, hj', Go.trans q cs g1 g2⟩

/-! ### macro call -/

def SlotsClean (ss : List (Option Line)) : Prop := ∀ v, some v ∈ ss → Tidy v

theorem bindPos_tidy : ∀ (slots : List (Option Line)) (pos : List Line), SlotsClean slots → (∀ a ∈ pos, Tidy a) →
    SlotsClean (bindPos slots pos).1 ∧ (∀ a ∈ (bindPos slots pos).2, Tidy a)
  | slots, [], hs, _ => by simpa [bindPos] using hs
  | [], a :: pos, _, hp => by
    simp only [bindPos]
    exact ⟨(by intro v hv; cases hv), hp⟩
  | s :: slots, a :: pos, hs, hp => by
    have ih := bindPos_tidy slots pos (fun v hv => hs v (by simp [hv])) (fun x hx => hp x (by simp [hx]))
    simp only [bindPos]
    refine ⟨?_, ih.2⟩
    intro v hv
    rcases List.mem_cons.mp hv with h | h
    · split at h
      · exact hs v (by simp [h])
      · have : v = a := by simpa using h
        rw [this]; exact hp a (by simp)
    · exact ih.1 v h

theorem bindKey_tidy : ∀ (ps : List Line) (ss : List (Option Line)) (k v : Line), SlotsClean ss → Tidy v →
    SlotsClean (bindKey cs ps ss k v)
  | [], ss, _, _, hs, _ => by simpa [bindKey] using hs
  | _ :: _, [], _, _, hs, _ => by simpa [bindKey] using hs
  | p :: ps, s :: ss, k, v, hs, hv => by
    simp only [bindKey]
    split
    · intro w hw
      rcases List.mem_cons.mp hw with h | h
      · have : w = v := by simpa using h
        rw [this]; exact hv
      · exact hs w (by simp [h])
    · intro w hw
      rcases List.mem_cons.mp hw with h | h
      · exact hs w (by simp [h])
      · exact bindKey_tidy ps ss k v (fun x hx => hs x (by simp [hx])) hv w h

theorem foldl_bindKey_tidy (ps : List Line) : ∀ (ks : List CallArg) (ss : List (Option Line)), SlotsClean ss →
    (∀ a ∈ ks, CleanArg a) → SlotsClean (ks.foldl (fun ss a => bindKey cs ps ss (a.key.getD []) a.val) ss)
  | [], _, hs, _ => hs
  | a :: ks, ss, hs, hk => by
    simp only [List.foldl_cons]
    exact foldl_bindKey_tidy ps ks _ (bindKey_tidy cs ps ss _ _ hs (hk a (by simp)).1) (fun x hx => hk x (by simp [hx]))

theorem zip_getD_tidy : ∀ (ss : List (Option Line)) (ds : List Line), SlotsClean ss → (∀ d ∈ ds, Tidy d) →
    ∀ x ∈ (ss.zip ds).map (fun (y : Option Line × Line) => y.1.getD y.2), Tidy x
  | [], _, _, _, x, hx => by simp at hx
  | _ :: _, [], _, _, x, hx => by simp at hx
  | s :: ss, d :: ds, hs, hd, x, hx => by
    simp only [List.zip_cons_cons, List.map_cons, List.mem_cons] at hx
    rcases hx with h | h
    · cases s with
      | none => rw [h]; exact hd d (by simp)
      | some v => rw [h]; exact hs v (by simp)
    · exact zip_getD_tidy ss ds (fun v hv => hs v (by simp [hv])) (fun y hy => hd y (by simp [hy])) x (by simpa using h)

theorem bindArgs_tidy (ps ds : List Line) (call : List CallArg) (hd : ∀ d ∈ ds, Tidy d) (hc : ∀ a ∈ call, CleanArg a) :
    ∀ x ∈ bindArgs cs ps ds call, Tidy x := by
  have hpos : ∀ a ∈ (call.filter (fun a => a.key.isNone)).map (·.val), Tidy a := by
    intro a ha
    obtain ⟨a0, ha0, rfl⟩ := List.mem_map.mp ha
    exact (hc a0 (List.mem_filter.mp ha0).1).1
  have h0 : SlotsClean (ps.map fun _ => (none : Option Line)) := by
    intro v hv
    obtain ⟨_, _, h⟩ := List.mem_map.mp hv
    cases h
  have h1 := bindPos_tidy (ps.map fun _ => none) _ h0 hpos
  have h2 := foldl_bindKey_tidy cs ps (call.filter (fun a => a.key.isSome)) _ h1.1
    (fun a ha => hc a (List.mem_filter.mp ha).1)
  intro x hx
  unfold bindArgs at hx
  simp only [] at hx
  rcases List.mem_append.mp hx with h | h
  · exact zip_getD_tidy _ ds h2 hd x h
  · exact h1.2 x h

theorem rawArg_eq_text (a : CallArg) : rawArg a = CallArg.text a := by
  cases a with
  | mk key val => cases key <;> rfl

theorem tidy_text (a : CallArg) (h : CleanArg a) : Tidy (CallArg.text a) := by
  cases a with
  | mk key val =>
    cases key with
    | none => exact h.1
    | some k => exact tidy_append (h.2 k rfl) (tidy_cons (by decide) h.1)

theorem mapArg_trim (a : CallArg) (h : CleanArg a) : mapArg trimArg a = a := by
  cases a with
  | mk key val =>
    cases key with
    | none => simp only [mapArg, Option.map_none]; rw [trim_tidy val h.1]
    | some k => simp only [mapArg, Option.map_some]; rw [trim_tidy val h.1, trim_tidy k (h.2 k rfl)]

theorem map_mapArg_trim : ∀ (l : List CallArg), (∀ a ∈ l, CleanArg a) → l.map (mapArg trimArg) = l
  | [], _ => rfl
  | a :: l, h => by
    rw [List.map_cons, mapArg_trim a (h a (by simp)), map_mapArg_trim l (fun x hx => h x (by simp [hx]))]

theorem exec_call (tbl : List MacroRec) (id : Nat) (args : List CallArg) (m : MacroRec) (hm : findMacro tbl id = some m)
    (hta : ∀ a ∈ args, CleanArg a)
    (junk : List ATag) (hj : AllE junk) (k0 : TKind) (R : List SLine) (rest : List ATag) (out : List Line) :
    Go q cs (cfg (junk ++ ⟨k0, .call id args :: R⟩ :: rest) none tbl out)
      (cfg (⟨.mac, rem (expandMacro q cs m args)⟩ :: ⟨k0, R⟩ :: rest) none tbl out) := by
  apply Go.step
  rw [step_line q cs junk hj]
  simp only [dispatch, cfg, execute, hm, map_mapArg_trim args hta]
  rfl

theorem run_call (tbl : List MacroRec) (id : Nat) (ps ds : List Line) (body : Body) (args : List CallArg) (env : Env)
    (he : EnvClean env)
    (hps : ∀ p ∈ ps, chkMacSymbName p = true) (hdl : ds.length = ps.length) (hmax : ps.length ≤ argCntMax)
    (hdc : ∀ d ∈ ds, Tidy d) (hac : ∀ a ∈ args, CleanArg a) (hpk : posThenKey args)
    (himp : ∀ sl ∈ flatBody body, sl.All (ImplLineOK cs
        (natDigits (if q.argCountWritten then args.length else bindLen ps.length args))
        (natDigits (bindLen ps.length args))))
    (hwf : WFB q cs (ps ++ [allArgsName, argCountName]) true body)
    (htbl : findMacro tbl id = some (recOf cs id ps ds body))
    (IH : ∀ vals : List Line, (∀ a ∈ vals, Tidy a) →
      BodyRuns q cs tbl .mac body [(ps ++ [allArgsName, argCountName], vals)])
    (sfx : Line) (junk : List ATag) (hj : AllE junk) (k0 : TKind) (R : List SLine) (rest : List ATag) (out : List Line) :
    ∃ junk', AllE junk' ∧
      Go q cs (cfg (junk ++ ⟨k0, flatItem (substEI cs env (.call id ps ds [] body args)) ++ R⟩ :: rest) none tbl out)
        (cfg (junk' ++ ⟨k0, R⟩ :: rest) none tbl (out ++ (expandItem cs env sfx (.call id ps ds [] body args)).1)) := by
  let args' := args.map (substArg cs env)
  let m := recOf cs id ps ds body
  let bound := bindArgs cs ps ds args'
  have hflat : flatItem (substEI cs env (.call id ps ds [] body args)) = [SLine.call id args'] := by
    simp [substEI, flatItem, args']
  rw [hflat]
  have hac' : ∀ a ∈ args', CleanArg a := by
    intro a ha
    obtain ⟨a0, ha0, rfl⟩ := List.mem_map.mp ha
    exact substArg_clean cs env he a0 (hac a0 ha0)
  have g1 := exec_call q cs tbl id args' m htbl hac' junk hj k0 R rest out
  have hpk' : posThenKey args' := posThenKey_substArg cs env args hpk
  have hbp : boundParams cs m args' = bound := bound_eq cs m args' hpk'
  have hblen : bound.length = bindLen ps.length args := by
    rw [bindArgs_length cs ps ds args' hdl, bindLen_substArg]
  have hbclean : ∀ x ∈ bound, Tidy x := bindArgs_tidy cs ps ds args' hdc hac'
  have halen : args'.length = args.length := by simp [args']
  let numA := natDigits (if q.argCountWritten then args.length else bindLen ps.length args)
  let numS := natDigits (bindLen ps.length args)
  let allA := joinComma (args'.map CallArg.text)
  have hrem : rem (expandMacro q cs m args') =
      (flatBody body).map (SLine.map (substWhole cs (ps ++ [allArgsName, argCountName])
        (bound.take ps.length ++ [allA, numS]))) := by
    rw [rem_expandMacro, hbp, halen, hblen, padTake_le _ _ (by rw [hblen]; unfold bindLen; exact Nat.le_add_right _ _)]
    have hml : m.lines = (flatBody body).map (SLine.map (storeLine cs ps)) := rfl
    have hmp : m.params = ps := rfl
    rw [hml, hmp, List.map_map]
    have hra : args'.map rawArg = args'.map CallArg.text := List.map_congr_left (fun a _ => rawArg_eq_text a)
    rw [hra]
    have : ∀ sl : SLine, (SLine.map (deliverLine (bound.take ps.length) numA allA) ∘ SLine.map (storeLine cs ps)) sl
        = sl.map (deliverLine (bound.take ps.length) numA allA ∘ storeLine cs ps) := fun sl => SLine.map_map _ _ sl
    rw [List.map_congr_left (fun sl _ => this sl)]
    apply map_SLine_congr
    intro sl hsl
    have hc : sl.All Clean := by
      have := flat_cleanB q cs [] (by intro pa hpa; cases hpa) body _ true hwf sl (by rw [substEB_nil]; exact hsl)
      exact this
    have hboth := SLine.All_and _ _ sl hc (himp sl hsl)
    refine SLine.All_mono _ _ (fun l hl => ?_) sl hboth
    exact macro_line_full cs ps (bound.take ps.length) numA numS allA l hl.1
      (fun p hp => nameOK_of_chk p (hps p hp))
      (fun a ha => tidy_clean (hbclean a (List.mem_of_mem_take ha)))
      (clean_natDigits _)
      (by rw [List.length_take, hblen]; unfold bindLen; omega)
      hmax hl.2
  rw [hrem] at g1
  have hblock : (flatBody body).map (SLine.map (substWhole cs (ps ++ [allArgsName, argCountName])
        (bound.take ps.length ++ [allA, numS]))) =
      flatBody (substEB cs [(ps ++ [allArgsName, argCountName], bound.take ps.length ++ [allA, numS])] body) := by
    have := flat_substB q cs [] (ps ++ [allArgsName, argCountName], bound.take ps.length ++ [allA, numS]) body _ true hwf
      (fun n hn => hn)
    rw [substEB_nil] at this
    exact this
  rw [hblock] at g1
  have hvals : ∀ a ∈ bound.take ps.length ++ [allA, numS], Tidy a := by
    intro a ha
    rcases List.mem_append.mp ha with h | h
    · exact hbclean a (List.mem_of_mem_take h)
    · simp only [List.mem_cons, List.mem_nil_iff, or_false] at h
      rcases h with rfl | rfl
      · exact tidy_joinComma _ (fun x hx => by
          obtain ⟨a0, ha0, rfl⟩ := List.mem_map.mp hx
          exact tidy_text a0 (hac' a0 ha0))
      · exact tidy_natDigits _
  obtain ⟨j, hj', g2⟩ := IH _ hvals (instSfx sfx id 0) [] allE_nil [] (⟨k0, R⟩ :: rest) out
  have hexp : (expandItem cs env sfx (.call id ps ds [] body args)).1 =
      (expandBody cs [(ps ++ [allArgsName, argCountName], bound.take ps.length ++ [allA, numS])]
        (instSfx sfx id 0) body).1 := by
    simp only [expandItem, withLocals, List.append_nil, List.map_nil]
    show (expandBody cs [(ps ++ [allArgsName, argCountName], List.take ps.length bound ++ [allA, natDigits bound.length])]
      (instSfx sfx id 0) body).1 = _
    rw [hblen]
  rw [hexp]
  refine ⟨j ++ [⟨.mac, []⟩], allE_snoc hj' .mac, ?_⟩
  have g3 := Go.trans q cs g1 (by simpa using g2)
  simpa [List.append_assoc] using g3

/-! ### induction over the tree -/

mutual
theorem runI (tbl : List MacroRec) : ∀ (i : Item) (env : Env) (scope : List Line) (ex : Bool),
    EnvIn env scope → EnvClean env → WFI q cs scope ex i → TblI cs tbl i →
    ∀ (sfx : Line) (junk : List ATag), AllE junk → ∀ (k0 : TKind), (ex = true → ExitOK q k0) →
    ∀ (R : List SLine) (rest : List ATag) (out : List Line),
    ∃ junk', AllE junk' ∧
      Go q cs (cfg (junk ++ ⟨k0, flatItem (substEI cs env i) ++ R⟩ :: rest) none tbl out)
        (cfg (junk' ++ ⟨k0, if (expandItem cs env sfx i).2 then [] else R⟩ :: rest) none tbl
          (out ++ (expandItem cs env sfx i).1))
  | .line l, env, scope, ex, _, _, _, _, sfx, junk, hj, k0, _, R, rest, out => by
    refine ⟨[], allE_nil, ?_⟩
    simpa [substEI, flatItem, expandItem] using exec_plain q cs (applyEnv cs env l) junk hj k0 R rest tbl out
  | .exitm, env, scope, ex, _, _, hwf, _, sfx, junk, hj, k0, hex, R, rest, out => by
    simp only [WFI] at hwf
    refine ⟨[], allE_nil, ?_⟩
    simpa [substEI, flatItem, expandItem] using exec_exitm q cs junk hj k0 (hex hwf) R rest tbl out
  | .rept id n locals body, env, scope, ex, hin, he, hwf, htb, sfx, junk, hj, k0, _, R, rest, out => by
    simp only [WFI] at hwf
    simp only [TblI] at htb
    obtain ⟨rfl, hwb⟩ := hwf
    have IH : BodyRuns q cs tbl .rept body (env ++ [([], [])]) := by
      intro sfx' junk' hj' R' rest' out'
      exact runB tbl body (env ++ [([], [])]) scope true
        (by
          intro pa hpa n hn
          rcases List.mem_append.mp hpa with h | h
          · exact hin pa h n hn
          · have : pa = ([], []) := by simpa using h
            rw [this] at hn; cases hn)
        (envClean_snoc he (by intro a ha; cases ha)) hwb htb sfx' junk' hj' .rept
        (fun _ => ⟨by decide, by intro h; cases h⟩) R' rest' out'
    have h := run_rept q cs tbl id n body env scope he hwb IH sfx junk hj k0 R rest out
    have hf : (expandItem cs env sfx (.rept id n [] body)).2 = false := rfl
    simpa [hf] using h
  | .irp id var args locals body, env, scope, ex, hin, he, hwf, htb, sfx, junk, hj, k0, _, R, rest, out => by
    simp only [WFI] at hwf
    simp only [TblI] at htb
    obtain ⟨rfl, hv, hne, hmax, hcl, hwb⟩ := hwf
    have IH : ∀ a, Tidy a → BodyRuns q cs tbl .irp body (env ++ [([var], [a])]) := by
      intro a ha sfx' junk' hj' R' rest' out'
      exact runB tbl body (env ++ [([var], [a])]) (scope ++ [var]) (!q.exitmIrpCrash)
        (envIn_snoc (pa := ([var], [a])) hin)
        (envClean_snoc he (by intro x hx; have : x = a := by simpa using hx
                              rw [this]; exact ha)) hwb htb sfx' junk' hj' .irp
        (fun hx => ⟨by decide, fun _ => by simpa using hx⟩) R' rest' out'
    have h := run_irp q cs tbl id var args body env scope he hv hne hmax hcl hwb IH sfx junk hj k0 R rest out
    have hf : (expandItem cs env sfx (.irp id var args [] body)).2 = false := rfl
    simpa [hf] using h
  | .irpn id vars args locals body, env, scope, ex, hin, he, hwf, htb, sfx, junk, hj, k0, _, R, rest, out => by
    simp only [WFI] at hwf
    simp only [TblI] at htb
    obtain ⟨rfl, hvne, hv, hle, hmax, hcl, hwb⟩ := hwf
    have IH : ∀ g : List Line, (∀ a ∈ g, Tidy a) → BodyRuns q cs tbl .irp body (env ++ [(vars, g)]) := by
      intro g hg sfx' junk' hj' R' rest' out'
      exact runB tbl body (env ++ [(vars, g)]) (scope ++ vars) (!q.exitmIrpCrash)
        (envIn_snoc (pa := (vars, g)) hin) (envClean_snoc he hg) hwb htb sfx' junk' hj' .irp
        (fun hx => ⟨by decide, fun _ => by simpa using hx⟩) R' rest' out'
    have h := run_irpn q cs tbl id vars args body env scope he hvne hv hle hmax hcl hwb IH sfx junk hj k0 R rest out
    have hf : (expandItem cs env sfx (.irpn id vars args [] body)).2 = false := rfl
    simpa [hf] using h
  | .irpc id var chars locals body, env, scope, ex, hin, he, hwf, htb, sfx, junk, hj, k0, _, R, rest, out => by
    simp only [WFI] at hwf
    simp only [TblI] at htb
    obtain ⟨rfl, hv, hne, hcl, hst, hwb⟩ := hwf
    have IH : ∀ c : Ch, (33 ≤ c.toNat ∧ c ≠ 92) → BodyRuns q cs tbl .irpc body (env ++ [([var], [[c]])]) := by
      intro c hc sfx' junk' hj' R' rest' out'
      exact runB tbl body (env ++ [([var], [[c]])]) (scope ++ [var]) true
        (envIn_snoc (pa := ([var], [[c]])) hin)
        (envClean_snoc he (by intro x hx; have : x = [c] := by simpa using hx
                              rw [this]; intro y hy; have : y = c := by simpa using hy
                              rw [this]; exact hc)) hwb htb sfx' junk' hj' .irpc
        (fun _ => ⟨by decide, by intro h; cases h⟩) R' rest' out'
    have h := run_irpc q cs tbl id var chars body env scope he hin hv hne hcl hst hwb IH sfx junk hj k0 R rest out
    have hf : (expandItem cs env sfx (.irpc id var chars [] body)).2 = false := rfl
    simpa [hf] using h
  | .call id ps ds locals body args, env, scope, ex, hin, he, hwf, htb, sfx, junk, hj, k0, _, R, rest, out => by
    simp only [WFI] at hwf
    simp only [TblI] at htb
    obtain ⟨rfl, hps, hdl, hmax, hdc, hac, hpk, himp, hwb⟩ := hwf
    have IH : ∀ vals : List Line, (∀ a ∈ vals, Tidy a) →
        BodyRuns q cs tbl .mac body [(ps ++ [allArgsName, argCountName], vals)] := by
      intro vals hvals sfx' junk' hj' R' rest' out'
      exact runB tbl body [(ps ++ [allArgsName, argCountName], vals)] (ps ++ [allArgsName, argCountName]) true
        (by intro pa hpa n hn
            have : pa = (ps ++ [allArgsName, argCountName], vals) := by simpa using hpa
            rw [this] at hn; exact hn)
        (by intro pa hpa
            have : pa = (ps ++ [allArgsName, argCountName], vals) := by simpa using hpa
            rw [this]; exact hvals)
        hwb htb.2 sfx' junk' hj' .mac (fun _ => ⟨by decide, by intro h; cases h⟩) R' rest' out'
    have h := run_call q cs tbl id ps ds body args env he hps hdl hmax hdc hac hpk himp hwb htb.1 IH
      sfx junk hj k0 R rest out
    have hf : (expandItem cs env sfx (.call id ps ds [] body args)).2 = false := rfl
    simpa [hf] using h
theorem runB (tbl : List MacroRec) : ∀ (b : Body) (env : Env) (scope : List Line) (ex : Bool),
    EnvIn env scope → EnvClean env → WFB q cs scope ex b → TblB cs tbl b →
    ∀ (sfx : Line) (junk : List ATag), AllE junk → ∀ (k0 : TKind), (ex = true → ExitOK q k0) →
    ∀ (R : List SLine) (rest : List ATag) (out : List Line),
    ∃ junk', AllE junk' ∧
      Go q cs (cfg (junk ++ ⟨k0, flatBody (substEB cs env b) ++ R⟩ :: rest) none tbl out)
        (cfg (junk' ++ ⟨k0, if (expandBody cs env sfx b).2 then [] else R⟩ :: rest) none tbl
          (out ++ (expandBody cs env sfx b).1))
  | .nil, env, scope, ex, _, _, _, _, sfx, junk, hj, k0, _, R, rest, out =>
    ⟨junk, hj, by simpa [substEB, flatBody, expandBody] using Go.refl q cs _⟩
  | .cons i b, env, scope, ex, hin, he, hwf, htb, sfx, junk, hj, k0, hex, R, rest, out => by
    simp only [WFB] at hwf
    simp only [TblB] at htb
    obtain ⟨j1, hj1, g1⟩ := runI tbl i env scope ex hin he hwf.1 htb.1 sfx junk hj k0 hex
      (flatBody (substEB cs env b) ++ R) rest out
    have hfl : flatBody (substEB cs env (.cons i b)) ++ R =
        flatItem (substEI cs env i) ++ (flatBody (substEB cs env b) ++ R) := by
      simp [substEB, flatBody, List.append_assoc]
    rw [hfl]
    by_cases hflag : (expandItem cs env sfx i).2 = true
    · refine ⟨j1, hj1, ?_⟩
      simp only [hflag, if_true] at g1
      simpa [expandBody, hflag] using g1
    · simp only [hflag, if_false] at g1
      obtain ⟨j2, hj2, g2⟩ := runB tbl b env scope ex hin he hwf.2 htb.2 sfx j1 hj1 k0 hex R rest
        (out ++ (expandItem cs env sfx i).1)
      refine ⟨j2, hj2, ?_⟩
      have := Go.trans q cs g1 g2
      simpa [expandBody, hflag, List.append_assoc] using this
end

end AslModel.Tags
