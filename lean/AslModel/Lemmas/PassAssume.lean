import AslModel.Model.PassAssume
import AslModel.Lemmas.Pass
/-! Helper lemmas for `Model/PassAssume.lean`: a pass with assumption state is the plain pass (`Model/Pass.lean`) over
the erased program, and the state each reference saw is the one the program text declares for its line. -/
namespace AslModel.PassAssume
open AslModel.Pass (Sym Tab upd emptyTab)

variable {R : Type}

/-- the pass state without the assumption annotation -/
def plainPS (s : PS R) : Pass.PS :=
  { pc := s.pc, tab := s.tab, repass := s.repass, out := s.out.map Ref.plain }

theorem plain_step_label (s : PS R) (n : Sym) : plainPS (step s (.label n)) = Pass.step (plainPS s) (.label n) := by
  cases h : s.tab n <;> simp [step, Pass.step, plainPS, h]

theorem plain_step_skip (s : PS R) (k : Nat) : plainPS (step s (.skip k)) = Pass.step (plainPS s) (.skip k) := by
  simp [step, Pass.step, plainPS]

theorem plain_step_assume (s : PS R) (f : R → R) : plainPS (step s (.assume f)) = plainPS s := by
  simp [step, plainPS]

theorem plain_step_ref (s : PS R) (n : Sym) (size : Int → R → Nat) :
    plainPS (step s (.ref n size)) = Pass.step (plainPS s) (.ref n (fun v => size v s.reg) none) := by
  simp only [step, Pass.step, plainPS]
  cases h : s.tab n with
  | none => simp [Ref.plain]
  | some v => simp [Ref.plain]

theorem step_reg_label (s : PS R) (n : Sym) : (step s (.label n)).reg = s.reg := rfl
theorem step_reg_skip (s : PS R) (k : Nat) : (step s (.skip k)).reg = s.reg := rfl
theorem step_reg_assume (s : PS R) (f : R → R) : (step s (.assume f)).reg = f s.reg := rfl
theorem step_reg_ref (s : PS R) (n : Sym) (size : Int → R → Nat) : (step s (.ref n size)).reg = s.reg := by
  simp only [step]; split <;> rfl

theorem run_cons (s : PS R) (st : Stmt R) (p : List (Stmt R)) : run s (st :: p) = run (step s st) p := rfl

/-- **simulation**: running a program from state `s` is running the erased program (sizes specialised to the
assumption in force at each line, starting from `s.reg`) in the plain model -/
theorem run_erase (p : List (Stmt R)) (s : PS R) : plainPS (run s p) = Pass.run (plainPS s) (erase s.reg p) := by
  induction p generalizing s with
  | nil => simp [run, Pass.run, erase]
  | cons st p ih =>
    rw [run_cons, ih]
    cases st with
    | label n =>
      rw [step_reg_label, plain_step_label]; rfl
    | skip k =>
      rw [step_reg_skip, plain_step_skip]; rfl
    | assume f =>
      rw [step_reg_assume, plain_step_assume]; rfl
    | ref n size =>
      rw [step_reg_ref, plain_step_ref]; rfl

theorem step_out_regs (s : PS R) (st : Stmt R) :
    (step s st).out.map (·.reg) = s.out.map (·.reg) ++ specRegs s.reg [st] := by
  cases st with
  | label n => simp [step, specRegs]
  | skip k => simp [step, specRegs]
  | assume f => simp [step, specRegs]
  | ref n size => simp only [step]; split <;> simp [specRegs]

theorem specRegs_cons (r : R) (st : Stmt R) (p : List (Stmt R)) :
    specRegs r (st :: p) = specRegs r [st] ++ specRegs (step ({ reg := r, tab := emptyTab } : PS R) st).reg p := by
  cases st with
  | label n => simp [specRegs, step]
  | skip k => simp [specRegs, step]
  | assume f => simp [specRegs, step]
  | ref n size => simp [specRegs, step, emptyTab]

theorem step_reg_indep (s s' : PS R) (st : Stmt R) (h : s.reg = s'.reg) : (step s st).reg = (step s' st).reg := by
  cases st with
  | label n => simpa [step]
  | skip k => simpa [step]
  | assume f => simp [step, h]
  | ref n size => rw [step_reg_ref, step_reg_ref]; exact h

/-- the assumption every recorded reference saw is the one in force at its line -/
theorem run_out_regs (p : List (Stmt R)) (s : PS R) :
    (run s p).out.map (·.reg) = s.out.map (·.reg) ++ specRegs s.reg p := by
  induction p generalizing s with
  | nil => simp [run, specRegs]
  | cons st p ih =>
    rw [run_cons, ih, step_out_regs, specRegs_cons s.reg st p, List.append_assoc]
    congr 2
    exact congrArg (fun r => specRegs r p) (step_reg_indep _ _ st rfl)

theorem erase_labels (r : R) (p : List (Stmt R)) : Pass.labels (erase r p) = labels p := by
  induction p generalizing r with
  | nil => rfl
  | cons st p ih =>
    cases st with
    | label n => simp [erase, labels, Pass.labels, ih]
    | skip k => simp [erase, labels, Pass.labels, ih]
    | assume f => simp [erase, labels, ih]
    | ref n size => simp [erase, labels, Pass.labels, ih]

theorem erase_clean (r : R) (p : List (Stmt R)) : Pass.Clean (erase r p) := by
  induction p generalizing r with
  | nil => intro st h; simp [erase] at h
  | cons st p ih =>
    cases st with
    | label n => intro x hx; simp only [erase, List.mem_cons] at hx; rcases hx with rfl | hx; exact trivial; exact ih r x hx
    | skip k => intro x hx; simp only [erase, List.mem_cons] at hx; rcases hx with rfl | hx; exact trivial; exact ih r x hx
    | assume f => intro x hx; simp only [erase] at hx; exact ih (f r) x hx
    | ref n size => intro x hx; simp only [erase, List.mem_cons] at hx; rcases hx with rfl | hx; exact trivial; exact ih r x hx

theorem pass_plain (T : Tab) (r : R) (p : List (Stmt R)) : plainPS (pass T r p) = Pass.pass T (erase r p) := by
  have := run_erase p ({ reg := r, tab := T } : PS R)
  simpa [pass, Pass.pass, plainPS] using this

theorem pass_regs (T : Tab) (r : R) (p : List (Stmt R)) : (pass T r p).out.map (·.reg) = specRegs r p := by
  have := run_out_regs p ({ reg := r, tab := T } : PS R)
  simpa [pass] using this

/-- a recorded reference is determined by its plain part and the assumption it saw -/
theorem out_ext (l1 l2 : List (Ref R)) (hp : l1.map Ref.plain = l2.map Ref.plain) (hr : l1.map (·.reg) = l2.map (·.reg)) :
    l1 = l2 := by
  induction l1 generalizing l2 with
  | nil => cases l2 with
    | nil => rfl
    | cons b l2 => simp at hp
  | cons a l1 ih =>
    cases l2 with
    | nil => simp at hp
    | cons b l2 =>
      simp only [List.map_cons, List.cons.injEq] at hp hr
      have hab : a = b := by
        cases a; cases b
        simp only [Ref.plain, Prod.mk.injEq] at hp
        simp_all
      rw [hab, ih l2 hp.2 hr.2]

/-- the pass loop with the per-pass reset only ever returns the state of a pass that started with `init` (or, for the
very first pass, with `r`) and ended without Repass -/
theorem assemble_some (reset : Bool) (init : R) (p : List (Stmt R)) (fuel : Nat) (T : Tab) (r : R) (k n : Nat) (s : PS R)
    (h : assemble reset init p fuel T r k = some (n, s)) :
    ∃ T' r', s = pass T' r' p ∧ s.repass = false ∧ k < n ∧ (reset = true → r' = init ∨ (r' = r ∧ n = k + 1)) := by
  induction fuel generalizing T r k with
  | zero => simp [assemble] at h
  | succ f ih =>
    simp only [assemble] at h
    split at h
    · obtain ⟨T', r', h1, h2, h3, h4⟩ := ih _ _ _ h
      refine ⟨T', r', h1, h2, by omega, ?_⟩
      intro hr
      rcases h4 hr with h4 | ⟨h4, _⟩
      · exact Or.inl h4
      · left; rw [h4]; simp [next, hr]
    · rename_i hrp
      simp only [Option.some.injEq, Prod.mk.injEq] at h
      obtain ⟨rfl, rfl⟩ := h
      exact ⟨T, r, rfl, by simpa using hrp, by omega, fun _ => Or.inr ⟨rfl, rfl⟩⟩

end AslModel.PassAssume
