import AslModel.Lemmas.PBind
import AslModel.Spec.PFileSkip
/-!
Lemmas for `Props/C07_Skip.lean`: `ReadRecordHeader` + `SkipRecord` consume exactly the bytes of a record
BIND does not copy; the record loop of pbind over source files that hold such records.
-/
namespace AslModel.Tools
open AslModel.PFile

theorem flatten_len16 (l : List (List Byte)) (h : ∀ e ∈ l, e.length = 16) : l.flatten.length = 16 * l.length := by
  induction l with
  | nil => rfl
  | cons e es ih =>
    have h1 := h e (by simp)
    have h2 := ih (fun x hx => h x (by simp [hx]))
    simp only [List.flatten_cons, List.length_append, List.length_cons, h1, h2]; omega

/-- the header variables after `ReadRecordHeader` read the header of a skippable record -/
def hdrAfter (prev : Hdr) : Skippable → Hdr
  | .rdata kind cpu seg gran _ _ => ⟨kind, cpu, seg, gran⟩
  | .relocInfo _ _ _ => { prev with hdr := 0x85 }
  | .other kind _ _ => { prev with hdr := kind }

/-- the bytes of the record behind what `ReadRecordHeader` reads -/
def bodyOf : Skippable → List Byte
  | .rdata _ _ _ _ start data => le32 start ++ le16 data.length ++ data
  | .relocInfo patches exports strings =>
      le32 patches.length ++ le32 exports.length ++ le32 strings.length ++ patches.flatten ++ exports.flatten ++ strings
  | .other _ start data => le32 start ++ le16 data.length ++ data

theorem read_skippable (prev : Hdr) (s : Skippable) (hwf : s.WF) (tl : List Byte) :
    readRecordHeader prev (serSkippable s ++ tl) = some (hdrAfter prev s, bodyOf s ++ tl) := by
  cases s with
  | rdata kind cpu seg gran start data =>
    obtain ⟨h1, h2, _, _⟩ := hwf
    have e1 : ¬ (kind.toNat = hEnd ∨ kind.toNat = hStart) := by simp only [consts]; omega
    have e2 : kind.toNat = hData ∨ kind.toNat = hRData ∨ kind.toNat = hReloc ∨ kind.toNat = hRReloc := by
      simp only [consts]; omega
    simp only [serSkippable, List.cons_append, List.nil_append, List.append_assoc, readRecordHeader, e1, e2,
      if_false, if_true, hdrAfter, bodyOf]
  | relocInfo patches exports strings =>
    simp [serSkippable, readRecordHeader, consts, hdrAfter, bodyOf]
  | other kind start data =>
    obtain ⟨h1, _, _⟩ := hwf
    have e1 : ¬ (kind.toNat = hEnd ∨ kind.toNat = hStart) := by simp only [consts]; omega
    have e2 : ¬ (kind.toNat = hData ∨ kind.toNat = hRData ∨ kind.toNat = hReloc ∨ kind.toNat = hRReloc) := by
      simp only [consts]; omega
    have e3 : ¬ kind.toNat ≤ 0x7f := by omega
    simp only [serSkippable, List.cons_append, List.nil_append, List.append_assoc, readRecordHeader, e1, e2, e3,
      if_false, hdrAfter, bodyOf]

theorem hdrAfter_kind (prev : Hdr) (s : Skippable) (hwf : s.WF) :
    0x82 ≤ (hdrAfter prev s).hdr.toNat := by
  cases s with
  | rdata kind cpu seg gran start data => exact hwf.1
  | relocInfo _ _ _ => simp [hdrAfter]
  | other kind _ _ => have := hwf.1; simp only [hdrAfter]; omega

theorem skip_skippable (prev : Hdr) (s : Skippable) (hwf : s.WF) (tl : List Byte) :
    skipRecord (hdrAfter prev s).hdr (bodyOf s ++ tl) = some tl := by
  cases s with
  | rdata kind cpu seg gran start data =>
    obtain ⟨h1, h2, h3, h4⟩ := hwf
    have e1 : ¬ kind.toNat = hStart := by simp only [consts]; omega
    have e2 : ¬ kind.toNat = hEnd := by simp only [consts]; omega
    have e3 : ¬ kind.toNat = hRelocInfo := by simp only [consts]; omega
    simp only [hdrAfter, bodyOf, skipRecord, e1, e2, e3, if_false, le32, le16, List.cons_append, List.nil_append]
    rw [rd16_le16 _ h4, List.drop_left]
  | relocInfo patches exports strings =>
    obtain ⟨h1, h2, h3, h4, h5⟩ := hwf
    have e1 : ¬ (0x85 : Byte).toNat = hStart := by decide
    have e2 : ¬ (0x85 : Byte).toNat = hEnd := by decide
    have e3 : (0x85 : Byte).toNat = hRelocInfo := by decide
    have e4 : ¬ hRelocInfo = hStart := by decide
    have e5 : ¬ hRelocInfo = hEnd := by decide
    simp only [hdrAfter, bodyOf, skipRecord, e1, e2, e3, e4, e5, if_false, if_true, le32, List.cons_append, List.nil_append,
      List.append_assoc]
    rw [rd32_le32 _ h3, rd32_le32 _ h4, rd32_le32 _ h5]
    have hl : 16 * patches.length + 16 * exports.length + strings.length =
        (patches.flatten ++ (exports.flatten ++ strings)).length := by
      simp only [List.length_append, flatten_len16 _ h1, flatten_len16 _ h2]; omega
    have ha : patches.flatten ++ (exports.flatten ++ (strings ++ tl)) =
        (patches.flatten ++ (exports.flatten ++ strings)) ++ tl := by simp only [List.append_assoc]
    rw [hl, ha, List.drop_left]
  | other kind start data =>
    obtain ⟨h1, h3, h4⟩ := hwf
    have e1 : ¬ kind.toNat = hStart := by simp only [consts]; omega
    have e2 : ¬ kind.toNat = hEnd := by simp only [consts]; omega
    have e3 : ¬ kind.toNat = hRelocInfo := by simp only [consts]; omega
    simp only [hdrAfter, bodyOf, skipRecord, e1, e2, e3, if_false, le32, le16, List.cons_append, List.nil_append]
    rw [rd16_le16 _ h4, List.drop_left]

/-- one pass of pbind's record loop over a record it does not copy: exactly the record's bytes are
consumed, nothing is written, the byte count is unchanged -/
theorem loop_skip (env : Env) (errno n fuel : Nat) (prev : Hdr) (sum : Nat) (s : Skippable) (hwf : s.WF)
    (tl out : List Byte) :
    pbindLoop env errno n (fuel + 1) prev sum (serSkippable s ++ tl) out =
      pbindLoop env errno n fuel (hdrAfter prev s) sum tl out := by
  rw [pbindLoop, read_skippable prev s hwf tl]
  have hk := hdrAfter_kind prev s hwf
  have e1 : ¬ (hdrAfter prev s).hdr.toNat = hStart := by simp only [consts]; omega
  have e2 : ¬ (hdrAfter prev s).hdr.toNat = hData := by simp only [consts]; omega
  have e3 : ¬ (hdrAfter prev s).hdr.toNat = hEnd := by simp only [consts]; omega
  simp only [e1, e2, e3, if_false, skip_skippable prev s hwf tl]

/-! ## source files with records of every kind -/

def ElWF : SrcEl → Prop
  | .item i => i.1.WF ∧ ∀ r, i.1 = .data r → r.cpu.toNat ≠ 0
  | .skip s => s.WF

theorem serEl_len1 (e : SrcEl) (h : ElWF e) : 1 ≤ (serEl e).length := by
  cases e with
  | item i => have := serItemForm_len5 i; simp only [serEl]; omega
  | skip s => cases s <;> simp [serEl, serSkippable]

theorem len_le_els (els : List SrcEl) (h : ∀ e ∈ els, ElWF e) : els.length ≤ ((els.map serEl).flatten).length := by
  induction els with
  | nil => simp
  | cons e es ih =>
    have h1 := serEl_len1 e (h e (by simp))
    have h2 := ih (fun x hx => h x (by simp [hx]))
    simp only [List.map_cons, List.flatten_cons, List.length_append, List.length_cons]; omega

theorem loop_els (env : Env) (errno n : Nat) (hb : 0 < env.bufSize) (hc : ChkHarmless env.cfg errno)
    (els : List SrcEl) (creator : List Byte) (hcr : env.lenSlack ≤ creator.length)
    (hwf : ∀ e ∈ els, ElWF e)
    (fuel : Nat) (hf : els.length < fuel) (prev : Hdr) (sum : Nat) (out : List Byte)
    (hn : ((els.map serEl).flatten ++ 0x00 :: creator).length ≤ n) :
    pbindLoop env errno n fuel prev sum ((els.map serEl).flatten ++ 0x00 :: creator) out =
      .ok (out ++ ((keptItems env.flt (itemsOfEls els)).map serItemAuto).flatten,
           sum + sumLen (keptItems env.flt (itemsOfEls els))) := by
  induction els generalizing fuel prev sum out with
  | nil =>
    cases fuel with
    | zero => omega
    | succ f => simp [loop_end, keptItems, sumLen, dataRecs, itemsOfEls]
  | cons e es ih =>
    cases fuel with
    | zero => omega
    | succ f =>
      have hwe := hwf e (by simp)
      have htl : env.lenSlack + 1 ≤ ((es.map serEl).flatten ++ 0x00 :: creator).length := by
        simp only [List.length_append, List.length_cons]; omega
      have hn' : ((es.map serEl).flatten ++ 0x00 :: creator).length ≤ n := by
        simp only [List.map_cons, List.flatten_cons, List.length_append] at hn ⊢; omega
      have ih' := ih (fun j hj => hwf j (by simp [hj])) f (by simp at hf; omega)
      simp only [List.map_cons, List.flatten_cons, List.append_assoc]
      cases e with
      | skip s =>
        simp only [serEl, itemsOfEls]
        rw [loop_skip env errno n f prev sum s hwe, ih' _ _ _ hn']
      | item i =>
        obtain ⟨it, sh⟩ := i
        obtain ⟨hwi, h0i⟩ := hwe
        simp only [serEl, itemsOfEls]
        cases it with
        | entry a =>
          have := loop_entry env errno n f prev sum a ((es.map serEl).flatten ++ 0x00 :: creator) out hwi hc
          simp only [serItemForm, List.append_assoc] at this ⊢
          rw [this, ih' _ _ _ hn', kept_entry, sumLen_entry]
          simp [serItemAuto]
        | data r =>
          have hr0 := h0i r rfl
          have hlen : r.data.length + ((es.map serEl).flatten ++ 0x00 :: creator).length ≤ n := by
            have h5 : r.data.length ≤ (serItemForm (.data r, sh)).length := by
              cases sh <;> simp only [serItemForm, serAuto, serLong, serShort] <;> (try split) <;> simp <;> omega
            simp only [List.map_cons, List.flatten_cons, List.length_append, serEl] at hn ⊢; omega
          rw [loop_data env errno n f prev sum r sh _ out hwi hr0 htl hlen hb hc]
          by_cases hk : keepItem (filterSpec env.flt) (.data r) = true
          · rw [if_pos hk, ih' _ _ _ hn', kept_data_yes _ _ _ _ hk, sumLen_data]
            simp [serItemAuto, Nat.add_assoc]
          · rw [if_neg hk, ih' _ _ _ hn', kept_data_no _ _ _ _ hk]

/-- hypotheses on one source file with records of every kind -/
def SrcElsOK (slack : Nat) (f : List SrcEl × List Byte) : Prop :=
  (∀ e ∈ f.1, ElWF e) ∧ slack ≤ f.2.length

theorem processFile_els (env : Env) (quiet : Bool) (st : St) (hb : 0 < env.bufSize)
    (hc : ChkHarmless env.cfg (effErrno quiet st.errno)) (f : List SrcEl × List Byte) (hf : SrcElsOK env.lenSlack f) :
    processFile env quiet st (serFileEls f.1 f.2) =
      .ok ⟨st.out ++ ((keptItems env.flt (itemsOfEls f.1)).map serItemAuto).flatten, effErrno quiet st.errno,
           st.sums ++ [sumLen (keptItems env.flt (itemsOfEls f.1))]⟩ := by
  obtain ⟨h1, h3⟩ := hf
  have hm : rd16 (0x89 : Byte) (0x14 : Byte) = Generated.fileMagic := by decide
  simp only [serFileEls, magic, List.cons_append, List.nil_append, List.append_assoc, processFile, hm,
    ne_eq, not_true_eq_false, if_false]
  have := loop_els env (effErrno quiet st.errno)
    ((0x89 : Byte) :: 0x14 :: ((f.1.map serEl).flatten ++ (0x00 :: f.2))).length hb hc f.1 f.2 h3 h1
    (((0x89 : Byte) :: 0x14 :: ((f.1.map serEl).flatten ++ (0x00 :: f.2))).length + 1)
    (by have := len_le_els f.1 h1; simp only [List.length_cons, List.length_append]; omega)
    default 0 st.out (by simp only [List.length_cons, List.length_append]; omega)
  unfold effErrno at this ⊢
  rw [this]
  simp

theorem processFiles_els (env : Env) (quiet : Bool) (hb : 0 < env.bufSize)
    (inputs : List (List SrcEl × List Byte)) (hin : ∀ f ∈ inputs, SrcElsOK env.lenSlack f) (st : St)
    (hc : ChkHarmless env.cfg (effErrno quiet st.errno)) :
    ∃ e, processFiles env quiet st (inputs.map (fun f => serFileEls f.1 f.2)) =
      .ok ⟨st.out ++ ((inputs.map (fun f => keptItems env.flt (itemsOfEls f.1))).flatten.map serItemAuto).flatten, e,
           st.sums ++ inputs.map (fun f => sumLen (keptItems env.flt (itemsOfEls f.1)))⟩ := by
  induction inputs generalizing st with
  | nil => exact ⟨st.errno, by simp [processFiles]⟩
  | cons f fs ih =>
    have h1 := processFile_els env quiet st hb hc f (hin f (by simp))
    simp only [List.map_cons, processFiles, h1, Res.ok_bind]
    obtain ⟨e, he⟩ := ih (fun g hg => hin g (by simp [hg]))
      ⟨st.out ++ ((keptItems env.flt (itemsOfEls f.1)).map serItemAuto).flatten, effErrno quiet st.errno,
       st.sums ++ [sumLen (keptItems env.flt (itemsOfEls f.1))]⟩ (by simpa [effErrno_idem] using hc)
    exact ⟨e, by rw [he]; simp⟩

/-- the sources with the skippable records taken out: what `C07_conserve` speaks about -/
def plainInputs (inputs : List (List SrcEl × List Byte)) : List (List (Item × Bool) × List Byte) :=
  inputs.map (fun f => (itemsOfEls f.1, f.2))

theorem itemsOfEls_wf (els : List SrcEl) (h : ∀ e ∈ els, ElWF e) :
    ∀ i ∈ itemsOfEls els, i.1.WF ∧ ∀ r, i.1 = .data r → r.cpu.toNat ≠ 0 := by
  induction els with
  | nil => intro i hi; simp [itemsOfEls] at hi
  | cons e es ih =>
    have ih' := ih (fun x hx => h x (by simp [hx]))
    cases e with
    | skip s => simpa [itemsOfEls] using ih'
    | item j =>
      intro i hi
      simp only [itemsOfEls, List.mem_cons] at hi
      rcases hi with rfl | hi
      · exact h (.item i) (by simp)
      · exact ih' i hi

/-! ## the SPEC reader used on real files (`parseFileSkipping`) reads `serFileEls` back to the items -/

theorem strip_skip (f : Nat) (s : Skippable) (hwf : s.WF) (tl : List Byte) :
    stripSkips (f + 1) (serSkippable s ++ tl) = stripSkips f tl := by
  cases s with
  | rdata kind cpu seg gran start data =>
    obtain ⟨h1, h2, h3, h4⟩ := hwf
    have c0 : ¬ kind.toNat = 0 := by omega
    have c1 : ¬ kind.toNat = 0x80 := by omega
    have c2 : ¬ kind.toNat = 0x81 := by omega
    have c3 : ¬ kind.toNat ≤ 0x7f := by omega
    have hl : ¬ (data ++ tl).length < data.length := by simp
    simp only [serSkippable, le32, le16, List.cons_append, List.nil_append, stripSkips, c0, c1, c2, c3, h2, if_false, if_true]
    rw [rd16_le16 _ h4]
    simp only [hl, if_false, List.drop_left]
  | relocInfo patches exports strings =>
    obtain ⟨h1, h2, h3, h4, h5⟩ := hwf
    have hlen : 16 * patches.length + 16 * exports.length + strings.length =
        (patches.flatten ++ (exports.flatten ++ strings)).length := by
      simp only [List.length_append, flatten_len16 _ h1, flatten_len16 _ h2]; omega
    have ha : patches.flatten ++ (exports.flatten ++ (strings ++ tl)) =
        (patches.flatten ++ (exports.flatten ++ strings)) ++ tl := by simp only [List.append_assoc]
    have c0 : ¬ (0x85 : Byte).toNat = 0 := by decide
    have c1 : ¬ (0x85 : Byte).toNat = 0x80 := by decide
    have c2 : ¬ (0x85 : Byte).toNat = 0x81 := by decide
    have c3 : ¬ (0x85 : Byte).toNat ≤ 0x7f := by decide
    have c4 : ¬ (0x85 : Byte).toNat ≤ 0x84 := by decide
    have c5 : (0x85 : Byte).toNat = 0x85 := by decide
    simp +decide only [serSkippable, le32, List.cons_append, List.nil_append, List.append_assoc, stripSkips, c0, c1, c2, c3, c4, c5,
      if_false, if_true]
    rw [rd32_le32 _ h3, rd32_le32 _ h4, rd32_le32 _ h5, hlen, ha]
    have hl : ¬ (patches.flatten ++ (exports.flatten ++ strings) ++ tl).length <
        (patches.flatten ++ (exports.flatten ++ strings)).length := by simp
    simp only [hl, if_false, List.drop_left]
  | other kind start data =>
    obtain ⟨h1, h3, h4⟩ := hwf
    have c0 : ¬ kind.toNat = 0 := by omega
    have c1 : ¬ kind.toNat = 0x80 := by omega
    have c2 : ¬ kind.toNat = 0x81 := by omega
    have c3 : ¬ kind.toNat ≤ 0x7f := by omega
    have c4 : ¬ kind.toNat ≤ 0x84 := by omega
    have c5 : ¬ kind.toNat = 0x85 := by omega
    have hl : ¬ (data ++ tl).length < data.length := by simp
    simp only [serSkippable, le32, le16, List.cons_append, List.nil_append, stripSkips, c0, c1, c2, c3, c4, c5, if_false]
    rw [rd16_le16 _ h4]
    simp only [hl, if_false, List.drop_left]

theorem strip_long (f : Nat) (r : Rec) (hwf : r.WF) (tl : List Byte) :
    stripSkips (f + 1) (serLong r ++ tl) = (stripSkips f tl).map (fun t => serLong r ++ t) := by
  have c0 : ¬ (0x81 : Byte).toNat = 0 := by decide
  have c1 : ¬ (0x81 : Byte).toNat = 0x80 := by decide
  have c2 : (0x81 : Byte).toNat = 0x81 := by decide
  have hl : ¬ (r.data ++ tl).length < r.data.length := by simp
  simp +decide only [serLong, le32, le16, List.cons_append, List.nil_append, stripSkips, c0, c1, c2, if_false, if_true]
  rw [rd16_le16 _ hwf.2]
  simp only [hl, if_false, List.drop_left, List.take_left]

theorem strip_short (f : Nat) (r : Rec) (hs : r.shortOK = true) (hwf : r.WF) (tl : List Byte) :
    stripSkips (f + 1) (serShort r ++ tl) = (stripSkips f tl).map (fun t => serShort r ++ t) := by
  obtain ⟨_, _, h3, h4⟩ := (shortOK_iff r).mp hs
  have c1 : ¬ r.cpu.toNat = 0x80 := by omega
  have c2 : ¬ r.cpu.toNat = 0x81 := by omega
  have c3 : r.cpu.toNat ≤ 0x7f := by omega
  have hl : ¬ (r.data ++ tl).length < r.data.length := by simp
  simp only [serShort, le32, le16, List.cons_append, List.nil_append, stripSkips, h4, c1, c2, c3, if_false, if_true]
  rw [rd16_le16 _ hwf.2]
  simp only [hl, if_false, List.drop_left, List.take_left]

theorem strip_item (f : Nat) (i : Item × Bool) (hwf : i.1.WF) (tl : List Byte) :
    stripSkips (f + 1) (serItemForm i ++ tl) = (stripSkips f tl).map (fun t => serItemForm i ++ t) := by
  obtain ⟨it, sh⟩ := i
  cases it with
  | entry a =>
    have c0 : ¬ (0x80 : Byte).toNat = 0 := by decide
    have c1 : (0x80 : Byte).toNat = 0x80 := by decide
    simp +decide only [serItemForm, le32, List.cons_append, List.nil_append, stripSkips, c0, c1, if_false, if_true]
    simp [List.take, List.drop]
    intro h; omega
  | data r =>
    cases sh with
    | false => exact strip_long f r hwf tl
    | true =>
      simp only [serItemForm, serAuto]
      cases hs : r.shortOK with
      | true => simpa using strip_short f r hs hwf tl
      | false => simpa using strip_long f r hwf tl

theorem strip_els (els : List SrcEl) (creator : List Byte) (hwf : ∀ e ∈ els, ElWF e) (fuel : Nat) (hf : els.length < fuel) :
    stripSkips fuel ((els.map serEl).flatten ++ 0x00 :: creator) =
      some (((itemsOfEls els).map serItemForm).flatten ++ 0x00 :: creator) := by
  induction els generalizing fuel with
  | nil =>
    cases fuel with
    | zero => omega
    | succ f => simp [stripSkips, itemsOfEls]
  | cons e es ih =>
    cases fuel with
    | zero => omega
    | succ f =>
      have ih' := ih (fun j hj => hwf j (by simp [hj])) f (by simp at hf; omega)
      have hwe := hwf e (by simp)
      simp only [List.map_cons, List.flatten_cons, List.append_assoc]
      cases e with
      | skip s =>
        simp only [serEl, itemsOfEls]
        rw [strip_skip f s hwe, ih']
      | item i =>
        simp only [serEl, itemsOfEls, List.map_cons, List.flatten_cons, List.append_assoc]
        rw [strip_item f i hwe.1, ih']
        rfl

end AslModel.Tools
