import AslModel.Lemmas.DisChunks
/-! chunks.c `AddChunk` as it is written (`addChunkC`: unsorted array, first-fit search, merge scan from index 1, removal by
moving the last element into the hole) computes the same set of maximal ranges as the interval-set insertion `ins`:
the array invariant `SepU`, the loop invariant `InvC` of the `do … while (Found)` loop, uniqueness of a separated
description of a set of addresses, and `sortChunks` as the normal form. -/
namespace AslModel.Dis

/-! ### `Overlap` -/

/-- chunks.c `Overlap` on two list elements -/
def touch (c d : Chunk) : Bool := overlap c.start c.len d.start d.len

theorem overlap_iff (s1 l1 s2 l2 : Nat) : overlap s1 l1 s2 l2 = true ↔ s1 ≤ s2 + l2 ∧ s2 ≤ s1 + l1 := by
  unfold overlap
  simp only [Bool.or_eq_true, Bool.and_eq_true, beq_iff_eq, decide_eq_true_eq]
  omega

theorem touch_iff (c d : Chunk) : touch c d = true ↔ c.start ≤ d.start + d.len ∧ d.start ≤ c.start + c.len :=
  overlap_iff _ _ _ _

theorem touch_false_iff (c d : Chunk) : touch c d = false ↔ d.start + d.len < c.start ∨ c.start + c.len < d.start := by
  have := touch_iff c d
  cases h : touch c d
  · simp only [h, Bool.false_eq_true, false_iff] at this; simp only [true_iff]; omega
  · simp only [h, true_iff] at this; simp only [Bool.true_eq_false, false_iff]; omega

theorem touch_comm (c d : Chunk) : touch c d = touch d c := by
  cases h : touch d c
  · rw [touch_false_iff] at *; omega
  · rw [touch_iff] at *; omega

theorem touch_self (c : Chunk) : touch c c = true := by rw [touch_iff]; omega

/-- `SetChunk` of two non-empty ranges that overlap or touch: its length is positive and it covers exactly both -/
theorem hull_pos (s1 l1 s2 l2 : Nat) : 0 < (hull s1 l1 s2 l2).len := by unfold hull; simp

theorem covers_hull (c d : Chunk) (hc : 0 < c.len) (hd : 0 < d.len) (ht : touch c d = true) (x : Nat) :
    covers (hull c.start c.len d.start d.len) x ↔ covers c x ∨ covers d x := by
  rw [touch_iff] at ht
  unfold covers hull
  simp only
  omega

/-- a range that stays clear of two ranges stays clear of their `SetChunk` (the two overlap or touch) -/
theorem touch_hull_false (e c d : Chunk) (hc : 0 < c.len) (hd : 0 < d.len) (ht : touch c d = true)
    (h1 : touch e c = false) (h2 : touch e d = false) : touch e (hull c.start c.len d.start d.len) = false := by
  rw [touch_iff] at ht
  rw [touch_false_iff] at *
  unfold hull
  simp only
  omega

/-! ### the array between two calls -/

/-- what chunks.c keeps between two `AddChunk` calls: non-empty ranges, no two of which overlap or touch – in any order -/
def SepU (l : List Chunk) : Prop := (∀ c ∈ l, 0 < c.len) ∧ l.Pairwise (fun c d => touch c d = false)

theorem sepU_nil : SepU [] := ⟨(by intro c hc; cases hc), List.Pairwise.nil⟩

theorem pairwise_touch_mem : ∀ (l : List Chunk), l.Pairwise (fun c d => touch c d = false) →
    ∀ c ∈ l, ∀ d ∈ l, c = d ∨ touch c d = false := by
  intro l
  induction l with
  | nil => intro _ c hc; cases hc
  | cons e es ih =>
    intro hp c hc d hd
    rw [List.pairwise_cons] at hp
    rcases List.mem_cons.mp hc with rfl | hc' <;> rcases List.mem_cons.mp hd with rfl | hd'
    · exact Or.inl rfl
    · exact Or.inr (hp.1 d hd')
    · right; rw [touch_comm]; exact hp.1 c hc'
    · exact ih hp.2 c hc' d hd'

/-- two elements of the array that overlap or touch are the same element -/
theorem SepU.eq_of_touch {l : List Chunk} (h : SepU l) {c d : Chunk} (hc : c ∈ l) (hd : d ∈ l) (ht : touch c d = true) : c = d := by
  rcases pairwise_touch_mem l h.2 c hc d hd with h1 | h1
  · exact h1
  · rw [ht] at h1; cases h1

/-- the sorted form `Sep` is a special case -/
theorem Sep.sepU : ∀ {l : List Chunk}, Sep l → SepU l := by
  intro l
  induction l with
  | nil => intro _; exact sepU_nil
  | cons c cs ih =>
    intro h
    obtain ⟨hc, hgap, hrest⟩ := h
    have ih' := ih hrest
    refine ⟨?_, ?_⟩
    · intro d hd
      rcases List.mem_cons.mp hd with rfl | hd
      · exact hc
      · exact ih'.1 d hd
    · rw [List.pairwise_cons]
      refine ⟨?_, ih'.2⟩
      intro d hd
      rw [touch_false_iff]
      exact Or.inr (hgap d hd)

/-- **uniqueness**: a set of addresses has only one description by separated non-empty ranges -/
theorem sepU_mem_of_area_eq {l1 l2 : List Chunk} (h1 : SepU l1) (h2 : SepU l2) (ha : ∀ x, area l1 x ↔ area l2 x) :
    ∀ c ∈ l1, c ∈ l2 := by
  intro c hc
  have hcl := h1.1 c hc
  obtain ⟨d, hd, hdc⟩ := (ha c.start).mp ⟨c, hc, by unfold covers; omega⟩
  have hdl := h2.1 d hd
  unfold covers at hdc
  -- the starts agree
  have hs : d.start = c.start := by
    apply Classical.byContradiction
    intro hne
    obtain ⟨c', hc', hx⟩ := (ha (c.start - 1)).mpr ⟨d, hd, by unfold covers; omega⟩
    unfold covers at hx
    have : c' = c := h1.eq_of_touch hc' hc (by rw [touch_iff]; omega)
    subst this
    omega
  -- the ends agree
  have he : d.start + d.len = c.start + c.len := by
    apply Classical.byContradiction
    intro hne
    rcases Nat.lt_or_gt_of_ne hne with hlt | hgt
    · obtain ⟨d', hd', hx⟩ := (ha (d.start + d.len)).mp ⟨c, hc, by unfold covers; omega⟩
      unfold covers at hx
      have : d' = d := h2.eq_of_touch hd' hd (by rw [touch_iff]; omega)
      subst this
      omega
    · obtain ⟨c', hc', hx⟩ := (ha (c.start + c.len)).mpr ⟨d, hd, by unfold covers; omega⟩
      unfold covers at hx
      have : c' = c := h1.eq_of_touch hc' hc (by rw [touch_iff]; omega)
      subst this
      omega
  have : c = d := by
    cases c; cases d
    simp only at hs he
    simp only [Chunk.mk.injEq]
    omega
  rw [this]; exact hd

/-! ### indexed view of the array (`Chunks[z]` is `l.getD z default`) -/

theorem chunkGetD_lt (l : List Chunk) (i : Nat) (h : i < l.length) : l.getD i default = l[i] := by
  simp [List.getD_eq_getElem?_getD, h]

theorem chunkGetD_mem (l : List Chunk) (i : Nat) (h : i < l.length) : l.getD i default ∈ l := by
  rw [chunkGetD_lt l i h]; exact List.getElem_mem h

theorem chunk_mem_getD (l : List Chunk) (c : Chunk) (h : c ∈ l) : ∃ i, i < l.length ∧ l.getD i default = c := by
  obtain ⟨i, hi, rfl⟩ := List.mem_iff_getElem.mp h
  exact ⟨i, hi, chunkGetD_lt l i hi⟩

theorem chunkGetD_set (l : List Chunk) (i j : Nat) (a : Chunk) :
    (l.set i a).getD j default = if i = j ∧ j < l.length then a else l.getD j default := by
  simp only [List.getD_eq_getElem?_getD, List.getElem?_set]
  by_cases h : i = j
  · subst h
    by_cases h2 : i < l.length
    · simp [h2]
    · simp [h2]
  · simp [h]

/-- `Chunks[f2] = Chunks[--RealLen]` -/
def swapRemove (l : List Chunk) (f2 : Nat) : List Chunk := (l.set f2 (l.getD (l.length - 1) default)).dropLast

theorem swapRemove_length (l : List Chunk) (f2 : Nat) : (swapRemove l f2).length = l.length - 1 := by
  simp [swapRemove]

theorem swapRemove_getD (l : List Chunk) (f2 j : Nat) (hj : j < l.length - 1) :
    (swapRemove l f2).getD j default = if j = f2 then l.getD (l.length - 1) default else l.getD j default := by
  unfold swapRemove
  have h1 : ((l.set f2 (l.getD (l.length - 1) default)).dropLast).getD j default =
      (l.set f2 (l.getD (l.length - 1) default)).getD j default := by
    simp only [List.getD_eq_getElem?_getD, List.getElem?_dropLast, List.length_set]
    simp [hj]
  rw [h1, chunkGetD_set]
  by_cases h : f2 = j
  · subst h
    have : f2 < l.length := by omega
    simp [this]
  · have : ¬ j = f2 := fun e => h e.symm
    simp [h, this]

theorem area_iff_getD (l : List Chunk) (x : Nat) : area l x ↔ ∃ i, i < l.length ∧ covers (l.getD i default) x := by
  constructor
  · rintro ⟨c, hc, hx⟩
    obtain ⟨i, hi, rfl⟩ := chunk_mem_getD l c hc
    exact ⟨i, hi, hx⟩
  · rintro ⟨i, hi, hx⟩
    exact ⟨_, chunkGetD_mem l i hi, hx⟩

theorem sepU_iff_getD (l : List Chunk) : SepU l ↔
    (∀ i, i < l.length → 0 < (l.getD i default).len) ∧
    (∀ i j, i < l.length → j < l.length → i ≠ j → touch (l.getD i default) (l.getD j default) = false) := by
  constructor
  · intro h
    refine ⟨fun i hi => h.1 _ (chunkGetD_mem l i hi), ?_⟩
    have hp := List.pairwise_iff_getElem.mp h.2
    intro i j hi hj hne
    rw [chunkGetD_lt l i hi, chunkGetD_lt l j hj]
    rcases Nat.lt_or_gt_of_ne hne with hlt | hgt
    · exact hp i j hi hj hlt
    · rw [touch_comm]; exact hp j i hj hi hgt
  · rintro ⟨hpos, hsep⟩
    refine ⟨?_, ?_⟩
    · intro c hc
      obtain ⟨i, hi, rfl⟩ := chunk_mem_getD l c hc
      exact hpos i hi
    · rw [List.pairwise_iff_getElem]
      intro i j hi hj hlt
      have := hsep i j hi hj (by omega)
      rwa [chunkGetD_lt l i hi, chunkGetD_lt l j hj] at this

/-! ### the `do … while (Found)` loop -/

/-- state of the merge loop: `Chunks[f1]` holds `cur`, the other elements are separated from each other, and the elements in
front of `f1` are clear of `cur` (this is why the scan may start at index 1 and why `Chunks[f1]` never becomes the hole's
filler: every `f2` lies behind `f1`) -/
structure InvC (l : List Chunk) (f1 : Nat) (cur : Chunk) : Prop where
  hf : f1 < l.length
  hcur : l.getD f1 default = cur
  pos : ∀ i, i < l.length → 0 < (l.getD i default).len
  sep : ∀ i j, i < l.length → j < l.length → i ≠ j → i ≠ f1 → j ≠ f1 → touch (l.getD i default) (l.getD j default) = false
  low : ∀ i, i < f1 → touch (l.getD i default) cur = false

/-- the scan of one round: first `z ≥ 1`, `z ≠ f1` with `Overlap(Chunks[z], Chunks[f1])` -/
def scanC (l : List Chunk) (f1 : Nat) (cur : Chunk) : Option Nat :=
  (List.range l.length).find? (fun z => decide (1 ≤ z) && z != f1 &&
    overlap (l.getD z default).start (l.getD z default).len cur.start cur.len)

theorem scanC_some (l : List Chunk) (f1 : Nat) (cur : Chunk) (f2 : Nat) (h : scanC l f1 cur = some f2) :
    f2 < l.length ∧ f2 ≠ f1 ∧ touch (l.getD f2 default) cur = true := by
  unfold scanC at h
  have hm := List.mem_of_find?_eq_some h
  have hp := List.find?_some h
  simp only [Bool.and_eq_true, decide_eq_true_eq, bne_iff_ne, ne_eq] at hp
  exact ⟨List.mem_range.mp hm, hp.1.2, hp.2⟩

theorem scanC_none (l : List Chunk) (f1 : Nat) (cur : Chunk) (h : scanC l f1 cur = none) :
    ∀ z, 1 ≤ z → z < l.length → z ≠ f1 → touch (l.getD z default) cur = false := by
  unfold scanC at h
  rw [List.find?_eq_none] at h
  intro z hz1 hz2 hz3
  have := h z (List.mem_range.mpr hz2)
  simp only [Bool.and_eq_true, decide_eq_true_eq, bne_iff_ne, ne_eq, not_and, Bool.not_eq_true] at this
  exact this ⟨hz1, hz3⟩

/-- one round that found `f2`: the invariant holds again, the covered set is the same, the array is one shorter -/
theorem InvC.step {l : List Chunk} {f1 : Nat} {cur : Chunk} (h : InvC l f1 cur) (f2 : Nat)
    (h2 : f2 < l.length) (hne : f2 ≠ f1) (ht : touch (l.getD f2 default) cur = true) :
    let c2 := l.getD f2 default
    let cur' := hull cur.start cur.len c2.start c2.len
    let l2 := swapRemove (l.set f1 cur') f2
    InvC l2 f1 cur' ∧ (∀ x, area l2 x ↔ area l x) ∧ l2.length + 1 = l.length := by
  intro c2 cur' l2
  have hf := h.hf
  -- every `f2` lies behind `f1`
  have hgt : f1 < f2 := by
    rcases Nat.lt_or_gt_of_ne hne with hlt | hgt
    · have := h.low f2 hlt; rw [ht] at this; cases this
    · exact hgt
  have hcurpos : 0 < cur.len := by have := h.pos f1 hf; rwa [h.hcur] at this
  have hc2pos : 0 < c2.len := h.pos f2 h2
  have htc : touch cur c2 = true := by rw [touch_comm]; exact ht
  have hlen1 : (l.set f1 cur').length = l.length := List.length_set
  have hlen2 : l2.length = l.length - 1 := by show (swapRemove _ _).length = _; rw [swapRemove_length, hlen1]
  -- the elements of the new array
  have hget : ∀ j, j < l.length - 1 → l2.getD j default =
      if j = f1 then cur' else if j = f2 then l.getD (l.length - 1) default else l.getD j default := by
    intro j hj
    show (swapRemove _ _).getD j default = _
    rw [swapRemove_getD _ _ _ (by rw [hlen1]; exact hj), hlen1]
    by_cases hj2 : j = f2
    · subst hj2
      have : ¬ j = f1 := by omega
      simp only [if_true, this, if_false]
      rw [chunkGetD_set]
      have : ¬ (f1 = l.length - 1 ∧ l.length - 1 < l.length) := by omega
      simp [this]
    · simp only [hj2, if_false]
      rw [chunkGetD_set]
      by_cases hj1 : j = f1
      · subst hj1; simp [hf]
      · have : ¬ (f1 = j ∧ j < l.length) := by omega
        simp [this, hj1]
  -- where an element of the new array comes from
  have hsrc : ∀ j, j < l.length - 1 → j ≠ f1 → ∃ j', j' < l.length ∧ j' ≠ f1 ∧ j' ≠ f2 ∧ l2.getD j default = l.getD j' default ∧
      (j ≠ f2 → j' = j) ∧ (j = f2 → j' = l.length - 1) := by
    intro j hj hj1
    by_cases hj2 : j = f2
    · refine ⟨l.length - 1, by omega, by omega, by omega, ?_, fun hx => absurd hj2 hx, fun _ => rfl⟩
      rw [hget j hj, if_neg hj1, if_pos hj2]
    · refine ⟨j, by omega, hj1, hj2, ?_, fun _ => rfl, fun hx => absurd hx hj2⟩
      rw [hget j hj, if_neg hj1, if_neg hj2]
  have hcov' : ∀ x, covers cur' x ↔ covers cur x ∨ covers c2 x := covers_hull cur c2 hcurpos hc2pos htc
  refine ⟨⟨by omega, ?_, ?_, ?_, ?_⟩, ?_, by omega⟩
  · rw [hget f1 (by omega)]; simp
  · intro i hi
    rw [hlen2] at hi
    by_cases hi1 : i = f1
    · rw [hget i hi]; simp only [hi1, if_true]; exact hull_pos _ _ _ _
    · obtain ⟨i', hi', _, _, he, _, _⟩ := hsrc i hi hi1
      rw [he]; exact h.pos i' hi'
  · intro i j hi hj hij hi1 hj1
    rw [hlen2] at hi hj
    obtain ⟨i', hi', hi1', _, hei, hia, hib⟩ := hsrc i hi hi1
    obtain ⟨j', hj', hj1', _, hej, hja, hjb⟩ := hsrc j hj hj1
    rw [hei, hej]
    apply h.sep i' j' hi' hj' ?_ hi1' hj1'
    by_cases hi2 : i = f2
    · have := hib hi2
      have := hja (by omega)
      omega
    · have := hia hi2
      by_cases hj2 : j = f2
      · have := hjb hj2; omega
      · have := hja hj2; omega
  · intro i hi
    have hil : i < l.length - 1 := by omega
    have hi1 : i ≠ f1 := by omega
    have hi2 : i ≠ f2 := by omega
    rw [hget i hil]
    simp only [hi1, hi2, if_false]
    exact touch_hull_false _ cur c2 hcurpos hc2pos htc (h.low i hi) (h.sep i f2 (by omega) h2 hi2 hi1 hne)
  · intro x
    rw [area_iff_getD, area_iff_getD]
    constructor
    · rintro ⟨j, hj, hx⟩
      rw [hlen2] at hj
      by_cases hj1 : j = f1
      · rw [hget j hj] at hx
        simp only [hj1, if_true] at hx
        rcases (hcov' x).mp hx with hx | hx
        · exact ⟨f1, hf, by rw [h.hcur]; exact hx⟩
        · exact ⟨f2, h2, hx⟩
      · obtain ⟨j', hj', _, _, he, _, _⟩ := hsrc j hj hj1
        exact ⟨j', hj', by rw [← he]; exact hx⟩
    · rintro ⟨j, hj, hx⟩
      by_cases hj1 : j = f1
      · refine ⟨f1, by omega, ?_⟩
        rw [hget f1 (by omega)]; simp only [if_true]
        rw [hj1, h.hcur] at hx
        exact (hcov' x).mpr (Or.inl hx)
      · by_cases hj2 : j = f2
        · refine ⟨f1, by omega, ?_⟩
          rw [hget f1 (by omega)]; simp only [if_true]
          rw [hj2] at hx
          exact (hcov' x).mpr (Or.inr hx)
        · by_cases hjl : j = l.length - 1
          · -- the last element now sits in the hole
            refine ⟨f2, by omega, ?_⟩
            rw [hget f2 (by omega)]
            have : ¬ f2 = f1 := hne
            simp only [this, if_false, if_true]
            rw [← hjl]; exact hx
          · refine ⟨j, by omega, ?_⟩
            rw [hget j (by omega)]
            simp only [hj1, hj2, if_false]
            exact hx

/-- the loop has ended: the whole array is separated -/
theorem InvC.done {l : List Chunk} {f1 : Nat} {cur : Chunk} (h : InvC l f1 cur) (hn : scanC l f1 cur = none) : SepU l := by
  rw [sepU_iff_getD]
  refine ⟨h.pos, ?_⟩
  have hscan := scanC_none l f1 cur hn
  -- `Chunks[f1]` against any other element
  have key : ∀ j, j < l.length → j ≠ f1 → touch (l.getD j default) cur = false := by
    intro j hj hj1
    rcases Nat.lt_or_gt_of_ne hj1 with hlt | hgt
    · exact h.low j hlt
    · exact hscan j (by omega) hj hj1
  intro i j hi hj hij
  by_cases hi1 : i = f1
  · subst hi1
    rw [h.hcur, touch_comm]
    exact key j hj (by omega)
  · by_cases hj1 : j = f1
    · subst hj1
      rw [h.hcur]
      exact key i hi hi1
    · exact h.sep i j hi hj hij hi1 hj1

theorem mergeLoopC_succ (fuel : Nat) (l : List Chunk) (f1 : Nat) (cur : Chunk) :
    mergeLoopC (fuel + 1) l f1 cur =
      match scanC l f1 cur with
      | none => l
      | some f2 =>
        let c2 := l.getD f2 default
        let cur' := hull cur.start cur.len c2.start c2.len
        mergeLoopC fuel (swapRemove (l.set f1 cur') f2) f1 cur' := by
  rw [mergeLoopC]
  rfl

/-- the loop, with the fuel `AddChunk` gives it (the array length: every round shortens the array by one) -/
theorem mergeLoopC_spec : ∀ (fuel : Nat) (l : List Chunk) (f1 : Nat) (cur : Chunk), InvC l f1 cur → l.length ≤ fuel →
    SepU (mergeLoopC fuel l f1 cur) ∧ ∀ x, area (mergeLoopC fuel l f1 cur) x ↔ area l x := by
  intro fuel
  induction fuel with
  | zero => intro l f1 cur h hl; have := h.hf; omega
  | succ n ih =>
    intro l f1 cur h hl
    rw [mergeLoopC_succ]
    cases hs : scanC l f1 cur with
    | none => exact ⟨h.done hs, fun _ => Iff.rfl⟩
    | some f2 =>
      obtain ⟨h2, hne, ht⟩ := scanC_some l f1 cur f2 hs
      obtain ⟨hinv, harea, hlen⟩ := h.step f2 h2 hne ht
      simp only
      obtain ⟨r1, r2⟩ := ih _ _ _ hinv (by omega)
      exact ⟨r1, fun x => (r2 x).trans (harea x)⟩

/-! ### the first-fit search -/

theorem findIdxFrom_none (p : Chunk → Bool) : ∀ (l : List Chunk) (i : Nat), findIdxFrom p i l = none → ∀ c ∈ l, p c = false := by
  intro l
  induction l with
  | nil => intro _ _ c hc; cases hc
  | cons e es ih =>
    intro i h c hc
    unfold findIdxFrom at h
    split at h
    · cases h
    · rename_i hp
      rcases List.mem_cons.mp hc with rfl | hc
      · simpa using hp
      · exact ih (i + 1) h c hc

theorem findIdxFrom_some (p : Chunk → Bool) : ∀ (l : List Chunk) (i f : Nat), findIdxFrom p i l = some f →
    i ≤ f ∧ f - i < l.length ∧ p (l.getD (f - i) default) = true ∧ ∀ k, k < f - i → p (l.getD k default) = false := by
  intro l
  induction l with
  | nil => intro i f h; cases h
  | cons e es ih =>
    intro i f h
    unfold findIdxFrom at h
    split at h
    · rename_i hp
      cases h
      refine ⟨Nat.le_refl _, by simp, by simpa using hp, fun k hk => by omega⟩
    · rename_i hp
      obtain ⟨h1, h2, h3, h4⟩ := ih (i + 1) f h
      have e : f - i = (f - (i + 1)) + 1 := by omega
      refine ⟨by omega, by rw [e]; simp; omega, by rw [e]; simpa using h3, ?_⟩
      intro k hk
      cases k with
      | zero => simpa using hp
      | succ k => simpa using h4 k (by omega)

/-! ### `AddChunk` -/

/-- `AddChunk` on a separated array: the array stays separated and covers exactly the new piece more -/
theorem addChunkC_spec (l : List Chunk) (s n : Nat) (h : SepU l) :
    SepU (addChunkC l s n) ∧ ∀ x, area (addChunkC l s n) x ↔ area l x ∨ (s ≤ x ∧ x < s + n) := by
  unfold addChunkC
  split
  · rename_i hn
    exact ⟨h, fun x => ⟨Or.inl, fun hx => hx.elim id (fun hx => by omega)⟩⟩
  · rename_i hn
    have hnpos : 0 < n := by omega
    split
    · -- found: `Chunks[f1]` is extended, then the loop
      rename_i f1 hfind
      obtain ⟨_, hf, hp, hfirst⟩ := findIdxFrom_some _ l 0 f1 hfind
      simp only [Nat.sub_zero] at hf hp hfirst
      have hI := (sepU_iff_getD l).mp h
      let c := l.getD f1 default
      let cur := hull s n c.start c.len
      have hcpos : 0 < c.len := hI.1 f1 hf
      have htn : touch ⟨s, n⟩ c = true := hp
      have hcov : ∀ x, covers cur x ↔ covers ⟨s, n⟩ x ∨ covers c x := covers_hull ⟨s, n⟩ c hnpos hcpos htn
      have hget : ∀ j, (l.set f1 cur).getD j default = if j = f1 then cur else l.getD j default := by
        intro j
        rw [chunkGetD_set]
        by_cases hj : j = f1
        · subst hj; simp [hf]
        · have : ¬ (f1 = j ∧ j < l.length) := by omega
          simp [this, hj]
      have hinv : InvC (l.set f1 cur) f1 cur := by
        refine ⟨by rw [List.length_set]; exact hf, by rw [hget]; simp, ?_, ?_, ?_⟩
        · intro i hi
          rw [List.length_set] at hi
          rw [hget]
          split
          · exact hull_pos _ _ _ _
          · exact hI.1 i hi
        · intro i j hi hj hij hi1 hj1
          rw [List.length_set] at hi hj
          rw [hget, hget]
          simp only [hi1, hj1, if_false]
          exact hI.2 i j hi hj hij
        · intro i hi
          rw [hget]
          have : ¬ i = f1 := by omega
          simp only [this, if_false]
          have h1 : touch (l.getD i default) ⟨s, n⟩ = false := by
            rw [touch_comm]; exact hfirst i hi
          exact touch_hull_false _ ⟨s, n⟩ c hnpos hcpos htn h1 (hI.2 i f1 (by omega) hf this)
      obtain ⟨r1, r2⟩ := mergeLoopC_spec l.length (l.set f1 cur) f1 cur hinv (by rw [List.length_set]; exact Nat.le_refl _)
      refine ⟨r1, fun x => (r2 x).trans ?_⟩
      rw [area_iff_getD, area_iff_getD]
      constructor
      · rintro ⟨j, hj, hx⟩
        rw [List.length_set] at hj
        rw [hget] at hx
        split at hx
        · rcases (hcov x).mp hx with hx | hx
          · exact Or.inr hx
          · exact Or.inl ⟨f1, hf, hx⟩
        · exact Or.inl ⟨j, hj, hx⟩
      · rintro (⟨j, hj, hx⟩ | hx)
        · refine ⟨j, by rw [List.length_set]; exact hj, ?_⟩
          rw [hget]
          split
          · rename_i hj1
            rw [hj1] at hx
            exact (hcov x).mpr (Or.inr hx)
          · exact hx
        · refine ⟨f1, by rw [List.length_set]; exact hf, ?_⟩
          rw [hget]; simp only [if_true]
          exact (hcov x).mpr (Or.inl hx)
    · -- nothing found: appended
      rename_i hfind
      have hnone := findIdxFrom_none _ l 0 hfind
      refine ⟨⟨?_, ?_⟩, ?_⟩
      · intro c hc
        rcases List.mem_append.mp hc with hc | hc
        · exact h.1 c hc
        · rw [List.mem_singleton] at hc; subst hc; exact hnpos
      · rw [List.pairwise_append]
        refine ⟨h.2, List.pairwise_singleton _ _, ?_⟩
        intro c hc d hd
        rw [List.mem_singleton] at hd; subst hd
        rw [touch_comm]
        exact hnone c hc
      · intro x
        constructor
        · rintro ⟨c, hc, hx⟩
          rcases List.mem_append.mp hc with hc | hc
          · exact Or.inl ⟨c, hc, hx⟩
          · rw [List.mem_singleton] at hc; subst hc; exact Or.inr hx
        · rintro (⟨c, hc, hx⟩ | hx)
          · exact ⟨c, List.mem_append_left _ hc, hx⟩
          · exact ⟨⟨s, n⟩, List.mem_append_right _ (List.mem_singleton.mpr rfl), hx⟩

/-! ### `SortChunks` as the normal form -/

/-- strictly ascending start addresses -/
def Asc (l : List Chunk) : Prop := l.Pairwise (fun c d => c.start < d.start)

theorem Sep.asc : ∀ {l : List Chunk}, Sep l → Asc l := by
  intro l
  induction l with
  | nil => intro _; exact List.Pairwise.nil
  | cons c cs ih =>
    intro h
    obtain ⟨_, hgap, hrest⟩ := h
    exact List.pairwise_cons.mpr ⟨fun d hd => by have := hgap d hd; omega, ih hrest⟩

/-- two strictly ascending lists with the same elements are the same list -/
theorem asc_ext : ∀ (l1 l2 : List Chunk), Asc l1 → Asc l2 → (∀ c, c ∈ l1 ↔ c ∈ l2) → l1 = l2 := by
  intro l1
  induction l1 with
  | nil =>
    intro l2 _ _ h
    cases l2 with
    | nil => rfl
    | cons d ds => exact absurd ((h d).mpr List.mem_cons_self) (by simp)
  | cons c cs ih =>
    intro l2 h1 h2 h
    cases l2 with
    | nil => exact absurd ((h c).mp List.mem_cons_self) (by simp)
    | cons d ds =>
      have p1 := List.pairwise_cons.mp h1
      have p2 := List.pairwise_cons.mp h2
      have hcd : c = d := by
        rcases List.mem_cons.mp ((h c).mp List.mem_cons_self) with e | hc
        · exact e
        · rcases List.mem_cons.mp ((h d).mpr List.mem_cons_self) with e | hd
          · exact e.symm
          · have := p1.1 d hd; have := p2.1 c hc; omega
      subst hcd
      congr 1
      apply ih ds p1.2 p2.2
      intro e
      constructor
      · intro he
        rcases List.mem_cons.mp ((h e).mp (List.mem_cons_of_mem _ he)) with e1 | e1
        · subst e1; have := p1.1 e he; omega
        · exact e1
      · intro he
        rcases List.mem_cons.mp ((h e).mpr (List.mem_cons_of_mem _ he)) with e1 | e1
        · subst e1; have := p2.1 e he; omega
        · exact e1

theorem mem_insertSorted (c d : Chunk) : ∀ (l : List Chunk), d ∈ insertSorted c l ↔ d = c ∨ d ∈ l := by
  intro l
  induction l with
  | nil => simp [insertSorted]
  | cons x xs ih =>
    unfold insertSorted
    split
    · simp
    · simp only [List.mem_cons, ih]
      constructor
      · rintro (h | h | h)
        · exact Or.inr (Or.inl h)
        · exact Or.inl h
        · exact Or.inr (Or.inr h)
      · rintro (h | h | h)
        · exact Or.inr (Or.inl h)
        · exact Or.inl h
        · exact Or.inr (Or.inr h)

theorem asc_insertSorted (c : Chunk) : ∀ (l : List Chunk), Asc l → (∀ d ∈ l, d.start ≠ c.start) → Asc (insertSorted c l) := by
  intro l
  induction l with
  | nil => intro _ _; exact List.pairwise_singleton _ _
  | cons x xs ih =>
    intro h hne
    have p := List.pairwise_cons.mp h
    unfold insertSorted
    split
    · rename_i hlt
      refine List.pairwise_cons.mpr ⟨?_, h⟩
      intro d hd
      rcases List.mem_cons.mp hd with rfl | hd
      · exact hlt
      · have := p.1 d hd; omega
    · rename_i hge
      have hx := hne x List.mem_cons_self
      refine List.pairwise_cons.mpr ⟨?_, ih p.2 (fun d hd => hne d (List.mem_cons_of_mem _ hd))⟩
      intro d hd
      rcases (mem_insertSorted c d xs).mp hd with rfl | hd
      · omega
      · exact p.1 d hd

theorem sortFold_spec : ∀ (l acc : List Chunk), Asc acc → l.Pairwise (fun c d => c.start ≠ d.start) →
    (∀ c ∈ l, ∀ d ∈ acc, d.start ≠ c.start) →
    Asc (l.foldl (fun acc c => insertSorted c acc) acc) ∧
    ∀ d, d ∈ l.foldl (fun acc c => insertSorted c acc) acc ↔ d ∈ acc ∨ d ∈ l := by
  intro l
  induction l with
  | nil => intro acc h _ _; exact ⟨h, fun d => by simp⟩
  | cons c cs ih =>
    intro acc hacc hp hne
    have p := List.pairwise_cons.mp hp
    simp only [List.foldl_cons]
    have hacc' := asc_insertSorted c acc hacc (fun d hd => hne c List.mem_cons_self d hd)
    obtain ⟨r1, r2⟩ := ih (insertSorted c acc) hacc' p.2 (by
      intro e he d hd
      rcases (mem_insertSorted c d acc).mp hd with rfl | hd
      · exact p.1 e he
      · exact hne e (List.mem_cons_of_mem _ he) d hd)
    refine ⟨r1, fun d => ?_⟩
    rw [r2, mem_insertSorted, List.mem_cons]
    constructor
    · rintro ((h | h) | h)
      · exact Or.inr (Or.inl h)
      · exact Or.inl h
      · exact Or.inr (Or.inr h)
    · rintro (h | h | h)
      · exact Or.inl (Or.inr h)
      · exact Or.inl (Or.inl h)
      · exact Or.inr h

/-- `SortChunks` of a separated array: ascending, same elements -/
theorem sortChunks_spec (l : List Chunk) (h : SepU l) : Asc (sortChunks l) ∧ ∀ d, d ∈ sortChunks l ↔ d ∈ l := by
  have hp : l.Pairwise (fun c d => c.start ≠ d.start) := by
    apply List.Pairwise.imp _ h.2
    intro c d ht
    rw [touch_false_iff] at ht
    omega
  obtain ⟨r1, r2⟩ := sortFold_spec l [] List.Pairwise.nil hp (by intro _ _ d hd; cases hd)
  exact ⟨r1, fun d => by unfold sortChunks; rw [r2]; simp⟩

/-! ### the refinement -/

/-- the array of chunks.c `lC` and the sorted interval list `lS` describe the same set of addresses, both by separated ranges -/
structure Refines (lC lS : List Chunk) : Prop where
  sepC : SepU lC
  sepS : Sep lS
  same : ∀ x, area lC x ↔ area lS x

theorem Refines.nil : Refines [] [] := ⟨sepU_nil, trivial, fun _ => Iff.rfl⟩

/-- one `AddChunk` call keeps the relation -/
theorem Refines.add {lC lS : List Chunk} (h : Refines lC lS) (s n : Nat) : Refines (addChunkC lC s n) (addChunk lS s n) := by
  obtain ⟨r1, r2⟩ := addChunkC_spec lC s n h.sepC
  refine ⟨r1, sep_addChunk lS s n h.sepS, fun x => ?_⟩
  rw [r2, area_addChunk, h.same]

theorem Refines.mem {lC lS : List Chunk} (h : Refines lC lS) (c : Chunk) : c ∈ lC ↔ c ∈ lS :=
  ⟨sepU_mem_of_area_eq h.sepC h.sepS.sepU h.same c, sepU_mem_of_area_eq h.sepS.sepU h.sepC (fun x => (h.same x).symm) c⟩

/-- `SortChunks` applied to the array gives the interval list -/
theorem Refines.sort_eq {lC lS : List Chunk} (h : Refines lC lS) : sortChunks lC = lS := by
  obtain ⟨r1, r2⟩ := sortChunks_spec lC h.sepC
  exact asc_ext _ _ r1 h.sepS.asc (fun c => (r2 c).trans (h.mem c))

/-- a sorted separated list is its own normal form -/
theorem Sep.sort_eq {l : List Chunk} (h : Sep l) : sortChunks l = l :=
  Refines.sort_eq ⟨h.sepU, h, fun _ => Iff.rfl⟩

theorem inChunks_iff (l : List Chunk) (a : Nat) : inChunks l a = true ↔ area l a := by
  unfold inChunks area covers
  simp only [List.any_eq_true, Bool.and_eq_true, decide_eq_true_eq]
  constructor
  · rintro ⟨c, hc, h1, h2⟩; exact ⟨c, hc, h1, by omega⟩
  · rintro ⟨c, hc, h1, h2⟩; exact ⟨c, hc, h1, by omega⟩

/-- `AddressInChunk` gives the same answer on both -/
theorem Refines.inChunks_eq {lC lS : List Chunk} (h : Refines lC lS) (a : Nat) : inChunks lC a = inChunks lS a := by
  have := h.same a
  rw [← inChunks_iff, ← inChunks_iff] at this
  cases h1 : inChunks lC a <;> cases h2 : inChunks lS a <;> simp_all

theorem refines_foldl : ∀ (xs : List (Nat × Nat)) (lC lS : List Chunk), Refines lC lS →
    Refines (xs.foldl (fun l e => addChunkC l e.1 e.2) lC) (xs.foldl (fun l e => addChunk l e.1 e.2) lS) := by
  intro xs
  induction xs with
  | nil => intro _ _ h; exact h
  | cons e es ih => intro lC lS h; exact ih _ _ (h.add e.1 e.2)

theorem refines_foldr : ∀ (xs : List (Nat × Nat)),
    Refines (xs.foldr (fun e l => addChunkC l e.1 e.2) []) (xs.foldr (fun e l => addChunk l e.1 e.2) []) := by
  intro xs
  induction xs with
  | nil => exact Refines.nil
  | cons e es ih => exact ih.add e.1 e.2

/-! ### `SortChunks` of a separated array is the sorted/separated form -/

theorem sep_of_asc_sepU : ∀ {l : List Chunk}, Asc l → SepU l → Sep l := by
  intro l
  induction l with
  | nil => intro _ _; trivial
  | cons c cs ih =>
    intro ha hs
    have pa := List.pairwise_cons.mp ha
    have ps := List.pairwise_cons.mp hs.2
    refine ⟨hs.1 c List.mem_cons_self, ?_, ih pa.2 ⟨fun d hd => hs.1 d (List.mem_cons_of_mem _ hd), ps.2⟩⟩
    intro d hd
    have h1 := pa.1 d hd
    have h2 := ps.1 d hd
    rw [touch_false_iff] at h2
    omega

theorem sortChunks_sep (l : List Chunk) (h : SepU l) :
    Sep (sortChunks l) ∧ (∀ d, d ∈ sortChunks l ↔ d ∈ l) ∧ ∀ x, area (sortChunks l) x ↔ area l x := by
  obtain ⟨r1, r2⟩ := sortChunks_spec l h
  have hs : SepU (sortChunks l) := by
    refine ⟨fun c hc => h.1 c ((r2 c).mp hc), ?_⟩
    apply List.Pairwise.imp_of_mem _ r1
    intro c d hc hd hlt
    rcases pairwise_touch_mem l h.2 c ((r2 c).mp hc) d ((r2 d).mp hd) with e | e
    · subst e; omega
    · exact e
  refine ⟨sep_of_asc_sepU r1 hs, r2, fun x => ?_⟩
  constructor
  · rintro ⟨c, hc, hx⟩; exact ⟨c, (r2 c).mp hc, hx⟩
  · rintro ⟨c, hc, hx⟩; exact ⟨c, (r2 c).mpr hc, hx⟩

/-- every separated array refines its own `SortChunks` -/
theorem SepU.refines_sort {l : List Chunk} (h : SepU l) : Refines l (sortChunks l) :=
  ⟨h, (sortChunks_sep l h).1, fun x => ((sortChunks_sep l h).2.2 x).symm⟩

/-- two elements of a separated array that share an address are the same element -/
theorem SepU.disjoint {l : List Chunk} (h : SepU l) : ∀ c ∈ l, ∀ d ∈ l, ∀ x, covers c x → covers d x → c = d := by
  intro c hc d hd x hcx hdx
  apply h.eq_of_touch hc hd
  unfold covers at hcx hdx
  rw [touch_iff]; omega

/-! ### the machine of das.c runs on the arrays -/

/-- both arrays refine their ghost interval-set lists -/
structure RefInv (s : TState) : Prop where
  code : Refines s.codeC s.code
  data : Refines s.dataC s.data

theorem refInv_init : RefInv {} := ⟨Refines.nil, Refines.nil⟩

theorem traceStep_ref (dis : Disasm) (img : Image) (lower : Bool) (s : TState) (a : Nat) (q : List Nat)
    (h : RefInv s) : RefInv (traceStep dis img lower s a q) :=
  ⟨h.code.add a _, h.data⟩

theorem traceLoop_ref (dis : Disasm) (img : Image) (lower : Bool) :
    ∀ (fuel : Nat) (s : TState), RefInv s → RefInv (traceLoop dis img lower fuel s).1 := by
  intro fuel
  induction fuel with
  | zero => intro s h; exact h
  | succ n ih =>
    intro s h
    unfold traceLoop
    split
    · exact h
    · exact ih _ (traceStep_ref dis img lower s _ _ h)

theorem cmdEntry_ref (img : Image) (lower : Bool) (s s' : TState) (e : Entry) (h : RefInv s)
    (he : cmdEntry img lower s e = some s') : RefInv s' := by
  cases e with
  | direct a =>
    simp only [cmdEntry, Option.some.injEq] at he
    subst he
    exact ⟨h.code, h.data⟩
  | vector va len msb name =>
    simp only [cmdEntry] at he
    split at he
    · cases he
    · simp only [Option.some.injEq] at he
      subst he
      exact ⟨h.code, h.data.add va len⟩

theorem cmdEntries_ref (img : Image) (lower : Bool) : ∀ (es : List Entry) (s s' : TState), RefInv s →
    cmdEntries img lower s es = some s' → RefInv s' := by
  intro es
  induction es with
  | nil => intro s s' h he; simp only [cmdEntries, Option.some.injEq] at he; subst he; exact h
  | cons e es ih =>
    intro s s' h he
    unfold cmdEntries at he
    split at he
    · cases he
    · rename_i s1 h1
      exact ih s1 s' (cmdEntry_ref img lower s s1 e h h1) he

/-- the array-side invariant of the tracing loop, stated without the ghost list -/
structure TraceInvC (s : TState) : Prop where
  sep : SepU s.codeC
  exact : ∀ x, area s.codeC x ↔ inExtents s.traced x

theorem traceStep_invC (dis : Disasm) (img : Image) (lower : Bool) (s : TState) (a : Nat) (q : List Nat)
    (h : TraceInvC s) : TraceInvC (traceStep dis img lower s a q) := by
  obtain ⟨r1, r2⟩ := addChunkC_spec s.codeC a (dis img lower s.syms a false (-1)).1.len h.sep
  constructor
  · exact r1
  · intro x
    show area (addChunkC s.codeC a (dis img lower s.syms a false (-1)).1.len) x ↔ _
    simp only [traceStep]
    rw [r2, h.exact x]
    split
    · rename_i h0; rw [h0]
      constructor
      · rintro (h1 | h1)
        · exact h1
        · omega
      · exact Or.inl
    · constructor
      · rintro (⟨e, he, hx⟩ | h1)
        · exact ⟨e, List.mem_cons_of_mem _ he, hx⟩
        · exact ⟨_, List.mem_cons_self, h1⟩
      · rintro ⟨e, he, hx⟩
        rcases List.mem_cons.mp he with rfl | he
        · exact Or.inr hx
        · exact Or.inl ⟨e, he, hx⟩

theorem traceLoop_invC (dis : Disasm) (img : Image) (lower : Bool) :
    ∀ (fuel : Nat) (s : TState), TraceInvC s → TraceInvC (traceLoop dis img lower fuel s).1 := by
  intro fuel
  induction fuel with
  | zero => intro s h; exact h
  | succ n ih =>
    intro s h
    unfold traceLoop
    split
    · exact h
    · exact ih _ (traceStep_invC dis img lower s _ _ h)

/-! ### `IterateChunks` hands every element of both lists to the iterator, with its kind -/

theorem iterateChunks_parts : ∀ (fuel : Nat) (cs ds : List Chunk), cs.length + ds.length < fuel →
    ((iterateChunks fuel cs ds).filter (fun p => !p.2)).map (·.1) = cs ∧
    ((iterateChunks fuel cs ds).filter (fun p => p.2)).map (·.1) = ds := by
  have hmapT : ∀ (ds : List Chunk), ((ds.map (fun d => (d, true))).filter (fun p => !p.2)).map (·.1) = [] ∧
      ((ds.map (fun d => (d, true))).filter (fun p => p.2)).map (·.1) = ds := by
    intro ds; induction ds with
    | nil => exact ⟨rfl, rfl⟩
    | cons d ds ih => simp [ih.2]
  have hmapF : ∀ (cs : List Chunk), ((cs.map (fun c => (c, false))).filter (fun p => !p.2)).map (·.1) = cs ∧
      ((cs.map (fun c => (c, false))).filter (fun p => p.2)).map (·.1) = [] := by
    intro cs; induction cs with
    | nil => exact ⟨rfl, rfl⟩
    | cons c cs ih => simp [ih.1]
  intro fuel
  induction fuel with
  | zero => intro cs ds h; omega
  | succ n ih =>
    intro cs ds h
    cases cs with
    | nil =>
      have : iterateChunks (n + 1) [] ds = ds.map (·, true) := by simp [iterateChunks]
      rw [this]; exact hmapT ds
    | cons c cs =>
      cases ds with
      | nil =>
        have : iterateChunks (n + 1) (c :: cs) [] = (c :: cs).map (·, false) := by simp [iterateChunks]
        rw [this]; exact hmapF (c :: cs)
      | cons d ds =>
        simp only [List.length_cons] at h
        rw [iterateChunks]
        split
        · obtain ⟨r1, r2⟩ := ih (c :: cs) ds (by simp only [List.length_cons]; omega)
          simp [r1, r2]
        · obtain ⟨r1, r2⟩ := ih cs (d :: ds) (by simp only [List.length_cons]; omega)
          simp [r1, r2]

/-- the array after any insertion history: separated, and it covers exactly the inserted extents -/
theorem foldl_addChunkC_spec : ∀ (xs : List (Nat × Nat)) (l : List Chunk), SepU l →
    SepU (xs.foldl (fun l e => addChunkC l e.1 e.2) l) ∧
    ∀ x, area (xs.foldl (fun l e => addChunkC l e.1 e.2) l) x ↔ area l x ∨ inExtents xs x := by
  intro xs
  induction xs with
  | nil =>
    intro l h
    refine ⟨h, fun x => ⟨Or.inl, ?_⟩⟩
    rintro (h1 | ⟨e, he, _⟩)
    · exact h1
    · cases he
  | cons e es ih =>
    intro l h
    obtain ⟨r1, r2⟩ := addChunkC_spec l e.1 e.2 h
    obtain ⟨q1, q2⟩ := ih _ r1
    refine ⟨q1, fun x => ?_⟩
    simp only [List.foldl_cons]
    rw [q2, r2]
    constructor
    · rintro ((h1 | h1) | ⟨e', he', hx⟩)
      · exact Or.inl h1
      · exact Or.inr ⟨e, List.mem_cons_self, h1⟩
      · exact Or.inr ⟨e', List.mem_cons_of_mem _ he', hx⟩
    · rintro (h1 | ⟨e', he', hx⟩)
      · exact Or.inl (Or.inl h1)
      · rcases List.mem_cons.mp he' with rfl | he'
        · exact Or.inl (Or.inr hx)
        · exact Or.inr ⟨e', he', hx⟩

end AslModel.Dis
