import AslModel.Spec.MacroNest
/-! Helper definitions and lemmas for Props/C11_Nest.lean (`C11_nest_refines`), SPEC side: the structural expansion
`NestSpec.lines` line by line (`lineStep`), repetitions as an iteration (`iter`), monotony of `ok` / `maxOpen`, and
`walk` - the part of the expansion that does not depend on the symbol table: how many rounds of the main loop the
machine needs (`steps`), the next scope number (`ns`) and the scope numbers of the expansions / repetitions that deliver
at least one line (`log`, in the order in which they are opened: entry h is the scope of local-symbol handle h). -/
namespace AslModel.NestSpec

/-- `g` applied `n` times -/
def iter {α : Type} (g : α → α) : Nat → α → α
  | 0, s => s
  | n + 1, s => iter g n (g s)

theorem iter_succ' {α : Type} (g : α → α) (n : Nat) (s : α) : iter g (n + 1) s = g (iter g n s) := by
  induction n generalizing s with
  | zero => rfl
  | succ n ih => show iter g (n + 1) (g s) = g (iter g (n + 1) s); rw [ih]; rfl

theorem foldl_range_iter {α : Type} (g : α → α) (n : Nat) (s : α) :
    (List.range n).foldl (fun s _ => g s) s = iter g n s := by
  induction n with
  | zero => rfl
  | succ n ih => rw [List.range_succ, List.foldl_append, ih, iter_succ']; rfl

theorem iter_inv {α : Type} (P : α → Prop) (g : α → α) (hg : ∀ s, P s → P (g s)) (n : Nat) (s : α) (h : P s) :
    P (iter g n s) := by
  induction n generalizing s with
  | zero => exact h
  | succ n ih => exact ih (g s) (hg s h)

/-- a macro call carried out by hand -/
def callM (p : Prog) (F : Nat) (c : Ctx) (s : SSt) (m a : Nat) : SSt :=
  lines p F { chain := (enter s c (getDef p m).gs).2, arg := a, opened := m :: c.opened } (getDef p m).body
    { (enter s c (getDef p m).gs).1 with maxOpen := max (enter s c (getDef p m).gs).1.maxOpen (countOpen c m + 1) }

/-- one repetition of a body carried out by hand -/
def iterBody (p : Prog) (F : Nat) (c : Ctx) (b : Def) (s : SSt) : SSt :=
  lines p F { c with chain := (enter s c b.gs).2 } b.body (enter s c b.gs).1

/-- one line carried out by hand -/
def lineStep (p : Prog) (F : Nat) (c : Ctx) (l : BLine) (s : SSt) : SSt :=
  match l with
  | .emit k => { s with out := k % 256 :: s.out, pc := s.pc + 1 }
  | .deflab l => defLabel s c l
  | .reflab l => useLabel s c l
  | .defArg => defLabel s c (argLabel c.arg)
  | .refArg => useLabel s c (argLabel c.arg)
  | .call m a => callM p F c s m a
  | .callDec m => if c.arg > 0 then callM p F c s m (c.arg - 1) else s
  | .loop d n _ => iter (iterBody p F c (getDef p d)) n s

theorem lines_zero (p : Prog) (c : Ctx) (ls : List BLine) (s : SSt) : lines p 0 c ls s = { s with ok := false } := by
  cases ls <;> rfl

theorem lines_nil (p : Prog) (F : Nat) (c : Ctx) (s : SSt) : lines p (F + 1) c [] s = s := rfl

theorem lines_cons (p : Prog) (F : Nat) (c : Ctx) (l : BLine) (ls : List BLine) (s : SSt) :
    lines p (F + 1) c (l :: ls) s = lines p F c ls (lineStep p F c l s) := by
  cases l with
  | loop d n k =>
    show lines p F c ls ((List.range n).foldl (fun s _ => iterBody p F c (getDef p d) s) s) = _
    rw [foldl_range_iter]; rfl
  | _ => rfl


/-! ### `ok` and `maxOpen` only move in one direction -/

def Mono (s s' : SSt) : Prop := (s'.ok = true → s.ok = true) ∧ s.maxOpen ≤ s'.maxOpen

theorem Mono.refl (s : SSt) : Mono s s := ⟨id, Nat.le_refl _⟩

theorem Mono.trans {a b c : SSt} (h1 : Mono a b) (h2 : Mono b c) : Mono a c :=
  ⟨fun h => h1.1 (h2.1 h), Nat.le_trans h1.2 h2.2⟩

theorem mono_defLabel (s : SSt) (c : Ctx) (l : Nat) : Mono s (defLabel s c l) := ⟨id, Nat.le_refl _⟩

theorem mono_useLabel (s : SSt) (c : Ctx) (l : Nat) : Mono s (useLabel s c l) := by
  unfold useLabel; split <;> exact ⟨id, Nat.le_refl _⟩

theorem enter_ok (s : SSt) (c : Ctx) (gs : Bool) : (enter s c gs).1.ok = s.ok := by
  unfold enter; split <;> rfl

theorem enter_maxOpen (s : SSt) (c : Ctx) (gs : Bool) : (enter s c gs).1.maxOpen = s.maxOpen := by
  unfold enter; split <;> rfl

theorem lines_mono (p : Prog) (F : Nat) (c : Ctx) (ls : List BLine) (s : SSt) : Mono s (lines p F c ls s) := by
  induction F generalizing c ls s with
  | zero => rw [lines_zero]; exact ⟨fun h => Bool.noConfusion h, Nat.le_refl _⟩
  | succ F ih =>
    cases ls with
    | nil => exact Mono.refl s
    | cons l ls =>
      rw [lines_cons]
      refine Mono.trans ?_ (ih c ls _)
      have hcall : ∀ m a, Mono s (callM p F c s m a) := by
        intro m a
        refine Mono.trans ?_ (ih _ _ _)
        refine ⟨fun h => ?_, ?_⟩
        · rw [← enter_ok s c (getDef p m).gs]; exact h
        · show s.maxOpen ≤ max _ _
          rw [enter_maxOpen]; omega
      cases l with
      | emit k => exact ⟨id, Nat.le_refl _⟩
      | deflab l => exact mono_defLabel s c l
      | reflab l => exact mono_useLabel s c l
      | defArg => exact mono_defLabel s c _
      | refArg => exact mono_useLabel s c _
      | call m a => exact hcall m a
      | callDec m =>
        show Mono s (if c.arg > 0 then callM p F c s m (c.arg - 1) else s)
        split
        · exact hcall m _
        · exact Mono.refl s
      | loop d n k =>
        show Mono s (iter (iterBody p F c (getDef p d)) n s)
        apply iter_inv (fun s' => Mono s s')
        · intro s' hs'
          refine Mono.trans hs' (Mono.trans ?_ (ih _ _ _))
          exact ⟨fun h => (enter_ok s' c (getDef p d).gs) ▸ h, Nat.le_of_eq (enter_maxOpen s' c _).symm⟩
        · exact Mono.refl s

/-- the expansion ended and never had more open expansions of one macro than the machine carries out -/
def Good (p : Prog) (r : SSt) : Prop := r.ok = true ∧ (p.nestMax = 0 ∨ r.maxOpen ≤ p.nestMax + 1)

theorem Good.of_mono {p : Prog} {s s' : SSt} (h : Mono s s') (g : Good p s') : Good p s :=
  ⟨h.1 g.1, g.2.elim Or.inl (fun x => Or.inr (Nat.le_trans h.2 x))⟩


/-! ### the part of the expansion that does not depend on the symbols -/

structure Walk where
  ns : Nat := 1             -- the SPEC's `nextScope`
  steps : Nat := 0          -- rounds of the machine's main loop
  log : List Nat := []      -- scope of handle 0, 1, 2, ...

/-- a call / a repetition begins: a scope number is used up unless GLOBALSYMBOLS; the machine opens a handle for it
    when the body delivers a line -/
def Walk.enter (w : Walk) (gs : Bool) (body : List BLine) : Walk :=
  if gs then w else if body.isEmpty then { w with ns := w.ns + 1 } else { w with ns := w.ns + 1, log := w.log ++ [w.ns] }

def Walk.tick (w : Walk) : Walk := { w with steps := w.steps + 1 }

def walk (p : Prog) : Nat → Nat → List BLine → Walk → Walk
  | 0, _, _, w => w
  | _ + 1, _, [], w => w
  | F + 1, a, l :: ls, w =>
    let callW (m x : Nat) : Walk :=
      (walk p F x (getDef p m).body (w.tick.enter (getDef p m).gs (getDef p m).body)).tick
    let w' : Walk := match l with
      | .call m x => callW m x
      | .callDec m => if a > 0 then callW m (a - 1) else w.tick
      | .loop d n _ =>
        (iter (fun w => walk p F a (getDef p d).body (w.enter (getDef p d).gs (getDef p d).body)) n w.tick).tick
      | _ => w.tick
    walk p F a ls w'

def callW (p : Prog) (F : Nat) (w : Walk) (m x : Nat) : Walk :=
  (walk p F x (getDef p m).body (w.tick.enter (getDef p m).gs (getDef p m).body)).tick

def iterW (p : Prog) (F a : Nat) (b : Def) (w : Walk) : Walk := walk p F a b.body (w.enter b.gs b.body)

def walkLine (p : Prog) (F a : Nat) (l : BLine) (w : Walk) : Walk :=
  match l with
  | .call m x => callW p F w m x
  | .callDec m => if a > 0 then callW p F w m (a - 1) else w.tick
  | .loop d n _ => (iter (iterW p F a (getDef p d)) n w.tick).tick
  | _ => w.tick

theorem walk_zero (p : Prog) (a : Nat) (ls : List BLine) (w : Walk) : walk p 0 a ls w = w := by
  cases ls <;> rfl

theorem walk_cons (p : Prog) (F a : Nat) (l : BLine) (ls : List BLine) (w : Walk) :
    walk p (F + 1) a (l :: ls) w = walk p F a ls (walkLine p F a l w) := by
  cases l <;> rfl

/-- the scope numbers of the log are increasing and below the next one -/
def WInv (w : Walk) : Prop := w.log.Pairwise (· < ·) ∧ (∀ x ∈ w.log, 1 ≤ x ∧ x < w.ns) ∧ 1 ≤ w.ns

/-- `w'` continues `w` -/
def WExt (w w' : Walk) : Prop := w.log <+: w'.log ∧ (WInv w → WInv w')

theorem WExt.refl (w : Walk) : WExt w w := ⟨List.prefix_refl _, id⟩

theorem WExt.trans {a b c : Walk} (h1 : WExt a b) (h2 : WExt b c) : WExt a c :=
  ⟨List.IsPrefix.trans h1.1 h2.1, fun h => h2.2 (h1.2 h)⟩

theorem wext_tick (w : Walk) : WExt w w.tick := ⟨List.prefix_refl _, id⟩

theorem wext_enter (w : Walk) (gs : Bool) (body : List BLine) : WExt w (w.enter gs body) := by
  unfold Walk.enter
  split
  · exact WExt.refl w
  · split
    · refine ⟨List.prefix_refl _, fun h => ⟨h.1, fun x hx => ?_, ?_⟩⟩
      · have := h.2.1 x hx
        exact ⟨this.1, Nat.lt_succ_of_lt this.2⟩
      · exact Nat.le_succ_of_le h.2.2
    · refine ⟨List.prefix_append _ _, fun h => ⟨?_, fun x hx => ?_, ?_⟩⟩
      · show (w.log ++ [w.ns]).Pairwise (· < ·)
        rw [List.pairwise_append]
        refine ⟨h.1, List.pairwise_singleton _ _, fun a ha b hb => ?_⟩
        simp only [List.mem_singleton] at hb
        subst hb
        exact (h.2.1 a ha).2
      · simp only [List.mem_append, List.mem_singleton] at hx
        rcases hx with hx | hx
        · have := h.2.1 x hx
          exact ⟨this.1, Nat.lt_succ_of_lt this.2⟩
        · subst hx
          exact ⟨h.2.2, Nat.lt_succ_self _⟩
      · exact Nat.le_succ_of_le h.2.2

theorem walk_ext (p : Prog) (F a : Nat) (ls : List BLine) (w : Walk) : WExt w (walk p F a ls w) := by
  induction F generalizing a ls w with
  | zero => rw [walk_zero]; exact WExt.refl w
  | succ F ih =>
    cases ls with
    | nil => exact WExt.refl w
    | cons l ls =>
      rw [walk_cons]
      refine WExt.trans ?_ (ih a ls _)
      have hcall : ∀ m x, WExt w (callW p F w m x) := fun m x =>
        WExt.trans (wext_tick w) (WExt.trans (wext_enter _ _ _) (WExt.trans (ih _ _ _) (wext_tick _)))
      cases l with
      | call m x => exact hcall m x
      | callDec m =>
        show WExt w (if a > 0 then callW p F w m (a - 1) else w.tick)
        split
        · exact hcall m _
        · exact wext_tick w
      | loop d n k =>
        show WExt w (iter (iterW p F a (getDef p d)) n w.tick).tick
        refine WExt.trans (wext_tick w) (WExt.trans ?_ (wext_tick _))
        apply iter_inv (fun w' => WExt w.tick w')
        · intro w' hw'
          exact WExt.trans hw' (WExt.trans (wext_enter _ _ _) (ih _ _ _))
        · exact WExt.refl _
      | _ => exact wext_tick w


theorem iterBody_mono (p : Prog) (F : Nat) (c : Ctx) (b : Def) (s : SSt) : Mono s (iterBody p F c b s) :=
  Mono.trans ⟨fun h => (enter_ok s c b.gs) ▸ h, Nat.le_of_eq (enter_maxOpen s c _).symm⟩ (lines_mono p F _ _ _)

theorem iter_mono (p : Prog) (F : Nat) (c : Ctx) (b : Def) (n : Nat) (s : SSt) : Mono s (iter (iterBody p F c b) n s) :=
  iter_inv (fun s' => Mono s s') _ (fun s' hs' => Mono.trans hs' (iterBody_mono p F c b s')) n s (Mono.refl s)

theorem iterW_ext (p : Prog) (F a : Nat) (b : Def) (w : Walk) : WExt w (iterW p F a b w) :=
  WExt.trans (wext_enter _ _ _) (walk_ext p F a _ _)

theorem iter_wext (p : Prog) (F a : Nat) (b : Def) (n : Nat) (w : Walk) : WExt w (iter (iterW p F a b) n w) :=
  iter_inv (fun w' => WExt w w') _ (fun w' hw' => WExt.trans hw' (iterW_ext p F a b w')) n w (WExt.refl w)


/-! ### the pass number stays -/

theorem enter_pass (s : SSt) (c : Ctx) (gs : Bool) : (enter s c gs).1.pass = s.pass := by
  unfold enter; split <;> rfl

theorem useLabel_pass (s : SSt) (c : Ctx) (l : Nat) : (useLabel s c l).pass = s.pass := by
  unfold useLabel; split <;> rfl

theorem lines_pass (p : Prog) (F : Nat) (c : Ctx) (ls : List BLine) (s : SSt) : (lines p F c ls s).pass = s.pass := by
  induction F generalizing c ls s with
  | zero => rw [lines_zero]
  | succ F ih =>
    cases ls with
    | nil => rfl
    | cons l ls =>
      rw [lines_cons, ih]
      have hcall : ∀ m a, (callM p F c s m a).pass = s.pass := by
        intro m a
        unfold callM
        rw [ih]
        exact enter_pass s c _
      cases l with
      | emit k => rfl
      | deflab l => rfl
      | reflab l => exact useLabel_pass s c l
      | defArg => rfl
      | refArg => exact useLabel_pass s c _
      | call m a => exact hcall m a
      | callDec m =>
        show (if c.arg > 0 then callM p F c s m (c.arg - 1) else s).pass = s.pass
        split
        · exact hcall m _
        · rfl
      | loop d n k =>
        show (iter (iterBody p F c (getDef p d)) n s).pass = s.pass
        refine iter_inv (fun s' : SSt => s'.pass = s.pass) _ (fun s' hs' => ?_) n s rfl
        show (iterBody p F c (getDef p d) s').pass = s.pass
        unfold iterBody
        rw [ih, enter_pass]; exact hs'

/-- the SPEC's first pass (collects the labels) -/
def first (p : Prog) (F : Nat) : SSt := lines p F topCtx p.top {}

/-- the state in which the SPEC's second pass begins -/
def second0 (p : Prog) (F : Nat) : SSt :=
  { syms := (first p F).syms, maxOpen := (first p F).maxOpen, ok := (first p F).ok, pass := 2 }

theorem run_eq (p : Prog) (F : Nat) : run p F = lines p F topCtx p.top (second0 p F) := rfl

/-- rounds of the main loop the machine needs for one pass over the program (F: the SPEC's fuel) -/
def cost (p : Prog) (F : Nat) : Nat := (walk p F 0 p.top {}).steps + 1

end AslModel.NestSpec
