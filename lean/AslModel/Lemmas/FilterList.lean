import AslModel.Model.FilterList
import AslModel.Spec.FilterSet
import AslModel.Lemmas.PBind
/-!
Lemmas for `Props/C07_Filter.lean`: the array algorithm of `CMD_FilterList` keeps "no id twice below
`FilterCnt`" and computes the documented set.
-/
namespace AslModel.Tools
open AslModel.PFile

/-! ## cells -/

theorem getD_set_ne (l : List Byte) (i j : Nat) (y : Byte) (h : j ≠ i) : (l.set i y).getD j 0 = l.getD j 0 := by
  simp only [List.getD_eq_getElem?_getD, List.getElem?_set]
  split
  · omega
  · rfl

theorem getD_set_eq (l : List Byte) (i : Nat) (y : Byte) (h : i < l.length) : (l.set i y).getD i 0 = y := by
  simp [List.getD_eq_getElem?_getD, List.getElem?_set, h]

/-- an id is stored below `FilterCnt` -/
def MemA (a : FilterArr) (x : Byte) : Prop := ∃ j, j < a.cnt ∧ a.bytes.getD j 0 = x

/-- the invariant `CMD_FilterList` keeps: the counter stays inside the array and no id is stored twice
below it -/
def Inv (a : FilterArr) : Prop :=
  a.cnt ≤ a.bytes.length ∧ ∀ i j, i < j → j < a.cnt → a.bytes.getD i 0 ≠ a.bytes.getD j 0

theorem inv_init (cap : Nat) : Inv (FilterArr.init cap) := by
  refine ⟨Nat.zero_le _, ?_⟩
  intro i j _ hj
  simp [FilterArr.init] at hj

theorem not_memA_init (cap : Nat) (x : Byte) : ¬ MemA (FilterArr.init cap) x := by
  rintro ⟨j, hj, _⟩
  simp [FilterArr.init] at hj

/-! ## the search loop -/

theorem searchLoop_spec (bytes : List Byte) (v : Byte) (k s : Nat) :
    s ≤ searchLoop bytes v k s ∧ searchLoop bytes v k s ≤ s + k ∧
    (∀ j, s ≤ j → j < searchLoop bytes v k s → bytes.getD j 0 ≠ v) ∧
    (searchLoop bytes v k s < s + k → bytes.getD (searchLoop bytes v k s) 0 = v) := by
  induction k generalizing s with
  | zero => simp [searchLoop]; intro j h1 h2; omega
  | succ k ih =>
    unfold searchLoop
    split
    · rename_i h
      refine ⟨Nat.le_refl _, by omega, ?_, fun _ => h⟩
      intro j h1 h2; omega
    · rename_i h
      obtain ⟨h1, h2, h3, h4⟩ := ih (s + 1)
      refine ⟨by omega, by omega, ?_, fun hlt => h4 (by omega)⟩
      intro j hj1 hj2
      by_cases hjs : j = s
      · subst hjs; exact h
      · exact h3 j (by omega) hj2

theorem search_le (a : FilterArr) (v : Byte) : searchFrom a.bytes a.cnt v 0 ≤ a.cnt := by
  have := (searchLoop_spec a.bytes v a.cnt 0).2.1
  simpa [searchFrom] using this

theorem search_found (a : FilterArr) (v : Byte) (h : searchFrom a.bytes a.cnt v 0 < a.cnt) :
    a.bytes.getD (searchFrom a.bytes a.cnt v 0) 0 = v := by
  have := (searchLoop_spec a.bytes v a.cnt 0).2.2.2
  simp only [searchFrom, Nat.sub_zero, Nat.zero_add] at this h ⊢
  exact this h

theorem search_absent (a : FilterArr) (v : Byte) (h : ¬ searchFrom a.bytes a.cnt v 0 < a.cnt) : ¬ MemA a v := by
  rintro ⟨j, hj, hv⟩
  have := (searchLoop_spec a.bytes v a.cnt 0).2.2.1 j (Nat.zero_le _)
  simp only [searchFrom, Nat.sub_zero] at this h
  exact this (by omega) hv

theorem search_lt_iff (a : FilterArr) (v : Byte) : searchFrom a.bytes a.cnt v 0 < a.cnt ↔ MemA a v :=
  ⟨fun h => ⟨_, h, search_found a v h⟩, fun h => Classical.byContradiction fun hn => search_absent a v hn h⟩

/-! ## one list element -/

theorem one_remove (a : FilterArr) (v : Byte) (hi : Inv a) (a' : FilterArr) (h : cmdFilterOne true a v = some a') :
    Inv a' ∧ a'.bytes.length = a.bytes.length ∧ a'.cnt ≤ a.cnt ∧ ∀ x, MemA a' x ↔ (MemA a x ∧ x ≠ v) := by
  obtain ⟨hc, hn⟩ := hi
  unfold cmdFilterOne at h
  simp only [if_true] at h
  split at h
  · rename_i hs
    have hv := search_found a v hs
    generalize searchFrom a.bytes a.cnt v 0 = s at hs hv h
    injection h with h
    subst h
    have hsl : s < a.bytes.length := by omega
    have cell : ∀ j, j < a.cnt - 1 →
        (a.bytes.set s (a.bytes.getD (a.cnt - 1) 0)).getD j 0 = if j = s then a.bytes.getD (a.cnt - 1) 0 else a.bytes.getD j 0 := by
      intro j _
      by_cases hjs : j = s
      · subst hjs; rw [getD_set_eq _ _ _ hsl, if_pos rfl]
      · rw [getD_set_ne _ _ _ _ hjs, if_neg hjs]
    refine ⟨⟨by simp only [List.length_set]; omega, ?_⟩, by simp, by simp, ?_⟩
    · intro i j hij hj
      simp only at hj
      rw [cell i (by omega), cell j hj]
      by_cases h1 : i = s
      · have h2 : j ≠ s := by omega
        simp only [h1, h2, if_true, if_false]
        exact fun e => hn j (a.cnt - 1) (by omega) (by omega) e.symm
      · by_cases h2 : j = s
        · simp only [h1, h2, if_true, if_false]
          exact hn i (a.cnt - 1) (by omega) (by omega)
        · simp only [h1, h2, if_false]
          exact hn i j hij (by omega)
    · intro x
      constructor
      · rintro ⟨j, hj, hx⟩
        simp only at hj
        rw [cell j hj] at hx
        by_cases h1 : j = s
        · simp only [h1, if_true] at hx
          refine ⟨⟨a.cnt - 1, by omega, hx⟩, ?_⟩
          intro e
          rw [← hx, ← hv] at e
          exact hn s (a.cnt - 1) (by omega) (by omega) e.symm
        · simp only [h1, if_false] at hx
          refine ⟨⟨j, by omega, hx⟩, ?_⟩
          intro e
          rw [← hx, ← hv] at e
          rcases Nat.lt_or_gt_of_ne h1 with h2 | h2
          · exact hn j s h2 hs e
          · exact hn s j h2 (by omega) e.symm
      · rintro ⟨⟨j, hj, hx⟩, hxv⟩
        have hjs : j ≠ s := by
          intro e; subst e; exact hxv (hx.symm.trans hv)
        by_cases hlast : j = a.cnt - 1
        · refine ⟨s, by simp only; omega, ?_⟩
          rw [cell s (by omega)]
          simp only [if_true]
          rw [← hlast]; exact hx
        · refine ⟨j, by simp only; omega, ?_⟩
          rw [cell j (by omega)]
          simp only [hjs, if_false]
          exact hx
  · rename_i hs
    injection h with h
    subst h
    refine ⟨⟨hc, hn⟩, rfl, Nat.le_refl _, ?_⟩
    intro x
    constructor
    · intro hm
      refine ⟨hm, ?_⟩
      intro e; subst e
      exact search_absent a x hs hm
    · exact fun h => h.1

theorem one_add (a : FilterArr) (v : Byte) (hi : Inv a) (a' : FilterArr) (h : cmdFilterOne false a v = some a') :
    Inv a' ∧ a'.bytes.length = a.bytes.length ∧ a'.cnt ≤ a.cnt + 1 ∧ ∀ x, MemA a' x ↔ (MemA a x ∨ x = v) := by
  obtain ⟨hc, hn⟩ := hi
  unfold cmdFilterOne at h
  simp only [Bool.false_eq_true, if_false] at h
  split at h
  · rename_i hs
    have habs : ¬ MemA a v := search_absent a v (by omega)
    split at h
    · rename_i hcap
      injection h with h
      subst h
      have cell : ∀ j, j < a.cnt + 1 → (a.bytes.set a.cnt v).getD j 0 = if j = a.cnt then v else a.bytes.getD j 0 := by
        intro j _
        by_cases hj : j = a.cnt
        · subst hj; rw [getD_set_eq _ _ _ hcap, if_pos rfl]
        · rw [getD_set_ne _ _ _ _ hj, if_neg hj]
      refine ⟨⟨by simp only [List.length_set]; omega, ?_⟩, by simp, Nat.le_refl _, ?_⟩
      · intro i j hij hj
        simp only at hj
        rw [cell i (by omega), cell j hj]
        have h1 : i ≠ a.cnt := by omega
        by_cases h2 : j = a.cnt
        · simp only [h1, h2, if_true, if_false]
          intro e
          exact habs ⟨i, by omega, e⟩
        · simp only [h1, h2, if_false]
          exact hn i j hij (by omega)
      · intro x
        constructor
        · rintro ⟨j, hj, hx⟩
          simp only at hj
          rw [cell j hj] at hx
          by_cases h1 : j = a.cnt
          · simp only [h1, if_true] at hx; exact Or.inr hx.symm
          · simp only [h1, if_false] at hx; exact Or.inl ⟨j, by omega, hx⟩
        · rintro (⟨j, hj, hx⟩ | e)
          · refine ⟨j, by simp only; omega, ?_⟩
            rw [cell j (by omega)]
            have : j ≠ a.cnt := by omega
            simp only [this, if_false]; exact hx
          · refine ⟨a.cnt, by simp only; omega, ?_⟩
            rw [cell a.cnt (by omega)]
            simp [e]
    · exact absurd h (by simp)
  · rename_i hs
    injection h with h
    subst h
    have hm : MemA a v := (search_lt_iff a v).mp (by omega)
    refine ⟨⟨hc, hn⟩, rfl, by omega, ?_⟩
    intro x
    constructor
    · exact Or.inl
    · rintro (h | e)
      · exact h
      · subst e; exact hm

/-- an append inside the array never fails -/
theorem one_add_isSome (a : FilterArr) (v : Byte) (h : a.cnt < a.bytes.length) : (cmdFilterOne false a v).isSome = true := by
  unfold cmdFilterOne
  simp only [Bool.false_eq_true, if_false, h, if_true]
  split <;> rfl

theorem one_remove_isSome (a : FilterArr) (v : Byte) : (cmdFilterOne true a v).isSome = true := by
  unfold cmdFilterOne
  simp only [if_true]
  split <;> rfl

/-! ## event sequences -/

/-- the option sequence flattened to list elements -/
def runEvents : List (Bool × Nat) → FilterArr → Option FilterArr
  | [], a => some a
  | e :: es, a => (cmdFilterOne e.1 a (b e.2)).bind (runEvents es)

theorem runEvents_append (e1 e2 : List (Bool × Nat)) (a : FilterArr) :
    runEvents (e1 ++ e2) a = (runEvents e1 a).bind (runEvents e2) := by
  induction e1 generalizing a with
  | nil => simp [runEvents]
  | cons e es ih =>
    simp only [List.cons_append, runEvents]
    cases cmdFilterOne e.1 a (b e.2) with
    | none => simp
    | some a1 => simp [ih]

theorem cmdFilterList_eq (neg : Bool) (vs : List Nat) (a : FilterArr) :
    cmdFilterList neg vs a = runEvents (vs.map (fun v => (neg, v))) a := by
  induction vs generalizing a with
  | nil => rfl
  | cons v vs ih =>
    simp only [cmdFilterList, List.map_cons, runEvents]
    cases cmdFilterOne neg a (b v) with
    | none => simp
    | some a1 => simp [ih]

theorem cmdLine_eq (ops : List (Bool × List Nat)) (a : FilterArr) :
    cmdLine ops a = runEvents (filterEvents ops) a := by
  induction ops generalizing a with
  | nil => rfl
  | cons o os ih =>
    simp only [cmdLine, filterEvents, List.map_cons, List.flatten_cons, runEvents_append, cmdFilterList_eq]
    cases runEvents (o.2.map (fun v => (o.1, v))) a with
    | none => simp
    | some a1 => simp only [Option.bind_some]; rw [ih]; rfl

/-- the events after `ConstLongInt`'s result was narrowed to `Byte` -/
def narrowed (evs : List (Bool × Nat)) : List (Bool × Byte) := evs.map (fun e => (e.1, b e.2))

theorem run_refines (evs : List (Bool × Nat)) (a a' : FilterArr) (hi : Inv a) (h : runEvents evs a = some a') :
    Inv a' ∧ a'.bytes.length = a.bytes.length ∧
    ∀ x cur, (MemA a x ↔ cur = true) → (MemA a' x ↔ inSetFrom cur (narrowed evs) x = true) := by
  induction evs generalizing a with
  | nil =>
    simp only [runEvents, Option.some.injEq] at h
    subst h
    exact ⟨hi, rfl, fun x cur hc => by simpa [narrowed, inSetFrom] using hc⟩
  | cons e es ih =>
    obtain ⟨neg, v⟩ := e
    simp only [runEvents] at h
    cases h1 : cmdFilterOne neg a (b v) with
    | none => simp [h1] at h
    | some a1 =>
      simp only [h1, Option.bind_some] at h
      cases neg with
      | true =>
        obtain ⟨i1, l1, _, m1⟩ := one_remove a (b v) hi a1 h1
        obtain ⟨i2, l2, m2⟩ := ih a1 i1 h
        refine ⟨i2, l2.trans l1, ?_⟩
        intro x cur hc
        simp only [narrowed, List.map_cons, inSetFrom]
        apply m2 x
        rw [m1 x, hc]
        by_cases hx : b v = x
        · simp [hx]
        · simp [hx, Ne.symm hx]
      | false =>
        obtain ⟨i1, l1, _, m1⟩ := one_add a (b v) hi a1 h1
        obtain ⟨i2, l2, m2⟩ := ih a1 i1 h
        refine ⟨i2, l2.trans l1, ?_⟩
        intro x cur hc
        simp only [narrowed, List.map_cons, inSetFrom]
        apply m2 x
        rw [m1 x, hc]
        by_cases hx : b v = x
        · simp [hx]
        · simp [hx, Ne.symm hx]

/-- number of list elements of `-f` options -/
def addCount (evs : List (Bool × Nat)) : Nat := (evs.filter (fun e => !e.1)).length

theorem run_isSome (evs : List (Bool × Nat)) (a : FilterArr) (hi : Inv a) (h : a.cnt + addCount evs ≤ a.bytes.length) :
    (runEvents evs a).isSome = true := by
  induction evs generalizing a with
  | nil => rfl
  | cons e es ih =>
    obtain ⟨neg, v⟩ := e
    simp only [runEvents]
    cases neg with
    | true =>
      have hs := one_remove_isSome a (b v)
      cases h1 : cmdFilterOne true a (b v) with
      | none => simp [h1] at hs
      | some a1 =>
        obtain ⟨i1, l1, c1, _⟩ := one_remove a (b v) hi a1 h1
        simp only [Option.bind_some]
        apply ih a1 i1
        simp only [addCount, List.filter_cons, Bool.not_true, Bool.false_eq_true, if_false] at h
        simp only [addCount]; omega
    | false =>
      simp only [addCount, List.filter_cons, Bool.not_false, if_true, List.length_cons] at h
      have hs := one_add_isSome a (b v) (by omega)
      cases h1 : cmdFilterOne false a (b v) with
      | none => simp [h1] at hs
      | some a1 =>
        obtain ⟨i1, l1, c1, _⟩ := one_add a (b v) hi a1 h1
        simp only [Option.bind_some]
        apply ih a1 i1
        simp only [addCount]; omega

/-! ## the spec side -/

theorem InSet_nil {α : Type} (x : α) : ¬ InSet ([] : List (Bool × α)) x := by
  rintro ⟨pre, post, h, _⟩
  cases pre <;> simp at h

theorem InSet_cons {α : Type} (e : Bool × α) (rest : List (Bool × α)) (x : α) :
    InSet (e :: rest) x ↔ (e = (false, x) ∧ (true, x) ∉ rest) ∨ InSet rest x := by
  constructor
  · rintro ⟨pre, post, h, hp⟩
    cases pre with
    | nil =>
      simp only [List.nil_append, List.cons.injEq] at h
      obtain ⟨h1, h2⟩ := h
      subst h2
      exact Or.inl ⟨h1, hp⟩
    | cons p ps =>
      simp only [List.cons_append, List.cons.injEq] at h
      exact Or.inr ⟨ps, post, h.2, hp⟩
  · rintro (⟨h1, h2⟩ | ⟨pre, post, h, hp⟩)
    · exact ⟨[], rest, by simp [h1], h2⟩
    · exact ⟨e :: pre, post, by simp [h], hp⟩

/-- the executable set membership is the documented one -/
theorem inSetFrom_iff {α : Type} [DecidableEq α] (evs : List (Bool × α)) (cur : Bool) (x : α) :
    inSetFrom cur evs x = true ↔ InSet evs x ∨ (cur = true ∧ (true, x) ∉ evs) := by
  induction evs generalizing cur with
  | nil => simp [inSetFrom, InSet_nil]
  | cons e rest ih =>
    obtain ⟨neg, v⟩ := e
    simp only [inSetFrom, ih, InSet_cons, List.mem_cons, Prod.mk.injEq, not_or]
    by_cases hv : v = x
    · subst hv
      cases neg <;> cases cur <;> simp <;> grind
    · have hx : ¬ x = v := fun e => hv e.symm
      simp [hv, hx]

theorem inSet_iff {α : Type} [DecidableEq α] (evs : List (Bool × α)) (x : α) : inSet evs x = true ↔ InSet evs x := by
  simp [inSet, inSetFrom_iff]

/-- every id the options name is a header id (one byte) -/
def IdsInRange (evs : List (Bool × Nat)) : Prop := ∀ e ∈ evs, e.2 < 256

instance (evs : List (Bool × Nat)) : Decidable (IdsInRange evs) := by unfold IdsInRange; infer_instance

theorem b_eq_iff (v : Nat) (x : Byte) (hv : v < 256) : b v = x ↔ v = x.toNat := by
  constructor
  · intro h; subst h; simp [b_toNat]; omega
  · intro h; subst h
    simp [b]

theorem inSetFrom_narrowed (evs : List (Bool × Nat)) (hr : IdsInRange evs) (cur : Bool) (x : Byte) :
    inSetFrom cur (narrowed evs) x = inSetFrom cur evs x.toNat := by
  induction evs generalizing cur with
  | nil => rfl
  | cons e rest ih =>
    obtain ⟨neg, v⟩ := e
    have hv : v < 256 := hr (neg, v) (by simp)
    simp only [narrowed, List.map_cons, inSetFrom]
    have := ih (fun e he => hr e (by simp [he]))
    simp only [narrowed] at this
    rw [this]
    by_cases h : b v = x
    · have h1 := (b_eq_iff v x hv).mp h
      rw [if_pos h, if_pos h1]
    · have h2 : ¬ v = x.toNat := fun e => h ((b_eq_iff v x hv).mpr e)
      rw [if_neg h, if_neg h2]

theorem inSetFrom_named {α : Type} [DecidableEq α] (evs : List (Bool × α)) (x : α)
    (h : inSetFrom false evs x = true) : ∃ e ∈ evs, e.2 = x := by
  have := (inSetFrom_iff evs false x).mp h
  rcases this with ⟨pre, post, he, _⟩ | ⟨hc, _⟩
  · exact ⟨(false, x), by simp [he], rfl⟩
  · simp at hc

/-! ## the array as the list the tool models use -/

theorem getD_of_lt (l : List Byte) (j : Nat) (h : j < l.length) : l.getD j 0 = l[j] := by
  simp [List.getD_eq_getElem?_getD, h]

theorem mem_live (a : FilterArr) (hc : a.cnt ≤ a.bytes.length) (x : Byte) : x ∈ a.live ↔ MemA a x := by
  unfold FilterArr.live MemA
  rw [List.mem_iff_getElem]
  constructor
  · rintro ⟨i, hi, hx⟩
    simp only [List.length_take] at hi
    have hil : i < a.bytes.length := by omega
    refine ⟨i, by omega, ?_⟩
    rw [getD_of_lt _ _ hil, ← hx, List.getElem_take]
  · rintro ⟨j, hj, hx⟩
    have hjl : j < a.bytes.length := by omega
    refine ⟨j, by simp only [List.length_take]; omega, ?_⟩
    rw [List.getElem_take, ← getD_of_lt _ _ hjl]; exact hx

theorem live_length (a : FilterArr) (hc : a.cnt ≤ a.bytes.length) : a.live.length = a.cnt := by
  simp only [FilterArr.live, List.length_take]; omega

theorem nodup_live (a : FilterArr) (hi : Inv a) : a.live.Nodup := by
  obtain ⟨hc, hn⟩ := hi
  unfold List.Nodup
  rw [List.pairwise_iff_getElem]
  intro i j h1 h2 hij
  have hl := live_length a hc
  have hjc : j < a.cnt := by omega
  have := hn i j hij hjc
  rw [getD_of_lt _ _ (by omega), getD_of_lt _ _ (by omega)] at this
  simpa [FilterArr.live, List.getElem_take] using this

theorem filterOKLoop_iff (bytes : List Byte) (h : Byte) (k z : Nat) :
    filterOKLoop bytes h k z = true ↔ ∃ j, z ≤ j ∧ j < z + k ∧ bytes.getD j 0 = h := by
  induction k generalizing z with
  | zero => simp [filterOKLoop]; intro j h1 h2; omega
  | succ k ih =>
    unfold filterOKLoop
    split
    · rename_i e
      simp only [true_iff]
      exact ⟨z, Nat.le_refl _, by omega, e.symm⟩
    · rename_i e
      rw [ih]
      constructor
      · rintro ⟨j, h1, h2, h3⟩; exact ⟨j, by omega, by omega, h3⟩
      · rintro ⟨j, h1, h2, h3⟩
        have : j ≠ z := by intro e2; subst e2; exact e h3.symm
        exact ⟨j, by omega, by omega, h3⟩

/-- the `FilterOK` loop over the array is the list-level `filterOK` of the cells below `FilterCnt` -/
theorem filterOKArr_eq (a : FilterArr) (hc : a.cnt ≤ a.bytes.length) (h : Byte) : filterOKArr a h = filterOK a.live h := by
  have hl := live_length a hc
  unfold filterOKArr filterOK
  by_cases h0 : a.cnt = 0
  · have : a.live = [] := List.eq_nil_of_length_eq_zero (by omega)
    simp [h0, this]
  · have hne : a.live.isEmpty = false := by
      cases hlv : a.live with
      | nil => simp [hlv] at hl; omega
      | cons _ _ => rfl
    simp only [ne_eq, h0, not_false_eq_true, if_true, hne, Bool.false_eq_true, if_false]
    rw [Bool.eq_iff_iff, filterOKFrom, filterOKLoop_iff, List.contains_iff_mem, mem_live a hc]
    simp only [Nat.sub_zero, Nat.zero_add, MemA]
    constructor
    · rintro ⟨j, _, h2, h3⟩; exact ⟨j, h2, h3⟩
    · rintro ⟨j, h2, h3⟩; exact ⟨j, Nat.zero_le _, h2, h3⟩

/-- what BIND has to produce under an option sequence: the items of all sources, in order, that the
documented set keeps -/
def expectedByOptions (evs : List (Bool × Nat)) (inputs : List (List (Item × Bool) × List Byte)) : List Item :=
  ((inputs.map (fun f => f.1.map (·.1))).flatten).filter (keepByOptions evs)

def keptByOptions (evs : List (Bool × Nat)) (items : List (Item × Bool)) : List Item :=
  (items.map (·.1)).filter (keepByOptions evs)

/-- the array after the options selects exactly the records the documented set selects -/
theorem keep_eq (evs : List (Bool × Nat)) (hr : IdsInRange evs) (cap : Nat) (a : FilterArr)
    (h : runEvents evs (FilterArr.init cap) = some a) (it : Item) :
    keepItem (filterSpec a.live) it = keepByOptions evs it := by
  obtain ⟨hi, _, hm⟩ := run_refines evs _ a (inv_init cap) h
  have hmem : ∀ x : Byte, x ∈ a.live ↔ inSet evs x.toNat = true := by
    intro x
    rw [mem_live a hi.1, hm x false (by simp [not_memA_init]), inSetFrom_narrowed evs hr]
    rfl
  cases it with
  | entry _ => rfl
  | data r =>
    unfold filterSpec keepItem keepByOptions
    by_cases he : a.live.isEmpty = true
    · have hnil : a.live = [] := List.isEmpty_iff.mp he
      have : setNonEmpty evs = false := by
        rw [Bool.eq_false_iff]
        intro hs
        simp only [setNonEmpty, List.any_eq_true] at hs
        obtain ⟨e, he1, he2⟩ := hs
        have hb : (b e.2).toNat = e.2 := by
          have := hr e he1
          simp [b_toNat]; omega
        have := (hmem (b e.2)).mpr (by rw [hb]; exact he2)
        simp [hnil] at this
      simp [he, this]
    · have hne : setNonEmpty evs = true := by
        cases hlv : a.live with
        | nil => simp [hlv] at he
        | cons x xs =>
          have hx := (hmem x).mp (by simp [hlv])
          obtain ⟨e, he1, he2⟩ := inSetFrom_named evs x.toNat hx
          simp only [setNonEmpty, List.any_eq_true]
          exact ⟨e, he1, by rw [he2]; exact hx⟩
      simp only [he, Bool.false_eq_true, if_false, hne, if_true]
      rw [Bool.eq_iff_iff, List.contains_iff_mem, hmem]

/-! ## the capacity in terms of DISTINCT ids -/

/-- number of distinct elements -/
def distinctCount : List Byte → Nat
  | [] => 0
  | x :: xs => if x ∈ xs then distinctCount xs else distinctCount xs + 1

theorem nodup_subset_length (m : List Byte) : ∀ l : List Byte, l.Nodup → (∀ x ∈ l, x ∈ m) → l.length ≤ distinctCount m := by
  induction m with
  | nil =>
    intro l _ hs
    cases l with
    | nil => simp
    | cons x xs => exact absurd (hs x (by simp)) (by simp)
  | cons y ys ih =>
    intro l hn hs
    unfold distinctCount
    split
    · rename_i hy
      apply ih l hn
      intro x hx
      have := hs x hx
      simp only [List.mem_cons] at this
      rcases this with rfl | h
      · exact hy
      · exact h
    · rename_i hy
      have h1 := ih (l.erase y) (hn.erase y) (by
        intro x hx
        have hx' := (hn.mem_erase_iff).mp hx
        have := hs x hx'.2
        simp only [List.mem_cons] at this
        rcases this with rfl | h
        · exact absurd rfl hx'.1
        · exact h)
      have h2 : l.length ≤ (l.erase y).length + 1 := by
        rw [List.length_erase]; split <;> omega
      omega

theorem one_add_isSome' (a : FilterArr) (v : Byte) (h : MemA a v ∨ a.cnt < a.bytes.length) :
    (cmdFilterOne false a v).isSome = true := by
  rcases h with h | h
  · have hs := (search_lt_iff a v).mpr h
    unfold cmdFilterOne
    have : ¬ searchFrom a.bytes a.cnt v 0 ≥ a.cnt := by omega
    simp [this]
  · exact one_add_isSome a v h

/-- ids (as stored) that the `-f` elements of the events name -/
def addedIds (evs : List (Bool × Nat)) : List Byte := (evs.filter (fun e => !e.1)).map (fun e => b e.2)

theorem run_isSome_distinct (S : List Byte) (evs : List (Bool × Nat)) (a : FilterArr) (hi : Inv a)
    (hS : ∀ x, MemA a x → x ∈ S) (hE : ∀ x ∈ addedIds evs, x ∈ S) (hc : distinctCount S ≤ a.bytes.length) :
    (runEvents evs a).isSome = true := by
  induction evs generalizing a with
  | nil => rfl
  | cons e es ih =>
    obtain ⟨neg, v⟩ := e
    simp only [runEvents]
    cases neg with
    | true =>
      have hs := one_remove_isSome a (b v)
      cases h1 : cmdFilterOne true a (b v) with
      | none => simp [h1] at hs
      | some a1 =>
        obtain ⟨i1, l1, _, m1⟩ := one_remove a (b v) hi a1 h1
        simp only [Option.bind_some]
        apply ih a1 i1
        · intro x hx; exact hS x ((m1 x).mp hx).1
        · intro x hx; exact hE x (by simpa [addedIds] using hx)
        · omega
    | false =>
      have hv : b v ∈ S := hE (b v) (by simp [addedIds])
      have hroom : MemA a (b v) ∨ a.cnt < a.bytes.length := by
        by_cases hm : MemA a (b v)
        · exact Or.inl hm
        · right
          have hnd := nodup_live a hi
          have hl := live_length a hi.1
          have hnot : b v ∉ a.live := fun h => hm ((mem_live a hi.1 _).mp h)
          have := nodup_subset_length S (b v :: a.live) (List.nodup_cons.mpr ⟨hnot, hnd⟩) (by
            intro x hx
            simp only [List.mem_cons] at hx
            rcases hx with rfl | hx
            · exact hv
            · exact hS x ((mem_live a hi.1 x).mp hx))
          simp only [List.length_cons] at this
          omega
      have hs := one_add_isSome' a (b v) hroom
      cases h1 : cmdFilterOne false a (b v) with
      | none => simp [h1] at hs
      | some a1 =>
        obtain ⟨i1, l1, _, m1⟩ := one_add a (b v) hi a1 h1
        simp only [Option.bind_some]
        apply ih a1 i1
        · intro x hx
          rcases (m1 x).mp hx with h | rfl
          · exact hS x h
          · exact hv
        · intro x hx
          apply hE x
          simp only [addedIds, List.filter_cons, Bool.not_false, if_true, List.map_cons, List.mem_cons]
          exact Or.inr (by simpa [addedIds] using hx)
        · omega

end AslModel.Tools
