import AslModel.Lemmas.PBind
import AslModel.Model.PList
/-! Helper lemmas for the plist part of C07: words, hex/decimal round trips, line fields, the loop. -/
namespace AslModel.Tools
open AslModel.PFile AslModel.PList

/-! ## words -/

theorem wordsAux_sep (cur x rest : List Char) :
    wordsAux cur (x ++ ' ' :: rest) = wordsAux cur x ++ wordsAux [] rest := by
  induction x generalizing cur with
  | nil =>
    simp only [List.nil_append, wordsAux, if_true]
    split <;> simp
  | cons c cs ih =>
    simp only [List.cons_append, wordsAux]
    by_cases hc : c = ' '
    · simp only [hc, if_true]
      split <;> simp [ih]
    · simp only [hc, if_false, ih]

theorem wordsOf_sep (x rest : List Char) : wordsOf (x ++ ' ' :: rest) = wordsOf x ++ wordsOf rest :=
  wordsAux_sep [] x rest

theorem wordsAux_nospace (cur w : List Char) (hw : ∀ c ∈ w, c ≠ ' ') :
    wordsAux cur w = if cur ++ w = [] then [] else [cur ++ w] := by
  induction w generalizing cur with
  | nil => simp [wordsAux]
  | cons c cs ih =>
    have hc : c ≠ ' ' := hw c (by simp)
    simp only [wordsAux, hc, if_false]
    rw [ih _ (fun d hd => hw d (by simp [hd]))]
    simp

theorem wordsOf_word (w : List Char) (hw : ∀ c ∈ w, c ≠ ' ') (hne : w ≠ []) : wordsOf w = [w] := by
  unfold wordsOf
  rw [wordsAux_nospace [] w hw]
  simp [hne]

theorem wordsOf_blanks (k : Nat) : wordsOf (blanks k) = [] := by
  induction k with
  | zero => rfl
  | succ k ih =>
    have : blanks (k + 1) = [] ++ ' ' :: blanks k := by simp [blanks, List.replicate_succ]
    rw [this, wordsOf_sep, ih]; rfl

theorem wordsOf_blanks_append (k : Nat) (rest : List Char) : wordsOf (blanks k ++ rest) = wordsOf rest := by
  induction k with
  | zero => simp [blanks]
  | succ k ih =>
    have : blanks (k + 1) ++ rest = [] ++ ' ' :: (blanks k ++ rest) := by simp [blanks, List.replicate_succ]
    rw [this, wordsOf_sep, ih]; rfl

theorem wordsOf_space (rest : List Char) : wordsOf (' ' :: rest) = wordsOf rest := by
  have := wordsOf_sep [] rest
  simpa [wordsOf, wordsAux] using this

theorem wordsOf_pad (w : Nat) (s rest : List Char) :
    wordsOf (padRight w s ++ ' ' :: rest) = wordsOf s ++ wordsOf rest := by
  unfold padRight
  rw [List.append_assoc]
  cases w - s.length with
  | zero => simp [wordsOf_sep]
  | succ k =>
    have : s ++ (List.replicate (k + 1) ' ' ++ ' ' :: rest) = s ++ ' ' :: (blanks k ++ ' ' :: rest) := by
      simp [blanks, List.replicate_succ]
    rw [this, wordsOf_sep, wordsOf_blanks_append, wordsOf_space]

/-! ## hexadecimal, decimal -/

theorem hexDigitVal_hexDigitU (d : Nat) (hd : d < 16) : hexDigitVal (hexDigitU d) = some d := by
  have : ∀ d : Fin 16, hexDigitVal (hexDigitU d.val) = some d.val := by decide
  exact this ⟨d, hd⟩

theorem hexDigitU_ne_space (d : Nat) (hd : d < 16) : hexDigitU d ≠ ' ' := by
  have : ∀ d : Fin 16, hexDigitU d.val ≠ ' ' := by decide
  exact this ⟨d, hd⟩

theorem hexN_foldl (w n : Nat) (acc : Nat) :
    (hexN w n).foldl (numStep 16 hexDigitVal) (some acc) = some (acc * 16 ^ w + n % 16 ^ w) := by
  induction w generalizing n acc with
  | zero => simp [hexN, Nat.mod_one]
  | succ w ih =>
    simp only [hexN, List.foldl_append, ih, List.foldl_cons, List.foldl_nil, numStep,
      hexDigitVal_hexDigitU (n % 16) (Nat.mod_lt _ (by decide))]
    congr 1
    have h1 : n % 16 ^ (w + 1) = 16 * (n / 16 % 16 ^ w) + n % 16 := by
      rw [Nat.pow_succ, Nat.mul_comm, Nat.mod_mul]; omega
    rw [h1, Nat.pow_succ]
    simp only [Nat.mul_add, Nat.add_mul, Nat.mul_assoc, Nat.mul_comm, Nat.add_assoc, Nat.mul_left_comm]

theorem hexN_ne_nil (w n : Nat) (hw : 0 < w) : hexN w n ≠ [] := by
  cases w with
  | zero => omega
  | succ w => simp [hexN]

theorem hexVal_hexN (w n : Nat) (hw : 0 < w) (hn : n < 16 ^ w) : hexVal (hexN w n) = some n := by
  unfold hexVal
  rw [if_neg (hexN_ne_nil w n hw), hexN_foldl, Nat.mod_eq_of_lt hn]; simp

theorem hexN_nospace (w n : Nat) : ∀ c ∈ hexN w n, c ≠ ' ' := by
  induction w generalizing n with
  | zero => simp [hexN]
  | succ w ih =>
    intro c hc
    simp only [hexN, List.mem_append, List.mem_singleton] at hc
    rcases hc with hc | hc
    · exact ih _ c hc
    · rw [hc]; exact hexDigitU_ne_space _ (Nat.mod_lt _ (by decide))

theorem wordsOf_hexN (w n : Nat) (hw : 0 < w) : wordsOf (hexN w n) = [hexN w n] :=
  wordsOf_word _ (hexN_nospace w n) (hexN_ne_nil w n hw)

/-! ## a table line read back by words -/

theorem blanks_succ (k : Nat) : blanks (k + 1) = ' ' :: blanks k := by simp [blanks, List.replicate_succ]

theorem endAddr_eq_lastAddr (r : Rec) : endAddr r.start r.data.length r.gran.toNat = lastAddr r := by
  unfold endAddr lastAddr
  split
  · rfl
  · rename_i h
    have : r.data.length = 0 := by omega
    simp [this]

theorem endAddr_lt (s l g : Nat) : endAddr s l g < 4294967296 := by
  unfold endAddr; split <;> omega

theorem parseRecLine_recLine (t : Tbl) (h : Hdr) (fam segName : List Char) (start len : Nat)
    (hf : lookupName t.families h.cpu.toNat = some fam) (hfw : wordsOf fam = [nameWord fam])
    (hsw : wordsOf segName = [nameWord segName]) (hs : start < 4294967296) (hl : len < 65536) :
    parseRecLine (recLine t h segName start len) =
      some ⟨nameWord fam, nameWord segName, start, len, endAddr start len h.gran.toNat⟩ := by
  have e : recLine t h segName start len =
      padRight 13 fam ++ ' ' :: (padRight 7 segName ++ ' ' :: (blanks 2 ++ (hexN 8 start ++ ' ' :: (blanks 9 ++
        (hexN 4 len ++ ' ' :: (blanks 6 ++ hexN 8 (endAddr start len h.gran.toNat))))))) := by
    simp only [recLine, famColumn, hf, blanks_succ, List.append_assoc, List.cons_append, List.nil_append]
  unfold parseRecLine
  rw [e, wordsOf_pad, wordsOf_pad, wordsOf_blanks_append, wordsOf_sep, wordsOf_blanks_append, wordsOf_sep,
    wordsOf_blanks_append, wordsOf_hexN _ _ (by decide), wordsOf_hexN _ _ (by decide), wordsOf_hexN _ _ (by decide),
    hfw, hsw]
  simp only [List.cons_append, List.nil_append]
  rw [hexVal_hexN 8 start (by decide) (by omega), hexVal_hexN 4 len (by decide) (by omega),
    hexVal_hexN 8 _ (by decide) (by have := endAddr_lt start len h.gran.toNat; omega)]

/-- the table line of a record of the spec shows the spec's fields -/
theorem recLine_fields (t : Tbl) (r : Rec) (fam segName : List Char)
    (hf : lookupName t.families r.cpu.toNat = some fam) (hfw : wordsOf fam = [nameWord fam])
    (hsw : wordsOf segName = [nameWord segName]) (hwf : r.WF) :
    parseRecLine (recLine t ⟨0x81, r.cpu, r.seg, r.gran⟩ segName r.start r.data.length) =
      some (specFields fam segName r) := by
  rw [parseRecLine_recLine t _ fam segName _ _ hf hfw hsw hwf.1 hwf.2]
  simp only [specFields, endAddr_eq_lastAddr]

theorem parseEntryLine_entryLine (t : Tbl) (a : Nat) (ha : a < 4294967296)
    (he : ∃ pre, t.entry = pre ++ [' ']) : parseEntryLine (entryLine t a) = some a := by
  obtain ⟨pre, hp⟩ := he
  unfold parseEntryLine entryLine
  rw [hp, List.append_assoc]
  simp only [List.cons_append, List.nil_append]
  rw [wordsOf_sep, wordsOf_hexN _ _ (by decide)]
  simp only [List.getLast?_append, List.getLast?_singleton, Option.some_or]
  exact hexVal_hexN 8 a (by decide) (by omega)

/-! ## totals: Sums[] is the fold the spec asks for -/

def sumsAfter (sums : List Nat) (items : List Item) : List Nat :=
  (dataRecs items).foldl (fun s r => addSum s r.seg.toNat r.data.length) sums

theorem addSum_getD (sums : List Nat) (seg len z : Nat) (hs : seg < sums.length) :
    (addSum sums seg len).getD z 0 = if z = seg then (sums.getD seg 0 + len) % 4294967296 else sums.getD z 0 := by
  unfold addSum
  by_cases h : z = seg
  · subst h; simp [List.getD_eq_getElem?_getD, hs]
  · simp only [h, if_false, List.getD_eq_getElem?_getD]
    rw [List.getElem?_set_ne (by omega)]

theorem addSum_length (sums : List Nat) (seg len : Nat) : (addSum sums seg len).length = sums.length := by
  simp [addSum]

def specSumFrom (acc : Nat) (recs : List Rec) (seg : Nat) : Nat :=
  recs.foldl (fun acc r => if r.seg.toNat = seg then acc + r.data.length else acc) acc

theorem sums_fold (recs : List Rec) (sums : List Nat) (z : Nat) (acc : Nat)
    (hseg : ∀ r ∈ recs, r.seg.toNat < sums.length) (hacc : sums.getD z 0 = acc % 4294967296) :
    (recs.foldl (fun s r => addSum s r.seg.toNat r.data.length) sums).getD z 0 =
      specSumFrom acc recs z % 4294967296 := by
  induction recs generalizing sums acc with
  | nil => simpa [specSumFrom] using hacc
  | cons r rs ih =>
    simp only [List.foldl_cons, specSumFrom]
    have hr := hseg r (by simp)
    apply ih
    · intro q hq; rw [addSum_length]; exact hseg q (by simp [hq])
    · rw [addSum_getD _ _ _ _ hr]
      by_cases h : z = r.seg.toNat
      · subst h; simp only [if_true, hacc]; omega
      · have h' : ¬ r.seg.toNat = z := fun e => h e.symm
        simp only [h, h', if_false, hacc]

theorem sumsAfter_getD (items : List Item) (k z : Nat) (hz : z < k)
    (hseg : ∀ r ∈ dataRecs items, r.seg.toNat < k) :
    (sumsAfter (List.replicate k 0) items).getD z 0 = specSum items z % 4294967296 := by
  unfold sumsAfter specSum
  have := sums_fold (dataRecs items) (List.replicate k 0) z 0 (by simpa using hseg)
    (by simp [List.getD_eq_getElem?_getD, hz])
  simpa [specSumFrom] using this

/-! ## the record loop of plist's ProcessSingle -/

def itemLine (t : Tbl) : Item → List Char
  | .data r => recLine t ⟨0x81, r.cpu, r.seg, r.gran⟩ (t.segNames.getD r.seg.toNat []) r.start r.data.length
  | .entry a => entryLine t a

/-- every item gets exactly one line: prefix, the item's line, newline -/
def itemLines (t : Tbl) (pre : List Char) (items : List (Item × Bool)) : List Char :=
  (items.map (fun i => pre ++ itemLine t i.1 ++ ['\n'])).flatten

/-- inside plist's domain: segment number below SegCount, no division by a zero granularity -/
def ListOK (t : Tbl) : Item → Prop
  | .data r => r.seg.toNat < t.segCount ∧ (r.data.length ≠ 0 → r.gran.toNat ≠ 0)
  | .entry _ => True

theorem plist_end (t : Tbl) (pre : List Char) (n fuel : Nat) (prev : Hdr) (creator : List Byte) (st : PSt) :
    plistLoop t pre n (fuel + 1) prev (0x00 :: creator) st =
      .ok { st with out := st.out ++ pre ++ creatorLine t creator ++ ['\n'] } := by
  rw [plistLoop, read_end]
  simp [consts]

theorem plist_entry (t : Tbl) (pre : List Char) (n fuel : Nat) (prev : Hdr) (a : Nat) (tl : List Byte) (st : PSt)
    (ha : a < 4294967296) :
    plistLoop t pre n (fuel + 1) prev ([0x80] ++ le32 a ++ tl) st =
      plistLoop t pre n fuel { prev with hdr := 0x80 } tl { st with out := st.out ++ pre ++ entryLine t a ++ ['\n'] } := by
  rw [plistLoop]
  simp only [List.cons_append, List.nil_append, read_entry]
  have e1 : (0x80 : Byte).toNat = hStart := by decide
  have e0 : ¬ (hStart = hEnd) := by decide
  simp only [e1, e0, if_true, if_false, le32, List.cons_append, List.nil_append]
  have := rd32_le32 a ha
  simp only [this]

theorem plist_data (t : Tbl) (pre : List Char) (n fuel : Nat) (prev : Hdr) (r : Rec) (sh : Bool) (tl : List Byte)
    (st : PSt) (hwf : r.WF) (hok : ListOK t (.data r)) (htl : 1 ≤ tl.length) (hn : r.data.length + tl.length ≤ n) :
    plistLoop t pre n (fuel + 1) prev (serItemForm (.data r, sh) ++ tl) st =
      plistLoop t pre n fuel ⟨0x81, r.cpu, r.seg, r.gran⟩ tl
        { out := st.out ++ pre ++ itemLine t (.data r) ++ ['\n'], sums := addSum st.sums r.seg.toNat r.data.length } := by
  rw [plistLoop, read_dataForm]
  have e0 : ¬ (hData = hEnd) := by decide
  have e1 : ¬ (hData = hStart) := by decide
  have e2 : (0x81 : Byte).toNat = hData := by decide
  have e3 : ¬ (hData = hRelocInfo) := by decide
  simp only [Rec.WF] at hwf
  obtain ⟨hs, hg⟩ := hok
  have hs' : ¬ (r.seg.toNat ≥ t.segCount) := by omega
  simp only [e0, e1, e2, e3, hs', true_or, if_false, if_true, le32, le16, List.cons_append, List.nil_append]
  rw [rd16_le16 _ hwf.2, rd32_le32 _ hwf.1]
  have hgr : ¬ (r.data.length ≠ 0 ∧ r.gran.toNat = 0) := fun ⟨a, b'⟩ => hg a b'
  have hchk : ¬ (n - (r.data ++ tl).length + r.data.length ≥ n) := by
    simp only [List.length_append]; omega
  simp only [hgr, hchk, if_false, List.drop_left, itemLine]

theorem plist_items (t : Tbl) (pre : List Char) (n : Nat) (items : List (Item × Bool)) (creator : List Byte)
    (hwf : ∀ i ∈ items, i.1.WF) (hok : ∀ i ∈ items, ListOK t i.1)
    (fuel : Nat) (hf : items.length < fuel) (prev : Hdr) (st : PSt)
    (hn : ((items.map serItemForm).flatten ++ 0x00 :: creator).length ≤ n) :
    plistLoop t pre n fuel prev ((items.map serItemForm).flatten ++ 0x00 :: creator) st =
      .ok ⟨st.out ++ itemLines t pre items ++ pre ++ creatorLine t creator ++ ['\n'],
           sumsAfter st.sums (items.map (·.1))⟩ := by
  induction items generalizing fuel prev st with
  | nil =>
    cases fuel with
    | zero => omega
    | succ f => simp [plist_end, itemLines, sumsAfter, dataRecs]
  | cons i is ih =>
    cases fuel with
    | zero => omega
    | succ f =>
      have hwi := hwf i (by simp)
      have hoi := hok i (by simp)
      have htl : 1 ≤ ((is.map serItemForm).flatten ++ 0x00 :: creator).length := by
        simp only [List.length_append, List.length_cons]; omega
      have hn' : ((is.map serItemForm).flatten ++ 0x00 :: creator).length ≤ n := by
        simp only [List.map_cons, List.flatten_cons, List.length_append] at hn ⊢; omega
      have ih' := ih (fun j hj => hwf j (by simp [hj])) (fun j hj => hok j (by simp [hj])) f
        (by simp at hf; omega)
      obtain ⟨it, sh⟩ := i
      simp only [List.map_cons, List.flatten_cons, List.append_assoc]
      cases it with
      | entry a =>
        have := plist_entry t pre n f prev a ((is.map serItemForm).flatten ++ 0x00 :: creator) st hwi
        simp only [serItemForm, List.append_assoc] at this ⊢
        rw [this, ih' _ _ hn']
        simp [itemLines, itemLine, sumsAfter, dataRecs]
      | data r =>
        have hlen : r.data.length + ((is.map serItemForm).flatten ++ 0x00 :: creator).length ≤ n := by
          have h5 : r.data.length ≤ (serItemForm (.data r, sh)).length := by
            cases sh <;> simp only [serItemForm, serAuto, serLong, serShort] <;> (try split) <;> simp <;> omega
          simp only [List.map_cons, List.flatten_cons, List.length_append] at hn ⊢; omega
        rw [plist_data t pre n f prev r sh _ st hwi hoi htl hlen, ih' _ _ hn']
        simp [itemLines, sumsAfter, dataRecs]

end AslModel.Tools
