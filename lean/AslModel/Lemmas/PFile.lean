import AslModel.Spec.PFile
/-! Helper lemmas: reader/serialiser round trip of the code file format. -/
namespace AslModel.PFile

theorem parseItems_ser (items : List Item) (creator : List Byte) (hwf : ∀ i ∈ items, i.WF)
    (fuel : Nat) (hf : items.length < fuel) :
    parseItems fuel ((items.map serItemLong).flatten ++ [0x00] ++ creator) = some (items, creator) := by
  induction items generalizing fuel with
  | nil =>
    cases fuel with
    | zero => omega
    | succ f => simp [parseItems]
  | cons i is ih =>
    cases fuel with
    | zero => omega
    | succ f =>
      have hi := hwf i (by simp)
      have his : ∀ r' ∈ is, r'.WF := fun r' h => hwf r' (by simp [h])
      have ih' := ih his f (by simp at hf; omega)
      simp only [List.append_assoc, List.cons_append, List.nil_append] at ih'
      cases i with
      | entry a =>
        simp only [Item.WF] at hi
        simp only [List.map_cons, List.flatten_cons, serItemLong, le32, List.cons_append, List.nil_append,
          List.append_assoc, parseItems]
        rw [rd32_le32 _ hi, ih']
        simp
      | data r =>
        simp only [Item.WF, Rec.WF] at hi
        simp only [List.map_cons, List.flatten_cons, serItemLong, serLong, le32, le16, List.cons_append,
          List.nil_append, List.append_assoc, parseItems]
        rw [rd16_le16 _ hi.2, rd32_le32 _ hi.1]
        have hlen : ¬ (r.data ++ ((is.map serItemLong).flatten ++ (0x00 :: creator))).length < r.data.length := by
          simp
        simp only [hlen, if_false, List.drop_left, List.take_left]
        rw [ih']
        simp

theorem len_le (items : List Item) : items.length ≤ ((items.map serItemLong).flatten).length := by
  induction items with
  | nil => simp
  | cons i is ih =>
    cases i <;>
    simp only [List.map_cons, List.flatten_cons, List.length_append, List.length_cons, serItemLong, serLong, le32,
      le16, List.length_nil] <;> omega

theorem parseFile_serFileLong (items : List Item) (creator : List Byte) (hwf : ∀ i ∈ items, i.WF) :
    parseFile (serFileLong items creator) = some (items, creator) := by
  simp only [serFileLong, magic, parseFile, List.cons_append, List.nil_append, List.append_assoc]
  have h := parseItems_ser items creator hwf
    (((items.map serItemLong).flatten ++ ([0x00] ++ creator)).length + 1) (by
      have := len_le items
      simp only [List.length_append]; omega)
  simpa [List.append_assoc] using h

end AslModel.PFile
