import AslModel.Lemmas.NestData
/-! Helper lemmas for `C11_nest_refines`: what the single operations of the machine (Model/MacroNest.lean) do to the parts
of the state the refinement relation looks at. -/
namespace AslModel.NestModel
open AslModel.NestSpec

/-- the two states agree in everything `Data` looks at -/
structure DEq (a b : St) : Prop where
  pc : a.pc = b.pc
  out : a.out = b.out
  dbl : a.dbl = b.dbl
  pass : a.pass = b.pass
  undef : a.undef = b.undef
  repass : a.repass = b.repass
  syms : a.syms = b.syms
  refused : a.refused = b.refused
  maxUse : a.maxUse = b.maxUse

theorem DEq.refl (a : St) : DEq a a := ⟨rfl, rfl, rfl, rfl, rfl, rfl, rfl, rfl, rfl⟩

theorem DEq.symm {a b : St} (h : DEq a b) : DEq b a :=
  ⟨h.pc.symm, h.out.symm, h.dbl.symm, h.pass.symm, h.undef.symm, h.repass.symm, h.syms.symm, h.refused.symm, h.maxUse.symm⟩

theorem DEq.trans {a b c : St} (h1 : DEq a b) (h2 : DEq b c) : DEq a c :=
  ⟨h1.pc.trans h2.pc, h1.out.trans h2.out, h1.dbl.trans h2.dbl, h1.pass.trans h2.pass, h1.undef.trans h2.undef,
   h1.repass.trans h2.repass, h1.syms.trans h2.syms, h1.refused.trans h2.refused, h1.maxUse.trans h2.maxUse⟩

theorem Data.of_deq {ρ : Int → Nat} {s : SSt} {a b : St} (h : DEq a b) (d : Data ρ s a) : Data ρ s b :=
  ⟨h.pc ▸ d.pc, h.out ▸ d.out, h.dbl ▸ d.dbl, h.pass ▸ d.pass, h.pass ▸ h.undef ▸ d.undef1, h.pass ▸ h.undef ▸ d.undef2,
   h.pass ▸ h.repass ▸ d.repass, h.syms ▸ d.syms, h.syms ▸ d.symsOK, h.refused ▸ d.refused, h.maxUse ▸ d.maxUse⟩

/-- the two SPEC states agree in everything `Data` looks at -/
structure SEq (a b : SSt) : Prop where
  pc : a.pc = b.pc
  out : a.out = b.out
  dbl : a.dbl = b.dbl
  pass : a.pass = b.pass
  undef : a.undef = b.undef
  syms : a.syms = b.syms
  maxOpen : a.maxOpen = b.maxOpen

theorem Data.of_seq {ρ : Int → Nat} {a b : SSt} {ms : St} (h : SEq a b) (d : Data ρ a ms) : Data ρ b ms :=
  ⟨h.pc ▸ d.pc, h.out ▸ d.out, h.dbl ▸ d.dbl, h.pass ▸ d.pass, d.undef1, h.undef ▸ d.undef2,
   h.undef ▸ d.repass, h.syms ▸ d.syms, d.symsOK, d.refused, h.maxOpen ▸ d.maxUse⟩

theorem seq_enter (s : SSt) (c : Ctx) (gs : Bool) : SEq s (enter s c gs).1 := by
  unfold enter; split <;> exact ⟨rfl, rfl, rfl, rfl, rfl, rfl, rfl⟩

theorem CtxRel.of_eq {ρ : Int → Nat} {c : Ctx} {a b : St} (hm : a.mom = b.mom) (hh : a.hstack = b.hstack)
    (hu : ∀ m, a.use m = b.use m) (r : CtxRel ρ c a) : CtxRel ρ c b :=
  ⟨hm ▸ hh ▸ r.chain, hm ▸ hh ▸ r.hok, fun m => (hu m) ▸ r.use m⟩

/-! ### the label operations -/

theorem defLabel_data {ρ : Int → Nat} (hρ : RhoOK ρ) {c : Ctx} {s : SSt} {ms : St} (hd : Data ρ s ms) (hc : CtxRel ρ c ms)
    (l : Nat) : Data ρ (NestSpec.defLabel s c l) (defLabel ms l) := by
  have hhead : c.chain.headD 0 = ρ ms.mom := by rw [hc.chain]; rfl
  have hmom := hc.hok.mom_ge
  have hf : NestSpec.findSym s.syms l (c.chain.headD 0) = (findSym ms.syms l ms.mom).map (symOf ρ) := by
    rw [hhead, hd.syms]; exact findSym_map hρ ms.syms hd.symsOK l ms.mom hmom
  refine ⟨hd.pc, hd.out, ?_, hd.pass, hd.undef1, hd.undef2, hd.repass, ?_, ?_, hd.refused, hd.maxUse⟩
  · unfold NestSpec.defLabel defLabel
    simp only
    rw [hf, hd.pass, hd.dbl]
    cases findSym ms.syms l ms.mom <;> rfl
  · show _ :: s.syms = symOf ρ _ :: ms.syms.map (symOf ρ)
    rw [hd.syms, hhead, hd.pc, hd.pass]; rfl
  · intro e he
    have he' : e ∈ _ :: ms.syms := he
    simp only [List.mem_cons] at he'
    rcases he' with rfl | he'
    · exact hmom
    · exact hd.symsOK e he'

theorem useLabel_data {ρ : Int → Nat} (hρ : RhoOK ρ) {c : Ctx} {s : SSt} {ms : St} (hd : Data ρ s ms) (hc : CtxRel ρ c ms)
    (l : Nat) : Data ρ (NestSpec.useLabel s c l) (useLabel ms l) := by
  unfold NestSpec.useLabel useLabel
  rw [findLabel_lookup hρ hd hc l]
  cases lookup s.syms l c.chain with
  | some v =>
    exact ⟨by show ms.pc + 1 = s.pc + 1; rw [hd.pc], by show _ :: ms.out = _ :: s.out; rw [hd.out], hd.dbl, hd.pass, hd.undef1,
      hd.undef2, hd.repass, hd.syms, hd.symsOK, hd.refused, hd.maxUse⟩
  | none =>
    by_cases hp : ms.pass = 1
    · rw [if_pos hp]
      refine ⟨by show ms.pc + 1 = s.pc + 1; rw [hd.pc], by show _ :: ms.out = _ :: s.out; rw [hd.out], hd.dbl, hd.pass, hd.undef1,
        fun h => absurd hp h, ?_, hd.syms, hd.symsOK, hd.refused, hd.maxUse⟩
      show true = (decide (ms.pass = 1) && decide (0 < s.undef + 1))
      simp [hp]
    · rw [if_neg hp]
      refine ⟨by show ms.pc + 1 = s.pc + 1; rw [hd.pc], by show _ :: ms.out = _ :: s.out; rw [hd.out], hd.dbl, hd.pass,
        fun h => absurd h hp, fun _ => ?_, ?_, hd.syms, hd.symsOK, hd.refused, hd.maxUse⟩
      · show ms.undef + 1 = s.undef + 1
        rw [hd.undef2 hp]
      · show ms.repass = (decide (ms.pass = 1) && decide (0 < s.undef + 1))
        rw [hd.repass]; simp [hp]

theorem defLabel_cnt (s : St) (l : Nat) : (defLabel s l).cnt = s.cnt := rfl
theorem defLabel_mom (s : St) (l : Nat) : (defLabel s l).mom = s.mom := rfl

theorem useLabel_cnt (s : St) (l : Nat) : (useLabel s l).cnt = s.cnt := by
  unfold useLabel; split
  · rfl
  · split <;> rfl

theorem useLabel_mom (s : St) (l : Nat) : (useLabel s l).mom = s.mom := by
  unfold useLabel; split
  · rfl
  · split <;> rfl

/-! ### frames -/

theorem nextFrame_arg (f : Frame) (ls : List BLine) : (nextFrame f ls).arg = f.arg := by
  unfold nextFrame
  cases f.kind <;> simp only
  split <;> rfl

theorem nextFrame_rest (f : Frame) (ls : List BLine) (h : ls ≠ []) : (nextFrame f ls).rest = ls := by
  unfold nextFrame
  cases f.kind <;> simp only
  have : ls.isEmpty = false := by cases ls <;> simp_all
  simp [this]

theorem nextFrame_isEmpty (f : Frame) (ls : List BLine) (h : ls ≠ []) (he : f.isEmpty = false) :
    (nextFrame f ls).isEmpty = false := by
  have : ls.isEmpty = false := by cases ls <;> simp_all
  unfold nextFrame
  cases f.kind <;> simp [this, he]

theorem handleOps_nextFrame (f : Frame) (ls : List BLine) (h : ls ≠ []) (s : St) : handleOps (nextFrame f ls) s = s := by
  have : ls.isEmpty = false := by cases ls <;> simp_all
  unfold handleOps nextFrame
  cases f.kind <;> simp [this]

theorem nextFrame_nextFrame (f : Frame) (ls ls' : List BLine) (h : ls ≠ []) :
    nextFrame (nextFrame f ls) ls' = nextFrame f ls' := by
  have : ls.isEmpty = false := by cases ls <;> simp_all
  cases f with
  | mk kind mac gs arg body rest atFirst first itersLeft isEmpty pushed =>
    cases kind <;> simp [nextFrame, this]

/-! ### rounds of the main loop -/

theorem step_pop {p : Prog} {q : Quirks} {ms : St} {f : Frame} {below : List Frame} (hst : ms.stack = f :: below)
    (he : f.isEmpty = true) : step p q ms = some (restorer q f { ms with stack := below }) := by
  unfold step; rw [hst]; simp [he]

theorem step_deliver {p : Prog} {q : Quirks} {ms : St} {f : Frame} {below : List Frame} {l : BLine} {ls : List BLine}
    (hst : ms.stack = f :: below) (he : f.isEmpty = false) (hr : f.rest = l :: ls) :
    step p q ms = some (exec p (nextFrame f ls).arg l { handleOps f ms with stack := nextFrame f ls :: below }) := by
  unfold step; rw [hst]; simp [he, deliver, hr]

end AslModel.NestModel
