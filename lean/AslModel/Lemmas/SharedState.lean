import AslModel.Model.SharedState
/-! Helper lemmas for C18 (shared helper state): the byte-order flag is irrelevant for files without a stale read; the
abstract run `leavesPendingFrom` decides whether a pass leaves queued entries behind. -/
namespace AslModel.SharedState

/-- equal up to the byte-order flag -/
structure EqT (s1 s2 : St) : Prop where
  pending : s1.pending = s2.pending
  cur : s1.cur = s2.cur
  recs : s1.recs = s2.recs

theorem eqT_newRecord (s1 s2 : St) (h : EqT s1 s2) : EqT (newRecord s1) (newRecord s2) := by
  obtain ⟨p1, t1, c1, r1⟩ := s1
  obtain ⟨p2, t2, c2, r2⟩ := s2
  obtain ⟨hp, hc, hr⟩ := h
  simp only at hp hc hr
  subst hp hc hr
  unfold newRecord
  simp only
  by_cases hq : c1 = []
  · rw [if_pos hq, if_pos hq]; exact ⟨rfl, rfl, rfl⟩
  · rw [if_neg hq, if_neg hq]; exact ⟨rfl, rfl, rfl⟩

theorem eqT_step (s1 s2 : St) (op : Op) (h : EqT s1 s2) (hop : ∀ v, op ≠ .word none v) : EqT (step s1 op) (step s2 op) := by
  cases op with
  | stmt sets bytes => exact ⟨h.pending, by simp [step, h.cur], h.recs⟩
  | word src v =>
    cases src with
    | none => exact absurd rfl (hop v)
    | some b => exact ⟨h.pending, by simp [step, h.cur], h.recs⟩
  | newrec => exact eqT_newRecord s1 s2 h
  | exportSym k => exact ⟨by simp [step, h.pending], h.cur, h.recs⟩

theorem eqT_run (ops : List Op) (s1 s2 : St) (h : EqT s1 s2) (hn : noStale ops = true) : EqT (run s1 ops) (run s2 ops) := by
  induction ops generalizing s1 s2 with
  | nil => exact h
  | cons op rest ih =>
    simp only [run, List.foldl_cons]
    have hrest : noStale rest = true := by
      cases op with
      | word src v => cases src <;> simp_all [noStale]
      | _ => simpa [noStale] using hn
    apply ih _ _ _ hrest
    apply eqT_step s1 s2 op h
    intro v hv
    subst hv
    simp [noStale] at hn

/-- the abstract state of the record writer -/
def ne (s : St) : Bool := !s.cur.isEmpty
def qd (s : St) : Bool := !s.pending.isEmpty

theorem newRecord_pending_nil (s : St) : (newRecord s).pending = [] ↔ (if ne s then false else qd s) = false := by
  unfold newRecord ne qd
  cases hc : s.cur with
  | nil => cases hp : s.pending <;> simp [hp]
  | cons a r => simp

theorem pending_run (ops : List Op) (s : St) :
    (newRecord (run s ops)).pending = [] ↔ leavesPendingFrom (ne s) (qd s) ops = false := by
  induction ops generalizing s with
  | nil =>
    simp only [run, List.foldl_nil, leavesPendingFrom]
    exact newRecord_pending_nil s
  | cons op rest ih =>
    simp only [run, List.foldl_cons]
    have := ih (step s op)
    simp only [run] at this
    rw [this]
    cases op with
    | stmt sets bytes =>
      have h1 : ne (step s (.stmt sets bytes)) = (ne s || !bytes.isEmpty) := by
        simp only [ne, step]
        cases bytes <;> cases hc : s.cur <;> simp
      have h2 : qd (step s (.stmt sets bytes)) = qd s := rfl
      rw [h1, h2]; rfl
    | word src v =>
      have h1 : ne (step s (.word src v)) = true := by
        simp only [ne, step, putADR]
        split <;> simp
      have h2 : qd (step s (.word src v)) = qd s := rfl
      rw [h1, h2]
      cases ne s <;> rfl
    | newrec =>
      simp only [step, leavesPendingFrom]
      unfold newRecord ne qd
      cases hc : s.cur with
      | nil => simp [hc]
      | cons a r => simp
    | exportSym k =>
      have h1 : ne (step s (.exportSym k)) = ne s := rfl
      have h2 : qd (step s (.exportSym k)) = true := by simp [qd, step]
      rw [h1, h2]
      cases ne s <;> rfl

theorem eqT_closeFile (flush : Bool) (s1 s2 : St) (h : EqT s1 s2) : EqT (closeFile flush s1) (closeFile flush s2) := by
  have h' := eqT_newRecord s1 s2 h
  unfold closeFile
  simp only
  rw [h'.pending, h'.recs]
  by_cases hq : (flush && !(newRecord s2).pending.isEmpty) = true
  · rw [if_pos hq, if_pos hq]; exact ⟨rfl, h'.cur, rfl⟩
  · rw [if_neg hq, if_neg hq]; exact ⟨h'.pending, h'.cur, h'.recs⟩

theorem closeFile_pending_flush (s : St) : (closeFile true s).pending = [] := by
  unfold closeFile
  simp only [Bool.true_and]
  cases hp : (newRecord s).pending with
  | nil => simp [hp]
  | cons a r => simp

theorem closeFile_noflush (s : St) : closeFile false s = newRecord s := by
  unfold closeFile; simp

/-- a pass of a settled file that starts with empty lists ends with empty lists; with the repaired `CloseFile` every pass does -/
theorem runPass_pending (flush : Bool) (c : Carry) (ops : List Op) (hc : c.pending = [])
    (hl : flush = true ∨ leavesPending ops = false) : (runPass flush c ops).pending = [] := by
  unfold runPass
  cases flush with
  | true => exact closeFile_pending_flush _
  | false =>
    rcases hl with hl | hl
    · exact absurd hl (by decide)
    · rw [closeFile_noflush, pending_run]
      simpa [ne, qd, hc, leavesPending] using hl

/-- … and its records do not depend on the flag it starts with -/
theorem runPass_recs (flush : Bool) (c1 c2 : Carry) (ops : List Op) (hp : c1.pending = c2.pending) (hn : noStale ops = true) :
    (runPass flush c1 ops).recs = (runPass flush c2 ops).recs ∧ (runPass flush c1 ops).pending = (runPass flush c2 ops).pending := by
  have h := eqT_closeFile flush _ _ (eqT_run ops ⟨c1.pending, c1.turn, [], []⟩ ⟨c2.pending, c2.turn, [], []⟩ ⟨hp, rfl, rfl⟩ hn)
  exact ⟨h.recs, h.pending⟩

theorem passLoop_clean (flush : Bool) (n : Nat) (c1 c2 : Carry) (ops : List Op) (h1 : c1.pending = []) (h2 : c2.pending = [])
    (hn : noStale ops = true) (hl : flush = true ∨ leavesPending ops = false) :
    (passLoop flush n c1 ops).1 = (passLoop flush n c2 ops).1 ∧ (passLoop flush n c1 ops).2.pending = [] := by
  induction n generalizing c1 c2 with
  | zero =>
    simp only [passLoop, carryOf]
    exact ⟨by rw [(runPass_recs flush c1 c2 ops (by rw [h1, h2]) hn).1], runPass_pending flush c1 ops h1 hl⟩
  | succ n ih =>
    simp only [passLoop]
    apply ih
    · simp only [carryOf]; exact runPass_pending flush c1 ops h1 hl
    · simp only [carryOf]; exact runPass_pending flush c2 ops h2 hl

end AslModel.SharedState
