import AslModel.Model.Macro
/-! Lemmas for C11 (token layer).  The intermediate strings of `compressAll`/`expandAll` are described by lists
of pieces (`oth c`, `run r`, `tok z`, `arg a`); one `CompressLine` / `ExpandLine` call is a `map` over the pieces. -/
namespace AslModel.Macro
open AslModel.MacroSpec

inductive Piece where
  | oth (c : Ch)
  | run (r : Line)
  | tok (z : Nat)
  | arg (a : Line)

def Piece.flat : Piece → Line
  | .oth c => [c]
  | .run r => r
  | .tok z => token z
  | .arg a => a

def flat : List Piece → Line
  | [] => []
  | p :: ps => p.flat ++ flat ps

def headOth : List Piece → Prop
  | [] => True
  | .oth _ :: _ => True
  | _ :: _ => False

/-- invariant of the intermediate strings.  `ae`: pieces that are already expanded arguments are allowed. -/
def WF (ae : Bool) : List Piece → Prop
  | [] => True
  | .oth c :: s => isAlnum c = false ∧ 32 ≤ c.toNat ∧ c ≠ 92 ∧ WF ae s
  | .run r :: s => r ≠ [] ∧ (∀ x ∈ r, isAlnum x = true) ∧ headOth s ∧ WF ae s
  | .tok z :: s => z < 496 ∧ headOth s ∧ WF ae s
  | .arg a :: s => ae = true ∧ (∀ x ∈ a, 32 ≤ x.toNat) ∧ headOth s ∧ WF ae s

theorem WF_mono : ∀ s, WF false s → WF true s
  | [], _ => trivial
  | .oth _ :: s, h => ⟨h.1, h.2.1, h.2.2.1, WF_mono s h.2.2.2⟩
  | .run _ :: s, h => ⟨h.1, h.2.1, h.2.2.1, WF_mono s h.2.2.2⟩
  | .tok _ :: s, h => ⟨h.1, h.2.1, WF_mono s h.2.2⟩
  | .arg _ :: s, h => by simp [WF] at h

/-! ### characters -/

theorem alnum_ge (c : Ch) (h : isAlnum c = true) : 48 ≤ c.toNat := by
  simp only [isAlnum, Bool.or_eq_true, Bool.and_eq_true, decide_eq_true_eq] at h; omega

theorem alnum_ne92 (c : Ch) (h : isAlnum c = true) : (c == 92) = false := by
  have h' : c.toNat ≠ 92 := by
    simp only [isAlnum, Bool.or_eq_true, Bool.and_eq_true, decide_eq_true_eq] at h; omega
  cases hc : c == 92 with
  | false => rfl
  | true =>
    have : c = 92 := by simpa using hc
    exact absurd (by rw [this]; rfl) h'

theorem tok1_toNat (z : Nat) (h : z < 496) : (tok1 z).toNat = z / 16 + 1 := by
  simp only [tok1, UInt8.toNat_ofNat']; omega

theorem tok2_toNat (z : Nat) : (tok2 z).toNat = z % 16 + 1 := by
  simp only [tok2, UInt8.toNat_ofNat']; omega

theorem tok1_lt (z : Nat) (h : z < 496) : (tok1 z).toNat < 32 := by rw [tok1_toNat z h]; omega
theorem tok2_lt (z : Nat) : (tok2 z).toNat < 32 := by rw [tok2_toNat z]; omega

theorem lt32_not_alnum (c : Ch) (h : c.toNat < 32) : isAlnum c = false := by
  cases hc : isAlnum c with
  | false => rfl
  | true => have := alnum_ge c hc; omega

theorem token_inj (z z' : Nat) (h : z < 496) (h' : z' < 496)
    (e1 : tok1 z' = tok1 z) (e2 : tok2 z' = tok2 z) : z' = z := by
  have a := congrArg UInt8.toNat e1
  have b := congrArg UInt8.toNat e2
  rw [tok1_toNat z h, tok1_toNat z' h'] at a
  rw [tok2_toNat, tok2_toNat] at b
  omega

/-- ASCII upper-casing keeps the letter/digit class -/
theorem isAlnum_upc (c : Ch) : isAlnum (upc c) = isAlnum c := by
  unfold upc
  split
  · rename_i h
    have e : (UInt8.ofNat (c.toNat - 32)).toNat = c.toNat - 32 := by
      simp only [UInt8.toNat_ofNat']; omega
    have l : isAlnum (UInt8.ofNat (c.toNat - 32)) = true := by
      simp only [isAlnum, e, Bool.or_eq_true, Bool.and_eq_true, decide_eq_true_eq]; omega
    have r : isAlnum c = true := by
      simp only [isAlnum, Bool.or_eq_true, Bool.and_eq_true, decide_eq_true_eq]; omega
    rw [l, r]
  · rfl

theorem eqCh_alnum (cs : Bool) (p c : Ch) (h : eqCh cs p c = true) : isAlnum p = isAlnum c := by
  unfold eqCh at h
  cases cs with
  | true =>
    have : p = c := by simpa using h
    rw [this]
  | false =>
    have e : upc p = upc c := by simpa using h
    rw [← isAlnum_upc p, ← isAlnum_upc c, e]

theorem headIs_head_mismatch (cs : Bool) (n : Ch) (ns : Line) (c : Ch) (rest : Line)
    (hn : isAlnum n = true) (hc : isAlnum c = false) : headIs cs (n :: ns) (c :: rest) = false := by
  simp only [headIs]
  cases h : eqCh cs n c with
  | false => rfl
  | true => have := eqCh_alnum cs n c h; rw [hn, hc] at this; cases this

/-! ### pieces of the text -/

theorem nextAl_flat (ae : Bool) : ∀ s, headOth s → WF ae s → nextAl (flat s) = false
  | [], _, _ => rfl
  | .oth c :: s, _, h => by simp [flat, Piece.flat, nextAl, h.1]
  | .run _ :: _, h, _ => h.elim
  | .tok _ :: _, h, _ => h.elim
  | .arg _ :: _, h, _ => h.elim

/-- the whole-name test of `ReplaceLine` at the start of a maximal run -/
theorem match_run (cs : Bool) : ∀ (name r R : Line), (∀ x ∈ name, isAlnum x = true) →
    (∀ x ∈ r, isAlnum x = true) → nextAl R = false →
    (headIs cs name (r ++ R) && !nextAl ((r ++ R).drop name.length)) = eqLine cs name r
  | [], [], R, _, _, hR => by simp [headIs, eqLine, hR]
  | [], x :: xs, R, _, hr, _ => by
    have : isAlnum x = true := hr x (by simp)
    simp [headIs, eqLine, nextAl, this]
  | p :: ps, [], R, hn, _, hR => by
    have hp : isAlnum p = true := hn p (by simp)
    cases R with
    | nil => simp [headIs, eqLine]
    | cons c R' =>
      have hc : isAlnum c = false := hR
      simp [headIs_head_mismatch cs p ps c R' hp hc, eqLine]
  | p :: ps, x :: xs, R, hn, hr, hR => by
    have ih := match_run cs ps xs R (fun y hy => hn y (by simp [hy])) (fun y hy => hr y (by simp [hy])) hR
    simp only [List.cons_append, headIs, eqLine, List.length_cons, List.drop_succ_cons, Bool.and_assoc]
    rw [ih]

theorem eqLine_length (cs : Bool) : ∀ (a b : Line), eqLine cs a b = true → a.length = b.length
  | [], [], _ => rfl
  | [], _ :: _, h => by simp [eqLine] at h
  | _ :: _, [], h => by simp [eqLine] at h
  | _ :: ps, _ :: xs, h => by
    simp only [eqLine, Bool.and_eq_true] at h
    simp [eqLine_length cs ps xs h.2]

/-- inside a run (previous character alphanumeric) nothing is replaced -/
theorem replaceLine_in_run (cs : Bool) (n : Ch) (ns repl : Line) :
    ∀ (xs R : Line), (∀ x ∈ xs, isAlnum x = true) →
      replaceLine cs n ns repl true (xs ++ R) = xs ++ replaceLine cs n ns repl true R
  | [], R, _ => rfl
  | x :: xs, R, h => by
    have hx : isAlnum x = true := h x (by simp)
    rw [List.cons_append, replaceLine]
    simp only [alnum_ne92 x hx, Bool.false_and, Bool.false_eq_true, if_false, Bool.not_true, Bool.and_false,
      nErl, hx]
    rw [replaceLine_in_run cs n ns repl xs R (fun y hy => h y (by simp [hy]))]
    rfl

def cStep (cs : Bool) (name : Line) (z : Nat) : Piece → Piece
  | .run r => if eqLine cs name r then .tok z else .run r
  | p => p

def eStep (z : Nat) (a : Line) : Piece → Piece
  | .tok z' => if z' = z then .arg a else .tok z'
  | p => p

theorem headOth_map (f : Piece → Piece) (hf : ∀ c, f (.oth c) = .oth c) : ∀ s, headOth s → headOth (s.map f)
  | [], _ => trivial
  | .oth c :: s, _ => by simp [hf, headOth]
  | .run _ :: _, h => h.elim
  | .tok _ :: _, h => h.elim
  | .arg _ :: _, h => h.elim

theorem WF_cStep (cs : Bool) (name : Line) (z : Nat) (hz : z < 496) :
    ∀ s, WF false s → WF false (s.map (cStep cs name z))
  | [], _ => trivial
  | .oth c :: s, h => ⟨h.1, h.2.1, h.2.2.1, WF_cStep cs name z hz s h.2.2.2⟩
  | .run r :: s, h => by
    have ho := headOth_map (cStep cs name z) (fun _ => rfl) s h.2.2.1
    have hw := WF_cStep cs name z hz s h.2.2.2
    simp only [List.map_cons, cStep]
    split
    · exact ⟨hz, ho, hw⟩
    · exact ⟨h.1, h.2.1, ho, hw⟩
  | .tok z' :: s, h =>
    ⟨h.1, headOth_map (cStep cs name z) (fun _ => rfl) s h.2.1, WF_cStep cs name z hz s h.2.2⟩
  | .arg _ :: s, h => by simp [WF] at h

theorem WF_eStep (z : Nat) (a : Line) (ha : ∀ x ∈ a, 32 ≤ x.toNat) :
    ∀ s, WF true s → WF true (s.map (eStep z a))
  | [], _ => trivial
  | .oth c :: s, h => ⟨h.1, h.2.1, h.2.2.1, WF_eStep z a ha s h.2.2.2⟩
  | .run r :: s, h =>
    ⟨h.1, h.2.1, headOth_map (eStep z a) (fun _ => rfl) s h.2.2.1, WF_eStep z a ha s h.2.2.2⟩
  | .tok z' :: s, h => by
    have ho := headOth_map (eStep z a) (fun _ => rfl) s h.2.1
    have hw := WF_eStep z a ha s h.2.2
    simp only [List.map_cons, eStep]
    split
    · exact ⟨rfl, ha, ho, hw⟩
    · exact ⟨h.1, ho, hw⟩
  | .arg b :: s, h =>
    ⟨h.1, h.2.1, headOth_map (eStep z a) (fun _ => rfl) s h.2.2.1, WF_eStep z a ha s h.2.2.2⟩

/-- a character that is neither a backslash nor the start of the name is copied -/
theorem replaceLine_skip (cs : Bool) (n : Ch) (ns repl : Line) (hn : isAlnum n = true) (p : Bool)
    (c : Ch) (rest : Line) (hc : isAlnum c = false) (h92 : c ≠ 92) :
    replaceLine cs n ns repl p (c :: rest) = c :: replaceLine cs n ns repl false rest := by
  rw [replaceLine]
  have h1 : (c == 92) = false := by simpa using h92
  simp only [h1, Bool.false_and, Bool.false_eq_true, if_false, headIs_head_mismatch cs n ns c rest hn hc, nErl, hc]

/-- one `CompressLine` call is a map over the pieces -/
theorem compress_pieces (cs : Bool) (n : Ch) (ns : Line) (z : Nat) (hz : z < 496)
    (hname : ∀ x ∈ n :: ns, isAlnum x = true) :
    ∀ (s : List Piece), WF false s → ∀ (p : Bool), (p = true → headOth s) →
      replaceLine cs n ns (token z) p (flat s) = flat (s.map (cStep cs (n :: ns) z))
  | [], _, p, _ => by simp [flat, replaceLine]
  | .oth c :: s, h, p, _ => by
    have hn : isAlnum n = true := hname n (by simp)
    simp only [flat, Piece.flat, List.map_cons, cStep, List.cons_append, List.nil_append]
    rw [replaceLine_skip cs n ns _ hn p c _ h.1 h.2.2.1,
      compress_pieces cs n ns z hz hname s h.2.2.2 false (fun e => by cases e)]
  | .tok z' :: s, h, p, _ => by
    have hn : isAlnum n = true := hname n (by simp)
    have a1 := tok1_lt z' h.1
    have a2 := tok2_lt z'
    have n1 : tok1 z' ≠ 92 := by intro e; rw [e] at a1; exact absurd a1 (by decide)
    have n2 : tok2 z' ≠ 92 := by intro e; rw [e] at a2; exact absurd a2 (by decide)
    have ih := compress_pieces cs n ns z hz hname s h.2.2 false (fun e => by cases e)
    simp only [flat, Piece.flat, List.map_cons, cStep]
    show replaceLine cs n ns (token z) p (tok1 z' :: tok2 z' :: flat s) = tok1 z' :: tok2 z' :: _
    rw [replaceLine_skip cs n ns _ hn p _ _ (lt32_not_alnum _ a1) n1,
      replaceLine_skip cs n ns _ hn false _ _ (lt32_not_alnum _ a2) n2, ih]
    rfl
  | .arg _ :: s, h, _, _ => by simp [WF] at h
  | .run r :: s, h, p, hp => by
    have hpf : p = false := by
      cases p with
      | false => rfl
      | true => exact (hp rfl).elim
    subst hpf
    have hR := nextAl_flat false s h.2.2.1 h.2.2.2
    have ih := fun q hq => compress_pieces cs n ns z hz hname s h.2.2.2 q hq
    match r, h with
    | [], h => exact absurd rfl h.1
    | x :: xs, h =>
      have hx : isAlnum x = true := h.2.1 x (by simp)
      have hm := match_run cs (n :: ns) (x :: xs) (flat s) hname h.2.1 hR
      simp only [flat, Piece.flat, List.map_cons, cStep, List.cons_append]
      rw [replaceLine]
      simp only [alnum_ne92 x hx, Bool.false_and, Bool.false_eq_true, if_false, Bool.not_false, Bool.and_true]
      simp only [List.cons_append, List.length_cons] at hm
      cases he : eqLine cs (n :: ns) (x :: xs) with
      | true =>
        rw [he] at hm
        have hlen := eqLine_length cs (n :: ns) (x :: xs) he
        simp only [List.length_cons] at hlen
        have hd : (x :: (xs ++ flat s)).drop (ns.length + 1) = flat s := by
          have : ns.length + 1 = (x :: xs).length := by simp [hlen]
          rw [this, ← List.cons_append, List.drop_left]
        simp only [hm, if_true]
        rw [hd]
        have hl : lastAl false (token z) = false := by
          simp [lastAl, token, nErl, lt32_not_alnum _ (tok2_lt z)]
        rw [hl, ih false (fun e => by cases e)]
      | false =>
        rw [he] at hm
        simp only [hm, Bool.false_eq_true, if_false, nErl, hx]
        rw [replaceLine_in_run cs n ns (token z) xs (flat s) (fun y hy => h.2.1 y (by simp [hy])),
          ih true (fun _ => h.2.2.1)]
        simp [Piece.flat, flat]

/-! ### expansion -/

theorem expandTok_cons_ne (t1 t2 : Ch) (arg X : Line) (c : Ch) (h : c ≠ t1) :
    expandTok t1 t2 arg (c :: X) = c :: expandTok t1 t2 arg X := by
  cases X with
  | nil => simp [expandTok]
  | cons x xs => simp [expandTok, h]

theorem expandTok_tok (t1 t2 : Ch) (arg X : Line) :
    expandTok t1 t2 arg (t1 :: t2 :: X) = arg ++ expandTok t1 t2 arg X := by
  simp [expandTok]

theorem expandTok_append_ne (t1 t2 : Ch) (arg : Line) :
    ∀ (xs X : Line), (∀ x ∈ xs, x ≠ t1) → expandTok t1 t2 arg (xs ++ X) = xs ++ expandTok t1 t2 arg X
  | [], _, _ => rfl
  | x :: xs, X, h => by
    rw [List.cons_append, expandTok_cons_ne t1 t2 arg _ x (h x (by simp)),
      expandTok_append_ne t1 t2 arg xs X (fun y hy => h y (by simp [hy]))]
    rfl

theorem ne_of_ge32 (z : Nat) (hz : z < 496) (x : Ch) (h : 32 ≤ x.toNat) : x ≠ tok1 z := by
  intro e; have := tok1_lt z hz; rw [← e] at this; omega

/-- one `ExpandLine` call is a map over the pieces -/
theorem expand_pieces (z : Nat) (hz : z < 496) (a : Line) :
    ∀ (s : List Piece), WF true s → expandLine z a (flat s) = flat (s.map (eStep z a))
  | [], _ => by simp [flat, expandLine, expandTok]
  | .oth c :: s, h => by
    have ih := expand_pieces z hz a s h.2.2.2
    simp only [expandLine] at ih ⊢
    simp only [flat, Piece.flat, List.map_cons, eStep, List.cons_append, List.nil_append]
    rw [expandTok_cons_ne _ _ _ _ _ (ne_of_ge32 z hz c h.2.1), ih]
  | .run r :: s, h => by
    have ih := expand_pieces z hz a s h.2.2.2
    simp only [expandLine] at ih ⊢
    simp only [flat, Piece.flat, List.map_cons, eStep]
    rw [expandTok_append_ne _ _ _ r _ (fun x hx => ne_of_ge32 z hz x (by have := alnum_ge x (h.2.1 x hx); omega)), ih]
  | .arg b :: s, h => by
    have ih := expand_pieces z hz a s h.2.2.2
    simp only [expandLine] at ih ⊢
    simp only [flat, Piece.flat, List.map_cons, eStep]
    rw [expandTok_append_ne _ _ _ b _ (fun x hx => ne_of_ge32 z hz x (h.2.1 x hx)), ih]
  | .tok z' :: s, h => by
    have ih := expand_pieces z hz a s h.2.2
    simp only [expandLine] at ih ⊢
    simp only [flat, Piece.flat, token, List.map_cons, eStep, List.cons_append, List.nil_append]
    by_cases e : z' = z
    · subst e
      simp only [if_true, Piece.flat]
      rw [expandTok_tok, ih]
    · simp only [e, if_false, Piece.flat, token, List.cons_append, List.nil_append]
      have hne : ¬ (tok1 z' = tok1 z ∧ tok2 z' = tok2 z) := fun hh => e (token_inj z z' hz h.1 hh.1 hh.2)
      match s, h, ih with
      | [], _, _ => simp [flat, expandTok, hne]
      | .oth c :: s', h, ih =>
        have hc : c ≠ tok2 z := by
          intro ee; have := tok2_lt z; rw [← ee] at this; have := h.2.2.2.1; omega
        simp only [flat, Piece.flat, List.map_cons, eStep, List.cons_append, List.nil_append] at ih ⊢
        rw [← ih]
        simp [expandTok, hne, hc]
      | .run _ :: _, h, _ => exact h.2.1.elim
      | .tok _ :: _, h, _ => exact h.2.1.elim
      | .arg _ :: _, h, _ => exact h.2.1.elim

/-! ### the two loops -/

def cAllP (cs : Bool) : Nat → List Line → Piece → Piece
  | _, [], x => x
  | z, p :: ps, x => cAllP cs (z + 1) ps (cStep cs p z x)

def eAllP : Nat → List Line → Piece → Piece
  | _, [], x => x
  | z, a :: as, x => eAllP (z + 1) as (eStep z a x)

def NameOK (name : Line) : Prop := name ≠ [] ∧ ∀ x ∈ name, isAlnum x = true

theorem compressAll_pieces (cs : Bool) : ∀ (params : List Line) (z : Nat) (s : List Piece),
    (∀ p ∈ params, NameOK p) → z + params.length ≤ 496 → WF false s →
    compressAll cs z params (flat s) = flat (s.map (cAllP cs z params)) ∧ WF false (s.map (cAllP cs z params))
  | [], z, s, _, _, h => by simp [compressAll, cAllP, h]
  | p :: ps, z, s, hp, hz, h => by
    have hz' : z < 496 := by simp at hz; omega
    have hok := hp p (by simp)
    have step : compressLine cs p z (flat s) = flat (s.map (cStep cs p z)) := by
      match p, hok with
      | [], hok => exact absurd rfl hok.1
      | n :: ns, hok =>
        exact compress_pieces cs n ns z hz' hok.2 s h false (fun e => by cases e)
    have ih := compressAll_pieces cs ps (z + 1) (s.map (cStep cs p z)) (fun q hq => hp q (by simp [hq]))
      (by simp at hz; omega) (WF_cStep cs p z hz' s h)
    simp only [compressAll, step, List.map_map] at ih ⊢
    exact ih

theorem expandAll_pieces : ∀ (args : List Line) (z : Nat) (s : List Piece),
    (∀ a ∈ args, ∀ x ∈ a, 32 ≤ x.toNat) → z + args.length ≤ 496 → WF true s →
    expandAll z args (flat s) = flat (s.map (eAllP z args))
  | [], z, s, _, _, h => by simp [expandAll, eAllP]
  | a :: as, z, s, ha, hz, h => by
    have hz' : z < 496 := by simp at hz; omega
    have ih := expandAll_pieces as (z + 1) (s.map (eStep z a)) (fun b hb => ha b (by simp [hb]))
      (by simp at hz; omega) (WF_eStep z a (ha a (by simp)) s h)
    simp only [expandAll, expand_pieces z hz' a s h, List.map_map] at ih ⊢
    exact ih

/-! ### what happens to a single piece -/

theorem cAllP_oth (cs : Bool) (c : Ch) : ∀ ps z, cAllP cs z ps (.oth c) = .oth c
  | [], _ => rfl
  | _ :: ps, z => by simp [cAllP, cStep, cAllP_oth cs c ps]

theorem cAllP_tok (cs : Bool) (k : Nat) : ∀ ps z, cAllP cs z ps (.tok k) = .tok k
  | [], _ => rfl
  | _ :: ps, z => by simp [cAllP, cStep, cAllP_tok cs k ps]

theorem eAllP_oth (c : Ch) : ∀ as z, eAllP z as (.oth c) = .oth c
  | [], _ => rfl
  | _ :: as, z => by simp [eAllP, eStep, eAllP_oth c as]

theorem eAllP_run (r : Line) : ∀ as z, eAllP z as (.run r) = .run r
  | [], _ => rfl
  | _ :: as, z => by simp [eAllP, eStep, eAllP_run r as]

theorem eAllP_arg (b : Line) : ∀ as z, eAllP z as (.arg b) = .arg b
  | [], _ => rfl
  | _ :: as, z => by simp [eAllP, eStep, eAllP_arg b as]

theorem cAllP_run_shape (cs : Bool) (r : Line) : ∀ ps z,
    cAllP cs z ps (.run r) = .run r ∨ ∃ k, z ≤ k ∧ cAllP cs z ps (.run r) = .tok k
  | [], _ => Or.inl rfl
  | p :: ps, z => by
    simp only [cAllP, cStep]
    split
    · exact Or.inr ⟨z, Nat.le_refl z, cAllP_tok cs z ps (z + 1)⟩
    · cases cAllP_run_shape cs r ps (z + 1) with
      | inl h => exact Or.inl h
      | inr h =>
        obtain ⟨k, hk, e⟩ := h
        exact Or.inr ⟨k, by omega, e⟩

def finalP (cs : Bool) (params args : List Line) : Piece → Piece
  | .run r => match lookup cs params args r with
    | some a => .arg a
    | none => .run r
  | p => p

theorem run_through (cs : Bool) (r : Line) : ∀ (params args : List Line) (z : Nat),
    params.length ≤ args.length →
    eAllP z args (cAllP cs z params (.run r)) = finalP cs params args (.run r)
  | [], args, z, _ => by
    simp only [cAllP, eAllP_run, finalP]
    cases args <;> rfl
  | p :: ps, [], z, h => by simp at h
  | p :: ps, a :: as, z, h => by
    simp only [cAllP, cStep, finalP, lookup]
    by_cases e : eqLine cs p r = true
    · simp only [e, if_true, cAllP_tok, eAllP, eStep, eAllP_arg]
    · simp only [e, if_false, Bool.false_eq_true]
      have ih := run_through cs r ps as (z + 1) (by simp at h; omega)
      have hstep : eStep z a (cAllP cs (z + 1) ps (.run r)) = cAllP cs (z + 1) ps (.run r) := by
        cases cAllP_run_shape cs r ps (z + 1) with
        | inl h1 => rw [h1]; rfl
        | inr h1 =>
          obtain ⟨k, hk, e1⟩ := h1
          rw [e1]
          have : k ≠ z := by omega
          simp [eStep, this]
      simp only [eAllP, hstep, ih, finalP]

/-! ### segments of the original line -/

def ofSeg : Seg → Piece
  | .run r => .run r
  | .oth c => .oth c

def flatSegs (s : List Seg) : Line := s.flatMap fun
  | .run r => r
  | .oth c => [c]

def WFS : List Seg → Prop
  | [] => True
  | .oth c :: s => isAlnum c = false ∧ 32 ≤ c.toNat ∧ c ≠ 92 ∧ WFS s
  | .run r :: s => r ≠ [] ∧ (∀ x ∈ r, isAlnum x = true) ∧
      (match s with | .run _ :: _ => False | _ => True) ∧ WFS s

theorem WF_ofSeg : ∀ s, WFS s → WF false (s.map ofSeg)
  | [], _ => trivial
  | .oth c :: s, h => ⟨h.1, h.2.1, h.2.2.1, WF_ofSeg s h.2.2.2⟩
  | .run r :: s, h => by
    refine ⟨h.1, h.2.1, ?_, WF_ofSeg s h.2.2.2⟩
    match s, h.2.2.1 with
    | [], _ => trivial
    | .oth _ :: _, _ => trivial
    | .run _ :: _, hh => exact hh.elim

theorem flat_ofSeg : ∀ s, flat (s.map ofSeg) = flatSegs s
  | [] => rfl
  | .oth c :: s => by
    have := flat_ofSeg s
    simp only [flatSegs] at this ⊢
    simp [flat, Piece.flat, ofSeg, this]
  | .run r :: s => by
    have := flat_ofSeg s
    simp only [flatSegs] at this ⊢
    simp [flat, Piece.flat, ofSeg, this]

theorem WFS_flush_cons (acc : Line) (hacc : ∀ x ∈ acc, isAlnum x = true) (c : Ch) (s : List Seg)
    (h : WFS (.oth c :: s)) : WFS (flushSeg acc ++ .oth c :: s) := by
  unfold flushSeg
  cases acc with
  | nil => simpa using h
  | cons a as => exact ⟨by simp, hacc, trivial, h⟩

/-- cutting a line without control characters and backslashes gives well-formed segments that spell the line -/
theorem segsGo_ok : ∀ (line acc : Line), (∀ x ∈ acc, isAlnum x = true) →
    (∀ x ∈ line, 32 ≤ x.toNat ∧ x ≠ 92) →
    WFS (segsGo acc line) ∧ flatSegs (segsGo acc line) = acc ++ line
  | [], acc, hacc, _ => by
    unfold segsGo flushSeg
    cases acc with
    | nil => simp [WFS, flatSegs]
    | cons a as => exact ⟨⟨by simp, hacc, trivial, trivial⟩, by simp [flatSegs]⟩
  | c :: rest, acc, hacc, hl => by
    unfold segsGo
    have hrest : ∀ x ∈ rest, 32 ≤ x.toNat ∧ x ≠ 92 := fun x hx => hl x (by simp [hx])
    by_cases hc : isAlnum c = true
    · simp only [hc, if_true]
      have ih := segsGo_ok rest (acc ++ [c]) (by
        intro x hx
        rcases List.mem_append.mp hx with h1 | h1
        · exact hacc x h1
        · have : x = c := by simpa using h1
          rw [this]; exact hc) hrest
      exact ⟨ih.1, by rw [ih.2]; simp⟩
    · have hc' : isAlnum c = false := by simpa using hc
      simp only [hc', Bool.false_eq_true, if_false]
      have ih := segsGo_ok rest [] (by simp) hrest
      have hcl := hl c (by simp)
      refine ⟨WFS_flush_cons acc hacc c _ ⟨hc', hcl.1, hcl.2, ih.1⟩, ?_⟩
      have e : flatSegs (flushSeg acc ++ Seg.oth c :: segsGo [] rest) = acc ++ c :: flatSegs (segsGo [] rest) := by
        unfold flushSeg
        cases acc <;> simp [flatSegs]
      rw [e, ih.2]; simp

theorem flat_final (cs : Bool) (params args : List Line) : ∀ s : List Seg,
    flat ((s.map ofSeg).map (finalP cs params args)) = s.flatMap (substSeg cs params args)
  | [] => rfl
  | .oth c :: s => by
    simp only [List.map_cons, ofSeg, finalP, flat, Piece.flat, List.flatMap_cons, substSeg, flat_final cs params args s]
  | .run r :: s => by
    simp only [List.map_cons, ofSeg, finalP, flat, List.flatMap_cons, substSeg, ← flat_final cs params args s]
    cases lookup cs params args r <;> rfl

/-- `KillCtrl` leaves no control characters -/
theorem killCtrl_noCtrl : ∀ (line : Line) (col : Nat), ∀ x ∈ killCtrl col line, 32 ≤ x.toNat
  | [], _, x, h => by simp [killCtrl] at h
  | c :: rest, col, x, h => by
    unfold killCtrl at h
    split at h
    · rcases List.mem_append.mp h with h1 | h1
      · have := List.eq_of_mem_replicate h1
        rw [this]; decide
      · exact killCtrl_noCtrl rest _ x h1
    · split at h
      · rcases List.mem_cons.mp h with h1 | h1
        · rw [h1]; decide
        · exact killCtrl_noCtrl rest _ x h1
      · rename_i hc
        rcases List.mem_cons.mp h with h1 | h1
        · rw [h1]; omega
        · exact killCtrl_noCtrl rest _ x h1

end AslModel.Macro
