import AslModel.Lemmas.CmdArg
/-! Lemmas: the key file reader of cmdarg.c / strutil.c (`fgets`, `readLn`, `readLoop`, `keyFileLines`) on key files
written in any of the layouts a user may choose - blanks before, between and after the parameters of a line, empty lines,
LF or CR-LF line ends, last line with or without line end - delivers the parameter lists of the lines. -/
namespace AslModel.CmdArg
open AslModel.Options

variable {σ : Type}

/-! ### fgets -/

theorem fgets_line : ∀ (n : Nat) (b rest : Tok), (∀ c ∈ b, c ≠ '\n') → b.length < n →
    fgets n (b ++ '\n' :: rest) = (b ++ ['\n'], rest, false) := by
  intro n b
  induction b generalizing n with
  | nil =>
    intro rest _ hlen
    cases n with
    | zero => simp at hlen
    | succ n => simp [fgets]
  | cons c cs ih =>
    intro rest hnl hlen
    cases n with
    | zero => simp at hlen
    | succ n =>
      have hc : (c == '\n') = false := by simpa using hnl c (by simp)
      have h := ih n rest (fun x hx => hnl x (by simp [hx])) (by simpa using hlen)
      simp [fgets, hc, h]

theorem fgets_last : ∀ (n : Nat) (b : Tok), (∀ c ∈ b, c ≠ '\n') → b.length < n → fgets n b = (b, [], true) := by
  intro n b
  induction b generalizing n with
  | nil =>
    intro _ hlen
    cases n with
    | zero => simp at hlen
    | succ n => simp [fgets]
  | cons c cs ih =>
    intro hnl hlen
    cases n with
    | zero => simp at hlen
    | succ n =>
      have hc : (c == '\n') = false := by simpa using hnl c (by simp)
      have h := ih n (fun x hx => hnl x (by simp [hx])) (by simpa using hlen)
      simp [fgets, hc, h]

theorem fgets_rest_le : ∀ (n : Nat) (s : Tok), (fgets n s).2.1.length ≤ s.length := by
  intro n s
  induction s generalizing n with
  | nil => cases n <;> simp [fgets]
  | cons c cs ih =>
    cases n with
    | zero => simp [fgets]
    | succ n =>
      by_cases hc : (c == '\n') = true
      · simp [fgets, hc]
      · have := ih n
        simp [fgets, hc]
        omega

theorem fgets_rest_lt (n : Nat) (c : Char) (s : Tok) : (fgets (n + 1) (c :: s)).2.1.length < (c :: s).length := by
  by_cases hc : (c == '\n') = true
  · simp [fgets, hc]
  · have := fgets_rest_le n s
    simp [fgets, hc]
    omega

/-- `content.length + 1` iterations always suffice: more fuel does not change the lines read -/
theorem readLoop_fuel : ∀ (f1 f2 : Nat) (content : Tok), content.length < f1 → content.length < f2 →
    readLoop f1 content = readLoop f2 content := by
  intro f1
  induction f1 with
  | zero => intro f2 content h; omega
  | succ a ih =>
    intro f2 content h1 h2
    cases f2 with
    | zero => omega
    | succ b =>
      cases content with
      | nil => simp [readLoop, readLn, readLnCap, fgets]
      | cons c s =>
        have hlt : (readLn (c :: s)).2.1.length < (c :: s).length := by
          simpa [readLn, readLnCap] using fgets_rest_lt 254 c s
        simp only [readLoop]
        by_cases he : (readLn (c :: s)).2.2 = true
        · simp [he]
        · simp only [he, Bool.false_eq_true, if_false]
          rw [ih b (readLn (c :: s)).2.1 (by omega) (by omega)]

/-! ### ReadLn on one line -/

/-- line bodies of a text key file: no control characters (in particular no LF, CR, NUL, Ctrl-Z) -/
def PlainLine (b : Tok) : Prop := ∀ c ∈ b, 32 ≤ c.toNat

theorem PlainLine.ne {b : Tok} (h : PlainLine b) (x : Char) (hx : x.toNat < 32) : ∀ c ∈ b, c ≠ x := by
  intro c hc he; subst he; have := h c hc; omega

theorem cstr_plain (b : Tok) (h : ∀ c ∈ b, c.toNat ≠ 0) : cstr b = b := by
  unfold cstr
  induction b with
  | nil => rfl
  | cons c cs ih =>
    have hc : (c.toNat != 0) = true := by simpa using h c (by simp)
    rw [List.takeWhile_cons, hc]
    simp only [if_true]
    rw [ih (fun x hx => h x (by simp [hx]))]

theorem stripLast_snoc (c : Char) (b : Tok) : stripLast c (b ++ [c]) = b := by
  simp [stripLast]

theorem stripLast_none (c : Char) (b : Tok) (h : ∀ x ∈ b, x ≠ c) : stripLast c b = b := by
  unfold stripLast
  by_cases hl : b.getLast? = some c
  · exact absurd rfl (h c (List.mem_of_getLast? hl))
  · simp [hl]

inductive LineEnd | lf | crlf
  deriving DecidableEq, Repr

def LineEnd.chars : LineEnd → Tok
  | .lf => ['\n']
  | .crlf => ['\r', '\n']

theorem readLn_terminated (b : Tok) (e : LineEnd) (rest : Tok) (hp : PlainLine b) (hl : b.length + 2 ≤ readLnCap) :
    readLn (b ++ (e.chars ++ rest)) = (b, rest, false) := by
  have hnl : ∀ c ∈ b, c ≠ '\n' := hp.ne '\n' (by decide)
  have hcr : ∀ c ∈ b, c ≠ '\r' := hp.ne '\r' (by decide)
  have hz : ∀ c ∈ b, c ≠ Char.ofNat 26 := hp.ne (Char.ofNat 26) (by decide)
  have h0 : ∀ c ∈ b, c.toNat ≠ 0 := by intro c hc; have := hp c hc; omega
  simp only [readLnCap] at hl
  cases e with
  | lf =>
    have hf := fgets_line 255 b rest hnl (by omega)
    have hc : cstr (b ++ ['\n']) = b ++ ['\n'] := cstr_plain _ (by
      intro c hc; rcases List.mem_append.mp hc with h | h
      · exact h0 c h
      · simp at h; subst h; decide)
    simp only [readLn, readLnCap, LineEnd.chars, List.cons_append, List.nil_append, hf, hc, stripLast_snoc,
      stripLast_none _ b hcr, stripLast_none _ b hz]
  | crlf =>
    have hnl' : ∀ c ∈ b ++ ['\r'], c ≠ '\n' := by
      intro c hc; rcases List.mem_append.mp hc with h | h
      · exact hnl c h
      · simp at h; subst h; decide
    have hf := fgets_line 255 (b ++ ['\r']) rest hnl' (by simp; omega)
    have hc : cstr (b ++ ['\r'] ++ ['\n']) = b ++ ['\r'] ++ ['\n'] := cstr_plain _ (by
      intro c hc
      simp only [List.mem_append, List.mem_singleton] at hc
      rcases hc with (h | h) | h
      · exact h0 c h
      · subst h; decide
      · subst h; decide)
    have hshape : b ++ (LineEnd.crlf.chars ++ rest) = (b ++ ['\r']) ++ '\n' :: rest := by simp [LineEnd.chars]
    rw [hshape]
    simp only [readLn, readLnCap, hf, hc, stripLast_snoc, stripLast_none _ b hz]

theorem readLn_last (b : Tok) (hp : PlainLine b) (hl : b.length < readLnCap) : readLn b = (b, [], true) := by
  have hnl : ∀ c ∈ b, c ≠ '\n' := hp.ne '\n' (by decide)
  have hcr : ∀ c ∈ b, c ≠ '\r' := hp.ne '\r' (by decide)
  have hz : ∀ c ∈ b, c ≠ Char.ofNat 26 := hp.ne (Char.ofNat 26) (by decide)
  have h0 : ∀ c ∈ b, c.toNat ≠ 0 := by intro c hc; have := hp c hc; omega
  simp only [readLnCap] at hl
  have hf := fgets_last 255 b hnl hl
  simp only [readLn, readLnCap, hf, cstr_plain b h0, stripLast_none _ b hnl, stripLast_none _ b hcr, stripLast_none _ b hz]

/-! ### a key file line as a user may write it -/

def blanks (n : Nat) : Tok := List.replicate n ' '

/-- every parameter followed by its own number of blanks, at least one between two parameters -/
def joinPad : List (Tok × Nat) → Tok
  | [] => []
  | [(t, k)] => t ++ blanks k
  | (t, k) :: r => t ++ ' ' :: (blanks k ++ joinPad r)

theorem joinPad_cons_cons (t : Tok) (k : Nat) (p : Tok × Nat) (r : List (Tok × Nat)) :
    joinPad ((t, k) :: p :: r) = t ++ ' ' :: (blanks k ++ joinPad (p :: r)) := rfl

theorem dropWhile_blanks (k : Nat) (r : Tok) : (blanks k ++ r).dropWhile isSpace = r.dropWhile isSpace := by
  induction k with
  | zero => simp [blanks]
  | succ k ih =>
    have : blanks (k + 1) ++ r = ' ' :: (blanks k ++ r) := by simp [blanks, List.replicate_succ]
    rw [this, List.dropWhile_cons]
    simp [isSpace_blank, ih]

theorem dropWhile_blanks_nil (k : Nat) : (blanks k).dropWhile isSpace = [] := by
  have := dropWhile_blanks k []
  simpa using this

theorem joinPad_head_ok (t : Tok) (k : Nat) (r : List (Tok × Nat)) (h : TokOK t) :
    ∃ c rest, joinPad ((t, k) :: r) = c :: rest ∧ isSpace c = false ∧ t.head? = some c := by
  obtain ⟨hne, hsp⟩ := h
  cases t with
  | nil => exact absurd rfl hne
  | cons c cs =>
    cases r with
    | nil => exact ⟨c, cs ++ blanks k, by simp [joinPad], hsp c (by simp), rfl⟩
    | cons p r2 => exact ⟨c, cs ++ ' ' :: (blanks k ++ joinPad (p :: r2)), by simp [joinPad], hsp c (by simp), rfl⟩

theorem dropWhile_joinPad (t : Tok) (k : Nat) (r : List (Tok × Nat)) (h : TokOK t) :
    (joinPad ((t, k) :: r)).dropWhile isSpace = joinPad ((t, k) :: r) := by
  obtain ⟨c, rest, he, hc, _⟩ := joinPad_head_ok t k r h
  rw [he]; simp [List.dropWhile, hc]

theorem splitLine_nil (fuel : Nat) : splitLine fuel [] = [] := by
  cases fuel <;> simp [splitLine]

theorem splitLine_pad : ∀ (ps : List (Tok × Nat)) (fuel : Nat), (∀ p ∈ ps, TokOK p.1) → ps.length ≤ fuel →
    splitLine fuel (joinPad ps) = ps.map (·.1) := by
  intro ps
  induction ps with
  | nil => intro fuel _ _; simp [joinPad, splitLine_nil]
  | cons p r ih =>
    intro fuel hok hlen
    obtain ⟨t, k⟩ := p
    have ht : TokOK t := hok (t, k) (by simp)
    cases fuel with
    | zero => simp at hlen
    | succ fuel =>
      cases r with
      | nil =>
        have hne : t ≠ [] := ht.1
        cases k with
        | zero =>
          have he : t.isEmpty = false := by cases t <;> simp_all
          simp [splitLine, joinPad, blanks, he, strchr_none ' ' t ht.no_blank, strchr_none '\t' t ht.no_tab]
        | succ k =>
          have hshape : joinPad [(t, k + 1)] = t ++ ' ' :: blanks k := by simp [joinPad, blanks, List.replicate_succ]
          have he : (t ++ ' ' :: blanks k).isEmpty = false := by simp
          have h1 : (t ++ ' ' :: blanks k).take t.length = t := by simp
          have h2 : (t ++ ' ' :: blanks k).drop (t.length + 1) = blanks k := drop_len_succ t _ ' '
          rw [hshape]
          simp only [splitLine, he, strchr_append ' ' t _ ht.no_blank, Bool.false_eq_true, if_false, h1, h2,
            dropWhile_blanks_nil, splitLine_nil, List.map_cons, List.map_nil]
      | cons p2 r2 =>
        obtain ⟨t2, k2⟩ := p2
        have ht2 : TokOK t2 := hok (t2, k2) (by simp)
        have hrec := ih fuel (fun x hx => hok x (by simp [hx])) (by simp at hlen ⊢; omega)
        have he : (t ++ ' ' :: (blanks k ++ joinPad ((t2, k2) :: r2))).isEmpty = false := by simp
        have h1 : (t ++ ' ' :: (blanks k ++ joinPad ((t2, k2) :: r2))).take t.length = t := by simp
        have h2 : (t ++ ' ' :: (blanks k ++ joinPad ((t2, k2) :: r2))).drop (t.length + 1) = blanks k ++ joinPad ((t2, k2) :: r2) :=
          drop_len_succ t _ ' '
        rw [joinPad_cons_cons]
        simp only [splitLine, he, strchr_append ' ' t _ ht.no_blank, Bool.false_eq_true, if_false, h1, h2,
          dropWhile_blanks, dropWhile_joinPad t2 k2 r2 ht2, hrec, List.map_cons]

theorem joinPad_length_ge : ∀ (ps : List (Tok × Nat)), (∀ p ∈ ps, TokOK p.1) → ps.length ≤ (joinPad ps).length := by
  intro ps
  induction ps with
  | nil => intro _; simp [joinPad]
  | cons p r ih =>
    intro hok
    obtain ⟨t, k⟩ := p
    have ht : TokOK t := hok (t, k) (by simp)
    have hpos : 0 < t.length := List.length_pos_iff.mpr ht.1
    cases r with
    | nil => simp [joinPad]; omega
    | cons p2 r2 =>
      have := ih (fun x hx => hok x (by simp [hx]))
      rw [joinPad_cons_cons]
      simp at this ⊢
      omega

/-- DecodeLine on a line written with any number of blanks before, between and after the parameters -/
theorem decodeLine_pad (recs : List (CMDRec σ)) (pre : Nat) (ps : List (Tok × Nat)) (st : St σ)
    (h : Clean (ps.map (·.1))) :
    decodeLine recs (blanks pre ++ joinPad ps) st = envLoop recs (ps.map (·.1)) st := by
  have hok : ∀ p ∈ ps, TokOK p.1 := fun p hp => h.ok p.1 (List.mem_map.mpr ⟨p, hp, rfl⟩)
  cases ps with
  | nil => simp [decodeLine, joinPad, clrBlanks, envLoop, dropWhile_blanks_nil]
  | cons p r =>
    obtain ⟨t, k⟩ := p
    have ht : TokOK t := hok (t, k) (by simp)
    obtain ⟨c, rest, he, hc, hhead⟩ := joinPad_head_ok t k r ht
    have hclr : clrBlanks (blanks pre ++ joinPad ((t, k) :: r)) = joinPad ((t, k) :: r) := by
      unfold clrBlanks
      rw [dropWhile_blanks, dropWhile_joinPad t k r ht]
    have hsemi : (c == ';') = false := by
      have := h.noComment t (r.map (·.1)) (by simp)
      rw [hhead] at this
      simpa using this
    have hsplit := splitLine_pad ((t, k) :: r) ((joinPad ((t, k) :: r)).length + 1) hok
      (by have := joinPad_length_ge ((t, k) :: r) hok; omega)
    unfold decodeLine
    simp only [hclr]
    rw [he] at hsplit ⊢
    simp only [hsemi, Bool.false_eq_true, if_false, hsplit]

/-! ### whole key files -/

/-- one line of a key file: `pre` blanks, then the parameters, each followed by its blanks -/
structure KLine where
  pre : Nat
  ps : List (Tok × Nat)

def KLine.body (l : KLine) : Tok := blanks l.pre ++ joinPad l.ps
def KLine.params (l : KLine) : List Tok := l.ps.map (·.1)

/-- a parameter made of printable characters only -/
def Printable (t : Tok) : Prop := t ≠ [] ∧ ∀ c ∈ t, 32 < c.toNat

theorem Printable.tokOK {t : Tok} (h : Printable t) : TokOK t := by
  refine ⟨h.1, ?_⟩
  intro c hc
  have := h.2 c hc
  simp only [isSpace, Bool.or_eq_false_iff, Bool.and_eq_false_iff, beq_eq_false_iff_ne, decide_eq_false_iff_not]
  omega

/-- a line that ReadLn delivers in one piece (with its line end): printable parameters, at most 253 characters -/
structure KLine.Good (l : KLine) : Prop where
  printable : ∀ p ∈ l.ps, Printable p.1
  short : l.body.length + 2 ≤ readLnCap

theorem plain_blanks (k : Nat) : PlainLine (blanks k) := by
  intro c hc
  have : c = ' ' := by simpa [blanks] using (List.eq_of_mem_replicate hc)
  subst this; decide

theorem plain_append {a b : Tok} (ha : PlainLine a) (hb : PlainLine b) : PlainLine (a ++ b) := by
  intro c hc
  rcases List.mem_append.mp hc with h | h
  · exact ha c h
  · exact hb c h

theorem plain_joinPad : ∀ (ps : List (Tok × Nat)), (∀ p ∈ ps, Printable p.1) → PlainLine (joinPad ps) := by
  intro ps
  induction ps with
  | nil => intro _ c hc; simp [joinPad] at hc
  | cons p r ih =>
    intro hp
    obtain ⟨t, k⟩ := p
    have ht : PlainLine t := fun c hc => Nat.le_of_lt ((hp (t, k) (by simp)).2 c hc)
    cases r with
    | nil => simpa [joinPad] using plain_append ht (plain_blanks k)
    | cons p2 r2 =>
      have hr := ih (fun x hx => hp x (by simp [hx]))
      rw [joinPad_cons_cons]
      have h1 : PlainLine (' ' :: (blanks k ++ joinPad (p2 :: r2))) := by
        have := plain_append (plain_blanks (k + 1)) hr
        simpa [blanks, List.replicate_succ] using this
      exact plain_append ht h1

theorem KLine.Good.plain {l : KLine} (h : l.Good) : PlainLine l.body :=
  plain_append (plain_blanks l.pre) (plain_joinPad l.ps h.printable)

/-- the terminated lines of a key file -/
def renderLines : List (KLine × LineEnd) → Tok
  | [] => []
  | (l, e) :: r => l.body ++ (e.chars ++ renderLines r)

def lastBody : Option KLine → Tok
  | some l => l.body
  | none => []

/-- a key file: terminated lines, then possibly one more line WITHOUT a line end -/
def renderKey (ls : List (KLine × LineEnd)) (last : Option KLine) : Tok := renderLines ls ++ lastBody last

theorem renderLines_length_ge : ∀ (ls : List (KLine × LineEnd)), ls.length ≤ (renderLines ls).length := by
  intro ls
  induction ls with
  | nil => simp
  | cons p r ih =>
    obtain ⟨l, e⟩ := p
    cases e <;> simp [renderLines, LineEnd.chars] <;> omega

theorem readLoop_lines : ∀ (ls : List (KLine × LineEnd)) (fuel : Nat) (tail : Tok), (∀ p ∈ ls, p.1.Good) →
    readLoop (ls.length + fuel) (renderLines ls ++ tail) = ls.map (·.1.body) ++ readLoop fuel tail := by
  intro ls
  induction ls with
  | nil => intro fuel tail _; simp [renderLines]
  | cons p r ih =>
    intro fuel tail hg
    obtain ⟨l, e⟩ := p
    have hl : l.Good := hg (l, e) (by simp)
    have hfuel : (((l, e) :: r).length + fuel) = (r.length + fuel) + 1 := by simp; omega
    have hshape : renderLines ((l, e) :: r) ++ tail = l.body ++ (e.chars ++ (renderLines r ++ tail)) := by
      simp [renderLines, List.append_assoc]
    rw [hfuel, hshape]
    simp only [readLoop, readLn_terminated l.body e _ hl.plain hl.short, Bool.false_eq_true, if_false, List.map_cons,
      List.cons_append]
    rw [ih fuel tail (fun x hx => hg x (by simp [hx]))]

/-- **The lines read from a key file** are the line bodies, whatever line end each line has and whether or not the last
line has one; a file that ends with a line end yields one more, empty line (the `fgets` that finds the end of the file). -/
theorem keyFileLines_render (ls : List (KLine × LineEnd)) (last : Option KLine)
    (hg : ∀ p ∈ ls, p.1.Good) (hl : ∀ l, last = some l → l.Good) :
    keyFileLines (renderKey ls last) = ls.map (·.1.body) ++ [lastBody last] := by
  have hlen := renderLines_length_ge ls
  obtain ⟨f, hf⟩ : ∃ f, (renderKey ls last).length + 1 = ls.length + (f + 1) :=
    ⟨(renderKey ls last).length - ls.length, by simp [renderKey]; omega⟩
  have hplain : PlainLine (lastBody last) ∧ (lastBody last).length < readLnCap := by
    cases last with
    | none => exact ⟨by intro c hc; simp [lastBody] at hc, by simp [lastBody, readLnCap]⟩
    | some l =>
      have := hl l rfl
      exact ⟨this.plain, by have := this.short; simp [lastBody]; omega⟩
  unfold keyFileLines
  rw [hf]
  show readLoop (ls.length + (f + 1)) (renderLines ls ++ lastBody last) = _
  rw [readLoop_lines ls (f + 1) _ hg]
  simp [readLoop, readLn_last _ hplain.1 hplain.2]

/-- the parameter lists of a key file -/
def keyParams (ls : List (KLine × LineEnd)) (last : Option KLine) : List (List Tok) :=
  ls.map (·.1.params) ++ (match last with | some l => [l.params] | none => [])

theorem foldl_decodeLine_bodies (recs : List (CMDRec σ)) : ∀ (ls : List KLine) (st : St σ), (∀ l ∈ ls, Clean l.params) →
    ((ls.map KLine.body).foldl (fun st l => decodeLine recs l st) st).view = keyLines recs (ls.map KLine.params) st.view := by
  intro ls
  induction ls with
  | nil => intro st _; simp [keyLines]
  | cons l ls ih =>
    intro st hc
    have hcl : Clean l.params := hc l (by simp)
    have h1 : (decodeLine recs l.body st).view = lineParams recs l.params st.view := by
      unfold KLine.body
      rw [decodeLine_pad recs l.pre l.ps st hcl]
      exact (envLoop_refines recs l.params.length l.params st (Nat.le_refl _)).1
    have h2 := ih (decodeLine recs l.body st) (fun x hx => hc x (by simp [hx]))
    simp only [List.map_cons, List.foldl_cons, h2, h1]
    simp [keyLines]

theorem decodeLine_nil (recs : List (CMDRec σ)) (st : St σ) : decodeLine recs [] st = st := by
  simp [decodeLine, clrBlanks]

/-- ProcessFile on the raw content of a key file = the spec's `keyLines` on its parameter lists -/
theorem processFile_render (recs : List (CMDRec σ)) (fc : Tok → Option Tok) (k : Tok)
    (ls : List (KLine × LineEnd)) (last : Option KLine) (st : St σ)
    (hfc : fc k = some (renderKey ls last))
    (hg : ∀ p ∈ ls, p.1.Good) (hl : ∀ l, last = some l → l.Good)
    (hc : ∀ p ∈ ls, Clean p.1.params) (hcl : ∀ l, last = some l → Clean l.params) :
    (processFile recs (rawFs fc) k st).view = keyLines recs (keyParams ls last) st.view := by
  have hlines : rawFs fc k = some (ls.map (·.1.body) ++ [lastBody last]) := by
    simp [rawFs, hfc, keyFileLines_render ls last hg hl]
  unfold processFile
  rw [hlines]
  simp only []
  cases last with
  | none =>
    have hb : ls.map (·.1.body) = (ls.map (·.1)).map KLine.body := by simp
    have hp : keyParams ls none = (ls.map (·.1)).map KLine.params := by simp [keyParams]
    rw [List.foldl_append, hb, hp]
    simp only [lastBody, List.foldl_cons, List.foldl_nil, decodeLine_nil]
    exact foldl_decodeLine_bodies recs (ls.map (·.1)) st (by
      intro l hl'
      obtain ⟨p, hp, rfl⟩ := List.mem_map.mp hl'
      exact hc p hp)
  | some l =>
    have hb : ls.map (·.1.body) ++ [lastBody (some l)] = (ls.map (·.1) ++ [l]).map KLine.body := by simp [lastBody]
    have hp : keyParams ls (some l) = (ls.map (·.1) ++ [l]).map KLine.params := by simp [keyParams]
    rw [hb, hp]
    exact foldl_decodeLine_bodies recs (ls.map (·.1) ++ [l]) st (by
      intro x hx
      rcases List.mem_append.mp hx with h | h
      · obtain ⟨p, hp, rfl⟩ := List.mem_map.mp h
        exact hc p hp
      · simp at h; subst h; exact hcl x rfl)

/-! ### the spec's view of a key file: text lines and their blank-separated words -/

theorem words_blank (l : Tok) : words (' ' :: l) = words l := by
  rw [words]; simp

theorem takeWhile_all (p : Char → Bool) : ∀ (t : Tok), (∀ c ∈ t, p c = true) → t.takeWhile p = t := by
  intro t
  induction t with
  | nil => intro _; rfl
  | cons c cs ih =>
    intro h
    rw [List.takeWhile_cons, h c (by simp)]
    simp only [if_true]
    rw [ih (fun x hx => h x (by simp [hx]))]

theorem dropWhile_all (p : Char → Bool) : ∀ (t : Tok), (∀ c ∈ t, p c = true) → t.dropWhile p = [] := by
  intro t
  induction t with
  | nil => intro _; rfl
  | cons c cs ih =>
    intro h
    rw [List.dropWhile_cons, h c (by simp)]
    simp only [if_true]
    exact ih (fun x hx => h x (by simp [hx]))

theorem takeWhile_stop (p : Char → Bool) (x : Char) (r : Tok) (hx : p x = false) :
    ∀ (t : Tok), (∀ c ∈ t, p c = true) → (t ++ x :: r).takeWhile p = t := by
  intro t
  induction t with
  | nil => intro _; simp [hx]
  | cons c cs ih =>
    intro h
    rw [List.cons_append, List.takeWhile_cons, h c (by simp)]
    simp only [if_true]
    rw [ih (fun y hy => h y (by simp [hy]))]

theorem dropWhile_stop (p : Char → Bool) (x : Char) (r : Tok) (hx : p x = false) :
    ∀ (t : Tok), (∀ c ∈ t, p c = true) → (t ++ x :: r).dropWhile p = x :: r := by
  intro t
  induction t with
  | nil => intro _; simp [hx]
  | cons c cs ih =>
    intro h
    rw [List.cons_append, List.dropWhile_cons, h c (by simp)]
    simp only [if_true]
    exact ih (fun y hy => h y (by simp [hy]))

theorem TokOK.nonblank {t : Tok} (h : TokOK t) : ∀ c ∈ t, (c != ' ') = true := by
  intro c hc
  simpa using h.no_blank c hc

/-- a parameter at the end of the line -/
theorem words_tok_end (t : Tok) (h : TokOK t) : words t = [t] := by
  have hne := h.1
  cases t with
  | nil => exact absurd rfl hne
  | cons c cs =>
    have hc : (c == ' ') = false := by simpa using h.no_blank c (by simp)
    have hcs : ∀ x ∈ cs, (x != ' ') = true := fun x hx => h.nonblank x (by simp [hx])
    rw [words]
    simp only [hc, Bool.false_eq_true, if_false, takeWhile_all (fun x => x != ' ') cs hcs, dropWhile_all (fun x => x != ' ') cs hcs]
    rw [words]

/-- a parameter followed by a blank -/
theorem words_tok_blank (t r : Tok) (h : TokOK t) : words (t ++ ' ' :: r) = t :: words r := by
  have hne := h.1
  cases t with
  | nil => exact absurd rfl hne
  | cons c cs =>
    have hc : (c == ' ') = false := by simpa using h.no_blank c (by simp)
    have hcs : ∀ x ∈ cs, (x != ' ') = true := fun x hx => h.nonblank x (by simp [hx])
    have hb : ((' ' : Char) != ' ') = false := by decide
    rw [List.cons_append, words]
    simp only [hc, Bool.false_eq_true, if_false, takeWhile_stop (fun x => x != ' ') ' ' r hb cs hcs,
      dropWhile_stop (fun x => x != ' ') ' ' r hb cs hcs]
    rw [words_blank]

theorem words_blanks (k : Nat) (l : Tok) : words (blanks k ++ l) = words l := by
  induction k with
  | zero => simp [blanks]
  | succ k ih =>
    have : blanks (k + 1) ++ l = ' ' :: (blanks k ++ l) := by simp [blanks, List.replicate_succ]
    rw [this, words_blank, ih]

theorem words_nil : words [] = [] := by rw [words]

theorem words_blanks_nil (k : Nat) : words (blanks k) = [] := by
  have := words_blanks k []
  simpa [words_nil] using this

theorem words_joinPad : ∀ (ps : List (Tok × Nat)), (∀ p ∈ ps, TokOK p.1) → words (joinPad ps) = ps.map (·.1) := by
  intro ps
  induction ps with
  | nil => intro _; simp [joinPad, words_nil]
  | cons p r ih =>
    intro hok
    obtain ⟨t, k⟩ := p
    have ht : TokOK t := hok (t, k) (by simp)
    cases r with
    | nil =>
      cases k with
      | zero => simp [joinPad, blanks, words_tok_end t ht]
      | succ k =>
        have hshape : joinPad [(t, k + 1)] = t ++ ' ' :: blanks k := by simp [joinPad, blanks, List.replicate_succ]
        rw [hshape, words_tok_blank t _ ht, words_blanks_nil]
        simp
    | cons p2 r2 =>
      have hrec := ih (fun x hx => hok x (by simp [hx]))
      rw [joinPad_cons_cons, words_tok_blank t _ ht, words_blanks, hrec]
      simp

theorem words_body (l : KLine) (h : ∀ p ∈ l.ps, TokOK p.1) : words l.body = l.params := by
  unfold KLine.body KLine.params
  rw [words_blanks, words_joinPad l.ps h]

theorem textLines_line : ∀ (b rest : Tok), (∀ c ∈ b, c ≠ '\n') → textLines (b ++ '\n' :: rest) = b :: textLines rest := by
  intro b
  induction b with
  | nil => intro rest _; simp [textLines]
  | cons c cs ih =>
    intro rest h
    have hc : (c == '\n') = false := by simpa using h c (by simp)
    have := ih rest (fun x hx => h x (by simp [hx]))
    simp [textLines, hc, this]

theorem textLines_last : ∀ (b : Tok), b ≠ [] → (∀ c ∈ b, c ≠ '\n') → textLines b = [b] := by
  intro b
  induction b with
  | nil => intro h _; exact absurd rfl h
  | cons c cs ih =>
    intro _ h
    have hc : (c == '\n') = false := by simpa using h c (by simp)
    cases cs with
    | nil => simp [textLines, hc]
    | cons d ds =>
      have := ih (by simp) (fun x hx => h x (by simp [hx]))
      rw [textLines]
      simp only [hc, Bool.false_eq_true, if_false, this]

theorem dropCR_snoc (b : Tok) : dropCR (b ++ ['\r']) = b := by simp [dropCR]

theorem dropCR_plain (b : Tok) (h : PlainLine b) : dropCR b = b := by
  unfold dropCR
  by_cases hl : b.getLast? = some '\r'
  · exact absurd rfl (h.ne '\r' (by decide) _ (List.mem_of_getLast? hl))
  · simp [hl]

theorem keyFileParams_line (b : Tok) (e : LineEnd) (rest : Tok) (hp : PlainLine b) :
    keyFileParams (b ++ (e.chars ++ rest)) = words b :: keyFileParams rest := by
  have hnl : ∀ c ∈ b, c ≠ '\n' := hp.ne '\n' (by decide)
  cases e with
  | lf =>
    have : b ++ (LineEnd.lf.chars ++ rest) = b ++ '\n' :: rest := by simp [LineEnd.chars]
    rw [this]
    simp [keyFileParams, textLines_line b rest hnl, dropCR_plain b hp]
  | crlf =>
    have hshape : b ++ (LineEnd.crlf.chars ++ rest) = (b ++ ['\r']) ++ '\n' :: rest := by simp [LineEnd.chars]
    have hnl' : ∀ c ∈ b ++ ['\r'], c ≠ '\n' := by
      intro c hc; rcases List.mem_append.mp hc with h | h
      · exact hnl c h
      · simp at h; subst h; decide
    rw [hshape]
    simp only [keyFileParams, textLines_line _ rest hnl', List.map_cons, dropCR_snoc]

theorem keyFileParams_lines : ∀ (ls : List (KLine × LineEnd)) (tail : Tok), (∀ p ∈ ls, p.1.Good) →
    keyFileParams (renderLines ls ++ tail) = ls.map (·.1.params) ++ keyFileParams tail := by
  intro ls
  induction ls with
  | nil => intro tail _; simp [renderLines]
  | cons p r ih =>
    intro tail hg
    obtain ⟨l, e⟩ := p
    have hl : l.Good := hg (l, e) (by simp)
    have hshape : renderLines ((l, e) :: r) ++ tail = l.body ++ (e.chars ++ (renderLines r ++ tail)) := by
      simp [renderLines, List.append_assoc]
    rw [hshape, keyFileParams_line l.body e _ hl.plain, ih tail (fun x hx => hg x (by simp [hx])),
      words_body l (fun p hp => (hl.printable p hp).tokOK)]
    simp

theorem keyLines_append (sw : List (Switch σ)) (a b : List (List Tok)) (o : Out σ) :
    keyLines sw (a ++ b) o = keyLines sw b (keyLines sw a o) := by
  simp [keyLines, List.foldl_append]

/-- the spec's reading of the file (text lines, blank-separated words) and the parameter lists it was written from have the
same effect; they differ at most by an empty last line -/
theorem keyLines_keyFileParams (sw : List (Switch σ)) (ls : List (KLine × LineEnd)) (last : Option KLine) (o : Out σ)
    (hg : ∀ p ∈ ls, p.1.Good) (hl : ∀ l, last = some l → l.Good) :
    keyLines sw (keyFileParams (renderKey ls last)) o = keyLines sw (keyParams ls last) o := by
  unfold renderKey keyParams
  rw [keyFileParams_lines ls _ hg, keyLines_append, keyLines_append]
  generalize keyLines sw (ls.map (·.1.params)) o = o'
  cases last with
  | none => simp [lastBody, keyFileParams, textLines]
  | some l =>
    have hgl := hl l rfl
    have hw := words_body l (fun p hp => (hgl.printable p hp).tokOK)
    by_cases hb : l.body = []
    · have hp : l.params = [] := by rw [← hw, hb, words_nil]
      simp [lastBody, hb, keyFileParams, textLines, hp, keyLines, lineParams]
    · have hnl : ∀ c ∈ l.body, c ≠ '\n' := hgl.plain.ne '\n' (by decide)
      simp [lastBody, keyFileParams, textLines_last l.body hb hnl, dropCR_plain l.body hgl.plain, hw]

end AslModel.CmdArg
