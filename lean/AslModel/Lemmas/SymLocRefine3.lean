import AslModel.Lemmas.SymLocRefine2
/-! helper lemmas for `C13_loc_refines`: the handles given to iterations grow strictly (every iteration its own handle),
so their position in the list of opened spaces is a numbering; the refinement from the start of a pass. -/
namespace AslModel.SymLoc
open AslModel.Sym AslModel.Generated.Sym
open AslModel.LocScope hiding Name

/-- strictly increasing, and within `[lo, hi)` -/
def IncIn (l : List Int) (lo hi : Nat) : Prop := l.Pairwise (· < ·) ∧ ∀ h ∈ l, (lo : Int) ≤ h ∧ h < (hi : Int)

theorem IncIn.nil (lo hi : Nat) : IncIn [] lo hi := ⟨List.Pairwise.nil, by simp⟩

theorem IncIn.append {l1 l2 : List Int} {lo mid hi : Nat} (h1 : IncIn l1 lo mid) (h2 : IncIn l2 mid hi)
    (hm : lo ≤ mid) (hh : mid ≤ hi) : IncIn (l1 ++ l2) lo hi := by
  refine ⟨List.pairwise_append.mpr ⟨h1.1, h2.1, ?_⟩, ?_⟩
  · intro a ha b hb
    have := (h1.2 a ha).2
    have := (h2.2 b hb).1
    omega
  · intro h hh'
    cases List.mem_append.mp hh' with
    | inl h' => have := h1.2 h h'; omega
    | inr h' => have := h2.2 h h'; omega

theorem IncIn.mono {l : List Int} {lo hi hi' : Nat} (h : IncIn l lo hi) (hh : hi ≤ hi') : IncIn l lo hi' :=
  ⟨h.1, fun a ha => by have := h.2 a ha; omega⟩

/-- the handles opened by a piece of program lie between `LocHandleCnt` before and after, in increasing order -/
def OpenedOK (st st' : LSt) (os : List Int) : Prop := st.cnt ≤ st'.cnt ∧ IncIn os st.cnt st'.cnt

theorem popLoc_cnt (st : LSt) : (popLoc st).cnt = st.cnt := by
  unfold popLoc
  split <;> rfl

theorem iterOpen_cnt (glob first : Bool) (st : LSt) :
    (iterOpen glob first st).cnt = if glob then st.cnt else st.cnt + 1 := by
  unfold iterOpen pushFresh pushLoc
  split
  · rfl
  · split
    · rfl
    · simp [popLoc_cnt]

theorem iterOpen_mom (first : Bool) (st : LSt) : (iterOpen false first st).mom = (st.cnt : Int) := by
  unfold iterOpen pushFresh pushLoc
  cases first <;> simp [popLoc_cnt]

theorem restorer_cnt (glob first : Bool) (st : LSt) : (restorer glob first st).cnt = st.cnt := by
  unfold restorer
  split
  · exact popLoc_cnt st
  · rfl

theorem finish_cnt_ge (wh glob : Bool) (r : LSt × Bool) : r.1.cnt ≤ (finish wh glob r).cnt := by
  unfold finish
  split
  · rw [restorer_cnt, iterOpen_cnt]; split <;> omega
  · rw [restorer_cnt]; omega

theorem loop_opened (glob : Bool) (body : LSt → LSt) (ob : LSt → List Int) (hb : ∀ s, OpenedOK s (body s) (ob s)) :
    ∀ (n : Nat) (first : Bool) (st : LSt),
      OpenedOK st (loop glob body n first st).1 (obsLoop glob body ob (fun s => if glob then [] else [s.mom]) n first st) := by
  intro n
  induction n with
  | zero => intro first st; exact ⟨Nat.le_refl _, IncIn.nil _ _⟩
  | succ k ih =>
    intro first st
    simp only [loop, obsLoop]
    have h1 := hb (iterOpen glob first st)
    have h2 := ih false (body (iterOpen glob first st))
    have hc := iterOpen_cnt glob first st
    cases glob with
    | true =>
      simp only [if_true] at hc ⊢
      unfold OpenedOK at h1
      rw [hc] at h1
      exact ⟨Nat.le_trans h1.1 h2.1, by simpa using h1.2.append h2.2 h1.1 h2.1⟩
    | false =>
      simp only [Bool.false_eq_true, if_false] at hc ⊢
      unfold OpenedOK at h1
      rw [hc] at h1
      refine ⟨by have := h1.1; have := h2.1; omega, ?_⟩
      have h0 : IncIn [(iterOpen false first st).mom] st.cnt (st.cnt + 1) := by
        rw [iterOpen_mom]
        exact ⟨List.pairwise_singleton _ _, by simp; omega⟩
      have := (h0.append h1.2 (by omega) h1.1).append h2.2 (by have := h1.1; omega) h2.1
      simpa using this

mutual
theorem openedItem_ok : ∀ (i : Item) (st : LSt), OpenedOK st (execItem i st) (openedItem i st)
  | .op o, st => by
    simp only [execItem, openedItem]
    exact ⟨by rw [stepL_cnt]; exact Nat.le_refl _, IncIn.nil _ _⟩
  | .con wh glob n body, st => by
    simp only [execItem, openedItem]
    have h := loop_opened glob (execItems body) (openedItems body) (fun s => openedItems_ok body s) n true st
    have hf := finish_cnt_ge wh glob (loop glob (execItems body) n true st)
    exact ⟨Nat.le_trans h.1 hf, h.2.mono hf⟩
theorem openedItems_ok : ∀ (q : Items) (st : LSt), OpenedOK st (execItems q st) (openedItems q st)
  | .nil, st => ⟨Nat.le_refl _, IncIn.nil _ _⟩
  | .cons i r, st => by
    simp only [execItems, openedItems]
    have h1 := openedItem_ok i st
    have h2 := openedItems_ok r (execItem i st)
    exact ⟨Nat.le_trans h1.1 h2.1, h1.2.append h2.2 h1.1 h2.1⟩
end

/-- **every iteration gets a handle of its own**: the handles opened for iterations are pairwise different -/
theorem openedItems_nodup (q : Items) (st : LSt) : (openedItems q st).Nodup :=
  (openedItems_ok q st).2.1.imp (fun h => Int.ne_of_lt h)

theorem NumOK_idxOf (l1 l2 : List Int) (hnd : (l1 ++ l2).Nodup) : NumOK (spaceNo (l1 ++ l2)) l2 l1.length := by
  induction l2 generalizing l1 with
  | nil => trivial
  | cons h t ih =>
    refine ⟨?_, ?_⟩
    · have hnot : h ∉ l1 := by
        intro hin
        have := (List.nodup_append.mp hnd).2.2 h hin h (by simp)
        exact this rfl
      simp [spaceNo, List.idxOf_append, hnot]
    · have := ih (l1 ++ [h]) (by simpa using hnd)
      simpa using this

theorem NumOK_spaceNo (l : List Int) (hnd : l.Nodup) : NumOK (spaceNo l) l 0 := by
  simpa using NumOK_idxOf [] l (by simpa using hnd)

/-- the refinement from a state with empty handle stack, with the recursive form of "settled" and macro expansions read
as loops of one iteration -/
theorem refines_settledItems (p : PItems) (st : LSt) (hm : st.mom = -1) (hc : st.conts = [])
    (hord : p.ordinary false = true) (hset : SettledItems st.g.cs p st) :
    (traceItems p.toModel st).map (render (openedItems p.toModel st)) =
      (expand (fold st.g.cs) (p.toSpec false)).1.map (·.1) := by
  have h := items_ok st.g.cs (spaceNo (openedItems p.toModel st)) p st [] {}
    (by simp [StackIs, hm, hc]) ⟨rfl, by simp, by simp, by simp⟩ (by simp) (by simpa using hord) trivial
    (NumOK_spaceNo _ (openedItems_nodup _ _)) hset
  have := h.out
  simp only [envOf, List.map_nil, List.append_nil] at this
  simp only [expand, List.map_reverse, this, List.reverse_reverse]
  rfl

end AslModel.SymLoc
