import AslModel.Lemmas.IsaAvrCore
/-! Lemmas for C14 / AVR: the relative branches (`BRxx`, `BRBS/BRBC`, `RJMP/RCALL`). -/
namespace AslModel.Isa.IAvr
open AslModel.PFile (Byte b b_toNat)
open AslModel.Spec.IAvr
open AslModel.Generated.IsaAvr

/-! ### relative branches -/

theorem lowBits_lt (d : Int) (k : Nat) : lowBits d k < 2 ^ k := by
  unfold lowBits
  have hp : (0 : Int) < 2 ^ k := Int.pow_pos (by decide)
  have h1 := Int.emod_nonneg d (Int.ne_of_gt hp)
  have h2 := Int.emod_lt_of_pos d hp
  have : ((d % 2 ^ k).toNat : Int) < ((2 ^ k : Nat) : Int) := by
    rw [Int.toNat_of_nonneg h1]; simpa using h2
  exact Int.ofNat_lt.mp this

/-- what `DecodeRel`/`DecodeBRBSBC`/`DecodeRJMPCALL` do with the address operand: the displacement field, if the target is
a code address the branch reaches -/
def relField (c : Cpu) (pc bits : Nat) (a : Int) : Option Nat :=
  if 0 ≤ a ∧ a ≤ 2 ^ c.pcBits - 1 then
    (if -(2 : Int) ^ (bits - 1) ≤ distOf (2 ^ c.pcBits) c.wrap pc a ∧ distOf (2 ^ c.pcBits) c.wrap pc a ≤ 2 ^ (bits - 1) - 1
     then some (lowBits (distOf (2 ^ c.pcBits) c.wrap pc a) bits) else none)
  else none

theorem relField_accepts (c : Cpu) (pc bits : Nat) (hb : bits = 7 ∨ bits = 12) (hn1 : 1 ≤ c.pcBits) (hn : c.pcBits ≤ 20)
    (hpc : (pc : Int) < 2 ^ c.pcBits) (a : Int) :
    (relField c pc bits a).isSome = (Opd.rel bits).accepts c pc a := by
  unfold relField Opd.accepts
  by_cases h1 : 0 ≤ a ∧ a ≤ 2 ^ c.pcBits - 1
  · have h2 : 0 ≤ a := h1.1
    have h3 : a < 2 ^ c.pcBits := by omega
    have hr := rel_reach bits hb c.pcBits hn1 hn c.wrap c.core pc a h2 h3 hpc
    rw [← cpu_eta c] at hr
    simp only [h1, and_self, if_true, h2, h3, decide_true, Bool.true_and]
    by_cases hd : -(2 : Int) ^ (bits - 1) ≤ distOf (2 ^ c.pcBits) c.wrap pc a ∧ distOf (2 ^ c.pcBits) c.wrap pc a ≤ 2 ^ (bits - 1) - 1
    · simp only [hd, and_self, if_true, Option.isSome_some, hr.mp hd]
    · have : reach c pc bits a = false := by
        cases hh : reach c pc bits a
        · rfl
        · exact absurd (hr.mpr hh) hd
      simp only [hd, if_false, Option.isSome_none, this]
  · have : (decide (0 ≤ a) && decide (a < 2 ^ c.pcBits)) = false := by
      by_cases h2 : 0 ≤ a
      · have : ¬ a < 2 ^ c.pcBits := by omega
        simp [h2, this]
      · simp [h2]
    simp only [h1, if_false, Option.isSome_none, this, Bool.false_and]

theorem relField_target (c : Cpu) (pc bits : Nat) (hb : bits = 7 ∨ bits = 12) (hn1 : 1 ≤ c.pcBits) (hn : c.pcBits ≤ 20)
    (a : Int) (k : Nat) (h : relField c pc bits a = some k) : target c pc bits k = a.toNat ∧ k < 2 ^ bits := by
  unfold relField at h
  split at h
  · rename_i h1
    split at h
    · rename_i hd
      simp only [Option.some.injEq] at h
      subst h
      have h3 : a < 2 ^ c.pcBits := by omega
      have := rel_target bits hb c.pcBits hn1 hn c.wrap c.core pc a h1.1 h3 hd
      rw [← cpu_eta c] at this
      exact ⟨this, lowBits_lt _ _⟩
    · simp at h
  · simp at h

theorem relDist_field (x : Ctx) (c : Cpu) (h : compat x.p c = true) (hw : x.wrap = c.wrap) (bits : Nat) (a : Int)
    (f : Int → Except Err (List Byte)) (g : Nat → List Byte)
    (hf : ∀ d, f d = if d < -(2 : Int) ^ (bits - 1) ∨ d > 2 ^ (bits - 1) - 1 then .error .jmpDist else .ok (g (lowBits d bits))) :
    okBytes (andThen (relDist x a) f) = (relField c x.pc bits a).map g := by
  rw [relDist_eq x c h hw, relField]
  by_cases h1 : 0 ≤ a ∧ a ≤ 2 ^ c.pcBits - 1
  · simp only [h1, and_self, if_true, andThen_ok, hf]
    by_cases hd : -(2 : Int) ^ (bits - 1) ≤ distOf (2 ^ c.pcBits) c.wrap x.pc a ∧ distOf (2 ^ c.pcBits) c.wrap x.pc a ≤ 2 ^ (bits - 1) - 1
    · have : ¬ (distOf (2 ^ c.pcBits) c.wrap x.pc a < -(2 : Int) ^ (bits - 1) ∨ distOf (2 ^ c.pcBits) c.wrap x.pc a > 2 ^ (bits - 1) - 1) := by omega
      simp only [this, if_false, okBytes_ok, hd, and_self, if_true, Option.map_some]
    · have : (distOf (2 ^ c.pcBits) c.wrap x.pc a < -(2 : Int) ^ (bits - 1) ∨ distOf (2 ^ c.pcBits) c.wrap x.pc a > 2 ^ (bits - 1) - 1) := by omega
      simp only [this, if_true, okBytes_error, hd, if_false, Option.map_none]
  · simp only [h1, if_false, andThen_error, okBytes_error, Option.map_none]



/-! #### `BRxx` -/

noncomputable def goodRel (m : Mn) (code : Nat) : Bool :=
  (form m).opds == [.rel 7] && !(form m).bare &&
  match flagAlias m with
  | some (cm, s) => (cm == .BRBS || cm == .BRBC) && allBelow 128 fun k => wordIs (code ||| (k <<< 3)) cm [s, k] false
  | none => false

theorem rel_desc (x : Ctx) (c : Cpu) (h : compat x.p c = true) (hw : x.wrap = c.wrap) (code : Nat) (args : List Int) :
    okBytes (decodeRel x code args) =
      match args with
      | [a] => (relField c x.pc 7 a).map fun k => appendCode (code ||| (k <<< 3))
      | _ => none := by
  unfold decodeRel
  rcases args with _ | ⟨a, _ | ⟨a2, t⟩⟩
  · rfl
  · exact relDist_field x c h hw 7 a _ (fun k => appendCode (code ||| (k <<< 3))) (fun d => by simp only [Nat.reduceSub, Int.reducePow, Int.reduceNeg, Int.reduceSub])
  · rfl

theorem absolutise_brb (c : Cpu) (pc : Nat) (cm : Mn) (hcm : cm = .BRBS ∨ cm = .BRBC) (s k : Nat) :
    absolutise c pc cm [s, k] = [s, target c pc 7 k] := by
  rcases hcm with rfl | rfl <;> rfl

theorem rel_sound (m : Mn) (code : Nat) (hg : goodRel m code = true) (x : Ctx) (c : Cpu) (h : compat x.p c = true) (hw : x.wrap = c.wrap)
    (args : List Int) (bs : List Byte) (he : decodeRel x code args = .ok bs) :
    decode c x.pc bs = some (meaning ⟨m, args⟩, bs.length) := by
  have hf := compat_facts x.p c h
  have hob : okBytes (decodeRel x code args) = some bs := by rw [he]; rfl
  rw [rel_desc x c h hw] at hob
  simp only [goodRel, Bool.and_eq_true, beq_iff_eq, Bool.not_eq_true'] at hg
  obtain ⟨⟨hopds, _⟩, hrest⟩ := hg
  cases hfa : flagAlias m with
  | none => simp [hfa] at hrest
  | some cs =>
    obtain ⟨cm, s⟩ := cs
    simp only [hfa, Bool.and_eq_true, Bool.or_eq_true, beq_iff_eq] at hrest
    obtain ⟨hcm, hall⟩ := hrest
    rcases args with _ | ⟨a, _ | ⟨a2, t⟩⟩
    · simp at hob
    · simp only at hob
      cases hrf : relField c x.pc 7 a with
      | none => simp [hrf] at hob
      | some k =>
        simp only [hrf, Option.map_some, Option.some.injEq] at hob
        subst hob
        obtain ⟨htar, hk⟩ := relField_target c x.pc 7 (Or.inl rfl) hf.n1 hf.n20 a k hrf
        have hw1 := wordIs_spec _ _ _ _ (allBelow_spec _ _ hall k hk)
        rw [decode_append c x.pc _ _ _ hw1, absolutise_brb c x.pc cm hcm, htar, appendCode_length]
        simp only [meaning, hopds, values, canon, hfa, Opd.value]
    · simp at hob

theorem rel_ok (m : Mn) (code : Nat) (hg : goodRel m code = true) (x : Ctx) (c : Cpu) (h : compat x.p c = true) (hw : x.wrap = c.wrap)
    (hpc : (x.pc : Int) < 2 ^ c.pcBits) (args : List Int) :
    isOk (decodeRel x code args) = legal c x.pc ⟨m, args⟩ := by
  have hf := compat_facts x.p c h
  rw [isOk_okBytes, rel_desc x c h hw]
  simp only [goodRel, Bool.and_eq_true, beq_iff_eq, Bool.not_eq_true'] at hg
  obtain ⟨⟨hopds, hbare⟩, hrest⟩ := hg
  have hal : (flagAlias m).isSome = true := by
    cases hfa : flagAlias m with
    | none => simp [hfa] at hrest
    | some v => rfl
  obtain ⟨hav, hmo⟩ := alias_avail m hal c args
  simp only [legal, hav, hmo, hopds, hbare, Bool.true_and, Bool.false_and, Bool.false_or, List.isEmpty_cons, Bool.not_false]
  rcases args with _ | ⟨a, _ | ⟨a2, t⟩⟩
  · rfl
  · simp only [Option.isSome_map, acceptsAll, Bool.and_true]
    exact relField_accepts c x.pc 7 (Or.inl rfl) hf.n1 hf.n20 hpc a
  · simp [acceptsAll]

/-! #### `BRBS/BRBC` -/

noncomputable def goodBrb (m : Mn) (idx : Nat) : Bool :=
  (form m).opds == [.imm 0 7 3, .rel 7] && !(form m).bare && (m == .BRBS || m == .BRBC) &&
  allBelow 8 fun s => allBelow 128 fun k => wordIs (0xf000 ||| idx ||| (k <<< 3) ||| s) m [s, k] false

theorem brb_desc (x : Ctx) (c : Cpu) (h : compat x.p c = true) (hw : x.wrap = c.wrap) (idx : Nat) (args : List Int) :
    okBytes (decodeBRBSBC x idx args) =
      match args with
      | [sv, a] => if 0 ≤ sv ∧ sv ≤ 7 then (relField c x.pc 7 a).map fun k => appendCode (0xf000 ||| idx ||| (k <<< 3) ||| toWord sv) else none
      | _ => none := by
  unfold decodeBRBSBC
  rcases args with _ | ⟨sv, _ | ⟨a, _ | ⟨a3, t⟩⟩⟩
  · rfl
  · rfl
  · simp only [evalBrb]
    by_cases hs : 0 ≤ sv ∧ sv ≤ 7
    · simp only [hs, and_self, if_true, andThen_ok]
      exact relDist_field x c h hw 7 a _ (fun k => appendCode (0xf000 ||| idx ||| (k <<< 3) ||| toWord sv))
        (fun d => by simp only [Nat.reduceSub, Int.reducePow, Int.reduceNeg, Int.reduceSub])
    · simp only [hs, if_false, andThen_error, okBytes_error]
  · rfl

theorem brb_sound (m : Mn) (idx : Nat) (hg : goodBrb m idx = true) (x : Ctx) (c : Cpu) (h : compat x.p c = true) (hw : x.wrap = c.wrap)
    (args : List Int) (bs : List Byte) (he : decodeBRBSBC x idx args = .ok bs) :
    decode c x.pc bs = some (meaning ⟨m, args⟩, bs.length) := by
  have hf := compat_facts x.p c h
  have hob : okBytes (decodeBRBSBC x idx args) = some bs := by rw [he]; rfl
  rw [brb_desc x c h hw] at hob
  simp only [goodBrb, Bool.and_eq_true, beq_iff_eq, Bool.not_eq_true', Bool.or_eq_true] at hg
  obtain ⟨⟨⟨hopds, _⟩, hm⟩, hall⟩ := hg
  rcases args with _ | ⟨sv, _ | ⟨a, _ | ⟨a3, t⟩⟩⟩
  · simp at hob
  · simp at hob
  · simp only at hob
    split at hob
    · rename_i hs
      cases hrf : relField c x.pc 7 a with
      | none => simp [hrf] at hob
      | some k =>
        simp only [hrf, Option.map_some, Option.some.injEq] at hob
        subst hob
        obtain ⟨htar, hk⟩ := relField_target c x.pc 7 (Or.inl rfl) hf.n1 hf.n20 a k hrf
        have hsw : toWord sv = sv.toNat := by unfold toWord; omega
        have hs8 : sv.toNat < 8 := by omega
        have hw1 := wordIs_spec _ _ _ _ (allBelow_spec _ _ (allBelow_spec _ _ hall sv.toNat hs8) k hk)
        rw [hsw, decode_append c x.pc _ _ _ hw1, absolutise_brb c x.pc m hm, htar, appendCode_length]
        have hv : (sv % 2 ^ 3).toNat = sv.toNat := by simp only [Int.reducePow]; omega
        rcases hm with rfl | rfl <;> simp only [meaning, form, fBrb, values, canon, flagAlias, Opd.value, hv]
    · simp at hob
  · simp at hob

theorem brb_ok (m : Mn) (idx : Nat) (hg : goodBrb m idx = true) (x : Ctx) (c : Cpu) (h : compat x.p c = true) (hw : x.wrap = c.wrap)
    (hpc : (x.pc : Int) < 2 ^ c.pcBits) (args : List Int) :
    isOk (decodeBRBSBC x idx args) = legal c x.pc ⟨m, args⟩ := by
  have hf := compat_facts x.p c h
  rw [isOk_okBytes, brb_desc x c h hw]
  simp only [goodBrb, Bool.and_eq_true, beq_iff_eq, Bool.not_eq_true', Bool.or_eq_true] at hg
  obtain ⟨⟨⟨hopds, hbare⟩, hm⟩, _⟩ := hg
  have hav : avail c m args = true ∧ modeOk m args = true := by
    rcases hm with rfl | rfl <;> simp [avail, minCore, minPcBits, modeOk]
  simp only [legal, hav.1, hav.2, hopds, hbare, Bool.true_and, Bool.false_and, Bool.false_or, List.isEmpty_cons, Bool.not_false]
  rcases args with _ | ⟨sv, _ | ⟨a, _ | ⟨a3, t⟩⟩⟩
  · rfl
  · simp [acceptsAll]
  · simp only [acceptsAll, Bool.and_true]
    rw [← relField_accepts c x.pc 7 (Or.inl rfl) hf.n1 hf.n20 hpc a]
    simp only [Opd.accepts]
    by_cases hs : 0 ≤ sv ∧ sv ≤ 7
    · simp [hs]
    · have : (decide (0 ≤ sv) && decide (sv ≤ 7)) = false := by
        by_cases h0 : 0 ≤ sv
        · have : ¬ sv ≤ 7 := by omega
          simp [h0, this]
        · simp [h0]
      simp only [hs, if_false, Option.isSome_none, this, Bool.false_and]
  · simp [acceptsAll]

/-! #### `RJMP/RCALL` -/

noncomputable def goodRjmp (m : Mn) (idx : Nat) : Bool :=
  (form m).opds == [.rel 12] && !(form m).bare && (m == .RJMP || m == .RCALL) &&
  allBelow 4096 fun k => wordIs (0xc000 ||| idx ||| k) m [k] false

theorem rjmp_desc (x : Ctx) (c : Cpu) (h : compat x.p c = true) (hw : x.wrap = c.wrap) (idx : Nat) (args : List Int) :
    okBytes (decodeRJMPCALL x idx args) =
      match args with
      | [a] => (relField c x.pc 12 a).map fun k => appendCode (0xc000 ||| idx ||| k)
      | _ => none := by
  unfold decodeRJMPCALL
  rcases args with _ | ⟨a, _ | ⟨a2, t⟩⟩
  · rfl
  · exact relDist_field x c h hw 12 a _ (fun k => appendCode (0xc000 ||| idx ||| k)) (fun d => by simp only [Nat.reduceSub, Int.reducePow, Int.reduceNeg, Int.reduceSub])
  · rfl

theorem absolutise_rjmp (c : Cpu) (pc : Nat) (m : Mn) (hm : m = .RJMP ∨ m = .RCALL) (k : Nat) :
    absolutise c pc m [k] = [target c pc 12 k] := by
  rcases hm with rfl | rfl <;> rfl

theorem rjmp_sound (m : Mn) (idx : Nat) (hg : goodRjmp m idx = true) (x : Ctx) (c : Cpu) (h : compat x.p c = true) (hw : x.wrap = c.wrap)
    (args : List Int) (bs : List Byte) (he : decodeRJMPCALL x idx args = .ok bs) :
    decode c x.pc bs = some (meaning ⟨m, args⟩, bs.length) := by
  have hf := compat_facts x.p c h
  have hob : okBytes (decodeRJMPCALL x idx args) = some bs := by rw [he]; rfl
  rw [rjmp_desc x c h hw] at hob
  simp only [goodRjmp, Bool.and_eq_true, beq_iff_eq, Bool.not_eq_true', Bool.or_eq_true] at hg
  obtain ⟨⟨⟨hopds, _⟩, hm⟩, hall⟩ := hg
  rcases args with _ | ⟨a, _ | ⟨a2, t⟩⟩
  · simp at hob
  · simp only at hob
    cases hrf : relField c x.pc 12 a with
    | none => simp [hrf] at hob
    | some k =>
      simp only [hrf, Option.map_some, Option.some.injEq] at hob
      subst hob
      obtain ⟨htar, hk⟩ := relField_target c x.pc 12 (Or.inr rfl) hf.n1 hf.n20 a k hrf
      have hw1 := wordIs_spec _ _ _ _ (allBelow_spec _ _ hall k hk)
      rw [decode_append c x.pc _ _ _ hw1, absolutise_rjmp c x.pc m hm, htar, appendCode_length]
      rcases hm with rfl | rfl <;> simp only [meaning, form, fRel12, values, canon, flagAlias, Opd.value]
  · simp at hob

theorem rjmp_ok (m : Mn) (idx : Nat) (hg : goodRjmp m idx = true) (x : Ctx) (c : Cpu) (h : compat x.p c = true) (hw : x.wrap = c.wrap)
    (hpc : (x.pc : Int) < 2 ^ c.pcBits) (args : List Int) :
    isOk (decodeRJMPCALL x idx args) = legal c x.pc ⟨m, args⟩ := by
  have hf := compat_facts x.p c h
  rw [isOk_okBytes, rjmp_desc x c h hw]
  simp only [goodRjmp, Bool.and_eq_true, beq_iff_eq, Bool.not_eq_true', Bool.or_eq_true] at hg
  obtain ⟨⟨⟨hopds, hbare⟩, hm⟩, _⟩ := hg
  have hav : avail c m args = true ∧ modeOk m args = true := by
    rcases hm with rfl | rfl <;> simp [avail, minCore, minPcBits, modeOk]
  simp only [legal, hav.1, hav.2, hopds, hbare, Bool.true_and, Bool.false_and, Bool.false_or, List.isEmpty_cons, Bool.not_false]
  rcases args with _ | ⟨a, _ | ⟨a2, t⟩⟩
  · rfl
  · simp only [Option.isSome_map, acceptsAll, Bool.and_true]
    exact relField_accepts c x.pc 12 (Or.inr rfl) hf.n1 hf.n20 hpc a
  · simp [acceptsAll]

end AslModel.Isa.IAvr
