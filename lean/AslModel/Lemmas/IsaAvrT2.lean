import AslModel.Lemmas.IsaAvrBase
/-! C14 / AVR: table check (`Good`) of a group of `InstTable` entries, decided over the complete field domains.
Split over several modules so that they are checked in parallel. -/
namespace AslModel.Isa.IAvr
open AslModel.Spec.IAvr
set_option maxRecDepth 100000

theorem good_T2_0 : goodAll [.SBC, .AND, .OR] = true := by decide +kernel
theorem good_T2_1 : goodAll [.CLR, .TST, .LSL, .ROL] = true := by decide +kernel

end AslModel.Isa.IAvr
