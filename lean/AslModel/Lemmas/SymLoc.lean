import AslModel.Lemmas.Sym
import AslModel.Model.SymLoc
/-! helper lemmas for `Props/C13_Loc.lean`: the handle stack is a frame of every statement; the loop invariant of the
construct processors; `walkConts` as a `findSome?` -/
namespace AslModel.SymLoc
open AslModel.Sym AslModel.Generated.Sym

/-- the handle stack of `b` is that of `a` -/
structure Frame (a b : LSt) : Prop where
  mom : b.mom = a.mom
  conts : b.conts = a.conts

theorem Frame.refl (a : LSt) : Frame a a := ⟨rfl, rfl⟩
theorem Frame.trans {a b c : LSt} (h1 : Frame a b) (h2 : Frame b c) : Frame a c :=
  ⟨h2.mom.trans h1.mom, h2.conts.trans h1.conts⟩

theorem enterLoc_frame (st : LSt) (n : Name) (v : Int) : Frame st (enterLoc st n v) := by
  unfold enterLoc
  cases symbolAdder (tfind st.ltab (locKey st n)) v false with
  | error e => exact ⟨rfl, rfl⟩
  | ok p => exact ⟨rfl, rfl⟩

theorem defineLabelL_frame (st : LSt) (n : Name) (v : Int) : Frame st (defineLabelL st n v) := by
  unfold defineLabelL
  split
  · split
    · exact ⟨rfl, rfl⟩
    · exact ⟨(enterLoc_frame _ _ _).mom, (enterLoc_frame _ _ _).conts⟩
  · exact ⟨rfl, rfl⟩

theorem lookupL_frame (st : LSt) (r : Name) : Frame st (lookupL st r).1 := by
  unfold lookupL
  simp only
  split
  · exact ⟨rfl, rfl⟩
  · exact ⟨rfl, rfl⟩

theorem stepL_frame (st : LSt) (op : Op) : Frame st (stepL st op) := by
  cases op <;> simp only [stepL]
  case label n =>
    have h1 := defineLabelL_frame (bumpLine st) n (bumpLine st).g.pc
    exact ⟨h1.mom, h1.conts⟩
  case labelOnly n =>
    have h1 := defineLabelL_frame (bumpLine st) n (bumpLine st).g.pc
    exact ⟨h1.mom, h1.conts⟩
  case labelWord n r =>
    have h1 := defineLabelL_frame (bumpLine st) n (bumpLine st).g.pc
    have h2 := lookupL_frame (defineLabelL (bumpLine st) n (bumpLine st).g.pc) r
    exact ⟨h2.mom.trans h1.mom, h2.conts.trans h1.conts⟩
  case use r =>
    have h2 := lookupL_frame (bumpLine st) r
    exact ⟨h2.mom, h2.conts⟩
  all_goals exact ⟨rfl, rfl⟩

/-- the state inside a construct that was entered at `st0`: either no space was opened yet (GLOBALSYMBOLS, or before the
first iteration) and the handle stack is the one at entry, or exactly one space is open on top of it -/
def Inv (glob first : Bool) (st0 st : LSt) : Prop :=
  if glob ∨ first then Frame st0 st else st.conts = st0.mom :: st0.conts

theorem iterOpen_inv (glob first : Bool) (st0 st : LSt) (h : Inv glob first st0 st) :
    Inv glob false st0 (iterOpen glob first st) := by
  unfold Inv iterOpen at *
  by_cases hg : glob = true
  · simp [hg] at h ⊢; exact h
  · cases first
    · simp [hg] at h ⊢
      simp only [pushFresh, pushLoc, popLoc, h]
    · simp [hg] at h ⊢
      simp only [pushFresh, pushLoc, h.mom, h.conts]

theorem inv_step (glob : Bool) (st0 st st' : LSt) (h : Inv glob false st0 st) (hf : Frame st st') : Inv glob false st0 st' := by
  unfold Inv at *
  by_cases hg : glob = true
  · simp [hg] at h ⊢; exact Frame.trans h hf
  · simp [hg] at h ⊢; rw [hf.conts]; exact h

theorem loop_inv (glob : Bool) (f : LSt → LSt) (hf : ∀ s, Frame s (f s)) (st0 : LSt) :
    ∀ (n : Nat) (first : Bool) (st : LSt), Inv glob first st0 st →
      Inv glob (loop glob f n first st).2 st0 (loop glob f n first st).1 := by
  intro n
  induction n with
  | zero => intro first st h; simpa [loop] using h
  | succ k ih =>
    intro first st h
    simp only [loop]
    exact ih false _ (inv_step glob st0 _ _ (iterOpen_inv glob first st0 st h) (hf _))

theorem restorer_frame (glob first : Bool) (st0 st : LSt) (h : Inv glob first st0 st) : Frame st0 (restorer glob first st) := by
  unfold Inv restorer at *
  by_cases hg : glob = true
  · simp [hg] at h ⊢; exact h
  · cases first
    · simp [hg] at h ⊢
      simp only [popLoc, h]
      exact ⟨rfl, rfl⟩
    · simp [hg] at h ⊢; exact h

theorem finish_frame (wh glob : Bool) (st0 : LSt) (r : LSt × Bool) (h : Inv glob r.2 st0 r.1) : Frame st0 (finish wh glob r) := by
  unfold finish
  cases wh
  · simpa using restorer_frame glob r.2 st0 r.1 h
  · simpa using restorer_frame glob false st0 _ (iterOpen_inv glob r.2 st0 r.1 h)

mutual
theorem execItem_frame : ∀ (i : Item) (st : LSt), Frame st (execItem i st)
  | .op o, st => by simpa [execItem] using stepL_frame st o
  | .con wh glob n body, st => by
    simp only [execItem]
    apply finish_frame
    apply loop_inv glob (execItems body) (fun s => execItems_frame body s) st n true st
    simp [Inv, Frame.refl]
theorem execItems_frame : ∀ (is : Items) (st : LSt), Frame st (execItems is st)
  | .nil, st => by simpa [execItems] using Frame.refl st
  | .cons i r, st => by
    simp only [execItems]
    exact Frame.trans (execItem_frame i st) (execItems_frame r _)
end

/-- the label spaces a reference can see: the current one, then the enclosing ones up to the first `-1` (a statement that
switched the local spaces off) -/
def openSpaces (st : LSt) : List Int := if st.mom = -1 then [] else st.mom :: st.conts.takeWhile (· ≠ -1)

theorem walkConts_eq (ltab : Tab) (name : Name) (cs : List Int) :
    walkConts ltab name cs = (cs.takeWhile (· ≠ -1)).findSome? (fun h => tfind ltab (name, h)) := by
  induction cs with
  | nil => simp [walkConts]
  | cons c r ih =>
    by_cases hc : c = -1
    · simp [walkConts, hc]
    · simp only [walkConts, hc, if_false]
      rw [List.takeWhile_cons_of_pos (by simpa using hc), List.findSome?_cons]
      cases hq : tfind ltab (name, c) with
      | some e => simp
      | none => simpa using ih

theorem chkTmpDef_cs (st : St) (n : Name) (src : SymSource) : (chkTmpDef st n src).1.cs = st.cs := by
  unfold chkTmpDef chkTmp3
  repeat' split
  all_goals rfl

end AslModel.SymLoc
