import AslModel.Lemmas.IsaAvrDesc
import AslModel.Lemmas.IsaAvrSpecial
import AslModel.Lemmas.IsaAvrSpecial2
/-! Lemmas for C14 / AVR: what the SPEC demands of an `InstTable` entry (`Good`), and soundness / range of the plain handlers from it. -/
namespace AslModel.Isa.IAvr
open AslModel.PFile (Byte b b_toNat)
open AslModel.Spec.IAvr
open AslModel.Generated.IsaAvr

/-! ### the immediate instructions: one enumeration for the whole class

`SUBI SBCI ANDI ORI SBR CPI LDI` (and `CBR`) share one handler and differ in the top four opcode bits only.  Bit fields
distribute over `|||` (`fld_or`), so the register/constant part is checked once (`immFields_ok`) and the opcode part
is looked up in the first row selector of the opcode map. -/

noncomputable def immFieldsOk : Bool :=
  allL (OpdD.reg upperHalfRegMask).dom fun r => allL (OpdD.int (-128) 255).dom fun c =>
    force (immX r c) fun x => force (immX r (c ^^^ 0xff)) fun y =>
      Nat.blt x 4096 && Nat.beq (16 + fld x 4 4) r && Nat.beq (16 * fld x 8 4 + fld x 0 4) (c % 256) &&
      Nat.blt y 4096 && Nat.beq (16 + fld y 4 4) r && Nat.beq (16 * fld y 8 4 + fld y 0 4) (255 - c % 256)

set_option maxRecDepth 100000 in
theorem immFields_ok : immFieldsOk = true := by decide +kernel

theorem immFields_spec (r c : Nat) (hr : r ∈ (OpdD.reg upperHalfRegMask).dom) (hc : c ∈ (OpdD.int (-128) 255).dom) :
    (immX r c < 4096 ∧ 16 + fld (immX r c) 4 4 = r ∧ 16 * fld (immX r c) 8 4 + fld (immX r c) 0 4 = c % 256) ∧
    (immX r (c ^^^ 0xff) < 4096 ∧ 16 + fld (immX r (c ^^^ 0xff)) 4 4 = r ∧
      16 * fld (immX r (c ^^^ 0xff)) 8 4 + fld (immX r (c ^^^ 0xff)) 0 4 = 255 - c % 256) := by
  have h := allL_spec _ _ (allL_spec _ _ immFields_ok r hr) c hc
  rw [force_eq, force_eq] at h
  simp only [Bool.and_eq_true, Nat.blt_eq] at h
  obtain ⟨⟨⟨⟨⟨h1, h2⟩, h3⟩, h4⟩, h5⟩, h6⟩ := h
  exact ⟨⟨h1, Nat.eq_of_beq_eq_true h2, Nat.eq_of_beq_eq_true h3⟩, h4, Nat.eq_of_beq_eq_true h5, Nat.eq_of_beq_eq_true h6⟩

/-- the instruction an immediate mnemonic stands for (`SBR` = `ORI`) -/
def immAlias : Mn → Option Mn
  | .SUBI => some .SUBI | .SBCI => some .SBCI | .ANDI => some .ANDI | .ORI => some .ORI | .SBR => some .ORI
  | .CPI => some .CPI | .LDI => some .LDI
  | _ => none

theorem immAlias_canon (m M : Mn) (h : immAlias m = some M) (r k : Nat) : canon m [r, k] = ⟨M, [r, k]⟩ := by
  cases m <;> simp [immAlias] at h <;> subst h <;> rfl

theorem immAlias_notRel (m M : Mn) (h : immAlias m = some M) : isRel M = false := by
  cases m <;> simp [immAlias] at h <;> subst h <;> rfl

/-- the opcode map gives back mnemonic and operands of everything a scheme emits: by enumeration, or - immediate
class - by the class argument above -/
noncomputable def decodesOk (m : Mn) (h : Handler) (d : Desc) : Bool :=
  match h with
  | .imm code =>
    (form m).opds == [.reg .hi, .imm (-128) 255 8] && code % 4096 == 0 && decide (code < 65536) &&
    (immAlias m).isSome && immMn (code / 4096) == immAlias m
  | .cbr _ => m == .CBR
  | _ => decodesTo m d

theorem prod_two (d0 d1 : List Nat) (fs : List Nat) (h : fs ∈ prod [d0, d1]) : ∃ a c, fs = [a, c] ∧ a ∈ d0 ∧ c ∈ d1 := by
  simp only [prod, List.mem_flatMap, List.mem_map, List.mem_singleton] at h
  obtain ⟨a, ha, t, ⟨c, hc, u, rfl, rfl⟩, rfl⟩ := h
  exact ⟨a, c, rfl, ha, hc⟩

theorem decodesOk_spec (m : Mn) (h : Handler) (p : Props) (bare : Bool) (d : Desc) (hd : descOf p h bare = some d)
    (hok : decodesOk m h d = true) :
    ∀ fs ∈ prod (d.opds.map OpdD.dom),
      decode1 (d.comp fs % 65536) = some ((canon m (specVals (form m).opds fs)).mn, (canon m (specVals (form m).opds fs)).args, false) ∧
      isRel (canon m (specVals (form m).opds fs)).mn = false := by
  cases h
  case imm code =>
    simp only [decodesOk, Bool.and_eq_true, beq_iff_eq, decide_eq_true_eq] at hok
    obtain ⟨⟨⟨⟨hopds, hc0⟩, hc1⟩, hsome⟩, hM⟩ := hok
    simp only [descOf, Option.some.injEq] at hd
    subst hd
    intro fs hfs
    obtain ⟨r, c, rfl, hr, hc⟩ := prod_two _ _ fs hfs
    cases hal : immAlias m with
    | none => simp [hal] at hsome
    | some M =>
      rw [hal] at hM
      obtain ⟨⟨hx, h4, h8⟩, _⟩ := immFields_spec r c hr hc
      have hcomp : (code ||| ((f1 [r, c] &&& 0xf0) <<< 4) ||| (f1 [r, c] &&& 0x0f) ||| ((f0 [r, c] &&& 0x0f) <<< 4)) = code ||| immX r c := by
        simp only [f0, f1, immX, List.getD_cons_zero, List.getD_cons_succ, Nat.or_assoc]
      simp only [hcomp, hopds, specVals, specVal, immAlias_canon m M hal, Nat.reducePow]
      rw [decode_imm_word code (immX r c) M hc0 hc1 hx hM, h4, h8]
      exact ⟨rfl, immAlias_notRel m M hal⟩
  case cbr idx =>
    simp only [decodesOk, beq_iff_eq] at hok
    subst hok
    simp only [descOf, Option.some.injEq] at hd
    subst hd
    intro fs hfs
    obtain ⟨r, c, rfl, hr, hc⟩ := prod_two _ _ fs hfs
    obtain ⟨_, hx, h4, h8⟩ := immFields_spec r c hr hc
    have hcomp : (0x7000 ||| (((f1 [r, c] ^^^ 0xff) &&& 0xf0) <<< 4) ||| ((f1 [r, c] ^^^ 0xff) &&& 0x0f) ||| ((f0 [r, c] &&& 0x0f) <<< 4)) =
        0x7000 ||| immX r (c ^^^ 0xff) := by
      simp only [f0, f1, immX, List.getD_cons_zero, List.getD_cons_succ, Nat.or_assoc]
    simp only [hcomp, form, fImm8, specVals, specVal, canon, flagAlias, Nat.reducePow]
    rw [decode_imm_word 0x7000 (immX r (c ^^^ 0xff)) .ANDI (by decide) (by decide) hx (by decide), h4, h8]
    exact ⟨rfl, rfl⟩
  all_goals exact decodesTo_spec m d hok


/-! ### plain handlers: gate, acceptance -/

theorem descOf_pOf (p : Props) (h : Handler) (bare : Bool) : descOf p h bare = descOf (pOf p.core) h bare := by
  cases h <;> rfl

/-- operands and opcode composition of a scheme do not depend on the device -/
theorem descOf_shape (p p' : Props) (h : Handler) (bare : Bool) (d d' : Desc) (h1 : descOf p h bare = some d)
    (h2 : descOf p' h bare = some d') : d.opds = d'.opds ∧ d.comp = d'.comp := by
  cases h <;> simp only [descOf] at h1 h2 <;>
    (first
      | (simp only [Option.some.injEq] at h1 h2; subst h1; subst h2; exact ⟨rfl, rfl⟩)
      | (split at h1 <;> simp_all <;> (subst h1; subst h2; exact ⟨rfl, rfl⟩))
      | (simp at h1))

/-- handlers that serve exactly one mnemonic of the SPEC (their acceptance involves the pointer mode) -/
def handlerMn : Handler → Option Mn
  | .ldst idx => if idx = 0 then some .LD else some .ST
  | .lpm _ => some .LPM
  | .elpm _ => some .ELPM
  | _ => none

def bareSensitive : Handler → Bool
  | .lpm _ | .elpm _ => true
  | _ => false


/-- handlers of the instructions the SPEC gates by program memory size (besides `DecodeJMPCALL`) -/
def isSizeHandler : Handler → Bool
  | .fixed _ _ | .elpm _ => true
  | _ => false

/-- core gate of a scheme = availability in the SPEC (by core), on every core -/
def gateOk (m : Mn) (h : Handler) (bare : Bool) : Bool :=
  if (handlerMn h).isSome && !bareSensitive h then true   -- `LD/ST`: the core needed depends on the pointer mode (`ldst_ok`)
  else if minPcBits m != 0 then isSizeHandler h
  else cores5.all fun k =>
    match descOf (pOf k) h bare with
    | some d => d.gate == decide (minCore m (if bare then [] else [0, 0]) ≤ coreLevel k)
    | none => false

noncomputable def goodPlain (m : Mn) (h : Handler) : Bool :=
  (match handlerMn h with | some m' => m == m' | none => !modeMn m) &&
  ((form m).bare || !(form m).opds.isEmpty) &&
  (bares m).all fun bare =>
    match descOf (pOf cCoreMega) h bare with
    | some d => shapeOk m d bare && decodesOk m h d && gateOk m h bare
    | none => false

/-- what the SPEC demands of one `InstTable` entry -/
noncomputable def Good (m : Mn) (h : Handler) : Bool :=
  match h with
  | .rel code => goodRel m code
  | .brbsbc idx => goodBrb m idx
  | .rjmpcall idx => goodRjmp m idx
  | .jmpcall idx => goodJmp m idx
  | .ldssts idx => goodLds m idx
  | .pbit code => goodPbit m code
  | h => goodPlain m h

theorem descOf_bare_irrel (p : Props) (h : Handler) (hm : bareSensitive h = false) (b1 b2 : Bool) : descOf p h b1 = descOf p h b2 := by
  cases h <;> simp [bareSensitive] at hm <;> rfl

theorem descOf_none_all (p p' : Props) (h : Handler) (b b' : Bool) (hd : descOf p h b = none) : descOf p' h b' = none := by
  cases h <;> simp [descOf] at hd ⊢ <;> (try split at hd) <;> simp_all

/-- `LPM`/`ELPM` handlers serve a bare mnemonic with operands -/
theorem sensitive_form (m : Mn) (h : Handler) (hs : bareSensitive h = true)
    (hm : (match handlerMn h with | some m' => m == m' | none => !modeMn m) = true) :
    (form m).bare = true ∧ (form m).opds.isEmpty = false := by
  cases h <;> simp [bareSensitive] at hs <;> simp [handlerMn] at hm <;> subst hm <;> exact ⟨rfl, rfl⟩

/-- a statement whose shape (with / without operands) the SPEC's form does not have is rejected by the scheme -/
theorem wrong_shape (m : Mn) (h : Handler) (hg : goodPlain m h = true) (p : Props) (args : List Int) (d : Desc)
    (hd : descOf p h args.isEmpty = some d) (hmem : args.isEmpty ∉ bares m) : d.run args = none := by
  simp only [goodPlain, Bool.and_eq_true, List.all_eq_true, Bool.or_eq_true, Bool.not_eq_true'] at hg
  obtain ⟨⟨hmn, hform⟩, hall⟩ := hg
  have hins : bareSensitive h = false := by
    cases hs : bareSensitive h
    · rfl
    · obtain ⟨hb, he⟩ := sensitive_form m h hs hmn
      unfold bares at hmem
      simp only [hb, he, if_true, Bool.false_eq_true, if_false] at hmem
      cases hae : args.isEmpty <;> simp [hae] at hmem
  unfold bares at hmem
  have key : ∀ b0, b0 ∈ bares m → ∀ d0, descOf (pOf cCoreMega) h b0 = some d0 → d.opds = d0.opds := by
    intro b0 _ d0 hd0
    rw [descOf_bare_irrel p h hins args.isEmpty b0] at hd
    exact (descOf_shape p (pOf cCoreMega) h b0 d d0 hd hd0).1
  cases hbare : (form m).bare <;> cases hemp : (form m).opds.isEmpty <;> cases hae : args.isEmpty <;>
    simp only [hbare, hemp, hae, if_true, if_false, Bool.false_eq_true, List.mem_cons, List.not_mem_nil, or_false, or_true, true_or,
      not_true_eq_false, Bool.true_eq_false, or_self, not_false_eq_true] at hmem
  · -- not bare, operands, but `args = []`
    have hb0 : false ∈ bares m := by simp [bares, hbare]
    have h0 := hall false hb0
    cases hd0 : descOf (pOf cCoreMega) h false with
    | none => simp [hd0] at h0
    | some d0 =>
      simp only [hd0, Bool.and_eq_true, shapeOk, Bool.false_eq_true, if_false] at h0
      have ho := key false hb0 d0 hd0
      have hargs : args = [] := List.isEmpty_iff.mp hae
      have hne : d.opds ≠ [] := by
        rw [ho]; intro hnil
        rw [hnil] at h0
        cases hfo : (form m).opds with
        | nil => simp [hfo] at hemp
        | cons o os => simp [hfo, opdsMatch] at h0
      unfold Desc.run
      split
      · cases hdo : d.opds with
        | nil => exact absurd hdo hne
        | cons o os => simp [hargs]
      · rfl
  · -- not bare, no operands: excluded by the table check
    simp [hbare, hemp] at hform
  · -- bare without operand form, but operands given
    have hb0 : true ∈ bares m := by simp [bares, hbare, hemp]
    have h0 := hall true hb0
    cases hd0 : descOf (pOf cCoreMega) h true with
    | none => simp [hd0] at h0
    | some d0 =>
      simp only [hd0, Bool.and_eq_true, shapeOk, if_true] at h0
      have ho := key true hb0 d0 hd0
      have hnil : d.opds = [] := by rw [ho]; exact List.isEmpty_iff.mp h0.1.1
      unfold Desc.run
      split
      · cases args with
        | nil => simp at hae
        | cons a t => simp [hnil]
      · rfl


/-- soundness of every handler that is an instance of the scheme -/
theorem plain_sound (m : Mn) (h : Handler) (hg : goodPlain m h = true) (x : Ctx) (c : Cpu) (hc : compat x.p c = true)
    (args : List Int) (bs : List Byte) (he : dispatch x h args = .ok bs) :
    decode c x.pc bs = some (meaning ⟨m, args⟩, bs.length) := by
  have hg' := hg
  simp only [goodPlain, Bool.and_eq_true, List.all_eq_true] at hg
  obtain ⟨_, hall⟩ := hg
  have hob : okBytes (dispatch x h args) = some bs := by rw [he]; rfl
  cases hd : descOf x.p h args.isEmpty with
  | none =>
    exfalso
    have hb : ∃ b, b ∈ bares m := by
      unfold bares; split <;> (try split) <;> exact ⟨_, List.mem_cons_self⟩
    obtain ⟨b0, hb0⟩ := hb
    have := hall b0 hb0
    rw [descOf_none_all x.p (pOf cCoreMega) h args.isEmpty b0 hd] at this
    simp at this
  | some d =>
    rw [dispatch_desc x (notMinTiny x.p c hc) h args d hd] at hob
    by_cases hmem : args.isEmpty ∈ bares m
    · have := hall _ hmem
      cases hd0 : descOf (pOf cCoreMega) h args.isEmpty with
      | none => simp [hd0] at this
      | some d0 =>
        simp only [hd0, Bool.and_eq_true] at this
        obtain ⟨⟨hshape, hdec⟩, _⟩ := this
        obtain ⟨ho, hcomp⟩ := descOf_shape x.p (pOf cCoreMega) h args.isEmpty d d0 hd hd0
        have hdec' := decodesOk_spec m h (pOf cCoreMega) args.isEmpty d0 hd0 hdec
        rw [← ho, ← hcomp] at hdec'
        refine run_sound d m c x.pc args bs ?_ hdec' hob
        unfold shapeOk at hshape
        rw [← ho] at hshape
        cases hae : args.isEmpty
        · simp only [hae, Bool.false_eq_true, if_false] at hshape; exact Or.inl hshape
        · simp only [hae, if_true, List.isEmpty_iff] at hshape; exact Or.inr hshape
    · rw [wrong_shape m h hg' x.p args d hd hmem] at hob
      cases hob
/-! ### range for the plain handlers -/

theorem plain_extra (p : Props) (h : Handler) (hn : handlerMn h = none) (b : Bool) (d : Desc) (hd : descOf p h b = some d) :
    (∀ fs, d.extra fs = true) ∧ d.opds.all fullMem = true := by
  cases h <;> simp only [handlerMn] at hn <;> (try (split at hn <;> simp at hn)) <;> (try (simp at hn)) <;> simp only [descOf] at hd <;>
    (first
      | (simp only [Option.some.injEq] at hd; subst hd; exact ⟨fun _ => rfl, rfl⟩)
      | (split at hd <;> simp only [Option.some.injEq] at hd <;> subst hd <;> exact ⟨fun _ => rfl, rfl⟩)
      | (simp at hd))

theorem run_isSome (d : Desc) (args : List Int) (hex : ∀ fs, d.extra fs = true) :
    (d.run args).isSome = (d.gate && (fields d.opds args).isSome) := by
  unfold Desc.run
  cases hg : d.gate
  · simp
  · cases hf : fields d.opds args with
    | none => simp
    | some fs => simp [hex fs]

theorem fixed_gate (p : Props) (m : Mn) (h : Handler) (hl : lookup m = some h) (b : Bool) (d : Desc) (hd : descOf p h b = some d)
    (hfx : isSizeHandler h = true) : sizeGateModel p m = d.gate := by
  unfold sizeGateModel
  rw [hl]
  cases h <;> simp [isSizeHandler] at hfx <;> simp only [descOf] at hd
  · simp only [Option.some.injEq] at hd; subst hd; rfl
  · split at hd <;> simp only [Option.some.injEq] at hd <;> subst hd <;> rfl

theorem minCore_shape (m : Mn) (hm : modeMn m = false ∨ m = .ELPM ∨ m = .LPM) (args : List Int) :
    minCore m (if args.isEmpty then [] else [0, 0]) = minCore m args := by
  rcases hm with hm | rfl | rfl
  · exact minCore_indep m hm _ _
  · rfl
  · cases args <;> simp [minCore]

theorem plain_gate (m : Mn) (h : Handler) (hl : lookup m = some h) (hmm : modeMn m = false ∨ m = .ELPM ∨ m = .LPM) (x : Ctx) (c : Cpu)
    (hc : compat x.p c = true) (args : List Int) (d : Desc) (hd : descOf x.p h args.isEmpty = some d) (hgo : gateOk m h args.isEmpty = true)
    (hnl : ((handlerMn h).isSome && !bareSensitive h) = false)
    (hsize : minPcBits m ≠ 0 → avail c m args = sizeGateModel x.p m) : d.gate = avail c m args := by
  have hf := compat_facts x.p c hc
  unfold gateOk at hgo
  simp only [hnl, Bool.false_eq_true, if_false] at hgo
  by_cases hne : minPcBits m = 0
  · simp only [hne, bne_self_eq_false, Bool.false_eq_true, if_false, List.all_eq_true] at hgo
    have hk := hgo x.p.core (mem_cores5 x.p c hc)
    rw [← descOf_pOf, hd] at hk
    simp only [beq_iff_eq] at hk
    rw [hk, ← hf.level, minCore_shape m hmm args]
    simp [avail, hne]
  · have : (minPcBits m != 0) = true := by simpa using hne
    simp only [this, if_true] at hgo
    rw [hsize hne, fixed_gate x.p m h hl _ d hd hgo]

/-- range for the handlers whose operands are accepted one by one -/
theorem plain_ok (m : Mn) (h : Handler) (hl : lookup m = some h) (hn : handlerMn h = none) (hg : goodPlain m h = true) (x : Ctx) (c : Cpu)
    (hc : compat x.p c = true) (args : List Int) (hsize : minPcBits m ≠ 0 → avail c m args = sizeGateModel x.p m) :
    isOk (dispatch x h args) = legal c x.pc ⟨m, args⟩ := by
  have hg' := hg
  simp only [goodPlain, hn, Bool.and_eq_true, List.all_eq_true, Bool.not_eq_true', Bool.or_eq_true] at hg
  obtain ⟨⟨hmode, hform⟩, hall⟩ := hg
  rw [isOk_okBytes, legal_unfold, modeOk_other m hmode, Bool.and_true]
  cases hd : descOf x.p h args.isEmpty with
  | none =>
    exfalso
    have hb : ∃ b, b ∈ bares m := by
      unfold bares; split <;> (try split) <;> exact ⟨_, List.mem_cons_self⟩
    obtain ⟨b0, hb0⟩ := hb
    have := hall b0 hb0
    rw [descOf_none_all x.p (pOf cCoreMega) h args.isEmpty b0 hd] at this
    simp at this
  | some d =>
    rw [dispatch_desc x (notMinTiny x.p c hc) h args d hd]
    obtain ⟨hex, hfull⟩ := plain_extra x.p h hn _ d hd
    by_cases hmem : args.isEmpty ∈ bares m
    · have h0 := hall _ hmem
      cases hd0 : descOf (pOf cCoreMega) h args.isEmpty with
      | none => simp [hd0] at h0
      | some d0 =>
        simp only [hd0, Bool.and_eq_true] at h0
        obtain ⟨⟨hshape, _⟩, hgo⟩ := h0
        obtain ⟨ho, _⟩ := descOf_shape x.p (pOf cCoreMega) h args.isEmpty d d0 hd hd0
        rw [run_isSome d args hex, plain_gate m h hl (Or.inl hmode) x c hc args d hd hgo (by rw [hn]; rfl) hsize]
        congr 1
        unfold shapeOk at hshape
        rw [← ho] at hshape
        cases hae : args.isEmpty
        · simp only [hae, Bool.false_eq_true, if_false] at hshape
          rw [fields_accepts d.opds (form m).opds c x.pc args hshape hfull]
          have hne : (form m).opds.isEmpty = false := by
            cases hfo : (form m).opds with
            | nil =>
              rw [hfo] at hshape
              cases hdo : d.opds with
              | nil =>
                have : acceptsAll c x.pc [] args = args.isEmpty := acceptsAll_nil_left c x.pc args
                rw [hdo] at hshape
                -- both empty: the statement has operands, nothing accepts them; and `isEmpty [] = true`
                exfalso
                unfold bares at hmem
                simp [hfo, hae] at hmem
                cases hb : (form m).bare <;> simp [hb] at hmem hform
                simp [hfo] at hform
              | cons o os => simp [hdo, opdsMatch] at hshape
            | cons o os => rfl
          simp [hne]
        · simp only [hae, if_true, List.isEmpty_iff] at hshape
          have hargs : args = [] := List.isEmpty_iff.mp hae
          have hbare : (form m).bare = true := by
            unfold bares at hmem
            cases hb : (form m).bare
            · simp [hb, hae] at hmem
            · rfl
          subst hargs
          simp [hshape, hbare, acceptsAll_nil]
    · rw [wrong_shape m h hg' x.p args d hd hmem]
      unfold bares at hmem
      cases hbare : (form m).bare <;> cases hemp : (form m).opds.isEmpty <;> cases hae : args.isEmpty <;>
        simp only [hbare, hemp, hae, if_true, if_false, Bool.false_eq_true, List.mem_cons, List.not_mem_nil, or_false, or_true, true_or,
          not_true_eq_false, Bool.true_eq_false, or_self, not_false_eq_true] at hmem
      · have hargs : args = [] := List.isEmpty_iff.mp hae
        subst hargs
        simp [acceptsAll_nil, hemp]
      · simp [hbare, hemp] at hform
      · simp

/-! ### `LD/ST`, `LPM`, `ELPM` -/

theorem core1200_iff (p : Props) (c : Cpu) (hc : compat p c = true) : (p.core = gateLdSt1200) ↔ c.core = 0 := by
  have hf := compat_facts p c hc
  rw [hf.level]
  rcases hf.core with h | h | h | h | h <;> rw [h] <;> decide

theorem mode_cases (a : Int) : (0 ≤ a ∧ a.toNat ∈ allModes) ↔ (0 ≤ a ∧ a < 9) := by
  simp only [allModes, List.mem_cons, List.not_mem_nil, or_false]; omega

theorem memCode_zero (n : Nat) (h : n ∈ allModes) : memCode n = 0 ↔ n = 6 := by
  simp only [allModes, List.mem_cons, List.not_mem_nil, or_false] at h
  rcases h with h | h | h | h | h | h | h | h | h <;> subst h <;> decide

/-- what `DecodeLDST` accepts: a register, a pointer mode, and on the AT90S1200 only plain `Z` -/
theorem ldst_accepts (x : Ctx) (c : Cpu) (hc : compat x.p c = true) (ra ma : Int) :
    (((OpdD.reg allRegMask).field ra).isSome && (decide (0 ≤ ma ∧ ma.toNat ∈ allModes) && !(decide (x.p.core = gateLdSt1200) && memCode ma.toNat != 0))) =
    (decide ((if ma = 6 then 0 else 1) ≤ c.core) && ((Opd.reg .all).accepts c x.pc ra && Opd.mode.accepts c x.pc ma)) := by
  rw [field_accepts (.reg allRegMask) (.reg .all) c x.pc ra allReg_match rfl]
  have h12 := core1200_iff x.p c hc
  simp only [Opd.accepts]
  by_cases hm : 0 ≤ ma ∧ ma.toNat ∈ allModes
  · have hm' := (mode_cases ma).mp hm
    have hz := memCode_zero ma.toNat hm.2
    have h6 : ma = 6 ↔ ma.toNat = 6 := by omega
    by_cases hcore : c.core = 0
    · have hp : x.p.core = gateLdSt1200 := h12.mpr hcore
      by_cases hma : ma = 6
      · subst hma
        have h6' : (6 : Int).toNat ∈ allModes := by decide
        have hz' : memCode (6 : Int).toNat = 0 := by decide
        have h6n : (6 : Nat) ∈ allModes := by decide
        have hzn : memCode 6 = 0 := by decide
        simp [h6n, hzn, hp, hcore]
      · have : memCode ma.toNat ≠ 0 := fun h => hma (h6.mpr (hz.mp h))
        simp [hm, hm'.1, hm'.2, hp, hma, hcore, this]
    · have hp : x.p.core ≠ gateLdSt1200 := fun h => hcore (h12.mp h)
      have : (if ma = 6 then 0 else 1) ≤ c.core := by split <;> omega
      simp [hm, hm'.1, hm'.2, hp, this]
  · have hm' : ¬ (0 ≤ ma ∧ ma < 9) := fun h => hm ((mode_cases ma).mpr h)
    have : (decide (0 ≤ ma) && decide (ma < 9)) = false := by simpa using hm'
    simp [hm, this]

theorem ldst_ok (m : Mn) (idx : Nat) (hg : goodPlain m (.ldst idx) = true) (x : Ctx) (c : Cpu) (hc : compat x.p c = true) (args : List Int) :
    isOk (dispatch x (.ldst idx) args) = legal c x.pc ⟨m, args⟩ := by
  simp only [goodPlain, handlerMn, Bool.and_eq_true] at hg
  have hm := hg.1.1
  rw [isOk_okBytes, legal_unfold]
  by_cases hi : idx = 0
  · simp only [hi, if_true, beq_iff_eq] at hm
    subst hm
    have hd : descOf x.p (.ldst idx) args.isEmpty = some ⟨true, [.reg allRegMask, .mem allModes],
        fun fs => !(decide (x.p.core = gateLdSt1200) && memCode (f1 fs) != 0),
        fun fs => 0x8000 ||| idx ||| (f0 fs <<< 4) ||| (memCode (f1 fs) &&& 0x0f) ||| ((memCode (f1 fs) &&& 0x10) <<< 8)⟩ := by
      simp [descOf, hi]
    rw [dispatch_desc x (notMinTiny x.p c hc) _ args _ hd]
    simp only [modeOk, form, fLd, Bool.and_true, Bool.false_and, Bool.false_or, List.isEmpty_cons, Bool.not_false, Bool.true_and,
      avail, minCore, minPcBits, Nat.zero_le, decide_true]
    rcases args with _ | ⟨a1, _ | ⟨a2, _ | ⟨a3, t⟩⟩⟩
    · simp [Desc.run, acceptsAll]
    · simp [Desc.run, acceptsAll, fields_cons]
    · have := ldst_accepts x c hc a1 a2
      simp only [acceptsAll, Bool.and_true, List.getD_cons_succ, List.getD_cons_zero] at this ⊢
      rw [← this]
      simp only [Desc.run, if_true, fields_cons, fields_nil, Option.bind_some, OpdD.field, f1]
      cases hr : (if 0 ≤ a1 ∧ a1 < 32 ∧ (allRegMask >>> a1.toNat) % 2 = 1 then some a1.toNat else none) with
      | none => simp
      | some r =>
        by_cases hma : 0 ≤ a2 ∧ a2.toNat ∈ allModes
        · by_cases h1 : x.p.core = gateLdSt1200 <;> by_cases h2 : memCode a2.toNat = 0 <;> simp [hma, h1, h2]
        · simp [hma]
    · simp [Desc.run, acceptsAll, fields_cons]
  · simp only [hi, if_false, beq_iff_eq] at hm
    subst hm
    have hd : descOf x.p (.ldst idx) args.isEmpty = some ⟨true, [.mem allModes, .reg allRegMask],
        fun fs => !(decide (x.p.core = gateLdSt1200) && memCode (f0 fs) != 0),
        fun fs => 0x8000 ||| idx ||| (f1 fs <<< 4) ||| (memCode (f0 fs) &&& 0x0f) ||| ((memCode (f0 fs) &&& 0x10) <<< 8)⟩ := by
      simp [descOf, hi]
    rw [dispatch_desc x (notMinTiny x.p c hc) _ args _ hd]
    simp only [modeOk, form, fSt, Bool.and_true, Bool.false_and, Bool.false_or, List.isEmpty_cons, Bool.not_false, Bool.true_and,
      avail, minCore, minPcBits, Nat.zero_le, decide_true]
    rcases args with _ | ⟨a1, _ | ⟨a2, _ | ⟨a3, t⟩⟩⟩
    · simp [Desc.run, acceptsAll]
    · simp [Desc.run, acceptsAll, fields_cons]
    · have := ldst_accepts x c hc a2 a1
      simp only [acceptsAll, Bool.and_true, List.getD_cons_zero] at this ⊢
      rw [Bool.and_comm ((Opd.mode).accepts c x.pc a1), ← this]
      simp only [Desc.run, if_true, fields_cons, fields_nil, Option.bind_some, OpdD.field, f0]
      by_cases hma : 0 ≤ a1 ∧ a1.toNat ∈ allModes
      · cases hr : (if 0 ≤ a2 ∧ a2 < 32 ∧ (allRegMask >>> a2.toNat) % 2 = 1 then some a2.toNat else none) with
        | none => simp [hma]
        | some r => by_cases h1 : x.p.core = gateLdSt1200 <;> by_cases h2 : memCode a1.toNat = 0 <;> simp [hma, h1, h2]
      · simp [hma]
    · simp [Desc.run, acceptsAll, fields_cons]

theorem lpm_fields (c : Cpu) (pc : Nat) (a1 a2 : Int) :
    (fields [.reg allRegMask, .mem [6, 7]] [a1, a2]).isSome = ((a2 == 6 || a2 == 7) && acceptsAll c pc [.reg .all, .mode] [a1, a2]) := by
  have h1 := field_accepts (.reg allRegMask) (.reg .all) c pc a1 allReg_match rfl
  have h2 := lpm_mode a2
  simp only [fields_cons, fields_nil, Option.bind_some, acceptsAll, Bool.and_true]
  rw [← h1]
  have h3 : (Opd.mode).accepts c pc a2 = (decide (0 ≤ a2) && decide (a2 < 9)) := rfl
  rw [h3]
  cases hr : (OpdD.reg allRegMask).field a1 with
  | none => simp
  | some r =>
    simp only [Option.bind_some, Option.isSome_some, Bool.true_and, OpdD.field]
    rw [← h2]
    by_cases hm2 : 0 ≤ a2 ∧ a2.toNat ∈ [6, 7]
    · rw [if_pos hm2, decide_eq_true hm2]; rfl
    · rw [if_neg hm2, decide_eq_false hm2]; rfl

/-- `LPM` / `ELPM`: alone, or with a register and `Z` / `Z+` -/
theorem lpm_ok (m : Mn) (h : Handler) (hl : lookup m = some h) (hmh : (m = .LPM ∧ ∃ i, h = .lpm i) ∨ (m = .ELPM ∧ ∃ i, h = .elpm i))
    (hg : goodPlain m h = true) (x : Ctx) (c : Cpu) (hc : compat x.p c = true) (args : List Int)
    (hsize : minPcBits m ≠ 0 → avail c m args = sizeGateModel x.p m) :
    isOk (dispatch x h args) = legal c x.pc ⟨m, args⟩ := by
  simp only [goodPlain, Bool.and_eq_true, List.all_eq_true] at hg
  obtain ⟨_, hall⟩ := hg
  have hmm : modeMn m = false ∨ m = .ELPM ∨ m = .LPM := by
    rcases hmh with ⟨rfl, _⟩ | ⟨rfl, _⟩
    · exact Or.inr (Or.inr rfl)
    · exact Or.inr (Or.inl rfl)
  have hbares : bares m = [true, false] := by rcases hmh with ⟨rfl, _⟩ | ⟨rfl, _⟩ <;> rfl
  have hform : (form m).bare = true ∧ (form m).opds = [.reg .all, .mode] := by rcases hmh with ⟨rfl, _⟩ | ⟨rfl, _⟩ <;> exact ⟨rfl, rfl⟩
  have hgo : gateOk m h args.isEmpty = true := by
    have := hall args.isEmpty (by rw [hbares]; cases args.isEmpty <;> simp)
    cases hd0 : descOf (pOf cCoreMega) h args.isEmpty with
    | none => simp [hd0] at this
    | some d0 => simp only [hd0, Bool.and_eq_true] at this; exact this.2
  rw [isOk_okBytes, legal_unfold, hform.1, hform.2]
  have hdesc : ∃ d, descOf x.p h args.isEmpty = some d ∧
      ((args.isEmpty = true ∧ d.opds = []) ∨ (args.isEmpty = false ∧ d.opds = [.reg allRegMask, .mem [6, 7]])) ∧ ∀ fs, d.extra fs = true := by
    rcases hmh with ⟨_, i, rfl⟩ | ⟨_, i, rfl⟩ <;> cases hae : args.isEmpty <;> simp [descOf, noExtra]
  obtain ⟨d, hd, hshape, hex⟩ := hdesc
  have hnl : ((handlerMn h).isSome && !bareSensitive h) = false := by
    rcases hmh with ⟨_, i, rfl⟩ | ⟨_, i, rfl⟩ <;> rfl
  rw [dispatch_desc x (notMinTiny x.p c hc) h args d hd, run_isSome d args hex, plain_gate m h hl hmm x c hc args d hd hgo hnl hsize]
  rcases hshape with ⟨hae, ho⟩ | ⟨hae, ho⟩
  · have hargs : args = [] := List.isEmpty_iff.mp hae
    subst hargs
    have hmo : modeOk m [] = true := by rcases hmh with ⟨rfl, _⟩ | ⟨rfl, _⟩ <;> rfl
    simp [ho, hmo]
  · rw [ho]
    rcases args with _ | ⟨a1, _ | ⟨a2, _ | ⟨a3, t⟩⟩⟩
    · simp at hae
    · have hmo : modeOk m [a1] = true := by rcases hmh with ⟨rfl, _⟩ | ⟨rfl, _⟩ <;> rfl
      simp [fields_cons, acceptsAll, hmo]
    · have hmo : modeOk m [a1, a2] = (a2 == 6 || a2 == 7) := by rcases hmh with ⟨rfl, _⟩ | ⟨rfl, _⟩ <;> rfl
      rw [lpm_fields c x.pc a1 a2, hmo]
      simp only [List.isEmpty_cons, Bool.and_false, Bool.false_or, Bool.not_false, Bool.true_and, Bool.and_assoc]
    · have hmo : modeOk m (a1 :: a2 :: a3 :: t) = true := by rcases hmh with ⟨rfl, _⟩ | ⟨rfl, _⟩ <;> rfl
      simp [fields_cons, acceptsAll, hmo]


/-- the table check of a group of mnemonics -/
noncomputable def goodAll (ms : List Mn) : Bool :=
  ms.all fun m => match lookup m with | some h => Good m h | none => false

theorem goodAll_mem (ms : List Mn) (h : goodAll ms = true) (m : Mn) (hm : m ∈ ms) : ∃ hd, lookup m = some hd ∧ Good m hd = true := by
  have := List.all_eq_true.mp h m hm
  cases hl : lookup m with
  | none => simp [hl] at this
  | some hd => exact ⟨hd, rfl, by simpa [hl] using this⟩

end AslModel.Isa.IAvr
