import AslModel.Model.DataExt
import AslModel.Lemmas.Data
/-! Helper lemmas for the C09 extension (`Props/C09_Ext.lean`): `tCurrCodeFill` arithmetic, reservation
forms on packed segments, strings under a character map. -/
namespace AslModel.DataXLemmas
open AslModel.PFile (Byte b)
open AslModel.Data AslModel.DataModel AslModel.DataX AslModel.DataXModel

/-- number of base elements a fill pointer stands for -/
def mu (k : Nat) (f : Fill) : Int := f.fw * k + f.lw

theorem sub_spec (k : Nat) (a bb : Fill) (ha : 0 ≤ a.lw ∧ a.lw < k) (hb : 0 ≤ bb.lw ∧ bb.lw < k) :
    0 ≤ (subCodeFill k a bb).lw ∧ (subCodeFill k a bb).lw < k ∧ mu k (subCodeFill k a bb) = mu k a - mu k bb := by
  unfold subCodeFill mu
  by_cases h : a.lw - bb.lw < 0
  · simp only [h, if_true]
    refine ⟨by omega, by omega, ?_⟩
    grind
  · simp only [h, if_false]
    refine ⟨by omega, by omega, ?_⟩
    grind

theorem mult_spec (k : Nat) (hk : 1 < k) (bb : Fill) (m : Nat) :
    0 ≤ (multCodeFill k bb m).lw ∧ (multCodeFill k bb m).lw < k ∧ mu k (multCodeFill k bb m) = mu k bb * m := by
  unfold multCodeFill mu
  simp only [hk, if_true]
  have hk0 : (0 : Int) < k := by omega
  have h1 := Int.emod_nonneg (bb.lw * m) (Int.ne_of_gt hk0)
  have h2 := Int.emod_lt_of_pos (bb.lw * m) hk0
  have h3 := Int.mul_ediv_add_emod (bb.lw * m) k
  refine ⟨h1, h2, ?_⟩
  grind

theorem inc_spec (k : Nat) (hk : 1 < k) (a inc : Fill) (ha : 0 ≤ a.lw ∧ a.lw < k) (hi : 0 ≤ inc.lw ∧ inc.lw < k) :
    0 ≤ (incCodeFillBy k a inc).lw ∧ (incCodeFillBy k a inc).lw < k ∧ mu k (incCodeFillBy k a inc) = mu k a + mu k inc := by
  unfold incCodeFillBy mu
  by_cases h : a.lw + inc.lw ≥ k
  · simp only [hk, h, and_self, if_true]
    refine ⟨by omega, by omega, ?_⟩
    grind
  · simp only [h, and_false, if_false]
    refine ⟨by omega, by omega, ?_⟩
    grind

theorem fw_nonneg (k : Nat) (hk : 0 < k) (f : Fill) (h0 : 0 ≤ mu k f) (hl : f.lw < k) : 0 ≤ f.fw := by
  unfold mu at h0
  apply Int.not_lt.mp
  intro hneg
  have h1 : f.fw ≤ -1 := by omega
  have h2 := Int.mul_le_mul_of_nonneg_right h1 (show (0 : Int) ≤ k by omega)
  omega

/-- `st'` is `st` advanced by `e` base elements in reservation mode, memory untouched -/
structure Adv (k : Nat) (st st' : XSt) (e : Nat) : Prop where
  mu : st'.fw * k + st'.lw = st.fw * k + st.lw + e
  lw : st'.lw < k
  ds : st'.ds = .space
  mem : st'.mem = st.mem

theorem mu_fill (k : Nat) (st : XSt) : mu k st.fill = ((st.fw * k + st.lw : Nat) : Int) := by
  simp [mu, XSt.fill]

/-- writing a normalised fill pointer back -/
theorem withFill_adv (k : Nat) (hk : 0 < k) (st s : XSt) (f : Fill) (e : Nat)
    (hlw : 0 ≤ f.lw ∧ f.lw < k) (hmu : mu k f = ((st.fw * k + st.lw + e : Nat) : Int))
    (hds : s.ds = .space) (hmem : s.mem = st.mem) : Adv k st (s.withFill f) e := by
  have hfw := fw_nonneg k hk f (by rw [hmu]; omega) hlw.2
  unfold mu at hmu
  obtain ⟨fw, lw⟩ := f
  simp only at hlw hfw hmu
  obtain ⟨fwn, rfl⟩ := Int.eq_ofNat_of_zero_le hfw
  obtain ⟨lwn, rfl⟩ := Int.eq_ofNat_of_zero_le hlw.1
  refine ⟨?_, ?_, hds, hmem⟩
  · simp only [XSt.withFill, Int.toNat_natCast]
    exact_mod_cast hmu
  · simp only [XSt.withFill, Int.toNat_natCast]
    omega

theorem q_step (c : MCfg) (p : XP) (cx : XCtx) (t : List Byte) (st : XSt)
    (hk : 1 < cx.k) (hlw : st.lw < cx.k) (hds : st.ds ≠ .const) :
    ∃ st', layoutMultX c p cx t .q st = .ok st' ∧ Adv cx.k st st' 1 := by
  unfold layoutMultX
  have hset : setDSX st .space = some { st with ds := .space } := by
    unfold setDSX
    cases h : st.ds <;> simp_all
  simp only [hset]
  refine ⟨_, rfl, ?_⟩
  have hinc : fillIncPerElem cx = ⟨0, 1⟩ := by simp [fillIncPerElem, hk]
  rw [hinc]
  have h := inc_spec cx.k hk (XSt.fill { st with ds := .space }) ⟨0, 1⟩
    (by simp [XSt.fill, hlw]) (by simp; omega)
  apply withFill_adv cx.k (by omega) st _ _ 1 ⟨h.1, h.2.1⟩
  · rw [h.2.2, mu_fill]; simp [mu]
  · rfl
  · rfl

theorem dup_step (c : MCfg) (p : XP) (cx : XCtx) (t : List Byte) (n : Int) (as : XArgs) (st st' : XSt) (d : Nat)
    (hk : 1 < cx.k) (hn : 1 ≤ n) (hlw : st.lw < cx.k)
    (hrun : layoutMultLX c p cx t as st = .ok st') (hadv : Adv cx.k st st' d) :
    ∃ st'', layoutMultX c p cx t (.dup n as) st = .ok st'' ∧ Adv cx.k st st'' (n.toNat * d) := by
  unfold layoutMultX
  have h0 : ¬ (n ≤ 0) := by omega
  simp only [h0, if_false, hrun, hadv.ds]
  refine ⟨_, rfl, ?_⟩
  obtain ⟨m, hm⟩ : ∃ m, n.toNat = m + 1 := ⟨n.toNat - 1, by omega⟩
  have hm' : n.toNat - 1 = m := by omega
  rw [hm']
  have hs := sub_spec cx.k st'.fill st.fill (by simp [XSt.fill, hadv.lw]) (by simp [XSt.fill, hlw])
  have hmul := mult_spec cx.k hk (subCodeFill cx.k st'.fill st.fill) m
  have hinc := inc_spec cx.k hk st'.fill (multCodeFill cx.k (subCodeFill cx.k st'.fill st.fill) m)
    (by simp [XSt.fill, hadv.lw]) ⟨hmul.1, hmul.2.1⟩
  apply withFill_adv cx.k (by omega) st st' _ _ ⟨hinc.1, hinc.2.1⟩
  · rw [hinc.2.2, hmul.2.2, hs.2.2, mu_fill, mu_fill, hadv.mu, hm]
    push_cast
    grind
  · exact hadv.ds
  · exact hadv.mem

theorem adv_trans (k : Nat) (a bb cc : XSt) (e1 e2 : Nat) (h1 : Adv k a bb e1) (h2 : Adv k bb cc e2) : Adv k a cc (e1 + e2) :=
  ⟨by rw [h2.mu, h1.mu]; omega, h2.lw, h2.ds, by rw [h2.mem, h1.mem]⟩

theorem cons_run (c : MCfg) (p : XP) (cx : XCtx) (t : List Byte) (a : XArg) (as : XArgs) (st st1 : XSt)
    (h1 : layoutMultX c p cx t a st = .ok st1) :
    layoutMultLX c p cx t (.cons a as) st = layoutMultLX c p cx t as st1 := by
  rw [layoutMultLX.eq_def]
  simp only [h1]

theorem nil_run (c : MCfg) (p : XP) (cx : XCtx) (t : List Byte) (st : XSt) :
    layoutMultLX c p cx t .nil st = .ok st := by
  rw [layoutMultLX.eq_def]

/-- `?, ?, …, ?` (`a + 1` times) -/
def qs : Nat → XArgs
  | 0 => .cons .q .nil
  | a + 1 => .cons .q (qs a)

theorem qs_run (c : MCfg) (p : XP) (cx : XCtx) (t : List Byte) (hk : 1 < cx.k) (a : Nat) (st : XSt)
    (hlw : st.lw < cx.k) (hds : st.ds ≠ .const) :
    ∃ st', layoutMultLX c p cx t (qs a) st = .ok st' ∧ Adv cx.k st st' (a + 1) := by
  induction a generalizing st with
  | zero =>
    obtain ⟨st1, h1, hadv⟩ := q_step c p cx t st hk hlw hds
    exact ⟨st1, by rw [qs, cons_run c p cx t _ _ st st1 h1, nil_run], hadv⟩
  | succ j ih =>
    obtain ⟨st1, h1, hadv⟩ := q_step c p cx t st hk hlw hds
    obtain ⟨st2, h2, hadv2⟩ := ih st1 hadv.lw (by rw [hadv.ds]; decide)
    refine ⟨st2, by rw [qs, cons_run c p cx t _ _ st st1 h1, h2], ?_⟩
    have := adv_trans cx.k st st1 st2 1 (j + 1) hadv hadv2
    rwa [Nat.add_comm 1 (j + 1)] at this

theorem ceil_units (k fw lw : Nat) (hk : 0 < k) (hl : lw < k) :
    ceilDiv (fw * k + lw) k = if lw ≠ 0 then fw + 1 else fw := by
  unfold ceilDiv
  by_cases h : lw = 0
  · simp only [h, ne_eq, not_true_eq_false, if_false]
    apply Nat.div_eq_of_lt_le
    · omega
    · rw [Nat.add_mul]; omega
  · simp only [ne_eq, h, not_false_eq_true, if_true]
    apply Nat.div_eq_of_lt_le
    · rw [Nat.add_mul]; omega
    · rw [Nat.add_mul, Nat.add_mul]; omega

/-- `DecodeIntelDx` after a pure reservation of `e` elements: `ceil(e / k)` address units -/
theorem reserve_stmt (c : MCfg) (p : XP) (g bits : Nat) (t : List Byte) (as : XArgs) (st' : XSt) (e : Nat)
    (hk : 1 < 8 * g / bits) (he : 0 < e)
    (hrun : layoutMultLX c p ⟨g, bits, loHiMapOf bits g c.ibig⟩ t as {} = .ok st')
    (hadv : Adv (8 * g / bits) {} st' e) :
    decodeIntelDxX c p g bits t as = .ok ⟨none, .space (ceilDiv e (8 * g / bits)), []⟩ := by
  unfold decodeIntelDxX
  simp only [hrun, hadv.ds]
  have hmu : st'.fw * (8 * g / bits) + st'.lw = e := by simpa using hadv.mu
  have hc := ceil_units (8 * g / bits) st'.fw st'.lw (by omega) hadv.lw
  rw [hmu] at hc
  rw [hc]
  by_cases h : st'.lw = 0
  · have : st'.fw ≠ 0 := by
      intro h0
      rw [h0, h] at hmu
      omega
    simp [h, this]
  · simp [h]

/-- `a` times `?` in front of an argument list -/
def prefixQ : Nat → XArgs → XArgs
  | 0, tl => tl
  | a + 1, tl => .cons .q (prefixQ a tl)

/-- `?, …, ? (a times), n DUP (?, …, ? (b + 1 times))` -/
def family (a : Nat) (n : Int) (bb : Nat) : XArgs := prefixQ a (.cons (.dup n (qs bb)) .nil)

theorem family_run (c : MCfg) (p : XP) (cx : XCtx) (t : List Byte) (hk : 1 < cx.k) (n : Int) (hn : 1 ≤ n) (bb : Nat)
    (a : Nat) (st : XSt) (hlw : st.lw < cx.k) (hds : st.ds ≠ .const) :
    ∃ st', layoutMultLX c p cx t (family a n bb) st = .ok st' ∧ Adv cx.k st st' (a + n.toNat * (bb + 1)) := by
  induction a generalizing st with
  | zero =>
    obtain ⟨st1, h1, hadv1⟩ := qs_run c p cx t hk bb st hlw hds
    obtain ⟨st2, h2, hadv2⟩ := dup_step c p cx t n (qs bb) st st1 (bb + 1) hk hn hlw h1 hadv1
    refine ⟨st2, ?_, by simpa using hadv2⟩
    rw [family, prefixQ, cons_run c p cx t _ _ st st2 h2, nil_run]
  | succ j ih =>
    obtain ⟨st1, h1, hadv1⟩ := q_step c p cx t st hk hlw hds
    obtain ⟨st2, h2, hadv2⟩ := ih st1 hadv1.lw (by rw [hadv1.ds]; decide)
    refine ⟨st2, ?_, ?_⟩
    · rw [family, prefixQ, cons_run c p cx t _ _ st st1 h1]
      exact h2
    · have := adv_trans cx.k st st1 st2 1 _ hadv1 hadv2
      have he : 1 + (j + n.toNat * (bb + 1)) = j + 1 + n.toNat * (bb + 1) := by omega
      rwa [he] at this

theorem reserve_family (c : MCfg) (p : XP) (g bits : Nat) (t : List Byte) (hk : 1 < 8 * g / bits)
    (a : Nat) (n : Int) (hn : 1 ≤ n) (bb : Nat) :
    decodeIntelDxX c p g bits t (family a n bb) =
      .ok ⟨none, .space (ceilDiv (a + n.toNat * (bb + 1)) (8 * g / bits)), []⟩ := by
  obtain ⟨st', hrun, hadv⟩ := family_run c p ⟨g, bits, loHiMapOf bits g c.ibig⟩ t hk n hn bb a {} (by show 0 < 8 * g / bits; omega) (by decide)
  have hpos : 0 < a + n.toNat * (bb + 1) := by
    have : 1 ≤ n.toNat := by omega
    have := Nat.mul_le_mul this (show 1 ≤ bb + 1 by omega)
    omega
  exact reserve_stmt c p g bits t _ st' _ hk hpos hrun hadv


/-! ### the same family under the specification -/

theorem spec_qs (m : CharMap) (o : Nat) (e : Elem) (big : Bool) (a : Nat) :
    specArgs e big (lowerArgs m o (qs a)) = some (.space ((a + 1) * e.bytes)) := by
  induction a with
  | zero => simp [qs, lowerArgs, lowerArg, specArgs, specArg, Out.add]
  | succ j ih =>
    rw [qs, lowerArgs, lowerArg, specArgs, ih]
    simp only [specArg, Out.add]
    congr 2
    rw [Nat.add_mul (j + 1) 1]; omega

theorem spec_family (m : CharMap) (o : Nat) (e : Elem) (big : Bool) (n : Int) (hn : 1 ≤ n) (bb a : Nat) :
    specArgs e big (lowerArgs m o (family a n bb)) = some (.space ((a + n.toNat * (bb + 1)) * e.bytes)) := by
  have h0 : ¬ (n ≤ 0) := by omega
  induction a with
  | zero =>
    simp only [family, prefixQ, lowerArgs, lowerArg, specArgs, specArg, h0, if_false, spec_qs, Option.map_some, Out.times, Out.add]
    congr 2
    rw [Nat.zero_add, Nat.mul_assoc]
  | succ j ih =>
    rw [family, prefixQ, lowerArgs, lowerArg, specArgs]
    rw [family] at ih
    rw [ih]
    simp only [specArg, Out.add]
    congr 2
    rw [Nat.add_mul, Nat.add_mul, Nat.add_mul]; omega

theorem nib_qs (m : CharMap) (a : Nat) : specNibArgs (lowerArgs m 0 (qs a)) = some (.space (a + 1)) := by
  induction a with
  | zero => simp [qs, lowerArgs, lowerArg, specNibArgs, specNibArg, Out.add]
  | succ j ih =>
    rw [qs, lowerArgs, lowerArg, specNibArgs, ih]
    simp only [specNibArg, Out.add]
    congr 2
    omega

theorem nib_family (m : CharMap) (n : Int) (hn : 1 ≤ n) (bb a : Nat) :
    specNibArgs (lowerArgs m 0 (family a n bb)) = some (.space (a + n.toNat * (bb + 1))) := by
  have h0 : ¬ (n ≤ 0) := by omega
  induction a with
  | zero =>
    simp only [family, prefixQ, lowerArgs, lowerArg, specNibArgs, specNibArg, h0, if_false, nib_qs, Option.map_some, Out.times, Out.add]
    congr 2
    omega
  | succ j ih =>
    rw [family, prefixQ, lowerArgs, lowerArg, specNibArgs]
    rw [family] at ih
    rw [ih]
    simp only [specNibArg, Out.add]
    congr 2
    omega


theorem b_of_toNat (x : Byte) : b x.toNat = x := by
  unfold AslModel.PFile.b
  have : x.toNat % 256 = x.toNat := Nat.mod_eq_of_lt x.toNat_lt
  rw [this]
  exact UInt8.ofNat_toNat

theorem foldl_putByte (c : MCfg) (hlg : c.lg = 1) (sv : List Byte) (bf : List Byte) :
    sv.foldl (fun bf ch => putByte c bf ch.toNat) bf = bf ++ sv := by
  induction sv generalizing bf with
  | nil => simp
  | cons x xs ih =>
    simp only [List.foldl_cons]
    rw [ih]
    simp [putByte, hlg, b_of_toNat]

theorem iterate_append {α : Type} (sv : List α) (n : Nat) (bf : List α) :
    iterate (fun bf => bf ++ sv) n bf = bf ++ (List.replicate n sv).flatten := by
  induction n generalizing bf with
  | zero => simp [iterate]
  | succ j ih =>
    rw [iterate, ih, List.replicate_succ, List.flatten_cons, List.append_assoc]

/-- FCC `[n]"string"`: `n` identical copies of the string translated once -/
theorem fcc_rep (c : MCfg) (p : XP) (t : List Byte) (hlg : c.lg = 1) (st : MSt) (n : Nat) (cs : List Byte) :
    moto8ArgX c p t false true st (.rep n (.str cs)) =
      some { st with buf := st.buf ++ (List.replicate n (translateString t cs)).flatten } := by
  unfold moto8ArgX
  simp only [cutRepX, Int.toNat_natCast]
  have hf : (fun bf => (translateString t cs).foldl (fun bf ch => putByte c bf ch.toNat) bf) = fun bf => bf ++ translateString t cs := by
    funext bf
    exact foldl_putByte c hlg _ bf
  simp [hf, iterate_append]

theorem specChars_byte (big : Bool) (cs : List Byte) : specChars elemByte big cs = some cs := by
  induction cs with
  | nil => rfl
  | cons x xs ih =>
    have hx : specInt elemByte big x.toNat = some [x] := by
      have hlt := x.toNat_lt
      have hr : inRange 8 (x.toNat : Int) = true := by
        unfold inRange
        simp only [decide_eq_true_eq]
        constructor <;> omega
      have ht : twos 8 (x.toNat : Int) = x.toNat := by
        unfold twos
        have : ((x.toNat : Int) % (2 : Int) ^ 8) = (x.toNat : Int) := Int.emod_eq_of_lt (by omega) (by omega)
        rw [this]; simp
      simp only [specInt, elemByte, if_true, encInt, hr, ht]
      cases big <;> simp [encNat, encLE, b_of_toNat]
    simp only [specChars, hx, ih]
    rfl

/-- the specification of the same statement: `n` copies of the translated string -/
theorem fcc_rep_spec (g : Nat) (big pad : Bool) (m : CharMap) (pc : Nat) (n : Nat) (cs : List Byte) :
    specStmtX ⟨g, big, pad, m⟩ pc (.fcc (.cons (.rep n (.str cs)) .nil)) =
      some (0, .data (List.replicate n (cs.map m.ap)).flatten) := by
  simp [specStmtX, lowerArgs, lowerArg, specStmt, onlyStringsL, onlyStrings, specArgs, specArg, specChars_byte, Out.times, Out.add]

theorem ctt_eq_ap (t : List Byte) (hl : t.length = 256) (ch : Byte) : ctt t ch = CharMap.ap t ch := by
  unfold ctt CharMap.ap
  have : ch.toNat < t.length := by rw [hl]; exact ch.toNat_lt
  simp [List.getD_eq_getElem?_getD, List.getElem?_eq_getElem this]

theorem translate_eq_map (t : List Byte) (hl : t.length = 256) (cs : List Byte) :
    translateString t cs = cs.map (CharMap.ap t) := by
  unfold translateString
  apply List.map_congr_left
  intro ch _
  exact ctt_eq_ap t hl ch

theorem fcc_stmt (c : MCfg) (p : XP) (t : List Byte) (hlg : c.lg = 1) (hl : t.length = 256) (n : Nat) (cs : List Byte)
    (hn : 0 < n) (hcs : cs ≠ []) :
    decodeMoto8X c p t false true (.cons (.rep n (.str cs)) .nil) =
      some ⟨none, .data (List.replicate n (cs.map (CharMap.ap t))).flatten, []⟩ := by
  unfold decodeMoto8X
  have h : moto8ArgsX c p t false true (.cons (.rep n (.str cs)) .nil) {} =
      some { ({} : MSt) with buf := ([] : List Byte) ++ (List.replicate n (translateString t cs)).flatten } := by
    simp only [moto8ArgsX, fcc_rep c p t hlg]
  rw [h]
  simp only [translate_eq_map t hl]
  have hw : ∀ l, writeBytes c l = l := by intro l; simp [writeBytes, hlg]
  have hne : (List.replicate n (cs.map (CharMap.ap t))).flatten ≠ [] := by
    obtain ⟨j, rfl⟩ : ∃ j, n = j + 1 := ⟨n - 1, by omega⟩
    cases cs with
    | nil => exact absurd rfl hcs
    | cons x xs => simp [List.replicate_succ]
  simp [mkOut, hw, hne]

end AslModel.DataXLemmas
