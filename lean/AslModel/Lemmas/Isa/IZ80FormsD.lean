import AslModel.Lemmas.Isa.IZ80Sound
/-! Lemmas for C14 / Z80, part 6d: soundness of the lines of the instruction tables that have a numeric operand class
(one theorem per line; `z80_form1` / `z80_form2` enumerate the registers of the line and prove each instance for all values). -/
namespace AslModel.Isa.IZ80
open AslModel.PFile (Byte b b_toNat)
open AslModel.Spec.IZ80
open AslModel.Generated.IsaZ80

set_option maxHeartbeats 1600000

theorem fs_XOR_m : FormSound (f1 .XOR .m) := by z80_form1
theorem fs_XOR_n : FormSound (f1 .XOR .n) := by z80_form1
theorem fs_XOR_A_m_dropA : FormSound (f2dropA .XOR .m) := by z80_form2
theorem fs_XOR_A_n_dropA : FormSound (f2dropA .XOR .n) := by z80_form2
theorem fs_CP_m : FormSound (f1 .CP .m) := by z80_form1
theorem fs_CP_n : FormSound (f1 .CP .n) := by z80_form1
theorem fs_CP_A_m_dropA : FormSound (f2dropA .CP .m) := by z80_form2
theorem fs_CP_A_n_dropA : FormSound (f2dropA .CP .n) := by z80_form2
theorem fs_INC_m : FormSound (f1 .INC .m) := by z80_form1
theorem fs_DEC_m : FormSound (f1 .DEC .m) := by z80_form1
theorem fs_RLC_m : FormSound (f1 .RLC .m) := by z80_form1
theorem fs_RL_m : FormSound (f1 .RL .m) := by z80_form1
theorem fs_RRC_m : FormSound (f1 .RRC .m) := by z80_form1
theorem fs_RR_m : FormSound (f1 .RR .m) := by z80_form1
theorem fs_SLA_m : FormSound (f1 .SLA .m) := by z80_form1
theorem fs_SRA_m : FormSound (f1 .SRA .m) := by z80_form1
theorem fs_SRL_m : FormSound (f1 .SRL .m) := by z80_form1
theorem fs_JP_adr : FormSound (f1 .JP .adr) := by z80_form1
theorem fs_JP_cc_adr : FormSound (f2 .JP .cc .adr) := by z80_form2
theorem fs_CALL_adr : FormSound (f1 .CALL .adr) := by z80_form1
theorem fs_CALL_cc_adr : FormSound (f2 .CALL .cc .adr) := by z80_form2
theorem fs_IN_A_port : FormSound (f2 .IN .A .port) := by z80_form2
theorem fs_OUT_port_A : FormSound (f2 .OUT .port .A) := by z80_form2

end AslModel.Isa.IZ80
