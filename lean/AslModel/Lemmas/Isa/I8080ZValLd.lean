import AslModel.Lemmas.Isa.I8080Z
/-!
C14 / 8080 + 8085, Z80-style syntax: `LD` statements with a number `n` or an address `(nn)` among the operands - the other
operand enumerated over `finOpds`, the value symbolic.
-/
set_option linter.unusedSimpArgs false
namespace AslModel.Isa.I8080Z
open AslModel.PFile (Byte b b_toNat)
open AslModel.Spec.I8080Z AslModel.Generated.Isa8080Z

set_option maxHeartbeats 4000000 in
theorem ld_imm_first (excl : Bool) (cpu : Nat) (v : Int) (o2 : Opd) :
    okBytes (encode excl cpu ⟨.LD, [.imm v, o2]⟩) = viaIntel excl cpu ⟨.LD, [.imm v, o2]⟩ := by
  zsimp

set_option maxHeartbeats 4000000 in
theorem ld_fin_imm (excl : Bool) (cpu : Nat) (o1 : Opd) (v : Int) (h1 : o1 ∈ finOpds) (hc : nameCM o1 = false) :
    okBytes (encode excl cpu ⟨.LD, [o1, .imm v]⟩) = viaIntel excl cpu ⟨.LD, [o1, .imm v]⟩ := by
  fin_cases_opd h1 <;> zsimp at hc ⊢
  zfin cpu

set_option maxHeartbeats 4000000 in
theorem ld_fin_abs (excl : Bool) (cpu : Nat) (o1 : Opd) (a : Int) (h1 : o1 ∈ finOpds) (hc : nameCM o1 = false) :
    okBytes (encode excl cpu ⟨.LD, [o1, .abs a]⟩) = viaIntel excl cpu ⟨.LD, [o1, .abs a]⟩ := by
  fin_cases_opd h1 <;> zsimp at hc ⊢
  zfin cpu

set_option maxHeartbeats 4000000 in
theorem ld_abs_fin (excl : Bool) (cpu : Nat) (o2 : Opd) (a : Int) (h2 : o2 ∈ finOpds) (hc : nameCM o2 = false) :
    okBytes (encode excl cpu ⟨.LD, [.abs a, o2]⟩) = viaIntel excl cpu ⟨.LD, [.abs a, o2]⟩ := by
  fin_cases_opd h2 <;> zsimp at hc ⊢
  zfin cpu

set_option maxHeartbeats 4000000 in
theorem ld_abs_val (excl : Bool) (cpu : Nat) (o2 : Opd) (a : Int) (h2 : isV o2 = true) :
    okBytes (encode excl cpu ⟨.LD, [.abs a, o2]⟩) = viaIntel excl cpu ⟨.LD, [.abs a, o2]⟩ := by
  cases o2 <;> simp [isV, isAbs, isImm] at h2 <;> zsimp

end AslModel.Isa.I8080Z
