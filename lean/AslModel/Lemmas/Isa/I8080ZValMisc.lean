import AslModel.Lemmas.Isa.I8080Z
/-!
C14 / 8080 + 8085, Z80-style syntax: `JP CALL IN OUT` with two operands and all one-operand statements, where a number `n` or
an address `(nn)` is among the operands.
-/
set_option linter.unusedSimpArgs false
namespace AslModel.Isa.I8080Z
open AslModel.PFile (Byte b b_toNat)
open AslModel.Spec.I8080Z AslModel.Generated.Isa8080Z

set_option maxHeartbeats 4000000 in
theorem jp_fin_val (excl : Bool) (cpu : Nat) (o1 o2 : Opd) (h1 : o1 ∈ finOpds) (h2 : isV o2 = true)
    (hc : regCM o1 = false) :
    okBytes (encode excl cpu ⟨.JP, [o1, o2]⟩) = viaIntel excl cpu ⟨.JP, [o1, o2]⟩ := by
  cases o2 <;> simp [isV, isAbs, isImm] at h2 <;> fin_cases_opd h1 <;> zsimp at hc ⊢
  zfin cpu

set_option maxHeartbeats 4000000 in
theorem call_fin_val (excl : Bool) (cpu : Nat) (o1 o2 : Opd) (h1 : o1 ∈ finOpds) (h2 : isV o2 = true)
    (hc : regCM o1 = false) :
    okBytes (encode excl cpu ⟨.CALL, [o1, o2]⟩) = viaIntel excl cpu ⟨.CALL, [o1, o2]⟩ := by
  cases o2 <;> simp [isV, isAbs, isImm] at h2 <;> fin_cases_opd h1 <;> zsimp at hc ⊢
  zfin cpu

set_option maxHeartbeats 4000000 in
/-- a number or an address where the condition stands: refused whatever follows -/
theorem jp_call_val_first (excl : Bool) (cpu : Nat) (m : Mn) (o1 o2 : Opd) (hm : m ∈ [Mn.JP, .CALL]) (h1 : isV o1 = true) :
    okBytes (encode excl cpu ⟨m, [o1, o2]⟩) = viaIntel excl cpu ⟨m, [o1, o2]⟩ := by
  simp only [List.mem_cons, List.not_mem_nil, or_false] at hm
  cases o1 <;> simp [isV, isAbs, isImm] at h1 <;> rcases hm with rfl | rfl <;> zsimp
  zfin cpu

set_option maxHeartbeats 4000000 in
theorem in_fin_abs (excl : Bool) (cpu : Nat) (o1 : Opd) (n : Int) (h1 : o1 ∈ finOpds) :
    okBytes (encode excl cpu ⟨.IN, [o1, .abs n]⟩) = viaIntel excl cpu ⟨.IN, [o1, .abs n]⟩ := by
  fin_cases_opd h1 <;> zsimp
  zfin cpu

set_option maxHeartbeats 4000000 in
theorem in_val_first (excl : Bool) (cpu : Nat) (o1 o2 : Opd) (h1 : isV o1 = true) (h2 : o2 ∈ finOpds ∨ isV o2 = true)
    (hc : isImm o2 = false) :
    okBytes (encode excl cpu ⟨.IN, [o1, o2]⟩) = viaIntel excl cpu ⟨.IN, [o1, o2]⟩ := by
  rcases h2 with h2 | h2
  · cases o1 <;> simp [isV, isAbs, isImm] at h1 <;> fin_cases_opd h2 <;> zsimp
    zfin cpu
  · cases o1 <;> cases o2 <;> simp [isV, isAbs, isImm] at h1 h2 hc <;> zsimp
    zfin cpu

set_option maxHeartbeats 4000000 in
theorem out_abs_fin (excl : Bool) (cpu : Nat) (o2 : Opd) (n : Int) (h2 : o2 ∈ finOpds) :
    okBytes (encode excl cpu ⟨.OUT, [.abs n, o2]⟩) = viaIntel excl cpu ⟨.OUT, [.abs n, o2]⟩ := by
  fin_cases_opd h2 <;> zsimp
  zfin cpu

set_option maxHeartbeats 4000000 in
theorem out_val_second (excl : Bool) (cpu : Nat) (o1 o2 : Opd) (h2 : isV o2 = true) (h1 : o1 ∈ finOpds ∨ isV o1 = true)
    (hc : isImm o1 = false) :
    okBytes (encode excl cpu ⟨.OUT, [o1, o2]⟩) = viaIntel excl cpu ⟨.OUT, [o1, o2]⟩ := by
  rcases h1 with h1 | h1
  · cases o2 <;> simp [isV, isAbs, isImm] at h2 <;> fin_cases_opd h1 <;> zsimp
    zfin cpu
  · cases o1 <;> cases o2 <;> simp [isV, isAbs, isImm] at h1 h2 hc <;> zsimp
    zfin cpu

/-- the mnemonics that are not `AddFixed` entries, without `RST` -/
def opMns : List Mn := [.LD, .PUSH, .POP, .EX, .ADD, .ADC, .SUB, .SBC, .AND, .XOR, .OR, .CP, .INC, .DEC, .JP, .CALL, .RET, .IN, .OUT]

set_option maxHeartbeats 4000000 in
/-- one operand, a number or an address -/
theorem one_val (excl : Bool) (cpu : Nat) (m : Mn) (o : Opd) (hm : m ∈ opMns) (h : isV o = true)
    (hc : canonical excl ⟨m, [o]⟩ = true) :
    okBytes (encode excl cpu ⟨m, [o]⟩) = viaIntel excl cpu ⟨m, [o]⟩ := by
  simp only [opMns, List.mem_cons, List.not_mem_nil, or_false] at hm
  cases excl <;> cases o <;> simp [isV, isAbs, isImm] at h <;>
    rcases hm with rfl | rfl | rfl | rfl | rfl | rfl | rfl | rfl | rfl | rfl | rfl | rfl | rfl | rfl | rfl | rfl | rfl | rfl | rfl <;>
    zsimp at hc ⊢
  zfin cpu

set_option maxHeartbeats 4000000 in
/-- `RST` with an address in parentheses is outside `canonical`; with a number outside `0..63` it is refused -/
theorem rst_val_out (excl : Bool) (cpu : Nat) (v : Int) (hv : ¬ (0 ≤ v ∧ v ≤ 63)) :
    okBytes (encode excl cpu ⟨.RST, [.imm v]⟩) = viaIntel excl cpu ⟨.RST, [.imm v]⟩ := by
  have h1 : ¬ (0 ≤ v ∧ v < 8) := by omega
  have h2 : ¬ (0 ≤ v ∧ v ≤ 56 ∧ v % 8 = 0) := by omega
  cases excl <;> zsimpw [hv, h1, h2]

end AslModel.Isa.I8080Z
