import AslModel.Lemmas.Isa.Common
import AslModel.Model.Isa.I4004
/-! Lemmas for C14 / 4004: table facts (decided over the whole regenerated `InstTable`) and the
arithmetic of each decode handler against the SPEC decoder. -/
namespace AslModel.Isa.I4004
open AslModel.PFile (Byte b b_toNat)
open AslModel.Spec.I4004
open AslModel.Generated.Isa4004
open AslModel.Generated (itUInt4 itUInt12 itInt8)

theorem mem_all (m : Mn) : m ∈ Mn.all := by cases m <;> decide

def one (m : Mn) (args : List Nat) : Option (Instr × Nat) := some (⟨m, args⟩, 1)

/-- what the SPEC demands of one `InstTable` entry: operand form, CPU, and - for the one-byte
forms - the SPEC decoder's verdict on *every* opcode byte the handler can produce -/
def Good (m : Mn) : Handler → Bool
  | .fixed code mc =>
      form m == .none && hi (packFixed code mc) == minCpu m &&
      decode (minCpu m) 0 [b (lo (packFixed code mc))] == one (canon m) []
  | .oneReg code => form m == .reg && minCpu m == 0 &&
      (List.range 16).all fun r => decode 0 0 [b (lo code + r)] == one (canon m) [r]
  | .accReg code => form m == .reg && minCpu m == 0 &&
      (List.range 16).all fun r => decode 0 0 [b (lo code + r)] == one (canon m) [r]
  | .oneRReg code => form m == .pair && minCpu m == 0 &&
      (List.range 8).all fun p => decode 0 0 [b (lo code + 2 * p)] == one (canon m) [p]
  | .imm4 code => form m == .data4 && minCpu m == 0 &&
      (List.range 16).all fun d => decode 0 0 [b (d + lo code)] == one (canon m) [d]
  | .jcn _ => form m == .condAddr && minCpu m == 0 && canon m == .JCN
  | .fullJmp idx => form m == .addr12 && minCpu m == 0 &&
      ((idx == 0 && canon m == .JUN) || (idx == 1 && canon m == .JMS))
  | .isz _ => form m == .regAddr && minCpu m == 0 && canon m == .ISZ
  | .fim _ => form m == .pairData && minCpu m == 0 && canon m == .FIM

/-- **table obligation**: every mnemonic of the SPEC is in the regenerated `InstTable` with a
handler of the right kind and opcode -/
theorem table_good : Mn.all.all (fun m => match lookup m with | some h => Good m h | none => false) = true := by
  decide +kernel

theorem lookup_good (m : Mn) : ∃ h, lookup m = some h ∧ Good m h = true := by
  have := List.all_eq_true.mp table_good m (mem_all m)
  cases hl : lookup m with
  | none => simp [hl] at this
  | some h => exact ⟨h, rfl, by simpa [hl] using this⟩

/-- one-byte instructions: what the 4004 decodes the 4040 decodes too, at any address -/
theorem decode_one_mono (x : Byte) (r : Option (Instr × Nat)) (c0 cpu pc : Nat) (hc : c0 ≤ cpu)
    (h : decode c0 0 [x] = r) (hr : r.isSome) : decode cpu pc [x] = r := by
  subst h
  unfold decode at hr ⊢
  simp only at hr ⊢
  split <;> simp_all <;> (try split) <;> simp_all <;> (try omega)
  all_goals (split at hr <;> simp_all <;> omega)

end AslModel.Isa.I4004

namespace AslModel.Isa.I4004
open AslModel.PFile (Byte b b_toNat)
open AslModel.Spec.I4004
open AslModel.Generated.Isa4004
open AslModel.Generated (itUInt4 itUInt12 itInt8)

theorem evalU4 (v : Int) :
    (0 ≤ v ∧ v ≤ 15 → evalInt itUInt4 v = .ok v) ∧ (¬ (0 ≤ v ∧ v ≤ 15) → evalInt itUInt4 v = .error .overRange) :=
  evalInt_ok itUInt4 0 15 rangeCheck_UInt4 v
theorem evalU12 (v : Int) :
    (0 ≤ v ∧ v ≤ 4095 → evalInt itUInt12 v = .ok v) ∧ (¬ (0 ≤ v ∧ v ≤ 4095) → evalInt itUInt12 v = .error .overRange) :=
  evalInt_ok itUInt12 0 4095 rangeCheck_UInt12 v
theorem evalI8 (v : Int) :
    (-128 ≤ v ∧ v ≤ 255 → evalInt itInt8 v = .ok v) ∧ (¬ (-128 ≤ v ∧ v ≤ 255) → evalInt itInt8 v = .error .overRange) :=
  evalInt_ok itInt8 (-128) 255 rangeCheck_Int8 v

theorem meaning_plain (s : Src) (h : form s.mn ≠ .pairData) : meaning s = ⟨canon s.mn, s.args.map Int.toNat⟩ := by
  unfold meaning
  split
  · rename_i h1 _; exact absurd h1 h
  · rfl

/-! ### one-byte handlers -/

theorem reg_sound (m : Mn) (code : Nat) (hall : ∀ r, r < 16 → decode 0 0 [b (lo code + r)] = one (canon m) [r])
    (cpu pc : Nat) (args : List Int) (bs : List Byte) (h : decodeOneReg code args = .ok bs) :
    decode cpu pc bs = some (⟨canon m, args.map Int.toNat⟩, bs.length) := by
  unfold decodeOneReg at h
  rcases args with _ | ⟨r, _ | ⟨r2, t⟩⟩ <;> simp at h
  unfold decodeReg at h
  by_cases hr : 0 ≤ r ∧ r ≤ 15
  · simp [hr] at h
    subst h
    have := hall r.toNat (by omega)
    exact decode_one_mono _ _ 0 cpu pc (Nat.zero_le _) this (by simp [one])
  · simp [hr] at h

theorem pair_sound (m : Mn) (code : Nat) (hall : ∀ p, p < 8 → decode 0 0 [b (lo code + 2 * p)] = one (canon m) [p])
    (cpu pc : Nat) (args : List Int) (bs : List Byte) (h : decodeOneRReg code args = .ok bs) :
    decode cpu pc bs = some (⟨canon m, args.map Int.toNat⟩, bs.length) := by
  unfold decodeOneRReg at h
  rcases args with _ | ⟨r, _ | ⟨r2, t⟩⟩ <;> simp at h
  unfold decodeRReg at h
  by_cases hr : 0 ≤ r ∧ r ≤ 7
  · simp [hr] at h
    subst h
    have := hall r.toNat (by omega)
    exact decode_one_mono _ _ 0 cpu pc (Nat.zero_le _) this (by simp [one])
  · simp [hr] at h

theorem imm4_sound (m : Mn) (code : Nat) (hall : ∀ d, d < 16 → decode 0 0 [b (d + lo code)] = one (canon m) [d])
    (cpu pc : Nat) (args : List Int) (bs : List Byte) (h : decodeImm4 code args = .ok bs) :
    decode cpu pc bs = some (⟨canon m, args.map Int.toNat⟩, bs.length) := by
  unfold decodeImm4 at h
  rcases args with _ | ⟨d, _ | ⟨r2, t⟩⟩ <;> simp at h
  by_cases hr : 0 ≤ d ∧ d ≤ 15
  · rw [(evalU4 d).1 hr] at h
    simp at h
    subst h
    have hd : toByte d = d.toNat := by unfold toByte; omega
    rw [hd]
    have := hall d.toNat (by omega)
    exact decode_one_mono _ _ 0 cpu pc (Nat.zero_le _) this (by simp [one])
  · rw [(evalU4 d).2 hr] at h
    simp at h

end AslModel.Isa.I4004

namespace AslModel.Isa.I4004
open AslModel.PFile (Byte b b_toNat)
open AslModel.Spec.I4004
open AslModel.Generated.Isa4004
open AslModel.Generated (itUInt4 itUInt12 itInt8)

/-! ### two-byte handlers: arithmetic against the opcode map -/

theorem dec_two (cpu pc x y : Nat) (hx : x < 256) (hy : y < 256) (k : Nat) (hk : x / 16 = k)
    (hkk : k = 1 ∨ k = 2 ∨ k = 4 ∨ k = 5 ∨ k = 7) :
    decode cpu pc [b x, b y] =
      (match k with
       | 1 => some (⟨.JCN, [x % 16, jumpPage pc * 256 + y]⟩, 2)
       | 2 => if x % 16 % 2 = 0 then some (⟨.FIM, [x % 16 / 2, y]⟩, 2) else some (⟨.SRC, [x % 16 / 2]⟩, 1)
       | 4 => some (⟨.JUN, [x % 16 * 256 + y]⟩, 2)
       | 5 => some (⟨.JMS, [x % 16 * 256 + y]⟩, 2)
       | 7 => some (⟨.ISZ, [x % 16, jumpPage pc * 256 + y]⟩, 2)
       | _ => none) := by
  have h1 : (b x).toNat = x := by rw [b_toNat]; omega
  have h2 : (b y).toNat = y := by rw [b_toNat]; omega
  rcases hkk with rfl | rfl | rfl | rfl | rfl <;> simp only [decode, h1, h2, hk]

theorem fullJmp_sound (idx : Nat) (hidx : idx = 0 ∨ idx = 1) (cpu pc : Nat) (args : List Int) (bs : List Byte)
    (h : decodeFullJmp idx args = .ok bs) :
    decode cpu pc bs = some (⟨if idx = 0 then .JUN else .JMS, args.map Int.toNat⟩, bs.length) := by
  unfold decodeFullJmp at h
  rcases args with _ | ⟨a, _ | ⟨a2, t⟩⟩ <;> simp at h
  by_cases hr : 0 ≤ a ∧ a ≤ 4095
  · rw [(evalU12 a).1 hr] at h
    simp at h
    subst h
    have hw : toWord a = a.toNat := by unfold toWord; omega
    have hn : a.toNat < 4096 := by omega
    rw [hw]
    simp only [List.map_cons, List.map_nil]
    generalize a.toNat = n at hn
    unfold hi lo
    rcases hidx with rfl | rfl
    · rw [dec_two cpu pc _ _ (by simp; omega) (by omega) 4 (by simp; omega) (by simp)]
      simp; omega
    · rw [dec_two cpu pc _ _ (by simp; omega) (by omega) 5 (by simp; omega) (by simp)]
      simp; omega
  · rw [(evalU12 a).2 hr] at h
    simp at h

end AslModel.Isa.I4004

namespace AslModel.Isa.I4004
open AslModel.PFile (Byte b b_toNat)
open AslModel.Spec.I4004
open AslModel.Generated.Isa4004
open AslModel.Generated (itUInt4 itUInt12 itInt8)

theorem or16 (k : Nat) (h : k < 16) : k ||| 16 = k + 16 := by
  have : ∀ k : Fin 16, k.val ||| 16 = k.val + 16 := by decide
  exact this ⟨k, h⟩

theorem or32 (k : Nat) (h : k < 16) : k ||| 32 = k + 32 := by
  have : ∀ k : Fin 16, k.val ||| 32 = k.val + 32 := by decide
  exact this ⟨k, h⟩

theorem jcn_sound (cfg : Cfg) (hj : cfg.jcnOfs = 2) (cpu pc : Nat) (hpc : pc ≤ 4095) (args : List Int) (bs : List Byte)
    (h : decodeJCN cfg pc args = .ok bs) :
    decode cpu pc bs = some (⟨.JCN, args.map Int.toNat⟩, bs.length) := by
  unfold decodeJCN at h
  rcases args with _ | ⟨c, _ | ⟨a, _ | ⟨a3, t⟩⟩⟩ <;> simp at h
  by_cases hc : 0 ≤ c ∧ c ≤ 15
  · rw [(evalU4 c).1 hc] at h
    by_cases hr : 0 ≤ a ∧ a ≤ 4095
    · rw [(evalU12 a).1 hr] at h
      simp only [hj] at h
      have hw : toWord a = a.toNat := by unfold toWord; omega
      have hcb : toByte c = c.toNat := by unfold toByte; omega
      rw [hw, hcb] at h
      simp only [List.map_cons, List.map_nil]
      have hn : a.toNat < 4096 := by omega
      have hk : c.toNat < 16 := by omega
      generalize a.toNat = n at hn h
      generalize c.toNat = k at hk h
      rw [or16 k hk] at h
      unfold hi lo at h
      by_cases hpg : (pc + 2) % 65536 / 256 = n % 65536 / 256
      · simp [hpg] at h
        subst h
        rw [dec_two cpu pc _ _ (by omega) (by omega) 1 (by omega) (by simp)]
        simp [jumpPage]
        constructor <;> omega
      · simp [hpg] at h
    · rw [(evalU12 a).2 hr] at h; simp at h
  · rw [(evalU4 c).2 hc] at h; simp at h

theorem isz_sound (cfg : Cfg) (hb : cfg.iszBits = 8) (cpu pc : Nat) (args : List Int) (bs : List Byte)
    (hpage : (pc + cfg.iszOfs) / 256 = (pc + 2) / 256) (h : decodeISZ cfg pc args = .ok bs) :
    decode cpu pc bs = some (⟨.ISZ, args.map Int.toNat⟩, bs.length) := by
  unfold decodeISZ at h
  rcases args with _ | ⟨r, _ | ⟨a, _ | ⟨a3, t⟩⟩⟩ <;> simp at h
  unfold decodeReg at h
  by_cases hc : 0 ≤ r ∧ r ≤ 15
  · simp only [hc, and_self, if_true] at h
    by_cases hr : 0 ≤ a ∧ a ≤ 4095
    · rw [(evalU12 a).1 hr] at h
      simp only [hb, chkSamePage] at h
      have hw : toWord a = a.toNat := by unfold toWord; omega
      rw [hw] at h
      simp only [List.map_cons, List.map_nil]
      have hn : a.toNat < 4096 := by omega
      have hk : r.toNat < 16 := by omega
      generalize a.toNat = n at hn h
      generalize r.toNat = k at hk h
      unfold lo at h
      by_cases hpg : (pc + cfg.iszOfs) / 2 ^ 8 = n / 2 ^ 8
      · simp [hpg] at h
        subst h
        rw [dec_two cpu pc _ _ (by omega) (by omega) 7 (by omega) (by simp)]
        simp [jumpPage]
        constructor <;> omega
      · simp [hpg] at h
    · rw [(evalU12 a).2 hr] at h; simp at h
  · simp [hc] at h

theorem fim_sound (cpu pc : Nat) (p d : Int) (bs : List Byte) (h : decodeFIM [p, d] = .ok bs) :
    decode cpu pc bs = some (⟨.FIM, [p.toNat, (d % 256).toNat]⟩, bs.length) := by
  unfold decodeFIM decodeRReg at h
  by_cases hc : 0 ≤ p ∧ p ≤ 7
  · simp only [hc, and_self, if_true] at h
    by_cases hr : -128 ≤ d ∧ d ≤ 255
    · rw [(evalI8 d).1 hr] at h
      simp at h
      subst h
      have hk : p.toNat < 8 := by omega
      generalize p.toNat = k at hk
      rw [or32 (2 * k) (by omega)]
      unfold toByte
      have hd : (d % 256).toNat < 256 := by omega
      generalize (d % 256).toNat = y at hd
      rw [dec_two cpu pc _ _ (by omega) hd 2 (by omega) (by simp)]
      have : (2 * k + 32) % 16 % 2 = 0 := by omega
      simp [this]; omega
    · rw [(evalI8 d).2 hr] at h; simp at h
  · simp [hc] at h

theorem fixed_sound (m : Mn) (code mc : Nat) (hg : Good m (.fixed code mc) = true) (cpu pc : Nat)
    (args : List Int) (bs : List Byte) (h : decodeFixed cpu (packFixed code mc) args = .ok bs) :
    decode cpu pc bs = some (⟨canon m, args.map Int.toNat⟩, bs.length) := by
  simp only [Good, Bool.and_eq_true, beq_iff_eq] at hg
  obtain ⟨⟨_, hmc⟩, hd⟩ := hg
  unfold decodeFixed at h
  rcases args with _ | ⟨a, t⟩
  · by_cases hcpu : cpu < hi (packFixed code mc)
    · simp [hcpu] at h
    · simp [hcpu] at h
      subst h
      rw [hmc] at hcpu
      exact decode_one_mono _ _ (minCpu m) cpu pc (by omega) hd (by simp [one])
  · simp at h

end AslModel.Isa.I4004

namespace AslModel.Isa.I4004
open AslModel.PFile (Byte b b_toNat)
open AslModel.Spec.I4004
open AslModel.Generated.Isa4004
open AslModel.Generated (itUInt4 itUInt12 itInt8)

/-! ### acceptance: each handler succeeds exactly on the operands the SPEC calls legal -/

theorem inR_iff (l h v : Int) : inR l h v = true ↔ l ≤ v ∧ v ≤ h := by simp [inR]

theorem reg_ok (code : Nat) (args : List Int) :
    isOk (decodeOneReg code args) = (match args with | [r] => inR 0 15 r | _ => false) := by
  unfold decodeOneReg decodeReg
  rcases args with _ | ⟨r, _ | ⟨r2, t⟩⟩ <;> simp [isOk]
  by_cases h : 0 ≤ r ∧ r ≤ 15
  · simp [h, isOk, inR]
  · have : inR 0 15 r = false := by rw [Bool.eq_false_iff]; intro hh; exact h ((inR_iff _ _ _).1 hh)
    simp [h, isOk, this]

theorem pair_ok (code : Nat) (args : List Int) :
    isOk (decodeOneRReg code args) = (match args with | [r] => inR 0 7 r | _ => false) := by
  unfold decodeOneRReg decodeRReg
  rcases args with _ | ⟨r, _ | ⟨r2, t⟩⟩ <;> simp [isOk]
  by_cases h : 0 ≤ r ∧ r ≤ 7
  · simp [h, isOk, inR]
  · have : inR 0 7 r = false := by rw [Bool.eq_false_iff]; intro hh; exact h ((inR_iff _ _ _).1 hh)
    simp [h, isOk, this]

theorem evalU4_isOk (v : Int) : isOk (evalInt itUInt4 v) = inR 0 15 v := by
  by_cases h : 0 ≤ v ∧ v ≤ 15
  · rw [(evalU4 v).1 h]; simp [isOk, inR, h]
  · rw [(evalU4 v).2 h]
    have : inR 0 15 v = false := by rw [Bool.eq_false_iff]; intro hh; exact h ((inR_iff _ _ _).1 hh)
    simp [isOk, this]

theorem imm4_ok (code : Nat) (args : List Int) :
    isOk (decodeImm4 code args) = (match args with | [r] => inR 0 15 r | _ => false) := by
  unfold decodeImm4
  rcases args with _ | ⟨r, _ | ⟨r2, t⟩⟩ <;> simp [isOk]
  by_cases h : 0 ≤ r ∧ r ≤ 15
  · rw [(evalU4 r).1 h]; simp [isOk, inR, h]
  · rw [(evalU4 r).2 h]
    have : inR 0 15 r = false := by rw [Bool.eq_false_iff]; intro hh; exact h ((inR_iff _ _ _).1 hh)
    simp [isOk, this]

theorem fullJmp_ok (idx : Nat) (args : List Int) :
    isOk (decodeFullJmp idx args) = (match args with | [r] => inR 0 4095 r | _ => false) := by
  unfold decodeFullJmp
  rcases args with _ | ⟨r, _ | ⟨r2, t⟩⟩ <;> simp [isOk]
  by_cases h : 0 ≤ r ∧ r ≤ 4095
  · rw [(evalU12 r).1 h]; simp [isOk, inR, h]
  · rw [(evalU12 r).2 h]
    have : inR 0 4095 r = false := by rw [Bool.eq_false_iff]; intro hh; exact h ((inR_iff _ _ _).1 hh)
    simp [isOk, this]

theorem fim_ok (args : List Int) :
    isOk (decodeFIM args) = (match args with | [p, d] => inR 0 7 p && inR (-128) 255 d | _ => false) := by
  unfold decodeFIM decodeRReg
  rcases args with _ | ⟨p, _ | ⟨d, _ | ⟨a3, t⟩⟩⟩ <;> simp [isOk]
  by_cases h : 0 ≤ p ∧ p ≤ 7
  · by_cases h2 : -128 ≤ d ∧ d ≤ 255
    · rw [(evalI8 d).1 h2]; simp [h, h2, isOk, inR]
    · rw [(evalI8 d).2 h2]
      have : inR (-128) 255 d = false := by rw [Bool.eq_false_iff]; intro hh; exact h2 ((inR_iff _ _ _).1 hh)
      simp [h, isOk, this]
  · have : inR 0 7 p = false := by rw [Bool.eq_false_iff]; intro hh; exact h ((inR_iff _ _ _).1 hh)
    simp [h, isOk, this]

theorem jcn_ok (cfg : Cfg) (hj : cfg.jcnOfs = 2) (pc : Nat) (hpc : pc ≤ 4095) (args : List Int) :
    isOk (decodeJCN cfg pc args) =
      (match args with
       | [c, a] => inR 0 15 c && inR 0 4095 a && decide (a.toNat / 256 = jumpPage pc)
       | _ => false) := by
  unfold decodeJCN
  rcases args with _ | ⟨c, _ | ⟨a, _ | ⟨a3, t⟩⟩⟩ <;> simp [isOk]
  by_cases h : 0 ≤ c ∧ c ≤ 15
  · rw [(evalU4 c).1 h]
    have hc : inR 0 15 c = true := (inR_iff _ _ _).2 h
    by_cases h2 : 0 ≤ a ∧ a ≤ 4095
    · rw [(evalU12 a).1 h2]
      have ha : inR 0 4095 a = true := (inR_iff _ _ _).2 h2
      have hw : toWord a = a.toNat := by unfold toWord; omega
      simp only [hj, hw, hc, ha, Bool.true_and, hi, jumpPage]
      have hn : a.toNat < 4096 := by omega
      generalize a.toNat = n at hn
      by_cases hp : (pc + 2) % 65536 / 256 = n % 65536 / 256
      · have : n / 256 = (pc + 2) / 256 := by omega
        simp [hp, this, isOk]
      · have : ¬ (n / 256 = (pc + 2) / 256) := by omega
        simp [hp, this, isOk]
    · rw [(evalU12 a).2 h2]
      have : inR 0 4095 a = false := by rw [Bool.eq_false_iff]; intro hh; exact h2 ((inR_iff _ _ _).1 hh)
      simp [isOk, this]
  · rw [(evalU4 c).2 h]
    have : inR 0 15 c = false := by rw [Bool.eq_false_iff]; intro hh; exact h ((inR_iff _ _ _).1 hh)
    simp [isOk, this]

theorem isz_ok (cfg : Cfg) (hb : cfg.iszBits = 8) (pc : Nat) (hpage : (pc + cfg.iszOfs) / 256 = (pc + 2) / 256) (args : List Int) :
    isOk (decodeISZ cfg pc args) =
      (match args with
       | [r, a] => inR 0 15 r && inR 0 4095 a && decide (a.toNat / 256 = jumpPage pc)
       | _ => false) := by
  unfold decodeISZ decodeReg
  rcases args with _ | ⟨c, _ | ⟨a, _ | ⟨a3, t⟩⟩⟩ <;> simp [isOk]
  by_cases h : 0 ≤ c ∧ c ≤ 15
  · have hc : inR 0 15 c = true := (inR_iff _ _ _).2 h
    simp only [h, and_self, if_true]
    by_cases h2 : 0 ≤ a ∧ a ≤ 4095
    · rw [(evalU12 a).1 h2]
      have ha : inR 0 4095 a = true := (inR_iff _ _ _).2 h2
      have hw : toWord a = a.toNat := by unfold toWord; omega
      simp only [hb, hw, hc, ha, Bool.true_and, chkSamePage, jumpPage]
      have hn : a.toNat < 4096 := by omega
      generalize a.toNat = n at hn
      by_cases hp : (pc + cfg.iszOfs) / 2 ^ 8 = n / 2 ^ 8
      · have : n / 256 = (pc + 2) / 256 := by omega
        simp [hp, this, isOk]
      · have : ¬ (n / 256 = (pc + 2) / 256) := by omega
        simp [hp, this, isOk]
    · rw [(evalU12 a).2 h2]
      have : inR 0 4095 a = false := by rw [Bool.eq_false_iff]; intro hh; exact h2 ((inR_iff _ _ _).1 hh)
      simp [isOk, this]
  · have : inR 0 15 c = false := by rw [Bool.eq_false_iff]; intro hh; exact h ((inR_iff _ _ _).1 hh)
    simp [h, isOk, this]

theorem fixed_ok (cpu code : Nat) (args : List Int) :
    isOk (decodeFixed cpu code args) = (decide (hi code ≤ cpu) && match args with | [] => true | _ => false) := by
  unfold decodeFixed
  rcases args with _ | ⟨a, t⟩
  · by_cases h : cpu < hi code
    · have : ¬ (hi code ≤ cpu) := by omega
      simp [h, this, isOk]
    · have : hi code ≤ cpu := by omega
      simp [h, this, isOk]
  · simp [isOk]

end AslModel.Isa.I4004

namespace AslModel.Isa.I4004
open AslModel.PFile (Byte b b_toNat)
open AslModel.Spec.I4004

/-- the opcode map yields a two-operand `JCN`/`ISZ` only from a two-byte pattern whose second byte is the low target byte -/
theorem decode_short_inv (cpu pc : Nat) (bs : List Byte) (m : Mn) (hm : m = .JCN ∨ m = .ISZ) (u v : Nat)
    (h : decode cpu pc bs = some (⟨m, [u, v]⟩, bs.length)) :
    ∃ b0 b1, bs = [b0, b1] ∧ v = jumpPage pc * 256 + b1.toNat := by
  rcases bs with _ | ⟨b0, _ | ⟨b1, _ | ⟨b2, t⟩⟩⟩
  · simp [decode] at h
  · exfalso
    unfold decode at h
    simp only at h
    rcases hm with rfl | rfl <;> split at h <;> (try split at h) <;> simp_all
  · refine ⟨b0, b1, rfl, ?_⟩
    unfold decode at h
    simp only at h
    rcases hm with rfl | rfl <;> split at h <;> (try split at h) <;> simp_all
  · exfalso
    unfold decode at h
    simp only at h
    rcases hm with rfl | rfl <;> split at h <;> (try split at h) <;> simp_all

end AslModel.Isa.I4004
