import AslModel.Lemmas.Isa.IZ80Sound
/-! Lemmas for C14 / Z80, part 6b: soundness of the lines of the instruction tables that have a numeric operand class
(one theorem per line; `z80_form1` / `z80_form2` enumerate the registers of the line and prove each instance for all values). -/
namespace AslModel.Isa.IZ80
open AslModel.PFile (Byte b b_toNat)
open AslModel.Spec.IZ80
open AslModel.Generated.IsaZ80

set_option maxHeartbeats 1600000

theorem fs_LD_dd_nn : FormSound (f2 .LD .dd .nn) := by z80_form2
theorem fs_LD_xy_nn : FormSound (f2 .LD .xy .nn) := by z80_form2
theorem fs_LD_dd_mnn : FormSound (f2 .LD .dd .mnn) := by z80_form2
theorem fs_LD_xy_mnn : FormSound (f2 .LD .xy .mnn) := by z80_form2
theorem fs_LD_mnn_dd : FormSound (f2 .LD .mnn .dd) := by z80_form2
theorem fs_LD_mnn_xy : FormSound (f2 .LD .mnn .xy) := by z80_form2

end AslModel.Isa.IZ80
