import AslModel.Lemmas.Isa.IZ80TableA
import AslModel.Lemmas.Isa.IZ80TableB
import AslModel.Lemmas.Isa.IZ80TableC
import AslModel.Lemmas.Isa.IZ80TableD
import AslModel.Lemmas.Isa.IZ80TableE
/-! Lemmas for C14 / Z80, part 2: every row of the regenerated `InstTable` passes the check over all representative
operand tuples (the slices are decided in `IZ80TableA` … `IZ80TableE`). -/
namespace AslModel.Isa.IZ80
open AslModel.Spec.IZ80
open AslModel.Generated.IsaZ80

theorem all_of_slices {α : Type} (l : List α) (p : α → Bool) (n : Nat) (hl : l.length ≤ 2 * n)
    (h : ∀ i, i < n → ((l.drop (2 * i)).take 2).all p = true) : l.all p = true := by
  rw [List.all_eq_true]
  intro x hx
  obtain ⟨j, hj, rfl⟩ := List.getElem_of_mem hx
  have hi : j / 2 < n := by omega
  refine List.all_eq_true.mp (h (j / 2) hi) l[j] ?_
  rw [List.mem_iff_getElem]
  refine ⟨j - 2 * (j / 2), ?_, ?_⟩
  · simp only [List.length_take, List.length_drop]; omega
  · simp only [List.getElem_take, List.getElem_drop]
    congr 1; omega

theorem slices (i : Nat) (hi : i < 35) : sliceOK (2 * i) = true := by
  match i, hi with
  | 0, _ => exact slice_0
  | 1, _ => exact slice_2
  | 2, _ => exact slice_4
  | 3, _ => exact slice_6
  | 4, _ => exact slice_8
  | 5, _ => exact slice_10
  | 6, _ => exact slice_12
  | 7, _ => exact slice_14
  | 8, _ => exact slice_16
  | 9, _ => exact slice_18
  | 10, _ => exact slice_20
  | 11, _ => exact slice_22
  | 12, _ => exact slice_24
  | 13, _ => exact slice_26
  | 14, _ => exact slice_28
  | 15, _ => exact slice_30
  | 16, _ => exact slice_32
  | 17, _ => exact slice_34
  | 18, _ => exact slice_36
  | 19, _ => exact slice_38
  | 20, _ => exact slice_40
  | 21, _ => exact slice_42
  | 22, _ => exact slice_44
  | 23, _ => exact slice_46
  | 24, _ => exact slice_48
  | 25, _ => exact slice_50
  | 26, _ => exact slice_52
  | 27, _ => exact slice_54
  | 28, _ => exact slice_56
  | 29, _ => exact slice_58
  | 30, _ => exact slice_60
  | 31, _ => exact slice_62
  | 32, _ => exact slice_64
  | 33, _ => exact slice_66
  | 34, _ => exact slice_68
  | k + 35, h => omega

/-- every row of the regenerated `InstTable` passes the check over all representative operand tuples -/
theorem table_ok : tableOK = true :=
  all_of_slices instTable rowCheck 35 (by decide) slices

end AslModel.Isa.IZ80
