import AslModel.Lemmas.Isa.IZ80
/-! Lemmas for C14 / Z80, part 2d: the complete table `mnemonic × representative operands` decided by evaluation,
two rows of the regenerated `InstTable` per theorem (part files are built in parallel). -/
namespace AslModel.Isa.IZ80
open AslModel.Spec.IZ80
open AslModel.Generated.IsaZ80

theorem slice_52 : sliceOK 52 = true := by decide +kernel
theorem slice_54 : sliceOK 54 = true := by decide +kernel
theorem slice_56 : sliceOK 56 = true := by decide +kernel

end AslModel.Isa.IZ80
