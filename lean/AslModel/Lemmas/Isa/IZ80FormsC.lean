import AslModel.Lemmas.Isa.IZ80Sound
/-! Lemmas for C14 / Z80, part 6c: soundness of the lines of the instruction tables that have a numeric operand class
(one theorem per line; `z80_form1` / `z80_form2` enumerate the registers of the line and prove each instance for all values). -/
namespace AslModel.Isa.IZ80
open AslModel.PFile (Byte b b_toNat)
open AslModel.Spec.IZ80
open AslModel.Generated.IsaZ80

set_option maxHeartbeats 1600000

theorem fs_ADD_A_m : FormSound (f2 .ADD .A .m) := by z80_form2
theorem fs_ADD_A_n : FormSound (f2 .ADD .A .n) := by z80_form2
theorem fs_ADC_A_m : FormSound (f2 .ADC .A .m) := by z80_form2
theorem fs_ADC_A_n : FormSound (f2 .ADC .A .n) := by z80_form2
theorem fs_SBC_A_m : FormSound (f2 .SBC .A .m) := by z80_form2
theorem fs_SBC_A_n : FormSound (f2 .SBC .A .n) := by z80_form2
theorem fs_SUB_m : FormSound (f1 .SUB .m) := by z80_form1
theorem fs_SUB_n : FormSound (f1 .SUB .n) := by z80_form1
theorem fs_SUB_A_m_dropA : FormSound (f2dropA .SUB .m) := by z80_form2
theorem fs_SUB_A_n_dropA : FormSound (f2dropA .SUB .n) := by z80_form2
theorem fs_AND_m : FormSound (f1 .AND .m) := by z80_form1
theorem fs_AND_n : FormSound (f1 .AND .n) := by z80_form1
theorem fs_AND_A_m_dropA : FormSound (f2dropA .AND .m) := by z80_form2
theorem fs_AND_A_n_dropA : FormSound (f2dropA .AND .n) := by z80_form2
theorem fs_OR_m : FormSound (f1 .OR .m) := by z80_form1
theorem fs_OR_n : FormSound (f1 .OR .n) := by z80_form1
theorem fs_OR_A_m_dropA : FormSound (f2dropA .OR .m) := by z80_form2
theorem fs_OR_A_n_dropA : FormSound (f2dropA .OR .n) := by z80_form2

end AslModel.Isa.IZ80
