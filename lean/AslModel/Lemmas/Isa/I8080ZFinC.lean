import AslModel.Lemmas.Isa.I8080Z
/-!
C14 / 8080 + 8085, Z80-style syntax: the statements whose operands carry no value (register names, `AF`, `IM`, conditions) -
two operands, `JP CALL IN OUT`; one operand and no operand, every mnemonic; `RST n` for `0 ≤ n ≤ 63`; both syntax modes, both CPUs.  Decided by evaluating the model, `Spec.I8080Z.intel` and the Intel-syntax model
(one evaluation per mnemonic: 26 x 26 operand pairs x 4 modes).
-/
namespace AslModel.Isa.I8080Z
open AslModel.Spec.I8080Z

def grpC : List Mn := [.JP, .CALL, .IN, .OUT]

theorem fin2_JP : fin2On [.JP] = true := by decide +kernel
theorem fin2_CALL : fin2On [.CALL] = true := by decide +kernel
theorem fin2_IN : fin2On [.IN] = true := by decide +kernel
theorem fin2_OUT : fin2On [.OUT] = true := by decide +kernel

theorem fin2C (excl : Bool) (cpu : Nat) (hcpu : cpu = 0 ∨ cpu = 1) (m : Mn) (hm : m ∈ grpC) (o1 o2 : Opd)
    (h1 : o1 ∈ finOpds) (h2 : o2 ∈ finOpds) (hc : canonical excl ⟨m, [o1, o2]⟩ = true) :
    okBytes (encode excl cpu ⟨m, [o1, o2]⟩) = viaIntel excl cpu ⟨m, [o1, o2]⟩ := by
  simp only [grpC, List.mem_cons, List.not_mem_nil, or_false] at hm
  rcases hm with rfl | rfl | rfl | rfl
  · exact fin2_use fin2_JP excl cpu hcpu .JP (by decide) o1 o2 h1 h2 hc
  · exact fin2_use fin2_CALL excl cpu hcpu .CALL (by decide) o1 o2 h1 h2 hc
  · exact fin2_use fin2_IN excl cpu hcpu .IN (by decide) o1 o2 h1 h2 hc
  · exact fin2_use fin2_OUT excl cpu hcpu .OUT (by decide) o1 o2 h1 h2 hc

theorem fin1 : (allOn fun excl cpu => Mn.all.all fun m => finOpds.all fun o => agree excl cpu ⟨m, [o]⟩) = true := by
  decide +kernel

theorem fin0 : (allOn fun excl cpu => Mn.all.all fun m => agree excl cpu ⟨m, []⟩) = true := by
  decide +kernel

theorem finRst : (allOn fun excl cpu => (List.range 64).all fun n => agree excl cpu ⟨.RST, [.imm (n : Int)]⟩) = true := by
  decide +kernel

end AslModel.Isa.I8080Z
