import AslModel.Lemmas.Isa.IZ80Range
import AslModel.Lemmas.Isa.IZ80Hand
/-! Lemmas for C14 / Z80, part 5: soundness of the layout handlers.

* statements without numeric operands: read off the table over representatives (`table_ok`);
* statements with a numeric operand: one lemma per line of the SPEC's instruction tables that has a value
  class (`FormSound`), proved for all operand values by case analysis over the registers of the line. -/
namespace AslModel.Isa.IZ80
open AslModel.PFile (Byte b b_toNat)
open AslModel.Spec.IZ80
open AslModel.Generated.IsaZ80
open AslModel.Generated (itInt8 itInt16 itUInt8 itUInt16 itSInt8 itUInt3 itUInt2)

theorem encode_eq (cfg : Cfg) (cpu pc : Nat) (mn : Mn) (hd : Handler) (ops : List Opnd) (h : lookup mn = some hd) :
    encode cfg cpu pc ⟨mn, ops⟩ = dispatch cfg pc hd ops := by
  simp only [encode, h]

theorem toWord_lo_hi (v : Int) : lo (toWord v) % 256 + 256 * (hi (toWord v) % 256) = toWord v := by
  unfold lo hi toWord; omega
theorem toWord_cast (v : Int) : ((toWord v : Nat) : Int) = v % 65536 := by unfold toWord; omega
theorem toWord_id (v : Int) (h : 0 ≤ v ∧ v ≤ 65535) : ((toWord v : Nat) : Int) = v := by unfold toWord; omega
theorem sext8_zero : sext8 0 = 0 := by decide
theorem toByte_id (v : Int) (h : 0 ≤ v ∧ v ≤ 255) : ((toByte v : Nat) : Int) = v := by unfold toByte; omega

theorem meaning_mn (pc : Nat) (s : Src) : (meaning pc s).mn = s.mn := by
  unfold meaning; split <;> rfl

theorem rep_closed (o : Opnd) (h : isClosed o = true) : rep o = o := by
  cases o <;> first | rfl | cases h

theorem map_rep_closed (ops : List Opnd) (h : ops.all isClosed = true) : ops.map rep = ops := by
  induction ops with
  | nil => rfl
  | cons o os ih =>
    simp only [List.all_cons, Bool.and_eq_true] at h
    simp only [List.map_cons, rep_closed o h.1, ih h.2]

/-- what the table says about one operand tuple of representatives -/
theorem chk_of_row (mn : Mn) (h : Handler) (f : List AOp → L) (hrow : rowOK mn h f = true) (ops : List Opnd)
    (hlen : ops.length ≤ 2) (h2 : ops.length = 2 → twoOps h = true) : chkAt mn f (ops.map rep) = true := by
  simp only [rowOK, Bool.and_eq_true, List.all_eq_true] at hrow
  obtain ⟨⟨⟨⟨⟨_, _⟩, _⟩, h0⟩, h1⟩, h2'⟩ := hrow
  rcases ops with _ | ⟨o1, _ | ⟨o2, _ | ⟨o3, t⟩⟩⟩
  · exact h0
  · exact h1 (rep o1) (rep_mem o1)
  · have ht := h2 rfl
    simp only [ht, if_true, List.all_eq_true] at h2'
    exact h2' (rep o1) (rep_mem o1) (rep o2) (rep_mem o2)
  · simp at hlen

theorem find?_of_unique {α : Type} (l : List α) (p : α → Bool) (a : α) (ha : a ∈ l) (hp : p a = true)
    (hu : (l.filter p).length ≤ 1) : l.find? p = some a := by
  induction l with
  | nil => cases ha
  | cons x xs ih =>
    by_cases hx : p x = true
    · simp only [List.find?, hx]
      simp only [List.filter, hx, List.length_cons] at hu
      have hxs : xs.filter p = [] := by
        cases hf : xs.filter p with
        | nil => rfl
        | cons y ys => rw [hf] at hu; simp at hu
      rcases List.mem_cons.mp ha with rfl | hmem
      · rfl
      · have : a ∈ xs.filter p := List.mem_filter.mpr ⟨hmem, hp⟩
        rw [hxs] at this; cases this
    · have hx' : p x = false := by simpa using hx
      simp only [List.find?, hx']
      simp only [List.filter, hx'] at hu
      rcases List.mem_cons.mp ha with rfl | hmem
      · rw [hp] at hx'; cases hx'
      · exact ih hmem hu

theorem find?_congr' {α : Type} (l : List α) (p q : α → Bool) (h : ∀ a ∈ l, p a = q a) : l.find? p = l.find? q := by
  induction l with
  | nil => rfl
  | cons x xs ih =>
    have hx := h x List.mem_cons_self
    have hxs := ih fun a ha => h a (List.mem_cons_of_mem _ ha)
    simp only [List.find?, hx, hxs]

theorem filter_congr' {α : Type} (l : List α) (p q : α → Bool) (h : ∀ a ∈ l, p a = q a) : l.filter p = l.filter q := by
  induction l with
  | nil => rfl
  | cons x xs ih =>
    have hx := h x List.mem_cons_self
    have hxs := ih fun a ha => h a (List.mem_cons_of_mem _ ha)
    simp only [List.filter, hx, hxs]

/-- the line of the tables a statement fits determines its meaning (the lines of a mnemonic exclude each other) -/
theorem meaning_of_match (pc : Nat) (mn : Mn) (h : Handler) (f : List AOp → L) (hl : lookup mn = some h)
    (hf : layout cleanCfg h = some f) (ops : List Opnd) (fm : Form) (hfm : fm ∈ formsOf mn)
    (hm : matchOps pc fm.ocs ops = true) : meaning pc ⟨mn, ops⟩ = ⟨mn, fm.apply ops⟩ := by
  have hrow := row_of_lookup mn h f hl hf
  have hp : plainForms mn = true := by
    simp only [rowOK, Bool.and_eq_true] at hrow; exact hrow.1.1.1.1.1
  have hpl := hp
  unfold plainForms at hpl
  rw [List.all_eq_true] at hpl
  have hpf := hpl fm hfm
  simp only [Bool.and_eq_true, decide_eq_true_eq] at hpf
  -- the operand count is that of the line
  have hlen : ops.length = fm.ocs.length := by
    rcases hcs : fm.ocs with _ | ⟨c1, _ | ⟨c2, _ | ⟨c3, cs⟩⟩⟩ <;> rcases ops with _ | ⟨o1, _ | ⟨o2, _ | ⟨o3, os⟩⟩⟩ <;>
      simp only [hcs, matchOps] at hm <;> first | rfl | cases hm
  have hlen2 : ops.length ≤ 2 := by omega
  have h2 : ops.length = 2 → twoOps h = true := by
    intro h2
    cases ht : twoOps h
    · exfalso
      simp only [rowOK, ht, Bool.false_eq_true, if_false, Bool.and_eq_true, List.all_eq_true, decide_eq_true_eq] at hrow
      have := hrow.2 fm hfm
      omega
    · rfl
  have hchk := chk_of_row mn h f hrow ops hlen2 h2
  simp only [chkAt, uniqAt, Bool.and_eq_true, decide_eq_true_eq] at hchk
  have hu := hchk.1.2
  have hcong : ∀ g ∈ formsOf mn, (fun g : Form => matchOps 0 g.ocs (ops.map rep)) g = (fun g : Form => matchOps pc g.ocs ops) g := by
    intro g hg
    have := hpl g hg
    simp only [Bool.and_eq_true] at this
    simp only [matchOps_rep 0 g.ocs this.1, ← matchOps_pc pc g.ocs this.1]
  rw [filter_congr' _ _ _ hcong] at hu
  unfold meaning
  simp only
  rw [find?_of_unique (formsOf mn) (fun g => matchOps pc g.ocs ops) fm hfm hm hu]

/-! ## statements without numeric operands -/

theorem meaning_pc (pc : Nat) (mn : Mn) (ops : List Opnd) (hp : plainForms mn = true) :
    meaning pc ⟨mn, ops⟩ = meaning 0 ⟨mn, ops⟩ := by
  unfold plainForms at hp
  rw [List.all_eq_true] at hp
  unfold meaning
  simp only
  have : (formsOf mn).find? (fun f => matchOps pc f.ocs ops) = (formsOf mn).find? (fun f => matchOps 0 f.ocs ops) := by
    apply find?_congr'
    intro g hg
    have := hp g hg
    simp only [Bool.and_eq_true] at this
    exact matchOps_pc pc g.ocs this.1 ops
  rw [this]

theorem layout_sound_closed (cpu pc : Nat) (mn : Mn) (h : Handler) (f : List AOp → L) (ops : List Opnd) (ps : List Piece)
    (hl : lookup mn = some h) (hf : layout cleanCfg h = some f) (hc : ops.all isClosed = true)
    (hok : f (ops.map absOf) = .ok ps) :
    decode cpu pc (realize ops ps) = some (meaning pc ⟨mn, ops⟩, (realize ops ps).length) := by
  have hrow := row_of_lookup mn h f hl hf
  have hrow' := hrow
  simp only [rowOK, Bool.and_eq_true] at hrow'
  have hp : plainForms mn = true := hrow'.1.1.1.1.1
  have hjr : mn ≠ .JR := by simpa using hrow'.1.1.1.1.2
  have hdj : mn ≠ .DJNZ := by simpa using hrow'.1.1.1.2
  have hlen2 : ops.length ≤ 2 := by
    rcases ops with _ | ⟨o1, _ | ⟨o2, _ | ⟨o3, t⟩⟩⟩ <;> try (simp; done)
    simp only [List.map_cons] at hok
    rw [layout_len3 cleanCfg h f hf] at hok
    cases hok
  have h2 : ops.length = 2 → twoOps h = true := by
    intro h2
    cases ht : twoOps h
    · exfalso
      rcases ops with _ | ⟨o1, _ | ⟨o2, _ | ⟨o3, t⟩⟩⟩ <;> simp at h2
      simp only [List.map_cons, List.map_nil] at hok
      rw [layout_len2 cleanCfg h f hf ht] at hok
      cases hok
    · rfl
  have hchk := chk_of_row mn h f hrow ops hlen2 h2
  rw [map_rep_closed ops hc] at hchk
  simp only [chkAt, soundAt, hc, Bool.not_true, Bool.false_or, Bool.and_eq_true, hok, beq_iff_eq] at hchk
  have hd := hchk.2
  rw [meaning_pc pc mn ops hp]
  exact decode_of_decodeR cpu pc _ _ _ hd (by rw [meaning_mn]; exact hjr) (by rw [meaning_mn]; exact hdj)

/-! ## statements with a numeric operand: one lemma per line of the tables -/

/-- soundness of one line of the instruction tables, for statements with at least one numeric operand -/
def FormSound (fm : Form) : Prop :=
  ∀ (cpu pc : Nat) (ops : List Opnd) (bs : List Byte), matchOps pc fm.ocs ops = true → ops.all isClosed = false →
    encode cleanCfg cpu pc ⟨fm.mn, ops⟩ = .ok bs → decode cpu pc bs = some (⟨fm.mn, fm.apply ops⟩, bs.length)

/-- operand classes without numeric members -/
def closedClass : OC → Bool
  | .m | .n | .nn | .mnn | .adr | .e | .bit | .rstv | .imv | .port => false
  | _ => true

theorem closed_of_class (pc : Nat) (c : OC) (o : Opnd) (hc : closedClass c = true) (h : inClass pc c o = true) :
    isClosed o = true := by
  cases c <;> first | exact absurd hc (by decide) | skip
  all_goals cases o <;> first | rfl | (simp [inClass, isR8, isR16, isXY, isCc] at h)

theorem closed_form_sound (fm : Form) (hc : fm.ocs.all closedClass = true) : FormSound fm := by
  intro cpu pc ops bs hm hv h
  exfalso
  have : ops.all isClosed = true := by
    rcases hcs : fm.ocs with _ | ⟨c1, _ | ⟨c2, _ | ⟨c3, cs⟩⟩⟩ <;> rcases ops with _ | ⟨o1, _ | ⟨o2, _ | ⟨o3, os⟩⟩⟩ <;>
      rw [hcs] at hm hc <;> first | rfl | (simp [matchOps] at hm; done) | skip
    · simp only [matchOps] at hm
      simp only [List.all_cons, List.all_nil, Bool.and_true] at hc ⊢
      exact closed_of_class pc c1 o1 hc hm
    · simp only [matchOps, Bool.and_eq_true] at hm
      simp only [List.all_cons, List.all_nil, Bool.and_true, Bool.and_eq_true] at hc ⊢
      exact ⟨closed_of_class pc c1 o1 hc.1 hm.1, closed_of_class pc c2 o2 hc.2 hm.2⟩
  rw [this] at hv
  cases hv

/-- `DecodeCondition` on the regenerated `Conditions[]` -/
theorem condOf_C : condOf (.r8 .C) = some 3 := rfl
theorem condOf_NZ : condOf (.cc .NZ) = some 0 := rfl
theorem condOf_Z : condOf (.cc .Z) = some 1 := rfl
theorem condOf_NC : condOf (.cc .NC) = some 2 := rfl
theorem condOf_PO : condOf (.cc .PO) = some 4 := rfl
theorem condOf_PE : condOf (.cc .PE) = some 5 := rfl
theorem condOf_P : condOf (.cc .P) = some 6 := rfl
theorem condOf_M : condOf (.cc .M) = some 7 := rfl
theorem condOf_NV : condOf (.cc .NV) = some 4 := rfl
theorem condOf_V : condOf (.cc .V) = some 5 := rfl
theorem condOf_NS : condOf (.cc .NS) = some 6 := rfl
theorem condOf_S : condOf (.cc .S) = some 7 := rfl

macro "z80_cls" " at " h:ident : tactic => `(tactic|
  simp only [inClass, isR8, isR16, isXY, isM, isImm, isMem, isCc, valIn, valOf, inR, Bool.and_eq_true, Bool.or_eq_true, decide_eq_true_eq,
    beq_iff_eq, bne_iff_ne, ne_eq, reduceCtorEq, not_false_eq_true, not_true_eq_false, Bool.false_eq_true, or_false, false_or, and_true,
    true_and, Bool.not_eq_true', Bool.not_eq_true, Option.some.injEq] at $h:ident)

macro "z80_enc" " at " h:ident : tactic => `(tactic|
  simp [dispatch, layout, layLD, layALU8, layADD, layADC_SBC, layINC_DEC, layShift8, layPUSH_POP, layEX, layIN_OUT, layRET, layJP, layCALL,
    layEI_DI, layFixed, layAcc, absOf, andThen, mapOk, erase, R8.code, R16.code, modeErr, cpuErr, realize, realize1, adrVals, lits, indexPrefix,
    idxPre, ixPrefix, iyPrefix, evalArg, valOf, evalU8, evalU16, condOf_C, condOf_NZ, condOf_Z, condOf_NC, condOf_PO, condOf_PE, condOf_P, condOf_M,
    condOf_NV, condOf_V, condOf_NS, condOf_S, cleanCfg, *] at $h:ident)

macro "z80_dec" : tactic => `(tactic|
  simp [decode, decodeR, decodeIdx, b_toNat, finish, mainTab, mainTabD, cbTab, cbTabD, edTab, edTabD, usesHL, usesHLD, rT, rOp, rpOp, rp2Op, hlOp,
    ccOp, aluT, accT, rotT, blockT, R8.ofCode, fill, reloc, f0, f1, f2, f2swap, f2dropA, valOf, Form.apply, normOps, norm, ccCanon,
    toByte_cast, toByte_mod, toByte_id, sext8_toByte, sext8_zero, toWord_lo_hi, toWord_cast, toWord_id, *] <;> (try omega))

/-- a line with one operand class -/
macro "z80_form1" : tactic => `(tactic| (
  intro cpu pc ops bs hm hv h
  rw [encode_eq _ _ _ _ _ _ rfl] at h
  rcases ops with _ | ⟨o1, _ | ⟨o2, t⟩⟩ <;> (try (simp [matchOps, f1] at hm; done))
  simp only [matchOps, f1] at hm
  cases o1 <;> (try (z80_cls at hm; done)) <;> (try (simp [isClosed] at hv; done))
  all_goals (try cases ‹R8›)
  all_goals (try cases ‹Bool›)
  all_goals (try (z80_cls at hm; done))
  all_goals (try z80_cls at hm)
  all_goals (z80_enc at h)
  all_goals subst h
  all_goals z80_dec))

/-- a line with two operand classes -/
macro "z80_form2" : tactic => `(tactic| (
  intro cpu pc ops bs hm hv h
  rw [encode_eq _ _ _ _ _ _ rfl] at h
  rcases ops with _ | ⟨o1, _ | ⟨o2, _ | ⟨o3, t⟩⟩⟩ <;> (try (simp [matchOps, f2, f2swap, f2dropA] at hm; done))
  simp only [matchOps, f2, f2swap, f2dropA, Bool.and_eq_true] at hm
  obtain ⟨h1, h2⟩ := hm
  cases o1 <;> (try (z80_cls at h1; done)) <;> cases o2 <;> (try (z80_cls at h2; done)) <;> (try (simp [isClosed] at hv; done))
  all_goals (try cases ‹R8›)
  all_goals (try cases ‹R16›)
  all_goals (try cases ‹Bool›)
  all_goals (try cases ‹Bool›)
  all_goals (try cases ‹Cc›)
  all_goals (try (z80_cls at h1; done))
  all_goals (try (z80_cls at h2; done))
  all_goals (try z80_cls at h1)
  all_goals (try z80_cls at h2)
  all_goals (z80_enc at h)
  all_goals subst h
  all_goals z80_dec))

end AslModel.Isa.IZ80
