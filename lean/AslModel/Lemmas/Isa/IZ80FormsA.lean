import AslModel.Lemmas.Isa.IZ80Sound
/-! Lemmas for C14 / Z80, part 6a: soundness of the lines of the instruction tables that have a numeric operand class
(one theorem per line; `z80_form1` / `z80_form2` enumerate the registers of the line and prove each instance for all values). -/
namespace AslModel.Isa.IZ80
open AslModel.PFile (Byte b b_toNat)
open AslModel.Spec.IZ80
open AslModel.Generated.IsaZ80

set_option maxHeartbeats 1600000

theorem fs_LD_r_n : FormSound (f2 .LD .r .n) := by z80_form2
theorem fs_LD_r_m : FormSound (f2 .LD .r .m) := by z80_form2
theorem fs_LD_m_r : FormSound (f2 .LD .m .r) := by z80_form2
theorem fs_LD_m_n : FormSound (f2 .LD .m .n) := by z80_form2
theorem fs_LD_A_mnn : FormSound (f2 .LD .A .mnn) := by z80_form2
theorem fs_LD_mnn_A : FormSound (f2 .LD .mnn .A) := by z80_form2

end AslModel.Isa.IZ80
