import AslModel.Lemmas.Isa.IZ80
/-! Lemmas for C14 / Z80, part 4: the handlers that put operand values into opcode bits or compare them with
the program counter (`DecodeBit`, `DecodeRST`, `DecodeIM`, `DecodeJR`, `DecodeDJNZ`): acceptance and soundness,
proved directly for all operand values. -/
namespace AslModel.Isa.IZ80
open AslModel.PFile (Byte b b_toNat)
open AslModel.Spec.IZ80
open AslModel.Generated.IsaZ80
open AslModel.Generated (itInt8 itInt16 itUInt8 itUInt16 itSInt8 itUInt3 itUInt2)

@[simp] theorem decodeAdr_imm0 (v : Int) :
    decodeAdr 0 (.imm v) = if -128 ≤ v ∧ v ≤ 255 then .ok ⟨.imm, 0, 1, []⟩ else .error .overRange := by
  simp only [decodeAdr, evalI8, if_true]; split <;> rfl
@[simp] theorem decodeAdr_imm1 (v : Int) :
    decodeAdr 1 (.imm v) = if -32768 ≤ v ∧ v ≤ 65535 then .ok ⟨.imm, 0, 2, []⟩ else .error .overRange := by
  have h10 : ¬ ((1 : Nat) = 0) := by decide
  simp only [decodeAdr, evalI16, h10, if_false, if_true]; split <;> rfl
@[simp] theorem decodeAdr_immU (v : Int) : decodeAdr 0xff (.imm v) = .error .other := by
  simp [decodeAdr]
@[simp] theorem decodeAdr_mem (sz : Nat) (v : Int) :
    decodeAdr sz (.mem v) = if 0 ≤ v ∧ v ≤ 65535 then .ok ⟨.abs, 0, 2, []⟩ else .error .overRange := by
  simp only [decodeAdr, evalU16]; split <;> rfl
@[simp] theorem decodeAdr_idx (sz : Nat) (y : Bool) (v : Int) :
    decodeAdr sz (.idx y v) = if -128 ≤ v ∧ v ≤ 127 then .ok ⟨.reg8, 6, 1, [idxPre y]⟩ else .error .overRange := by
  simp only [decodeAdr, evalS8]; split <;> rfl
@[simp] theorem decodeAdr_r8 (sz : Nat) (r : R8) : decodeAdr sz (.r8 r) = .ok ⟨.reg8, r.code, 0, []⟩ := rfl
@[simp] theorem decodeAdr_r16 (sz : Nat) (r : R16) : decodeAdr sz (.r16 r) = .ok ⟨.reg16, r.code, 0, []⟩ := rfl
@[simp] theorem decodeAdr_xy (sz : Nat) (y : Bool) : decodeAdr sz (.xy y) = .ok ⟨.reg16, 2, 0, [idxPre y]⟩ := rfl
@[simp] theorem decodeAdr_idx0 (sz : Nat) (y : Bool) : decodeAdr sz (.idx0 y) = .ok ⟨.reg8, 6, 1, [idxPre y]⟩ := rfl
@[simp] theorem decodeAdr_indBC (sz : Nat) : decodeAdr sz .indBC = .ok ⟨.indReg16, 0, 0, []⟩ := rfl
@[simp] theorem decodeAdr_indDE (sz : Nat) : decodeAdr sz .indDE = .ok ⟨.indReg16, 1, 0, []⟩ := rfl
@[simp] theorem decodeAdr_indSP (sz : Nat) : decodeAdr sz .indSP = .ok ⟨.spRel, 0, 1, []⟩ := rfl
@[simp] theorem decodeAdr_regI (sz : Nat) : decodeAdr sz .regI = .ok ⟨.int, 0, 0, []⟩ := rfl
@[simp] theorem decodeAdr_regR (sz : Nat) : decodeAdr sz .regR = .ok ⟨.ref, 0, 0, []⟩ := rfl
@[simp] theorem decodeAdr_af (sz : Nat) : decodeAdr sz .af = .error .other := rfl
@[simp] theorem decodeAdr_af' (sz : Nat) : decodeAdr sz .af' = .error .other := rfl
@[simp] theorem decodeAdr_indC (sz : Nat) : decodeAdr sz .indC = .error .other := rfl
@[simp] theorem decodeAdr_cc (sz : Nat) (c : Cc) : decodeAdr sz (.cc c) = .error .other := rfl

theorem toByte_cast (v : Int) : ((toByte v : Nat) : Int) = v % 256 := by
  unfold toByte; omega
theorem toByte_lt (v : Int) : toByte v < 256 := by unfold toByte; omega
theorem toByte_mod (v : Int) : toByte v % 256 = toByte v := Nat.mod_eq_of_lt (toByte_lt v)

theorem isOk_andThen_ok {α β : Type} (x : Except Err α) (f : α → Except Err β) (hf : ∀ v, isOk (f v) = true) :
    isOk (andThen x f) = isOk x := by
  cases x with
  | ok v => exact hf v
  | error e => rfl

theorem isOk_andThen_false {α β : Type} (x : Except Err α) (f : α → Except Err β) (hf : ∀ v, isOk (f v) = false) :
    isOk (andThen x f) = false := by
  cases x with
  | ok v => exact hf v
  | error e => rfl

theorem isOk_evalArg (typ : Nat) (lo hi : Int)
    (hty : ∀ v, evalInt typ v = if lo ≤ v ∧ v ≤ hi then .ok v else .error .overRange) (o : Opnd) :
    isOk (evalArg typ o) = valIn lo hi o := by
  cases o <;> simp only [evalArg, valIn, valOf, isOk, hty, inR] <;>
    (rename_i v; by_cases h : lo ≤ v ∧ v ≤ hi <;> simp [h] <;> omega)

/-- `evalArg` succeeds exactly on an expression operand whose value is in range, and hands the value through -/
theorem evalArg_ok (typ : Nat) (lo hi : Int)
    (hty : ∀ v, evalInt typ v = if lo ≤ v ∧ v ≤ hi then .ok v else .error .overRange) (o : Opnd) (v : Int) :
    evalArg typ o = .ok v ↔ valOf o = some v ∧ lo ≤ v ∧ v ≤ hi := by
  cases o <;> simp only [evalArg, valOf, hty] <;> try (simp; done)
  all_goals
    rename_i w
    by_cases h : lo ≤ w ∧ w ≤ hi
    · simp only [h, and_self, if_true, Except.ok.injEq, Option.some.injEq]
      constructor
      · intro e; subst e; exact ⟨rfl, h⟩
      · intro e; exact e.1
    · simp only [h, if_false, Option.some.injEq]
      constructor
      · intro e; cases e
      · intro e; exact absurd (e.1 ▸ e.2) h

/-! ### BIT / SET / RES -/

/-- the second operand of `BIT/SET/RES` as `DecodeBit` accepts it -/
def bitOpOk (o : Opnd) : Bool :=
  match decodeAdr 0xff o with
  | .ok r => r.mode == .reg8 && !(r.part != 6 && r.pre != [])
  | .error _ => false

theorem bitOpOk_eq (pc : Nat) (o : Opnd) : bitOpOk o = (inClass pc .r o || inClass pc .m o) := by
  cases o <;> simp only [bitOpOk, inClass, isR8, isM, decodeAdr_r8, decodeAdr_r16, decodeAdr_xy, decodeAdr_idx, decodeAdr_idx0,
    decodeAdr_indBC, decodeAdr_indDE, decodeAdr_indSP, decodeAdr_regI, decodeAdr_regR, decodeAdr_af, decodeAdr_af', decodeAdr_indC,
    decodeAdr_cc, decodeAdr_mem, decodeAdr_immU] <;> try rfl
  · rename_i r; cases r <;> rfl
  · rename_i y d
    by_cases hd : -128 ≤ d ∧ d ≤ 127 <;> simp [hd, inR]
    omega
  · rename_i a
    by_cases ha : 0 ≤ a ∧ a ≤ 65535 <;> simp [ha]

theorem decodeBit_two (c : Nat) (bn o : Opnd) : decodeBit c [bn, o] =
    andThen (decodeAdr 0xff o) fun r =>
      match r.mode with
      | .reg8 =>
        if r.part ≠ 6 ∧ r.pre ≠ [] then .error .invAddrMode
        else andThen (evalArg itUInt3 bn) fun v =>
          .ok (bytes (r.pre ++ [0xcb] ++ adrVals 0xff o ++ [r.part + (toByte v <<< 3) + ((c + 1) <<< 6)]))
      | _ => .error .invAddrMode := rfl

theorem decodeBit_isOk (c : Nat) (bn o : Opnd) : isOk (decodeBit c [bn, o]) = (bitOpOk o && valIn 0 7 bn) := by
  rw [← isOk_evalArg itUInt3 0 7 evalU3 bn, decodeBit_two]
  unfold bitOpOk
  cases decodeAdr 0xff o with
  | error e => rfl
  | ok r =>
    simp only [andThen]
    cases hm : r.mode <;> simp only [beq_self_eq_true, Bool.true_and] <;> try rfl
    by_cases hp : r.part ≠ 6 ∧ r.pre ≠ []
    · simp [hp, isOk]
    · have : (r.part != 6 && r.pre != []) = false := by
        simp only [ne_eq, not_and, Decidable.not_not] at hp
        by_cases h6 : r.part = 6 <;> simp [h6, hp]
      simp only [hp, if_false, this, Bool.not_false, Bool.true_and]
      cases evalArg itUInt3 bn <;> rfl

theorem bit_range (pc c : Nat) (ops : List Opnd) :
    ([[OC.bit, .r], [.bit, .m]].any fun cs => matchOps pc cs ops) = isOk (decodeBit c ops) := by
  rcases ops with _ | ⟨bn, _ | ⟨o, _ | ⟨o3, _ | ⟨o4, t⟩⟩⟩⟩
  · rfl
  · rfl
  · rw [decodeBit_isOk, bitOpOk_eq pc]
    simp only [List.any_cons, List.any_nil, matchOps, Bool.or_false]
    show (valIn 0 7 bn && _ || valIn 0 7 bn && _) = _
    cases valIn 0 7 bn <;> simp
  · simp only [List.any_cons, List.any_nil, matchOps, Bool.or_false, decodeBit]
    symm
    apply isOk_andThen_false
    intro r
    cases r.mode <;> try rfl
    simp only
    split
    · rfl
    · exact isOk_andThen_false _ _ (fun _ => rfl)
  · rfl

/-! ### RST, IM -/

theorem evalArg_some (typ : Nat) (o : Opnd) (v : Int) (h : valOf o = some v) : evalArg typ o = evalInt typ v := by
  simp only [evalArg, h]

theorem evalArg_none (typ : Nat) (o : Opnd) (h : valOf o = none) : evalArg typ o = .error .other := by
  simp only [evalArg, h]

theorem rst_range (pc : Nat) (ops : List Opnd) :
    ([[OC.rstv]].any fun cs => matchOps pc cs ops) = isOk (decodeRST ops) := by
  rcases ops with _ | ⟨o, _ | ⟨o2, t⟩⟩
  · rfl
  · simp only [List.any_cons, List.any_nil, matchOps, Bool.or_false, decodeRST, inClass, valIn]
    cases hv : valOf o with
    | none => simp [evalArg_none _ _ hv, andThen, isOk]
    | some v =>
      simp only [evalArg_some _ _ _ hv, evalI8, inR]
      by_cases h8 : -128 ≤ v ∧ v ≤ 255
      · simp only [h8, and_self, if_true, andThen, isOk]
        by_cases hc : toByte v > 0x38 ∨ toByte v % 8 ≠ 0
        · simp only [hc, if_true]
          unfold toByte at hc
          simp only [Bool.and_eq_false_imp, Bool.and_eq_true, decide_eq_true_eq, beq_eq_false_iff_ne, ne_eq]
          omega
        · simp only [hc, if_false]
          unfold toByte at hc
          simp only [Bool.and_eq_true, decide_eq_true_eq, beq_iff_eq]
          omega
      · simp only [h8, if_false, andThen, isOk]
        simp only [Bool.and_eq_false_imp, Bool.and_eq_true, decide_eq_true_eq, beq_eq_false_iff_ne, ne_eq]
        omega
  · rfl

theorem im_range (pc : Nat) (ops : List Opnd) :
    ([[OC.imv]].any fun cs => matchOps pc cs ops) = isOk (decodeIM ops) := by
  rcases ops with _ | ⟨o, _ | ⟨o2, t⟩⟩
  · rfl
  · simp only [List.any_cons, List.any_nil, matchOps, Bool.or_false, decodeIM, inClass, valIn]
    cases hv : valOf o with
    | none => simp [evalArg_none _ _ hv, andThen, isOk]
    | some v =>
      simp only [evalArg_some _ _ _ hv, evalU2, inR]
      by_cases h2 : 0 ≤ v ∧ v ≤ 3
      · simp only [h2, and_self, if_true, andThen]
        have hb : toByte v = v.toNat := by unfold toByte; omega
        rw [hb]
        by_cases h3 : v = 3
        · subst h3; decide
        · have hlt : ¬ (v.toNat > 3) := by omega
          have hne : ¬ (v.toNat = 3) := by omega
          simp only [hlt, hne, if_false, isOk]
          simp <;> omega
      · simp only [h2, if_false, andThen, isOk]
        simp <;> omega
  · rfl

/-! ### JR, DJNZ -/

theorem relTail_isOk (dmin dmax : Int) (hmin : dmin = -128) (hmax : dmax = 127) (pc op : Nat) (o : Opnd) :
    isOk (relTail dmin dmax pc op o) = inClass pc .e o := by
  subst hmin hmax
  simp only [relTail, inClass, valIn]
  cases hv : valOf o with
  | none => simp [evalArg_none _ _ hv, andThen, isOk]
  | some v =>
    simp only [evalArg_some _ _ _ hv, evalU16, inR]
    by_cases h16 : 0 ≤ v ∧ v ≤ 65535
    · simp only [h16, and_self, if_true, andThen, decide_true, Bool.true_and]
      by_cases hd : -128 ≤ v - ((pc : Int) + 2) ∧ v - ((pc : Int) + 2) ≤ 127
      · simp only [hd, and_self, if_true, isOk]
        simp <;> omega
      · simp only [hd, if_false, isOk]
        simp <;> omega
    · simp only [h16, if_false, andThen, isOk]
      simp <;> omega

/-- `DecodeCondition` + the `Condition > 3` test of `DecodeJR` accept exactly `NZ Z NC C` -/
theorem jrCond_eq (pc : Nat) (c : Opnd) :
    (match condOf (erase c) with | some k => !decide (k > 3) | none => false) = inClass pc .ccJR c := by
  cases c <;> try rfl
  · rename_i r; cases r <;> rfl
  · rename_i c; cases c <;> rfl

theorem jr_range (hmin : jrMin = -128) (hmax : jrMax = 127) (pc : Nat) (ops : List Opnd) :
    ([[OC.e], [.ccJR, .e]].any fun cs => matchOps pc cs ops) = isOk (decodeJR pc ops) := by
  rcases ops with _ | ⟨o, _ | ⟨o2, _ | ⟨o3, t⟩⟩⟩
  · rfl
  · simp only [List.any_cons, List.any_nil, matchOps, Bool.or_false, decodeJR, relTail_isOk _ _ hmin hmax]
  · simp only [List.any_cons, List.any_nil, matchOps, Bool.or_false, Bool.false_or, decodeJR, ← jrCond_eq pc o]
    cases condOf (erase o) with
    | none => rfl
    | some k =>
      by_cases hk : k > 3
      · simp [hk, isOk]
      · simp only [hk, if_false, relTail_isOk _ _ hmin hmax, decide_false, Bool.not_false, Bool.true_and]
  · rfl

theorem djnz_range (hmin : djnzMin = -128) (hmax : djnzMax = 127) (pc : Nat) (ops : List Opnd) :
    ([[OC.e]].any fun cs => matchOps pc cs ops) = isOk (decodeDJNZ pc ops) := by
  rcases ops with _ | ⟨o, _ | ⟨o2, t⟩⟩
  · rfl
  · simp only [List.any_cons, List.any_nil, matchOps, Bool.or_false, decodeDJNZ, relTail_isOk _ _ hmin hmax]
  · rfl

/-! ## soundness -/

def bitMn : Nat → Mn | 0 => .BIT | 1 => .RES | _ => .SET

theorem cbTab_bit_all : (List.range 3).all (fun c => (List.range 8).all fun y => (List.range 8).all fun z =>
    cbTab ((z + (y <<< 3) + ((c + 1) <<< 6)) % 256) == some (bitMn c, [.o (.imm (y : Nat)), rT z])) = true := by decide +kernel

/-- the `CB` page at the opcode `DecodeBit` composes: `BIT/RES/SET y, r[z]` -/
theorem cbTab_bit (c y z : Nat) (hc : c < 3) (hy : y < 8) (hz : z < 8) :
    cbTab ((z + (y <<< 3) + ((c + 1) <<< 6)) % 256) = some (bitMn c, [.o (.imm (y : Nat)), rT z]) := by
  have := cbTab_bit_all
  simp only [List.all_eq_true, List.mem_range, beq_iff_eq] at this
  exact this c hc y hy z hz

theorem sext8_toByte (d : Int) (h : -128 ≤ d ∧ d ≤ 127) : sext8 (toByte d) = d := by
  unfold sext8 toByte
  split <;> omega

theorem ofCode_code (r : R8) : R8.ofCode r.code = r := by cases r <;> rfl
theorem code_lt (r : R8) : r.code < 8 := by cases r <;> decide

theorem reloc_id (pc : Nat) (i : Instr) (h1 : i.mn ≠ .JR) (h2 : i.mn ≠ .DJNZ) : reloc pc i = i := by
  obtain ⟨mn, ops⟩ := i
  cases mn <;> first | rfl | exact absurd rfl h1 | exact absurd rfl h2

theorem meaning_bitop (pc : Nat) (mn : Mn) (hf : formsOf mn = bitop mn) (bn o : Opnd) (v : Int)
    (hv : valOf bn = some v) (h07 : 0 ≤ v ∧ v ≤ 7) (ho : (inClass pc .r o || inClass pc .m o) = true) :
    meaning pc ⟨mn, [bn, o]⟩ = ⟨mn, [.imm v, norm .m o]⟩ := by
  have hb : inClass pc .bit bn = true := by simp [inClass, valIn, hv, inR, h07]
  unfold meaning
  simp only [hf, bitop, f2, List.find?, matchOps, hb, Bool.true_and]
  cases hr : inClass pc .r o
  · simp only [hr, Bool.false_or] at ho
    simp [ho, Form.apply, normOps, norm, hv]
  · simp only [Form.apply, normOps, norm, hv, List.map_cons, List.map_nil, List.getD_cons_zero, List.getD_cons_succ]
    cases o <;> first | rfl | (simp [inClass, isR8] at hr)

theorem bit_sound (c : Nat) (hc : c < 3) (mn : Mn) (hmn : mn = bitMn c) (hf : formsOf mn = bitop mn)
    (cpu pc : Nat) (ops : List Opnd) (bs : List Byte) (h : decodeBit c ops = .ok bs) :
    decode cpu pc bs = some (meaning pc ⟨mn, ops⟩, bs.length) := by
  have hmn1 : mn ≠ .JR := by subst hmn; rcases c with _ | _ | _ <;> simp [bitMn]
  have hmn2 : mn ≠ .DJNZ := by subst hmn; rcases c with _ | _ | _ <;> simp [bitMn]
  have hok : isOk (decodeBit c ops) = true := by rw [h]; rfl
  rw [← bit_range pc c ops] at hok
  rcases ops with _ | ⟨bn, _ | ⟨o, _ | ⟨o3, t⟩⟩⟩
  · cases hok
  · cases hok
  · simp only [List.any_cons, List.any_nil, matchOps, Bool.or_false] at hok
    have hcls : (inClass pc .r o || inClass pc .m o) = true := by
      cases h1 : inClass pc .bit bn <;> simp [h1] at hok ⊢ <;> exact hok
    rw [decodeBit_two] at h
    -- the bit number
    have hbit : ∃ v, valOf bn = some v ∧ 0 ≤ v ∧ v ≤ 7 := by
      have : inClass pc .bit bn = true := by
        cases h1 : inClass pc .bit bn <;> simp [h1] at hok ⊢
      simp only [inClass, valIn] at this
      cases hv : valOf bn with
      | none => simp [hv] at this
      | some v => exact ⟨v, rfl, by simpa [hv, inR] using this⟩
    obtain ⟨v, hv, h07⟩ := hbit
    have hev : evalArg itUInt3 bn = .ok v := (evalArg_ok itUInt3 0 7 evalU3 bn v).mpr ⟨hv, h07⟩
    have hty : toByte v < 8 := by unfold toByte; omega
    have htv : ((toByte v : Nat) : Int) = v := by unfold toByte; omega
    rw [meaning_bitop pc mn hf bn o v hv h07 hcls]
    have h66 : (6 + toByte v <<< 3 + (c + 1) <<< 6) % 256 % 8 = 6 := by
      rcases c with _ | _ | _ | c <;> simp [Nat.shiftLeft_eq] <;> omega
    have hrt6 : rT 6 = .hl := rfl
    cases o with
    | r8 r =>
      have hcr := code_lt r
      simp only [decodeAdr_r8, andThen, hev, ne_eq, not_true_eq_false, and_false, if_false, Except.ok.injEq, adrVals, bytes,
        List.nil_append, List.append_nil, List.singleton_append, List.map_cons, List.map_nil] at h
      subst h
      simp only [decode, decodeR, b_toNat, finish, Nat.reduceMod, Nat.reduceEqDiff, if_false, if_true,
        cbTab_bit c (toByte v) r.code hc hty hcr]
      have : fill none [OT.o (Opnd.imm ((toByte v : Nat) : Int)), rT r.code] [] = some ([.imm v, .r8 r], 0) := by
        rw [htv]
        unfold rT
        by_cases h6 : r.code = 6
        · have : r = .iHL := by cases r <;> simp [R8.code] at h6 <;> rfl
          subst this
          simp [fill, R8.code]
        · simp [h6, fill, rOp, ofCode_code]
      simp only [this, Option.map_some, List.length_cons, List.length_nil]
      rw [reloc_id pc _ (by subst hmn; exact hmn1) (by subst hmn; exact hmn2)]
      subst hmn
      have : norm .m (.r8 r) = .r8 r := by cases r <;> rfl
      rw [this]
    | idx y d =>
      by_cases hd : -128 ≤ d ∧ d ≤ 127
      · simp only [decodeAdr_idx, hd, and_self, if_true, andThen, hev, ne_eq, not_true_eq_false, false_and, if_false, Except.ok.injEq, adrVals, bytes,
          List.nil_append, List.append_nil, List.singleton_append, List.cons_append, List.map_cons, List.map_nil] at h
        subst h
        cases y <;>
        · simp only [decode, decodeR, decodeIdx, b_toNat, finish, idxPre, ixPrefix, iyPrefix, Nat.reduceMod, Nat.reduceEqDiff, if_false, if_true,
            Bool.false_eq_true, h66, cbTab_bit c (toByte v) 6 hc hty (by decide), hrt6, fill, htv, toByte_mod, sext8_toByte d hd,
            Option.map_some, List.length_cons, List.length_nil]
          rw [reloc_id pc _ (by subst hmn; exact hmn1) (by subst hmn; exact hmn2)]
          subst hmn
          rfl
      · simp only [decodeAdr_idx, hd, if_false, andThen, reduceCtorEq] at h
    | idx0 y =>
      simp only [decodeAdr_idx0, andThen, hev, ne_eq, not_true_eq_false, false_and, if_false, Except.ok.injEq, adrVals, bytes,
        List.nil_append, List.append_nil, List.singleton_append, List.cons_append, List.map_cons, List.map_nil] at h
      subst h
      cases y <;>
      · simp only [decode, decodeR, decodeIdx, b_toNat, finish, idxPre, ixPrefix, iyPrefix, Nat.reduceMod, Nat.reduceEqDiff, if_false, if_true,
          Bool.false_eq_true, h66, cbTab_bit c (toByte v) 6 hc hty (by decide), hrt6, fill, htv,
          Option.map_some, List.length_cons, List.length_nil]
        rw [reloc_id pc _ (by subst hmn; exact hmn1) (by subst hmn; exact hmn2)]
        subst hmn
        rfl
    | mem a =>
      by_cases ha : 0 ≤ a ∧ a ≤ 65535 <;> simp [ha, andThen] at h
    | _ => simp [andThen] at h
  · simp only [List.any_cons, List.any_nil, matchOps, Bool.or_false] at hok
    cases hok

theorem decode_of_decodeR (cpu pc : Nat) (bs : List Byte) (i : Instr) (n : Nat) (h : decodeR bs = some (i, n))
    (h1 : i.mn ≠ .JR) (h2 : i.mn ≠ .DJNZ) : decode cpu pc bs = some (i, n) := by
  simp only [decode, h, Option.map_some, reloc_id pc i h1 h2]

theorem norm_val (c : OC) (hc : c = .adr ∨ c = .e ∨ c = .bit ∨ c = .rstv ∨ c = .imv) (o : Opnd) (v : Int) (hv : valOf o = some v) :
    norm c o = .imm v := by
  rcases hc with h | h | h | h | h <;> subst h <;> cases o <;> simp_all [norm, valOf]

theorem rst_dec_all : (List.range 8).all (fun k =>
    decodeR [b (0xc7 + 8 * k)] == some (⟨.RST, [.imm ((8 * k : Nat) : Int)]⟩, 1)) = true := by decide +kernel

theorem rst_sound (cpu pc : Nat) (ops : List Opnd) (bs : List Byte) (h : decodeRST ops = .ok bs) :
    decode cpu pc bs = some (meaning pc ⟨.RST, ops⟩, bs.length) := by
  have hok : isOk (decodeRST ops) = true := by rw [h]; rfl
  rw [← rst_range pc ops] at hok
  rcases ops with _ | ⟨o, _ | ⟨o2, t⟩⟩
  · cases hok
  · simp only [List.any_cons, List.any_nil, matchOps, Bool.or_false] at hok
    have hcls := hok
    simp only [inClass, valIn, Bool.and_eq_true] at hok
    cases hv : valOf o with
    | none => simp [hv] at hok
    | some v =>
      simp only [hv, inR, Bool.and_eq_true, decide_eq_true_eq, beq_iff_eq] at hok
      obtain ⟨⟨h0, h56⟩, h8⟩ := hok
      have hm : meaning pc ⟨.RST, [o]⟩ = ⟨.RST, [.imm v]⟩ := by
        unfold meaning
        simp [formsOf, f1, List.find?, matchOps, hcls, Form.apply, normOps, norm_val .rstv (by simp) o v hv]
      have hb : toByte v = 8 * (v.toNat / 8) := by unfold toByte; omega
      have hk : v.toNat / 8 < 8 := by omega
      simp only [decodeRST, evalArg_some _ _ _ hv, evalI8, show (-128 ≤ v ∧ v ≤ 255) by omega, and_self, if_true, andThen] at h
      have hc : ¬ (toByte v > 0x38 ∨ toByte v % 8 ≠ 0) := by omega
      simp only [hc, if_false, Except.ok.injEq] at h
      subst h
      have := rst_dec_all
      simp only [List.all_eq_true, List.mem_range, beq_iff_eq] at this
      have hd := this (v.toNat / 8) hk
      have hvv : ((8 * (v.toNat / 8) : Nat) : Int) = v := by omega
      rw [hm, hb, decode_of_decodeR cpu pc _ _ _ hd (by simp) (by simp), hvv]
      rfl
  · cases hok

theorem im_sound (cpu pc : Nat) (ops : List Opnd) (bs : List Byte) (h : decodeIM ops = .ok bs) :
    decode cpu pc bs = some (meaning pc ⟨.IM, ops⟩, bs.length) := by
  have hok : isOk (decodeIM ops) = true := by rw [h]; rfl
  rw [← im_range pc ops] at hok
  rcases ops with _ | ⟨o, _ | ⟨o2, t⟩⟩
  · cases hok
  · simp only [List.any_cons, List.any_nil, matchOps, Bool.or_false] at hok
    have hcls := hok
    simp only [inClass, valIn] at hok
    cases hv : valOf o with
    | none => simp [hv] at hok
    | some v =>
      simp only [hv, inR, Bool.and_eq_true, decide_eq_true_eq] at hok
      have hm : meaning pc ⟨.IM, [o]⟩ = ⟨.IM, [.imm v]⟩ := by
        unfold meaning
        simp [formsOf, f1, List.find?, matchOps, hcls, Form.apply, normOps, norm_val .imv (by simp) o v hv]
      simp only [decodeIM, evalArg_some _ _ _ hv, evalU2, show (0 ≤ v ∧ v ≤ 3) by omega, and_self, if_true, andThen] at h
      rw [hm]
      have h3 : v = 0 ∨ v = 1 ∨ v = 2 := by omega
      rcases h3 with rfl | rfl | rfl <;>
      · simp (config := { decide := true }) only [toByte, Int.reduceMod, if_false, if_true, Except.ok.injEq] at h
        subst h
        exact decode_of_decodeR cpu pc _ _ _ (by decide) (by decide) (by decide)
  · cases hok

/-! ### JR / DJNZ -/

theorem relTail_bytes (dmin dmax : Int) (hmin : dmin = -128) (hmax : dmax = 127) (pc op : Nat) (o : Opnd) (bs : List Byte)
    (h : relTail dmin dmax pc op o = .ok bs) :
    ∃ v, valOf o = some v ∧ (0 ≤ v ∧ v ≤ 65535) ∧ (-128 ≤ v - ((pc : Int) + 2) ∧ v - ((pc : Int) + 2) ≤ 127) ∧
      bs = [b op, b (toByte (v - ((pc : Int) + 2)))] := by
  subst hmin hmax
  unfold relTail at h
  cases hv : valOf o with
  | none => simp [evalArg_none _ _ hv, andThen] at h
  | some v =>
    rw [evalArg_some _ _ _ hv, evalU16] at h
    by_cases h16 : 0 ≤ v ∧ v ≤ 65535
    · simp only [h16, and_self, if_true, andThen] at h
      by_cases hd : -128 ≤ v - ((pc : Int) + 2) ∧ v - ((pc : Int) + 2) ≤ 127
      · simp only [hd, and_self, if_true, Except.ok.injEq] at h
        exact ⟨v, rfl, h16, hd, h.symm⟩
      · simp only [hd, if_false, reduceCtorEq] at h
    · simp only [h16, if_false, andThen, reduceCtorEq] at h

theorem decodeR_jr (x : Byte) : decodeR [b 0x18, x] = some (⟨.JR, [.imm (sext8 x.toNat)]⟩, 2) := rfl
theorem decodeR_djnz (x : Byte) : decodeR [b 0x10, x] = some (⟨.DJNZ, [.imm (sext8 x.toNat)]⟩, 2) := rfl
theorem decodeR_jrcc (k : Nat) (hk : k ≤ 3) (x : Byte) :
    decodeR [b ((k + 4) <<< 3), x] = some (⟨.JR, [ccOp k, .imm (sext8 x.toNat)]⟩, 2) := by
  rcases k with _ | _ | _ | _ | k <;> first | rfl | omega

theorem reloc_toByte (pc : Nat) (v : Int) (hd : -128 ≤ v - ((pc : Int) + 2) ∧ v - ((pc : Int) + 2) ≤ 127) :
    (pc : Int) + 2 + sext8 (b (toByte (v - ((pc : Int) + 2)))).toNat = v := by
  rw [b_toNat, toByte_mod, sext8_toByte _ hd]
  omega

theorem inClass_e_of (pc : Nat) (o : Opnd) (v : Int) (hv : valOf o = some v) (h16 : 0 ≤ v ∧ v ≤ 65535)
    (hd : -128 ≤ v - ((pc : Int) + 2) ∧ v - ((pc : Int) + 2) ≤ 127) : inClass pc .e o = true := by
  simp only [inClass, valIn, hv, inR, Bool.and_eq_true, decide_eq_true_eq]
  omega

theorem djnz_sound (hmin : djnzMin = -128) (hmax : djnzMax = 127) (cpu pc : Nat) (ops : List Opnd) (bs : List Byte)
    (h : decodeDJNZ pc ops = .ok bs) : decode cpu pc bs = some (meaning pc ⟨.DJNZ, ops⟩, bs.length) := by
  rcases ops with _ | ⟨o, _ | ⟨o2, t⟩⟩
  · cases h
  · obtain ⟨v, hv, h16, hd, rfl⟩ := relTail_bytes _ _ hmin hmax pc 0x10 o bs h
    have hcls := inClass_e_of pc o v hv h16 hd
    have hm : meaning pc ⟨.DJNZ, [o]⟩ = ⟨.DJNZ, [.imm v]⟩ := by
      unfold meaning
      simp [formsOf, f1, List.find?, matchOps, hcls, Form.apply, normOps, norm_val .e (by simp) o v hv]
    rw [hm, decode, decodeR_djnz]
    simp only [Option.map_some, reloc, List.map_cons, List.map_nil, reloc_toByte pc v hd, List.length_cons, List.length_nil]
  · cases h

theorem jrCond_cases (pc : Nat) (c : Opnd) (k : Nat) (hc : condOf (erase c) = some k) (hk : k ≤ 3) :
    c = ccOp k ∧ norm .ccJR c = c := by
  have hcc : inClass pc .ccJR c = true := by
    rw [← jrCond_eq pc c, hc]
    have : ¬ (k > 3) := by omega
    simp [this]
  have close : ∀ (c0 : Opnd) (k0 : Nat), condOf (erase c0) = some k0 → c0 = ccOp k0 → norm .ccJR c0 = c0 →
      condOf (erase c0) = some k → c0 = ccOp k ∧ norm .ccJR c0 = c0 := by
    intro c0 k0 h0 h1 h2 h3
    rw [h0] at h3
    cases h3
    exact ⟨h1, h2⟩
  cases c <;> try (simp [inClass, isCc] at hcc; done)
  · rename_i r
    cases r <;> try (simp [inClass, isCc] at hcc; done)
    exact close _ 3 rfl rfl rfl hc
  · rename_i c
    cases c <;> try (simp [inClass, isCc] at hcc; done)
    · exact close _ 0 rfl rfl rfl hc
    · exact close _ 1 rfl rfl rfl hc
    · exact close _ 2 rfl rfl rfl hc

theorem jr_sound (hmin : jrMin = -128) (hmax : jrMax = 127) (cpu pc : Nat) (ops : List Opnd) (bs : List Byte)
    (h : decodeJR pc ops = .ok bs) : decode cpu pc bs = some (meaning pc ⟨.JR, ops⟩, bs.length) := by
  rcases ops with _ | ⟨o, _ | ⟨o2, _ | ⟨o3, t⟩⟩⟩
  · cases h
  · obtain ⟨v, hv, h16, hd, rfl⟩ := relTail_bytes _ _ hmin hmax pc _ o bs h
    have hcls := inClass_e_of pc o v hv h16 hd
    have hm : meaning pc ⟨.JR, [o]⟩ = ⟨.JR, [.imm v]⟩ := by
      unfold meaning
      simp [formsOf, f1, f2, List.find?, matchOps, hcls, Form.apply, normOps, norm_val .e (by simp) o v hv]
    rw [hm, decode, show (3 <<< 3 : Nat) = 0x18 from rfl, decodeR_jr]
    simp only [Option.map_some, reloc, List.map_cons, List.map_nil, reloc_toByte pc v hd, List.length_cons, List.length_nil]
  · simp only [decodeJR] at h
    cases hc : condOf (erase o) with
    | none => simp [hc] at h
    | some k =>
      simp only [hc] at h
      by_cases hk : k > 3
      · simp [hk] at h
      · simp only [hk, if_false] at h
        have hk' : k ≤ 3 := by omega
        obtain ⟨v, hv, h16, hd, rfl⟩ := relTail_bytes _ _ hmin hmax pc _ o2 bs h
        have hcls := inClass_e_of pc o2 v hv h16 hd
        obtain ⟨hco, hno⟩ := jrCond_cases pc o k hc hk'
        have hcc : inClass pc .ccJR o = true := by
          rw [← jrCond_eq pc o, hc]; simp [hk]
        have hm : meaning pc ⟨.JR, [o, o2]⟩ = ⟨.JR, [o, .imm v]⟩ := by
          unfold meaning
          simp [formsOf, f1, f2, List.find?, matchOps, hcls, hcc, Form.apply, normOps, norm_val .e (by simp) o2 v hv, hno]
        rw [hm, decode, decodeR_jrcc k hk']
        subst hco
        rcases k with _ | _ | _ | _ | k <;> first
          | omega
          | simp only [Option.map_some, reloc, ccOp, List.map_cons, List.map_nil, reloc_toByte pc v hd, List.length_cons, List.length_nil,
              Nat.zero_add, Nat.reduceAdd]
  · cases h

end AslModel.Isa.IZ80
