import AslModel.Lemmas.Isa.IZ80
/-! Lemmas for C14 / Z80, part 2b: the complete table `mnemonic × representative operands` decided by evaluation,
two rows of the regenerated `InstTable` per theorem (part files are built in parallel). -/
namespace AslModel.Isa.IZ80
open AslModel.Spec.IZ80
open AslModel.Generated.IsaZ80

theorem slice_2 : sliceOK 2 = true := by decide +kernel
theorem slice_4 : sliceOK 4 = true := by decide +kernel
theorem slice_6 : sliceOK 6 = true := by decide +kernel
theorem slice_8 : sliceOK 8 = true := by decide +kernel
theorem slice_10 : sliceOK 10 = true := by decide +kernel
theorem slice_12 : sliceOK 12 = true := by decide +kernel

end AslModel.Isa.IZ80
