import AslModel.Lemmas.Isa.IZ80FormsA
import AslModel.Lemmas.Isa.IZ80FormsB
import AslModel.Lemmas.Isa.IZ80FormsC
import AslModel.Lemmas.Isa.IZ80FormsD
/-! Lemmas for C14 / Z80, part 7: assembling soundness and acceptance for every mnemonic of the SPEC. -/
namespace AslModel.Isa.IZ80
open AslModel.PFile (Byte b b_toNat)
open AslModel.Spec.IZ80
open AslModel.Generated.IsaZ80

/-- what the proofs need of one `InstTable` entry beyond `rowOK`: the direct handlers are registered for the
mnemonics (and `Word`s) the SPEC's tables give them, every other handler is a layout handler -/
def handOK (e : Mn × Handler) : Bool :=
  match e.2 with
  | .bit c => decide (c < 3) && e.1 == bitMn c
  | .rst _ => e.1 == .RST
  | .im _ => e.1 == .IM
  | .jr _ => e.1 == .JR
  | .djnz _ => e.1 == .DJNZ
  | h => (layout cleanCfg h).isSome

theorem hand_ok : instTable.all handOK = true := by decide

/-- every mnemonic of the SPEC is registered -/
theorem lookup_all : Mn.all.all (fun m => (lookup m).isSome) = true := by decide

theorem lookup_some (mn : Mn) : ∃ h, lookup mn = some h := by
  have := List.all_eq_true.mp lookup_all mn (mem_all mn)
  cases hl : lookup mn with
  | none => simp [hl] at this
  | some h => exact ⟨h, rfl⟩

theorem hand_of_lookup (mn : Mn) (h : Handler) (hl : lookup mn = some h) : handOK (mn, h) = true :=
  List.all_eq_true.mp hand_ok (mn, h) (lookup_mem instTable mn h hl)

/-- mnemonics with direct (non-layout) handlers -/
def isHand : Mn → Bool
  | .BIT | .SET | .RES | .RST | .IM | .JR | .DJNZ => true
  | _ => false

theorem forms_sound (mn : Mn) (hh : isHand mn = false) (fm : Form) (hfm : fm ∈ formsOf mn) : FormSound fm ∧ fm.mn = mn := by
  cases mn <;> first | cases hh | skip
  all_goals
    simp only [formsOf, alu1, alu2, rot, List.mem_cons, List.mem_append, List.mem_nil_iff, or_false, false_or] at hfm
    repeat' (rcases hfm with hfm | hfm)
    all_goals
      try subst hfm
      refine ⟨?_, rfl⟩
      first
      | exact closed_form_sound _ (by decide)
      | exact fs_LD_r_n | exact fs_LD_r_m | exact fs_LD_m_r | exact fs_LD_m_n | exact fs_LD_A_mnn | exact fs_LD_mnn_A
      | exact fs_LD_dd_nn | exact fs_LD_xy_nn | exact fs_LD_dd_mnn | exact fs_LD_xy_mnn | exact fs_LD_mnn_dd | exact fs_LD_mnn_xy
      | exact fs_ADD_A_m | exact fs_ADD_A_n | exact fs_ADC_A_m | exact fs_ADC_A_n | exact fs_SBC_A_m | exact fs_SBC_A_n
      | exact fs_SUB_m | exact fs_SUB_n | exact fs_SUB_A_m_dropA | exact fs_SUB_A_n_dropA
      | exact fs_AND_m | exact fs_AND_n | exact fs_AND_A_m_dropA | exact fs_AND_A_n_dropA
      | exact fs_OR_m | exact fs_OR_n | exact fs_OR_A_m_dropA | exact fs_OR_A_n_dropA
      | exact fs_XOR_m | exact fs_XOR_n | exact fs_XOR_A_m_dropA | exact fs_XOR_A_n_dropA
      | exact fs_CP_m | exact fs_CP_n | exact fs_CP_A_m_dropA | exact fs_CP_A_n_dropA
      | exact fs_INC_m | exact fs_DEC_m | exact fs_RLC_m | exact fs_RL_m | exact fs_RRC_m | exact fs_RR_m
      | exact fs_SLA_m | exact fs_SRA_m | exact fs_SRL_m
      | exact fs_JP_adr | exact fs_JP_cc_adr | exact fs_CALL_adr | exact fs_CALL_cc_adr | exact fs_IN_A_port | exact fs_OUT_port_A

theorem hand_no_layout : Mn.all.all (fun m => !isHand m ||
    match lookup m with | some h => (layout cleanCfg h).isNone | none => true) = true := by decide

theorem not_hand_of_layout (mn : Mn) (h : Handler) (f : List AOp → L) (hl : lookup mn = some h)
    (hf : layout cleanCfg h = some f) : isHand mn = false := by
  have := List.all_eq_true.mp hand_no_layout mn (mem_all mn)
  simp only [hl, hf, Option.isNone_some, Bool.or_false, Bool.not_eq_true'] at this
  exact this

/-- soundness of a layout handler (documented-Z80 configuration), all operand values -/
theorem layout_sound (cpu pc : Nat) (mn : Mn) (h : Handler) (f : List AOp → L) (ops : List Opnd) (bs : List Byte)
    (hl : lookup mn = some h) (hf : layout cleanCfg h = some f)
    (he : encode cleanCfg cpu pc ⟨mn, ops⟩ = .ok bs) :
    decode cpu pc bs = some (meaning pc ⟨mn, ops⟩, bs.length) := by
  by_cases hc : ops.all isClosed = true
  · rw [encode_eq _ _ _ _ _ _ hl] at he
    simp only [dispatch, hf] at he
    cases hok : f (ops.map absOf) with
    | error e => rw [hok] at he; cases he
    | ok ps =>
      rw [hok] at he
      simp only [mapOk, Except.ok.injEq] at he
      subst he
      exact layout_sound_closed cpu pc mn h f ops ps hl hf hc hok
  · have hv : ops.all isClosed = false := by simpa using hc
    have hleg : legal cpu pc ⟨mn, ops⟩ = true := by
      rw [layout_range cpu pc mn h f ops hl hf]
      have he' := he
      rw [encode_eq _ _ _ _ _ _ hl] at he'
      simp only [dispatch, hf] at he'
      cases hok : f (ops.map absOf) with
      | error e => rw [hok] at he'; cases he'
      | ok ps => rfl
    rw [legal_eq_any] at hleg
    simp only [List.any_eq_true] at hleg
    obtain ⟨fm, hfm, hm⟩ := hleg
    obtain ⟨hfs, hmn⟩ := forms_sound mn (not_hand_of_layout mn h f hl hf) fm hfm
    rw [meaning_of_match pc mn h f hl hf ops fm hfm hm]
    have := hfs cpu pc ops bs hm hv (by rw [hmn]; exact he)
    rw [hmn] at this
    exact this

/-! ## the behaviour flags (known findings) -/

/-- does the treatment of a statement with these operand shapes depend on a flag that is set? -/
def affectedH (cfg : Cfg) : Handler → List Opnd → Bool
  | .alu8 c, [d, _] => c == 2 && ((d == .r16 .HL && cfg.subHLAbs) || (d == .r16 .SP && cfg.subSPImm))
  | .inOut o, [a1, a2] =>
    if o ≠ 0 then a1 == .indC && a2 == .r8 .iHL && cfg.outIndHL else a2 == .indC && a1 == .r8 .iHL && cfg.inIndHL
  | _, _ => false

/-- the statement is one of the known findings that the configuration enables: `SUB HL,(nn)`, `SUB SP,nn`,
`IN (HL),(C)`, `OUT (C),(HL)` -/
def affected (cfg : Cfg) (s : Src) : Bool :=
  match lookup s.mn with
  | some h => affectedH cfg h (s.ops.map erase)
  | none => false

theorem layALU8_cfg (cfg : Cfg) (c : Nat) (ops : List Opnd) (ha : affectedH cfg (.alu8 c) (ops.map erase) = false) :
    layALU8 cfg c (ops.map absOf) = layALU8 cleanCfg c (ops.map absOf) := by
  rcases ops with _ | ⟨o1, _ | ⟨o2, _ | ⟨o3, t⟩⟩⟩
  · rfl
  · simp [layALU8]
  · simp only [List.map_cons, List.map_nil, affectedH, Bool.and_eq_false_imp, Bool.or_eq_false_iff, beq_iff_eq] at ha
    simp only [List.map_cons, List.map_nil, layALU8, absOf, cleanCfg]
    by_cases h1 : erase o1 = .r16 .HL
    · by_cases hc : c = 2
      · have := (ha hc).1
        simp only [h1, beq_self_eq_true, Bool.true_and] at this
        simp [h1, hc, this]
      · simp [h1, hc]
    · by_cases h2 : erase o1 = .r16 .SP
      · by_cases hc : c = 2
        · have := (ha hc).2
          simp only [h2, beq_self_eq_true, Bool.true_and] at this
          simp [h2, hc, this]
        · simp [h2, hc]
      · simp [h1, h2]
  · rfl

theorem layIN_OUT_cfg (cfg : Cfg) (o : Nat) (ops : List Opnd) (ha : affectedH cfg (.inOut o) (ops.map erase) = false) :
    layIN_OUT cfg o (ops.map absOf) = layIN_OUT cleanCfg o (ops.map absOf) := by
  rcases ops with _ | ⟨o1, _ | ⟨o2, _ | ⟨o3, t⟩⟩⟩
  · rfl
  · rfl
  · simp only [List.map_cons, List.map_nil, affectedH] at ha
    simp only [List.map_cons, List.map_nil, layIN_OUT, absOf, cleanCfg]
    by_cases ho : o = 0
    · have ha' : ¬ (erase o2 = .indC ∧ erase o1 = .r8 .iHL ∧ cfg.inIndHL = true) := by
        intro ⟨a, b', c⟩
        simp [ho, a, b', c] at ha
      by_cases hp : erase o2 = .indC
      · by_cases hr : erase o1 = .r8 .iHL
        · have : cfg.inIndHL = false := by
            cases hq : cfg.inIndHL
            · rfl
            · exact absurd ⟨hp, hr, hq⟩ ha'
          simp [ho, hp, hr, this]
        · simp [ho, hp, hr]
      · simp [ho, hp]
    · have ha' : ¬ (erase o1 = .indC ∧ erase o2 = .r8 .iHL ∧ cfg.outIndHL = true) := by
        intro ⟨a, b', c⟩
        simp [ho, a, b', c] at ha
      by_cases hp : erase o1 = .indC
      · by_cases hr : erase o2 = .r8 .iHL
        · have : cfg.outIndHL = false := by
            cases hq : cfg.outIndHL
            · rfl
            · exact absurd ⟨hp, hr, hq⟩ ha'
          simp [ho, hp, hr, this]
        · simp [ho, hp, hr]
      · simp [ho, hp]
  · rfl

theorem dispatch_cfg (cfg : Cfg) (pc : Nat) (h : Handler) (ops : List Opnd) (ha : affectedH cfg h (ops.map erase) = false) :
    dispatch cfg pc h ops = dispatch cleanCfg pc h ops := by
  cases h <;> try rfl
  · simp only [dispatch, layout, layIN_OUT_cfg cfg _ ops ha]
  · simp only [dispatch, layout, layALU8_cfg cfg _ ops ha]

/-- statements that are not an enabled finding are treated as by the documented-Z80 configuration -/
theorem encode_cfg (cfg : Cfg) (cpu pc : Nat) (s : Src) (ha : affected cfg s = false) :
    encode cfg cpu pc s = encode cleanCfg cpu pc s := by
  unfold affected at ha
  unfold encode
  cases hl : lookup s.mn with
  | none => rfl
  | some h =>
    simp only [hl] at ha
    simp only [dispatch_cfg cfg pc h s.ops ha]

theorem affected_clean (s : Src) : affected cleanCfg s = false := by
  unfold affected
  cases lookup s.mn with
  | none => rfl
  | some h =>
    simp only
    cases h <;> try rfl
    · rename_i o
      rcases (s.ops.map erase) with _ | ⟨a, _ | ⟨b', _ | ⟨c, t⟩⟩⟩ <;> simp [affectedH, cleanCfg]
    · rename_i c
      rcases (s.ops.map erase) with _ | ⟨a, _ | ⟨b', _ | ⟨c', t⟩⟩⟩ <;> simp [affectedH, cleanCfg]

/-! ## all mnemonics -/

/-- **soundness**, documented-Z80 configuration -/
theorem sound_clean (hjr : jrMin = -128 ∧ jrMax = 127 ∧ djnzMin = -128 ∧ djnzMax = 127) (cpu pc : Nat) (s : Src) (bs : List Byte)
    (he : encode cleanCfg cpu pc s = .ok bs) : decode cpu pc bs = some (meaning pc s, bs.length) := by
  obtain ⟨mn, ops⟩ := s
  obtain ⟨h, hl⟩ := lookup_some mn
  have hk := hand_of_lookup mn h hl
  cases hf : layout cleanCfg h with
  | some f => exact layout_sound cpu pc mn h f ops bs hl hf he
  | none =>
    rw [encode_eq _ _ _ _ _ _ hl] at he
    simp only [dispatch, hf] at he
    cases h <;> simp only [layout, reduceCtorEq] at hf <;> simp only [handOK, Bool.and_eq_true, beq_iff_eq, decide_eq_true_eq] at hk
    · -- jr
      subst hk
      exact jr_sound hjr.1 hjr.2.1 cpu pc ops bs he
    · subst hk
      exact djnz_sound hjr.2.2.1 hjr.2.2.2 cpu pc ops bs he
    · subst hk
      exact rst_sound cpu pc ops bs he
    · subst hk
      exact im_sound cpu pc ops bs he
    · rename_i c
      obtain ⟨hc, hmn⟩ := hk
      have hfo : formsOf mn = bitop mn := by
        subst hmn
        rcases c with _ | _ | _ | c <;> first | rfl | omega
      exact bit_sound c hc mn hmn hfo cpu pc ops bs he

/-- **acceptance**, documented-Z80 configuration -/
theorem range_clean (hjr : jrMin = -128 ∧ jrMax = 127 ∧ djnzMin = -128 ∧ djnzMax = 127) (cpu pc : Nat) (s : Src) :
    legal cpu pc s = isOk (encode cleanCfg cpu pc s) := by
  obtain ⟨mn, ops⟩ := s
  obtain ⟨h, hl⟩ := lookup_some mn
  have hk := hand_of_lookup mn h hl
  cases hf : layout cleanCfg h with
  | some f =>
    rw [layout_range cpu pc mn h f ops hl hf, encode_eq _ _ _ _ _ _ hl]
    simp only [dispatch, hf, isOk_mapOk]
  | none =>
    rw [encode_eq _ _ _ _ _ _ hl, legal_eq_any]
    simp only [dispatch, hf]
    cases h <;> simp only [layout, reduceCtorEq] at hf <;> simp only [handOK, Bool.and_eq_true, beq_iff_eq, decide_eq_true_eq] at hk
    · subst hk
      exact jr_range hjr.1 hjr.2.1 pc ops
    · subst hk
      exact djnz_range hjr.2.2.1 hjr.2.2.2 pc ops
    · subst hk
      exact rst_range pc ops
    · subst hk
      exact im_range pc ops
    · rename_i c
      obtain ⟨hc, hmn⟩ := hk
      subst hmn
      rcases c with _ | _ | _ | c <;> first | exact bit_range pc _ ops | omega

end AslModel.Isa.IZ80
