import AslModel.Lemmas.Isa.IZ80
/-! Lemmas for C14 / Z80, part 2a: the complete table `mnemonic × representative operands` decided by evaluation,
two rows of the regenerated `InstTable` per theorem (part files are built in parallel). -/
namespace AslModel.Isa.IZ80
open AslModel.Spec.IZ80
open AslModel.Generated.IsaZ80

theorem slice_0 : sliceOK 0 = true := by decide +kernel

end AslModel.Isa.IZ80
