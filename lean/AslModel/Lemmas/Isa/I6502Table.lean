import AslModel.Lemmas.Isa.Common
import AslModel.Model.Isa.I6502
/-! C14 / 6502, table part: what the SPEC demands of one `InstTable` entry (`Good`), decided over the whole
regenerated table for the three CPUs, and the agreement of the SPEC's two presentations of the instruction set
(opcode matrix `decode1`, per-instruction tables `opcodeOf`).  The `decide`s live in this file so that the proofs
in `Lemmas/Isa/I6502.lean` rebuild quickly. -/
namespace AslModel.Isa.I6502
open AslModel.PFile (Byte b b_toNat)
open AslModel.Spec.I6502
open AslModel.Generated.Isa6502
open AslModel.Generated (itInt8 itInt16 itUInt8 itUInt16 itSInt8)

theorem mem_all (m : Mn) : m ∈ Mn.all := by cases m <;> decide

def allModes : List Mode :=
  [.impl, .acc, .imm, .zp, .zpX, .zpY, .abs, .absX, .absY, .indX, .indY, .ind, .zpInd, .absIndX, .rel, .zpRel]

theorem mem_allModes (md : Mode) : md ∈ allModes := by cases md <;> decide

/-- SPEC consistency, matrix → tables: every entry of the opcode matrix is the instruction table's entry -/
theorem decode1_opcodeOf_all : [0, 1, 2].all (fun cpu => (List.range 256).all fun op =>
    match decode1 cpu op with
    | some (m, md) => opcodeOf cpu m md == some op
    | none => true) = true := by decide +kernel

/-- SPEC consistency, tables → matrix -/
theorem opcodeOf_decode1_all : [0, 1, 2].all (fun cpu => Mn.all.all fun m => allModes.all fun md =>
    match opcodeOf cpu m md with
    | some op => decide (op < 256) && decode1 cpu op == some (m, md)
    | none => true) = true := by decide +kernel

/-- the constants the theorems are about: branch displacement relative to `pc + 2` / `pc + 3`, distance `-128..127`;
`fl` = DecodeNorm's fall-back appends through the result's own counter; `nm` = the NMOS `JMP ($xxFF)` rule is applied
to the CMOS 65SC02 as well (pinned source) instead of to the NMOS 6502 only -/
def stdCfg (fl nm : Bool) : Cfg := ⟨4, 127, -128, 3, 127, -128, fl, if nm then [0, 1] else [0]⟩

/-- a code of an order record agrees with the SPEC's opcode map for addressing mode `md` of `m` on `cpu` -/
def modeOk (cpu : Nat) (m : Mn) (c : Int) (md : Mode) : Bool :=
  decide (-1 ≤ c) && (hasMode cpu m md == isAllowed cpu c) &&
  (!isAllowed cpu c || decode1 cpu (c.toNat % 256) == some (m, md))

/-- a code for a mode outside the SPEC's syntax / ISA is not enabled on this CPU -/
def modeOff (cpu : Nat) (c : Int) : Bool := decide (-1 ≤ c) && !isAllowed cpu c

def isJJ (m : Mn) : Bool := m == .JMP || m == .JSR

/-- what the SPEC demands of a `NormOrder` record -/
def normOk (cpu : Nat) (m : Mn) (codes : List Int) : Bool :=
  codes.length == 17 &&
  [Syn.dir, Syn.idxX, Syn.idxY, Syn.ind].all (fun syn =>
    modeOk cpu m (codeAt codes (shortMode syn)) (zpForm syn) && modeOk cpu m (codeAt codes (longMode syn)) (absForm syn)) &&
  modeOk cpu m (codeAt codes modImm) .imm &&
  modeOk cpu m (codeAt codes modAcc) .acc &&
  modeOk cpu m (codeAt codes modNone) (noneMode m) &&
  modeOk cpu m (codeAt codes modIndOY) .indY &&
  modeOk cpu m (codeAt codes modIndIX) (if isJJ m then .absIndX else .indX) &&
  !hasMode cpu m (if isJJ m then .indX else .absIndX)

/-- what the SPEC demands of one `InstTable` entry on one CPU -/
def goodOn (cpu : Nat) (m : Mn) : Handler → Bool
  | .fixed flag code =>
    form m == .impl && decide (code < 256) && (hasMode cpu m .impl == cpuAllowed cpu flag) &&
    (!cpuAllowed cpu flag || decode1 cpu code == some (m, .impl))
  | .norm codes => form m == .norm && normOk cpu m codes
  | .cond flag short long =>
    form m == .rel && decide (short < 256) && decide (short ≠ 0) && (hasMode cpu m .rel == cpuAllowed cpu flag) &&
    (!cpuAllowed cpu flag || decode1 cpu short == some (m, .rel)) && decide (long < 256)
  | .brk => form m == .brk && m == .BRK && decode1 cpu 0 == some (.BRK, .impl)
  | .bbr code =>
    form m == .bitRel && decide (code < 256) && (hasMode cpu m .zpRel == cpuAllowed cpu bbrCpuMask) &&
    (!cpuAllowed cpu bbrCpuMask || decode1 cpu code == some (m, .zpRel))
  | .rmb code =>
    form m == .bit && decide (code < 256) && (hasMode cpu m .zp == cpuAllowed cpu rmbCpuMask) &&
    (!cpuAllowed cpu rmbCpuMask || decode1 cpu code == some (m, .zp))

def Good (m : Mn) (h : Handler) : Bool := [0, 1, 2].all fun cpu => goodOn cpu m h

set_option maxRecDepth 100000 in
theorem table_good : Mn.all.all (fun m => match lookup m with | some h => Good m h | none => false) = true := by
  decide +kernel

end AslModel.Isa.I6502
