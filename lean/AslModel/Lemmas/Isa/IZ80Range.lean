import AslModel.Lemmas.Isa.IZ80Table
/-! Lemmas for C14 / Z80, part 3: acceptance (`legal ↔ isOk encode`), lifted from the table over
representatives for the layout handlers, proved directly for `BIT/SET/RES`, `RST`, `IM`, `JR`, `DJNZ`. -/
namespace AslModel.Isa.IZ80
open AslModel.PFile (Byte b b_toNat)
open AslModel.Spec.IZ80
open AslModel.Generated.IsaZ80
open AslModel.Generated (itInt8 itInt16 itUInt8 itUInt16 itSInt8 itUInt3 itUInt2)

theorem lookup_mem {α β : Type} [BEq α] [LawfulBEq α] (l : List (α × β)) (a : α) (v : β) (h : l.lookup a = some v) : (a, v) ∈ l := by
  induction l with
  | nil => simp [List.lookup] at h
  | cons x xs ih =>
    obtain ⟨k, w⟩ := x
    simp only [List.lookup] at h
    split at h
    · rename_i heq
      have hk : a = k := by simpa using heq
      simp only [Option.some.injEq] at h
      subst hk h
      exact List.mem_cons_self
    · exact List.mem_cons_of_mem _ (ih h)

theorem row_of_lookup (mn : Mn) (h : Handler) (f : List AOp → L) (hl : lookup mn = some h) (hf : layout cleanCfg h = some f) :
    rowOK mn h f = true := by
  have hm := lookup_mem instTable mn h hl
  have := List.all_eq_true.mp table_ok (mn, h) hm
  simpa [rowCheck, hf] using this

theorem isOk_mapOk {α β : Type} (g : α → β) (x : Except Err α) : isOk (mapOk g x) = isOk x := by
  cases x <;> rfl

theorem map_absOf_rep (ops : List Opnd) : (ops.map rep).map absOf = ops.map absOf := by
  rw [List.map_map]
  exact List.map_congr_left fun o _ => absOf_rep o

theorem inClass_pc (pc : Nat) (c : OC) (hc : plainClass c = true) (o : Opnd) : inClass pc c o = inClass 0 c o := by
  cases c <;> first | exact absurd hc (by decide) | rfl

theorem matchOps_pc (pc : Nat) (cs : List OC) (hc : cs.all plainClass = true) (ops : List Opnd) :
    matchOps pc cs ops = matchOps 0 cs ops := by
  rcases cs with _ | ⟨c1, _ | ⟨c2, _ | ⟨c3, cs⟩⟩⟩ <;> rcases ops with _ | ⟨o1, _ | ⟨o2, _ | ⟨o3, os⟩⟩⟩ <;>
    simp only [List.all_cons, List.all_nil, Bool.and_eq_true, Bool.and_true] at hc <;>
    simp only [matchOps]
  · rw [inClass_pc pc c1 hc]
  · rw [inClass_pc pc c1 hc.1, inClass_pc pc c2 hc.2]

theorem legal_eq_any (cpu pc : Nat) (s : Src) : legal cpu pc s = (formsOf s.mn).any fun f => matchOps pc f.ocs s.ops := by
  simp [legal, minCpu]

/-- for mnemonics with plain forms, legality is that of the statement of representatives at `pc = 0` -/
theorem legal_rep (cpu pc : Nat) (mn : Mn) (ops : List Opnd) (hp : plainForms mn = true) :
    legal cpu pc ⟨mn, ops⟩ = legal 0 0 ⟨mn, ops.map rep⟩ := by
  rw [legal_eq_any, legal_eq_any]
  simp only
  unfold plainForms at hp
  rw [List.all_eq_true] at hp
  apply Bool.eq_iff_iff.mpr
  simp only [List.any_eq_true]
  constructor
  · rintro ⟨f, hf, hm⟩
    have := hp f hf
    simp only [Bool.and_eq_true] at this
    exact ⟨f, hf, by rw [matchOps_rep 0 f.ocs this.1, ← matchOps_pc pc f.ocs this.1]; exact hm⟩
  · rintro ⟨f, hf, hm⟩
    have := hp f hf
    simp only [Bool.and_eq_true] at this
    exact ⟨f, hf, by rw [matchOps_rep 0 f.ocs this.1, ← matchOps_pc pc f.ocs this.1] at hm; exact hm⟩

theorem matchOps_len3 (pc : Nat) (cs : List OC) (hl : cs.length ≤ 2) (a b' c : Opnd) (t : List Opnd) :
    matchOps pc cs (a :: b' :: c :: t) = false := by
  rcases cs with _ | ⟨c1, _ | ⟨c2, _ | ⟨c3, cs⟩⟩⟩ <;> first | rfl | (simp at hl; omega)

theorem matchOps_len2 (pc : Nat) (cs : List OC) (hl : cs.length ≤ 1) (a b' : Opnd) (t : List Opnd) :
    matchOps pc cs (a :: b' :: t) = false := by
  rcases cs with _ | ⟨c1, _ | ⟨c2, cs⟩⟩ <;> first | rfl | (simp at hl)

theorem layout_len3 (cfg : Cfg) (h : Handler) (f : List AOp → L) (hf : layout cfg h = some f) (a b' c : AOp) (t : List AOp) :
    f (a :: b' :: c :: t) = .error .argCnt := by
  cases h <;> simp only [layout, Option.some.injEq] at hf <;> first | (subst hf; rfl) | cases hf

theorem layout_len2 (cfg : Cfg) (h : Handler) (f : List AOp → L) (hf : layout cfg h = some f) (h2 : twoOps h = false)
    (a b' : AOp) : f [a, b'] = .error .argCnt := by
  cases h <;> simp only [layout, Option.some.injEq] at hf <;> first | (simp [twoOps] at h2; done) | (subst hf; rfl) | cases hf

/-- acceptance of a layout handler (documented-Z80 configuration) is the SPEC's legality -/
theorem layout_range (cpu pc : Nat) (mn : Mn) (h : Handler) (f : List AOp → L) (ops : List Opnd)
    (hl : lookup mn = some h) (hf : layout cleanCfg h = some f) :
    legal cpu pc ⟨mn, ops⟩ = isOk (f (ops.map absOf)) := by
  have hrow := row_of_lookup mn h f hl hf
  simp only [rowOK, Bool.and_eq_true, List.all_eq_true] at hrow
  obtain ⟨⟨⟨⟨⟨hp, _⟩, _⟩, h0⟩, h1⟩, h2⟩ := hrow
  rw [legal_rep cpu pc mn ops hp, ← map_absOf_rep ops]
  have hp' := hp
  unfold plainForms at hp'
  rw [List.all_eq_true] at hp'
  rcases hops : ops with _ | ⟨o1, _ | ⟨o2, _ | ⟨o3, t⟩⟩⟩
  · simp only [chkAt, rangeAt, Bool.and_eq_true, beq_iff_eq] at h0
    exact h0.1.1
  · have := h1 (rep o1) (rep_mem o1)
    simp only [chkAt, rangeAt, Bool.and_eq_true, beq_iff_eq] at this
    exact this.1.1
  · by_cases ht : twoOps h = true
    · simp only [ht, if_true, List.all_eq_true] at h2
      have := h2 (rep o1) (rep_mem o1) (rep o2) (rep_mem o2)
      simp only [chkAt, rangeAt, Bool.and_eq_true, beq_iff_eq] at this
      exact this.1.1
    · have ht' : twoOps h = false := by simpa using ht
      simp only [ht', Bool.false_eq_true, if_false, List.all_eq_true, decide_eq_true_eq] at h2
      simp only [List.map_cons, List.map_nil]
      rw [layout_len2 cleanCfg h f hf ht', legal_eq_any]
      simp only [isOk]
      rw [Bool.eq_false_iff]
      intro hcon
      rw [List.any_eq_true] at hcon
      obtain ⟨fm, hfm, hm⟩ := hcon
      rw [matchOps_len2 0 fm.ocs (h2 fm hfm)] at hm
      cases hm
  · simp only [List.map_cons]
    rw [layout_len3 cleanCfg h f hf, legal_eq_any]
    simp only [isOk]
    rw [Bool.eq_false_iff]
    intro hcon
    rw [List.any_eq_true] at hcon
    obtain ⟨fm, hfm, hm⟩ := hcon
    have := hp' fm hfm
    simp only [Bool.and_eq_true, decide_eq_true_eq] at this
    rw [matchOps_len3 0 fm.ocs this.2] at hm
    cases hm

end AslModel.Isa.IZ80
