import AslModel.Lemmas.Isa.IZ80
/-! Lemmas for C14 / Z80, part 2c: the complete table `mnemonic × representative operands` decided by evaluation,
two rows of the regenerated `InstTable` per theorem (part files are built in parallel). -/
namespace AslModel.Isa.IZ80
open AslModel.Spec.IZ80
open AslModel.Generated.IsaZ80

theorem slice_14 : sliceOK 14 = true := by decide +kernel
theorem slice_16 : sliceOK 16 = true := by decide +kernel
theorem slice_18 : sliceOK 18 = true := by decide +kernel
theorem slice_20 : sliceOK 20 = true := by decide +kernel
theorem slice_22 : sliceOK 22 = true := by decide +kernel
theorem slice_24 : sliceOK 24 = true := by decide +kernel
theorem slice_26 : sliceOK 26 = true := by decide +kernel
theorem slice_28 : sliceOK 28 = true := by decide +kernel
theorem slice_30 : sliceOK 30 = true := by decide +kernel
theorem slice_32 : sliceOK 32 = true := by decide +kernel
theorem slice_34 : sliceOK 34 = true := by decide +kernel
theorem slice_36 : sliceOK 36 = true := by decide +kernel
theorem slice_38 : sliceOK 38 = true := by decide +kernel
theorem slice_40 : sliceOK 40 = true := by decide +kernel
theorem slice_42 : sliceOK 42 = true := by decide +kernel
theorem slice_44 : sliceOK 44 = true := by decide +kernel
theorem slice_46 : sliceOK 46 = true := by decide +kernel
theorem slice_48 : sliceOK 48 = true := by decide +kernel
theorem slice_50 : sliceOK 50 = true := by decide +kernel

end AslModel.Isa.IZ80
