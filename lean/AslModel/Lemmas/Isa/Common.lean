import AslModel.Model.Isa.Common
/-! Lemmas shared by the ISA proofs (C14): the `IntTypeDefs` rows the encoders use, `Hi`/`Lo` arithmetic. -/
namespace AslModel.Isa
open AslModel.PFile (Byte b b_toNat)

/-- the rows of the regenerated `IntTypeDefs[]` the modelled encoders range-check against -/
theorem inttypes_rows :
    Generated.intTypeDefs[Generated.itUInt1]? = some ⟨"UInt1", 0x0001, 0, 1, 1⟩ ∧
    Generated.intTypeDefs[Generated.itUInt3]? = some ⟨"UInt3", 0x0003, 0, 7, 7⟩ ∧
    Generated.intTypeDefs[Generated.itUInt4]? = some ⟨"UInt4", 0x0004, 0, 15, 15⟩ ∧
    Generated.intTypeDefs[Generated.itUInt9]? = some ⟨"UInt9", 0x0009, 0, 511, 511⟩ ∧
    Generated.intTypeDefs[Generated.itUInt12]? = some ⟨"UInt12", 0x000c, 0, 4095, 4095⟩ ∧
    Generated.intTypeDefs[Generated.itInt8]? = some ⟨"Int8", 0xc008, -128, 255, 255⟩ ∧
    Generated.intTypeDefs[Generated.itInt16]? = some ⟨"Int16", 0xc010, -32768, 65535, 65535⟩ ∧
    Generated.intTypeDefs[Generated.itUInt16]? = some ⟨"UInt16", 0x0010, 0, 65535, 65535⟩ ∧
    Generated.intTypeDefs[Generated.itSInt8]? = some ⟨"SInt8", 0x8008, -128, 127, 127⟩ ∧
    Generated.intTypeDefs[Generated.itUInt8]? = some ⟨"UInt8", 0x0008, 0, 255, 255⟩ ∧
    Generated.itInt16 < Generated.intTypeNoCheckFrom ∧ Generated.itUInt16 < Generated.intTypeNoCheckFrom := by
  decide

private theorem rc_aux (typ : Nat) (nm : String) (sw : Nat) (mn mx : Int) (mk : Nat)
    (hrow : Generated.intTypeDefs[typ]? = some ⟨nm, sw, mn, mx, mk⟩) (hlt : typ < Generated.intTypeNoCheckFrom) (v : Int) :
    rangeCheck v typ = (decide (mn ≤ v) && decide (v ≤ mx)) := by
  unfold rangeCheck
  have : ¬ (typ ≥ Generated.intTypeNoCheckFrom) := by omega
  simp only [this, if_false, hrow]

theorem rangeCheck_UInt1 (v : Int) : rangeCheck v Generated.itUInt1 = (decide (0 ≤ v) && decide (v ≤ 1)) :=
  rc_aux _ _ _ _ _ _ inttypes_rows.1 (by decide) v
theorem rangeCheck_UInt3 (v : Int) : rangeCheck v Generated.itUInt3 = (decide (0 ≤ v) && decide (v ≤ 7)) :=
  rc_aux _ _ _ _ _ _ inttypes_rows.2.1 (by decide) v
theorem rangeCheck_UInt4 (v : Int) : rangeCheck v Generated.itUInt4 = (decide (0 ≤ v) && decide (v ≤ 15)) :=
  rc_aux _ _ _ _ _ _ inttypes_rows.2.2.1 (by decide) v
theorem rangeCheck_UInt9 (v : Int) : rangeCheck v Generated.itUInt9 = (decide (0 ≤ v) && decide (v ≤ 511)) :=
  rc_aux _ _ _ _ _ _ inttypes_rows.2.2.2.1 (by decide) v
theorem rangeCheck_UInt12 (v : Int) : rangeCheck v Generated.itUInt12 = (decide (0 ≤ v) && decide (v ≤ 4095)) :=
  rc_aux _ _ _ _ _ _ inttypes_rows.2.2.2.2.1 (by decide) v
theorem rangeCheck_Int8 (v : Int) : rangeCheck v Generated.itInt8 = (decide (-128 ≤ v) && decide (v ≤ 255)) :=
  rc_aux _ _ _ _ _ _ inttypes_rows.2.2.2.2.2.1 (by decide) v
theorem rangeCheck_Int16 (v : Int) : rangeCheck v Generated.itInt16 = (decide (-32768 ≤ v) && decide (v ≤ 65535)) :=
  rc_aux _ _ _ _ _ _ inttypes_rows.2.2.2.2.2.2.1 (by decide) v
theorem rangeCheck_UInt16 (v : Int) : rangeCheck v Generated.itUInt16 = (decide (0 ≤ v) && decide (v ≤ 65535)) :=
  rc_aux _ _ _ _ _ _ inttypes_rows.2.2.2.2.2.2.2.1 (by decide) v
theorem rangeCheck_SInt8 (v : Int) : rangeCheck v Generated.itSInt8 = (decide (-128 ≤ v) && decide (v ≤ 127)) :=
  rc_aux _ _ _ _ _ _ inttypes_rows.2.2.2.2.2.2.2.2.1 (by decide) v
theorem rangeCheck_UInt8 (v : Int) : rangeCheck v Generated.itUInt8 = (decide (0 ≤ v) && decide (v ≤ 255)) :=
  rc_aux _ _ _ _ _ _ inttypes_rows.2.2.2.2.2.2.2.2.2.1 (by decide) v

/-- `evalInt` succeeds exactly inside the type's range and hands the value through -/
theorem evalInt_ok (typ : Nat) (lo' hi' : Int) (h : ∀ v, rangeCheck v typ = (decide (lo' ≤ v) && decide (v ≤ hi'))) (v : Int) :
    (lo' ≤ v ∧ v ≤ hi' → evalInt typ v = .ok v) ∧ (¬ (lo' ≤ v ∧ v ≤ hi') → evalInt typ v = .error .overRange) := by
  unfold evalInt
  rw [h v]
  constructor
  · intro ⟨h1, h2⟩; simp [h1, h2]
  · intro hn
    by_cases h1 : lo' ≤ v <;> by_cases h2 : v ≤ hi' <;> simp [h1, h2]
    exact hn ⟨h1, h2⟩

end AslModel.Isa
