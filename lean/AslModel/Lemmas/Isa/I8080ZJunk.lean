import AslModel.Lemmas.Isa.I8080Z
/-!
C14 / 8080 + 8085, Z80-style syntax: a statement with an operand that is no name of its kind (`junk`: a register, register
pair or condition whose number is outside the names) is refused by the model (`encode_junk`) and has no 8080 spelling
(`intel_no_junk`, by inversion of `Spec.I8080Z.intel`).
-/
set_option linter.unusedSimpArgs false
namespace AslModel.Isa.I8080Z
open AslModel.PFile (Byte b b_toNat)
open AslModel.Spec.I8080Z AslModel.Generated.Isa8080Z

/-! ### SPEC side -/

set_option maxHeartbeats 4000000 in
/-- a statement that has an 8080 spelling has no `junk` operand -/
theorem intel_no_junk (excl : Bool) (s : Src) (i : ISrc) (h : intel excl s = some i) :
    s.args.all (fun o => !junk o) = true := by
  obtain ⟨m, args⟩ := s
  unfold intel at h
  split at h
  all_goals (subst_vars)
  all_goals (try (repeat' split at h))
  all_goals (try simp_all [junk, zr8, pair, src8, alu, condOk])
  all_goals (try omega)
  all_goals (try (rename_i hh; rcases hh with ⟨rfl, rfl⟩ | ⟨rfl, rfl⟩ <;> simp [junk]; done))
  all_goals (try (subst_vars; cases ‹Opd› <;> simp_all [junk, alu, src8, zr8] <;> omega; done))
  all_goals (try (subst_vars; cases ‹Opd› <;> simp_all [junk, alu, src8, zr8] <;> (try split at h) <;> simp_all <;> omega; done))

theorem viaIntel_junk (excl : Bool) (cpu : Nat) (s : Src) (o : Opd) (ho : o ∈ s.args) (hj : junk o = true) :
    viaIntel excl cpu s = none := by
  unfold viaIntel
  cases hi : intel excl s with
  | none => rfl
  | some i =>
    have := List.all_eq_true.mp (intel_no_junk excl s i hi) o ho
    simp [hj] at this

/-! ### MODEL side: every primitive that reads an operand fails on `junk` -/

theorem junk_r8 {r : Int} (h : junk (.r8 r) = true) : ¬ (0 ≤ r ∧ r < 8) := by
  simp only [junk, Bool.not_eq_true', Bool.and_eq_false_iff, decide_eq_false_iff_not] at h; omega
theorem junk_r16 {r : Int} (h : junk (.r16 r) = true) : ¬ (0 ≤ r ∧ r < 4) := by
  simp only [junk, Bool.not_eq_true', Bool.and_eq_false_iff, decide_eq_false_iff_not] at h; omega
theorem junk_ind {r : Int} (h : junk (.ind r) = true) : ¬ (0 ≤ r ∧ r < 4) := by
  simp only [junk, Bool.not_eq_true', Bool.and_eq_false_iff, decide_eq_false_iff_not] at h; omega
theorem junk_cond {r : Int} (h : junk (.cond r) = true) : ¬ (0 ≤ r ∧ r < 8) := by
  simp only [junk, Bool.not_eq_true', Bool.and_eq_false_iff, decide_eq_false_iff_not] at h; omega

theorem reg8Z_junk {o : Opd} (h : junk o = true) : reg8Z o = none := by
  cases o with
  | r8 r => have := junk_r8 h; simp only [reg8Z]; split <;> first | rfl | omega
  | cond c => have := junk_cond h; simp only [reg8Z]; split <;> first | rfl | omega
  | _ => rfl

theorem reg8I_junk {o : Opd} (h : junk o = true) : reg8I o = none := by
  cases o with
  | r8 r => have := junk_r8 h; simp only [reg8I]; split <;> first | rfl | omega
  | cond c => have := junk_cond h; simp only [reg8I]; repeat' split
              all_goals first | rfl | omega
  | _ => rfl

theorem reg8Cur_junk {o : Opd} (syn : Nat) (h : junk o = true) : reg8Cur syn o = none := by
  unfold reg8Cur; split
  · exact reg8I_junk h
  · exact reg8Z_junk h

theorem decodeAdr_junk {o : Opd} (sz mask : Nat) (h : junk o = true) : decodeAdr sz mask o = (.error .other, sz) := by
  unfold decodeAdr
  rw [reg8Z_junk h]
  cases o with
  | r16 r => have := junk_r16 h; simp only; split <;> first | rfl | omega
  | ind r => have := junk_ind h; simp only; split <;> first | rfl | omega
  | r8 r => rfl
  | cond c => rfl
  | _ => simp [junk] at h

theorem decodeCondition_junk {o : Opd} (h : junk o = true) : ∃ e, decodeCondition o = .error e := by
  cases o with
  | r8 r => have := junk_r8 h; simp only [decodeCondition]; repeat' split
            all_goals first | exact ⟨_, rfl⟩ | omega
  | cond c => have := junk_cond h; simp only [decodeCondition]; split
              · omega
              · exact ⟨_, rfl⟩
  | _ => exact ⟨_, rfl⟩

theorem evalOpd_junk {o : Opd} (typ : Nat) (h : junk o = true) : evalOpd typ o = .error .other := by
  cases o <;> first | rfl | simp [junk] at h

theorem reg16Cur_junk {o : Opd} (syn : Nat) (h : junk o = true) : reg16Cur syn o = none := by
  cases o with
  | r8 r => have := junk_r8 h; simp only [reg16Cur]; split <;> first | rfl | omega
  | r16 r => have := junk_r16 h; simp only [reg16Cur]; split <;> first | rfl | omega
  | _ => rfl

theorem junk_ne_af {o : Opd} (h : junk o = true) : o ≠ .af := by
  intro e; subst e; simp [junk] at h

theorem okBytes_andThen_none {α : Type} (x : Except Err α) (f : α → Except Err (List Byte)) (hf : ∀ a, okBytes (f a) = none) :
    okBytes (andThen x f) = none := by
  cases x with
  | ok a => exact hf a
  | error e => rfl

theorem okBytes_andThen_err {α : Type} (x : Except Err α) (f : α → Except Err (List Byte)) (hx : ∃ e, x = .error e) :
    okBytes (andThen x f) = none := by
  obtain ⟨e, rfl⟩ := hx; rfl


/-! ### MODEL side: every handler fails when an operand is `junk` -/

theorem okBytes_error' (e : Err) : okBytes (Except.error e : Except Err (List Byte)) = none := rfl

theorem decodeLD_junk (cpu : Nat) (args : List Opd) (o : Opd) (ho : o ∈ args) (hj : junk o = true) :
    okBytes (decodeLD cpu args) = none := by
  rcases args with _ | ⟨o1, _ | ⟨o2, _ | ⟨o3, t⟩⟩⟩
  · simp at ho
  · rfl
  · simp only [List.mem_cons, List.not_mem_nil, or_false] at ho
    rcases ho with rfl | rfl
    · simp [decodeLD, decodeAdr_junk _ _ hj]
    · unfold decodeLD; simp only
      apply okBytes_andThen_none; intro a1
      split <;> simp [decodeAdr_junk _ _ hj]
  · rfl

theorem decodeEX_junk (args : List Opd) (o : Opd) (ho : o ∈ args) (hj : junk o = true) :
    okBytes (decodeEX args) = none := by
  rcases args with _ | ⟨o1, _ | ⟨o2, _ | ⟨o3, t⟩⟩⟩
  · simp at ho
  · rfl
  · simp only [List.mem_cons, List.not_mem_nil, or_false] at ho
    rcases ho with rfl | rfl
    · simp [decodeEX, decodeAdr_junk _ _ hj]
    · unfold decodeEX; simp only
      apply okBytes_andThen_none; intro a1
      split <;> simp [decodeAdr_junk _ _ hj]
  · rfl

theorem accSrc_junk (sz base imm : Nat) (o : Opd) (hj : junk o = true) : okBytes (accSrc sz base imm o) = none := by
  simp [accSrc, decodeAdr_junk _ _ hj]

theorem decodeADD_junk (syn : Nat) (args : List Opd) (o : Opd) (ho : o ∈ args) (hj : junk o = true) :
    okBytes (decodeADD syn args) = none := by
  rcases args with _ | ⟨o1, _ | ⟨o2, _ | ⟨o3, t⟩⟩⟩
  · simp at ho
  · simp only [List.mem_cons, List.not_mem_nil, or_false] at ho
    subst ho
    simp only [decodeADD, reg8I_junk hj]
    split <;> rfl
  · simp only [List.mem_cons, List.not_mem_nil, or_false] at ho
    rcases ho with rfl | rfl
    · simp [decodeADD, decodeAdr_junk _ _ hj]
    · unfold decodeADD; simp only
      apply okBytes_andThen_none; intro a1
      split
      · split
        · rfl
        · exact accSrc_junk _ _ _ _ hj
      · split
        · rfl
        · simp [decodeAdr_junk _ _ hj]
      · rfl
  · rfl

theorem decodeADC_junk (syn : Nat) (args : List Opd) (o : Opd) (ho : o ∈ args) (hj : junk o = true) :
    okBytes (decodeADC syn args) = none := by
  rcases args with _ | ⟨o1, _ | ⟨o2, _ | ⟨o3, t⟩⟩⟩
  · simp at ho
  · simp only [List.mem_cons, List.not_mem_nil, or_false] at ho
    subst ho
    simp only [decodeADC, reg8I_junk hj]
    split <;> rfl
  · simp only [List.mem_cons, List.not_mem_nil, or_false] at ho
    rcases ho with rfl | rfl
    · simp [decodeADC, decodeAdr_junk _ _ hj]
    · unfold decodeADC; simp only
      apply okBytes_andThen_none; intro a1
      split
      · split
        · rfl
        · exact accSrc_junk _ _ _ _ hj
      · rfl
  · rfl

theorem subLast_junk (syn sz : Nat) (o : Opd) (hj : junk o = true) : okBytes (subLast syn sz o) = none := by
  simp [subLast, reg8Cur_junk syn hj, decodeAdr_junk _ _ hj]

theorem decodeSUB_junk (syn : Nat) (args : List Opd) (o : Opd) (ho : o ∈ args) (hj : junk o = true) :
    okBytes (decodeSUB syn args) = none := by
  rcases args with _ | ⟨o1, _ | ⟨o2, _ | ⟨o3, t⟩⟩⟩
  · simp at ho
  · simp only [List.mem_cons, List.not_mem_nil, or_false] at ho
    subst ho
    exact subLast_junk _ _ _ hj
  · simp only [List.mem_cons, List.not_mem_nil, or_false] at ho
    rcases ho with rfl | rfl
    · simp [decodeSUB, decodeAdr_junk _ _ hj]
    · unfold decodeSUB; simp only
      apply okBytes_andThen_none; intro a1
      split
      · split
        · rfl
        · exact subLast_junk _ _ _ hj
      · rfl
  · rfl

theorem alu8Last_junk (sz code : Nat) (o : Opd) (hj : junk o = true) : okBytes (alu8Last sz code o) = none := by
  simp [alu8Last, decodeAdr_junk _ _ hj]

theorem decodeALU8_junk (code : Nat) (args : List Opd) (o : Opd) (ho : o ∈ args) (hj : junk o = true) :
    okBytes (decodeALU8 code args) = none := by
  rcases args with _ | ⟨o1, _ | ⟨o2, _ | ⟨o3, t⟩⟩⟩
  · simp at ho
  · simp only [List.mem_cons, List.not_mem_nil, or_false] at ho
    subst ho
    exact alu8Last_junk _ _ _ hj
  · simp only [List.mem_cons, List.not_mem_nil, or_false] at ho
    rcases ho with rfl | rfl
    · simp [decodeALU8, decodeAdr_junk _ _ hj]
    · unfold decodeALU8; simp only
      apply okBytes_andThen_none; intro a1
      split
      · split
        · exact alu8Last_junk _ _ _ hj
        · rfl
      · rfl
  · rfl

theorem decodeINCDEC_junk (code : Nat) (args : List Opd) (o : Opd) (ho : o ∈ args) (hj : junk o = true) :
    okBytes (decodeINCDEC code args) = none := by
  rcases args with _ | ⟨o1, _ | ⟨o2, t⟩⟩
  · simp at ho
  · simp only [List.mem_cons, List.not_mem_nil, or_false] at ho
    subst ho
    simp [decodeINCDEC, decodeAdr_junk _ _ hj]
  · rfl

theorem cpLast_junk (sz : Nat) (o : Opd) (hj : junk o = true) : okBytes (cpLast sz o) = none := by
  simp [cpLast, decodeAdr_junk _ _ hj]

theorem decodeCP_junk (syn : Nat) (args : List Opd) (o : Opd) (ho : o ∈ args) (hj : junk o = true) :
    okBytes (decodeCP syn args) = none := by
  rcases args with _ | ⟨o1, _ | ⟨o2, _ | ⟨o3, t⟩⟩⟩
  · simp at ho
  · simp only [List.mem_cons, List.not_mem_nil, or_false] at ho
    subst ho
    exact cpLast_junk _ _ hj
  · simp only [List.mem_cons, List.not_mem_nil, or_false] at ho
    rcases ho with rfl | rfl
    · simp [decodeCP, decodeAdr_junk _ _ hj]
    · unfold decodeCP; simp only
      apply okBytes_andThen_none; intro a1
      split
      · split
        · exact cpLast_junk _ _ hj
        · rfl
      · rfl
  · rfl

theorem decodeJP_junk (syn : Nat) (args : List Opd) (o : Opd) (ho : o ∈ args) (hj : junk o = true) :
    okBytes (decodeJP syn args) = none := by
  rcases args with _ | ⟨o1, _ | ⟨o2, _ | ⟨o3, t⟩⟩⟩
  · simp at ho
  · simp only [List.mem_cons, List.not_mem_nil, or_false] at ho
    subst ho
    simp [decodeJP, decodeAdr_junk _ _ hj]
  · simp only [List.mem_cons, List.not_mem_nil, or_false] at ho
    rcases ho with rfl | rfl
    · exact okBytes_andThen_err _ _ (decodeCondition_junk hj)
    · unfold decodeJP
      apply okBytes_andThen_none; intro c
      simp [decodeAdr_junk _ _ hj]
  · rfl

theorem decodeCALL_junk (args : List Opd) (o : Opd) (ho : o ∈ args) (hj : junk o = true) :
    okBytes (decodeCALL args) = none := by
  rcases args with _ | ⟨o1, _ | ⟨o2, _ | ⟨o3, t⟩⟩⟩
  · simp at ho
  · simp only [List.mem_cons, List.not_mem_nil, or_false] at ho
    subst ho
    simp [decodeCALL, decodeAdr_junk _ _ hj]
  · simp only [List.mem_cons, List.not_mem_nil, or_false] at ho
    rcases ho with rfl | rfl
    · exact okBytes_andThen_err _ _ (decodeCondition_junk hj)
    · unfold decodeCALL
      apply okBytes_andThen_none; intro c
      simp [decodeAdr_junk _ _ hj]
  · rfl

theorem decodeRET_junk (args : List Opd) (o : Opd) (ho : o ∈ args) (hj : junk o = true) :
    okBytes (decodeRET args) = none := by
  rcases args with _ | ⟨o1, _ | ⟨o2, t⟩⟩
  · simp at ho
  · simp only [List.mem_cons, List.not_mem_nil, or_false] at ho
    subst ho
    exact okBytes_andThen_err _ _ (decodeCondition_junk hj)
  · rfl

theorem decodeINOUT_junk (code syn : Nat) (args : List Opd) (o : Opd) (ho : o ∈ args) (hj : junk o = true) :
    okBytes (decodeINOUT code syn args) = none := by
  rcases args with _ | ⟨o1, _ | ⟨o2, _ | ⟨o3, t⟩⟩⟩
  · simp at ho
  · simp only [List.mem_cons, List.not_mem_nil, or_false] at ho
    subst ho
    simp only [decodeINOUT, evalOpd_junk _ hj]
    split <;> rfl
  · simp only [List.mem_cons, List.not_mem_nil, or_false] at ho
    unfold decodeINOUT
    by_cases hc : code = 0xdb
    · simp only [hc, if_true]
      rcases ho with rfl | rfl
      · simp [decodeAdr_junk _ _ hj]
      · apply okBytes_andThen_none; intro a
        split
        · rfl
        · simp [evalOpd_junk _ hj]
    · simp only [hc, if_false]
      rcases ho with rfl | rfl
      · apply okBytes_andThen_none; intro a
        split
        · rfl
        · simp [evalOpd_junk _ hj]
      · simp [decodeAdr_junk _ _ hj]
  · rfl

theorem decodeRST_junk (syn : Nat) (args : List Opd) (o : Opd) (ho : o ∈ args) (hj : junk o = true) :
    okBytes (decodeRST syn args) = none := by
  rcases args with _ | ⟨o1, _ | ⟨o2, t⟩⟩
  · simp at ho
  · simp only [List.mem_cons, List.not_mem_nil, or_false] at ho
    subst ho
    simp [decodeRST, evalOpd_junk _ hj]
  · rfl

theorem decodePUSH_POP_junk (idx syn : Nat) (args : List Opd) (o : Opd) (ho : o ∈ args) (hj : junk o = true) :
    okBytes (decodePUSH_POP idx syn args) = none := by
  rcases args with _ | ⟨o1, _ | ⟨o2, t⟩⟩
  · simp at ho
  · simp only [List.mem_cons, List.not_mem_nil, or_false] at ho
    subst ho
    simp [decodePUSH_POP, junk_ne_af hj, reg16Cur_junk _ hj]
  · rfl

theorem decodeFixed_junk (syn code isyn : Nat) (args : List Opd) (o : Opd) (ho : o ∈ args) :
    okBytes (decodeFixed syn code isyn args) = none := by
  rcases args with _ | ⟨o1, t⟩
  · simp at ho
  · rfl

/-- the model refuses every statement with a `junk` operand -/
theorem encode_junk (excl : Bool) (cpu : Nat) (s : Src) (o : Opd) (ho : o ∈ s.args) (hj : junk o = true) :
    okBytes (encode excl cpu s) = none := by
  unfold encode
  cases lookup s.mn with
  | none => rfl
  | some h =>
    simp only
    split
    · rfl
    · cases h with
      | fixed code mc isyn => exact decodeFixed_junk _ _ _ _ o ho
      | ld w => exact decodeLD_junk _ _ o ho hj
      | ex w => exact decodeEX_junk _ o ho hj
      | add w => exact decodeADD_junk _ _ o ho hj
      | adc w => exact decodeADC_junk _ _ o ho hj
      | sub w => exact decodeSUB_junk _ _ o ho hj
      | alu8 code => exact decodeALU8_junk _ _ o ho hj
      | incdec code => exact decodeINCDEC_junk _ _ o ho hj
      | cp w => exact decodeCP_junk _ _ o ho hj
      | jp w => exact decodeJP_junk _ _ o ho hj
      | call w => exact decodeCALL_junk _ o ho hj
      | ret w => exact decodeRET_junk _ o ho hj
      | inout code => exact decodeINOUT_junk _ _ _ o ho hj
      | rst w => exact decodeRST_junk _ _ o ho hj
      | pushPop idx => exact decodePUSH_POP_junk _ _ _ o ho hj

end AslModel.Isa.I8080Z
