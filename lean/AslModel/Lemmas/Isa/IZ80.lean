import AslModel.Lemmas.Isa.Common
import AslModel.Model.Isa.IZ80
/-! Lemmas for C14 / Z80, part 1: operand abstraction.

A handler of codez80.c sees an operand only through its shape, `DecodeAdr`'s result and two range checks
(`AOp`); these depend on a numeric value only through the range class of the value.  So every statement
behaves (as far as acceptance and byte layout go) like the statement with each value replaced by the
representative of its class (`rep`), and there are finitely many of those (`reps`): the complete table
`mnemonic × reps × reps` is decided by evaluation (`table_ok`), value-independent facts are lifted from it. -/
namespace AslModel.Isa.IZ80
open AslModel.PFile (Byte b b_toNat)
open AslModel.Spec.IZ80
open AslModel.Generated.IsaZ80
open AslModel.Generated (itInt8 itInt16 itUInt8 itUInt16 itSInt8 itUInt3 itUInt2)

theorem mem_all (m : Mn) : m ∈ Mn.all := by cases m <;> decide

theorem evalInt_if (typ : Nat) (l h : Int) (hh : ∀ v, rangeCheck v typ = (decide (l ≤ v) && decide (v ≤ h))) (v : Int) :
    evalInt typ v = if l ≤ v ∧ v ≤ h then .ok v else .error .overRange := by
  by_cases hc : l ≤ v ∧ v ≤ h
  · rw [(evalInt_ok typ l h hh v).1 hc]; simp [hc]
  · rw [(evalInt_ok typ l h hh v).2 hc]; simp [hc]

theorem rangeCheck_UInt2 (v : Int) : rangeCheck v itUInt2 = (decide (0 ≤ v) && decide (v ≤ 3)) := by
  have hrow : Generated.intTypeDefs[itUInt2]? = some ⟨"UInt2", 0x0002, 0, 3, 3⟩ := by decide
  have hlt : ¬ (itUInt2 ≥ Generated.intTypeNoCheckFrom) := by decide
  unfold rangeCheck
  simp only [hlt, if_false, hrow]

theorem evalI16 (v : Int) : evalInt itInt16 v = if -32768 ≤ v ∧ v ≤ 65535 then .ok v else .error .overRange :=
  evalInt_if _ _ _ rangeCheck_Int16 v
theorem evalI8 (v : Int) : evalInt itInt8 v = if -128 ≤ v ∧ v ≤ 255 then .ok v else .error .overRange :=
  evalInt_if _ _ _ rangeCheck_Int8 v
theorem evalU8 (v : Int) : evalInt itUInt8 v = if 0 ≤ v ∧ v ≤ 255 then .ok v else .error .overRange :=
  evalInt_if _ _ _ rangeCheck_UInt8 v
theorem evalS8 (v : Int) : evalInt itSInt8 v = if -128 ≤ v ∧ v ≤ 127 then .ok v else .error .overRange :=
  evalInt_if _ _ _ rangeCheck_SInt8 v
theorem evalU16 (v : Int) : evalInt itUInt16 v = if 0 ≤ v ∧ v ≤ 65535 then .ok v else .error .overRange :=
  evalInt_if _ _ _ rangeCheck_UInt16 v
theorem evalU3 (v : Int) : evalInt itUInt3 v = if 0 ≤ v ∧ v ≤ 7 then .ok v else .error .overRange :=
  evalInt_if _ _ _ rangeCheck_UInt3 v
theorem evalU2 (v : Int) : evalInt itUInt2 v = if 0 ≤ v ∧ v ≤ 3 then .ok v else .error .overRange :=
  evalInt_if _ _ _ rangeCheck_UInt2 v

/-! ## representatives -/

/-- representative of the range class of a value w.r.t. the limits -32768, -128, 0, 255/256, 65535/65536 -/
def repV (v : Int) : Int :=
  if v < -32768 then -40000 else if v < -128 then -300 else if v < 0 then -5
  else if v ≤ 255 then 5 else if v ≤ 65535 then 300 else 70000

/-- representative of a displacement w.r.t. -128 … 127 -/
def repD (d : Int) : Int := if -128 ≤ d ∧ d ≤ 127 then 5 else 128

def rep : Opnd → Opnd
  | .idx y d => .idx y (repD d)
  | .mem a => .mem (repV a)
  | .imm v => .imm (repV v)
  | o => o

def closedReps : List Opnd :=
  R8.all.map .r8 ++ R16.all.map .r16 ++ [.xy false, .xy true, .indBC, .indDE, .idx0 false, .idx0 true, .indSP,
    .regI, .regR, .af, .af', .indC] ++ Cc.all.map .cc

def valReps : List Int := [-40000, -300, -5, 5, 300, 70000]

def reps : List Opnd :=
  closedReps ++ [.idx false 5, .idx false 128, .idx true 5, .idx true 128] ++
  valReps.map .mem ++ valReps.map .imm

theorem repV_mem (v : Int) : repV v ∈ valReps := by
  unfold repV valReps
  repeat' split
  all_goals simp

theorem rep_mem (o : Opnd) : rep o ∈ reps := by
  cases o with
  | r8 r => cases r <;> decide
  | r16 r => cases r <;> decide
  | xy y => cases y <;> decide
  | idx y d =>
    simp only [rep, repD]
    cases y <;> repeat' split
    all_goals decide
  | idx0 y => cases y <;> decide
  | mem a =>
    have := repV_mem a
    simp only [rep, reps, List.mem_append, List.mem_map]
    exact Or.inl (Or.inr ⟨_, this, rfl⟩)
  | imm v =>
    have := repV_mem v
    simp only [rep, reps, List.mem_append, List.mem_map]
    exact Or.inr ⟨_, this, rfl⟩
  | cc c => cases c <;> decide
  | _ => decide

theorem repV_range (lo hi : Int) (h : (lo = -32768 ∨ lo = -128 ∨ lo = 0) ∧ (hi = 255 ∨ hi = 65535)) (v : Int) :
    (lo ≤ repV v ∧ repV v ≤ hi) ↔ (lo ≤ v ∧ v ≤ hi) := by
  unfold repV
  repeat' split
  all_goals omega

theorem repD_range (d : Int) : (-128 ≤ repD d ∧ repD d ≤ 127) ↔ (-128 ≤ d ∧ d ≤ 127) := by
  unfold repD
  repeat' split
  all_goals omega

theorem decodeAdr_rep (sz : Nat) (o : Opnd) : decodeAdr sz (rep o) = decodeAdr sz o := by
  cases o <;> try rfl
  case idx y d =>
    simp only [rep, decodeAdr, evalS8]
    have := repD_range d
    by_cases h : -128 ≤ d ∧ d ≤ 127 <;> simp [h, this.mpr, this] <;> simp [andThen]
  case mem a =>
    simp only [rep, decodeAdr, evalU16]
    have := repV_range 0 65535 (by omega) a
    by_cases h : 0 ≤ a ∧ a ≤ 65535 <;> simp [h, this] <;> simp [andThen]
  case imm v =>
    simp only [rep, decodeAdr, evalI8, evalI16]
    have h8 := repV_range (-128) 255 (by omega) v
    have h16 := repV_range (-32768) 65535 (by omega) v
    by_cases hs0 : sz = 0
    · simp only [hs0, if_true]
      by_cases h : -128 ≤ v ∧ v ≤ 255 <;> simp [h, h8] <;> simp [andThen]
    · by_cases hs1 : sz = 1
      · simp only [hs1]
        by_cases h : -32768 ≤ v ∧ v ≤ 65535 <;> simp [h, h16] <;> simp [andThen]
      · simp [hs0, hs1]

theorem erase_rep (o : Opnd) : erase (rep o) = erase o := by cases o <;> rfl

theorem evalArg_rep (typ : Nat) (lo hi : Int) (hty : ∀ v, evalInt typ v = if lo ≤ v ∧ v ≤ hi then .ok v else .error .overRange)
    (hr : (lo = -32768 ∨ lo = -128 ∨ lo = 0) ∧ (hi = 255 ∨ hi = 65535)) (o : Opnd) :
    (andThen (evalArg typ (rep o)) fun _ => (.ok () : Except Err Unit)) = andThen (evalArg typ o) fun _ => .ok () := by
  cases o <;> try rfl
  case mem a =>
    simp only [rep, evalArg, valOf, hty]
    have := repV_range lo hi hr a
    by_cases h : lo ≤ a ∧ a ≤ hi <;> simp [h, this] <;> simp [andThen]
  case imm a =>
    simp only [rep, evalArg, valOf, hty]
    have := repV_range lo hi hr a
    by_cases h : lo ≤ a ∧ a ≤ hi <;> simp [h, this] <;> simp [andThen]

/-- a handler cannot tell an operand from its representative -/
theorem absOf_rep (o : Opnd) : absOf (rep o) = absOf o := by
  unfold absOf
  rw [erase_rep, evalArg_rep itUInt8 0 255 evalU8 (by omega), evalArg_rep itUInt16 0 65535 evalU16 (by omega)]
  congr 1
  funext sz
  exact decodeAdr_rep sz o

/-- operand classes whose membership depends neither on the program counter nor on a value inside a range class -/
def plainClass : OC → Bool
  | .e | .bit | .rstv | .imv => false
  | _ => true

theorem inR_rep (lo hi : Int) (hr : (lo = -32768 ∨ lo = -128 ∨ lo = 0) ∧ (hi = 255 ∨ hi = 65535)) (v : Int) :
    inR lo hi (repV v) = inR lo hi v := by
  have := repV_range lo hi hr v
  unfold inR
  rw [Bool.eq_iff_iff]
  simp only [Bool.and_eq_true, decide_eq_true_eq]
  exact this

theorem inR_repD (d : Int) : inR (-128) 127 (repD d) = inR (-128) 127 d := by
  have := repD_range d
  unfold inR
  rw [Bool.eq_iff_iff]
  simp only [Bool.and_eq_true, decide_eq_true_eq]
  exact this

theorem inClass_rep (pc : Nat) (c : OC) (hc : plainClass c = true) (o : Opnd) : inClass pc c (rep o) = inClass 0 c o := by
  cases c <;> (first | exact absurd hc (by decide) | skip) <;> cases o <;>
    first
    | rfl
    | (simp only [rep, inClass, isM, isImm, isMem, valIn, valOf]
       first | exact inR_rep _ _ (by omega) _ | exact inR_repD _)

theorem matchOps_rep (pc : Nat) (cs : List OC) (hc : cs.all plainClass = true) (ops : List Opnd) :
    matchOps pc cs (ops.map rep) = matchOps 0 cs ops := by
  rcases cs with _ | ⟨c1, _ | ⟨c2, _ | ⟨c3, cs⟩⟩⟩ <;> rcases ops with _ | ⟨o1, _ | ⟨o2, _ | ⟨o3, os⟩⟩⟩ <;>
    simp only [List.all_cons, List.all_nil, Bool.and_eq_true, Bool.and_true] at hc <;>
    simp only [List.map_cons, List.map_nil, matchOps]
  · rw [inClass_rep pc c1 hc]
  · rw [inClass_rep pc c1 hc.1, inClass_rep pc c2 hc.2]

/-! ## the complete table over representatives -/

/-- mnemonics whose handler is a layout over operand abstractions, with forms of plain classes only -/
def plainForms (m : Mn) : Bool := (formsOf m).all fun f => f.ocs.all plainClass && decide (f.ocs.length ≤ 2)

/-- relative-branch-free decoding of what the layout handler emits equals the statement's meaning -/
def soundAt (mn : Mn) (f : List AOp → L) (ops : List Opnd) : Bool :=
  match f (ops.map absOf) with
  | .ok ps => decodeR (realize ops ps) == some (meaning 0 ⟨mn, ops⟩, (realize ops ps).length)
  | .error _ => true

/-- acceptance agrees with the SPEC -/
def rangeAt (mn : Mn) (f : List AOp → L) (ops : List Opnd) : Bool :=
  legal 0 0 ⟨mn, ops⟩ == isOk (f (ops.map absOf))

def isClosed : Opnd → Bool
  | .idx _ _ | .mem _ | .imm _ => false
  | _ => true

/-- at most one line of the mnemonic's tables fits the operands -/
def uniqAt (mn : Mn) (ops : List Opnd) : Bool :=
  decide (((formsOf mn).filter fun fm => matchOps 0 fm.ocs ops).length ≤ 1)

def chkAt (mn : Mn) (f : List AOp → L) (ops : List Opnd) : Bool :=
  rangeAt mn f ops && uniqAt mn ops && (!ops.all isClosed || soundAt mn f ops)

/-- handlers that do not reject two operands by `ChkArgCnt` -/
def twoOps : Handler → Bool
  | .ld _ | .add _ | .adcSbc _ | .ex _ | .inOut _ | .jp _ | .call _ | .alu8 _ | .shift8 _ => true
  | _ => false

def rowOK (mn : Mn) (h : Handler) (f : List AOp → L) : Bool :=
  plainForms mn && mn != .JR && mn != .DJNZ && chkAt mn f [] &&
  (reps.all fun o1 => chkAt mn f [o1]) &&
  if twoOps h then reps.all fun o1 => reps.all fun o2 => chkAt mn f [o1, o2]
  else (formsOf mn).all fun fm => decide (fm.ocs.length ≤ 1)

def rowCheck (e : Mn × Handler) : Bool :=
  match layout cleanCfg e.2 with
  | none => true
  | some f => rowOK e.1 e.2 f

def tableOK : Bool := instTable.all rowCheck

/-- rows `i`, `i+1` of the regenerated `InstTable` -/
def sliceOK (i : Nat) : Bool := ((instTable.drop i).take 2).all rowCheck

end AslModel.Isa.IZ80
