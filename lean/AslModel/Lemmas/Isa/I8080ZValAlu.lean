import AslModel.Lemmas.Isa.I8080Z
/-!
C14 / 8080 + 8085, Z80-style syntax: accumulator statements (`ADD ADC SUB SBC AND XOR OR CP`) with a number `n` or an
address `(nn)` among the operands.
-/
set_option linter.unusedSimpArgs false
namespace AslModel.Isa.I8080Z
open AslModel.PFile (Byte b b_toNat)
open AslModel.Spec.I8080Z AslModel.Generated.Isa8080Z

set_option maxHeartbeats 4000000 in
/-- a first operand that is not `A`: refused whatever follows -/
theorem alu_first (excl : Bool) (cpu : Nat) (m : Mn) (o1 o2 : Opd) (hm : m ∈ [Mn.ADC, .SUB, .SBC, .AND, .XOR, .OR, .CP])
    (h1 : o1 ∈ finOpds) (h7 : o1 ≠ .r8 7) :
    okBytes (encode excl cpu ⟨m, [o1, o2]⟩) = viaIntel excl cpu ⟨m, [o1, o2]⟩ := by
  simp only [List.mem_cons, List.not_mem_nil, or_false] at hm
  rcases hm with rfl | rfl | rfl | rfl | rfl | rfl | rfl <;> fin_cases_opd h1 <;> zsimp at h7 ⊢

set_option maxHeartbeats 4000000 in
/-- `op A,n` / `op A,(nn)` -/
theorem alu_A_val (excl : Bool) (cpu : Nat) (m : Mn) (o2 : Opd) (hm : m ∈ [Mn.ADC, .SUB, .SBC, .AND, .XOR, .OR, .CP])
    (h2 : isV o2 = true) :
    okBytes (encode excl cpu ⟨m, [.r8 7, o2]⟩) = viaIntel excl cpu ⟨m, [.r8 7, o2]⟩ := by
  simp only [List.mem_cons, List.not_mem_nil, or_false] at hm
  cases o2 <;> simp [isV, isAbs, isImm] at h2 <;>
    rcases hm with rfl | rfl | rfl | rfl | rfl | rfl | rfl <;> zsimp
  zfin cpu

set_option maxHeartbeats 4000000 in
theorem add_fin_val (excl : Bool) (cpu : Nat) (o1 o2 : Opd) (h1 : o1 ∈ finOpds) (h2 : isV o2 = true) :
    okBytes (encode excl cpu ⟨.ADD, [o1, o2]⟩) = viaIntel excl cpu ⟨.ADD, [o1, o2]⟩ := by
  cases o2 <;> simp [isV, isAbs, isImm] at h2 <;> fin_cases_opd h1 <;> zsimp
  zfin cpu

set_option maxHeartbeats 4000000 in
/-- a number or an address as first operand: refused whatever follows -/
theorem alu_val_first (excl : Bool) (cpu : Nat) (m : Mn) (o1 o2 : Opd)
    (hm : m ∈ [Mn.ADD, .ADC, .SUB, .SBC, .AND, .XOR, .OR, .CP, .EX]) (h1 : isV o1 = true) :
    okBytes (encode excl cpu ⟨m, [o1, o2]⟩) = viaIntel excl cpu ⟨m, [o1, o2]⟩ := by
  simp only [List.mem_cons, List.not_mem_nil, or_false] at hm
  cases o1 <;> simp [isV, isAbs, isImm] at h1 <;>
    rcases hm with rfl | rfl | rfl | rfl | rfl | rfl | rfl | rfl | rfl <;> zsimp
  zfin cpu

set_option maxHeartbeats 4000000 in
theorem ex_fin_val (excl : Bool) (cpu : Nat) (o1 o2 : Opd) (h1 : o1 ∈ finOpds) (h2 : isV o2 = true) :
    okBytes (encode excl cpu ⟨.EX, [o1, o2]⟩) = viaIntel excl cpu ⟨.EX, [o1, o2]⟩ := by
  cases o2 <;> simp [isV, isAbs, isImm] at h2 <;> fin_cases_opd h1 <;> zsimp
  zfin cpu

end AslModel.Isa.I8080Z
