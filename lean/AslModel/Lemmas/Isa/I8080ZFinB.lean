import AslModel.Lemmas.Isa.I8080Z
/-!
C14 / 8080 + 8085, Z80-style syntax: the statements whose operands carry no value (register names, `AF`, `IM`, conditions) -
two operands, `SBC AND XOR OR CP`; both syntax modes, both CPUs.  Decided by evaluating the model, `Spec.I8080Z.intel` and the Intel-syntax model
(one evaluation per mnemonic: 26 x 26 operand pairs x 4 modes).
-/
namespace AslModel.Isa.I8080Z
open AslModel.Spec.I8080Z

def grpB : List Mn := [.SBC, .AND, .XOR, .OR, .CP]

theorem fin2_SBC : fin2On [.SBC] = true := by decide +kernel
theorem fin2_AND : fin2On [.AND] = true := by decide +kernel
theorem fin2_XOR : fin2On [.XOR] = true := by decide +kernel
theorem fin2_OR : fin2On [.OR] = true := by decide +kernel
theorem fin2_CP : fin2On [.CP] = true := by decide +kernel

theorem fin2B (excl : Bool) (cpu : Nat) (hcpu : cpu = 0 ∨ cpu = 1) (m : Mn) (hm : m ∈ grpB) (o1 o2 : Opd)
    (h1 : o1 ∈ finOpds) (h2 : o2 ∈ finOpds) (hc : canonical excl ⟨m, [o1, o2]⟩ = true) :
    okBytes (encode excl cpu ⟨m, [o1, o2]⟩) = viaIntel excl cpu ⟨m, [o1, o2]⟩ := by
  simp only [grpB, List.mem_cons, List.not_mem_nil, or_false] at hm
  rcases hm with rfl | rfl | rfl | rfl | rfl
  · exact fin2_use fin2_SBC excl cpu hcpu .SBC (by decide) o1 o2 h1 h2 hc
  · exact fin2_use fin2_AND excl cpu hcpu .AND (by decide) o1 o2 h1 h2 hc
  · exact fin2_use fin2_XOR excl cpu hcpu .XOR (by decide) o1 o2 h1 h2 hc
  · exact fin2_use fin2_OR excl cpu hcpu .OR (by decide) o1 o2 h1 h2 hc
  · exact fin2_use fin2_CP excl cpu hcpu .CP (by decide) o1 o2 h1 h2 hc

end AslModel.Isa.I8080Z
