import AslModel.Lemmas.Isa.I6502Table
/-! Lemmas for C14 / 6502: the SPEC decoder on instructions of each operand length, and per handler of code65.c the
soundness / acceptance lemmas the theorems of `Props/C14_6502.lean` assemble from the table facts (`Good`). -/
namespace AslModel.Isa.I6502
open AslModel.PFile (Byte b b_toNat)
open AslModel.Spec.I6502
open AslModel.Generated.Isa6502
open AslModel.Generated (itInt8 itInt16 itUInt8 itUInt16 itSInt8)

/-! ### table access -/

theorem lookup_good (m : Mn) : ∃ h, lookup m = some h ∧ Good m h = true := by
  have := List.all_eq_true.mp table_good m (mem_all m)
  cases hl : lookup m with
  | none => simp [hl] at this
  | some h => exact ⟨h, rfl, by simpa [hl] using this⟩

theorem good_on (cpu : Nat) (hcpu : cpu ≤ 2) (m : Mn) (h : Handler) (hg : Good m h = true) : goodOn cpu m h = true := by
  unfold Good at hg
  simp only [List.all_cons, List.all_nil, Bool.and_true, Bool.and_eq_true] at hg
  have : cpu = 0 ∨ cpu = 1 ∨ cpu = 2 := by omega
  rcases this with rfl | rfl | rfl
  · exact hg.1
  · exact hg.2.1
  · exact hg.2.2

theorem isAllowed_def (cpu : Nat) (c : Int) : isAllowed cpu c = (c != -1 && cpuAllowed cpu (c.toNat >>> 8)) := rfl

theorem modeOk_iff (cpu : Nat) (m : Mn) (c : Int) (md : Mode) (h : modeOk cpu m c md = true) :
    hasMode cpu m md = isAllowed cpu c ∧ (isAllowed cpu c = true → decode1 cpu (c.toNat % 256) = some (m, md)) := by
  unfold modeOk at h
  simp only [Bool.and_eq_true, beq_iff_eq, Bool.or_eq_true, Bool.not_eq_true'] at h
  refine ⟨h.1.2, fun ha => ?_⟩
  rcases h.2 with hf | hd
  · rw [ha] at hf; cases hf
  · exact hd

/-! ### operand evaluation -/

theorem evalInt_if (typ : Nat) (l h : Int) (hh : ∀ v, rangeCheck v typ = (decide (l ≤ v) && decide (v ≤ h))) (v : Int) :
    evalInt typ v = if l ≤ v ∧ v ≤ h then .ok v else .error .overRange := by
  by_cases hc : l ≤ v ∧ v ≤ h
  · rw [(evalInt_ok typ l h hh v).1 hc]; simp [hc]
  · rw [(evalInt_ok typ l h hh v).2 hc]; simp [hc]

theorem evalI16 (v : Int) : evalInt itInt16 v = if -32768 ≤ v ∧ v ≤ 65535 then .ok v else .error .overRange :=
  evalInt_if _ _ _ rangeCheck_Int16 v
theorem evalU16 (v : Int) : evalInt itUInt16 v = if 0 ≤ v ∧ v ≤ 65535 then .ok v else .error .overRange :=
  evalInt_if _ _ _ rangeCheck_UInt16 v
theorem evalI8 (v : Int) : evalInt itInt8 v = if -128 ≤ v ∧ v ≤ 255 then .ok v else .error .overRange :=
  evalInt_if _ _ _ rangeCheck_Int8 v
theorem evalU8 (v : Int) : evalInt itUInt8 v = if 0 ≤ v ∧ v ≤ 255 then .ok v else .error .overRange :=
  evalInt_if _ _ _ rangeCheck_UInt8 v

theorem inR_iff (l h v : Int) : inR l h v = true ↔ l ≤ v ∧ v ≤ h := by
  simp [inR]

/-! ### the SPEC decoder by operand length -/

theorem decode_impl (cpu pc : Nat) (b0 : Byte) (m : Mn) (h1 : decode1 cpu b0.toNat = some (m, .impl)) :
    decode cpu pc [b0] = some (⟨m, .impl, []⟩, 1) := by
  simp [decode, h1]

theorem decode_acc (cpu pc : Nat) (b0 : Byte) (m : Mn) (h1 : decode1 cpu b0.toNat = some (m, .acc)) :
    decode cpu pc [b0] = some (⟨m, .acc, []⟩, 1) := by
  simp [decode, h1]

theorem decode_len1 (cpu pc : Nat) (b0 x : Byte) (m : Mn) (md : Mode) (h1 : decode1 cpu b0.toNat = some (m, md))
    (hl : md.len = 1) (hr : md ≠ .rel) : decode cpu pc [b0, x] = some (⟨m, md, [x.toNat]⟩, 2) := by
  cases md <;> simp [Mode.len] at hl hr <;> simp [decode, h1, Mode.len]

theorem decode_len2 (cpu pc : Nat) (b0 x y : Byte) (m : Mn) (md : Mode) (h1 : decode1 cpu b0.toNat = some (m, md))
    (hl : md.len = 2) (hr : md ≠ .zpRel) : decode cpu pc [b0, x, y] = some (⟨m, md, [x.toNat + 256 * y.toNat]⟩, 3) := by
  cases md <;> simp [Mode.len] at hl hr <;> simp [decode, h1, Mode.len]

theorem decode_rel (cpu pc : Nat) (b0 d : Byte) (m : Mn) (h1 : decode1 cpu b0.toNat = some (m, .rel)) :
    decode cpu pc [b0, d] = some (⟨m, .rel, [relTarget pc 2 d.toNat]⟩, 2) := by
  simp [decode, h1]

theorem decode_zpRel (cpu pc : Nat) (b0 z d : Byte) (m : Mn) (h1 : decode1 cpu b0.toNat = some (m, .zpRel)) :
    decode cpu pc [b0, z, d] = some (⟨m, .zpRel, [z.toNat, relTarget pc 3 d.toNat]⟩, 3) := by
  simp [decode, h1]

theorem decode_brk_sig (cpu pc : Nat) (b0 x : Byte) (h1 : decode1 cpu b0.toNat = some (.BRK, .impl)) :
    decode cpu pc [b0, x] = some (⟨.BRK, .imm, [x.toNat]⟩, 2) := by
  simp [decode, h1]

theorem noneMode_impl (m : Mn) (h : form m ≠ .norm) : noneMode m = .impl := by
  cases m <;> simp [form] at h <;> rfl

/-! ### `DecodeFixed` -/

theorem fixed_ok (cpu pc flag code : Nat) (m : Mn) (op : Opnd) (hform : form m = .impl)
    (hh : hasMode cpu m .impl = cpuAllowed cpu flag) :
    legal cpu pc ⟨m, op⟩ = isOk (decodeFixed cpu flag code op) := by
  cases op <;> simp [legal, hform, decodeFixed, isOk, hh]
  by_cases ha : cpuAllowed cpu flag = true <;> simp [ha]

theorem fixed_sound (cpu pc flag code : Nat) (m : Mn) (op : Opnd) (bs : List Byte) (hform : form m = .impl)
    (hc : code < 256) (hd : cpuAllowed cpu flag = true → decode1 cpu code = some (m, .impl))
    (h : decodeFixed cpu flag code op = .ok bs) : decode cpu pc bs = some (meaning cpu ⟨m, op⟩, bs.length) := by
  cases op <;> simp only [decodeFixed, reduceCtorEq] at h
  by_cases ha : cpuAllowed cpu flag = true
  · simp only [ha, if_true, Except.ok.injEq] at h
    subst h
    have h1 : decode1 cpu (b code).toNat = some (m, .impl) := by
      rw [b_toNat, Nat.mod_eq_of_lt hc]; exact hd ha
    rw [decode_impl cpu pc _ m h1]
    simp [meaning, noneMode_impl m (by rw [hform]; decide)]
  · simp [ha] at h

/-! ### `DecodeBRK` -/

theorem brk_ok (cpu pc : Nat) (op : Opnd) : legal cpu pc ⟨.BRK, op⟩ = isOk (decodeBRK op) := by
  cases op <;> simp [legal, form, decodeBRK, isOk]
  rename_i v
  rw [evalI8]
  by_cases hv : -128 ≤ v ∧ v ≤ 255
  · simp [hv, inR]
  · simp [hv, inR]; omega

theorem brk_sound (cpu pc : Nat) (op : Opnd) (bs : List Byte) (hd : decode1 cpu 0 = some (.BRK, .impl))
    (h : decodeBRK op = .ok bs) : decode cpu pc bs = some (meaning cpu ⟨.BRK, op⟩, bs.length) := by
  have h1 : decode1 cpu (b 0).toNat = some (.BRK, .impl) := by rw [b_toNat]; exact hd
  cases op <;> simp [decodeBRK] at h
  · subst h
    rw [decode_impl cpu pc _ _ h1]; simp [meaning, noneMode]
  · rename_i v
    rw [evalI8] at h
    by_cases hv : -128 ≤ v ∧ v ≤ 255
    · simp [hv] at h
      subst h
      rw [decode_brk_sig cpu pc _ _ h1]
      simp [meaning, byteOf, toByte]
      omega
    · simp [hv] at h


/-! ### `DecodeRMB_SMB` -/

theorem zeroMode_eq_one (p : Pfx) : (zeroMode p = 1) ↔ p = .gt := by cases p <;> simp [zeroMode]

theorem rmb_ok (cpu pc code : Nat) (m : Mn) (op : Opnd) (hform : form m = .bit)
    (hh : hasMode cpu m .zp = cpuAllowed cpu rmbCpuMask) :
    legal cpu pc ⟨m, op⟩ = isOk (decodeRMB cpu code op) := by
  cases op <;> simp [legal, hform, decodeRMB, isOk, hh]
  rename_i p v
  by_cases ha : cpuAllowed cpu rmbCpuMask = true <;> simp [ha]
  rw [evalU8]
  by_cases hp : p = .gt
  · simp [hp, zeroMode]
  · have : ¬ zeroMode p = 1 := by rw [zeroMode_eq_one]; exact hp
    by_cases hv : 0 ≤ v ∧ v ≤ 255
    · simp [hp, this, hv, inR]
    · simp [hp, this, hv, inR]; omega

theorem rmb_sound (cpu pc code : Nat) (m : Mn) (op : Opnd) (bs : List Byte)
    (hc : code < 256) (hd : cpuAllowed cpu rmbCpuMask = true → decode1 cpu code = some (m, .zp))
    (h : decodeRMB cpu code op = .ok bs) : decode cpu pc bs = some (meaning cpu ⟨m, op⟩, bs.length) := by
  cases op <;> simp only [decodeRMB, reduceCtorEq] at h
  rename_i p v
  by_cases ha : cpuAllowed cpu rmbCpuMask = true
  · by_cases hp : zeroMode p = 1
    · simp [ha, hp] at h
    · rw [evalU8] at h
      by_cases hv : 0 ≤ v ∧ v ≤ 255
      · simp [ha, hp, hv] at h
        subst h
        have h1 : decode1 cpu (b code).toNat = some (m, .zp) := by
          rw [b_toNat, Nat.mod_eq_of_lt hc]; exact hd ha
        rw [decode_len1 cpu pc _ _ m .zp h1 rfl (by decide)]
        simp [meaning, byteOf, toByte]
        omega
      · simp [ha, hp, hv] at h
  · simp [ha] at h

/-! ### 16-bit `Integer` arithmetic of the branch distance -/

theorem toInteger_eq_wrap16 (x : Int) : toInteger x = wrap16 x := rfl

theorem wrap16_sub (t k : Int) : wrap16 (wrap16 t - k) = wrap16 (t - k) := by
  unfold wrap16
  split <;> split <;> split <;> omega

/-- the displacement byte of an accepted distance decodes back to the target -/
theorem relTarget_wrap (pc len : Nat) (t : Int) (ht : 0 ≤ t ∧ t ≤ 65535)
    (hd : -128 ≤ wrap16 (t - ((pc + len : Nat) : Int)) ∧ wrap16 (t - ((pc + len : Nat) : Int)) ≤ 127) :
    relTarget pc len (toByte (wrap16 (t - ((pc + len : Nat) : Int))) % 256) = wordOf t := by
  have key : ∀ a : Int, -128 ≤ a → a ≤ 127 → (a - (t - ((pc + len : Nat) : Int))) % 65536 = 0 →
      relTarget pc len (toByte a % 256) = wordOf t := by
    intro a h1 h2 h3
    unfold relTarget sext8 toByte wordOf
    split <;> omega
  apply key _ hd.1 hd.2
  unfold wrap16
  split <;> omega


/-! ### `DecodeCond` -/

/-- `DecodeCond` on the three CPUs (no long branches: `MayLong` needs the 65CE02) -/
theorem decodeCond_eq (fl nm : Bool) (cpu pc flag short long : Nat) (hcpu : cpu ≤ 2) (hs : short ≠ 0) (p : Pfx) (t : Int) :
    decodeCond (stdCfg fl nm) cpu pc flag short long (.rel p t) =
      if cpuAllowed cpu flag = false then .error .cpu
      else if ¬ (0 ≤ t ∧ t ≤ 65535) then .error .overRange
      else if p = .gt then .error .invAddrMode
      else if wrap16 (t - ((pc + 2 : Nat) : Int)) > 127 ∨ wrap16 (t - ((pc + 2 : Nat) : Int)) < -128 then .error .jmpDist
      else .ok [b short, b (toByte (wrap16 (t - ((pc + 2 : Nat) : Int))))] := by
  have hl : (long != 0 && cpu == cpu65CE02) = false := by
    have : cpu ≠ cpu65CE02 := by simp [cpu65CE02]; omega
    simp [this]
  have hsh : (short != 0) = true := by simp [hs]
  unfold decodeCond
  simp only [hl, hsh, evalU16, stdCfg, toInteger_eq_wrap16]
  by_cases ha : cpuAllowed cpu flag = true
  · by_cases ht : 0 ≤ t ∧ t ≤ 65535
    · cases p <;> simp [ha, ht, zeroMode, wrap16_sub]
    · simp [ha, ht]
  · simp [ha]

theorem cond_ok (fl nm : Bool) (cpu pc flag short long : Nat) (hcpu : cpu ≤ 2) (m : Mn) (op : Opnd) (hform : form m = .rel)
    (hs : short ≠ 0) (hh : hasMode cpu m .rel = cpuAllowed cpu flag) :
    legal cpu pc ⟨m, op⟩ = isOk (decodeCond (stdCfg fl nm) cpu pc flag short long op) := by
  cases op
  case rel p t =>
    rw [decodeCond_eq fl nm cpu pc flag short long hcpu hs]
    simp only [legal, hform, hh, relDist]
    generalize wrap16 (t - ((pc + 2 : Nat) : Int)) = d
    by_cases ha : cpuAllowed cpu flag = true
    · by_cases ht : 0 ≤ t ∧ t ≤ 65535
      · by_cases hp : p = .gt
        · simp [ha, ht, hp, isOk]
        · by_cases hd : d > 127 ∨ d < -128
          · simp [ha, ht, hp, hd, isOk, inR] <;> omega
          · simp [ha, ht, hp, hd, isOk, inR] <;> omega
      · simp [ha, ht, isOk, inR] <;> omega
    · simp [ha, isOk]
  all_goals simp [legal, hform, decodeCond, isOk]

theorem cond_sound (fl nm : Bool) (cpu pc flag short long : Nat) (hcpu : cpu ≤ 2) (m : Mn) (op : Opnd) (bs : List Byte)
    (hs : short ≠ 0) (hc : short < 256) (hd : cpuAllowed cpu flag = true → decode1 cpu short = some (m, .rel))
    (h : decodeCond (stdCfg fl nm) cpu pc flag short long op = .ok bs) :
    decode cpu pc bs = some (meaning cpu ⟨m, op⟩, bs.length) := by
  cases op
  case rel p t =>
    rw [decodeCond_eq fl nm cpu pc flag short long hcpu hs] at h
    have hw := relTarget_wrap pc 2 t
    generalize wrap16 (t - ((pc + 2 : Nat) : Int)) = d at h hw
    by_cases ha : cpuAllowed cpu flag = true
    · by_cases ht : 0 ≤ t ∧ t ≤ 65535
      · by_cases hp : p = .gt
        · simp [ha, ht, hp] at h
        · by_cases hdist : d > 127 ∨ d < -128
          · simp [ha, ht, hp, hdist] at h
          · simp [ha, ht, hp, hdist] at h
            subst h
            have h1 : decode1 cpu (b short).toNat = some (m, .rel) := by
              rw [b_toNat, Nat.mod_eq_of_lt hc]; exact hd ha
            rw [decode_rel cpu pc _ _ m h1, b_toNat, hw ht (by omega)]
            simp [meaning]
      · simp [ha, ht] at h
    · simp [ha] at h
  all_goals simp [decodeCond] at h


/-! ### `DecodeBBR_BBS` -/

theorem decodeBBR_eq (fl nm : Bool) (cpu pc code : Nat) (p : Pfx) (v t : Int) :
    decodeBBR (stdCfg fl nm) cpu pc code (.bitRel p v t) =
      if cpuAllowed cpu bbrCpuMask = false then .error .cpu
      else if p = .gt then .error .invAddrMode
      else if ¬ (0 ≤ v ∧ v ≤ 255) then .error .overRange
      else if ¬ (0 ≤ t ∧ t ≤ 65535) then .error .overRange
      else if wrap16 (t - ((pc + 3 : Nat) : Int)) > 127 ∨ wrap16 (t - ((pc + 3 : Nat) : Int)) < -128 then .error .jmpDist
      else .ok [b code, b (toByte v), b (toByte (wrap16 (t - ((pc + 3 : Nat) : Int))))] := by
  unfold decodeBBR
  simp only [evalU16, evalU8, stdCfg, toInteger_eq_wrap16, zeroMode_eq_one]
  by_cases ha : cpuAllowed cpu bbrCpuMask = true
  · by_cases hp : p = .gt
    · simp [ha, hp]
    · by_cases hv : 0 ≤ v ∧ v ≤ 255
      · by_cases ht : 0 ≤ t ∧ t ≤ 65535
        · simp [ha, hp, hv, ht]
        · simp [ha, hp, hv, ht]
      · simp [ha, hp, hv]
  · simp [ha]

theorem bbr_ok (fl nm : Bool) (cpu pc code : Nat) (m : Mn) (op : Opnd) (hform : form m = .bitRel)
    (hh : hasMode cpu m .zpRel = cpuAllowed cpu bbrCpuMask) :
    legal cpu pc ⟨m, op⟩ = isOk (decodeBBR (stdCfg fl nm) cpu pc code op) := by
  cases op
  case bitRel p v t =>
    rw [decodeBBR_eq]
    simp only [legal, hform, hh, relDist]
    generalize wrap16 (t - ((pc + 3 : Nat) : Int)) = d
    by_cases ha : cpuAllowed cpu bbrCpuMask = true
    · by_cases hp : p = .gt
      · simp [ha, hp, isOk]
      · by_cases hv : 0 ≤ v ∧ v ≤ 255
        · by_cases ht : 0 ≤ t ∧ t ≤ 65535
          · by_cases hd : d > 127 ∨ d < -128
            · simp [ha, ht, hp, hv, hd, isOk, inR] <;> omega
            · simp [ha, ht, hp, hv, hd, isOk, inR] <;> omega
          · simp [ha, ht, hp, hv, isOk, inR] <;> omega
        · simp [ha, hp, hv, isOk, inR] <;> omega
    · simp [ha, isOk]
  all_goals simp [legal, hform, decodeBBR, isOk]

theorem bbr_sound (fl nm : Bool) (cpu pc code : Nat) (m : Mn) (op : Opnd) (bs : List Byte)
    (hc : code < 256) (hd : cpuAllowed cpu bbrCpuMask = true → decode1 cpu code = some (m, .zpRel))
    (h : decodeBBR (stdCfg fl nm) cpu pc code op = .ok bs) :
    decode cpu pc bs = some (meaning cpu ⟨m, op⟩, bs.length) := by
  cases op
  case bitRel p v t =>
    rw [decodeBBR_eq] at h
    have hw := relTarget_wrap pc 3 t
    generalize wrap16 (t - ((pc + 3 : Nat) : Int)) = d at h hw
    by_cases ha : cpuAllowed cpu bbrCpuMask = true
    · by_cases hp : p = .gt
      · simp [ha, hp] at h
      · by_cases hv : 0 ≤ v ∧ v ≤ 255
        · by_cases ht : 0 ≤ t ∧ t ≤ 65535
          · by_cases hdist : d > 127 ∨ d < -128
            · simp [ha, ht, hp, hv, hdist] at h
            · simp [ha, ht, hp, hv, hdist] at h
              subst h
              have h1 : decode1 cpu (b code).toNat = some (m, .zpRel) := by
                rw [b_toNat, Nat.mod_eq_of_lt hc]; exact hd ha
              rw [decode_zpRel cpu pc _ _ _ m h1, b_toNat, b_toNat, hw ht (by omega)]
              simp [meaning, byteOf, toByte]
              omega
          · simp [ha, ht, hp, hv] at h
        · simp [ha, hp, hv] at h
    · simp [ha] at h
  all_goals simp [decodeBBR] at h


/-! ### `DecodeNorm` -/

/-- `DecodeNorm` applies the `JMP ($xxFF)` rule on this CPU -/
def bugOn (cfg : Cfg) (cpu : Nat) : Bool := cfg.indBugCpus.contains cpu

/-- the tail of `DecodeNorm`: code present, CPU allowed, NMOS indirect-jump rule, emission -/
def finish (cfg : Cfg) (cpu mode : Nat) (c : Int) (vals : List Nat) : Except Err (List Byte) :=
  if c = -1 then .error .invAddrMode
  else if !cpuAllowed cpu (c.toNat >>> 8) then .error .cpu
  else if mode = modInd16 ∧ bugOn cfg cpu = true ∧ vals.head? = some 0xff then .error .other
  else .ok (b (lo c.toNat) :: vals.map b)

theorem decodeNorm_eq (cfg : Cfg) (cpu : Nat) (m : Mn) (codes : List Int) (op : Opnd) :
    decodeNorm cfg cpu m codes op = andThen (decodeAdr cpu (isJJ m) codes op) fun r =>
      if codeAt codes r.mode = -1 then
        finish cfg cpu (promote r.mode) (codeAt codes (promote r.mode)) (if cfg.fallbackLocal then r.vals ++ [0] else r.vals)
      else finish cfg cpu r.mode (codeAt codes r.mode) r.vals := by
  unfold decodeNorm isJJ
  congr 1
  funext r
  by_cases h : codeAt codes r.mode = -1 <;> simp [h, finish, bugOn]

theorem finish_neg (cfg : Cfg) (cpu mode : Nat) (vals : List Nat) : finish cfg cpu mode (-1) vals = .error .invAddrMode := by
  simp [finish]

/-- a mode that `DecodeNorm` does not replace: the step is `finish` -/
theorem step_plain (cfg : Cfg) (cpu : Nat) (codes : List Int) (mode : Nat) (vals : List Nat) (hp : promote mode = mode) :
    (if codeAt codes mode = -1 then
        finish cfg cpu (promote mode) (codeAt codes (promote mode)) (if cfg.fallbackLocal then vals ++ [0] else vals)
      else finish cfg cpu mode (codeAt codes mode) vals) = finish cfg cpu mode (codeAt codes mode) vals := by
  by_cases h : codeAt codes mode = -1
  · simp [h, hp, finish_neg]
  · simp [h]

theorem finish_isOk (cfg : Cfg) (cpu mode : Nat) (c : Int) (vals : List Nat) :
    isOk (finish cfg cpu mode c vals) =
      (isAllowed cpu c && !(decide (mode = modInd16) && bugOn cfg cpu && decide (vals.head? = some 0xff))) := by
  unfold finish isAllowed
  by_cases h1 : c = -1
  · simp [h1, isOk]
  · by_cases h2 : cpuAllowed cpu (c.toNat >>> 8) = true
    · by_cases h3 : mode = modInd16 ∧ bugOn cfg cpu = true ∧ vals.head? = some 0xff
      · simp [h1, h2, h3, isOk]
      · simp only [h1, h2, h3, if_false, isOk]
        simp only [not_and] at h3
        by_cases h4 : mode = modInd16 <;> by_cases h5 : bugOn cfg cpu = true <;> simp_all
    · simp [h1, h2, isOk]

theorem finish_ok (cfg : Cfg) (cpu mode : Nat) (c : Int) (vals : List Nat) (bs : List Byte) (h : finish cfg cpu mode c vals = .ok bs) :
    isAllowed cpu c = true ∧ bs = b (c.toNat % 256) :: vals.map b := by
  unfold finish at h
  unfold isAllowed
  by_cases h1 : c = -1
  · simp [h1] at h
  · by_cases h2 : cpuAllowed cpu (c.toNat >>> 8) = true
    · by_cases h3 : mode = modInd16 ∧ bugOn cfg cpu = true ∧ vals.head? = some 0xff
      · simp [h1, h2, h3] at h
      · simp only [h1, h2, h3, if_false, Bool.not_true, Bool.false_eq_true, Except.ok.injEq] at h
        subst h
        simp [h1, h2, lo]
    · simp [h1, h2] at h


/-! #### no operand / `A` -/

theorem norm_none_eq (cfg : Cfg) (cpu : Nat) (m : Mn) (codes : List Int) :
    decodeNorm cfg cpu m codes .none = finish cfg cpu modNone (codeAt codes modNone) [] := by
  rw [decodeNorm_eq]
  simp only [decodeAdr, andThen_ok]
  exact step_plain cfg cpu codes modNone [] (by decide)

theorem norm_acc_eq (cfg : Cfg) (cpu : Nat) (m : Mn) (codes : List Int) :
    decodeNorm cfg cpu m codes .acc = finish cfg cpu modAcc (codeAt codes modAcc) [] := by
  rw [decodeNorm_eq]
  simp only [decodeAdr, andThen_ok]
  exact step_plain cfg cpu codes modAcc [] (by decide)

theorem noneMode_cases (m : Mn) : noneMode m = .impl ∨ noneMode m = .acc := by
  cases m <;> simp [noneMode]

theorem norm_none_ok (cfg : Cfg) (cpu pc : Nat) (m : Mn) (codes : List Int) (hform : form m = .norm)
    (hk : modeOk cpu m (codeAt codes modNone) (noneMode m) = true) :
    legal cpu pc ⟨m, .none⟩ = isOk (decodeNorm cfg cpu m codes .none) := by
  rw [norm_none_eq, finish_isOk]
  simp [legal, hform, (modeOk_iff _ _ _ _ hk).1, modNone, modInd16]

theorem norm_none_sound (cfg : Cfg) (cpu pc : Nat) (m : Mn) (codes : List Int) (bs : List Byte)
    (hk : modeOk cpu m (codeAt codes modNone) (noneMode m) = true)
    (h : decodeNorm cfg cpu m codes .none = .ok bs) : decode cpu pc bs = some (meaning cpu ⟨m, .none⟩, bs.length) := by
  rw [norm_none_eq] at h
  obtain ⟨ha, rfl⟩ := finish_ok _ _ _ _ _ _ h
  have h1 := (modeOk_iff _ _ _ _ hk).2 ha
  rcases noneMode_cases m with hn | hn
  · rw [hn] at h1
    simp only [List.map_nil]
    rw [decode_impl cpu pc _ m (by rw [b_toNat, Nat.mod_mod]; exact h1)]
    simp [meaning, hn]
  · rw [hn] at h1
    simp only [List.map_nil]
    rw [decode_acc cpu pc _ m (by rw [b_toNat, Nat.mod_mod]; exact h1)]
    simp [meaning, hn]

theorem norm_acc_ok (cfg : Cfg) (cpu pc : Nat) (m : Mn) (codes : List Int) (hform : form m = .norm)
    (hk : modeOk cpu m (codeAt codes modAcc) .acc = true) :
    legal cpu pc ⟨m, .acc⟩ = isOk (decodeNorm cfg cpu m codes .acc) := by
  rw [norm_acc_eq, finish_isOk]
  simp [legal, hform, (modeOk_iff _ _ _ _ hk).1, modAcc, modInd16]

theorem norm_acc_sound (cfg : Cfg) (cpu pc : Nat) (m : Mn) (codes : List Int) (bs : List Byte)
    (hk : modeOk cpu m (codeAt codes modAcc) .acc = true)
    (h : decodeNorm cfg cpu m codes .acc = .ok bs) : decode cpu pc bs = some (meaning cpu ⟨m, .acc⟩, bs.length) := by
  rw [norm_acc_eq] at h
  obtain ⟨ha, rfl⟩ := finish_ok _ _ _ _ _ _ h
  have h1 := (modeOk_iff _ _ _ _ hk).2 ha
  simp only [List.map_nil]
  rw [decode_acc cpu pc _ m (by rw [b_toNat, Nat.mod_mod]; exact h1)]
  simp [meaning]

/-! #### `#v` -/

theorem norm_imm_eq (cfg : Cfg) (cpu : Nat) (m : Mn) (codes : List Int) (v : Int) :
    decodeNorm cfg cpu m codes (.imm v) =
      if -128 ≤ v ∧ v ≤ 255 then finish cfg cpu modImm (codeAt codes modImm) [lo (toWord v)] else .error .overRange := by
  rw [decodeNorm_eq]
  simp only [decodeAdr, evalI8]
  by_cases hv : -128 ≤ v ∧ v ≤ 255
  · simp only [hv, and_self, if_true, andThen_ok]
    exact step_plain cfg cpu codes modImm _ (by decide)
  · simp [hv]

theorem norm_imm_ok (cfg : Cfg) (cpu pc : Nat) (m : Mn) (codes : List Int) (v : Int) (hform : form m = .norm)
    (hk : modeOk cpu m (codeAt codes modImm) .imm = true) :
    legal cpu pc ⟨m, .imm v⟩ = isOk (decodeNorm cfg cpu m codes (.imm v)) := by
  rw [norm_imm_eq]
  by_cases hv : -128 ≤ v ∧ v ≤ 255
  · simp only [hv, and_self, if_true, finish_isOk]
    simp [legal, hform, (modeOk_iff _ _ _ _ hk).1, modImm, modInd16, inR, hv]
  · simp [legal, hform, hv, isOk, inR]; omega

theorem lo_toWord (v : Int) : lo (toWord v) % 256 = byteOf v := by
  unfold lo toWord byteOf; omega

theorem norm_imm_sound (cfg : Cfg) (cpu pc : Nat) (m : Mn) (codes : List Int) (v : Int) (bs : List Byte)
    (hk : modeOk cpu m (codeAt codes modImm) .imm = true)
    (h : decodeNorm cfg cpu m codes (.imm v) = .ok bs) : decode cpu pc bs = some (meaning cpu ⟨m, .imm v⟩, bs.length) := by
  rw [norm_imm_eq] at h
  by_cases hv : -128 ≤ v ∧ v ≤ 255
  · simp only [hv, and_self, if_true] at h
    obtain ⟨ha, rfl⟩ := finish_ok _ _ _ _ _ _ h
    have h1 := (modeOk_iff _ _ _ _ hk).2 ha
    simp only [List.map_cons, List.map_nil]
    rw [decode_len1 cpu pc _ _ m .imm (by rw [b_toNat, Nat.mod_mod]; exact h1) rfl (by decide)]
    simp [meaning, lo_toWord]
  · simp [hv] at h



/-! #### `(v),Y` and `(v,X)` -/

theorem toByte_byteOf (v : Int) : toByte v % 256 = byteOf v := by
  unfold toByte byteOf; omega

theorem word_bytes (v : Int) : lo (toWord v) % 256 + 256 * (hi (toWord v) % 256) = wordOf v := by
  unfold lo hi toWord wordOf; omega

theorem norm_indY_eq (cfg : Cfg) (cpu : Nat) (m : Mn) (codes : List Int) (v : Int) :
    decodeNorm cfg cpu m codes (.ptr .indY v) =
      if 0 ≤ v ∧ v ≤ 255 then finish cfg cpu modIndOY (codeAt codes modIndOY) [toByte v] else .error .overRange := by
  rw [decodeNorm_eq]
  simp only [decodeAdr, evalU8]
  by_cases hv : 0 ≤ v ∧ v ≤ 255
  · simp only [hv, and_self, if_true, andThen_ok]
    exact step_plain cfg cpu codes modIndOY _ (by decide)
  · simp [hv]

theorem norm_indY_ok (cfg : Cfg) (cpu pc : Nat) (m : Mn) (codes : List Int) (v : Int) (hform : form m = .norm)
    (hk : modeOk cpu m (codeAt codes modIndOY) .indY = true) :
    legal cpu pc ⟨m, .ptr .indY v⟩ = isOk (decodeNorm cfg cpu m codes (.ptr .indY v)) := by
  rw [norm_indY_eq]
  by_cases hv : 0 ≤ v ∧ v ≤ 255
  · simp only [hv, and_self, if_true, finish_isOk]
    simp [legal, hform, ptrMode, Mode.len, (modeOk_iff _ _ _ _ hk).1, modIndOY, modInd16, inR, hv]
  · simp [legal, hform, ptrMode, Mode.len, hv, isOk, inR]; omega

theorem norm_indY_sound (cfg : Cfg) (cpu pc : Nat) (m : Mn) (codes : List Int) (v : Int) (bs : List Byte)
    (hk : modeOk cpu m (codeAt codes modIndOY) .indY = true)
    (h : decodeNorm cfg cpu m codes (.ptr .indY v) = .ok bs) :
    decode cpu pc bs = some (meaning cpu ⟨m, .ptr .indY v⟩, bs.length) := by
  rw [norm_indY_eq] at h
  by_cases hv : 0 ≤ v ∧ v ≤ 255
  · simp only [hv, and_self, if_true] at h
    obtain ⟨ha, rfl⟩ := finish_ok _ _ _ _ _ _ h
    have h1 := (modeOk_iff _ _ _ _ hk).2 ha
    simp only [List.map_cons, List.map_nil]
    rw [decode_len1 cpu pc _ _ m .indY (by rw [b_toNat, Nat.mod_mod]; exact h1) rfl (by decide)]
    simp [meaning, ptrMode, Mode.len, toByte_byteOf]
  · simp [hv] at h

theorem norm_indX_eq (cfg : Cfg) (cpu : Nat) (m : Mn) (codes : List Int) (v : Int) :
    decodeNorm cfg cpu m codes (.ptr .indX v) =
      if isJJ m = true then
        (if 0 ≤ v ∧ v ≤ 65535 then finish cfg cpu modIndIX (codeAt codes modIndIX) [lo (toWord v), hi (toWord v)] else .error .overRange)
      else
        (if 0 ≤ v ∧ v ≤ 255 then finish cfg cpu modIndIX (codeAt codes modIndIX) [toByte v] else .error .overRange) := by
  rw [decodeNorm_eq]
  simp only [decodeAdr, evalU8, evalU16]
  by_cases hj : isJJ m = true
  · by_cases hv : 0 ≤ v ∧ v ≤ 65535
    · simp only [hj, hv, and_self, if_true, andThen_ok]
      exact step_plain cfg cpu codes modIndIX _ (by decide)
    · simp [hj, hv]
  · by_cases hv : 0 ≤ v ∧ v ≤ 255
    · simp only [hj, hv, and_self, if_true, andThen_ok]
      exact step_plain cfg cpu codes modIndIX _ (by decide)
    · simp [hj, hv]

theorem norm_indX_ok (cfg : Cfg) (cpu pc : Nat) (m : Mn) (codes : List Int) (v : Int) (hform : form m = .norm)
    (hk : modeOk cpu m (codeAt codes modIndIX) (if isJJ m then .absIndX else .indX) = true)
    (hn : hasMode cpu m (if isJJ m then .indX else .absIndX) = false) :
    legal cpu pc ⟨m, .ptr .indX v⟩ = isOk (decodeNorm cfg cpu m codes (.ptr .indX v)) := by
  rw [norm_indX_eq]
  generalize codeAt codes modIndIX = c at hk ⊢
  have hk1 := (modeOk_iff _ _ _ _ hk).1
  by_cases hj : isJJ m = true
  · simp only [hj, if_true] at hk1 hn ⊢
    by_cases hv : 0 ≤ v ∧ v ≤ 65535
    · simp only [hv, and_self, if_true, finish_isOk]
      by_cases ha : isAllowed cpu c = true
      · simp [legal, hform, ptrMode, Mode.len, hk1, ha, modIndIX, modInd16, inR, hv]
      · simp [legal, hform, ptrMode, Mode.len, hk1, hn, ha]
    · by_cases ha : isAllowed cpu c = true
      · simp [legal, hform, ptrMode, Mode.len, hk1, ha, hv, isOk, inR]; omega
      · simp [legal, hform, ptrMode, Mode.len, hk1, hn, ha, hv, isOk]
  · simp only [hj, if_false, Bool.false_eq_true] at hk1 hn ⊢
    by_cases hv : 0 ≤ v ∧ v ≤ 255
    · simp only [hv, and_self, if_true, finish_isOk]
      simp [legal, hform, ptrMode, Mode.len, hk1, hn, modIndIX, modInd16, inR, hv]
    · simp [legal, hform, ptrMode, Mode.len, hn, hv, isOk, inR]; omega

theorem norm_indX_sound (cfg : Cfg) (cpu pc : Nat) (m : Mn) (codes : List Int) (v : Int) (bs : List Byte)
    (hk : modeOk cpu m (codeAt codes modIndIX) (if isJJ m then .absIndX else .indX) = true)
    (hn : hasMode cpu m (if isJJ m then .indX else .absIndX) = false)
    (h : decodeNorm cfg cpu m codes (.ptr .indX v) = .ok bs) :
    decode cpu pc bs = some (meaning cpu ⟨m, .ptr .indX v⟩, bs.length) := by
  rw [norm_indX_eq] at h
  have hk1 := (modeOk_iff _ _ _ _ hk).1
  have hk2 := (modeOk_iff _ _ _ _ hk).2
  by_cases hj : isJJ m = true
  · simp only [hj, if_true] at hk1 hk2 hn h
    by_cases hv : 0 ≤ v ∧ v ≤ 65535
    · simp only [hv, and_self, if_true] at h
      obtain ⟨ha, rfl⟩ := finish_ok _ _ _ _ _ _ h
      have h1 := hk2 ha
      simp only [List.map_cons, List.map_nil]
      rw [decode_len2 cpu pc _ _ _ m .absIndX (by rw [b_toNat, Nat.mod_mod]; exact h1) rfl (by decide)]
      simp [meaning, ptrMode, Mode.len, hk1, ha, word_bytes]
    · simp [hv] at h
  · simp only [hj, if_false, Bool.false_eq_true] at hk1 hk2 hn h
    by_cases hv : 0 ≤ v ∧ v ≤ 255
    · simp only [hv, and_self, if_true] at h
      obtain ⟨ha, rfl⟩ := finish_ok _ _ _ _ _ _ h
      have h1 := hk2 ha
      simp only [List.map_cons, List.map_nil]
      rw [decode_len1 cpu pc _ _ m .indX (by rw [b_toNat, Nat.mod_mod]; exact h1) rfl (by decide)]
      simp [meaning, ptrMode, Mode.len, hn, toByte_byteOf]
    · simp [hv] at h


/-! #### `v`, `v,X`, `v,Y`, `(v)` with length prefix -/

/-- lower limit of the 16-bit evaluation -/
def longLo : Syn → Int
  | .dir | .ind => 0
  | .idxX | .idxY => -32768

theorem evalLong (syn : Syn) (v : Int) :
    evalInt (longType syn) v = if longLo syn ≤ v ∧ v ≤ 65535 then .ok v else .error .overRange := by
  cases syn <;> simp only [longType, longLo, evalU16, evalI16] <;> rfl

theorem absRange_eq (syn : Syn) (v : Int) : absRange syn v = (decide (longLo syn ≤ v) && decide (v ≤ 65535)) := by
  cases syn <;> simp only [absRange, longLo, inR] <;> rfl

theorem longLo_ge (syn : Syn) : -32768 ≤ longLo syn ∧ longLo syn ≤ 0 := by cases syn <;> simp [longLo]

theorem promote_short (syn : Syn) : promote (shortMode syn) = longMode syn := by cases syn <;> decide
theorem promote_long (syn : Syn) : promote (longMode syn) = longMode syn := by cases syn <;> decide
theorem short_ne_ind16 (syn : Syn) : shortMode syn ≠ modInd16 := by cases syn <;> decide
theorem long_eq_ind16 (syn : Syn) : longMode syn = modInd16 ↔ syn = .ind := by cases syn <;> decide
theorem zpForm_len (syn : Syn) : (zpForm syn).len = 1 ∧ zpForm syn ≠ .rel := by cases syn <;> decide
theorem absForm_len (syn : Syn) : (absForm syn).len = 2 ∧ absForm syn ≠ .zpRel := by cases syn <;> decide

theorem isAllowed_neg (cpu : Nat) : isAllowed cpu (-1) = false := by simp [isAllowed]

theorem norm_mem_lt_eq (cfg : Cfg) (cpu : Nat) (m : Mn) (codes : List Int) (syn : Syn) (v : Int) :
    decodeNorm cfg cpu m codes (.mem syn .lt v) =
      if 0 ≤ v ∧ v ≤ 255 then
        (if codeAt codes (shortMode syn) = -1 then
           finish cfg cpu (longMode syn) (codeAt codes (longMode syn)) (if cfg.fallbackLocal then [toByte v, 0] else [toByte v])
         else finish cfg cpu (shortMode syn) (codeAt codes (shortMode syn)) [toByte v])
      else .error .overRange := by
  rw [decodeNorm_eq]
  simp only [decodeAdr, zeroMode, evalU8]
  by_cases hv : 0 ≤ v ∧ v ≤ 255
  · simp [hv, promote_short]
  · simp [hv]

theorem norm_mem_gt_eq (cfg : Cfg) (cpu : Nat) (m : Mn) (codes : List Int) (syn : Syn) (v : Int) :
    decodeNorm cfg cpu m codes (.mem syn .gt v) =
      if longLo syn ≤ v ∧ v ≤ 65535 then
        finish cfg cpu (longMode syn) (codeAt codes (longMode syn)) [lo (toWord v), hi (toWord v)]
      else .error .overRange := by
  rw [decodeNorm_eq]
  simp only [decodeAdr, zeroMode, evalLong]
  by_cases hv : longLo syn ≤ v ∧ v ≤ 65535
  · simp only [hv, and_self, if_true, andThen_ok, show ¬ ((1 : Nat) = 2) from by decide, show ¬ ((1 : Nat) = 0) from by decide, if_false, false_and]
    exact step_plain cfg cpu codes (longMode syn) _ (promote_long syn)
  · simp [hv]

theorem norm_mem_none_eq (cfg : Cfg) (cpu : Nat) (m : Mn) (codes : List Int) (syn : Syn) (v : Int) :
    decodeNorm cfg cpu m codes (.mem syn .none v) =
      if longLo syn ≤ v ∧ v ≤ 65535 then
        (if hi (toWord v) = 0 ∧ isAllowed cpu (codeAt codes (shortMode syn)) = true then
           finish cfg cpu (shortMode syn) (codeAt codes (shortMode syn)) [lo (toWord v)]
         else finish cfg cpu (longMode syn) (codeAt codes (longMode syn)) [lo (toWord v), hi (toWord v)])
      else .error .overRange := by
  rw [decodeNorm_eq]
  simp only [decodeAdr, zeroMode, evalLong]
  by_cases hv : longLo syn ≤ v ∧ v ≤ 65535
  · simp only [hv, and_self, if_true, andThen_ok, show ¬ ((0 : Nat) = 2) from by decide, if_false, true_and]
    by_cases hh : hi (toWord v) = 0
    · by_cases hz : isAllowed cpu (codeAt codes (shortMode syn)) = true
      · have hne : codeAt codes (shortMode syn) ≠ -1 := by
          intro he; rw [he, isAllowed_neg] at hz; cases hz
        simp [hh, hz, chkZeroMode, hne]
      · simp only [hh, hz, chkZeroMode, if_true, if_false, and_false, andThen_ok, Bool.false_eq_true]
        exact step_plain cfg cpu codes (longMode syn) _ (promote_long syn)
    · simp only [hh, if_false, false_and, andThen_ok]
      exact step_plain cfg cpu codes (longMode syn) _ (promote_long syn)
  · simp [hv]


theorem hi_zero_iff (v : Int) (h : -32768 ≤ v ∧ v ≤ 65535) : hi (toWord v) = 0 ↔ 0 ≤ v ∧ v ≤ 255 := by
  unfold hi toWord; omega

theorem lo_ff_iff (v : Int) : lo (toWord v) = 255 ↔ v % 256 = 255 := by
  unfold lo toWord; omega

/-- side condition 1 (finding `6502-normfallback-global-adrcnt`): `<v` for an instruction that has only the absolute
form of the mode - AS falls back to the absolute form, the SPEC (manual) calls the statement illegal -/
def forcedZpOnly (cpu : Nat) (m : Mn) (syn : Syn) (p : Pfx) : Bool :=
  p == .lt && !hasMode cpu m (zpForm syn) && hasMode cpu m (absForm syn)

/-- side condition 2 (finding `65sc02-jmp-ind-page-end-rejected`): `JMP (abs)` with pointer low byte `$FF` on the 65SC02 -/
def cmosIndFF (cpu : Nat) (m : Mn) (syn : Syn) (v : Int) : Bool :=
  cpu == 1 && syn == .ind && v % 256 == 255 && hasMode cpu m .ind

/-- the NMOS rule as `DecodeNorm` applies it (every CPU but the 65C02) -/
def mbug (cfg : Cfg) (cpu : Nat) (syn : Syn) (v : Int) : Bool :=
  decide (syn = .ind) && bugOn cfg cpu && decide (v % 256 = 255)

theorem finish_long_isOk (cfg : Cfg) (cpu : Nat) (syn : Syn) (c : Int) (v : Int) :
    isOk (finish cfg cpu (longMode syn) c [lo (toWord v), hi (toWord v)]) = (isAllowed cpu c && !mbug cfg cpu syn v) := by
  rw [finish_isOk]
  simp only [mbug, List.head?_cons, Option.some.injEq, lo_ff_iff, long_eq_ind16]

theorem finish_short_isOk (cfg : Cfg) (cpu : Nat) (syn : Syn) (c : Int) (vals : List Nat) :
    isOk (finish cfg cpu (shortMode syn) c vals) = isAllowed cpu c := by
  rw [finish_isOk]
  simp [short_ne_ind16]

/-- which CPUs the `JMP ($xxFF)` rule of `stdCfg fl nm` covers -/
theorem stdCfg_bug (fl nm : Bool) (cpu : Nat) :
    bugOn (stdCfg fl nm) cpu = (cpu == 0 || (nm && cpu == 1)) := by
  cases nm <;> simp [stdCfg, bugOn] <;> rfl

theorem mbug_eq (cfg : Cfg) (nm : Bool) (cpu : Nat) (hcpu : cpu ≤ 2) (m : Mn) (syn : Syn) (v : Int)
    (hbug : bugOn cfg cpu = (cpu == 0 || (nm && cpu == 1)))
    (hs2 : (nm && cmosIndFF cpu m syn v) = false)
    (hA : hasMode cpu m (absForm syn) = true) : mbug cfg cpu syn v = nmosIndBug cpu syn v := by
  unfold mbug
  rw [hbug]
  have : cpu = 0 ∨ cpu = 1 ∨ cpu = 2 := by omega
  rcases this with rfl | rfl | rfl
  · cases syn <;> simp [nmosIndBug] <;> rfl
  · cases syn <;> simp [nmosIndBug]
    cases nm
    · simp
    · simp [cmosIndFF, absForm] at hs2 hA
      intro _ h; exact absurd hA (by simp [hs2 h])
  · cases syn <;> simp [nmosIndBug]

theorem norm_mem_ok (cfg : Cfg) (nm : Bool) (cpu pc : Nat) (hcpu : cpu ≤ 2) (m : Mn) (codes : List Int) (syn : Syn) (p : Pfx) (v : Int)
    (hbug : bugOn cfg cpu = (cpu == 0 || (nm && cpu == 1)))
    (hform : form m = .norm)
    (hz : modeOk cpu m (codeAt codes (shortMode syn)) (zpForm syn) = true)
    (ha : modeOk cpu m (codeAt codes (longMode syn)) (absForm syn) = true)
    (hs1 : forcedZpOnly cpu m syn p = false) (hs2 : (nm && cmosIndFF cpu m syn v) = false) :
    legal cpu pc ⟨m, .mem syn p v⟩ = isOk (decodeNorm cfg cpu m codes (.mem syn p v)) := by
  have hZ := (modeOk_iff _ _ _ _ hz).1
  have hA := (modeOk_iff _ _ _ _ ha).1
  have hb := mbug_eq cfg nm cpu hcpu m syn v hbug hs2
  have hlo := longLo_ge syn
  simp only [legal, hform, legalMem]
  cases p
  case gt =>
    rw [norm_mem_gt_eq]
    generalize codeAt codes (longMode syn) = ac at hA ⊢
    simp only [absOk, absRange_eq]
    by_cases hv : longLo syn ≤ v ∧ v ≤ 65535
    · simp only [hv, and_self, if_true, finish_long_isOk, decide_true, Bool.and_true]
      by_cases hal : isAllowed cpu ac = true
      · rw [hb (by rw [hA]; exact hal), hA, hal]
      · simp [hA, hal]
    · have : (decide (longLo syn ≤ v) && decide (v ≤ 65535)) = false := by simpa using hv
      simp [hv, this, isOk]
  case none =>
    rw [norm_mem_none_eq]
    generalize codeAt codes (longMode syn) = ac at hA ⊢
    generalize codeAt codes (shortMode syn) = zc at hZ ⊢
    simp only [absOk, zpOk, absRange_eq, inR]
    by_cases hv : longLo syn ≤ v ∧ v ≤ 65535
    · have hh := hi_zero_iff v (by omega)
      simp only [hv, and_self, if_true, decide_true, Bool.and_true]
      by_cases h8 : 0 ≤ v ∧ v ≤ 255
      · have h0 : hi (toWord v) = 0 := hh.2 h8
        by_cases hzl : isAllowed cpu zc = true
        · rw [if_pos ⟨h0, hzl⟩, finish_short_isOk]
          simp [hZ, hzl, h8]
        · rw [if_neg (fun hc => hzl hc.2), finish_long_isOk]
          by_cases hal : isAllowed cpu ac = true
          · rw [hb (by rw [hA]; exact hal), hA, hal, hZ]; simp [hzl]
          · simp [hA, hal, hZ, hzl]
      · have h0 : ¬ hi (toWord v) = 0 := fun h => h8 (hh.1 h)
        have h8' : (decide (0 ≤ v) && decide (v ≤ 255)) = false := by simpa using h8
        rw [if_neg (fun hc => h0 hc.1), finish_long_isOk]
        simp only [h8', Bool.and_false, Bool.false_or]
        by_cases hal : isAllowed cpu ac = true
        · rw [hb (by rw [hA]; exact hal), hA, hal]
        · simp [hA, hal]
    · have h1 : (decide (longLo syn ≤ v) && decide (v ≤ 65535)) = false := by simpa using hv
      have h8' : (decide (0 ≤ v) && decide (v ≤ 255)) = false := by
        have : ¬ (0 ≤ v ∧ v ≤ 255) := by omega
        simpa using this
      simp [hv, h1, h8', isOk]
  case lt =>
    rw [norm_mem_lt_eq]
    generalize codeAt codes (longMode syn) = ac at hA ⊢
    generalize codeAt codes (shortMode syn) = zc at hZ ⊢
    simp only [zpOk, inR]
    by_cases h8 : 0 ≤ v ∧ v ≤ 255
    · simp only [h8, and_self, if_true, decide_true, Bool.and_true]
      by_cases hn : zc = -1
      · subst hn
        rw [isAllowed_neg] at hZ
        simp only [forcedZpOnly, hZ, beq_self_eq_true, Bool.not_false, Bool.true_and] at hs1
        rw [hA] at hs1
        simp only [if_true, hZ]
        rw [finish_isOk, hs1]; rfl
      · simp [hn, finish_short_isOk, hZ]
    · have h8' : (decide (0 ≤ v) && decide (v ≤ 255)) = false := by simpa using h8
      simp [h8, h8', isOk]

theorem mem_long_case (cfg : Cfg) (cpu pc : Nat) (m : Mn) (syn : Syn) (p : Pfx) (v : Int) (bs : List Byte) (ac : Int) (vals : List Nat)
    (hAd : isAllowed cpu ac = true → decode1 cpu (ac.toNat % 256) = some (m, absForm syn))
    (hf : finish cfg cpu (longMode syn) ac vals = .ok bs) (hmm : memMode cpu m syn p v = absForm syn)
    (hw : ∃ x y, vals = [x, y] ∧ x % 256 + 256 * (y % 256) = wordOf v) :
    decode cpu pc bs = some (meaning cpu ⟨m, .mem syn p v⟩, bs.length) := by
  obtain ⟨x, y, hxy, hw⟩ := hw
  obtain ⟨hall, rfl⟩ := finish_ok _ _ _ _ _ _ hf
  have hal := absForm_len syn
  subst hxy
  simp only [List.map_cons, List.map_nil]
  rw [decode_len2 cpu pc _ _ _ m (absForm syn) (by rw [b_toNat, Nat.mod_mod]; exact hAd hall) hal.1 hal.2]
  simp [meaning, hmm, hal.1, hw]

theorem mem_short_case (cfg : Cfg) (cpu pc : Nat) (m : Mn) (syn : Syn) (p : Pfx) (v : Int) (bs : List Byte) (zc : Int) (x : Nat)
    (hZd : isAllowed cpu zc = true → decode1 cpu (zc.toNat % 256) = some (m, zpForm syn))
    (hf : finish cfg cpu (shortMode syn) zc [x] = .ok bs) (hmm : memMode cpu m syn p v = zpForm syn)
    (hx : x % 256 = byteOf v) :
    decode cpu pc bs = some (meaning cpu ⟨m, .mem syn p v⟩, bs.length) := by
  obtain ⟨hall, rfl⟩ := finish_ok _ _ _ _ _ _ hf
  have hzl := zpForm_len syn
  simp only [List.map_cons, List.map_nil]
  rw [decode_len1 cpu pc _ _ m (zpForm syn) (by rw [b_toNat, Nat.mod_mod]; exact hZd hall) hzl.1 hzl.2]
  simp [meaning, hmm, hzl.1, hx]

theorem norm_mem_sound (cfg : Cfg) (cpu pc : Nat) (m : Mn) (codes : List Int) (syn : Syn) (p : Pfx) (v : Int)
    (bs : List Byte)
    (hz : modeOk cpu m (codeAt codes (shortMode syn)) (zpForm syn) = true)
    (ha : modeOk cpu m (codeAt codes (longMode syn)) (absForm syn) = true)
    (hfl : cfg.fallbackLocal = true ∨ forcedZpOnly cpu m syn p = false)
    (h : decodeNorm cfg cpu m codes (.mem syn p v) = .ok bs) :
    decode cpu pc bs = some (meaning cpu ⟨m, .mem syn p v⟩, bs.length) := by
  have hZ := (modeOk_iff _ _ _ _ hz).1
  have hA := (modeOk_iff _ _ _ _ ha).1
  have hZd := (modeOk_iff _ _ _ _ hz).2
  have hAd := (modeOk_iff _ _ _ _ ha).2
  have hlo := longLo_ge syn
  cases p
  case gt =>
    rw [norm_mem_gt_eq] at h
    by_cases hv : longLo syn ≤ v ∧ v ≤ 65535
    · simp only [hv, and_self, if_true] at h
      exact mem_long_case cfg cpu pc m syn _ v bs _ _ hAd h rfl ⟨_, _, rfl, word_bytes v⟩
    · simp [hv] at h
  case none =>
    rw [norm_mem_none_eq] at h
    generalize codeAt codes (longMode syn) = ac at hA hAd h
    generalize codeAt codes (shortMode syn) = zc at hZ hZd h
    by_cases hv : longLo syn ≤ v ∧ v ≤ 65535
    · simp only [hv, and_self, if_true] at h
      have hh := hi_zero_iff v (by omega)
      by_cases hc : hi (toWord v) = 0 ∧ isAllowed cpu zc = true
      · rw [if_pos hc] at h
        have h8 := hh.1 hc.1
        refine mem_short_case cfg cpu pc m syn _ v bs zc _ hZd h ?_ (lo_toWord v)
        simp [memMode, zpOk, hZ, hc.2, inR, h8]
      · rw [if_neg hc] at h
        refine mem_long_case cfg cpu pc m syn _ v bs ac _ hAd h ?_ ⟨_, _, rfl, word_bytes v⟩
        have : zpOk cpu m syn v = false := by
          simp only [zpOk, hZ, inR]
          by_cases hzal : isAllowed cpu zc = true
          · have : ¬ (0 ≤ v ∧ v ≤ 255) := fun h8 => hc ⟨hh.2 h8, hzal⟩
            simp [hzal]; omega
          · simp [hzal]
        simp [memMode, this]
    · simp [hv] at h
  case lt =>
    rw [norm_mem_lt_eq] at h
    generalize codeAt codes (longMode syn) = ac at hA hAd h
    generalize codeAt codes (shortMode syn) = zc at hZ hZd h
    by_cases h8 : 0 ≤ v ∧ v ≤ 255
    · simp only [h8, and_self, if_true] at h
      by_cases hn : zc = -1
      · subst hn
        rw [isAllowed_neg] at hZ
        simp only [if_true] at h
        have hmm : memMode cpu m syn .lt v = absForm syn := by simp [memMode, hZ]
        rcases hfl with hfl | hfl
        · rw [hfl] at h
          simp only [if_true] at h
          refine mem_long_case cfg cpu pc m syn _ v bs ac _ hAd h hmm ⟨_, _, rfl, ?_⟩
          unfold toByte wordOf; omega
        · obtain ⟨hall, _⟩ := finish_ok _ _ _ _ _ _ h
          simp only [forcedZpOnly, hZ, hA, hall, beq_self_eq_true, Bool.not_false, Bool.true_and] at hfl
          cases hfl
      · simp only [hn, if_false] at h
        obtain ⟨hall, _⟩ := finish_ok _ _ _ _ _ _ h
        refine mem_short_case cfg cpu pc m syn _ v bs zc _ hZd h ?_ (toByte_byteOf v)
        simp [memMode, hZ, hall]
    · simp [h8] at h


/-! ### assembling the handlers -/

/-- statements on which code65.c deviates from the SPEC by one of the two recorded findings (`nm`: the second one
is present, i.e. the `JMP ($xxFF)` rule is applied to the 65SC02) -/
def exempt (nm : Bool) (cpu : Nat) (s : Src) : Bool :=
  match s.op with
  | .mem syn p v => forcedZpOnly cpu s.mn syn p || (nm && cmosIndFF cpu s.mn syn v)
  | _ => false

/-- the first finding alone (it concerns the emitted bytes) -/
def forcedZp (cpu : Nat) (s : Src) : Bool :=
  match s.op with
  | .mem syn p _ => forcedZpOnly cpu s.mn syn p
  | _ => false

theorem normOk_parts (cpu : Nat) (m : Mn) (codes : List Int) (h : normOk cpu m codes = true) :
    (∀ syn, modeOk cpu m (codeAt codes (shortMode syn)) (zpForm syn) = true ∧
            modeOk cpu m (codeAt codes (longMode syn)) (absForm syn) = true) ∧
    modeOk cpu m (codeAt codes modImm) .imm = true ∧
    modeOk cpu m (codeAt codes modAcc) .acc = true ∧
    modeOk cpu m (codeAt codes modNone) (noneMode m) = true ∧
    modeOk cpu m (codeAt codes modIndOY) .indY = true ∧
    modeOk cpu m (codeAt codes modIndIX) (if isJJ m then .absIndX else .indX) = true ∧
    hasMode cpu m (if isJJ m then .indX else .absIndX) = false := by
  unfold normOk at h
  simp only [Bool.and_eq_true, List.all_cons, List.all_nil, Bool.and_true, Bool.not_eq_true'] at h
  obtain ⟨⟨⟨⟨⟨⟨⟨_, hs⟩, h1⟩, h2⟩, h3⟩, h4⟩, h5⟩, h6⟩ := h
  refine ⟨?_, h1, h2, h3, h4, h5, h6⟩
  intro syn
  cases syn
  · exact hs.1
  · exact hs.2.1
  · exact hs.2.2.1
  · exact hs.2.2.2

theorem norm_ok (cfg : Cfg) (nm : Bool) (cpu pc : Nat) (hcpu : cpu ≤ 2) (m : Mn) (codes : List Int) (op : Opnd)
    (hbug : bugOn cfg cpu = (cpu == 0 || (nm && cpu == 1)))
    (hform : form m = .norm) (hn : normOk cpu m codes = true) (hs : exempt nm cpu ⟨m, op⟩ = false) :
    legal cpu pc ⟨m, op⟩ = isOk (decodeNorm cfg cpu m codes op) := by
  obtain ⟨hmem, himm, hacc, hnone, hiy, hix, hnx⟩ := normOk_parts cpu m codes hn
  cases op
  case none => exact norm_none_ok cfg cpu pc m codes hform hnone
  case acc => exact norm_acc_ok cfg cpu pc m codes hform hacc
  case imm v => exact norm_imm_ok cfg cpu pc m codes v hform himm
  case mem syn p v =>
    simp only [exempt, Bool.or_eq_false_iff] at hs
    exact norm_mem_ok cfg nm cpu pc hcpu m codes syn p v hbug hform (hmem syn).1 (hmem syn).2 hs.1 hs.2
  case ptr k v =>
    cases k
    · exact norm_indX_ok cfg cpu pc m codes v hform hix hnx
    · exact norm_indY_ok cfg cpu pc m codes v hform hiy
  all_goals simp [legal, hform, decodeNorm, decodeAdr, isOk]

theorem norm_sound (cfg : Cfg) (cpu pc : Nat) (m : Mn) (codes : List Int) (op : Opnd) (bs : List Byte)
    (hn : normOk cpu m codes = true) (hfl : cfg.fallbackLocal = true ∨ forcedZp cpu ⟨m, op⟩ = false)
    (h : decodeNorm cfg cpu m codes op = .ok bs) : decode cpu pc bs = some (meaning cpu ⟨m, op⟩, bs.length) := by
  obtain ⟨hmem, himm, hacc, hnone, hiy, hix, hnx⟩ := normOk_parts cpu m codes hn
  cases op
  case none => exact norm_none_sound cfg cpu pc m codes bs hnone h
  case acc => exact norm_acc_sound cfg cpu pc m codes bs hacc h
  case imm v => exact norm_imm_sound cfg cpu pc m codes v bs himm h
  case mem syn p v => exact norm_mem_sound cfg cpu pc m codes syn p v bs (hmem syn).1 (hmem syn).2 hfl h
  case ptr k v =>
    cases k
    · exact norm_indX_sound cfg cpu pc m codes v bs hix hnx h
    · exact norm_indY_sound cfg cpu pc m codes v bs hiy h
  all_goals simp [decodeNorm, decodeAdr] at h

/-- **acceptance**: on every statement outside the two findings the code generator accepts exactly the legal ones -/
theorem encode_ok (fl nm : Bool) (cpu pc : Nat) (hcpu : cpu ≤ 2) (s : Src) (hs : exempt nm cpu s = false) :
    legal cpu pc s = isOk (encode (stdCfg fl nm) cpu pc s) := by
  obtain ⟨hd, hl, hg⟩ := lookup_good s.mn
  have hg := good_on cpu hcpu s.mn hd hg
  obtain ⟨m, op⟩ := s
  simp only at hl hg hs
  unfold encode
  simp only [hl]
  cases hd with
  | fixed flag code =>
    simp only [goodOn, Bool.and_eq_true, beq_iff_eq, decide_eq_true_eq] at hg
    exact fixed_ok cpu pc flag code m op hg.1.1.1 hg.1.2
  | norm codes =>
    simp only [goodOn, Bool.and_eq_true, beq_iff_eq] at hg
    exact norm_ok _ nm cpu pc hcpu m codes op (stdCfg_bug fl nm cpu) hg.1 hg.2 hs
  | cond flag short long =>
    simp only [goodOn, Bool.and_eq_true, beq_iff_eq, decide_eq_true_eq] at hg
    exact cond_ok fl nm cpu pc flag short long hcpu m op hg.1.1.1.1.1 hg.1.1.1.2 hg.1.1.2
  | brk =>
    simp only [goodOn, Bool.and_eq_true, beq_iff_eq] at hg
    obtain ⟨⟨_, rfl⟩, _⟩ := hg
    exact brk_ok cpu pc op
  | bbr code =>
    simp only [goodOn, Bool.and_eq_true, beq_iff_eq, decide_eq_true_eq] at hg
    exact bbr_ok fl nm cpu pc code m op hg.1.1.1 hg.1.2
  | rmb code =>
    simp only [goodOn, Bool.and_eq_true, beq_iff_eq, decide_eq_true_eq] at hg
    exact rmb_ok cpu pc code m op hg.1.1.1 hg.1.2

/-- **soundness**: emitted bytes decode to the statement's instruction (outside the first finding, or with the
fall-back through the result's own counter) -/
theorem encode_sound (fl nm : Bool) (cpu pc : Nat) (hcpu : cpu ≤ 2) (s : Src) (bs : List Byte)
    (hfl : fl = true ∨ forcedZp cpu s = false) (h : encode (stdCfg fl nm) cpu pc s = .ok bs) :
    decode cpu pc bs = some (meaning cpu s, bs.length) := by
  obtain ⟨hd, hl, hg⟩ := lookup_good s.mn
  have hg := good_on cpu hcpu s.mn hd hg
  obtain ⟨m, op⟩ := s
  simp only at hl hg hfl
  unfold encode at h
  simp only [hl] at h
  cases hd with
  | fixed flag code =>
    simp only [goodOn, Bool.and_eq_true, beq_iff_eq, decide_eq_true_eq, Bool.or_eq_true, Bool.not_eq_true'] at hg
    refine fixed_sound cpu pc flag code m op bs hg.1.1.1 hg.1.1.2 (fun ha => ?_) h
    rcases hg.2 with hf | hdq
    · rw [ha] at hf; cases hf
    · exact hdq
  | norm codes =>
    simp only [goodOn, Bool.and_eq_true, beq_iff_eq] at hg
    exact norm_sound _ cpu pc m codes op bs hg.2 hfl h
  | cond flag short long =>
    simp only [goodOn, Bool.and_eq_true, beq_iff_eq, decide_eq_true_eq, Bool.or_eq_true, Bool.not_eq_true'] at hg
    refine cond_sound fl nm cpu pc flag short long hcpu m op bs hg.1.1.1.2 hg.1.1.1.1.2 (fun ha => ?_) h
    rcases hg.1.2 with hf | hdq
    · rw [ha] at hf; cases hf
    · exact hdq
  | brk =>
    simp only [goodOn, Bool.and_eq_true, beq_iff_eq] at hg
    obtain ⟨⟨_, rfl⟩, h0⟩ := hg
    exact brk_sound cpu pc op bs h0 h
  | bbr code =>
    simp only [goodOn, Bool.and_eq_true, beq_iff_eq, decide_eq_true_eq, Bool.or_eq_true, Bool.not_eq_true'] at hg
    refine bbr_sound fl nm cpu pc code m op bs hg.1.1.2 (fun ha => ?_) h
    rcases hg.2 with hf | hdq
    · rw [ha] at hf; cases hf
    · exact hdq
  | rmb code =>
    simp only [goodOn, Bool.and_eq_true, beq_iff_eq, decide_eq_true_eq, Bool.or_eq_true, Bool.not_eq_true'] at hg
    refine rmb_sound cpu pc code m op bs hg.1.1.2 (fun ha => ?_) h
    rcases hg.2 with hf | hdq
    · rw [ha] at hf; cases hf
    · exact hdq


/-! ### branch targets -/

theorem cond_rel (fl nm : Bool) (cpu pc flag short long : Nat) (hcpu : cpu ≤ 2) (hs : short ≠ 0) (p : Pfx) (t : Int) (bs : List Byte)
    (h : decodeCond (stdCfg fl nm) cpu pc flag short long (.rel p t) = .ok bs) :
    ∃ o d : Byte, bs = [o, d] ∧ t = (relTarget pc 2 d.toNat : Int) := by
  rw [decodeCond_eq fl nm cpu pc flag short long hcpu hs] at h
  have hw := relTarget_wrap pc 2 t
  generalize wrap16 (t - ((pc + 2 : Nat) : Int)) = d at h hw
  by_cases ha : cpuAllowed cpu flag = true
  · by_cases ht : 0 ≤ t ∧ t ≤ 65535
    · by_cases hp : p = .gt
      · simp [ha, ht, hp] at h
      · by_cases hdist : d > 127 ∨ d < -128
        · simp [ha, ht, hp, hdist] at h
        · simp [ha, ht, hp, hdist] at h
          subst h
          refine ⟨_, _, rfl, ?_⟩
          rw [b_toNat, hw ht (by omega)]
          unfold wordOf; omega
    · simp [ha, ht] at h
  · simp [ha] at h

theorem bbr_rel (fl nm : Bool) (cpu pc code : Nat) (p : Pfx) (v t : Int) (bs : List Byte)
    (h : decodeBBR (stdCfg fl nm) cpu pc code (.bitRel p v t) = .ok bs) :
    ∃ o z d : Byte, bs = [o, z, d] ∧ v = (z.toNat : Int) ∧ t = (relTarget pc 3 d.toNat : Int) := by
  rw [decodeBBR_eq] at h
  have hw := relTarget_wrap pc 3 t
  generalize wrap16 (t - ((pc + 3 : Nat) : Int)) = d at h hw
  by_cases ha : cpuAllowed cpu bbrCpuMask = true
  · by_cases hp : p = .gt
    · simp [ha, hp] at h
    · by_cases hv : 0 ≤ v ∧ v ≤ 255
      · by_cases ht : 0 ≤ t ∧ t ≤ 65535
        · by_cases hdist : d > 127 ∨ d < -128
          · simp [ha, ht, hp, hv, hdist] at h
          · simp [ha, ht, hp, hv, hdist] at h
            subst h
            refine ⟨_, _, _, rfl, ?_, ?_⟩
            · rw [b_toNat]; unfold toByte; omega
            · rw [b_toNat, hw ht (by omega)]
              unfold wordOf; omega
        · simp [ha, ht, hp, hv] at h
      · simp [ha, hp, hv] at h
  · simp [ha] at h

end AslModel.Isa.I6502
