import AslModel.Lemmas.Isa.I8080
import AslModel.Model.Isa.I8080Z
/-!
Lemmas for C14 / 8080 + 8085 with `Z80SYNTAX ON | EXCLUSIVE`.  The proof idea: the Z80-style handlers of code85.c emit exactly
the bytes the Intel-style handlers emit for the 8080 spelling of the statement (`Spec.I8080Z.intel`), so the two theorems of
the Intel syntax (`C14_8080_sound`, `C14_8080_range`) carry over.  `okBytes (encode excl cpu s) = viaIntel excl cpu s` is
proved by
* `I8080ZJunk`  - a statement with an operand that is no name of its kind (`junk`) is refused by both sides,
* `I8080ZFin*`  - all statements whose operands carry no value (registers, `AF`, `IM`, conditions): finitely many, by evaluation,
* `I8080ZVal*`  - statements with a number `n` or an address `(nn)`: the other operand enumerated, the value symbolic,
* `I8080ZAll`   - the pieces put together.
This file: the shared definitions and the simp set.
-/
namespace AslModel.Isa.I8080Z
open AslModel.PFile (Byte b b_toNat)
open AslModel.Spec.I8080Z AslModel.Generated.Isa8080Z
open AslModel.Generated (itInt8 itInt16 itUInt8 itUInt16 itUInt6)

/-! ### range checks -/

theorem rangeCheck_UInt6 (v : Int) : rangeCheck v itUInt6 = (decide (0 ≤ v) && decide (v ≤ 63)) := by
  have hrow : Generated.intTypeDefs[itUInt6]? = some ⟨"UInt6", 0x0006, 0, 63, 63⟩ := by decide
  have hlt : ¬ (itUInt6 ≥ Generated.intTypeNoCheckFrom) := by decide
  unfold rangeCheck
  simp only [hlt, if_false, hrow]

theorem evalI8 (v : Int) : evalInt itInt8 v = if -128 ≤ v ∧ v ≤ 255 then .ok v else .error .overRange := I8080.evalI8 v
theorem evalI16 (v : Int) : evalInt itInt16 v = if -32768 ≤ v ∧ v ≤ 65535 then .ok v else .error .overRange := I8080.evalI16 v
theorem evalU8 (v : Int) : evalInt itUInt8 v = if 0 ≤ v ∧ v ≤ 255 then .ok v else .error .overRange := I8080.evalU8 v
theorem evalU16 (v : Int) : evalInt itUInt16 v = if 0 ≤ v ∧ v ≤ 65535 then .ok v else .error .overRange :=
  I8080.evalInt_if _ _ _ rangeCheck_UInt16 v
theorem evalU6 (v : Int) : evalInt itUInt6 v = if 0 ≤ v ∧ v ≤ 63 then .ok v else .error .overRange :=
  I8080.evalInt_if _ _ _ rangeCheck_UInt6 v

/-! ### the 8080 spelling, assembled by the Intel-syntax model -/

/-- the bytes of the 8080 spelling of a Z80-style statement, as the Intel-syntax model (`Model/Isa/I8080.lean`, subject of
`C14_8080_sound` / `C14_8080_range`) assembles it; an address written `(nn)` must be an address -/
def viaIntel (excl : Bool) (cpu : Nat) (s : Src) : Option (List Byte) :=
  match intel excl s with
  | some i => if s.args.all absOk then okBytes (I8080.encode cpu i) else none
  | none => none

/-! ### kinds of operands -/

/-- a register / condition operand whose number is outside the names: a text that is no name of its kind -/
def junk : Opd → Bool
  | .r8 r => !(decide (0 ≤ r) && decide (r < 8))
  | .r16 r | .ind r => !(decide (0 ≤ r) && decide (r < 4))
  | .cond c => !(decide (0 ≤ c) && decide (c < 8))
  | _ => false

/-- an operand that carries a value -/
def isV (o : Opd) : Bool := isAbs o || isImm o

/-- the operands without a value: every register name (`M` included), `AF`, `IM`, every condition -/
def finOpds : List Opd :=
  [.r8 0, .r8 1, .r8 2, .r8 3, .r8 4, .r8 5, .r8 6, .r8 7, .r16 0, .r16 1, .r16 2, .r16 3,
   .ind 0, .ind 1, .ind 2, .ind 3, .af, .im,
   .cond 0, .cond 1, .cond 2, .cond 3, .cond 4, .cond 5, .cond 6, .cond 7]

theorem opd_kind (o : Opd) : junk o = true ∨ o ∈ finOpds ∨ (∃ a, o = .abs a) ∨ (∃ v, o = .imm v) := by
  cases o with
  | r8 r =>
    by_cases h : 0 ≤ r ∧ r < 8
    · right; left
      obtain rfl | rfl | rfl | rfl | rfl | rfl | rfl | rfl : r = 0 ∨ r = 1 ∨ r = 2 ∨ r = 3 ∨ r = 4 ∨ r = 5 ∨ r = 6 ∨ r = 7 := by omega
      all_goals decide
    · left; simp only [junk, Bool.not_eq_true', Bool.and_eq_false_iff, decide_eq_false_iff_not]; omega
  | r16 r =>
    by_cases h : 0 ≤ r ∧ r < 4
    · right; left
      obtain rfl | rfl | rfl | rfl : r = 0 ∨ r = 1 ∨ r = 2 ∨ r = 3 := by omega
      all_goals decide
    · left; simp only [junk, Bool.not_eq_true', Bool.and_eq_false_iff, decide_eq_false_iff_not]; omega
  | ind r =>
    by_cases h : 0 ≤ r ∧ r < 4
    · right; left
      obtain rfl | rfl | rfl | rfl : r = 0 ∨ r = 1 ∨ r = 2 ∨ r = 3 := by omega
      all_goals decide
    · left; simp only [junk, Bool.not_eq_true', Bool.and_eq_false_iff, decide_eq_false_iff_not]; omega
  | cond r =>
    by_cases h : 0 ≤ r ∧ r < 8
    · right; left
      obtain rfl | rfl | rfl | rfl | rfl | rfl | rfl | rfl : r = 0 ∨ r = 1 ∨ r = 2 ∨ r = 3 ∨ r = 4 ∨ r = 5 ∨ r = 6 ∨ r = 7 := by omega
      all_goals decide
    · left; simp only [junk, Bool.not_eq_true', Bool.and_eq_false_iff, decide_eq_false_iff_not]; omega
  | abs a => right; right; left; exact ⟨a, rfl⟩
  | imm v => right; right; right; exact ⟨v, rfl⟩
  | af => right; left; decide
  | im => right; left; decide

/-! ### the two `InstTable`s, entry by entry (regenerated from `InitFields()`; a changed entry breaks the lemma) -/

theorem lkI_MOV : I8080.lookup .MOV = some (.mov 0) := by decide
theorem lkI_MVI : I8080.lookup .MVI = some (.mvi 0) := by decide
theorem lkI_LXI : I8080.lookup .LXI = some (.lxi 0) := by decide
theorem lkI_STAX : I8080.lookup .STAX = some (.ldaxStax 0) := by decide
theorem lkI_LDAX : I8080.lookup .LDAX = some (.ldaxStax 1) := by decide
theorem lkI_PUSH : I8080.lookup .PUSH = some (.pushPop 4) := by decide
theorem lkI_POP : I8080.lookup .POP = some (.pushPop 0) := by decide
theorem lkI_RST : I8080.lookup .RST = some (.rst 0) := by decide
theorem lkI_INR : I8080.lookup .INR = some (.inrDcr 0) := by decide
theorem lkI_DCR : I8080.lookup .DCR = some (.inrDcr 1) := by decide
theorem lkI_INX : I8080.lookup .INX = some (.inxDcx 0) := by decide
theorem lkI_DCX : I8080.lookup .DCX = some (.inxDcx 8) := by decide
theorem lkI_DAD : I8080.lookup .DAD = some (.dad 0) := by decide
theorem lkI_XCHG : I8080.lookup .XCHG = some (.fixed 235 0 1) := by decide
theorem lkI_XTHL : I8080.lookup .XTHL = some (.fixed 227 0 1) := by decide
theorem lkI_SPHL : I8080.lookup .SPHL = some (.fixed 249 0 1) := by decide
theorem lkI_PCHL : I8080.lookup .PCHL = some (.fixed 233 0 1) := by decide
theorem lkI_RC : I8080.lookup .RC = some (.fixed 216 0 1) := by decide
theorem lkI_RNC : I8080.lookup .RNC = some (.fixed 208 0 1) := by decide
theorem lkI_RZ : I8080.lookup .RZ = some (.fixed 200 0 1) := by decide
theorem lkI_RNZ : I8080.lookup .RNZ = some (.fixed 192 0 1) := by decide
theorem lkI_RP : I8080.lookup .RP = some (.fixed 240 0 1) := by decide
theorem lkI_RM : I8080.lookup .RM = some (.fixed 248 0 1) := by decide
theorem lkI_RPE : I8080.lookup .RPE = some (.fixed 232 0 1) := by decide
theorem lkI_RPO : I8080.lookup .RPO = some (.fixed 224 0 1) := by decide
theorem lkI_RRC : I8080.lookup .RRC = some (.fixed 15 0 1) := by decide
theorem lkI_RAL : I8080.lookup .RAL = some (.fixed 23 0 1) := by decide
theorem lkI_RAR : I8080.lookup .RAR = some (.fixed 31 0 1) := by decide
theorem lkI_CMA : I8080.lookup .CMA = some (.fixed 47 0 1) := by decide
theorem lkI_STC : I8080.lookup .STC = some (.fixed 55 0 1) := by decide
theorem lkI_CMC : I8080.lookup .CMC = some (.fixed 63 0 1) := by decide
theorem lkI_DAA : I8080.lookup .DAA = some (.fixed 39 0 3) := by decide
theorem lkI_EI : I8080.lookup .EI = some (.fixed 251 0 3) := by decide
theorem lkI_DI : I8080.lookup .DI = some (.fixed 243 0 3) := by decide
theorem lkI_NOP : I8080.lookup .NOP = some (.fixed 0 0 3) := by decide
theorem lkI_HLT : I8080.lookup .HLT = some (.fixed 118 0 1) := by decide
theorem lkI_RIM : I8080.lookup .RIM = some (.fixed 32 1 1) := by decide
theorem lkI_SIM : I8080.lookup .SIM = some (.fixed 48 1 1) := by decide
theorem lkI_STA : I8080.lookup .STA = some (.op16 50 0 1) := by decide
theorem lkI_LDA : I8080.lookup .LDA = some (.op16 58 0 1) := by decide
theorem lkI_SHLD : I8080.lookup .SHLD = some (.op16 34 0 1) := by decide
theorem lkI_LHLD : I8080.lookup .LHLD = some (.op16 42 0 1) := by decide
theorem lkI_JMP : I8080.lookup .JMP = some (.op16 195 0 1) := by decide
theorem lkI_JC : I8080.lookup .JC = some (.op16 218 0 1) := by decide
theorem lkI_JNC : I8080.lookup .JNC = some (.op16 210 0 1) := by decide
theorem lkI_JZ : I8080.lookup .JZ = some (.op16 202 0 1) := by decide
theorem lkI_JNZ : I8080.lookup .JNZ = some (.op16 194 0 1) := by decide
theorem lkI_JM : I8080.lookup .JM = some (.op16 250 0 1) := by decide
theorem lkI_JPE : I8080.lookup .JPE = some (.op16 234 0 1) := by decide
theorem lkI_JPO : I8080.lookup .JPO = some (.op16 226 0 1) := by decide
theorem lkI_CC : I8080.lookup .CC = some (.op16 220 0 1) := by decide
theorem lkI_CNC : I8080.lookup .CNC = some (.op16 212 0 1) := by decide
theorem lkI_CZ : I8080.lookup .CZ = some (.op16 204 0 1) := by decide
theorem lkI_CNZ : I8080.lookup .CNZ = some (.op16 196 0 1) := by decide
theorem lkI_CM : I8080.lookup .CM = some (.op16 252 0 1) := by decide
theorem lkI_CPE : I8080.lookup .CPE = some (.op16 236 0 1) := by decide
theorem lkI_CPO : I8080.lookup .CPO = some (.op16 228 0 1) := by decide
theorem lkI_ADI : I8080.lookup .ADI = some (.op8 198 0 1) := by decide
theorem lkI_ACI : I8080.lookup .ACI = some (.op8 206 0 1) := by decide
theorem lkI_SUI : I8080.lookup .SUI = some (.op8 214 0 1) := by decide
theorem lkI_SBI : I8080.lookup .SBI = some (.op8 222 0 1) := by decide
theorem lkI_ANI : I8080.lookup .ANI = some (.op8 230 0 1) := by decide
theorem lkI_XRI : I8080.lookup .XRI = some (.op8 238 0 1) := by decide
theorem lkI_ORI : I8080.lookup .ORI = some (.op8 246 0 1) := by decide
theorem lkI_CPI : I8080.lookup .CPI = some (.op8 254 0 1) := by decide
theorem lkI_SBB : I8080.lookup .SBB = some (.alu 152 1) := by decide
theorem lkI_ANA : I8080.lookup .ANA = some (.alu 160 1) := by decide
theorem lkI_XRA : I8080.lookup .XRA = some (.alu 168 1) := by decide
theorem lkI_ORA : I8080.lookup .ORA = some (.alu 176 1) := by decide
theorem lkI_CMP : I8080.lookup .CMP = some (.alu 184 1) := by decide
theorem lkI_ADD : I8080.lookup .ADD = some (.add 0) := by decide
theorem lkI_ADC : I8080.lookup .ADC = some (.adc 0) := by decide
theorem lkI_SUB : I8080.lookup .SUB = some (.sub 0) := by decide
theorem lkI_CP : I8080.lookup .CP = some (.cp 0) := by decide
theorem lkI_JP : I8080.lookup .JP = some (.jp 0) := by decide
theorem lkI_CALL : I8080.lookup .CALL = some (.call 0) := by decide
theorem lkI_RET : I8080.lookup .RET = some (.ret 0) := by decide
theorem lkI_IN : I8080.lookup .IN = some (.inout 219) := by decide
theorem lkI_OUT : I8080.lookup .OUT = some (.inout 211) := by decide
theorem lkI_RLC : I8080.lookup .RLC = some (.rlc 7) := by decide

theorem lkZ_PUSH : lookup .PUSH = some (.pushPop 4) := by decide
theorem lkZ_POP : lookup .POP = some (.pushPop 0) := by decide
theorem lkZ_RST : lookup .RST = some (.rst 0) := by decide
theorem lkZ_RLCA : lookup .RLCA = some (.fixed 7 0 2) := by decide
theorem lkZ_RRCA : lookup .RRCA = some (.fixed 15 0 2) := by decide
theorem lkZ_RLA : lookup .RLA = some (.fixed 23 0 2) := by decide
theorem lkZ_RRA : lookup .RRA = some (.fixed 31 0 2) := by decide
theorem lkZ_CPL : lookup .CPL = some (.fixed 47 0 2) := by decide
theorem lkZ_SCF : lookup .SCF = some (.fixed 55 0 2) := by decide
theorem lkZ_CCF : lookup .CCF = some (.fixed 63 0 2) := by decide
theorem lkZ_DAA : lookup .DAA = some (.fixed 39 0 3) := by decide
theorem lkZ_EI : lookup .EI = some (.fixed 251 0 3) := by decide
theorem lkZ_DI : lookup .DI = some (.fixed 243 0 3) := by decide
theorem lkZ_NOP : lookup .NOP = some (.fixed 0 0 3) := by decide
theorem lkZ_HALT : lookup .HALT = some (.fixed 118 0 2) := by decide
theorem lkZ_LD : lookup .LD = some (.ld 0) := by decide
theorem lkZ_EX : lookup .EX = some (.ex 0) := by decide
theorem lkZ_ADD : lookup .ADD = some (.add 0) := by decide
theorem lkZ_ADC : lookup .ADC = some (.adc 0) := by decide
theorem lkZ_SUB : lookup .SUB = some (.sub 0) := by decide
theorem lkZ_SBC : lookup .SBC = some (.alu8 3) := by decide
theorem lkZ_INC : lookup .INC = some (.incdec 0) := by decide
theorem lkZ_DEC : lookup .DEC = some (.incdec 1) := by decide
theorem lkZ_AND : lookup .AND = some (.alu8 4) := by decide
theorem lkZ_XOR : lookup .XOR = some (.alu8 5) := by decide
theorem lkZ_OR : lookup .OR = some (.alu8 6) := by decide
theorem lkZ_CP : lookup .CP = some (.cp 0) := by decide
theorem lkZ_JP : lookup .JP = some (.jp 0) := by decide
theorem lkZ_CALL : lookup .CALL = some (.call 0) := by decide
theorem lkZ_RET : lookup .RET = some (.ret 0) := by decide
theorem lkZ_IN : lookup .IN = some (.inout 219) := by decide
theorem lkZ_OUT : lookup .OUT = some (.inout 211) := by decide

/-- the simp set that evaluates both models and the SPEC's `intel` on a statement whose operand kinds are known -/
macro "zsimp" loc:(Lean.Parser.Tactic.location)? : tactic =>
  `(tactic| simp [encode, dispatch, minCpuOf, decodeLD, decodeEX, accSrc, decodeADD, decodeADC, reg8Cur, subLast, decodeSUB,
    alu8Last, decodeALU8, decodeINCDEC, cpLast, decodeCP, decodeCondition, decodeJP, decodeCALL, decodeRET, evalOpd,
    decodeINOUT, decodeRST, reg16Cur, decodePUSH_POP, chkSyntax, decodeFixed, decodeAdr, reg8Z, reg8I, found, AdrMode.bit,
    mReg8, mReg16, mIReg16, mAbs, mImm, mIM, im, syntax808x, syntaxZ80, syntaxBoth, lo, hi,
    evalI8, evalI16, evalU8, evalU16, evalU6, I8080.evalU3,
    viaIntel, intel, zr8, pair, src8, alu, condOk, absOk, Spec.I8080.jmpMn, Spec.I8080.callMn, Spec.I8080.retMn,
    canonical, nameCM, regCM, isAbs, isImm,
    I8080.encode, I8080.minCpuOf, I8080.dispatch, I8080.decodeFixed, I8080.decodeOp16, I8080.decodeOp8, I8080.decodeALU,
    I8080.decodeMOV, I8080.decodeMVI, I8080.decodeLXI, I8080.decodeLDAX_STAX, I8080.decodePUSH_POP, I8080.decodeRST,
    I8080.decodeINR_DCR, I8080.decodeINX_DCX, I8080.decodeDAD, I8080.decodeAcc, I8080.decodeJmp, I8080.decodeRET,
    I8080.decodeINOUT, I8080.decodeRLC, I8080.reg8, I8080.reg16, I8080.chkSyntax, I8080.emit3,
    andThen_ite, okBytes_ite,
    lkI_MOV, lkI_MVI, lkI_LXI, lkI_STAX, lkI_LDAX, lkI_PUSH, lkI_POP, lkI_RST, lkI_INR, lkI_DCR, lkI_INX, lkI_DCX,
    lkI_DAD, lkI_XCHG, lkI_XTHL, lkI_SPHL, lkI_PCHL, lkI_RC, lkI_RNC, lkI_RZ, lkI_RNZ, lkI_RP, lkI_RM, lkI_RPE,
    lkI_RPO, lkI_RRC, lkI_RAL, lkI_RAR, lkI_CMA, lkI_STC, lkI_CMC, lkI_DAA, lkI_EI, lkI_DI, lkI_NOP, lkI_HLT,
    lkI_RIM, lkI_SIM, lkI_STA, lkI_LDA, lkI_SHLD, lkI_LHLD, lkI_JMP, lkI_JC, lkI_JNC, lkI_JZ, lkI_JNZ, lkI_JM,
    lkI_JPE, lkI_JPO, lkI_CC, lkI_CNC, lkI_CZ, lkI_CNZ, lkI_CM, lkI_CPE, lkI_CPO, lkI_ADI, lkI_ACI, lkI_SUI, lkI_SBI,
    lkI_ANI, lkI_XRI, lkI_ORI, lkI_CPI, lkI_SBB, lkI_ANA, lkI_XRA, lkI_ORA, lkI_CMP, lkI_ADD, lkI_ADC, lkI_SUB,
    lkI_CP, lkI_JP, lkI_CALL, lkI_RET, lkI_IN, lkI_OUT, lkI_RLC,
    lkZ_PUSH, lkZ_POP, lkZ_RST, lkZ_RLCA, lkZ_RRCA, lkZ_RLA, lkZ_RRA, lkZ_CPL, lkZ_SCF, lkZ_CCF, lkZ_DAA, lkZ_EI,
    lkZ_DI, lkZ_NOP, lkZ_HALT, lkZ_LD, lkZ_EX, lkZ_ADD, lkZ_ADC, lkZ_SUB, lkZ_SBC, lkZ_INC, lkZ_DEC, lkZ_AND,
    lkZ_XOR, lkZ_OR, lkZ_CP, lkZ_JP, lkZ_CALL, lkZ_RET, lkZ_IN, lkZ_OUT] $[$loc]?)

/-- `zsimp` with further simp lemmas / hypotheses -/
macro "zsimpw" "[" ts:Lean.Parser.Tactic.simpLemma,* "]" loc:(Lean.Parser.Tactic.location)? : tactic =>
  `(tactic| simp [encode, dispatch, minCpuOf, decodeLD, decodeEX, accSrc, decodeADD, decodeADC, reg8Cur, subLast, decodeSUB,
    alu8Last, decodeALU8, decodeINCDEC, cpLast, decodeCP, decodeCondition, decodeJP, decodeCALL, decodeRET, evalOpd,
    decodeINOUT, decodeRST, reg16Cur, decodePUSH_POP, chkSyntax, decodeFixed, decodeAdr, reg8Z, reg8I, found, AdrMode.bit,
    mReg8, mReg16, mIReg16, mAbs, mImm, mIM, im, syntax808x, syntaxZ80, syntaxBoth, lo, hi,
    evalI8, evalI16, evalU8, evalU16, evalU6, I8080.evalU3,
    viaIntel, intel, zr8, pair, src8, alu, condOk, absOk, Spec.I8080.jmpMn, Spec.I8080.callMn, Spec.I8080.retMn,
    canonical, nameCM, regCM, isAbs, isImm,
    I8080.encode, I8080.minCpuOf, I8080.dispatch, I8080.decodeFixed, I8080.decodeOp16, I8080.decodeOp8, I8080.decodeALU,
    I8080.decodeMOV, I8080.decodeMVI, I8080.decodeLXI, I8080.decodeLDAX_STAX, I8080.decodePUSH_POP, I8080.decodeRST,
    I8080.decodeINR_DCR, I8080.decodeINX_DCX, I8080.decodeDAD, I8080.decodeAcc, I8080.decodeJmp, I8080.decodeRET,
    I8080.decodeINOUT, I8080.decodeRLC, I8080.reg8, I8080.reg16, I8080.chkSyntax, I8080.emit3,
    andThen_ite, okBytes_ite,
    lkI_MOV, lkI_MVI, lkI_LXI, lkI_STAX, lkI_LDAX, lkI_PUSH, lkI_POP, lkI_RST, lkI_INR, lkI_DCR, lkI_INX, lkI_DCX,
    lkI_DAD, lkI_XCHG, lkI_XTHL, lkI_SPHL, lkI_PCHL, lkI_RC, lkI_RNC, lkI_RZ, lkI_RNZ, lkI_RP, lkI_RM, lkI_RPE,
    lkI_RPO, lkI_RRC, lkI_RAL, lkI_RAR, lkI_CMA, lkI_STC, lkI_CMC, lkI_DAA, lkI_EI, lkI_DI, lkI_NOP, lkI_HLT,
    lkI_RIM, lkI_SIM, lkI_STA, lkI_LDA, lkI_SHLD, lkI_LHLD, lkI_JMP, lkI_JC, lkI_JNC, lkI_JZ, lkI_JNZ, lkI_JM,
    lkI_JPE, lkI_JPO, lkI_CC, lkI_CNC, lkI_CZ, lkI_CNZ, lkI_CM, lkI_CPE, lkI_CPO, lkI_ADI, lkI_ACI, lkI_SUI, lkI_SBI,
    lkI_ANI, lkI_XRI, lkI_ORI, lkI_CPI, lkI_SBB, lkI_ANA, lkI_XRA, lkI_ORA, lkI_CMP, lkI_ADD, lkI_ADC, lkI_SUB,
    lkI_CP, lkI_JP, lkI_CALL, lkI_RET, lkI_IN, lkI_OUT, lkI_RLC,
    lkZ_PUSH, lkZ_POP, lkZ_RST, lkZ_RLCA, lkZ_RRCA, lkZ_RLA, lkZ_RRA, lkZ_CPL, lkZ_SCF, lkZ_CCF, lkZ_DAA, lkZ_EI,
    lkZ_DI, lkZ_NOP, lkZ_HALT, lkZ_LD, lkZ_EX, lkZ_ADD, lkZ_ADC, lkZ_SUB, lkZ_SBC, lkZ_INC, lkZ_DEC, lkZ_AND,
    lkZ_XOR, lkZ_OR, lkZ_CP, lkZ_JP, lkZ_CALL, lkZ_RET, lkZ_IN, lkZ_OUT, $ts,*] $[$loc]?)


theorem mem_finOpds (o : Opd) : o ∈ finOpds ↔
    o = .r8 0 ∨ o = .r8 1 ∨ o = .r8 2 ∨ o = .r8 3 ∨ o = .r8 4 ∨ o = .r8 5 ∨ o = .r8 6 ∨ o = .r8 7 ∨
    o = .r16 0 ∨ o = .r16 1 ∨ o = .r16 2 ∨ o = .r16 3 ∨ o = .ind 0 ∨ o = .ind 1 ∨ o = .ind 2 ∨ o = .ind 3 ∨ o = .af ∨ o = .im ∨
    o = .cond 0 ∨ o = .cond 1 ∨ o = .cond 2 ∨ o = .cond 3 ∨ o = .cond 4 ∨ o = .cond 5 ∨ o = .cond 6 ∨ o = .cond 7 := by
  simp only [finOpds, List.mem_cons, List.not_mem_nil, or_false]

/-- the statement is refused or assembled to the bytes of its 8080 spelling (the claim, as a `Bool` for evaluation) -/
def agree (excl : Bool) (cpu : Nat) (s : Src) : Bool :=
  !canonical excl s || (okBytes (encode excl cpu s) == viaIntel excl cpu s)

theorem agree_iff (excl : Bool) (cpu : Nat) (s : Src) :
    agree excl cpu s = true ↔ (canonical excl s = true → okBytes (encode excl cpu s) = viaIntel excl cpu s) := by
  unfold agree
  cases canonical excl s <;> simp

/-- enumerate an operand of `finOpds` -/
macro "fin_cases_opd" h:ident : tactic =>
  `(tactic| (rw [mem_finOpds] at $h:ident
             (repeat' (rcases $h:ident with $h:ident | $h:ident))
             all_goals (try subst $h:ident)))

/-! ### statements whose operands carry no value: finitely many per mnemonic, decided by evaluation in `I8080ZFin*` -/

def allOn (p : Bool → Nat → Bool) : Bool := [false, true].all fun excl => [0, 1].all fun cpu => p excl cpu

theorem allOn_use {p : Bool → Nat → Bool} (h : allOn p = true) (excl : Bool) (cpu : Nat) (hcpu : cpu = 0 ∨ cpu = 1) :
    p excl cpu = true := by
  simp only [allOn, List.all_cons, List.all_nil, Bool.and_true, Bool.and_eq_true] at h
  rcases hcpu with rfl | rfl <;> cases excl
  · exact h.1.1
  · exact h.2.1
  · exact h.1.2
  · exact h.2.2

def fin2On (grp : List Mn) : Bool :=
  allOn fun excl cpu => grp.all fun m => finOpds.all fun o1 => finOpds.all fun o2 => agree excl cpu ⟨m, [o1, o2]⟩

theorem fin2_use {grp : List Mn} (h : fin2On grp = true) (excl : Bool) (cpu : Nat) (hcpu : cpu = 0 ∨ cpu = 1) (m : Mn)
    (hm : m ∈ grp) (o1 o2 : Opd) (h1 : o1 ∈ finOpds) (h2 : o2 ∈ finOpds) (hc : canonical excl ⟨m, [o1, o2]⟩ = true) :
    okBytes (encode excl cpu ⟨m, [o1, o2]⟩) = viaIntel excl cpu ⟨m, [o1, o2]⟩ := by
  have := allOn_use h excl cpu hcpu
  simp only [List.all_eq_true] at this
  exact (agree_iff _ _ _).1 (this m hm o1 h1 o2 h2) hc

/-- finish what `zsimp` leaves: the CPU-dependent `IM` bit of a `DecodeAdr_Z80` mask, range conditions written differently -/
macro "zfin" c:ident : tactic =>
  `(tactic| (all_goals (try (by_cases hcpu : 1 ≤ $c:ident <;> simp [hcpu]))
             all_goals ((repeat' split) <;> (first | rfl | omega | (exfalso; omega) | (simp_all; done) | (simp_all; omega)))))

end AslModel.Isa.I8080Z
