import AslModel.Lemmas.Isa.I8080Z
/-!
C14 / 8080 + 8085, Z80-style syntax: the statements whose operands carry no value (register names, `AF`, `IM`, conditions) -
two operands, `LD EX ADD ADC SUB`; both syntax modes, both CPUs.  Decided by evaluating the model, `Spec.I8080Z.intel` and the Intel-syntax model
(one evaluation per mnemonic: 26 x 26 operand pairs x 4 modes).
-/
namespace AslModel.Isa.I8080Z
open AslModel.Spec.I8080Z

def grpA : List Mn := [.LD, .EX, .ADD, .ADC, .SUB]

theorem fin2_LD : fin2On [.LD] = true := by decide +kernel
theorem fin2_EX : fin2On [.EX] = true := by decide +kernel
theorem fin2_ADD : fin2On [.ADD] = true := by decide +kernel
theorem fin2_ADC : fin2On [.ADC] = true := by decide +kernel
theorem fin2_SUB : fin2On [.SUB] = true := by decide +kernel

theorem fin2A (excl : Bool) (cpu : Nat) (hcpu : cpu = 0 ∨ cpu = 1) (m : Mn) (hm : m ∈ grpA) (o1 o2 : Opd)
    (h1 : o1 ∈ finOpds) (h2 : o2 ∈ finOpds) (hc : canonical excl ⟨m, [o1, o2]⟩ = true) :
    okBytes (encode excl cpu ⟨m, [o1, o2]⟩) = viaIntel excl cpu ⟨m, [o1, o2]⟩ := by
  simp only [grpA, List.mem_cons, List.not_mem_nil, or_false] at hm
  rcases hm with rfl | rfl | rfl | rfl | rfl
  · exact fin2_use fin2_LD excl cpu hcpu .LD (by decide) o1 o2 h1 h2 hc
  · exact fin2_use fin2_EX excl cpu hcpu .EX (by decide) o1 o2 h1 h2 hc
  · exact fin2_use fin2_ADD excl cpu hcpu .ADD (by decide) o1 o2 h1 h2 hc
  · exact fin2_use fin2_ADC excl cpu hcpu .ADC (by decide) o1 o2 h1 h2 hc
  · exact fin2_use fin2_SUB excl cpu hcpu .SUB (by decide) o1 o2 h1 h2 hc

end AslModel.Isa.I8080Z
