import AslModel.Lemmas.Isa.IZ80
/-! Lemmas for C14 / Z80, part 2e: the complete table `mnemonic × representative operands` decided by evaluation,
two rows of the regenerated `InstTable` per theorem (part files are built in parallel). -/
namespace AslModel.Isa.IZ80
open AslModel.Spec.IZ80
open AslModel.Generated.IsaZ80

theorem slice_58 : sliceOK 58 = true := by decide +kernel
theorem slice_60 : sliceOK 60 = true := by decide +kernel
theorem slice_62 : sliceOK 62 = true := by decide +kernel
theorem slice_64 : sliceOK 64 = true := by decide +kernel
theorem slice_66 : sliceOK 66 = true := by decide +kernel
theorem slice_68 : sliceOK 68 = true := by decide +kernel

end AslModel.Isa.IZ80
