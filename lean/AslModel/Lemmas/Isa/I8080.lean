import AslModel.Lemmas.Isa.Common
import AslModel.Model.Isa.I8080
/-! Lemmas for C14 / 8080: every decode handler is an instance of one operand-description scheme
(`Desc`); soundness and acceptance are proved once for the scheme, the per-entry facts are decided
over the whole regenerated `InstTable`. -/
namespace AslModel.Isa.I8080
open AslModel.PFile (Byte b b_toNat)
open AslModel.Spec.I8080
open AslModel.Generated.Isa8080
open AslModel.Generated (itInt8 itInt16 itUInt8 itUInt3)

theorem mem_all (m : Mn) : m ∈ Mn.all := by cases m <;> decide

/-- operand scheme of a handler: register-like operands with their domains and an extra constraint,
the opcode byte as a function of them, and the trailing data operand with its accepted range -/
structure Desc where
  doms : List Nat
  okRegs : List Nat → Bool
  opc : List Nat → Nat
  opd : Opd
  lo : Int
  hi : Int

def Desc.run (d : Desc) (args : List Int) : Option (List Byte) :=
  let n := d.doms.length
  let regs := (args.take n).map Int.toNat
  if regsIn d.doms (args.take n) && d.okRegs regs then
    match d.opd, args.drop n with
    | .none, [] => some [b (d.opc regs)]
    | .d8, [v] => if d.lo ≤ v ∧ v ≤ d.hi then some [b (d.opc regs), b (toByte v)] else none
    | .d16, [v] => if d.lo ≤ v ∧ v ≤ d.hi then some (emit3 (d.opc regs) (toWord v)) else none
    | _, _ => none
  else none

/-- all register tuples of the given domains -/
def prod : List Nat → List (List Nat)
  | [] => [[]]
  | d :: ds => (List.range d).flatMap fun r => (prod ds).map (r :: ·)

theorem regsIn_mem_prod (doms : List Nat) (rs : List Int) (h : regsIn doms rs = true) :
    rs.map Int.toNat ∈ prod doms := by
  induction doms generalizing rs with
  | nil => cases rs <;> simp_all [regsIn, prod]
  | cons d ds ih =>
    cases rs with
    | nil => simp [regsIn] at h
    | cons r rs =>
      simp only [regsIn, Bool.and_eq_true, decide_eq_true_eq] at h
      simp only [prod, List.map_cons, List.mem_flatMap, List.mem_range, List.mem_map]
      exact ⟨r.toNat, by omega, rs.map Int.toNat, ih rs h.2, rfl⟩

theorem regsIn_length (doms : List Nat) (rs : List Int) (h : regsIn doms rs = true) : rs.length = doms.length := by
  induction doms generalizing rs with
  | nil => cases rs <;> simp_all [regsIn]
  | cons d ds ih =>
    cases rs with
    | nil => simp [regsIn] at h
    | cons r rs =>
      simp only [regsIn, Bool.and_eq_true] at h
      simp [ih rs h.2]

theorem decode1_cpu (cpu x : Nat) : decode1 cpu x = decode1 (min cpu 1) x := by
  have h : (cpu ≥ 1) ↔ (min cpu 1 ≥ 1) := by omega
  simp only [decode1, h]

theorem decode_cpu (cpu : Nat) (bs : List Byte) : decode cpu bs = decode (min cpu 1) bs := by
  unfold decode
  cases bs with
  | nil => rfl
  | cons b0 rest => simp only [decode1_cpu cpu]

/-- the SPEC decoder on what a scheme emits -/
theorem run_sound (d : Desc) (m : Mn) (c : Nat) (args : List Int) (bs : List Byte)
    (hdoms : d.doms = (form m).doms) (hopd : d.opd = (form m).opd)
    (hgood : ∀ regs ∈ prod d.doms, d.okRegs regs = true →
      decode1 c (d.opc regs % 256) = some ((meaningRegs m regs).1, (meaningRegs m regs).2, d.opd))
    (h : d.run args = some bs) : decode c bs = some (meaning ⟨m, args⟩, bs.length) := by
  unfold Desc.run at h
  simp only at h
  split at h
  · rename_i hc
    simp only [Bool.and_eq_true] at hc
    have hmem := regsIn_mem_prod _ _ hc.1
    have hg := hgood _ hmem hc.2
    unfold meaning
    simp only [← hdoms, ← hopd]
    generalize (List.map Int.toNat (List.take d.doms.length args)) = regs at *
    split at h
    · simp only [Option.some.injEq] at h
      subst h
      rename_i ho hr
      simp only [decode, b_toNat, hg, ho, hr, opdValue, List.append_nil, List.length_cons, List.length_nil]
    · rename_i v ho hr
      split at h
      · simp only [Option.some.injEq] at h
        subst h
        simp only [decode, b_toNat, hg, ho, hr, opdValue, List.length_cons, List.length_nil, toByte]
        have : (v % 256).toNat % 256 = (v % 256).toNat := by omega
        rw [this]
      · simp at h
    · rename_i v ho hr
      split at h
      · simp only [Option.some.injEq] at h
        subst h
        simp only [emit3, decode, b_toNat, hg, ho, hr, opdValue, List.length_cons, List.length_nil, toWord, lo, hi]
        have : (v % 65536).toNat % 256 % 256 + 256 * ((v % 65536).toNat % 65536 / 256 % 256) = (v % 65536).toNat := by omega
        rw [this]
      · simp at h
    · simp at h
  · simp at h

/-- a scheme accepts exactly what the SPEC's form accepts when their data agree -/
theorem run_accepts (d : Desc) (f : FormD) (args : List Int)
    (hdoms : d.doms = f.doms) (hopd : d.opd = f.opd) (hlo : d.lo = f.lo) (hhi : d.hi = f.hi)
    (hok : ∀ regs ∈ prod d.doms, d.okRegs regs = f.okRegs regs) :
    (d.run args).isSome = f.accepts args := by
  unfold Desc.run FormD.accepts
  simp only [← hdoms, ← hopd, ← hlo, ← hhi]
  by_cases hr : regsIn d.doms (List.take d.doms.length args) = true
  · have hmem := regsIn_mem_prod _ _ hr
    rw [← hok _ hmem]
    generalize List.map Int.toNat (List.take d.doms.length args) = regs
    generalize List.drop d.doms.length args = rest
    rw [hr]
    cases d.okRegs regs
    · simp
    · cases d.opd <;> rcases rest with _ | ⟨v, _ | ⟨v2, t⟩⟩ <;> simp
      all_goals (by_cases h1 : d.lo ≤ v <;> by_cases h2 : v ≤ d.hi <;> simp [h1, h2])
  · have : regsIn d.doms (List.take d.doms.length args) = false := by simpa using hr
    rw [this]; simp

end AslModel.Isa.I8080

namespace AslModel.Isa.I8080
open AslModel.PFile (Byte b b_toNat)
open AslModel.Spec.I8080
open AslModel.Generated.Isa8080
open AslModel.Generated (itInt8 itInt16 itUInt8 itUInt3)

theorem evalInt_if (typ : Nat) (l h : Int) (hh : ∀ v, rangeCheck v typ = (decide (l ≤ v) && decide (v ≤ h))) (v : Int) :
    evalInt typ v = if l ≤ v ∧ v ≤ h then .ok v else .error .overRange := by
  by_cases hc : l ≤ v ∧ v ≤ h
  · rw [(evalInt_ok typ l h hh v).1 hc]; simp [hc]
  · rw [(evalInt_ok typ l h hh v).2 hc]; simp [hc]

theorem evalI16 (v : Int) : evalInt itInt16 v = if -32768 ≤ v ∧ v ≤ 65535 then .ok v else .error .overRange :=
  evalInt_if _ _ _ rangeCheck_Int16 v
theorem evalI8 (v : Int) : evalInt itInt8 v = if -128 ≤ v ∧ v ≤ 255 then .ok v else .error .overRange :=
  evalInt_if _ _ _ rangeCheck_Int8 v
theorem evalU8 (v : Int) : evalInt itUInt8 v = if 0 ≤ v ∧ v ≤ 255 then .ok v else .error .overRange :=
  evalInt_if _ _ _ rangeCheck_UInt8 v
theorem evalU3 (v : Int) : evalInt itUInt3 v = if 0 ≤ v ∧ v ≤ 7 then .ok v else .error .overRange :=
  evalInt_if _ _ _ rangeCheck_UInt3 v

def r0 (rs : List Nat) : Nat := rs.getD 0 0
def r1 (rs : List Nat) : Nat := rs.getD 1 0

/-- the operand scheme of each handler of code85.c (Intel syntax) -/
def descOf : Handler → Desc
  | .fixed code _ syn => ⟨[], fun _ => chkSyntax syn, fun _ => lo code, .none, 0, 0⟩
  | .op16 code _ syn => ⟨[], fun _ => chkSyntax syn, fun _ => lo code, .d16, -32768, 65535⟩
  | .op8 code _ syn => ⟨[], fun _ => chkSyntax syn, fun _ => lo code, .d8, -128, 255⟩
  | .alu code syn => ⟨[8], fun _ => chkSyntax syn, fun rs => ((syn <<< 8) ||| code) + r0 rs, .none, 0, 0⟩
  | .mov _ => ⟨[8, 8], fun rs => (r1 rs + 0x40 + (r0 rs <<< 3)) % 256 != 0x76, fun rs => (r1 rs + 0x40 + (r0 rs <<< 3)) % 256, .none, 0, 0⟩
  | .mvi _ => ⟨[8], fun _ => true, fun rs => 0x06 + (r0 rs <<< 3), .d8, -128, 255⟩
  | .lxi _ => ⟨[4], fun _ => true, fun rs => 0x01 + (r0 rs <<< 4), .d16, -32768, 65535⟩
  | .ldaxStax idx => ⟨[3], fun _ => true, fun rs => if r0 rs = 2 then 0x77 + idx * 7 else 0x02 + (r0 rs <<< 4) + (idx <<< 3), .none, 0, 0⟩
  | .pushPop idx => ⟨[4], fun _ => true, fun rs => 0xc1 + (r0 rs <<< 4) + idx, .none, 0, 0⟩
  | .rst _ => ⟨[8], fun _ => true, fun rs => 0xc7 + (r0 rs <<< 3), .none, 0, 0⟩
  | .inrDcr idx => ⟨[8], fun _ => true, fun rs => 0x04 + (r0 rs <<< 3) + idx, .none, 0, 0⟩
  | .inxDcx idx => ⟨[4], fun _ => true, fun rs => 0x03 + (r0 rs <<< 4) + idx, .none, 0, 0⟩
  | .dad _ => ⟨[4], fun _ => true, fun rs => 0x09 + (r0 rs <<< 4), .none, 0, 0⟩
  | .add _ => ⟨[8], fun _ => true, fun rs => 0x80 ||| r0 rs, .none, 0, 0⟩
  | .adc _ => ⟨[8], fun _ => true, fun rs => 0x88 ||| r0 rs, .none, 0, 0⟩
  | .sub _ => ⟨[8], fun _ => true, fun rs => 0x90 ||| r0 rs, .none, 0, 0⟩
  | .cp _ => ⟨[], fun _ => true, fun _ => 0xf4, .d16, -32768, 65535⟩
  | .jp _ => ⟨[], fun _ => true, fun _ => 0xc2 + (6 <<< 3), .d16, -32768, 65535⟩
  | .call _ => ⟨[], fun _ => true, fun _ => 0xcd, .d16, -32768, 65535⟩
  | .ret _ => ⟨[], fun _ => true, fun _ => 0xc9, .none, 0, 0⟩
  | .inout code => ⟨[], fun _ => true, fun _ => lo code, .d8, 0, 255⟩
  | .rlc code => ⟨[], fun _ => true, fun _ => code, .none, 0, 0⟩

/-- every handler *is* its scheme (as far as emitted bytes go) -/
theorem dispatch_desc (h : Handler) (args : List Int) : okBytes (dispatch h args) = (descOf h).run args := by
  cases h <;> simp only [dispatch, descOf, Desc.run, List.length_nil, List.length_cons] <;>
    rcases args with _ | ⟨a, _ | ⟨a2, _ | ⟨a3, t⟩⟩⟩ <;>
    simp [decodeFixed, decodeOp16, decodeOp8, decodeALU, decodeMOV, decodeMVI, decodeLXI, decodeLDAX_STAX, decodePUSH_POP,
      decodeRST, decodeINR_DCR, decodeINX_DCX, decodeDAD, decodeAcc, decodeJmp, decodeRET, decodeINOUT, decodeRLC,
      regsIn, evalI16, evalI8, evalU8, evalU3, reg8, reg16, r0, r1, andThen_ite, okBytes_ite]
  all_goals (try rfl)
  case rst =>
    by_cases h : 0 ≤ a ∧ a ≤ 7
    · have h' : 0 ≤ a ∧ a < 8 := by omega
      have ht : toByte a = a.toNat := by unfold toByte; omega
      simp [h, h', ht]
    · have h' : ¬ (0 ≤ a ∧ a < 8) := by omega
      simp [h, h']
  all_goals ((repeat' split) <;> (try simp_all [toByte]) <;> (try omega))

end AslModel.Isa.I8080

namespace AslModel.Isa.I8080
open AslModel.PFile (Byte b b_toNat)
open AslModel.Spec.I8080
open AslModel.Generated.Isa8080

def descCompat (d : Desc) (f : FormD) : Bool :=
  d.doms == f.doms && d.opd == f.opd && d.lo == f.lo && d.hi == f.hi &&
  (prod d.doms).all fun rs => d.okRegs rs == f.okRegs rs

/-- what the SPEC demands of one `InstTable` entry: the handler's operand scheme is the
mnemonic's operand form, the CPU gate is the manual's, and the SPEC's first-byte decoder maps every
opcode byte the handler can produce back to the mnemonic and its register fields -/
def Good (m : Mn) (h : Handler) : Bool :=
  descCompat (descOf h) (form m) && minCpuOf h == minCpu m && decide (minCpu m ≤ 1) &&
  [0, 1].all fun c => decide (c < minCpu m) ||
    (prod (descOf h).doms).all fun rs => !(descOf h).okRegs rs ||
      decode1 c ((descOf h).opc rs % 256) == some ((meaningRegs m rs).1, (meaningRegs m rs).2, (descOf h).opd)

theorem table_good : Mn.all.all (fun m => match lookup m with | some h => Good m h | none => false) = true := by
  decide +kernel

theorem lookup_good (m : Mn) : ∃ h, lookup m = some h ∧ Good m h = true := by
  have := List.all_eq_true.mp table_good m (mem_all m)
  cases hl : lookup m with
  | none => simp [hl] at this
  | some h => exact ⟨h, rfl, by simpa [hl] using this⟩

theorem isOk_okBytes (x : Except Err (List Byte)) : isOk x = (okBytes x).isSome := by
  cases x <;> rfl

theorem okBytes_eq (x : Except Err (List Byte)) (bs : List Byte) : x = .ok bs → okBytes x = some bs := by
  intro h; subst h; rfl

end AslModel.Isa.I8080
