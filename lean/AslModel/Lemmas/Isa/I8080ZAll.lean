import AslModel.Lemmas.Isa.I8080ZJunk
import AslModel.Lemmas.Isa.I8080ZFinA
import AslModel.Lemmas.Isa.I8080ZFinB
import AslModel.Lemmas.Isa.I8080ZFinC
import AslModel.Lemmas.Isa.I8080ZValLd
import AslModel.Lemmas.Isa.I8080ZValAlu
import AslModel.Lemmas.Isa.I8080ZValMisc
/-!
C14 / 8080 + 8085, Z80-style syntax: every statement inside the SPEC's scope (`canonical`) is refused by both sides or
assembled to exactly the bytes of its 8080 spelling (`encode_viaIntel`); soundness and range then follow from the theorems
of the Intel syntax (`sound_of_intel`, `range_of_intel`).
-/
set_option linter.unusedSimpArgs false
namespace AslModel.Isa.I8080Z
open AslModel.PFile (Byte b b_toNat)
open AslModel.Spec.I8080Z AslModel.Generated.Isa8080Z

/-! ### only "8080 or 8085" matters of the CPU -/

theorem encode_cpu1 (excl : Bool) (cpu : Nat) (s : Src) (h : 1 ≤ cpu) : encode excl cpu s = encode excl 1 s := by
  obtain ⟨m, args⟩ := s
  have him : im cpu = im 1 := by simp [im, h]
  have hld : decodeLD cpu args = decodeLD 1 args := by unfold decodeLD; rw [him]
  cases m <;>
    simp only [encode, lkZ_PUSH, lkZ_POP, lkZ_RST, lkZ_RLCA, lkZ_RRCA, lkZ_RLA, lkZ_RRA, lkZ_CPL, lkZ_SCF, lkZ_CCF, lkZ_DAA,
      lkZ_EI, lkZ_DI, lkZ_NOP, lkZ_HALT, lkZ_LD, lkZ_EX, lkZ_ADD, lkZ_ADC, lkZ_SUB, lkZ_SBC, lkZ_INC, lkZ_DEC, lkZ_AND, lkZ_XOR,
      lkZ_OR, lkZ_CP, lkZ_JP, lkZ_CALL, lkZ_RET, lkZ_IN, lkZ_OUT, minCpuOf, Nat.not_lt_zero, if_false, dispatch, hld]

theorem encodeI_cpu1 (cpu : Nat) (i : ISrc) (h : 1 ≤ cpu) : I8080.encode cpu i = I8080.encode 1 i := by
  obtain ⟨hd, hl, hg⟩ := I8080.lookup_good i.mn
  unfold I8080.encode
  rw [hl]
  simp only [I8080.Good, Bool.and_eq_true, beq_iff_eq, decide_eq_true_eq] at hg
  have h1 : ¬ cpu < I8080.minCpuOf hd := by omega
  have h2 : ¬ 1 < I8080.minCpuOf hd := by omega
  simp only [h1, h2, if_false]

theorem viaIntel_cpu1 (excl : Bool) (cpu : Nat) (s : Src) (h : 1 ≤ cpu) : viaIntel excl cpu s = viaIntel excl 1 s := by
  unfold viaIntel
  cases intel excl s with
  | none => rfl
  | some i => simp only [encodeI_cpu1 cpu i h]

/-! ### statements that are refused for their operand count alone -/

def fixedMns : List Mn := [.RLCA, .RRCA, .RLA, .RRA, .CPL, .SCF, .CCF, .DAA, .EI, .DI, .NOP, .HALT]
def oneOpMns : List Mn := [.PUSH, .POP, .INC, .DEC, .RET, .RST]

set_option maxHeartbeats 4000000 in
theorem many_args (excl : Bool) (cpu : Nat) (m : Mn) (o1 o2 o3 : Opd) (t : List Opd) :
    okBytes (encode excl cpu ⟨m, o1 :: o2 :: o3 :: t⟩) = viaIntel excl cpu ⟨m, o1 :: o2 :: o3 :: t⟩ := by
  cases m <;> zsimp

set_option maxHeartbeats 4000000 in
theorem two_args_none (excl : Bool) (cpu : Nat) (m : Mn) (o1 o2 : Opd) (hm : m ∈ fixedMns ∨ m ∈ oneOpMns) :
    okBytes (encode excl cpu ⟨m, [o1, o2]⟩) = viaIntel excl cpu ⟨m, [o1, o2]⟩ := by
  simp only [fixedMns, oneOpMns, List.mem_cons, List.not_mem_nil, or_false] at hm
  rcases hm with (rfl | rfl | rfl | rfl | rfl | rfl | rfl | rfl | rfl | rfl | rfl | rfl) | (rfl | rfl | rfl | rfl | rfl | rfl) <;> zsimp

set_option maxHeartbeats 4000000 in
theorem one_arg_fixed (excl : Bool) (cpu : Nat) (m : Mn) (o : Opd) (hm : m ∈ fixedMns) :
    okBytes (encode excl cpu ⟨m, [o]⟩) = viaIntel excl cpu ⟨m, [o]⟩ := by
  simp only [fixedMns, List.mem_cons, List.not_mem_nil, or_false] at hm
  rcases hm with rfl | rfl | rfl | rfl | rfl | rfl | rfl | rfl | rfl | rfl | rfl | rfl <;> zsimp

theorem mn_kind (m : Mn) : m ∈ fixedMns ∨ m ∈ oneOpMns ∨ m ∈ grpA ∨ m ∈ grpB ∨ m ∈ grpC := by
  cases m <;> decide

theorem mn_kind1 (m : Mn) : m ∈ fixedMns ∨ m = .RST ∨ m ∈ opMns := by
  cases m <;> decide

theorem mem_all (m : Mn) : m ∈ Mn.all := by cases m <;> decide

theorem kind_of_not_junk (o : Opd) (h : junk o = false) : o ∈ finOpds ∨ isV o = true := by
  rcases opd_kind o with hj | hf | ⟨a, rfl⟩ | ⟨v, rfl⟩
  · rw [h] at hj; cases hj
  · exact .inl hf
  · exact .inr rfl
  · exact .inr rfl

/-! ### two operands, at least one of them a number or an address -/

theorem val2 (excl : Bool) (cpu : Nat) (m : Mn) (o1 o2 : Opd) (k1 : o1 ∈ finOpds ∨ isV o1 = true)
    (k2 : o2 ∈ finOpds ∨ isV o2 = true) (hv : isV o1 = true ∨ isV o2 = true) (hc : canonical excl ⟨m, [o1, o2]⟩ = true) :
    okBytes (encode excl cpu ⟨m, [o1, o2]⟩) = viaIntel excl cpu ⟨m, [o1, o2]⟩ := by
  have alu7 : m ∈ [Mn.ADC, .SUB, .SBC, .AND, .XOR, .OR, .CP] →
      okBytes (encode excl cpu ⟨m, [o1, o2]⟩) = viaIntel excl cpu ⟨m, [o1, o2]⟩ := by
    intro hm
    by_cases hv1 : isV o1 = true
    · exact alu_val_first excl cpu m o1 o2 (by
        simp only [List.mem_cons, List.not_mem_nil, or_false] at hm
        rcases hm with rfl | rfl | rfl | rfl | rfl | rfl | rfl <;> decide) hv1
    · have h1 := k1.resolve_right hv1
      have h2 := hv.resolve_left hv1
      by_cases h7 : o1 = .r8 7
      · subst h7; exact alu_A_val excl cpu m o2 hm h2
      · exact alu_first excl cpu m o1 o2 hm h1 h7
  rcases mn_kind m with hm | hm | hm | hm | hm
  · exact two_args_none excl cpu m o1 o2 (.inl hm)
  · exact two_args_none excl cpu m o1 o2 (.inr hm)
  · simp only [grpA, List.mem_cons, List.not_mem_nil, or_false] at hm
    rcases hm with rfl | rfl | rfl | rfl | rfl
    · -- LD
      have hn : nameCM o1 = false ∧ nameCM o2 = false := by simpa [canonical] using hc
      by_cases hv1 : isV o1 = true
      · cases o1 with
        | abs a =>
          rcases k2 with h2 | h2
          · exact ld_abs_fin excl cpu o2 a h2 hn.2
          · exact ld_abs_val excl cpu o2 a h2
        | imm v => exact ld_imm_first excl cpu v o2
        | _ => simp [isV, isAbs, isImm] at hv1
      · have h1 := k1.resolve_right hv1
        have h2 := hv.resolve_left hv1
        cases o2 with
        | abs a => exact ld_fin_abs excl cpu o1 a h1 hn.1
        | imm v => exact ld_fin_imm excl cpu o1 v h1 hn.1
        | _ => simp [isV, isAbs, isImm] at h2
    · -- EX
      by_cases hv1 : isV o1 = true
      · exact alu_val_first excl cpu .EX o1 o2 (by decide) hv1
      · exact ex_fin_val excl cpu o1 o2 (k1.resolve_right hv1) (hv.resolve_left hv1)
    · -- ADD
      by_cases hv1 : isV o1 = true
      · exact alu_val_first excl cpu .ADD o1 o2 (by decide) hv1
      · exact add_fin_val excl cpu o1 o2 (k1.resolve_right hv1) (hv.resolve_left hv1)
    · exact alu7 (by decide)
    · exact alu7 (by decide)
  · simp only [grpB, List.mem_cons, List.not_mem_nil, or_false] at hm
    rcases hm with rfl | rfl | rfl | rfl | rfl <;> exact alu7 (by decide)
  · simp only [grpC, List.mem_cons, List.not_mem_nil, or_false] at hm
    rcases hm with rfl | rfl | rfl | rfl
    · -- JP
      have hn : regCM o1 = false ∧ nameCM o2 = false := by simpa [canonical] using hc
      by_cases hv1 : isV o1 = true
      · exact jp_call_val_first excl cpu .JP o1 o2 (by decide) hv1
      · exact jp_fin_val excl cpu o1 o2 (k1.resolve_right hv1) (hv.resolve_left hv1) hn.1
    · -- CALL
      have hn : regCM o1 = false ∧ nameCM o2 = false := by simpa [canonical] using hc
      by_cases hv1 : isV o1 = true
      · exact jp_call_val_first excl cpu .CALL o1 o2 (by decide) hv1
      · exact call_fin_val excl cpu o1 o2 (k1.resolve_right hv1) (hv.resolve_left hv1) hn.1
    · -- IN
      have hn : (nameCM o1 = false ∧ nameCM o2 = false) ∧ isImm o2 = false := by simpa [canonical] using hc
      by_cases hv1 : isV o1 = true
      · exact in_val_first excl cpu o1 o2 hv1 k2 hn.2
      · have h1 := k1.resolve_right hv1
        have h2 := hv.resolve_left hv1
        cases o2 with
        | abs n => exact in_fin_abs excl cpu o1 n h1
        | imm v => simp [isImm] at hn
        | _ => simp [isV, isAbs, isImm] at h2
    · -- OUT
      have hn : (nameCM o1 = false ∧ nameCM o2 = false) ∧ isImm o1 = false := by simpa [canonical] using hc
      by_cases hv2 : isV o2 = true
      · exact out_val_second excl cpu o1 o2 hv2 k1 hn.2
      · have h2 := k2.resolve_right hv2
        have h1 := hv.resolve_right hv2
        cases o1 with
        | abs n => exact out_abs_fin excl cpu o2 n h2
        | imm v => simp [isImm] at hn
        | _ => simp [isV, isAbs, isImm] at h1

/-! ### all statements -/

theorem encode_viaIntel01 (excl : Bool) (cpu : Nat) (s : Src) (hcpu : cpu = 0 ∨ cpu = 1) (hc : canonical excl s = true) :
    okBytes (encode excl cpu s) = viaIntel excl cpu s := by
  by_cases hj : ∃ o ∈ s.args, junk o = true
  · obtain ⟨o, ho, hjo⟩ := hj
    rw [encode_junk excl cpu s o ho hjo, viaIntel_junk excl cpu s o ho hjo]
  · have hk : ∀ o ∈ s.args, o ∈ finOpds ∨ isV o = true := fun o ho => kind_of_not_junk o (by
      cases hjo : junk o with
      | false => rfl
      | true => exact absurd ⟨o, ho, hjo⟩ hj)
    obtain ⟨m, args⟩ := s
    rcases args with _ | ⟨o1, _ | ⟨o2, _ | ⟨o3, t⟩⟩⟩
    · have := allOn_use fin0 excl cpu hcpu
      simp only [List.all_eq_true] at this
      exact (agree_iff _ _ _).1 (this m (mem_all m)) hc
    · rcases hk o1 (by simp) with h1 | h1
      · have := allOn_use fin1 excl cpu hcpu
        simp only [List.all_eq_true] at this
        exact (agree_iff _ _ _).1 (this m (mem_all m) o1 h1) hc
      · rcases mn_kind1 m with hm | rfl | hm
        · exact one_arg_fixed excl cpu m o1 hm
        · cases o1 with
          | imm v =>
            by_cases hv : 0 ≤ v ∧ v ≤ 63
            · obtain ⟨n, rfl⟩ : ∃ n : Nat, v = n := ⟨v.toNat, by omega⟩
              have := allOn_use finRst excl cpu hcpu
              simp only [List.all_eq_true, List.mem_range] at this
              exact (agree_iff _ _ _).1 (this n (by omega)) hc
            · exact rst_val_out excl cpu v hv
          | abs a => simp [canonical, isAbs] at hc
          | _ => simp [isV, isAbs, isImm] at h1
        · exact one_val excl cpu m o1 hm h1 hc
    · rcases hk o1 (by simp) with h1 | h1 <;> rcases hk o2 (by simp) with h2 | h2
      · rcases mn_kind m with hm | hm | hm | hm | hm
        · exact two_args_none excl cpu m o1 o2 (.inl hm)
        · exact two_args_none excl cpu m o1 o2 (.inr hm)
        · exact fin2A excl cpu hcpu m hm o1 o2 h1 h2 hc
        · exact fin2B excl cpu hcpu m hm o1 o2 h1 h2 hc
        · exact fin2C excl cpu hcpu m hm o1 o2 h1 h2 hc
      · exact val2 excl cpu m o1 o2 (.inl h1) (.inr h2) (.inr h2) hc
      · exact val2 excl cpu m o1 o2 (.inr h1) (.inl h2) (.inl h1) hc
      · exact val2 excl cpu m o1 o2 (.inr h1) (.inr h2) (.inl h1) hc
    · exact many_args excl cpu m o1 o2 o3 t

/-- **The Z80-style handlers are the Intel-style handlers on the 8080 spelling**: every statement inside the SPEC's scope is
refused, or assembled to exactly the bytes the Intel-syntax model emits for `intel excl s` -/
theorem encode_viaIntel (excl : Bool) (cpu : Nat) (s : Src) (hc : canonical excl s = true) :
    okBytes (encode excl cpu s) = viaIntel excl cpu s := by
  by_cases h : 1 ≤ cpu
  · rw [encode_cpu1 excl cpu s h, viaIntel_cpu1 excl cpu s h]
    exact encode_viaIntel01 excl 1 s (.inr rfl) hc
  · have : cpu = 0 := by omega
    subst this
    exact encode_viaIntel01 excl 0 s (.inl rfl) hc

end AslModel.Isa.I8080Z
