import AslModel.Model.CodeStmt
import AslModel.Lemmas.BInclude
import AslModel.Lemmas.CodeFile
import AslModel.Lemmas.CodeFileRefine
/-! Helper lemmas for `Props/C04_Stmt.lean`: the block list of `BINCLUDE`, event lists that start with a run of
`emit`s, the per-pass globals of a session. -/
namespace AslModel.CodeFile
open AslModel.PFile

/-- one unfolding of the block loop, the two ways it can go -/
theorem chunks_cases (file : List Byte) (pos rest : Nat) :
    (256 < rest ∧ 256 ≤ file.length - pos ∧
      chunks file pos rest = (file.drop pos).take 256 :: chunks file (pos + 256) (rest - 256)) ∨
    ((rest ≤ 256 ∨ file.length - pos < 256) ∧ chunks file pos rest = [(file.drop pos).take rest]) := by
  have hb := BInclude.block_length file pos rest
  by_cases hr : rest ≤ 256
  · have hbl : BInclude.blockLen rest = rest := by simp [BInclude.blockLen, hr]
    right
    refine ⟨Or.inl hr, ?_⟩
    rw [chunks]
    have hc : ¬ (rest - (BInclude.block file pos rest).length ≠ 0 ∧
        (BInclude.block file pos rest).length = BInclude.blockLen rest) := by
      intro ⟨h1, h2⟩; omega
    rw [if_neg hc]
    simp [BInclude.block, BInclude.fread, hbl]
  · have hbl : BInclude.blockLen rest = 256 := by simp [BInclude.blockLen, hr]
    by_cases hs : file.length - pos < 256
    · right
      refine ⟨Or.inr hs, ?_⟩
      rw [chunks]
      have hc : ¬ (rest - (BInclude.block file pos rest).length ≠ 0 ∧
          (BInclude.block file pos rest).length = BInclude.blockLen rest) := by
        intro ⟨h1, h2⟩; omega
      rw [if_neg hc]
      simp only [BInclude.block, BInclude.fread, hbl]
      rw [List.take_of_length_le (by rw [List.length_drop]; omega),
          List.take_of_length_le (by rw [List.length_drop]; omega)]
    · left
      refine ⟨by omega, by omega, ?_⟩
      have hL : (BInclude.block file pos rest).length = 256 := by rw [hb, hbl]; omega
      rw [chunks]
      have hc : rest - (BInclude.block file pos rest).length ≠ 0 ∧
          (BInclude.block file pos rest).length = BInclude.blockLen rest := by
        constructor <;> omega
      rw [if_pos hc]
      have e1 : BInclude.block file pos rest = (file.drop pos).take 256 := by
        simp [BInclude.block, BInclude.fread, hbl]
      have hL' : ((file.drop pos).take 256).length = 256 := by rw [← e1]; exact hL
      simp only [e1, hL']

theorem chunks_flatten (file : List Byte) (pos rest : Nat) :
    (chunks file pos rest).flatten = (file.drop pos).take rest := by
  induction rest using Nat.strongRecOn generalizing pos with
  | ind rest ih =>
    rcases chunks_cases file pos rest with ⟨h1, h2, e⟩ | ⟨_, e⟩
    · rw [e, List.flatten_cons, ih (rest - 256) (by omega)]
      rw [BInclude.take_split (file.drop pos) 256 rest (by omega)]
      simp [List.drop_drop]
    · rw [e]; simp

theorem chunks_small (file : List Byte) (pos rest : Nat) : ∀ b ∈ chunks file pos rest, b.length ≤ 256 := by
  induction rest using Nat.strongRecOn generalizing pos with
  | ind rest ih =>
    rcases chunks_cases file pos rest with ⟨h1, h2, e⟩ | ⟨h, e⟩
    · rw [e]
      intro b hb
      simp only [List.mem_cons] at hb
      rcases hb with hb | hb
      · subst hb; simp [List.length_take]; omega
      · exact ih (rest - 256) (by omega) (pos + 256) b hb
    · rw [e]
      intro b hb
      simp only [List.mem_singleton] at hb
      subst hb
      simp only [List.length_take, List.length_drop]
      omega

/-- number of `WriteBytes` calls of the loop -/
theorem chunks_count (file : List Byte) (pos rest : Nat) : (chunks file pos rest).length ≤ rest / 256 + 1 := by
  induction rest using Nat.strongRecOn generalizing pos with
  | ind rest ih =>
    rcases chunks_cases file pos rest with ⟨h1, h2, e⟩ | ⟨_, e⟩
    · rw [e, List.length_cons]
      have := ih (rest - 256) (by omega) (pos + 256)
      omega
    · rw [e]; simp

theorem included_eq (file : List Byte) (ofs : Nat) (len : Option Nat) :
    included file ofs len = (file.drop ofs).take (bincLen file ofs len) := by
  cases len with
  | some l => rfl
  | none => simp [included, bincLen, List.take_of_length_le]

theorem chunks_included (file : List Byte) (ofs : Nat) (len : Option Nat) :
    (chunks file ofs (bincLen file ofs len)).flatten = included file ofs len := by
  rw [included_eq, chunks_flatten]

/-! ### whole address units -/

theorem div_of_mul (g k : Nat) (hg : g ≠ 0) : g * k / g = k := Nat.mul_div_cancel_left k (by omega)

theorem padUnits_whole (g : Nat) (hg : g ≠ 0) (blk : List Byte) (h : blk.length % g = 0) : padUnits g blk = blk := by
  obtain ⟨k, hk⟩ := Nat.dvd_of_mod_eq_zero h
  have e : (blk.length + g - 1) / g * g = blk.length := by
    rw [hk]
    have e1 : g * k + g - 1 = g * k + (g - 1) := by omega
    rw [e1, Nat.mul_add_div (by omega), Nat.div_eq_of_lt (by omega), Nat.add_zero, Nat.mul_comm]
  simp [padUnits, e]

/-- in a file that has the requested bytes every block of the loop is a whole number of address units when the request is -/
theorem chunks_whole (g : Nat) (h256 : 256 % g = 0) (file : List Byte) (pos rest : Nat)
    (hr : rest % g = 0) (hfit : pos + rest ≤ file.length) : ∀ b ∈ chunks file pos rest, b.length % g = 0 := by
  induction rest using Nat.strongRecOn generalizing pos with
  | ind rest ih =>
    rcases chunks_cases file pos rest with ⟨h1, h2, e⟩ | ⟨h, e⟩
    · rw [e]
      intro b hb
      simp only [List.mem_cons] at hb
      rcases hb with hb | hb
      · subst hb
        have : ((file.drop pos).take 256).length = 256 := by simp [List.length_take]; omega
        rw [this]; exact h256
      · exact ih (rest - 256) (by omega) (pos + 256)
          (Nat.sub_mod_eq_zero_of_mod_eq (by rw [hr, h256])) (by omega) b hb
    · rw [e]
      intro b hb
      simp only [List.mem_singleton] at hb
      subst hb
      have : ((file.drop pos).take rest).length = rest := by simp [List.length_take]; omega
      rw [this]; exact hr

theorem units_sum (g : Nat) (hg : g ≠ 0) (bss : List (List Byte)) (h : ∀ b ∈ bss, b.length % g = 0) :
    (bss.map (fun b => b.length / g)).sum = bss.flatten.length / g ∧ bss.flatten.length % g = 0 := by
  induction bss with
  | nil => simp
  | cons b bs ih =>
    have ih' := ih (fun x hx => h x (by simp [hx]))
    obtain ⟨k, hk⟩ := Nat.dvd_of_mod_eq_zero (h b (by simp))
    obtain ⟨m, hm⟩ := Nat.dvd_of_mod_eq_zero ih'.2
    simp only [List.map_cons, List.sum_cons, List.flatten_cons, List.length_append]
    rw [ih'.1, hk, hm, div_of_mul g k hg, div_of_mul g m hg, ← Nat.mul_add, div_of_mul g (k + m) hg]
    exact ⟨rfl, Nat.mul_mod_right g (k + m)⟩

/-- what `StmtsWF` says about one `BINCLUDE` -/
structure BincWF (g : Nat) (f : List Byte) (o : Nat) (l : Option Nat) : Prop where
  gran : g ≠ 0
  blk : 256 % g = 0
  len : bincLen f o l % g = 0
  fit : o + bincLen f o l ≤ f.length

theorem bincChunks_eq (g : Nat) (f : List Byte) (o : Nat) (l : Option Nat) (h : BincWF g f o l) :
    bincChunks g f o l = chunks f o (bincLen f o l) := by
  unfold bincChunks
  have hw := chunks_whole g h.blk f o (bincLen f o l) h.len h.fit
  calc (chunks f o (bincLen f o l)).map (padUnits g)
      = (chunks f o (bincLen f o l)).map id :=
        List.map_congr_left (fun b hb => padUnits_whole g h.gran b (hw b hb))
    _ = chunks f o (bincLen f o l) := List.map_id _

theorem bincChunks_flatten (g : Nat) (f : List Byte) (o : Nat) (l : Option Nat) (h : BincWF g f o l) :
    (bincChunks g f o l).flatten = included f o l := by
  rw [bincChunks_eq g f o l h, chunks_included]

theorem bincChunks_whole (g : Nat) (f : List Byte) (o : Nat) (l : Option Nat) (h : BincWF g f o l) :
    ∀ b ∈ bincChunks g f o l, b.length % g = 0 := by
  rw [bincChunks_eq g f o l h]
  exact chunks_whole g h.blk f o (bincLen f o l) h.len h.fit

theorem bincChunks_small (g : Nat) (f : List Byte) (o : Nat) (l : Option Nat) (h : BincWF g f o l) :
    ∀ b ∈ bincChunks g f o l, b.length ≤ 256 := by
  rw [bincChunks_eq g f o l h]
  exact chunks_small _ _ _

theorem bincUnits_eq (g : Nat) (f : List Byte) (o : Nat) (l : Option Nat) (h : BincWF g f o l) :
    bincUnits g f o l = (included f o l).length / g := by
  unfold bincUnits
  rw [(units_sum g h.gran _ (bincChunks_whole g f o l h)).1, bincChunks_flatten g f o l h]

/-! ### event lists that start with a run of `emit`s of whole address units -/

theorem specCells_emits (c : Ctx) (hg : c.gran.toNat ≠ 0) (bss : List (List Byte))
    (hb : ∀ b ∈ bss, b.length % c.gran.toNat = 0) (pc : Nat) (tl : List Ev) :
    specCells c pc (bss.map Ev.emit ++ tl) =
      cellsFrom c.cpu c.seg c.gran (pc * c.gran.toNat) bss.flatten ++
        specCells c (pc + bss.flatten.length / c.gran.toNat) tl := by
  induction bss generalizing pc with
  | nil => simp [cellsFrom]
  | cons b bs ih =>
    have hbs : ∀ x ∈ bs, x.length % c.gran.toNat = 0 := fun x hx => hb x (by simp [hx])
    obtain ⟨k, hk⟩ := Nat.dvd_of_mod_eq_zero (hb b (by simp))
    obtain ⟨m, hm⟩ := Nat.dvd_of_mod_eq_zero (units_sum c.gran.toNat hg bs hbs).2
    simp only [List.map_cons, List.cons_append, specCells, List.flatten_cons, List.length_append]
    rw [ih hbs, cellsFrom_append, hk, hm, div_of_mul _ k hg, div_of_mul _ m hg, ← Nat.mul_add, div_of_mul _ (k + m) hg]
    have e1 : (pc + k) * c.gran.toNat = pc * c.gran.toNat + c.gran.toNat * k := by
      rw [Nat.add_mul, Nat.mul_comm k]
    rw [e1, Nat.add_assoc, List.append_assoc]

theorem EvsWF_emits (c : Ctx) (hg : c.gran.toNat ≠ 0) (bss : List (List Byte))
    (hb : ∀ b ∈ bss, b.length % c.gran.toNat = 0) (tl : List Ev) (h : EvsWF c tl) :
    EvsWF c (bss.map Ev.emit ++ tl) := by
  induction bss with
  | nil => simpa using h
  | cons b bs ih =>
    simp only [List.map_cons, List.cons_append, EvsWF]
    exact ⟨hg, hb b (by simp), ih (fun x hx => hb x (by simp [hx]))⟩

theorem EvsFit_emits (c : Ctx) (bss : List (List Byte))
    (hb : ∀ b ∈ bss, b.length % c.gran.toNat = 0) (tl : List Ev)
    (hs : ∀ b ∈ bss, b.length ≤ 256) (h : EvsFit c tl) : EvsFit c (bss.map Ev.emit ++ tl) := by
  induction bss with
  | nil => simpa using h
  | cons b bs ih =>
    simp only [List.map_cons, List.cons_append, EvsFit]
    have := hs b (by simp)
    exact ⟨by omega, hb b (by simp), ih (fun x hx => hb x (by simp [hx])) (fun x hx => hs x (by simp [hx]))⟩

theorem EvsSmall_emits (bss : List (List Byte)) (tl : List Ev)
    (hs : ∀ b ∈ bss, b.length ≤ 256) (h : EvsSmall tl) : EvsSmall (bss.map Ev.emit ++ tl) := by
  induction bss with
  | nil => simpa using h
  | cons b bs ih =>
    simp only [List.map_cons, List.cons_append, EvsSmall]
    have := hs b (by simp)
    exact ⟨by omega, ih (fun x hx => hs x (by simp [hx]))⟩

/-! ### statement lists -/

theorem expand_cells (stmts : List Stmt) (c : Ctx) (pc : Nat) (h : StmtsWF c stmts) :
    specCells c pc (expand c pc stmts) = specCellsS c pc stmts := by
  induction stmts generalizing c pc with
  | nil => rfl
  | cons s r ih =>
    cases s with
    | ev e =>
      cases e with
      | emit bs =>
        simp only [StmtsWF] at h
        simp only [expand, specCells, specCellsS]
        rw [ih c _ h.2.2]
      | jump c' pc' =>
        simp only [StmtsWF] at h
        simp only [expand, specCells, specCellsS]
        exact ih c' pc' h
    | binclude f o l =>
      simp only [StmtsWF] at h
      obtain ⟨hg, h256, hl, hfit, hr⟩ := h
      have hw : BincWF c.gran.toNat f o l := ⟨hg, h256, hl, hfit⟩
      simp only [expand, bincludeEvs, specCellsS, List.append_assoc]
      rw [specCells_emits c hg _ (bincChunks_whole _ f o l hw)]
      simp only [List.singleton_append, specCells]
      rw [ih c _ hr, bincChunks_flatten _ f o l hw, bincUnits_eq _ f o l hw]

theorem expand_wf (stmts : List Stmt) (c : Ctx) (pc : Nat) (h : StmtsWF c stmts) : EvsWF c (expand c pc stmts) := by
  induction stmts generalizing c pc with
  | nil => trivial
  | cons s r ih =>
    cases s with
    | ev e =>
      cases e with
      | emit bs =>
        simp only [StmtsWF] at h
        simp only [expand, EvsWF]
        exact ⟨h.1, h.2.1, ih c _ h.2.2⟩
      | jump c' pc' =>
        simp only [StmtsWF] at h
        simp only [expand, EvsWF]
        exact ih c' pc' h
    | binclude f o l =>
      simp only [StmtsWF] at h
      obtain ⟨hg, h256, hl, hfit, hr⟩ := h
      have hw : BincWF c.gran.toNat f o l := ⟨hg, h256, hl, hfit⟩
      simp only [expand, bincludeEvs, List.append_assoc]
      apply EvsWF_emits c hg _ (bincChunks_whole _ f o l hw)
      simp only [List.singleton_append, EvsWF]
      exact ih c _ hr

theorem expand_fit (stmts : List Stmt) (c : Ctx) (pc : Nat) (h : StmtsWF c stmts) (hf : StmtsFit stmts) :
    EvsFit c (expand c pc stmts) := by
  induction stmts generalizing c pc with
  | nil => trivial
  | cons s r ih =>
    cases s with
    | ev e =>
      cases e with
      | emit bs =>
        simp only [StmtsWF] at h
        simp only [StmtsFit] at hf
        simp only [expand, EvsFit]
        exact ⟨hf.1, h.2.1, ih c _ h.2.2 hf.2⟩
      | jump c' pc' =>
        simp only [StmtsWF] at h
        simp only [StmtsFit] at hf
        simp only [expand, EvsFit]
        exact ih c' pc' h hf
    | binclude f o l =>
      simp only [StmtsWF] at h
      simp only [StmtsFit] at hf
      obtain ⟨hg, h256, hl, hfit, hr⟩ := h
      have hw : BincWF c.gran.toNat f o l := ⟨hg, h256, hl, hfit⟩
      simp only [expand, bincludeEvs, List.append_assoc]
      apply EvsFit_emits c _ (bincChunks_whole _ f o l hw) _ (bincChunks_small _ f o l hw)
      simp only [List.singleton_append, EvsFit]
      exact ih c _ hr hf

theorem expand_small (stmts : List Stmt) (c : Ctx) (pc : Nat) (h : StmtsWF c stmts) (hf : StmtsFit stmts) :
    EvsSmall (expand c pc stmts) := by
  induction stmts generalizing c pc with
  | nil => trivial
  | cons s r ih =>
    cases s with
    | ev e =>
      cases e with
      | emit bs =>
        simp only [StmtsWF] at h
        simp only [StmtsFit] at hf
        simp only [expand, EvsSmall]
        exact ⟨hf.1, ih c _ h.2.2 hf.2⟩
      | jump c' pc' =>
        simp only [StmtsWF] at h
        simp only [StmtsFit] at hf
        simp only [expand, EvsSmall]
        exact ih c' pc' h hf
    | binclude f o l =>
      simp only [StmtsWF] at h
      simp only [StmtsFit] at hf
      obtain ⟨hg, h256, hl, hfit, hr⟩ := h
      have hw : BincWF c.gran.toNat f o l := ⟨hg, h256, hl, hfit⟩
      simp only [expand, bincludeEvs, List.append_assoc]
      apply EvsSmall_emits _ _ (bincChunks_small _ f o l hw)
      simp only [List.singleton_append, EvsSmall]
      exact ih c _ hr hf

/-! ### sessions -/

/-- the code file of a pass does not depend on the globals the pass starts with -/
theorem onePass_file (g g' : Glob) (s : Src) : (onePass g s).2 = (onePass g' s).2 := by
  cases hs : s.endS <;> simp [onePass, codeEND, initPass, entryOf, hs]

theorem onePass_entry (g : Glob) (s : Src) :
    entryOf (onePass g s).1 = (match s.endS with | .addr a => some a | _ => none) := by
  cases hs : s.endS <;> simp [onePass, codeEND, initPass, entryOf, hs]

theorem morePasses_file (s : Src) (n : Nat) (r r' : Glob × List Byte) (h : r.2 = r'.2) :
    (morePasses s n r).2 = (morePasses s n r').2 := by
  induction n generalizing r r' with
  | zero => simpa [morePasses] using h
  | succ n ih =>
    simp only [morePasses]
    exact ih _ _ (onePass_file _ _ s)

theorem assembleFile_file (g g' : Glob) (s : Src) : (assembleFile g s).2 = (assembleFile g' s).2 := by
  unfold assembleFile
  exact morePasses_file s _ _ _ (onePass_file g g' s)

/-- whatever the number of passes, the file on disk is the file of a single pass -/
theorem morePasses_is_onePass (s : Src) (n : Nat) (g g0 : Glob) :
    (morePasses s n (onePass g s)).2 = (onePass g0 s).2 := by
  induction n generalizing g with
  | zero => simpa [morePasses] using onePass_file g g0 s
  | succ n ih => simp only [morePasses]; exact ih _

theorem entries_finishItems (s : St) (entry : Option Nat) :
    entries (finishItems s entry) = (match entry with | some a => [a] | none => []) := by
  unfold finishItems
  have hd : ∀ (rs : List Rec) (tl : List Item), entries (rs.map Item.data ++ tl) = entries tl := by
    intro rs tl
    induction rs with
    | nil => rfl
    | cons r rs ih => simpa [entries] using ih
  rw [hd]
  cases entry <;> rfl

end AslModel.CodeFile
