import AslModel.Lemmas.Listing
import AslModel.Lemmas.Drehe
/-! Helper lemmas of C19 (wide part): `MakeList` for word-listed / word-addressed targets.

Structure: width facts for the 35 radices (complete table, `decide`) → numerals of 1/2/4 bytes read
back with their size → `DreheCodes` as unit-wise reversal → one step of the dump loop keeps the
invariant `Inv` and lists exactly the next unit of the code file → inner loop → outer loop. -/
namespace AslModel.Listing
open AslModel

/-! ## width facts -/

/-- everything the proof needs about the column widths in radix `r` -/
def wok (r : Nat) : Prop :=
  systemListLen8 r = byteDigits r ∧ systemListLen16 r = unitDigits r 2 ∧ systemListLen32 r = unitDigits r 4 ∧
  1 ≤ byteDigits r ∧ byteDigits r < unitDigits r 2 ∧ unitDigits r 2 < unitDigits r 4 ∧
  256 ≤ r ^ byteDigits r ∧ 65536 ≤ r ^ unitDigits r 2 ∧ 4294967296 ≤ r ^ unitDigits r 4 ∧
  byteDigits r + 1 < LISTLINESPACE ∧ unitDigits r 2 + 1 < LISTLINESPACE

instance (r : Nat) : Decidable (wok r) := by unfold wok; infer_instance

/-- width of a listed value of `n` bytes -/
def unitW (r n : Nat) : Nat := if n = 4 then unitDigits r 4 else if n = 2 then unitDigits r 2 else byteDigits r

def LG (n : Nat) : Prop := n = 1 ∨ n = 2 ∨ n = 4

instance (n : Nat) : Decidable (LG n) := by unfold LG; infer_instance

theorem sysLen_eq (r n : Nat) (h : wok r) : sysLen r n = unitW r n := by
  obtain ⟨h8, h16, h32, _⟩ := h
  unfold sysLen unitW
  rw [h8, h16, h32]

theorem unitSize_unitW (r n : Nat) (h : wok r) (hn : LG n) : unitSize r (unitW r n) = some n := by
  obtain ⟨_, _, _, _, h12, h24, _⟩ := h
  rcases hn with rfl | rfl | rfl
  · have a : byteDigits r ≠ unitDigits r 4 := by omega
    have b : byteDigits r ≠ unitDigits r 2 := by omega
    simp [unitSize, unitW, a, b]
  · have a : unitDigits r 2 ≠ unitDigits r 4 := by omega
    simp [unitSize, unitW, a]
  · simp [unitSize, unitW]

theorem unitSize_zero (r : Nat) (h : wok r) : unitSize r 0 = none := by
  obtain ⟨_, _, _, h1, h12, h24, _⟩ := h
  have a : 0 ≠ unitDigits r 4 := by omega
  have b : 0 ≠ unitDigits r 2 := by omega
  have c : 0 ≠ byteDigits r := by omega
  simp [unitSize, a, b, c]

theorem unitW_pos (r n : Nat) (h : wok r) : 1 ≤ unitW r n := by
  obtain ⟨_, _, _, h1, h12, h24, _⟩ := h
  unfold unitW
  split
  · omega
  · split <;> omega

theorem unitW_fit (r n : Nat) (h : wok r) (hn : LG n) : 256 ^ n ≤ r ^ unitW r n := by
  obtain ⟨_, _, _, _, _, _, f1, f2, f4, _⟩ := h
  rcases hn with rfl | rfl | rfl
  · simpa [unitW] using f1
  · simpa [unitW] using f2
  · simpa [unitW] using f4

/-! ## numerals with their size -/

/-- what may follow the last numeral of the code field: nothing, or a character that is not a digit
of the list radix (a blank in particular) -/
def TailW (r : Nat) (tail : List Char) : Prop := ∀ c t, tail = c :: t → ∀ d, digitVal c = some d → r ≤ d

theorem tailW_nil (r : Nat) : TailW r [] := by intro c t h; cases h

theorem tailW_space (r : Nat) (t : List Char) : TailW r (' ' :: t) := by
  intro c t' h d hd
  simp only [List.cons.injEq] at h
  obtain ⟨rfl, _⟩ := h
  simp [digitVal_space] at hd

theorem tailW_pad (r k : Nat) (src : List Char) (h : 0 < k ∨ TailW r src) :
    TailW r (List.replicate k ' ' ++ src) := by
  cases k with
  | zero =>
    rcases h with h | h
    · omega
    · simpa using h
  | succ k => simp only [List.replicate_succ, List.cons_append]; exact tailW_space r _

theorem parseUnits_tail (r : Nat) (h0 : unitSize r 0 = none) (tail : List Char) (h : TailW r tail) :
    parseUnits r r tail 0 0 = [] := by
  cases tail with
  | nil => simp [parseUnits]
  | cons c t =>
    by_cases hc : c = ' '
    · simp [parseUnits, hc, h0]
    · simp only [parseUnits, hc, if_false]
      cases hd : digitVal c with
      | none => rfl
      | some d =>
        have := h c t rfl d hd
        have : ¬ d < r := by omega
        simp [this]

theorem parseUnits_digits (r rw : Nat) (hr : r ≤ 36) (rest : List Char) :
    ∀ (ds : List Char) (k acc v : Nat), AllDig r ds → parseNumAux r ds acc = some v →
      parseUnits r rw (ds ++ ' ' :: rest) k acc =
        (match unitSize rw (k + ds.length) with
         | some n => (n, v) :: parseUnits r rw rest 0 0
         | none => []) := by
  intro ds
  induction ds with
  | nil =>
    intro k acc v _ hv
    simp only [parseNumAux, Option.some.injEq] at hv
    subst hv
    simp only [List.nil_append, parseUnits, if_true, List.length_nil, Nat.add_zero]
    cases unitSize rw k <;> rfl
  | cons c cs ih =>
    intro k acc v hd hv
    obtain ⟨d, hdr, rfl⟩ := hd c (by simp)
    have hsp : digitChar d ≠ ' ' := digitChar_ne_space d (by omega)
    have hdv := digitVal_digitChar d (by omega)
    simp only [parseNumAux, hdv, hdr, if_true] at hv
    simp only [List.cons_append, parseUnits, hsp, if_false, hdv, hdr, if_true]
    rw [ih (k + 1) (acc * r + d) v hd.tail hv]
    have e : k + 1 + cs.length = k + (cs.length + 1) := by omega
    simp only [List.length_cons, e]

/-- a value that fits `n` bytes, printed `unitW r n` wide and followed by a blank, reads back as
`(n, value)` -/
theorem parseUnits_unit (r : Nat) (hr2 : 2 ≤ r) (hr36 : r ≤ 36) (hw : wok r) (n v : Nat) (hn : LG n)
    (hv : v < 256 ^ n) (rest : List Char) :
    parseUnits r r (sysString r (unitW r n) v ++ ' ' :: rest) 0 0 = (n, v) :: parseUnits r r rest 0 0 := by
  have hfit := unitW_fit r n hw hn
  have hlen := sysString_length r hr2 (unitW r n) v (unitW_pos r n hw) (by omega)
  rw [parseUnits_digits r r hr36 rest _ 0 0 v (sysString_allDig r (by omega) _ v) (sysString_parse r hr2 hr36 _ v)]
  simp only [Nat.zero_add, hlen, unitSize_unitW r n hw hn]

/-! ## byte values -/

theorem leVal_lt : ∀ l : List UInt8, leVal l < 256 ^ l.length := by
  intro l
  induction l with
  | nil => simp [leVal]
  | cons b t ih =>
    have hb := b.toNat_lt
    simp only [leVal, List.length_cons, Nat.pow_succ]
    omega

theorem leBytes_leVal : ∀ l : List UInt8, leBytes l.length (leVal l) = l.map (fun b => b.toNat) := by
  intro l
  induction l with
  | nil => simp [leBytes]
  | cons b t ih =>
    have hb := b.toNat_lt
    have h1 : (b.toNat + 256 * leVal t) % 256 = b.toNat := by omega
    have h2 : (b.toNat + 256 * leVal t) / 256 = leVal t := by omega
    simp only [leVal, List.length_cons, leBytes, h1, h2, ih, List.map_cons]

theorem unitBytes_leVal (be : Bool) (l : List UInt8) :
    unitBytes be l.length (leVal l) = (if be then l.reverse else l).map (fun b => b.toNat) := by
  unfold unitBytes
  rw [leBytes_leVal]
  cases be <;> simp

/-! ## `DreheCodes` as unit-wise reversal -/

def swap2 : List UInt8 → List UInt8
  | a :: b :: t => b :: a :: swap2 t
  | t => t

def swap4 : List UInt8 → List UInt8
  | a :: b :: c :: d :: t => d :: c :: b :: a :: swap4 t
  | t => t

def turnU (lg : Nat) (d : List UInt8) : List UInt8 := if lg = 2 then swap2 d else if lg = 4 then swap4 d else d

/-- bytes of the code file for the (rest of the) buffer `d` -/
def fileB (tw : Bool) (lg : Nat) (d : List UInt8) : List UInt8 := if tw then turnU lg d else d

theorem turn2_swap2 : ∀ (n : Nat) (d : List UInt8), d.length / 2 ≤ n → Drehe.turn2 n d = swap2 d := by
  intro n
  induction n with
  | zero =>
    intro d h
    match d with
    | [] => simp [Drehe.turn2, swap2]
    | [a] => simp [Drehe.turn2, swap2]
    | a :: b :: t => simp only [List.length_cons] at h; omega
  | succ n ih =>
    intro d h
    match d with
    | [] => simp [Drehe.turn2, swap2]
    | [a] => simp [Drehe.turn2, swap2]
    | a :: b :: t =>
      simp only [List.length_cons] at h
      rw [Drehe.turn2_cons, ih t (by omega)]
      simp [swap2]

theorem turn4_swap4 : ∀ (n : Nat) (d : List UInt8), d.length / 4 ≤ n → Drehe.turn4 n d = swap4 d := by
  intro n
  induction n with
  | zero =>
    intro d h
    match d with
    | [] => simp [Drehe.turn4, swap4]
    | [a] => simp [Drehe.turn4, swap4]
    | [a, b] => simp [Drehe.turn4, swap4]
    | [a, b, c] => simp [Drehe.turn4, swap4]
    | a :: b :: c :: e :: t => simp only [List.length_cons] at h; omega
  | succ n ih =>
    intro d h
    match d with
    | [] => simp [Drehe.turn4, swap4]
    | [a] => simp [Drehe.turn4, swap4]
    | [a, b] => simp [Drehe.turn4, swap4]
    | [a, b, c] => simp [Drehe.turn4, swap4]
    | a :: b :: c :: e :: t =>
      simp only [List.length_cons] at h
      rw [Drehe.turn4_cons, ih t (by omega)]
      simp [swap4]

theorem dreheCodes_eq (lg : Nat) (d : List UInt8) : Drehe.dreheCodes lg d.length d = turnU lg d := by
  unfold Drehe.dreheCodes turnU
  split
  · exact turn2_swap2 _ d (by simp [Nat.shiftRight_eq_div_pow])
  · split
    · exact turn4_swap4 _ d (by simp [Nat.shiftRight_eq_div_pow])
    · rfl

theorem fileBytes_eq (tw : Bool) (lg : Nat) (d : List UInt8) : fileBytes tw lg d = fileB tw lg d := by
  unfold fileBytes fileB
  rw [dreheCodes_eq]

theorem listView_eq (i : ListInW) : listView i = i.code := by
  unfold listView
  split
  · rename_i h
    obtain ⟨_, _, h1⟩ := h
    rw [h1]
    simp [Drehe.dreheCodes]
  · rfl

theorem turnU_short (lg : Nat) (d : List UInt8) (h : d.length < lg) : turnU lg d = d := by
  unfold turnU
  split
  · subst lg
    match d with
    | [] => rfl
    | [a] => rfl
    | a :: b :: t => simp only [List.length_cons] at h; omega
  · split
    · subst lg
      match d with
      | [] => rfl
      | [a] => rfl
      | [a, b] => rfl
      | [a, b, c] => rfl
      | a :: b :: c :: e :: t => simp only [List.length_cons] at h; omega
    · rfl

theorem fileB_short (tw : Bool) (lg : Nat) (d : List UInt8) (h : d.length < lg) : fileB tw lg d = d := by
  unfold fileB
  rw [turnU_short lg d h]
  simp

theorem fileB_nil (tw : Bool) (lg : Nat) : fileB tw lg [] = [] := by
  cases tw <;> simp [fileB, turnU, swap2, swap4]

/-- a complete unit at the head of the buffer: the code file holds its bytes in the order `tw` says -/
theorem fileB_unit (tw : Bool) (lg : Nat) (hlg : LG lg) (d : List UInt8) (h : lg ≤ d.length) :
    (fileB tw lg d) = (if tw then (d.take lg).reverse else d.take lg) ++ fileB tw lg (d.drop lg) := by
  rcases hlg with rfl | rfl | rfl
  · match d with
    | [] => simp at h
    | a :: t => cases tw <;> simp [fileB, turnU]
  · match d with
    | [] => simp at h
    | [a] => simp at h
    | a :: b :: t => cases tw <;> simp [fileB, turnU, swap2]
  · match d with
    | [] => simp at h
    | [a] => simp at h
    | [a, b] => simp at h
    | [a, b, c] => simp at h
    | a :: b :: c :: e :: t => cases tw <;> simp [fileB, turnU, swap4]

/-! ## one step of the dump loop -/

/-- loop invariant: word mode while a complete unit is left, byte mode for a shorter remainder;
on a word-addressed target (`g = lg`) the buffer holds whole address units -/
structure Inv (g lg w8 wl : Nat) (s : StW) : Prop where
  mode : (s.cg = lg ∧ s.sl = wl ∧ lg ≤ s.d.length) ∨ (s.cg = 1 ∧ s.sl = w8 ∧ s.d.length < lg)
  gran : g = 1 ∨ (g = lg ∧ s.d.length % lg = 0)

/-- the unit the next cell lists: (size, value) -/
def nextUnit (s : StW) : Nat × Nat :=
  if s.cg ≤ s.d.length then (s.cg, leVal (s.d.take s.cg)) else (1, leVal (s.d.take 1))

theorem thisWord_eq (cg : Nat) (d : List UInt8) (h : LG cg) : thisWord cg d = leVal (d.take cg) := by
  rcases h with rfl | rfl | rfl <;> simp [thisWord]

theorem stepW_inv (g lg w8 wl : Nat) (hlg : LG lg) (h1 : lg = 1 → wl = w8) (s : StW) (h : Inv g lg w8 wl s) :
    Inv g lg w8 wl (stepW w8 g s) := by
  obtain ⟨hm, hg⟩ := h
  rcases hm with ⟨hcg, hsl, hlen⟩ | ⟨hcg, hsl, hlen⟩
  · -- word mode
    simp only [stepW, hcg, List.length_drop]
    split
    · rename_i hs
      refine ⟨Or.inr ⟨rfl, rfl, by simpa using hs⟩, ?_⟩
      rcases hg with hg | ⟨hg, hmod⟩
      · exact Or.inl hg
      · refine Or.inr ⟨hg, ?_⟩
        simp only [List.length_drop]
        rcases hlg with rfl | rfl | rfl <;> omega
    · rename_i hs
      refine ⟨Or.inl ⟨rfl, hsl, by simpa using hs⟩, ?_⟩
      rcases hg with hg | ⟨hg, hmod⟩
      · exact Or.inl hg
      · refine Or.inr ⟨hg, ?_⟩
        simp only [List.length_drop]
        rcases hlg with rfl | rfl | rfl <;> omega
  · -- byte mode
    have hg' : g = 1 ∨ (g = lg ∧ (s.d.drop 1).length % lg = 0) := by
      rcases hg with hg | ⟨hg, hmod⟩
      · exact Or.inl hg
      · refine Or.inr ⟨hg, ?_⟩
        have : s.d.length = 0 := by
          rcases hlg with rfl | rfl | rfl <;> omega
        simp [this]
    have hl : (s.d.drop 1).length < lg := by simp only [List.length_drop]; omega
    simp only [stepW, hcg]
    split
    · exact ⟨Or.inr ⟨rfl, rfl, hl⟩, hg'⟩
    · exact ⟨Or.inr ⟨rfl, hsl, hl⟩, hg'⟩

/-- the state after a cell that listed a unit: the rest of the buffer, the advanced address -/
theorem stepW_unit (g lg w8 wl : Nat) (hlg : LG lg) (s : StW) (h : Inv g lg w8 wl s) (hd : s.d ≠ []) :
    (stepW w8 g s).d = s.d.drop (nextUnit s).1 ∧ (nextUnit s).1 ≤ s.d.length ∧ 1 ≤ (nextUnit s).1 ∧
    LG (nextUnit s).1 ∧ (nextUnit s).2 = leVal (s.d.take (nextUnit s).1) ∧
    thisWord s.cg s.d = (nextUnit s).2 ∧ s.sl = (if (nextUnit s).1 = lg then wl else w8) ∧
    (lg ≤ s.d.length → (nextUnit s).1 = lg) ∧ (s.d.length < lg → (nextUnit s).1 = 1) ∧
    (stepW w8 g s).pc * g = s.pc * g + (nextUnit s).1 ∧ s.pc ≤ (stepW w8 g s).pc := by
  have hpos : 1 ≤ s.d.length := by
    cases hs : s.d with
    | nil => exact absurd hs hd
    | cons a t => simp
  obtain ⟨hm, hg⟩ := h
  have hpc : (stepW w8 g s).pc = s.pc + (if g = s.cg then 1 else s.cg) := by
    simp only [stepW]; split <;> rfl
  have hdd : (stepW w8 g s).d = s.d.drop s.cg := by
    simp only [stepW]; split <;> rfl
  rcases hm with ⟨hcg, hsl, hlen⟩ | ⟨hcg, hsl, hlen⟩
  · have hn : nextUnit s = (lg, leVal (s.d.take lg)) := by simp [nextUnit, hcg, hlen]
    have hlg1 : 1 ≤ lg := by rcases hlg with rfl | rfl | rfl <;> omega
    rw [hn, hpc, hdd, hcg]
    refine ⟨rfl, hlen, hlg1, hlg, rfl, thisWord_eq lg s.d hlg, by simp [hsl], fun _ => rfl, fun h => by omega, ?_, by split <;> omega⟩
    rcases hg with rfl | ⟨rfl, _⟩
    · split
      · rename_i e; rw [← e]; omega
      · omega
    · simp [Nat.add_mul]
  · have hn : nextUnit s = (1, leVal (s.d.take 1)) := by
      simp only [nextUnit, hcg]; split <;> rfl
    have hg1 : g = 1 := by
      rcases hg with hg | ⟨hg, hmod⟩
      · exact hg
      · exfalso
        rcases hlg with rfl | rfl | rfl <;> omega
    have hne : lg ≠ 1 := by omega
    have hne' : ¬ (1 = lg) := fun e => hne e.symm
    rw [hn, hpc, hdd, hcg, hg1]
    refine ⟨rfl, hpos, Nat.le_refl 1, Or.inl rfl, rfl, thisWord_eq 1 s.d (Or.inl rfl), by simp [hsl, hne'], fun h => by omega, fun _ => rfl, by simp, by simp⟩

/-! ## text classes -/

theorem cellW_allDigSp (r : Nat) (hr : 0 < r) (dp : Bool) (s : StW) : AllDigSp r (cellW r dp s) := by
  unfold cellW
  split
  · apply AllDigSp.append (sysString_allDig r hr _ _).toSp
    intro c hc
    simp at hc
    exact Or.inl hc
  · exact allDigSp_replicate r _

theorem innerW_allDigSp (r w8 g : Nat) (hr : 0 < r) (dp : Bool) :
    ∀ f sum s, AllDigSp r (innerW r w8 g dp f sum s).text := by
  intro f
  induction f with
  | zero => intro sum s c hc; simp [innerW] at hc
  | succ f ih =>
    intro sum s
    simp only [innerW]
    split
    · exact AllDigSp.append (cellW_allDigSp r hr dp s) (ih _ _)
    · exact cellW_allDigSp r hr dp s

/-! ## the inner loop -/

/-- `innerW (f+1)` as one cell followed by a (possibly empty) run -/
theorem innerW_succ (numR w8 g : Nat) (dp : Bool) (f sum : Nat) (s : StW) :
    ∃ f', (innerW numR w8 g dp (f + 1) sum s).text
        = cellW numR dp s ++ (innerW numR w8 g dp f' (sum + (s.sl + 1)) (stepW w8 g s)).text ∧
      (innerW numR w8 g dp (f + 1) sum s).st = (innerW numR w8 g dp f' (sum + (s.sl + 1)) (stepW w8 g s)).st ∧
      (innerW numR w8 g dp (f + 1) sum s).sum = (innerW numR w8 g dp f' (sum + (s.sl + 1)) (stepW w8 g s)).sum := by
  simp only [innerW]
  split
  · exact ⟨f, rfl, rfl, rfl⟩
  · exact ⟨0, by simp [innerW], rfl, rfl⟩

/-- what a run of cells (text `text`, final state `st`) starting in state `s` must satisfy -/
def Post (r g lg w8 wl : Nat) (tw : Bool) (s : StW) (text : List Char) (st : StW) (tail : List Char) : Prop :=
  Inv g lg w8 wl st ∧
  unitsBytes tw (parseUnits r r (text ++ tail) 0 0) ++ (fileB tw lg st.d).map (fun b => b.toNat)
    = (fileB tw lg s.d).map (fun b => b.toNat) ∧
  unitsLen (parseUnits r r (text ++ tail) 0 0) + st.d.length = s.d.length ∧
  (st.d ≠ [] → st.pc * g = s.pc * g + unitsLen (parseUnits r r (text ++ tail) 0 0) ∧ s.pc ≤ st.pc)

theorem post_zero (r g lg w8 wl : Nat) (tw : Bool) (hw : wok r) (s : StW) (tail : List Char)
    (hi : Inv g lg w8 wl s) (ht : TailW r tail) : Post r g lg w8 wl tw s [] s tail := by
  have := parseUnits_tail r (unitSize_zero r hw) tail ht
  refine ⟨hi, ?_, ?_, ?_⟩ <;> simp [this, unitsBytes, unitsLen]

theorem post_step (r : Nat) (hr2 : 2 ≤ r) (hr36 : r ≤ 36) (hw : wok r) (g lg : Nat) (hlg : LG lg) (tw : Bool)
    (s : StW) (text : List Char) (st : StW) (tail : List Char)
    (hi : Inv g lg (unitW r 1) (unitW r lg) s)
    (hp : Post r g lg (unitW r 1) (unitW r lg) tw (stepW (unitW r 1) g s) text st tail) :
    Post r g lg (unitW r 1) (unitW r lg) tw s (cellW r false s ++ text) st tail := by
  obtain ⟨pi, pb, pl, pp⟩ := hp
  by_cases hd : s.d = []
  · -- blank cell: nothing is listed any more
    have hs' : (stepW (unitW r 1) g s).d = [] := by
      simp only [stepW, hd]; split <;> simp
    have hst : st.d = [] := by
      rw [hs'] at pl
      simp only [List.length_nil] at pl
      exact List.eq_nil_of_length_eq_zero (by omega)
    have hcell : cellW r false s = ' ' :: List.replicate s.sl ' ' := by
      simp [cellW, hd, List.replicate_succ]
    have hU : parseUnits r r (cellW r false s ++ text ++ tail) 0 0 = [] := by
      rw [hcell]
      simp [parseUnits, unitSize_zero r hw]
    refine ⟨pi, ?_, ?_, ?_⟩
    · rw [hU, hst, hd]; simp [unitsBytes]
    · rw [hU, hst, hd]; simp [unitsLen]
    · intro h; exact absurd hst h
  · obtain ⟨e_d, e_le, e_pos, e_lg, e_v, e_tw, e_sl, e_word, e_byte, e_pc, e_pcle⟩ :=
      stepW_unit g lg (unitW r 1) (unitW r lg) hlg s hi hd
    generalize hn : (nextUnit s).1 = n at *
    generalize hv : (nextUnit s).2 = v at *
    have hsl : s.sl = unitW r n := by
      rw [e_sl]
      split
      · rename_i e; rw [e]
      · rename_i e
        by_cases hword : lg ≤ s.d.length
        · exact absurd (e_word hword) e
        · rw [e_byte (by omega)]
    have hvlt : v < 256 ^ n := by
      have := leVal_lt (s.d.take n)
      rw [List.length_take, Nat.min_eq_left e_le] at this
      rw [e_v]; exact this
    have hcell : cellW r false s = sysString r (unitW r n) v ++ [' '] := by
      simp [cellW, hd, e_tw, hsl]
    have hU : parseUnits r r (cellW r false s ++ text ++ tail) 0 0
        = (n, v) :: parseUnits r r (text ++ tail) 0 0 := by
      rw [hcell]
      simp only [List.append_assoc, List.singleton_append]
      exact parseUnits_unit r hr2 hr36 hw n v e_lg hvlt _
    -- the bytes of this unit in the code file
    have hbytes : unitBytes tw n v ++ (fileB tw lg (s.d.drop n)).map (fun b => b.toNat)
        = (fileB tw lg s.d).map (fun b => b.toNat) := by
      have hu := unitBytes_leVal tw (s.d.take n)
      rw [List.length_take, Nat.min_eq_left e_le, ← e_v] at hu
      rw [hu]
      by_cases hword : lg ≤ s.d.length
      · have : n = lg := e_word hword
        subst this
        rw [fileB_unit tw n hlg s.d hword]
        cases tw <;> simp
      · have hlt : s.d.length < lg := by omega
        have : n = 1 := e_byte hlt
        subst this
        have hlt' : (s.d.drop 1).length < lg := by simp only [List.length_drop]; omega
        rw [fileB_short tw lg s.d hlt, fileB_short tw lg _ hlt']
        have : (if tw then (s.d.take 1).reverse else s.d.take 1) = s.d.take 1 := by
          cases hs : s.d with
          | nil => simp
          | cons a t => cases tw <;> simp
        rw [this, ← List.map_append, List.take_append_drop]
    rw [e_d] at pb pl
    refine ⟨pi, ?_, ?_, ?_⟩
    · rw [hU]
      simp only [unitsBytes, List.append_assoc]
      rw [pb, hbytes]
    · rw [hU]
      simp only [unitsLen]
      simp only [List.length_drop] at pl
      omega
    · intro h
      obtain ⟨q1, q2⟩ := pp h
      rw [hU]
      simp only [unitsLen]
      constructor
      · rw [q1, e_pc]; omega
      · omega

theorem innerW_post (r : Nat) (hr2 : 2 ≤ r) (hr36 : r ≤ 36) (hw : wok r) (g lg : Nat) (hlg : LG lg) (tw : Bool)
    (tail : List Char) (ht : TailW r tail) :
    ∀ f sum s, Inv g lg (unitW r 1) (unitW r lg) s →
      Post r g lg (unitW r 1) (unitW r lg) tw s (innerW r (unitW r 1) g false f sum s).text
        (innerW r (unitW r 1) g false f sum s).st tail := by
  have h1 : lg = 1 → unitW r lg = unitW r 1 := by intro h; rw [h]
  have base : ∀ sum s, Inv g lg (unitW r 1) (unitW r lg) s →
      Post r g lg (unitW r 1) (unitW r lg) tw s (innerW r (unitW r 1) g false 0 sum s).text
        (innerW r (unitW r 1) g false 0 sum s).st tail := by
    intro sum s hi
    simp only [innerW]
    exact post_zero r g lg _ _ tw hw s tail hi ht
  intro f
  induction f with
  | zero => exact base
  | succ f ih =>
    intro sum s hi
    have hi' := stepW_inv g lg (unitW r 1) (unitW r lg) hlg h1 s hi
    simp only [innerW]
    split
    · exact post_step r hr2 hr36 hw g lg hlg tw s _ _ tail hi (ih _ _ hi')
    · have := post_step r hr2 hr36 hw g lg hlg tw s [] _ tail hi (by simpa [innerW] using base (sum + (s.sl + 1)) _ hi')
      simpa using this

theorem innerW_len_le (numR w8 g : Nat) (dp : Bool) :
    ∀ f sum s, (innerW numR w8 g dp f sum s).st.d.length ≤ s.d.length := by
  have hstep : ∀ s : StW, (stepW w8 g s).d.length ≤ s.d.length := by
    intro s
    simp only [stepW]
    split <;> simp [List.length_drop]
  intro f
  induction f with
  | zero => intro sum s; simp [innerW]
  | succ f ih =>
    intro sum s
    simp only [innerW]
    split
    · exact Nat.le_trans (ih _ _) (hstep s)
    · exact hstep s

/-- a line that starts with code left makes progress -/
theorem innerW_progress (numR w8 g : Nat) (dp : Bool) (f sum : Nat) (s : StW) (hcg : 1 ≤ s.cg) (hd : s.d ≠ []) :
    (innerW numR w8 g dp (f + 1) sum s).st.d.length < s.d.length := by
  have hpos : 1 ≤ s.d.length := by
    cases hs : s.d with
    | nil => exact absurd hs hd
    | cons a t => simp
  have hstep : (stepW w8 g s).d.length < s.d.length := by
    simp only [stepW]
    split <;> simp only [List.length_drop] <;> omega
  simp only [innerW]
  split
  · exact Nat.lt_of_le_of_lt (innerW_len_le numR w8 g dp f _ _) hstep
  · exact hstep

/-- the line never overflows the code field when its first cell fits -/
theorem innerW_sum (numR w8 g : Nat) (dp : Bool) :
    ∀ f sum s, sum + s.sl + 1 < LISTLINESPACE → (innerW numR w8 g dp f sum s).sum < LISTLINESPACE := by
  intro f
  induction f with
  | zero => intro sum s h; simp only [innerW]; omega
  | succ f ih =>
    intro sum s h
    simp only [innerW]
    split
    · rename_i hc
      exact ih _ _ (by omega)
    · simp only
      omega

/-! ## one line -/

theorem parseAddrField_rendered (r : Nat) (hr2 : 2 ≤ r) (hr36 : r ≤ 36) (k pc : Nat) (retr : Bool) (field : List Char) :
    parseAddrField r (padLeft k (sysString r 0 pc) ++ ' ' :: marker retr :: ' ' :: field)
      = some (pc, retr, field) := by
  have hd := sysString_allDig r (by omega) 0 pc
  have hne := sysString_ne_nil r 0 pc
  unfold parseAddrField
  rw [skipSp_padLeft r hr36 k _ _ hd hne]
  rw [splitAt1_append ' ' _ _ (AllDig.not_mem hd hr36 ' ' digitChar_ne_space)]
  simp only [parseNum_sysString r hr2 hr36 0 pc]
  cases retr <;> simp [marker]

theorem parseLineW_first (r : Nat) (hr2 : 2 ≤ r) (hr36 : r ≤ 36) (depth line pc : Nat) (retr : Bool) (field : List Char) :
    parseLineW r (firstPrefix depth line ++ addrField r pc retr ++ field)
      = some ⟨depth, some line, pc, retr, parseUnits r r field 0 0⟩ := by
  have hd := sysString_allDig 10 (by omega) 0 line
  have hne := sysString_ne_nil 10 0 line
  unfold parseLineW parseLineWGen firstPrefix
  simp only [List.append_assoc]
  rw [parsePrefix_rendered]
  simp only
  rw [show decString line = sysString 10 0 line from rfl]
  rw [skipSp_padLeft 10 (by omega) 5 _ _ hd hne]
  simp only [List.singleton_append]
  rw [splitAt1_append '/' _ _ (AllDig.not_mem hd (by omega) '/' digitChar_ne_slash)]
  simp only [parseNum_sysString 10 (by omega) (by omega) 0 line]
  rw [addrField_eq, parseAddrField_rendered r hr2 hr36]

theorem parseLineW_cont (r : Nat) (hr2 : 2 ≤ r) (hr36 : r ≤ 36) (pc : Nat) (retr : Bool) (field : List Char)
    (hf : AllDigSp r field) :
    parseLineW r (List.replicate 9 ' ' ++ addrField r pc retr ++ field)
      = some ⟨0, none, pc, retr, parseUnits r r field 0 0⟩ := by
  have hd := sysString_allDig r (by omega) 0 pc
  have hne := sysString_ne_nil r 0 pc
  have h9 : List.replicate 9 ' ' = ' ' :: ' ' :: ' ' :: List.replicate 6 ' ' := by simp [List.replicate]
  unfold parseLineW parseLineWGen
  rw [List.append_assoc, h9]
  simp only [List.cons_append, parsePrefix]
  rw [skipSp_replicate', addrField_eq, skipSp_padLeft r hr36 8 _ _ hd hne]
  have hnone : splitAt1 '/' (sysString r 0 pc ++ ' ' :: marker retr :: ' ' :: field) = none := by
    apply splitAt1_none
    intro c hc
    simp only [List.mem_append, List.mem_cons] at hc
    rcases hc with hc | rfl | rfl | rfl | hc
    · exact AllDig.not_mem hd hr36 '/' digitChar_ne_slash c hc
    · decide
    · cases retr <;> decide
    · decide
    · exact AllDigSp.not_mem hf hr36 '/' (by decide) digitChar_ne_slash c hc
  rw [hnone]
  simp only
  have := parseAddrField_rendered r hr2 hr36 0 pc retr field
  rw [padLeft_zero] at this
  rw [this]

/-! ## the outer loop -/

theorem inv_cg_pos (g lg w8 wl : Nat) (hlg : LG lg) (s : StW) (h : Inv g lg w8 wl s) : 1 ≤ s.cg := by
  rcases h.mode with ⟨h, _, _⟩ | ⟨h, _, _⟩
  · rcases hlg with rfl | rfl | rfl <;> omega
  · omega

theorem outerW_cont (r : Nat) (hr2 : 2 ≤ r) (hr36 : r ≤ 36) (hw : wok r) (g lg : Nat) (hlg : LG lg) (tw : Bool)
    (i : ListInW) (hnr : i.numRadix = r) (hdp : i.dontPrint = false) (hg : i.gran = g) (start : Nat) :
    ∀ f s sofar, Inv g lg (unitW r 1) (unitW r lg) s → s.d.length < f → s.d ≠ [] →
      start ≤ s.pc → s.pc * g = start * g + sofar →
      parseContsW (parseLineW r) g tw start sofar (outerW i (unitW r 1) f false s)
        = some ((fileB tw lg s.d).map (fun b => b.toNat)) := by
  intro f
  induction f with
  | zero => intro s sofar _ h; omega
  | succ f ih =>
    intro s sofar hi hlen hne hst hpc
    have hP := innerW_post r hr2 hr36 hw g lg hlg tw [] (tailW_nil r) LISTLINESPACE 0 s hi
    have hprog : (innerW r (unitW r 1) g false LISTLINESPACE 0 s).st.d.length < s.d.length := by
      rw [LISTLINESPACE_eq]
      exact innerW_progress r (unitW r 1) g false 19 0 s (inv_cg_pos g lg _ _ hlg s hi) hne
    have hsp := innerW_allDigSp r (unitW r 1) g (by omega) false LISTLINESPACE 0 s
    have hline := parseLineW_cont r hr2 hr36 s.pc i.retracted (innerW r (unitW r 1) g false LISTLINESPACE 0 s).text hsp
    simp only [outerW, hnr, hdp, hg, Bool.false_eq_true, if_false, List.append_nil, Bool.not_false, and_true]
    generalize hRdef : innerW r (unitW r 1) g false LISTLINESPACE 0 s = R at *
    obtain ⟨pi, pb, pl, pp⟩ := hP
    simp only [List.append_nil] at pb pl pp
    have hcond : start ≤ s.pc ∧ (s.pc - start) * g = sofar := by
      refine ⟨hst, ?_⟩
      rw [Nat.sub_mul]; omega
    by_cases hrn : R.st.d ≠ []
    · rw [if_pos hrn]
      obtain ⟨q1, q2⟩ := pp hrn
      simp only [parseContsW, hline, hcond, and_self, if_true]
      rw [ih R.st (sofar + unitsLen (parseUnits r r R.text 0 0)) pi (by omega) hrn (by omega) (by rw [q1, hpc]; omega)]
      simp only [pb]
    · rw [if_neg hrn]
      have hnil : R.st.d = [] := by
        by_cases hx : R.st.d = []
        · exact hx
        · exact absurd hx hrn
      rw [hnil, fileB_nil] at pb
      simp only [List.map_nil, List.append_nil] at pb
      simp only [parseContsW, hline, hcond, and_self, if_true, pb, List.append_nil]

theorem outerW_first (r : Nat) (hr2 : 2 ≤ r) (hr36 : r ≤ 36) (hw : wok r) (g lg : Nat) (hlg : LG lg) (tw : Bool)
    (i : ListInW) (hnr : i.numRadix = r) (hdp : i.dontPrint = false) (hg : i.gran = g)
    (s : StW) (hi : Inv g lg (unitW r 1) (unitW r lg) s)
    (hsrc : s.sl + 1 < LISTLINESPACE ∨ TailW r i.src) :
    parseListingW r g tw (outerW i (unitW r 1) (s.d.length + 1) true s)
      = some (s.pc, (fileB tw lg s.d).map (fun b => b.toNat)) := by
  simp only [outerW, hnr, hdp, hg, if_true, Bool.not_false, and_true]
  generalize hRdef : innerW r (unitW r 1) g false LISTLINESPACE 0 s = R
  have htail : TailW r (List.replicate (LISTLINESPACE - R.sum) ' ' ++ i.src) := by
    apply tailW_pad
    rcases hsrc with h | h
    · left
      have := innerW_sum r (unitW r 1) g false LISTLINESPACE 0 s (by omega)
      rw [hRdef] at this
      omega
    · right; exact h
  have hP := innerW_post r hr2 hr36 hw g lg hlg tw _ htail LISTLINESPACE 0 s hi
  rw [hRdef] at hP
  obtain ⟨pi, pb, pl, pp⟩ := hP
  have hline := parseLineW_first r hr2 hr36 i.incDepth i.currLine s.pc i.retracted
    (R.text ++ (List.replicate (LISTLINESPACE - R.sum) ' ' ++ i.src))
  simp only [List.append_assoc] at hline ⊢
  by_cases hrn : R.st.d ≠ []
  · rw [if_pos hrn]
    obtain ⟨q1, q2⟩ := pp hrn
    have hlt : R.st.d.length < s.d.length := by
      have hne : s.d ≠ [] := by
        intro h
        rw [h] at pl
        simp only [List.length_nil] at pl
        exact hrn (List.eq_nil_of_length_eq_zero (by omega))
      have := innerW_progress r (unitW r 1) g false 19 0 s (inv_cg_pos g lg _ _ hlg s hi) hne
      rw [← LISTLINESPACE_eq, hRdef] at this
      exact this
    simp only [parseListingW, parseListingWWith, hline, Option.isSome_some, if_true]
    rw [outerW_cont r hr2 hr36 hw g lg hlg tw i hnr hdp hg s.pc s.d.length R.st _ pi hlt hrn q2 q1]
    simp only [pb]
  · rw [if_neg hrn]
    have hnil : R.st.d = [] := by
      by_cases hx : R.st.d = []
      · exact hx
      · exact absurd hx hrn
    rw [hnil, fileB_nil] at pb
    simp only [List.map_nil, List.append_nil] at pb
    simp only [parseListingW, parseListingWWith, parseContsW, hline, Option.isSome_some, if_true, pb, List.append_nil]

/-- the start state of `MakeList` satisfies the invariant -/
theorem startW_inv (r : Nat) (hw : wok r) (g lg : Nat) (i : ListInW) (hwr : i.widthRadix = r)
    (hl : i.listGran = lg) (hadm : g = 1 ∨ (g = lg ∧ i.code.length % lg = 0)) :
    Inv g lg (unitW r 1) (unitW r lg) (startW i) ∧ (startW i).d = i.code ∧ (startW i).pc = i.listPC ∧
      ((startW i).sl = unitW r lg ∨ (startW i).sl + 1 < LISTLINESPACE) := by
  have h8 : systemListLen8 r = unitW r 1 := by
    obtain ⟨h8, _⟩ := hw
    simp [unitW, h8]
  have hroom : unitW r 1 + 1 < LISTLINESPACE := by
    obtain ⟨_, _, _, _, _, _, _, _, _, h, _⟩ := hw
    simpa [unitW] using h
  unfold startW
  rw [listView_eq, hwr, hl, sysLen_eq r lg hw, h8]
  split
  · rename_i hlt
    exact ⟨⟨Or.inr ⟨rfl, rfl, hlt⟩, hadm⟩, rfl, rfl, Or.inr hroom⟩
  · rename_i hge
    exact ⟨⟨Or.inl ⟨rfl, rfl, by simpa using hge⟩, hadm⟩, rfl, rfl, Or.inl rfl⟩

/-! ## `WriteBytes` leaves the line buffer as it found it and stores the file-order bytes -/

theorem swap2_swap2 : ∀ d : List UInt8, swap2 (swap2 d) = d
  | [] => rfl
  | [_] => rfl
  | a :: b :: t => by simp [swap2, swap2_swap2 t]

theorem swap4_swap4 : ∀ d : List UInt8, swap4 (swap4 d) = d
  | [] => rfl
  | [_] => rfl
  | [_, _] => rfl
  | [_, _, _] => rfl
  | a :: b :: c :: e :: t => by simp [swap4, swap4_swap4 t]

theorem swap2_length : ∀ d : List UInt8, (swap2 d).length = d.length
  | [] => rfl
  | [_] => rfl
  | a :: b :: t => by simp [swap2, swap2_length t]

theorem swap4_length : ∀ d : List UInt8, (swap4 d).length = d.length
  | [] => rfl
  | [_] => rfl
  | [_, _] => rfl
  | [_, _, _] => rfl
  | a :: b :: c :: e :: t => by simp [swap4, swap4_length t]

/-- `DreheCodes` twice is the identity (any `ActListGran`) -/
theorem turnU_turnU (lg : Nat) (d : List UInt8) : turnU lg (turnU lg d) = d := by
  unfold turnU
  split
  · exact swap2_swap2 d
  · split
    · exact swap4_swap4 d
    · rfl

theorem turnU_length (lg : Nat) (d : List UInt8) : (turnU lg d).length = d.length := by
  unfold turnU
  split
  · exact swap2_length d
  · split
    · exact swap4_length d
    · rfl

theorem fileB_length (tw : Bool) (lg : Nat) (d : List UInt8) : (fileB tw lg d).length = d.length := by
  unfold fileB
  cases tw <;> simp [turnU_length]

/-- the buffer after the first `DreheCodes` of `WriteBytes` -/
theorem writeBytes_c1 (tw : Bool) (lg : Nat) (code : List UInt8) :
    (if tw then Drehe.dreheCodes lg code.length code else code) = fileB tw lg code := by
  unfold fileB
  rw [dreheCodes_eq]

/-- … and after the second one -/
theorem writeBytes_c2 (tw : Bool) (lg : Nat) (code : List UInt8) :
    (if tw then Drehe.dreheCodes lg (fileB tw lg code).length (fileB tw lg code) else fileB tw lg code) = code := by
  cases tw
  · simp [fileB]
  · simp only [if_true]
    rw [dreheCodes_eq]
    simp [fileB, turnU_turnU]

/-- `WriteBytes` in closed form: the three ways of the bytes `fileB tw lg code` into buffer / file, line buffer unchanged -/
theorem writeBytesLine_eq (tw : Bool) (lg : Nat) (s : Store) (code : List UInt8) :
    writeBytesLine tw lg s code =
      (if code.length = 0 then s
       else if s.buf.length + code.length < codeBufferSize then { s with buf := s.buf ++ fileB tw lg code }
       else if code.length < codeBufferSize then ⟨s.disk ++ s.buf, fileB tw lg code⟩
       else ⟨s.disk ++ s.buf ++ fileB tw lg code, []⟩, code) := by
  unfold writeBytesLine
  by_cases h0 : code.length = 0
  · simp [h0]
  · simp only [h0, if_false]
    rw [writeBytes_c1, writeBytes_c2, fileB_length]
    simp only [flushStore]

end AslModel.Listing
