import AslModel.Lemmas.DataMotoDC
/-! Helper lemmas for `Props/C09.lean`: a slot of statements at consecutive addresses (`modelRun` against `specRun`),
composed from the whole-statement theorems. -/
namespace AslModel.DataLemmas
open AslModel.PFile AslModel.Data AslModel.DataModel

/-- what the transcription reports for a statement of which the specification says (pad bytes, what is laid down) -/
def imgRes (r : Nat × Out) : SRes := ⟨padOfD (r.1 == 1) r.2, Out.norm r.2, []⟩

/-- a statement on which transcription and specification agree (at address `pc`) -/
def StmtAgree (c : MCfg) (sc : SCfg) (pc : Nat) (st : Stmt) : Prop :=
  modelStmt c pc st = (specStmt sc pc st).map imgRes ∧
  ∀ r, specStmt sc pc st = some r → r.1 ≤ 1 ∧ (r.2 = .empty → r.1 = 0)

/-- **the slot** -/
theorem run_eq (c : MCfg) (sc : SCfg) (stmts : List Stmt) (h : ∀ pc, ∀ st ∈ stmts, StmtAgree c sc pc st) (pc : Nat) :
    modelRun c pc stmts = (specRun sc pc stmts).map fun r => (r.1, r.2, []) := by
  induction stmts generalizing pc with
  | nil => rfl
  | cons st rest ih =>
    have hst := h pc st (by simp)
    have hrest : ∀ pc, ∀ s ∈ rest, StmtAgree c sc pc s := fun pc s hs => h pc s (by simp [hs])
    rw [modelRun, specRun, hst.1]
    cases hs : specStmt sc pc st with
    | none => rfl
    | some r =>
      obtain ⟨pad, o⟩ := r
      have hb := hst.2 (pad, o) hs
      have hpad : pad = 0 ∨ pad = 1 := by have := hb.1; simp only at this; omega
      simp only [Option.map_some]
      cases o with
      | empty =>
        have := hb.2 rfl
        simp only at this
        subst this
        simp only [imgRes, padOfD, Out.norm]
        rw [ih hrest]
        generalize specRun sc _ rest = q
        cases q <;> simp
      | data bs =>
        rcases hpad with rfl | rfl <;> cases bs <;> simp only [imgRes, padOfD, Out.norm] <;>
          rw [ih hrest] <;> simp [cellsAt] <;> split <;> simp_all <;>
          (rename_i heq; obtain ⟨a, b, h1, rfl, rfl, rfl⟩ := heq; simp [h1])
      | space k =>
        rcases hpad with rfl | rfl <;> cases k <;> simp only [imgRes, padOfD, Out.norm] <;>
          rw [ih hrest] <;> simp [cellsAt] <;> split <;> simp_all <;>
          (rename_i heq; obtain ⟨a, b, h1, rfl, rfl, rfl⟩ := heq; simp [h1])

/-! ## the statements the slot theorem is stated for -/

theorem sizeOK_iff (n : Nat) (h : sizeOK n = true) : n = 1 ∨ n = 2 ∨ n = 4 ∨ n = 8 := by
  simpa [sizeOK, or_assoc] using h

theorem dc_arg_kind (n : Nat) (hn : n = 1 ∨ n = 2 ∨ n = 4 ∨ n = 8) (fk : Option FKind) (a : Arg) (hok : dcOK n a = true) (x : Out)
    (h : specArg ⟨n, true, fk⟩ true a = some x) : x ≠ .empty := by
  have base : ∀ y, dcOK1 n y = true → ∀ o, specArg ⟨n, true, fk⟩ true y = some o → o ≠ .empty := by
    intro y hy o ho
    cases y with
    | int v =>
      simp only [specArg] at ho
      cases hs : specInt ⟨n, true, fk⟩ true v with
      | none => simp [hs] at ho
      | some bs => simp [hs] at ho; subst ho; simp
    | str cs =>
      simp only [specArg, specChars_eq n hn fk true cs, Option.map_some, Option.some.injEq] at ho
      subst ho; simp
    | q => simp only [specArg, Option.some.injEq] at ho; subst ho; simp
    | flt _ => simp [dcOK1] at hy
    | rep _ _ => simp [dcOK1] at hy
    | dup _ _ => simp [dcOK1] at hy
  cases a with
  | rep k y =>
    simp only [dcOK, Bool.and_eq_true] at hok
    rw [specArg] at h
    cases hy : specArg ⟨n, true, fk⟩ true y with
    | none => simp [hy] at h
    | some o =>
      simp only [hy, Option.map_some, Option.some.injEq] at h
      have := base y hok.2 o hy
      subst h
      cases o <;> simp_all [Out.times]
  | int v => exact base (.int v) hok x h
  | str cs => exact base (.str cs) hok x h
  | q => exact base .q hok x h
  | flt _ => simp [dcOK, dcOK1] at hok
  | dup _ _ => simp [dcOK, dcOK1] at hok

theorem add_nonempty (x y o : Out) (hx : x ≠ .empty) (h : Out.add x y = some o) : o ≠ .empty := by
  cases x <;> cases y <;> simp_all [Out.add] <;> (subst h; simp)

theorem dc_nonempty (n : Nat) (hn : n = 1 ∨ n = 2 ∨ n = 4 ∨ n = 8) (fk : Option FKind) (as : Args) (hok : dcOKs n as = true)
    (hnn : nonNil as = true) (o : Out) (h : specArgs ⟨n, true, fk⟩ true as = some o) : o ≠ .empty := by
  cases as with
  | nil => simp [nonNil] at hnn
  | cons a rest =>
    simp only [dcOKs, Bool.and_eq_true] at hok
    simp only [specArgs] at h
    cases hx : specArg ⟨n, true, fk⟩ true a with
    | none => simp [hx] at h
    | some x =>
      cases hy : specArgs ⟨n, true, fk⟩ true rest with
      | none => simp [hx, hy] at h
      | some y =>
        simp only [hx, hy] at h
        exact add_nonempty x y o (dc_arg_kind n hn fk a hok.1 x hx) h

theorem pad_flag (padding : Bool) (pc n : Nat) :
    (padBefore padding pc n == 1) = (pc % 2 == 1 && padding && decide (n ≠ 1)) := by
  unfold padBefore
  cases padding <;> cases (pc % 2 == 1) <;> cases (decide (n ≠ 1)) <;> rfl

theorem ds_agree (c : MCfg) (sc : SCfg) (pc : Nat) (n : Int) (h : 0 ≤ n ∧ n < (2 : Int) ^ 32) : StmtAgree c sc pc (.ds n) := by
  have hl : largeInt n = n := by
    unfold largeInt; simp only [Int.reducePow] at h ⊢; omega
  have hr : rangeCheck n Generated.itInt32 = true := by
    have := rangeCheck_32 n
    simp only [intTypeOfBytes] at this
    rw [this]
    simp only [inRange, Int.reducePow, Nat.reduceSub, decide_eq_true_eq] at h ⊢
    omega
  have hneg : ¬ n < 0 := by omega
  refine ⟨?_, ?_⟩
  · simp only [modelStmt, decodeIntelDS, hl, hr, Bool.not_true, Bool.false_eq_true, if_false, hneg, specStmt, Option.map_some, imgRes]
    rcases Int.eq_ofNat_of_zero_le h.1 with ⟨k, rfl⟩
    cases k with
    | zero => simp [mkOut, padOfD, Out.norm]
    | succ k => simp [mkOut, padOfD, Out.norm]
  · intro r hr'
    simp only [specStmt, hneg, if_false, Option.some.injEq] at hr'
    subst hr'
    simp

theorem dfs_agree (c : MCfg) (sc : SCfg) (pc : Nat) (n : Int) (h : 0 ≤ n ∧ n ≤ 65535) : StmtAgree c sc pc (.dfs n) := by
  have hl : largeInt n = n := by
    unfold largeInt; simp only [Int.reducePow]; omega
  have hr : rangeCheck n Generated.itInt16 = true := by
    have := rangeCheck_16 n
    simp only [intTypeOfBytes] at this
    rw [this]
    simp only [inRange, Int.reducePow, Nat.reduceSub, decide_eq_true_eq]
    omega
  have hneg : ¬ n < 0 := by omega
  have hm : n % 65536 = n := by omega
  refine ⟨?_, ?_⟩
  · simp only [modelStmt, decodeMotoDFS, hl, hr, Bool.not_true, Bool.false_eq_true, if_false, hm, hneg, specStmt, Option.map_some, imgRes]
    rcases Int.eq_ofNat_of_zero_le h.1 with ⟨k, rfl⟩
    cases k with
    | zero => simp [mkOut, padOfD, Out.norm]
    | succ k => simp [mkOut, padOfD, Out.norm]
  · intro r hr'
    simp only [specStmt, hneg, if_false, Option.some.injEq] at hr'
    subst hr'
    simp
theorem stmt_agree (c : MCfg) (sc : SCfg) (pc : Nat) (st : Stmt) (h : slotStmtOK c sc st = true) : StmtAgree c sc pc st := by
  cases st with
  | dc e as =>
    obtain ⟨n, io, fk⟩ := e
    simp only [slotStmtOK, Bool.and_eq_true, Bool.or_eq_true, beq_iff_eq, Bool.not_eq_true'] at h
    obtain ⟨⟨⟨⟨⟨⟨hio, hsz⟩, hargs⟩, hnn⟩, hbig⟩, hpad⟩, hc⟩ := h
    subst hio
    have hn := sizeOK_iff n hsz
    refine ⟨?_, ?_⟩
    · simp only [modelStmt, specStmt, hbig, hpad, dc_stmt c hc n hn fk pc as hargs, Option.map_map]
      congr 1
      funext o
      simp only [Function.comp, imgRes, pad_flag]
    · intro r hr
      simp only [specStmt, hbig] at hr
      cases hs : specArgs ⟨n, true, fk⟩ true as with
      | none => simp [hs] at hr
      | some o =>
        simp only [hs, Option.map_some, Option.some.injEq] at hr
        subst hr
        refine ⟨?_, fun he => absurd he (dc_nonempty n hn fk as hargs hnn o hs)⟩
        simp only [padBefore]
        split <;> omega
  | byt as =>
    simp only [slotStmtOK, Bool.and_eq_true, beq_iff_eq] at h
    obtain ⟨⟨hlg, hargs⟩, hbig⟩ := h
    refine ⟨?_, ?_⟩
    · simp only [modelStmt, specStmt, hbig, moto8_stmt c hlg false as hargs, Option.map_map]
      show Option.map _ (specArgs elemByte c.mturn as) = _
      congr 1
      funext o
      cases o <;> rfl
    · intro r hr
      simp only [specStmt] at hr
      cases hs : specArgs elemByte sc.big as with
      | none => simp [hs] at hr
      | some o => simp only [hs, Option.map_some, Option.some.injEq] at hr; subst hr; simp
  | adr as =>
    simp only [slotStmtOK, Bool.and_eq_true, beq_iff_eq] at h
    obtain ⟨⟨hlg, hargs⟩, hbig⟩ := h
    refine ⟨?_, ?_⟩
    · simp only [modelStmt, specStmt, hbig, moto8_stmt c hlg true as hargs, Option.map_map]
      show Option.map _ (specArgs elemWord c.mturn as) = _
      congr 1
      funext o
      cases o <;> rfl
    · intro r hr
      simp only [specStmt] at hr
      cases hs : specArgs elemWord sc.big as with
      | none => simp [hs] at hr
      | some o => simp only [hs, Option.map_some, Option.some.injEq] at hr; subst hr; simp
  | dx e as =>
    obtain ⟨n, io, fk⟩ := e
    simp only [slotStmtOK, Bool.and_eq_true, beq_iff_eq] at h
    obtain ⟨⟨⟨hio, hsz⟩, hargs⟩, hbig⟩ := h
    subst hio
    have hn := sizeOK_iff n hsz
    refine ⟨?_, ?_⟩
    · simp only [modelStmt, specStmt, hbig, intel_tree c n hn fk as hargs, Option.map_map]
      congr 1
      funext o
      cases o <;> rfl
    · intro r hr
      simp only [specStmt] at hr
      cases hs : specArgs ⟨n, true, fk⟩ sc.big as with
      | none => simp [hs] at hr
      | some o => simp only [hs, Option.map_some, Option.some.injEq] at hr; subst hr; simp
  | fcc as => simp [slotStmtOK] at h
  | dfs k =>
    simp only [slotStmtOK, decide_eq_true_eq] at h
    exact dfs_agree c sc pc k h
  | ds k =>
    simp only [slotStmtOK, decide_eq_true_eq] at h
    exact ds_agree c sc pc k h

/-- **the slot of statements** -/
theorem slot_run (c : MCfg) (sc : SCfg) (stmts : List Stmt) (h : ∀ st ∈ stmts, slotStmtOK c sc st = true) (pc : Nat) :
    modelRun c pc stmts = (specRun sc pc stmts).map fun r => (r.1, r.2, []) :=
  run_eq c sc stmts (fun pc st hst => stmt_agree c sc pc st (h st hst)) pc

end AslModel.DataLemmas
