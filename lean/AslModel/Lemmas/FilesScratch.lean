import AslModel.Lemmas.Files
/-!
Helper lemmas for C18 (widened inventory): lock-step simulation of two runs of the same file from different carries
when some variables are *scratch* – not reset on any path, but every instruction that reads them is preceded, since
the last target selection, by a statement that sets them.
-/
namespace AslModel.Files

/-- variables certainly set since the last target selection, after one more statement -/
def defStep (D : List Nat) : Op → List Nat
  | .cpu _ => []
  | .set v _ => v :: D
  | _ => D

/-- every instruction of `ops` reads only variables that are reset, or that were set since the last target selection
(`D` = the ones set so far) -/
def scratchOK (sp : SpecT) : List Nat → List Op → Prop
  | _, [] => True
  | D, op :: r =>
    (match op with
      | .probe v _ => Reset sp v ∨ v ∈ D
      | _ => True) ∧ scratchOK sp (defStep D op) r

/-- lock step, plus agreement on the variables set since the last target selection (for the current target) -/
structure SimS (sp : SpecT) (D : List Nat) (s1 s2 : St) : Prop where
  sim : Sim sp s1 s2
  defd : ∀ v ∈ D, (sp v).gen = s1.cur → s1.vals v = s2.vals v

theorem simS_step (sp : SpecT) (D : List Nat) (s1 s2 : St) (op : Op) (h : SimS sp D s1 s2)
    (hop : ∀ v bad, op = .probe v bad → Reset sp v ∨ v ∈ D) :
    SimS sp (defStep D op) (step sp s1 op) (step sp s2 op) := by
  obtain ⟨f1, cur, stk, er, ou⟩ := s1
  obtain ⟨f2, cur2, stk2, er2, ou2⟩ := s2
  obtain ⟨⟨hc, hs, he, ho, ha⟩, hd⟩ := h
  simp only at hc hs he ho ha hd
  subst hc hs he ho
  cases op with
  | cpu g =>
    refine ⟨⟨rfl, rfl, rfl, rfl, ?_⟩, ?_⟩
    · intro v hv
      simp only [step, switchToVals]
      rcases hv with h | ⟨h1, h2⟩
      · by_cases hg : (sp v).gen = g ∧ (sp v).perCpu = true
        · simp [hg]
        · simp [hg]; exact ha v (Or.inl h)
      · have h2' : (sp v).gen = g := h2
        simp [h1, h2']
    · intro v hv
      simp [defStep] at hv
  | set v x =>
    simp only [step]
    by_cases hg : (sp v).gen = cur
    · simp only [hg, if_true]
      refine ⟨⟨rfl, rfl, rfl, rfl, ?_⟩, ?_⟩
      · intro w hw
        simp only [upd]
        by_cases hwv : w = v
        · simp [hwv]
        · simp [hwv]; exact ha w hw
      · intro w hw hgw
        simp only [upd]
        by_cases hwv : w = v
        · simp [hwv]
        · simp only [hwv, if_false]
          simp only [defStep, List.mem_cons] at hw
          rcases hw with hw | hw
          · exact absurd hw hwv
          · exact hd w hw hgw
    · simp only [hg, if_false]
      refine ⟨⟨rfl, rfl, rfl, rfl, ha⟩, ?_⟩
      intro w hw hgw
      simp only [defStep, List.mem_cons] at hw
      rcases hw with hw | hw
      · subst hw; exact absurd hgw hg
      · exact hd w hw hgw
  | probe v bad =>
    simp only [step]
    by_cases hg : (sp v).gen = cur
    · simp only [hg, if_true]
      have hv : f1 v = f2 v := by
        rcases hop v bad rfl with h | h
        · rcases h with h | h
          · exact ha v (Or.inl h)
          · exact ha v (Or.inr ⟨h, hg⟩)
        · exact hd v h hg
      exact ⟨⟨rfl, rfl, by simp [hv], by simp [hv], ha⟩, hd⟩
    · simp only [hg, if_false]
      exact ⟨⟨rfl, rfl, rfl, rfl, ha⟩, hd⟩
  | emit b => exact ⟨⟨rfl, rfl, rfl, rfl, ha⟩, hd⟩
  | err => exact ⟨⟨rfl, rfl, rfl, rfl, ha⟩, hd⟩
  | push k => exact ⟨⟨rfl, rfl, rfl, rfl, ha⟩, hd⟩
  | pop k =>
    simp only [step]
    cases stk with
    | nil => exact ⟨⟨rfl, rfl, rfl, rfl, ha⟩, hd⟩
    | cons k' r =>
      by_cases hk : k' = k
      · simp only [hk, if_true]
        exact ⟨⟨rfl, rfl, rfl, rfl, ha⟩, hd⟩
      · simp only [hk, if_false]
        exact ⟨⟨rfl, rfl, rfl, rfl, ha⟩, hd⟩

theorem simS_run (sp : SpecT) (ops : List Op) (D : List Nat) (s1 s2 : St) (h : SimS sp D s1 s2)
    (hp : scratchOK sp D ops) : Sim sp (run sp s1 ops) (run sp s2 ops) := by
  induction ops generalizing D s1 s2 with
  | nil => exact h.sim
  | cons o r ih =>
    have hstep := simS_step sp D s1 s2 o h (by
      intro v bad hv
      subst hv
      exact hp.1)
    exact ih _ _ _ hstep hp.2

/-- the observable result of a pass does not depend on the carry it starts from -/
theorem runPass_result_scratch (sp : SpecT) (dcpu : Nat) (c1 c2 : Carry) (ops : List Op)
    (hp : scratchOK sp [] ops) :
    resultOf (runPass sp dcpu c1 ops) = resultOf (runPass sp dcpu c2 ops) ∧
    exitErrs (runPass sp dcpu c1 ops) = exitErrs (runPass sp dcpu c2 ops) := by
  have h0 : SimS sp [] (initPass sp dcpu c1) (initPass sp dcpu c2) :=
    ⟨sim_initPass sp dcpu c1 c2, by intro v hv; simp at hv⟩
  have h := simS_run sp ops [] _ _ h0 hp
  unfold resultOf exitErrs runPass
  rw [h.errs, h.stack, h.out]
  exact ⟨rfl, rfl⟩

theorem passLoop_result_scratch (sp : SpecT) (dcpu : Nat) (n : Nat) (c1 c2 : Carry) (ops : List Op)
    (hp : scratchOK sp [] ops) :
    (passLoop sp dcpu n c1 ops).1 = (passLoop sp dcpu n c2 ops).1 := by
  induction n generalizing c1 c2 with
  | zero => exact (runPass_result_scratch sp dcpu c1 c2 ops hp).1
  | succ n ih =>
    have h := runPass_result_scratch sp dcpu c1 c2 ops hp
    simp only [passLoop]
    rw [h.2]
    by_cases he : exitErrs (runPass sp dcpu c2 ops) = 0
    · simp only [he, if_true]; exact ih _ _
    · simp only [he, if_false]; exact h.1

/-- a program whose probes all read reset variables is `scratchOK` from any set of defined variables -/
theorem scratchOK_of_reset (sp : SpecT) (ops : List Op) (D : List Nat) (hp : ∀ v ∈ probed ops, Reset sp v) :
    scratchOK sp D ops := by
  induction ops generalizing D with
  | nil => trivial
  | cons o r ih =>
    refine ⟨?_, ih _ ?_⟩
    · cases o with
      | probe v bad => exact Or.inl (hp v (by simp [probed]))
      | _ => trivial
    · intro v hv
      apply hp
      cases o <;> simp_all [probed]

end AslModel.Files
