import AslModel.Lemmas.IsaAvrBase
/-! C14 / AVR: table check (`Good`) of a group of `InstTable` entries, decided over the complete field domains.
Split over several modules so that they are checked in parallel. -/
namespace AslModel.Isa.IAvr
open AslModel.Spec.IAvr
set_option maxRecDepth 100000

theorem good_T9_0 : goodAll [.IN, .OUT] = true := by decide +kernel

end AslModel.Isa.IAvr
