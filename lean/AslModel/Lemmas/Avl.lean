import AslModel.Model.Avl
import AslModel.Spec.SortedSet
/-! Lemmas about Model/Avl.lean (trees.c EnterTree) for Props/C03_Tree.lean: sorted-set insertion on appended lists, the in-order walk of
every rotation, the AVL invariant `Bal` and the post-condition `Post` of one call, proved for both re-balancing switches. -/
set_option linter.unusedSimpArgs false
namespace AslModel.Avl
open Tree AslModel.Spec.SortedSet

theorem ins_append_lt (k x : Nat) (L R : List Nat) (h : k < x) : ins k (L ++ x :: R) = ins k L ++ x :: R := by
  induction L with
  | nil => simp [ins, h]
  | cons y L ih =>
    simp only [List.cons_append, ins]
    split
    · rfl
    · split
      · rfl
      · simp [ih]

theorem ins_append_gt (k x : Nat) (L R : List Nat) (hL : ∀ y ∈ L, y < k) (h : x < k) : ins k (L ++ x :: R) = L ++ x :: ins k R := by
  induction L with
  | nil =>
    have h1 : ¬ k < x := by omega
    have h2 : ¬ k = x := by omega
    simp [ins, h1, h2]
  | cons y L ih =>
    have hy : y < k := hL y (by simp)
    have h1 : ¬ k < y := by omega
    have h2 : ¬ k = y := by omega
    simp only [List.cons_append, ins, h1, h2, if_false]
    rw [ih (fun z hz => hL z (by simp [hz]))]

theorem ins_append_eq (x : Nat) (L R : List Nat) (hL : ∀ y ∈ L, y < x) : ins x (L ++ x :: R) = L ++ x :: R := by
  induction L with
  | nil => simp [ins]
  | cons y L ih =>
    have hy : y < x := hL y (by simp)
    have h1 : ¬ x < y := by omega
    have h2 : ¬ x = y := by omega
    simp only [List.cons_append, ins, h1, h2, if_false]
    rw [ih (fun z hz => hL z (by simp [hz]))]

theorem afterRight_toList {l : Tree} {x : Nat} {b : Int} {r' t' : Tree} {g : Bool}
    (h : afterRight l x b r' = some (t', g)) : toList t' = toList l ++ x :: toList r' := by
  unfold afterRight at h
  repeat' split at h
  all_goals (cases h)
  all_goals simp [toList]

theorem afterLeft_toList {l' : Tree} {x : Nat} {b : Int} {r t' : Tree} {g : Bool}
    (h : afterLeft l' x b r = some (t', g)) : toList t' = toList l' ++ x :: toList r := by
  unfold afterLeft at h
  repeat' split at h
  all_goals (cases h)
  all_goals simp [toList]

theorem asc_node {l r : Tree} {x : Nat} (h : Ascending (toList l ++ x :: toList r)) :
    Ascending (toList l) ∧ Ascending (toList r) ∧ (∀ y ∈ toList l, y < x) ∧ (∀ y ∈ toList r, x < y) := by
  unfold Ascending at *
  rw [List.pairwise_append] at h
  obtain ⟨h1, h2, h3⟩ := h
  rw [List.pairwise_cons] at h2
  exact ⟨h1, h2.2, fun y hy => h3 y hy x (by simp), h2.1⟩

/-- one insertion, with or without -A: the in-order walk changes as the SPEC's sorted-set insertion -/
theorem enter_toList (bt : Bool) (k : Nat) : ∀ (t t' : Tree) (g : Bool), Ascending (toList t) → enter bt t k = some (t', g) →
    toList t' = ins k (toList t) := by
  intro t
  induction t with
  | nil =>
    intro t' g _ h
    simp only [enter, Option.some.injEq, Prod.mk.injEq] at h
    obtain ⟨h1, _⟩ := h
    subst h1
    simp [toList, ins]
  | node l x b r ihl ihr =>
    intro t' g hasc h
    obtain ⟨hal, har, hl, hr⟩ := asc_node (by simpa [toList] using hasc)
    simp only [toList]
    unfold enter at h
    split at h
    · -- right
      rename_i hxk
      split at h
      · cases h
      · rename_i r' grown heq
        have hr' := ihr r' grown har heq
        rw [ins_append_gt k x _ _ (fun y hy => by have := hl y hy; omega) hxk, ← hr']
        split at h
        · exact afterRight_toList h
        · cases h; simp [toList]
    · split at h
      · rename_i hnx hkx
        split at h
        · cases h
        · rename_i l' grown heq
          have hl' := ihl l' grown hal heq
          rw [ins_append_lt k x _ _ hkx, ← hl']
          split at h
          · exact afterLeft_toList h
          · cases h; simp [toList]
      · rename_i hnx hnk
        have : k = x := by omega
        subst this
        cases h
        rw [ins_append_eq k _ _ hl]
        simp [toList]

theorem mem_ins (k : Nat) (L : List Nat) : ∀ y ∈ ins k L, y = k ∨ y ∈ L := by
  induction L with
  | nil => intro y hy; simp [ins] at hy; exact Or.inl hy
  | cons x L ih =>
    intro y hy
    simp only [ins] at hy
    split at hy
    · simp at hy; rcases hy with h | h | h <;> simp [h]
    · split at hy
      · exact Or.inr hy
      · simp at hy
        rcases hy with h | h
        · simp [h]
        · rcases ih y h with h' | h' <;> simp [h']

theorem ins_asc (k : Nat) (L : List Nat) (h : Ascending L) : Ascending (ins k L) := by
  unfold Ascending at *
  induction L with
  | nil => simp [ins]
  | cons x L ih =>
    rw [List.pairwise_cons] at h
    simp only [ins]
    split
    · rename_i hk
      rw [List.pairwise_cons, List.pairwise_cons]
      refine ⟨?_, h.1, h.2⟩
      intro y hy
      simp at hy
      rcases hy with hy | hy
      · omega
      · have := h.1 y hy; omega
    · split
      · rw [List.pairwise_cons]; exact h
      · rename_i h1 h2
        rw [List.pairwise_cons]
        refine ⟨?_, ih h.2⟩
        intro y hy
        rcases mem_ins k L y hy with hy | hy
        · omega
        · exact h.1 y hy

/-- any history of definitions that returns, with or without -A: the walk is the SPEC's sorted set (started from any ordered tree) -/
theorem enterAll_toList (bt : Bool) : ∀ (ks : List Nat) (t t' : Tree), Ascending (toList t) → enterAll bt t ks = some t' →
    toList t' = ks.foldl (fun acc k => ins k acc) (toList t) ∧ Ascending (toList t') := by
  intro ks
  induction ks with
  | nil => intro t t' ha h; simp [enterAll] at h; subst h; exact ⟨rfl, ha⟩
  | cons k ks ih =>
    intro t t' ha h
    unfold enterAll at h
    split at h
    · cases h
    · rename_i t1 g heq
      have h1 := enter_toList bt k t t1 g ha heq
      have := ih t1 t' (by rw [h1]; exact ins_asc k _ ha) h
      rw [h1] at this
      simpa [List.foldl] using this

/-- from the empty tree: the listing order is the sorted set of the defined keys -/
theorem enterAll_sortedSet (bt : Bool) (ks : List Nat) (t' : Tree) (h : enterAll bt nil ks = some t') :
    toList t' = sortedSet ks ∧ Ascending (toList t') := by
  have := enterAll_toList bt ks nil t' (by simp [toList, Ascending]) h
  simpa [sortedSet, toList] using this

/-- the AVL invariant: every stored balance factor is the height difference right - left and lies in -1..1 -/
def Bal : Tree → Prop
  | nil => True
  | node l _ b r => Bal l ∧ Bal r ∧ b = (height r : Int) - (height l : Int) ∧ -1 ≤ b ∧ b ≤ 1

/-- what one call of `enter true` promises about its result (`h0` = height before) -/
def Post (h0 : Nat) (t' : Tree) (g : Bool) : Prop :=
  Bal t' ∧ height t' = h0 + (if g then 1 else 0) ∧ (g = true → 1 ≤ h0 → rootBal t' ≠ 0)

theorem afterRight_post {l r r' : Tree} {x : Nat} {b : Int}
    (hl : Bal l) (hb : b = (height r : Int) - (height l : Int)) (hb1 : -1 ≤ b) (hb2 : b ≤ 1)
    (hr' : Bal r') (hh : height r' = height r + 1) (hnz : 1 ≤ height r → rootBal r' ≠ 0) :
    ∃ t' g, afterRight l x b r' = some (t', g) ∧ Post (max (height l) (height r) + 1) t' g := by
  have hcases : b = -1 ∨ b = 0 ∨ b = 1 := by omega
  rcases hcases with h | h | h
  · subst h
    refine ⟨node l x 0 r', false, by simp [afterRight], ?_⟩
    refine ⟨⟨hl, hr', ?_, by omega, by omega⟩, ?_, by simp⟩
    · omega
    · simp only [height, Bool.false_eq_true, if_false, if_true]; omega
  · subst h
    refine ⟨node l x 1 r', true, by simp [afterRight], ?_⟩
    refine ⟨⟨hl, hr', ?_, by omega, by omega⟩, ?_, by simp [rootBal]⟩
    · omega
    · simp only [height, Bool.false_eq_true, if_false, if_true]; omega
  · subst h
    cases r' with
    | nil => simp [height] at hh
    | node p1l p1k p1b p1r =>
      obtain ⟨hp1l, hp1r, hp1b, hp1b1, hp1b2⟩ := hr'
      simp only [height] at hh
      have hnz' : p1b ≠ 0 := by
        have := hnz (by omega)
        simpa [rootBal] using this
      have hc : p1b = 1 ∨ p1b = -1 := by omega
      rcases hc with h1 | h1
      · subst h1
        refine ⟨node (node l x 0 p1l) p1k 0 p1r, false, by simp [afterRight], ?_⟩
        refine ⟨⟨⟨hl, hp1l, ?_, by omega, by omega⟩, hp1r, ?_, by omega, by omega⟩, ?_, by simp⟩
        · omega
        · simp only [height, Bool.false_eq_true, if_false, if_true]; omega
        · simp only [height, Bool.false_eq_true, if_false, if_true]; omega
      · subst h1
        cases p1l with
        | nil => simp [height] at hp1b <;> omega
        | node p2l p2k p2b p2r =>
          obtain ⟨hp2l, hp2r, hp2b, hp2b1, hp2b2⟩ := hp1l
          simp only [height] at hp1b hh
          refine ⟨node (node l x (if p2b = 1 then -1 else 0) p2l) p2k 0 (node p2r p1k (if p2b = -1 then 1 else 0) p1r), false,
            by simp [afterRight], ?_⟩
          have hc2 : p2b = -1 ∨ p2b = 0 ∨ p2b = 1 := by omega
          refine ⟨⟨⟨hl, hp2l, ?_, ?_, ?_⟩, ⟨hp2r, hp1r, ?_, ?_, ?_⟩, ?_, by omega, by omega⟩, ?_, by simp⟩
          all_goals ((try simp only [height, Bool.false_eq_true, if_false]); rcases hc2 with h2 | h2 | h2 <;> subst h2 <;> (try simp) <;> omega)

theorem afterLeft_post {l l' r : Tree} {x : Nat} {b : Int}
    (hr : Bal r) (hb : b = (height r : Int) - (height l : Int)) (hb1 : -1 ≤ b) (hb2 : b ≤ 1)
    (hl' : Bal l') (hh : height l' = height l + 1) (hnz : 1 ≤ height l → rootBal l' ≠ 0) :
    ∃ t' g, afterLeft l' x b r = some (t', g) ∧ Post (max (height l) (height r) + 1) t' g := by
  have hcases : b = 1 ∨ b = 0 ∨ b = -1 := by omega
  rcases hcases with h | h | h
  · subst h
    refine ⟨node l' x 0 r, false, by simp [afterLeft], ?_⟩
    refine ⟨⟨hl', hr, ?_, by omega, by omega⟩, ?_, by simp⟩
    · omega
    · simp only [height, Bool.false_eq_true, if_false, if_true]; omega
  · subst h
    refine ⟨node l' x (-1) r, true, by simp [afterLeft], ?_⟩
    refine ⟨⟨hl', hr, ?_, by omega, by omega⟩, ?_, by simp [rootBal]⟩
    · omega
    · simp only [height, Bool.false_eq_true, if_false, if_true]; omega
  · subst h
    cases l' with
    | nil => simp [height] at hh
    | node p1l p1k p1b p1r =>
      obtain ⟨hp1l, hp1r, hp1b, hp1b1, hp1b2⟩ := hl'
      simp only [height] at hh
      have hnz' : p1b ≠ 0 := by
        have := hnz (by omega)
        simpa [rootBal] using this
      have hc : p1b = -1 ∨ p1b = 1 := by omega
      rcases hc with h1 | h1
      · subst h1
        refine ⟨node p1l p1k 0 (node p1r x 0 r), false, by simp [afterLeft], ?_⟩
        refine ⟨⟨hp1l, ⟨hp1r, hr, ?_, by omega, by omega⟩, ?_, by omega, by omega⟩, ?_, by simp⟩
        · omega
        · simp only [height, Bool.false_eq_true, if_false, if_true]; omega
        · simp only [height, Bool.false_eq_true, if_false, if_true]; omega
      · subst h1
        cases p1r with
        | nil => simp [height] at hp1b <;> omega
        | node p2l p2k p2b p2r =>
          obtain ⟨hp2l, hp2r, hp2b, hp2b1, hp2b2⟩ := hp1r
          simp only [height] at hp1b hh
          refine ⟨node (node p1l p1k (if p2b = 1 then -1 else 0) p2l) p2k 0 (node p2r x (if p2b = -1 then 1 else 0) r), false,
            by simp [afterLeft], ?_⟩
          have hc2 : p2b = -1 ∨ p2b = 0 ∨ p2b = 1 := by omega
          refine ⟨⟨⟨hp1l, hp2l, ?_, ?_, ?_⟩, ⟨hp2r, hr, ?_, ?_, ?_⟩, ?_, by omega, by omega⟩, ?_, by simp⟩
          all_goals ((try simp only [height, Bool.false_eq_true, if_false]); rcases hc2 with h2 | h2 | h2 <;> subst h2 <;> (try simp) <;> omega)

/-- one insertion under -A into a tree that satisfies the AVL invariant: it returns (no NULL dereference), the invariant holds again,
and `Result` says exactly whether the height grew -/
theorem enter_bal (k : Nat) : ∀ t : Tree, Bal t → ∃ t' g, enter true t k = some (t', g) ∧ Post (height t) t' g := by
  intro t
  induction t with
  | nil =>
    intro _
    exact ⟨node nil k 0 nil, true, by simp [enter], ⟨⟨trivial, trivial, by simp [height], by omega, by omega⟩, by simp [height], by simp [height]⟩⟩
  | node l x b r ihl ihr =>
    intro hb
    obtain ⟨hl, hr, hbe, hb1, hb2⟩ := hb
    unfold enter
    split
    · obtain ⟨r', g, he, hpb, hph, hpn⟩ := ihr hr
      rw [he]
      cases g with
      | true =>
        simp only [Bool.and_self, if_true]
        simp only [if_true] at hph
        simpa [height] using afterRight_post (x := x) hl hbe hb1 hb2 hpb hph (fun h => hpn rfl h)
      | false =>
        simp only [Bool.and_false, Bool.false_eq_true, if_false] at hph ⊢
        refine ⟨_, _, rfl, ⟨hl, hpb, ?_, hb1, hb2⟩, ?_, by simp⟩
        · omega
        · simp only [height, Bool.false_eq_true, if_false]; omega
    · split
      · obtain ⟨l', g, he, hpb, hph, hpn⟩ := ihl hl
        rw [he]
        cases g with
        | true =>
          simp only [Bool.and_self, if_true]
          simp only [if_true] at hph
          simpa [height] using afterLeft_post (x := x) hr hbe hb1 hb2 hpb hph (fun h => hpn rfl h)
        | false =>
          simp only [Bool.and_false, Bool.false_eq_true, if_false] at hph ⊢
          refine ⟨_, _, rfl, ⟨hpb, hr, ?_, hb1, hb2⟩, ?_, by simp⟩
          · omega
          · simp only [height, Bool.false_eq_true, if_false]; omega
      · exact ⟨_, _, rfl, ⟨hl, hr, hbe, hb1, hb2⟩, by simp, by simp⟩

end AslModel.Avl
