import AslModel.Model.CmdArg
/-! Lemmas: cmdarg.c model refines the parameter-list spec. -/
namespace AslModel.CmdArg
open AslModel.Options

variable {σ : Type}

/-! ### table search -/

theorem search_lt_iff (p : CMDRec σ → Bool) (rs : List (CMDRec σ)) :
    search p rs < rs.length ↔ (rs.find? p).isSome = true := by
  induction rs with
  | nil => simp [search]
  | cons r rs ih =>
    by_cases h : p r = true
    · simp [search, h]
    · simp [search, h, List.find?, ih]

theorem search_get (p : CMDRec σ → Bool) (rs : List (CMDRec σ)) (h : search p rs < rs.length) :
    rs[search p rs]? = rs.find? p := by
  induction rs with
  | nil => simp [search] at h
  | cons r rs ih =>
    by_cases hp : p r = true
    · simp [search, hp]
    · have h' : search p rs < rs.length := by simpa [search, hp] using h
      simp [search, hp, List.find?, ih h']

theorem search_ge_none (p : CMDRec σ → Bool) (rs : List (CMDRec σ)) (h : ¬ search p rs < rs.length) :
    rs.find? p = none := by
  cases hf : rs.find? p with
  | none => rfl
  | some x => exact absurd ((search_lt_iff p rs).mpr (by simp [hf])) h

theorem letterPred_eq (c : Char) (r : CMDRec σ) :
    (r.name.length == 1 && r.name.head? == some c) = (r.name == [c]) := by
  cases hn : r.name with
  | nil => simp
  | cons x xs =>
    cases xs with
    | nil => simp
    | cons y ys => simp

/-! ### single-letter loop -/

theorem letterLoop_err (recs : List (CMDRec σ)) (neg : Bool) (a : Tok) (cs : List Char) (u : σ) :
    letterLoop recs neg a cs .err u = (.err, u) := by
  induction cs with
  | nil => rfl
  | cons c cs ih => simp [letterLoop, ih]

theorem letters_err (recs : List (CMDRec σ)) (neg : Bool) (a : Tok) (cs : List Char) (u : σ) :
    letters recs neg a cs .err u = (.err, u) := by
  cases cs <;> simp [letters]

theorem letterLoop_eq (recs : List (CMDRec σ)) (neg : Bool) (a : Tok) (cs : List Char) (acc : PRes) (u : σ) :
    letterLoop recs neg a cs acc u = letters recs neg a cs acc u := by
  induction cs generalizing acc u with
  | nil => rfl
  | cons c cs ih =>
    by_cases hacc : acc = .err
    · subst hacc; simp [letterLoop_err, letters]
    · have hpred : (fun r : CMDRec σ => r.name.length == 1 && r.name.head? == some c) = (fun r => r.name == [c]) := by
        funext r; exact letterPred_eq c r
      simp only [letterLoop, letters, hacc, ne_eq, not_false_eq_true, if_true, if_false, findLetter, hpred]
      by_cases hs : search (fun r : CMDRec σ => r.name == [c]) recs < recs.length
      · have hg := search_get _ recs hs
        have hge : ¬ (search (fun r : CMDRec σ => r.name == [c]) recs ≥ recs.length) := by omega
        simp only [hge, if_false, hg]
        cases hf : recs.find? (fun r : CMDRec σ => r.name == [c]) with
        | none =>
          have := (search_lt_iff _ recs).mp hs
          simp [hf] at this
        | some r =>
          simp only []
          rcases hr : r.act neg a u with ⟨res, u'⟩
          cases res <;> simp [ih, letters_err]
      · have hn := search_ge_none _ recs hs
        have hge : search (fun r : CMDRec σ => r.name == [c]) recs ≥ recs.length := by omega
        simp [hge, hn, letterLoop_err]

/-! ### one parameter -/

theorem clearNext_eq (next : Tok) : clearNext next = offered next := by
  cases next with
  | nil => simp [clearNext, offered, switchLike]
  | cons c r => simp [clearNext, offered, switchLike]

theorem conv_drop (c : Char) (body : Tok) :
    (convCase (c :: body)).drop (startIdx (c :: body)) = caseFold body := by
  cases body with
  | nil => simp [convCase, startIdx, caseFold]
  | cons b bs =>
    by_cases hb1 : b = '#'
    · subst hb1; simp [convCase, startIdx, caseFold]
    · by_cases hb2 : b = '~'
      · subst hb2; simp [convCase, startIdx, caseFold]
      · simp [convCase, startIdx, caseFold, hb1, hb2]

theorem switchBranch_eq (recs : List (CMDRec σ)) (c : Char) (body next : Tok) (u : σ) :
    switchBranch recs (c :: body) next u = switchParam recs (c == '+') body next u := by
  have hneg : ((c :: body).head? == some '+') = (c == '+') := by simp
  unfold switchBranch switchParam
  simp only [hneg, conv_drop, findWord]
  by_cases hs : search (fun r : CMDRec σ => decide (r.name.length > 1) && r.name == (caseFold body).map Char.toUpper) recs < recs.length
  · have hg := search_get _ recs hs
    simp only [hs, if_true, hg]
    cases hf : recs.find? (fun r : CMDRec σ => decide (r.name.length > 1) && r.name == (caseFold body).map Char.toUpper) with
    | none =>
      have := (search_lt_iff _ recs).mp hs
      simp [hf] at this
    | some r => rfl
  · have hn := search_ge_none _ recs hs
    simp only [hs, if_false, hn, letterLoop_eq]

theorem processParam0_eq (recs : List (CMDRec σ)) (t next : Tok) (st : St σ) (hk : isKeyRef t = false) :
    processParam0 recs t next st =
      ((param recs t next st.user).1, { st with user := (param recs t next st.user).2 }) := by
  cases t with
  | nil => simp [processParam0, param]
  | cons c body =>
    have hc : c ≠ '@' := by simpa [isKeyRef] using hk
    by_cases h1 : c = '-'
    · subst h1
      simp [processParam0, param, clearNext_eq, switchBranch_eq]
    · by_cases h2 : c = '+'
      · subst h2
        simp [processParam0, param, clearNext_eq, switchBranch_eq]
      · simp [processParam0, param, hc, h1, h2]

theorem processParam0_key (recs : List (CMDRec σ)) (t next : Tok) (st : St σ) (hk : isKeyRef t = true) :
    processParam0 recs t next st = (.err, { st with noKeyMsgs := st.noKeyMsgs + 1 }) := by
  cases t with
  | nil => simp [isKeyRef] at hk
  | cons c body =>
    have hc : c = '@' := by simpa [isKeyRef] using hk
    subst hc
    simp [processParam0]

/-! ### the two loops -/

theorem envLoop_refines (recs : List (CMDRec σ)) : ∀ (n : Nat) (ts : List Tok) (st : St σ), ts.length ≤ n →
    (envLoop recs ts st).view = lineParams recs ts st.view ∧ (envLoop recs ts st).ub = st.ub := by
  intro n
  induction n with
  | zero =>
    intro ts st h
    have : ts = [] := List.length_eq_zero_iff.mp (by omega)
    subst this; simp [envLoop, lineParams]
  | succ n ih =>
    intro ts st h
    cases ts with
    | nil => simp [envLoop, lineParams]
    | cons t rest =>
      have hr : rest.length ≤ n := by simpa using h
      by_cases hk : isKeyRef t = true
      · simp only [envLoop, lineParams, processParam0_key recs t _ st hk, hk, if_true]
        have := ih rest { st with noKeyMsgs := st.noKeyMsgs + 1, errs := st.errs ++ [.invalid true t] } hr
        simpa [St.view] using this
      · have hk' : isKeyRef t = false := by simpa using hk
        simp only [envLoop, lineParams, processParam0_eq recs t _ st hk', hk']
        have hu : st.view.user = st.user := rfl
        rw [hu]
        rcases hp : param recs t (rest.headD []) st.user with ⟨r, u⟩
        cases r with
        | ok => simpa [St.view] using ih rest { st with user := u } hr
        | err => simpa [St.view] using ih rest { st with user := u, errs := st.errs ++ [.invalid true t] } hr
        | file => simpa [St.view] using ih rest { st with user := u, files := st.files ++ [t] } hr
        | arg =>
          cases rest with
          | nil => simp [St.view]
          | cons t2 rest' =>
            have hr' : rest'.length ≤ n := by simp at hr; omega
            simpa [St.view] using ih rest' { st with user := u } hr'

theorem argvLoop_refines (recs : List (CMDRec σ)) (fs : Tok → Option (List Tok))
    (keys : Tok → Option (List (List Tok)))
    (hfs : ∀ name (st : St σ), (processFile recs fs name st).ub = st.ub ∧
      (processFile recs fs name st).view =
        (match keys name with
         | some ls => keyLines recs ls st.view
         | none => { st.view with errs := st.view.errs ++ ['@' :: name] })) :
    ∀ (n : Nat) (ts : List Tok) (st : St σ), ts.length ≤ n →
      (argvLoop recs fs ts false st).view = cmdParams recs keys ts st.view ∧
      (argvLoop recs fs ts false st).ub = st.ub := by
  intro n
  induction n with
  | zero =>
    intro ts st h
    have : ts = [] := List.length_eq_zero_iff.mp (by omega)
    subst this; simp [argvLoop, cmdParams]
  | succ n ih =>
    intro ts st h
    cases ts with
    | nil => simp [argvLoop, cmdParams]
    | cons t rest =>
      have hr : rest.length ≤ n := by simpa using h
      by_cases hk : isKeyRef t = true
      · have hhead : (t.head? == some '@') = true := by
          cases t with
          | nil => simp [isKeyRef] at hk
          | cons c b => simpa [isKeyRef] using hk
        have hname : '@' :: t.drop 1 = t := by
          cases t with
          | nil => simp [isKeyRef] at hk
          | cons c b =>
            have : c = '@' := by simpa [isKeyRef] using hk
            subst this; simp
        simp only [argvLoop, cmdParams, processParam, hhead, hk, if_true]
        have h1 := ih rest (processFile recs fs (t.drop 1) st) hr
        have h2 := hfs (t.drop 1) st
        rw [h1.1, h1.2, h2.1, h2.2]
        cases hkn : keys (t.drop 1) with
        | some ls => simp
        | none =>
          have hname' : '@' :: t.tail = t := by simpa using hname
          simp [hname']
      · have hk' : isKeyRef t = false := by simpa using hk
        have hhead : (t.head? == some '@') = false := by
          cases t with
          | nil => simp
          | cons c b => simpa [isKeyRef] using hk'
        simp only [argvLoop, cmdParams, processParam, hhead, processParam0_eq recs t _ st hk', hk']
        have hu : st.view.user = st.user := rfl
        rw [hu]
        rcases hp : param recs t (rest.headD []) st.user with ⟨r, u⟩
        cases r with
        | ok => simpa [St.view] using ih rest { st with user := u } hr
        | err => simpa [St.view] using ih rest { st with user := u, errs := st.errs ++ [.invalid false t] } hr
        | file => simpa [St.view] using ih rest { st with user := u, files := st.files ++ [t] } hr
        | arg =>
          cases rest with
          | nil => simp [argvLoop, St.view]
          | cons t2 rest' =>
            have hr' : rest'.length ≤ n := by simp at hr; omega
            simpa [argvLoop, St.view] using ih rest' { st with user := u } hr'

/-! ### the character-level split of DecodeLine -/

/-- parameters joined by single blanks: what a user writes into `ASCMD` / a key file line -/
def joinSp : List Tok → Tok
  | [] => []
  | [t] => t
  | t :: r => t ++ ' ' :: joinSp r

/-- a parameter that survives the split: non-empty, no white space inside -/
def TokOK (t : Tok) : Prop := t ≠ [] ∧ ∀ c ∈ t, isSpace c = false

theorem strchr_none (c : Char) (t : Tok) (h : ∀ x ∈ t, x ≠ c) : strchr c t = none := by
  induction t with
  | nil => rfl
  | cons x xs ih =>
    have hx : x ≠ c := h x (by simp)
    have := ih (fun y hy => h y (by simp [hy]))
    simp [strchr, hx, this]

theorem strchr_append (c : Char) (t r : Tok) (h : ∀ x ∈ t, x ≠ c) : strchr c (t ++ c :: r) = some t.length := by
  induction t with
  | nil => simp [strchr]
  | cons x xs ih =>
    have hx : x ≠ c := h x (by simp)
    have := ih (fun y hy => h y (by simp [hy]))
    simp [strchr, hx, this]

theorem isSpace_blank : isSpace ' ' = true := by decide
theorem isSpace_tab : isSpace '\t' = true := by decide

theorem TokOK.no_blank {t : Tok} (h : TokOK t) : ∀ x ∈ t, x ≠ ' ' := by
  intro x hx he; subst he; have := h.2 _ hx; simp [isSpace_blank] at this

theorem TokOK.no_tab {t : Tok} (h : TokOK t) : ∀ x ∈ t, x ≠ '\t' := by
  intro x hx he; subst he; have := h.2 _ hx; simp [isSpace_tab] at this

theorem joinSp_cons_cons (t t2 : Tok) (r : List Tok) : joinSp (t :: t2 :: r) = t ++ ' ' :: joinSp (t2 :: r) := rfl

theorem joinSp_head_ok (t : Tok) (r : List Tok) (h : TokOK t) :
    ∃ c rest, joinSp (t :: r) = c :: rest ∧ isSpace c = false ∧ t.head? = some c := by
  obtain ⟨hne, hsp⟩ := h
  cases t with
  | nil => exact absurd rfl hne
  | cons c cs =>
    cases r with
    | nil => exact ⟨c, cs, rfl, hsp c (by simp), rfl⟩
    | cons t2 r2 => exact ⟨c, cs ++ ' ' :: joinSp (t2 :: r2), by simp [joinSp], hsp c (by simp), rfl⟩

theorem dropWhile_joinSp (t : Tok) (r : List Tok) (h : TokOK t) :
    (joinSp (t :: r)).dropWhile isSpace = joinSp (t :: r) := by
  obtain ⟨c, rest, he, hc, _⟩ := joinSp_head_ok t r h
  rw [he]; simp [List.dropWhile, hc]

theorem drop_len_succ (t r : Tok) (x : Char) : (t ++ x :: r).drop (t.length + 1) = r := by
  induction t with
  | nil => simp
  | cons y ys ih => simpa using ih

theorem splitLine_join : ∀ (ts : List Tok) (fuel : Nat), (∀ t ∈ ts, TokOK t) → ts.length ≤ fuel →
    splitLine fuel (joinSp ts) = ts := by
  intro ts
  induction ts with
  | nil => intro fuel _ _; cases fuel <;> simp [splitLine, joinSp]
  | cons t r ih =>
    intro fuel hok hlen
    have ht : TokOK t := hok t (by simp)
    cases fuel with
    | zero => simp at hlen
    | succ fuel =>
      cases r with
      | nil =>
        have hne : t ≠ [] := ht.1
        have he : t.isEmpty = false := by cases t <;> simp_all
        simp [splitLine, joinSp, he, strchr_none ' ' t ht.no_blank, strchr_none '\t' t ht.no_tab]
      | cons t2 r2 =>
        have ht2 : TokOK t2 := hok t2 (by simp)
        have hrec := ih fuel (fun x hx => hok x (by simp [hx])) (by simp at hlen ⊢; omega)
        have he : (t ++ ' ' :: joinSp (t2 :: r2)).isEmpty = false := by simp
        rw [joinSp_cons_cons]
        simp only [splitLine, he, strchr_append ' ' t _ ht.no_blank]
        have h1 : (t ++ ' ' :: joinSp (t2 :: r2)).take t.length = t := by simp
        have h2 : (t ++ ' ' :: joinSp (t2 :: r2)).drop (t.length + 1) = joinSp (t2 :: r2) := by
          exact drop_len_succ t _ ' '
        simp only [Bool.false_eq_true, if_false, h1, h2, dropWhile_joinSp t2 r2 ht2, hrec]

theorem joinSp_length_ge : ∀ (ts : List Tok), (∀ t ∈ ts, TokOK t) → ts.length ≤ (joinSp ts).length := by
  intro ts
  induction ts with
  | nil => intro _; simp [joinSp]
  | cons t r ih =>
    intro hok
    have ht : TokOK t := hok t (by simp)
    have hpos : 0 < t.length := List.length_pos_iff.mpr ht.1
    cases r with
    | nil => simp [joinSp]; omega
    | cons t2 r2 =>
      have := ih (fun x hx => hok x (by simp [hx]))
      rw [joinSp_cons_cons]
      simp at this ⊢
      omega

/-- the parameter lists that mean the same in all three places -/
structure Clean (ts : List Tok) : Prop where
  ok : ∀ t ∈ ts, TokOK t
  fits : ts.length < envStrCap
  noComment : ∀ t r, ts = t :: r → t.head? ≠ some ';'

theorem decodeLine_join (recs : List (CMDRec σ)) (ts : List Tok) (st : St σ) (h : Clean ts) :
    decodeLine recs (joinSp ts) st = envLoop recs ts st := by
  cases ts with
  | nil => simp [decodeLine, joinSp, clrBlanks, envLoop]
  | cons t r =>
    have ht : TokOK t := h.ok t (by simp)
    obtain ⟨c, rest, he, hc, hhead⟩ := joinSp_head_ok t r ht
    have hclr : clrBlanks (joinSp (t :: r)) = joinSp (t :: r) := dropWhile_joinSp t r ht
    have hsemi : (c == ';') = false := by
      have := h.noComment t r rfl
      rw [hhead] at this
      simpa using this
    have hsplit := splitLine_join (t :: r) ((joinSp (t :: r)).length + 1) h.ok
      (by have := joinSp_length_ge (t :: r) h.ok; omega)
    unfold decodeLine
    simp only [hclr]
    rw [he] at hsplit ⊢
    simp only [hsemi, Bool.false_eq_true, if_false, hsplit]

/-! ### spec-level facts -/

theorem cmdParams_noKey (sw : List (Switch σ)) (keys : Tok → Option (List (List Tok))) :
    ∀ (n : Nat) (ts : List Tok) (o : Out σ), ts.length ≤ n → (∀ t ∈ ts, isKeyRef t = false) →
      cmdParams sw keys ts o = lineParams sw ts o := by
  intro n
  induction n with
  | zero =>
    intro ts o h _
    have : ts = [] := List.length_eq_zero_iff.mp (by omega)
    subst this; simp [cmdParams, lineParams]
  | succ n ih =>
    intro ts o h hk
    cases ts with
    | nil => simp [cmdParams, lineParams]
    | cons t rest =>
      have hr : rest.length ≤ n := by simpa using h
      have hkt : isKeyRef t = false := hk t (by simp)
      have hkr : ∀ x ∈ rest, isKeyRef x = false := fun x hx => hk x (by simp [hx])
      simp only [cmdParams, lineParams, hkt]
      rcases hp : param sw t (rest.headD []) o.user with ⟨r, u⟩
      cases r with
      | ok => simpa using ih rest _ hr hkr
      | err => simpa using ih rest _ hr hkr
      | file => simpa using ih rest _ hr hkr
      | arg =>
        cases rest with
        | nil => simp
        | cons t2 rest' =>
          have hr' : rest'.length ≤ n := by simp at hr; omega
          simpa using ih rest' _ hr' (fun x hx => hkr x (by simp [hx]))

/-- no handler claims an argument when none is offered (true of every callback of as.c; checked on the real
table by the generated obligation `C17_as_callbacks_no_arg_on_empty`) -/
def NoArgOnEmpty (sw : List (Switch σ)) : Prop := ∀ r ∈ sw, ∀ neg u, (r.act neg [] u).1 ≠ CbRes.arg

theorem letters_no_arg (sw : List (Switch σ)) (h : NoArgOnEmpty sw) (neg : Bool) :
    ∀ (cs : List Char) (acc : PRes) (u : σ), acc ≠ .arg → (letters sw neg [] cs acc u).1 ≠ .arg := by
  intro cs
  induction cs with
  | nil => intro acc u ha; simpa [letters] using ha
  | cons c cs ih =>
    intro acc u ha
    by_cases he : acc = .err
    · subst he; simp [letters]
    · simp only [letters, he, if_false]
      cases hf : findLetter sw c with
      | none => simp
      | some r =>
        have hm : r ∈ sw := List.mem_of_find?_eq_some hf
        have hna := h r hm neg u
        rcases hr : r.act neg [] u with ⟨res, u'⟩
        rw [hr] at hna
        simp only [hr]
        cases res with
        | ok => simpa using ih acc u' ha
        | err => simp
        | arg => simp at hna

theorem param_no_arg (sw : List (Switch σ)) (h : NoArgOnEmpty sw) (t next : Tok) (u : σ)
    (hn : offered next = []) : (param sw t next u).1 ≠ .arg := by
  cases t with
  | nil => simp [param]
  | cons c body =>
    by_cases hc : (c == '-' || c == '+') = true
    · simp only [param, hc, if_true, hn, switchParam]
      cases hf : findWord sw ((caseFold body).map Char.toUpper) with
      | none => simpa using letters_no_arg sw h (c == '+') (caseFold body) .ok u (by simp)
      | some r =>
        have hm : r ∈ sw := List.mem_of_find?_eq_some hf
        have hna := h r hm (c == '+') u
        rcases hr : r.act (c == '+') [] u with ⟨res, u'⟩
        rw [hr] at hna
        cases res <;> simp_all
    · simp [param, hc]

theorem param_congr (sw : List (Switch σ)) (t n1 n2 : Tok) (u : σ) (h : offered n1 = offered n2) :
    param sw t n1 u = param sw t n2 u := by
  cases t with
  | nil => rfl
  | cons c body => simp [param, h]

/-- a line starts with a switch (`-x` / `+x`), or is empty -/
def StartsWithSwitch (l : List Tok) : Prop := offered (l.headD []) = []

theorem lineParams_cons (sw : List (Switch σ)) (t : Tok) (rest : List Tok) (o : Out σ) :
    lineParams sw (t :: rest) o =
      if isKeyRef t then lineParams sw rest { o with errs := o.errs ++ [t] } else
      match param sw t (rest.headD []) o.user with
      | (.file, u) => lineParams sw rest { o with user := u, files := o.files ++ [t] }
      | (.err, u) => lineParams sw rest { o with user := u, errs := o.errs ++ [t] }
      | (.ok, u) => lineParams sw rest { o with user := u }
      | (.arg, u) =>
        match rest with
        | [] => { o with user := u }
        | _ :: rest' => lineParams sw rest' { o with user := u } := by
  by_cases hk : isKeyRef t = true
  · simp [lineParams, hk]
  · rcases hp : param sw t (rest.headD []) o.user with ⟨r, u⟩
    cases r <;> (rw [lineParams]; simp only [hk, hp]) <;> (cases rest <;> simp)

theorem lineParams_append (sw : List (Switch σ)) (h : NoArgOnEmpty sw) (l2 : List Tok) (h2 : StartsWithSwitch l2) :
    ∀ (n : Nat) (l1 : List Tok) (o : Out σ), l1.length ≤ n →
      lineParams sw (l1 ++ l2) o = lineParams sw l2 (lineParams sw l1 o) := by
  intro n
  induction n with
  | zero =>
    intro l1 o hl
    have : l1 = [] := List.length_eq_zero_iff.mp (by omega)
    subst this; simp [lineParams]
  | succ n ih =>
    intro l1 o hl
    cases l1 with
    | nil => simp [lineParams]
    | cons t rest =>
      have hr : rest.length ≤ n := by simpa using hl
      by_cases hk : isKeyRef t = true
      · simp only [List.cons_append, lineParams, hk, if_true]
        exact ih rest _ hr
      · have hk' : isKeyRef t = false := by simpa using hk
        cases rest with
        | nil =>
          have hoff : offered (l2.headD []) = offered [] := by
            rw [h2]; simp [offered, switchLike]
          have hp := param_congr sw t (l2.headD []) [] o.user hoff
          have hna := param_no_arg sw h t [] o.user (by simp [offered, switchLike])
          simp only [List.cons_append, List.nil_append, lineParams, hk', hp, List.headD_nil]
          rcases hpr : param sw t [] o.user with ⟨r, u⟩
          rw [hpr] at hna
          cases r with
          | ok => simp [lineParams]
          | err => simp [lineParams]
          | file => simp [lineParams]
          | arg => simp at hna
        | cons t2 rest' =>
          have hr' : rest'.length ≤ n := by simp at hr; omega
          have e1 := lineParams_cons sw t (t2 :: rest' ++ l2) o
          have e2 := lineParams_cons sw t (t2 :: rest') o
          simp only [hk', Bool.false_eq_true, if_false, List.cons_append, List.headD_cons] at e1 e2
          simp only [List.cons_append]
          rw [e1, e2]
          rcases hpr : param sw t t2 o.user with ⟨r, u⟩
          cases r with
          | ok => exact ih (t2 :: rest') _ hr
          | err => exact ih (t2 :: rest') _ hr
          | file => exact ih (t2 :: rest') _ hr
          | arg => exact ih rest' _ hr'

theorem keyLines_flatten (sw : List (Switch σ)) (h : NoArgOnEmpty sw) :
    ∀ (ls : List (List Tok)) (o : Out σ), (∀ l ∈ ls, StartsWithSwitch l) →
      keyLines sw ls o = lineParams sw ls.flatten o := by
  intro ls
  induction ls with
  | nil => intro o _; simp [keyLines, lineParams]
  | cons l ls ih =>
    intro o hs
    have hflat : StartsWithSwitch ls.flatten := by
      -- the flattened rest starts with the first token of its first non-empty line
      clear ih
      induction ls with
      | nil => simp [StartsWithSwitch, offered, switchLike]
      | cons l' ls' ih' =>
        cases l' with
        | nil => simpa using ih' (fun x hx => hs x (by simp at hx ⊢; rcases hx with hx | hx <;> simp [hx]))
        | cons a b =>
          have := hs (a :: b) (by simp)
          simpa [StartsWithSwitch] using this
    have := lineParams_append sw h ls.flatten hflat l.length l o (Nat.le_refl _)
    simp only [List.flatten_cons, this]
    have ih' := ih (lineParams sw l o) (fun x hx => hs x (by simp [hx]))
    simpa [keyLines] using ih'

end AslModel.CmdArg
