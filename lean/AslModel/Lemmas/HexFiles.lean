import AslModel.Lemmas.Hex2
/-! # Lemmas for C06, several source arguments / address offsets `name(offset)` (used by `Props/C06_Files.lean`) -/
namespace AslModel.HexLemmas
open AslModel.Hex AslModel.P2Hex
open AslModel.PFile (b b_toNat Rec Item dataRecs)

theorem shiftRec_zero (r : Rec) (h : r.start < two32) : shiftRec 0 r = r := by
  unfold shiftRec
  rw [Nat.add_zero, Nat.mod_eq_of_lt h]

theorem map_shiftRec_zero : ∀ (rs : List Rec), (∀ r ∈ rs, r.start < two32) → rs.map (shiftRec 0) = rs
  | [], _ => rfl
  | r :: rs, h => by
    rw [List.map_cons, shiftRec_zero r (h r (List.mem_cons_self ..)),
      map_shiftRec_zero rs (fun x hx => h x (List.mem_cons_of_mem _ hx))]

theorem foldl_start_le (o : Opts) (seg : Nat) : ∀ (rs : List Rec) (m : Nat),
    rs.foldl (fun m r => if measureValid o r.seg.toNat && r.seg.toNat == seg && r.start < m then r.start else m) m ≤ m ∧
    ∀ r ∈ rs, measureValid o r.seg.toNat = true → r.seg.toNat = seg →
      rs.foldl (fun m r => if measureValid o r.seg.toNat && r.seg.toNat == seg && r.start < m then r.start else m) m ≤ r.start
  | [], m => ⟨Nat.le_refl _, by intro r hr; cases hr⟩
  | x :: xs, m => by
    simp only [List.foldl_cons]
    have ih := foldl_start_le o seg xs
      (if measureValid o x.seg.toNat && x.seg.toNat == seg && x.start < m then x.start else m)
    have hstep : (if (measureValid o x.seg.toNat && x.seg.toNat == seg && x.start < m) = true then x.start else m) ≤ m := by
      split
      · rename_i hc
        simp only [Bool.and_eq_true, decide_eq_true_eq] at hc
        omega
      · exact Nat.le_refl _
    refine ⟨Nat.le_trans ih.1 hstep, ?_⟩
    intro r hr hv hs
    rcases List.mem_cons.mp hr with hx | hr
    · subst hx
      refine Nat.le_trans ih.1 ?_
      have hs' : (r.seg.toNat == seg) = true := by simp [hs]
      rw [hv, hs']
      by_cases hlt : r.start < m
      · simp [hlt]
      · simp [hlt]; omega
    · exact ih.2 r hr hv hs

theorem foldl_stop_ge (o : Opts) (seg : Nat) : ∀ (rs : List Rec) (m : Nat),
    m ≤ rs.foldl (fun m r => if measureValid o r.seg.toNat && r.seg.toNat == seg && recEnd r > m then recEnd r else m) m ∧
    ∀ r ∈ rs, measureValid o r.seg.toNat = true → r.seg.toNat = seg →
      recEnd r ≤ rs.foldl (fun m r => if measureValid o r.seg.toNat && r.seg.toNat == seg && recEnd r > m then recEnd r else m) m
  | [], m => ⟨Nat.le_refl _, by intro r hr; cases hr⟩
  | x :: xs, m => by
    simp only [List.foldl_cons]
    have ih := foldl_stop_ge o seg xs
      (if measureValid o x.seg.toNat && x.seg.toNat == seg && recEnd x > m then recEnd x else m)
    have hstep : m ≤ (if (measureValid o x.seg.toNat && x.seg.toNat == seg && recEnd x > m) = true then recEnd x else m) := by
      split
      · rename_i hc
        simp only [Bool.and_eq_true, decide_eq_true_eq] at hc
        omega
      · exact Nat.le_refl _
    refine ⟨Nat.le_trans hstep ih.1, ?_⟩
    intro r hr hv hs
    rcases List.mem_cons.mp hr with hx | hr
    · subst hx
      refine Nat.le_trans ?_ ih.1
      have hs' : (r.seg.toNat == seg) = true := by simp [hs]
      rw [hv, hs']
      by_cases hlt : recEnd r > m
      · simp [hlt]
      · simp [hlt]; omega
    · exact ih.2 r hr hv hs

theorem mem_allRecs : ∀ (srcs : List Src) (s : Src) (r : Rec), s ∈ srcs → r ∈ srcRecs s → r ∈ allRecs srcs
  | [], _, _, hs, _ => by cases hs
  | x :: xs, s, r, hs, hr => by
    simp only [allRecs, List.mem_append]
    rcases List.mem_cons.mp hs with rfl | hs
    · exact Or.inl hr
    · exact Or.inr (mem_allRecs xs s r hs hr)

/-- the segments `ProcessFile` takes data from are among those `MeasureFile` measures -/
theorem selectRec_measured (o : Opts) (startOf stopOf : Nat → Nat) (r : Rec) (g : Group) (ov : Bool)
    (hsel : selectRec o startOf stopOf r = .ok (some (g, ov))) : measureValid o r.seg.toNat = true := by
  unfold selectRec at hsel
  cases hf : actFormat o r.cpu.toNat with
  | error e => simp [hf, bind, Except.bind] at hsel
  | ok f =>
    simp only [hf, bind, Except.bind] at hsel
    unfold measureValid
    by_cases hfs : o.forceSeg ≠ 0
    · simp only [hfs, ne_eq, not_false_eq_true, if_true] at hsel ⊢
      by_cases hseg : (r.seg.toNat == o.forceSeg) = true
      · exact hseg
      · simp [hseg, pure, Except.pure] at hsel
    · simp only [hfs, if_false] at hsel ⊢
      by_cases hseg : (r.seg.toNat == 1 || (f == .dsk && r.seg.toNat == 2)) = true
      · simp only [Bool.or_eq_true, Bool.and_eq_true] at hseg ⊢
        rcases hseg with h | h
        · exact Or.inl h
        · exact Or.inr h.2
      · simp [hseg, pure, Except.pure] at hsel

theorem foldl_init_congr {α β : Type} (f : β → α → β) (a c : β) (l : List α) (h : a = c) :
    List.foldl f a l = List.foldl f c l := by rw [h]

end AslModel.HexLemmas
