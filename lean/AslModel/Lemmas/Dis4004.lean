import AslModel.Model.Dis.I4004
import AslModel.Lemmas.DisRetrieve
/-! Table facts tying deco4004.c's `OpcodeList` to code4004.c's `InitFields` list, decided over all 256 opcodes. -/
namespace AslModel.Dis.I4004
open AslModel.Generated

/-- what the round trip needs from the two generated tables for opcode `op` -/
def tableOK (op : Nat) : Bool :=
  let r := row op
  match r.typ with
  | .eUnknown => true
  | .eImplicit => match asmRow r.memo with
    | some x => x.kind == .fixed && x.code % 256 == op && decide (x.minCpu ≤ 1)
    | none => false
  | .eOneReg => match asmRow r.memo with
    | some x => (x.kind == .oneReg || x.kind == .accReg) && x.code % 256 + op % 16 == op
    | none => false
  | .eOneRReg => match asmRow r.memo with
    | some x => x.kind == .oneRReg && x.code % 256 + 2 * (op % 16 / 2) == op
    | none => false
  | .eImm4 => match asmRow r.memo with
    | some x => x.kind == .imm4 && op % 16 + x.code % 256 == op
    | none => false
  | .eFullAddr => match asmRow r.memo with
    | some x => x.kind == .fullJmp && 0x40 + x.code * 16 + op % 16 == op
    | none => false
  | .eJumpCond => match asmRow r.memo with
    | some x => x.kind == .jcn && 16 + op % 16 == op
    | none => false
  | .eISZ => match asmRow r.memo with
    | some x => x.kind == .isz && 0x70 + op % 16 == op
    | none => false
  | .eFIM => match asmRow r.memo with
    | some x => x.kind == .fim && 32 + 2 * (op % 16 / 2) == op
    | none => false

theorem table_ok : ∀ op, op < 256 → tableOK op = true := by decide +kernel

end AslModel.Dis.I4004

namespace AslModel.Dis

theorem fetch_inImage (img : Image) (lower : Bool) (a b : Nat) (e : List String) (h : I4004.fetch img lower a = (some b, e)) : inImage img a := by
  unfold I4004.fetch at h
  split at h
  · rename_i bb hr
    exact retrieve_one_inImage img a _ hr
  · simp at h

end AslModel.Dis
