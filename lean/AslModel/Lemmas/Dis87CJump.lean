import AslModel.Model.Dis.A87C
import AslModel.Lemmas.Dis87C
/-! Lemmas for the jump/call round trip of the TLCS-870 (`Model/Dis/A87C.lean` ↔ the jump forms of `Model/Dis/M87C.lean`):
`shape_ok` decides, over all 256 first bytes, what the tables of both sides say about a jump form (format string, condition lookup in
code87c800.c's condition table, opcode arithmetic); the `adrInt_*` lemmas are the distance arithmetic for all addresses. -/
namespace AslModel.Dis.A87C
open AslModel.Dis AslModel.Dis.M87C AslModel.Generated

/-- per opcode byte: the format string of the jump form is `<head><symbol>h`, the printed condition is found in the assembler's
condition table (from the index the decoder starts at) with the code that gives the opcode back, operand byte count -/
def shapeOk (op : Nat) : Bool :=
  match shape op, form1 op with
  | some (sh, j), .plain f =>
    f.jump == j && f.pieces == [.s (head sh), .sym, .s "h"] &&
    (match sh, j with
     | .jrs c, .rel5 =>
       decide (decodeCondition c Deco87C.jrsCondStart < Deco87C.conditions.length) &&
       decide ((((condCode (decodeCondition c Deco87C.jrsCondStart) : Nat) : Int) - 2) * 32 = ((op - op % 32 : Nat) : Int)) &&
       f.n == 0 && decide (op - op % 32 + 32 ≤ 256)
     | .jr none, .rel8 => op == 0xfb && f.n == 1
     | .jr (some c), .rel8 =>
       decide (decodeCondition c 0 < Deco87C.conditions.length) && (0xd0 ||| condCode (decodeCondition c 0)) == op && f.n == 1
     | .jp, .abs16 _ => op == 0xfe && f.n == 2
     | .call, .abs16 _ => op == 0xfc && f.n == 2
     | .callp, .page => op == 0xfd && f.n == 1
     | .callv k, .vec => k == op % 16 && (0xc0 ||| (k % 16)) == op && decide (k < 16) && f.n == 0
     | _, _ => false)
  | none, .plain f => f.jump == .none
  | none, _ => true
  | some _, _ => false

theorem shape_ok : ∀ op, op < 256 → shapeOk op = true := by decide +kernel

/-- the generated distance limits are the ones the arithmetic below is about (a change of the C comparisons breaks these) -/
theorem limits_ok : Deco87C.jrsMin = -16 ∧ Deco87C.jrsMax = 15 ∧ Deco87C.jrMin = -128 ∧ Deco87C.jrMax = 127 := by decide

theorem adrInt_rel5 (a x : Nat) (ha : a < 0x10000) (hx : x < 32) :
    adrInt ((a + 2 + x + (if x ≥ 16 then 0x10000 - 32 else 0)) % 0x10000) a = (if x ≥ 16 then (x : Int) - 32 else x) := by
  unfold adrInt
  simp only
  split <;> split <;> omega

theorem adrInt_rel8 (a x : Nat) (ha : a < 0x10000) (hx : x < 256) :
    adrInt ((a + 2 + x + (if x ≥ 128 then 0x10000 - 256 else 0)) % 0x10000) a = (if x ≥ 128 then (x : Int) - 256 else x) := by
  unfold adrInt
  simp only
  split <;> split <;> omega

end AslModel.Dis.A87C
