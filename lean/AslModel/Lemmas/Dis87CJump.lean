import AslModel.Model.Dis.A87C
import AslModel.Lemmas.Dis87C
import AslModel.Lemmas.Dis6800
/-! Lemmas for the jump/call round trip of the TLCS-870 (`Model/Dis/A87C.lean` ↔ the jump forms of `Model/Dis/M87C.lean`):
`shape_ok` decides, over all 256 first bytes, what the tables of both sides say about a jump form (format string, condition lookup in
code87c800.c's condition table, opcode arithmetic); the `adrInt_*` lemmas are the distance arithmetic for all addresses. -/
namespace AslModel.Dis.A87C
open AslModel.Dis AslModel.Dis.M87C AslModel.Generated

/-- per opcode byte: the format string of the jump form is `<head><symbol>`, the printed condition is found in the assembler's
condition table (from the index the decoder starts at) with the code that gives the opcode back, operand byte count -/
def shapeOk (op : Nat) : Bool :=
  match shape op, form1 op with
  | some (sh, j), .plain f =>
    f.jump == j && f.pieces == [.s (head sh), .sym] &&
    (match sh, j with
     | .jrs c, .rel5 =>
       decide (decodeCondition c Deco87C.jrsCondStart < Deco87C.conditions.length) &&
       decide ((((condCode (decodeCondition c Deco87C.jrsCondStart) : Nat) : Int) - 2) * 32 = ((op - op % 32 : Nat) : Int)) &&
       f.n == 0 && decide (op - op % 32 + 32 ≤ 256)
     | .jr none, .rel8 => op == 0xfb && f.n == 1
     | .jr (some c), .rel8 =>
       decide (decodeCondition c 0 < Deco87C.conditions.length) && (0xd0 ||| condCode (decodeCondition c 0)) == op && f.n == 1
     | .jp, .abs16 _ => op == 0xfe && f.n == 2
     | .call, .abs16 _ => op == 0xfc && f.n == 2
     | .callp, .page => op == 0xfd && f.n == 1
     | .callv k, .vec => k == op % 16 && (0xc0 ||| (k % 16)) == op && decide (k < 16) && f.n == 0
     | _, _ => false)
  | none, .plain f => f.jump == .none
  | none, _ => true
  | some _, _ => false

theorem shape_ok : ∀ op, op < 256 → shapeOk op = true := by decide +kernel

/-- the generated distance limits are the ones the arithmetic below is about (a change of the C comparisons breaks these) -/
theorem limits_ok : Deco87C.jrsMin = -16 ∧ Deco87C.jrsMax = 15 ∧ Deco87C.jrMin = -128 ∧ Deco87C.jrMax = 127 := by decide

theorem adrInt_rel5 (a x : Nat) (ha : a < 0x10000) (hx : x < 32) :
    adrInt ((a + 2 + x + (if x ≥ 16 then 0x10000 - 32 else 0)) % 0x10000) a = (if x ≥ 16 then (x : Int) - 32 else x) := by
  unfold adrInt
  simp only
  split <;> split <;> omega

theorem adrInt_rel8 (a x : Nat) (ha : a < 0x10000) (hx : x < 256) :
    adrInt ((a + 2 + x + (if x ≥ 128 then 0x10000 - 256 else 0)) % 0x10000) a = (if x ≥ 128 then (x : Int) - 256 else x) := by
  unfold adrInt
  simp only
  split <;> split <;> omega

end AslModel.Dis.A87C

namespace AslModel.Dis.A87C
open AslModel.Dis AslModel.Dis.M87C AslModel.Generated

/-! ### the printed jump statement through the statement parser -/

theorem stripComment_clean (l : List Char) (h : ∀ c ∈ l, c ≠ ';') : stripComment l = l := by
  unfold stripComment
  induction l with
  | nil => rfl
  | cons x xs ih =>
    have hx : (x != ';') = true := by simpa using h x (by simp)
    simp only [List.takeWhile, hx]
    rw [ih (fun c hc => h c (List.mem_cons_of_mem _ hc))]

theorem stripComment_at (l r : List Char) (h : ∀ c ∈ l, c ≠ ';') : stripComment (l ++ ';' :: r) = l := by
  unfold stripComment
  induction l with
  | nil => simp [List.takeWhile]
  | cons x xs ih =>
    have hx : (x != ';') = true := by simpa using h x (by simp)
    simp only [List.cons_append, List.takeWhile, hx]
    rw [ih (fun c hc => h c (List.mem_cons_of_mem _ hc))]

theorem trimRight_clean (l : List Char) (z : Char) (hz : A6800.isBlank z = false) : trimRight (l ++ [z]) = l ++ [z] := by
  unfold trimRight
  simp [List.reverse_append, List.dropWhile, hz]

/-- what a plain symbol name consists of -/
theorem plainLabel_chars (s : List Char) (h : A6800.plainLabel s = true) :
    (∀ c ∈ s, A6800.isBlank c = false ∧ c ≠ ',' ∧ c ≠ ';') ∧ ∃ l z, s = l ++ [z] := by
  have hname : ∀ c, (A6800.isNameChar c = true ∨ A6800.isNameStart c = true) → A6800.isBlank c = false ∧ c ≠ ',' ∧ c ≠ ';' := by
    intro c hc
    refine ⟨?_, ?_, ?_⟩
    · cases hb : A6800.isBlank c with
      | false => rfl
      | true =>
        have : c = ' ' ∨ c = '\t' := by simpa [A6800.isBlank] using hb
        rcases this with e | e <;> (subst e; revert hc; decide)
    · intro e; subst e; revert hc; decide
    · intro e; subst e; revert hc; decide
  match s, h with
  | c :: d :: rest, h =>
    simp only [A6800.plainLabel, Bool.and_eq_true, List.all_eq_true] at h
    refine ⟨?_, ?_⟩
    · intro x hx
      rcases List.mem_cons.mp hx with rfl | hx
      · exact hname _ (Or.inr h.1.1)
      · rcases List.mem_cons.mp hx with rfl | hx
        · exact hname _ (Or.inl h.1.2)
        · exact hname _ (Or.inl (h.2 x hx))
    · exact ⟨(c :: d :: rest).dropLast, (c :: d :: rest).getLast (by simp), (List.dropLast_concat_getLast (by simp)).symm⟩

/-- the `callv` statement does not look at the symbol table -/
theorem parseClean_callv (env env' : A6800.Env) (s : List Char) (c : Nat) (h : fnOf (A6800.splitStmt s).1 = some (.callv, c)) :
    parseClean env s = parseClean env' s := by
  unfold parseClean
  rw [h]
  cases (A6800.splitStmt s).2 with
  | nil => rfl
  | cons t ts => cases ts <;> rfl

end AslModel.Dis.A87C

namespace AslModel.Dis.A87C
open AslModel.Dis AslModel.Dis.M87C AslModel.Generated

/-- mnemonic of a shape as the format string spells it -/
def memoL : Shape → List Char
  | .jrs _ => ['j', 'r', 's']
  | .jr _ => ['j', 'r']
  | .jp => ['j', 'p']
  | .call => ['c', 'a', 'l', 'l']
  | .callp => ['c', 'a', 'l', 'l', 'p']
  | .callv _ => ['c', 'a', 'l', 'l', 'v']

def condL : Shape → Option String
  | .jrs c => some c
  | .jr c => c
  | _ => none

/-- a condition name contains no blank, comma or semicolon -/
def condClean (c : String) : Bool := c.toList.all (fun ch => !A6800.isBlank ch && ch != ',' && ch != ';')

/-- per opcode byte: the condition name a jump form prints is clean -/
def shapeTextOk (op : Nat) : Bool :=
  match shape op with
  | some (sh, _) => (match condL sh with | some c => condClean c | none => true)
  | none => true

theorem shapeText_ok : ∀ op, op < 256 → shapeTextOk op = true := by decide +kernel

/-- `callv`: the head of the line up to the comment, and what the parser makes of it (vector numbers 0…15) -/
def callvHead (n : Nat) : List Char := ("callv\t" ++ toString n ++ "\t ").toList

def callvOk (n : Nat) : Bool :=
  (head (.callv n)).toList == callvHead n ++ [';', ' '] && (callvHead n).all (fun c => c != ';') &&
  fnOf (A6800.splitStmt (trimRight (callvHead n))).1 == some (.callv, 0) &&
  parseClean (fun _ => none) (trimRight (callvHead n)) == some (.callv n)

theorem callv_ok : ∀ n, n < 16 → callvOk n = true := by decide +kernel

theorem parse_printed_callv (env : A6800.Env) (n : Nat) (hn : n < 16) (r : List Char) :
    parseStmt env ((head (.callv n)).toList ++ r) = some (.callv n) := by
  have h := callv_ok n hn
  simp only [callvOk, Bool.and_eq_true, beq_iff_eq, List.all_eq_true, bne_iff_ne, ne_eq] at h
  obtain ⟨⟨⟨h1, h2⟩, h3⟩, h4⟩ := h
  have ht : (head (.callv n)).toList ++ r = callvHead n ++ ';' :: (' ' :: r) := by rw [h1]; simp
  unfold parseStmt
  rw [ht, stripComment_at _ _ h2, parseClean_callv env (fun _ => none) _ 0 h3, h4]

theorem fn_jrs : fnOf ['j', 'r', 's'] = some (.jrs, 0) := by decide +kernel
theorem fn_jr : fnOf ['j', 'r'] = some (.jr, 0) := by decide +kernel
theorem fn_jp : fnOf ['j', 'p'] = some (.jpCall, 0xfe) := by decide +kernel
theorem fn_call : fnOf ['c', 'a', 'l', 'l'] = some (.jpCall, 0xfc) := by decide +kernel
theorem fn_callp : fnOf ['c', 'a', 'l', 'l', 'p'] = some (.callp, 0) := by decide +kernel

/-- a statement `<memo>\t<body>` whose last character is no blank and that contains no `;` -/
theorem parseStmt_clean (env : A6800.Env) (memo body : List Char) (hm : ∀ c ∈ memo, A6800.isBlank c = false ∧ c ≠ ';')
    (hb : ∀ c ∈ body, A6800.isBlank c = false ∧ c ≠ ';') (hne : body ≠ []) :
    parseStmt env (memo ++ '\t' :: body) = parseClean env (memo ++ '\t' :: body) := by
  unfold parseStmt
  have hs : stripComment (memo ++ '\t' :: body) = memo ++ '\t' :: body := by
    apply stripComment_clean
    intro c hc
    rcases List.mem_append.mp hc with h | h
    · exact (hm c h).2
    · rcases List.mem_cons.mp h with rfl | h
      · decide
      · exact (hb c h).2
  rw [hs]
  obtain ⟨l, z, hlz⟩ : ∃ l z, body = l ++ [z] := ⟨body.dropLast, body.getLast hne, (List.dropLast_concat_getLast hne).symm⟩
  have hz : A6800.isBlank z = false := (hb z (by rw [hlz]; simp)).1
  have : memo ++ '\t' :: body = (memo ++ '\t' :: l) ++ [z] := by rw [hlz]; simp
  rw [this, trimRight_clean _ z hz]

/-- the line `<head><symbol>` of a jump form other than `callv` is parsed back to the statement with the symbol's value -/
theorem parse_printed (env : A6800.Env) (sh : Shape) (S : List Char) (t : Nat) (hcv : ∀ n, sh ≠ .callv n)
    (hc : ∀ c, condL sh = some c → condClean c = true)
    (hS : A6800.plainLabel S = true) (hr : isReg16Name S = false) (he : env S = some t) :
    parseStmt env ((head sh).toList ++ S) = some (mk sh t) := by
  obtain ⟨hSc, l, z, hlz⟩ := plainLabel_chars S hS
  have hSne : S ≠ [] := by rw [hlz]; simp
  have hev : evalLabel env S = some t := by simp [evalLabel, hS, hr, he]
  have hSb : ∀ c ∈ S, A6800.isBlank c = false := fun c h => (hSc c h).1
  have hSn : ',' ∉ S := fun h => (hSc ',' h).2.1 rfl
  -- with a condition: <memo>\t<cond>,<symbol>
  have withCond : ∀ (memo : List Char) (c : String), (∀ x ∈ memo, A6800.isBlank x = false ∧ x ≠ ';') → condClean c = true →
      A6800.splitStmt (memo ++ '\t' :: (c.toList ++ ',' :: S)) = (memo, [c.toList, S]) ∧
      parseStmt env (memo ++ '\t' :: (c.toList ++ ',' :: S)) = parseClean env (memo ++ '\t' :: (c.toList ++ ',' :: S)) := by
    intro memo c hm hcc
    simp only [condClean, List.all_eq_true, Bool.and_eq_true, Bool.not_eq_true', bne_iff_ne, ne_eq] at hcc
    have hb : ∀ x ∈ c.toList ++ ',' :: S, A6800.isBlank x = false ∧ x ≠ ';' := by
      intro x hx
      rcases List.mem_append.mp hx with h | h
      · exact ⟨(hcc x h).1.1, (hcc x h).2⟩
      · rcases List.mem_cons.mp h with rfl | h
        · exact ⟨by decide, by decide⟩
        · exact ⟨(hSc x h).1, (hSc x h).2.2⟩
    refine ⟨?_, parseStmt_clean env memo _ hm hb (by simp)⟩
    rw [A6800.splitStmt_operand memo _ (fun x hx => (hm x hx).1) (fun x hx => (hb x hx).1) (by simp)]
    have hcn : ',' ∉ c.toList := fun h => (hcc ',' h).1.2 rfl
    rw [A6800.splitComma_append _ _ hcn, A6800.splitComma_noComma _ hSn]
  have noCond : ∀ (memo : List Char), (∀ x ∈ memo, A6800.isBlank x = false ∧ x ≠ ';') →
      A6800.splitStmt (memo ++ '\t' :: S) = (memo, [S]) ∧
      parseStmt env (memo ++ '\t' :: S) = parseClean env (memo ++ '\t' :: S) := by
    intro memo hm
    have hb : ∀ x ∈ S, A6800.isBlank x = false ∧ x ≠ ';' := fun x h => ⟨(hSc x h).1, (hSc x h).2.2⟩
    refine ⟨?_, parseStmt_clean env memo _ hm hb hSne⟩
    rw [A6800.splitStmt_operand memo _ (fun x hx => (hm x hx).1) hSb hSne, A6800.splitComma_noComma _ hSn]
  cases sh with
  | jrs c =>
    have hh : (head (.jrs c)).toList ++ S = ['j', 'r', 's'] ++ '\t' :: (c.toList ++ ',' :: S) := by
      simp [head, String.toList_append]
    obtain ⟨h1, h2⟩ := withCond ['j', 'r', 's'] c (by decide) (hc c rfl)
    rw [hh, h2]
    unfold parseClean
    rw [h1]
    simp only [fn_jrs, hev, Option.map_some, String.ofList_toList, mk]
  | jr c =>
    cases c with
    | none =>
      have hh : (head (.jr none)).toList ++ S = ['j', 'r'] ++ '\t' :: S := by simp [head]
      obtain ⟨h1, h2⟩ := noCond ['j', 'r'] (by decide)
      rw [hh, h2]
      unfold parseClean
      rw [h1]
      simp only [fn_jr, hev, Option.map_some, mk]
    | some c =>
      have hh : (head (.jr (some c))).toList ++ S = ['j', 'r'] ++ '\t' :: (c.toList ++ ',' :: S) := by
        simp [head, String.toList_append]
      obtain ⟨h1, h2⟩ := withCond ['j', 'r'] c (by decide) (hc c rfl)
      rw [hh, h2]
      unfold parseClean
      rw [h1]
      simp only [fn_jr, hev, Option.map_some, String.ofList_toList, mk]
  | jp =>
    have hh : (head .jp).toList ++ S = ['j', 'p'] ++ '\t' :: S := by simp [head]
    obtain ⟨h1, h2⟩ := noCond ['j', 'p'] (by decide)
    rw [hh, h2]
    unfold parseClean
    rw [h1]
    simp [fn_jp, hev, mk]
  | call =>
    have hh : (head .call).toList ++ S = ['c', 'a', 'l', 'l'] ++ '\t' :: S := by simp [head]
    obtain ⟨h1, h2⟩ := noCond ['c', 'a', 'l', 'l'] (by decide)
    rw [hh, h2]
    unfold parseClean
    rw [h1]
    simp [fn_call, hev, mk]
  | callp =>
    have hh : (head .callp).toList ++ S = ['c', 'a', 'l', 'l', 'p'] ++ '\t' :: S := by simp [head]
    obtain ⟨h1, h2⟩ := noCond ['c', 'a', 'l', 'l', 'p'] (by decide)
    rw [hh, h2]
    unfold parseClean
    rw [h1]
    simp only [fn_callp, hev, Option.map_some, mk]
  | callv n => exact absurd rfl (hcv n)

end AslModel.Dis.A87C
