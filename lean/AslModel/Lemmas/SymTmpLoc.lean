import AslModel.Model.SymLocObs
import AslModel.Lemmas.Sym
/-! helper lemmas for `Props/C13_TmpLoc.lean`: folding distributes over composition; what `ChkTmp1/2/3` do with `.name` -/
namespace AslModel.Lemmas.SymTmpLoc
open AslModel.Generated.Sym
open AslModel.Sym

theorem upper_append (a b : Name) : upper (a ++ b) = upper a ++ upper b := by simp [upper]

theorem fold_append (cs : Bool) (a b : Name) : fold cs (a ++ b) = fold cs a ++ fold cs b := by
  cases cs <;> simp [fold, upper]

theorem chkTmp1_dot (g : St) (x : Name) : chkTmp1 g (46 :: x) = none := by
  unfold chkTmp1
  split
  · rename_i y heq; simp at heq
  · rfl

theorem chkTmp2Ref_dot (g : St) (x : Name) : chkTmp2Ref g (46 :: x) = none := by
  simp [chkTmp2Ref, chMinus, chPlus]

theorem chkTmpDef_dot (g : St) (x : Name) (src : SymSource) : chkTmpDef g (46 :: x) src = (g, g.lastGlob ++ 46 :: x) := by
  unfold chkTmpDef
  rw [chkTmp1_dot]
  simp only [chMinus, chPlus, chSlash, List.cons.injEq, Nat.reduceEqDiff, false_and, if_false, chkTmp2Ref_dot]
  simp [chkTmp3, chDot]

theorem chkTmp3Ref_dot (g : St) (x : Name) : chkTmp3Ref g (46 :: x) = g.lastGlob ++ 46 :: x := by
  simp [chkTmp3Ref, chDot]

end AslModel.Lemmas.SymTmpLoc
