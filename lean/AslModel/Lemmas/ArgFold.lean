import AslModel.Model.ArgFold
/-! Lemmas for Props/C11_Args.lean: the simulation between `UpString` (hypquot / LastBk) and the SPEC scan of Spec/ArgFold.lean,
the mutual induction over construct trees, idempotence of the SPEC folding. -/
namespace AslModel.ArgFoldModel
open AslModel.MacroSpec AslModel.ArgFold

/-- `hypquot` for a SPEC mode -/
def hOf : Mode → Nat
  | .out => 0
  | .chr => 1
  | .str => 2

theorem upCase_eq (c : Ch) : upCase c = upc c := rfl

/-- the condition `tameFrom` asks of one character -/
def tameStep (st : St) (c : Ch) : Bool := if c = 92 then (st.mode != .out && !st.esc) else true

theorem step_sim (mode : Mode) (esc : Bool) (c : Ch) (ht : tameStep ⟨mode, esc⟩ c = true)
    (hinv : mode = .out → esc = false) :
    (upStep (hOf mode) esc c).2 = foldMarked (c, (step ⟨mode, esc⟩ c).2) ∧
    (upStep (hOf mode) esc c).1.1 = hOf (step ⟨mode, esc⟩ c).1.mode ∧
    (upStep (hOf mode) esc c).1.2 = (step ⟨mode, esc⟩ c).1.esc ∧
    ((step ⟨mode, esc⟩ c).1.mode = .out → (step ⟨mode, esc⟩ c).1.esc = false) := by
  by_cases h92 : c = 92
  · subst h92
    cases mode <;> cases esc <;> simp_all [tameStep, step, upStep, hOf, foldMarked]
  · by_cases h39 : c = 39
    · subst h39
      cases mode <;> cases esc <;> simp_all [tameStep, step, upStep, hOf, foldMarked]
    · by_cases h34 : c = 34
      · subst h34
        cases mode <;> cases esc <;> simp_all [tameStep, step, upStep, hOf, foldMarked]
      · cases mode <;> cases esc <;> simp_all [tameStep, step, upStep, hOf, foldMarked, upCase_eq]

theorem upLoop_sim (s : Line) : ∀ (st : St), tameFrom st s = true → (st.mode = .out → st.esc = false) →
    upLoop (hOf st.mode) st.esc s = (marksFrom st s).map foldMarked := by
  induction s with
  | nil => intro st _ _; rfl
  | cons c rest ih =>
    intro st ht hinv
    obtain ⟨mode, esc⟩ := st
    have ht' : tameStep ⟨mode, esc⟩ c = true ∧ tameFrom (step ⟨mode, esc⟩ c).1 rest = true := by
      simpa [tameFrom, tameStep] using ht
    obtain ⟨h1, h2, h3, h4⟩ := step_sim mode esc c ht'.1 hinv
    have ih' := ih (step ⟨mode, esc⟩ c).1 ht'.2 h4
    simp only [upLoop, marksFrom, List.map_cons]
    rw [h1, h2, h3, ih']

/-- **model = SPEC** for every tame argument text -/
theorem argFold_fold_refines (cs : Bool) (s : Line) (ht : tame s = true) : foldArgM cs s = foldArg cs s := by
  cases cs
  · simp only [foldArgM, foldArg, upString, marks]
    exact upLoop_sim s St.init ht (fun _ => rfl)
  · rfl


theorem marksFrom_fst (s : Line) : ∀ st, (marksFrom st s).map (·.1) = s := by
  induction s with
  | nil => intro st; rfl
  | cons c rest ih => intro st; simp [marksFrom, ih]

/-- **Folding never changes a character inside a quoted constant**: wherever the SPEC's scan says that position `i` of the
argument text belongs to a character or string constant, the stored text has the text's own character there. -/
theorem argFold_quoted_untouched (s : Line) (ht : tame s = true) (i : Nat) (c : Ch)
    (hq : (marks s)[i]? = some (c, true)) : (foldArgM false s)[i]? = some c ∧ s[i]? = some c := by
  constructor
  · rw [argFold_fold_refines false s ht]
    simp [foldArg, List.getElem?_map, hq, foldMarked]
  · have h := marksFrom_fst s St.init
    have : ((marks s).map (·.1))[i]? = some c := by simp [List.getElem?_map, hq]
    rw [marks] at this
    rw [h] at this
    exact this

/-- outside the constants the stored character is the upper-case letter -/
theorem argFold_outside_upper (s : Line) (ht : tame s = true) (i : Nat) (c : Ch)
    (hq : (marks s)[i]? = some (c, false)) : (foldArgM false s)[i]? = some (upc c) := by
  rw [argFold_fold_refines false s ht]
  simp [foldArg, List.getElem?_map, hq, foldMarked]


theorem upLoop_length (s : Line) : ∀ h b, (upLoop h b s).length = s.length := by
  induction s with
  | nil => intro h b; rfl
  | cons c rest ih => intro h b; simp [upLoop, ih]

/-- for EVERY text (tame or not) the stored text has the text's length -/
theorem argFold_length (cs : Bool) (s : Line) : (foldArgM cs s).length = s.length := by
  cases cs
  · simp [foldArgM, upString, upLoop_length]
  · rfl

/-- in case-sensitive mode (-U) the argument is stored as written -/
theorem argFold_case_sensitive (s : Line) : foldArgM true s = s ∧ foldArg true s = s := ⟨rfl, rfl⟩

/-! ## construct trees -/

theorem map_fold_eq (cs : Bool) (l : List Line) (h : l.all tame = true) : l.map (foldArgM cs) = l.map (foldArg cs) := by
  apply List.map_congr_left
  intro a ha
  exact argFold_fold_refines cs a (List.all_eq_true.mp h a ha)

theorem callArg_fold_eq (cs : Bool) (a : CallArg) (h : tameCallArg a = true) :
    ({ key := a.key.map (foldArgM cs), val := foldArgM cs a.val } : CallArg) =
      { key := a.key.map (foldArg cs), val := foldArg cs a.val } := by
  obtain ⟨key, val⟩ := a
  simp only [tameCallArg, Bool.and_eq_true] at h
  rw [argFold_fold_refines cs val h.2]
  cases key with
  | none => rfl
  | some k =>
    have hk : tame k = true := by simpa using h.1
    simp [argFold_fold_refines cs k hk]

mutual
theorem foldItem_eq (cs : Bool) : ∀ (i : Item), tameItem i = true → foldItem (foldArgM cs) i = foldItem (foldArg cs) i
  | .line _, _ => rfl
  | .exitm, _ => rfl
  | .rept id n locals body, h => by
    simp only [tameItem] at h
    simp only [foldItem, foldBody_eq cs body h]
  | .irp id var args locals body, h => by
    simp only [tameItem, Bool.and_eq_true] at h
    simp only [foldItem, foldBody_eq cs body h.2, map_fold_eq cs args h.1]
  | .irpn id vars args locals body, h => by
    simp only [tameItem, Bool.and_eq_true] at h
    simp only [foldItem, foldBody_eq cs body h.2, map_fold_eq cs args h.1]
  | .irpc id var chars locals body, h => by
    simp only [tameItem] at h
    simp only [foldItem, foldBody_eq cs body h]
  | .call id params defaults locals body args, h => by
    simp only [tameItem, Bool.and_eq_true] at h
    have hargs : args.map (fun a => ({ key := a.key.map (foldArgM cs), val := foldArgM cs a.val } : CallArg)) =
        args.map (fun a => ({ key := a.key.map (foldArg cs), val := foldArg cs a.val } : CallArg)) := by
      apply List.map_congr_left
      intro a ha
      exact callArg_fold_eq cs a (List.all_eq_true.mp h.1 a ha)
    simp only [foldItem, foldBody_eq cs body h.2, hargs]
theorem foldBody_eq (cs : Bool) : ∀ (b : Body), tameBody b = true → foldBody (foldArgM cs) b = foldBody (foldArg cs) b
  | .nil, _ => rfl
  | .cons i rest, h => by
    simp only [tameBody, Bool.and_eq_true] at h
    simp only [foldBody, foldItem_eq cs i h.1, foldBody_eq cs rest h.2]
end

/-- the argument texts the collecting functions store, construct by construct, are the SPEC's -/
theorem argFold_prog_refines (cs : Bool) (prog : Body) (ht : tameBody prog = true) : foldProgM cs prog = foldProg cs prog :=
  foldBody_eq cs prog ht

/-- ... so carrying out the constructs with the stored texts gives the SPEC's hand expansion -/
theorem argFold_expansion (cs : Bool) (prog : Body) (ht : tameBody prog = true) :
    expand cs (foldProgM cs prog) = expandFolded cs prog := by
  rw [expandFolded, argFold_prog_refines cs prog ht]

/-! ## an argument that is collected twice -/

theorem upc_toNat (c : Ch) : (upc c).toNat = if 97 ≤ c.toNat ∧ c.toNat ≤ 122 then c.toNat - 32 else c.toNat := by
  unfold upc
  split
  · rename_i h
    simp only [UInt8.toNat_ofNat']
    omega
  · rfl

theorem upc_upc (c : Ch) : upc (upc c) = upc c := by
  apply UInt8.toNat_inj.mp
  rw [upc_toNat (upc c), upc_toNat c]
  split <;> (try split) <;> omega

theorem upc_ne (c k : Ch) (hk : k.toNat < 65 ∨ 90 < k.toNat) (h : c ≠ k) : upc c ≠ k := by
  intro e
  have e' := congrArg UInt8.toNat e
  rw [upc_toNat] at e'
  have hne : c.toNat ≠ k.toNat := fun x => h (UInt8.toNat_inj.mp x)
  split at e' <;> omega

theorem step_fold (st : St) (c : Ch) : step st (foldMarked (c, (step st c).2)) = step st c := by
  obtain ⟨mode, esc⟩ := st
  by_cases h39 : c = 39
  · subst h39; cases mode <;> cases esc <;> simp [step, foldMarked]
  · by_cases h34 : c = 34
    · subst h34; cases mode <;> cases esc <;> simp [step, foldMarked]
    · have u39 : upc c ≠ 39 := upc_ne c 39 (by decide) h39
      have u34 : upc c ≠ 34 := upc_ne c 34 (by decide) h34
      cases mode <;> cases esc <;> simp_all [step, foldMarked] <;> (repeat' split) <;> simp_all

theorem marksFrom_fold (s : Line) : ∀ st, marksFrom st ((marksFrom st s).map foldMarked) =
    (marksFrom st s).map (fun cp => (foldMarked cp, cp.2)) := by
  induction s with
  | nil => intro st; rfl
  | cons c rest ih =>
    intro st
    simp only [marksFrom, List.map_cons]
    rw [step_fold, ih]

theorem foldMarked_fold (cp : Ch × Bool) : foldMarked (foldMarked cp, cp.2) = foldMarked cp := by
  obtain ⟨c, p⟩ := cp
  cases p <;> simp [foldMarked, upc_upc]

/-- folding an argument text that was folded before changes nothing: an argument that is passed on from a macro parameter to a
nested MACRO / IRP / IRPN statement is collected (and folded) a second time with the same result -/
theorem argFold_fold_idempotent (cs : Bool) (s : Line) : foldArg cs (foldArg cs s) = foldArg cs s := by
  cases cs
  · simp only [foldArg, marks, Bool.false_eq_true, if_false]
    rw [marksFrom_fold, List.map_map]
    apply List.map_congr_left
    intro cp _
    exact foldMarked_fold cp
  · rfl
/-- `tame` is needed (known finding): in `'\\'+'a'` the constant `'\\'` ends in an escaped backslash; UpString does not
see it end, so it takes `+` for the inside of a constant and the `a` of the SECOND constant for the outside:
it stores `'\\'+'A'`, while position 6 belongs to a constant. -/
theorem argFold_finding_escaped_backslash :
    tame [39, 92, 92, 39, 43, 39, 97, 39] = false ∧
    (marks [39, 92, 92, 39, 43, 39, 97, 39])[6]? = some (97, true) ∧
    (foldArgM false [39, 92, 92, 39, 43, 39, 97, 39])[6]? = some 65 ∧
    foldArg false [39, 92, 92, 39, 43, 39, 97, 39] = [39, 92, 92, 39, 43, 39, 97, 39] := by decide

end AslModel.ArgFoldModel
