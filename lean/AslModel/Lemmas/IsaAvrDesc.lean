import AslModel.Lemmas.IsaAvrCore
/-! Lemmas for C14 / AVR: every plain decode handler *is* its scheme (`dispatch_desc`). -/
namespace AslModel.Isa.IAvr
open AslModel.PFile (Byte b b_toNat)
open AslModel.Spec.IAvr
open AslModel.Generated.IsaAvr

theorem lpmOperands_desc (x : Ctx) (hp : x.p.core ≠ cCoreMinTiny) (base : Nat) (a1 a2 : Int) :
    okBytes (lpmOperands x base a1 a2) =
      ((OpdD.reg allRegMask).field a1).bind fun r => ((OpdD.mem [6, 7]).field a2).bind fun m =>
        some (appendCode (base ||| (r <<< 4) ||| (memCode m &&& 1))) := by
  unfold lpmOperands
  rw [okBytes_andThen, toOpt_argReg x.p hp]
  cases (OpdD.reg allRegMask).field a1 with
  | none => rfl
  | some r =>
    simp only [Option.bind_some]
    by_cases h0 : 0 ≤ a2
    · have : a2.toNat = 0 ∨ a2.toNat = 1 ∨ a2.toNat = 2 ∨ a2.toNat = 3 ∨ a2.toNat = 4 ∨ a2.toNat = 5 ∨ a2.toNat = 6 ∨
          a2.toNat = 7 ∨ a2.toNat = 8 ∨ 9 ≤ a2.toNat := by omega
      rcases this with h | h | h | h | h | h | h | h | h | h
      case inr.inr.inr.inr.inr.inr.inr.inr.inr =>
        have h1 : ¬ (0 ≤ a2 ∧ a2.toNat ∈ [6, 7]) := by
          simp only [List.mem_cons, List.not_mem_nil, or_false]; omega
        have h2 : decodeMem a2 = none := by
          rw [decodeMem_eq]
          have : a2.toNat ∉ allModes := by simp only [allModes, List.mem_cons, List.not_mem_nil, or_false]; omega
          simp [this]
        simp only [h2, OpdD.field, h1, if_false]
        rfl
      all_goals (simp [decodeMem, OpdD.field, h, h0, memCode])
    · simp [decodeMem, OpdD.field, h0]

theorem dispatch_desc (x : Ctx) (hp : x.p.core ≠ cCoreMinTiny) (h : Handler) (args : List Int) (d : Desc)
    (hd : descOf x.p h args.isEmpty = some d) : okBytes (dispatch x h args) = d.run args := by
  cases h
  case fixed code mask =>
    simp only [descOf, Option.some.injEq] at hd; subst hd
    rcases args with _ | ⟨a1, t⟩ <;> simp [dispatch, decodeFixed, Desc.run, okBytes_ite', noExtra]
  case reg1 code mask =>
    simp only [descOf, Option.some.injEq] at hd; subst hd
    rcases args with _ | ⟨a1, _ | ⟨a2, t⟩⟩ <;>
      simp [dispatch, decodeReg1, Desc.run, fields_cons, okBytes_andThen, okBytes_ite', toOpt_argReg x.p hp, f0, noExtra]
    generalize OpdD.field _ a1 = o1
    cases o1 <;> simp
  case reg2 code mask =>
    simp only [descOf, Option.some.injEq] at hd; subst hd
    rcases args with _ | ⟨a1, _ | ⟨a2, _ | ⟨a3, t⟩⟩⟩ <;>
      simp [dispatch, decodeReg2, Desc.run, fields_cons, okBytes_andThen, okBytes_ite', toOpt_argReg x.p hp, f0, f1, noExtra]
    generalize OpdD.field _ a1 = o1
    generalize OpdD.field _ a2 = o2
    cases o1 <;> cases o2 <;> simp
  case reg3 code =>
    simp only [descOf, Option.some.injEq] at hd; subst hd
    rcases args with _ | ⟨a1, _ | ⟨a2, t⟩⟩ <;>
      simp [dispatch, decodeReg3, Desc.run, fields_cons, okBytes_andThen, okBytes_ite', toOpt_argReg x.p hp, f0, noExtra]
    generalize OpdD.field _ a1 = o1
    cases o1 <;> simp
  case imm code =>
    simp only [descOf, Option.some.injEq] at hd; subst hd
    rcases args with _ | ⟨a1, _ | ⟨a2, _ | ⟨a3, t⟩⟩⟩ <;>
      simp [dispatch, decodeImm, Desc.run, fields_cons, okBytes_andThen, okBytes_ite', toOpt_argReg x.p hp, f0, f1, noExtra, evalImm, field_int]
    generalize OpdD.field _ a1 = o1
    cases o1 <;> simp
    all_goals ((repeat' split) <;> first | rfl | simp_all)
  case adiw idx =>
    simp only [descOf, Option.some.injEq] at hd; subst hd
    rcases args with _ | ⟨a1, _ | ⟨a2, _ | ⟨a3, t⟩⟩⟩ <;>
      simp [dispatch, decodeADIW, Desc.run, fields_cons, okBytes_andThen, okBytes_ite', toOpt_argReg x.p hp, f0, f1, noExtra, evalAdiw, field_int]
    generalize OpdD.field _ a1 = o1
    cases o1 <;> simp
    all_goals ((repeat' split) <;> first | rfl | simp_all)
  case ldst idx =>
    by_cases hi : idx = 0
    · simp only [descOf, hi, ne_eq, not_true_eq_false, if_false, Option.some.injEq] at hd; subst hd
      rcases args with _ | ⟨a1, _ | ⟨a2, _ | ⟨a3, t⟩⟩⟩ <;>
        simp [dispatch, decodeLDST, Desc.run, fields_cons, okBytes_andThen, toOpt_argReg x.p hp, f0, f1, hi, decodeMem_eq, Option.bind_assoc]
      generalize OpdD.field (OpdD.reg _) a1 = o1
      cases o1 <;> simp [OpdD.field]
      all_goals ((repeat' split) <;> first | rfl | simp_all)
    · simp only [descOf, hi, ne_eq, not_false_eq_true, if_true, Option.some.injEq] at hd; subst hd
      rcases args with _ | ⟨a1, _ | ⟨a2, _ | ⟨a3, t⟩⟩⟩ <;>
        simp [dispatch, decodeLDST, Desc.run, fields_cons, okBytes_andThen, toOpt_argReg x.p hp, f0, f1, hi, decodeMem_eq, Option.bind_assoc]
      generalize OpdD.field (OpdD.reg _) a2 = o1
      cases o1 <;> simp [OpdD.field]
      all_goals ((repeat' split) <;> first | rfl | simp_all)
  case lddstd idx =>
    by_cases hi : idx = 0
    · simp only [descOf, hi, ne_eq, not_true_eq_false, if_false, Option.some.injEq] at hd; subst hd
      rcases args with _ | ⟨a1, _ | ⟨a2, _ | ⟨a3, _ | ⟨a4, t⟩⟩⟩⟩ <;>
        simp [dispatch, decodeLDDSTD, Desc.run, fields_cons, okBytes_andThen, okBytes_ite', toOpt_argReg x.p hp, f0, f1, f2, hi, evalLddStd, field_int, noExtra, Option.bind_assoc]
      generalize OpdD.field (OpdD.reg _) a1 = o1
      cases o1 <;> simp [OpdD.field]
      all_goals ((repeat' split) <;> first | rfl | simp_all)
    · simp only [descOf, hi, ne_eq, not_false_eq_true, if_true, Option.some.injEq] at hd; subst hd
      rcases args with _ | ⟨a1, _ | ⟨a2, _ | ⟨a3, _ | ⟨a4, t⟩⟩⟩⟩ <;>
        simp [dispatch, decodeLDDSTD, Desc.run, fields_cons, okBytes_andThen, okBytes_ite', toOpt_argReg x.p hp, f0, f1, f2, hi, evalLddStd, field_int, noExtra, Option.bind_assoc]
      generalize OpdD.field (OpdD.reg _) a3 = o1
      cases o1 <;> simp [OpdD.field]
      all_goals ((repeat' split) <;> first | rfl | simp_all)
  case inout idx =>
    by_cases hi : idx = 0
    · simp only [descOf, hi, ne_eq, not_true_eq_false, if_false, Option.some.injEq] at hd; subst hd
      rcases args with _ | ⟨a1, _ | ⟨a2, _ | ⟨a3, t⟩⟩⟩ <;>
        simp [dispatch, decodeINOUT, Desc.run, fields_cons, okBytes_andThen, okBytes_ite', toOpt_argReg x.p hp, f0, f1, f2, hi, evalInOut, field_int, noExtra, Option.bind_assoc]
      generalize OpdD.field (OpdD.reg _) a1 = o1
      cases o1 <;> simp [OpdD.field]
      all_goals ((repeat' split) <;> first | rfl | simp_all)
    · simp only [descOf, hi, ne_eq, not_false_eq_true, if_true, Option.some.injEq] at hd; subst hd
      rcases args with _ | ⟨a1, _ | ⟨a2, _ | ⟨a3, t⟩⟩⟩ <;>
        simp [dispatch, decodeINOUT, Desc.run, fields_cons, okBytes_andThen, okBytes_ite', toOpt_argReg x.p hp, f0, f1, f2, hi, evalInOut, field_int, noExtra, Option.bind_assoc]
      generalize OpdD.field (OpdD.reg _) a2 = o1
      cases o1 <;> simp [OpdD.field]
      all_goals ((repeat' split) <;> first | rfl | simp_all)
  case bclrset idx =>
    simp only [descOf, Option.some.injEq] at hd; subst hd
    rcases args with _ | ⟨a1, _ | ⟨a2, t⟩⟩ <;>
      simp [dispatch, decodeBCLRSET, Desc.run, fields_cons, okBytes_andThen, f0, noExtra, evalBclrSet, field_int]
    all_goals ((repeat' split) <;> first | rfl | simp_all)
  case bit code =>
    simp only [descOf, Option.some.injEq] at hd; subst hd
    rcases args with _ | ⟨a1, _ | ⟨a2, _ | ⟨a3, t⟩⟩⟩ <;>
      simp [dispatch, decodeBit, Desc.run, fields_cons, okBytes_andThen, toOpt_argReg x.p hp, f0, f1, noExtra, evalBit, field_int]
    generalize OpdD.field _ a1 = o1
    cases o1 <;> simp
    all_goals ((repeat' split) <;> first | rfl | simp_all)
  case cbr idx =>
    simp only [descOf, Option.some.injEq] at hd; subst hd
    rcases args with _ | ⟨a1, _ | ⟨a2, _ | ⟨a3, t⟩⟩⟩ <;>
      simp [dispatch, decodeCBR, Desc.run, fields_cons, okBytes_andThen, toOpt_argReg x.p hp, f0, f1, noExtra, evalCbr, field_int]
    generalize OpdD.field _ a1 = o1
    cases o1 <;> simp
    all_goals ((repeat' split) <;> first | rfl | simp_all)
  case ser idx =>
    simp only [descOf, Option.some.injEq] at hd; subst hd
    rcases args with _ | ⟨a1, _ | ⟨a2, t⟩⟩ <;>
      simp [dispatch, decodeSER, Desc.run, fields_cons, okBytes_andThen, toOpt_argReg x.p hp, f0, noExtra]
    generalize OpdD.field _ a1 = o1
    cases o1 <;> simp
  case muls idx =>
    simp only [descOf, Option.some.injEq] at hd; subst hd
    rcases args with _ | ⟨a1, _ | ⟨a2, _ | ⟨a3, t⟩⟩⟩ <;>
      simp [dispatch, decodeMULS, Desc.run, fields_cons, okBytes_andThen, okBytes_ite', toOpt_argReg x.p hp, f0, f1, noExtra]
    generalize OpdD.field _ a1 = o1
    generalize OpdD.field _ a2 = o2
    cases o1 <;> cases o2 <;> simp
  case megamul idx =>
    simp only [descOf, Option.some.injEq] at hd; subst hd
    rcases args with _ | ⟨a1, _ | ⟨a2, _ | ⟨a3, t⟩⟩⟩ <;>
      simp [dispatch, decodeMegaMUL, Desc.run, fields_cons, okBytes_andThen, okBytes_ite', toOpt_argReg x.p hp, f0, f1, noExtra]
    generalize OpdD.field _ a1 = o1
    generalize OpdD.field _ a2 = o2
    cases o1 <;> cases o2 <;> simp
  case movw idx =>
    simp only [descOf, Option.some.injEq] at hd; subst hd
    rcases args with _ | ⟨a1, _ | ⟨a2, _ | ⟨a3, t⟩⟩⟩ <;>
      simp [dispatch, decodeMOVW, Desc.run, fields_cons, okBytes_andThen, okBytes_ite', toOpt_argReg x.p hp, f0, f1, noExtra]
    generalize OpdD.field _ a1 = o1
    generalize OpdD.field _ a2 = o2
    cases o1 <;> cases o2 <;> simp
  case lpm idx =>
    rcases args with _ | ⟨a1, _ | ⟨a2, _ | ⟨a3, t⟩⟩⟩ <;>
      simp only [descOf, List.isEmpty_nil, List.isEmpty_cons, if_true, Bool.false_eq_true, if_false, Option.some.injEq] at hd <;> subst hd <;>
      simp [dispatch, decodeLPM, lpmOperands_desc x hp, Desc.run, fields_cons, okBytes_ite', f0, f1, noExtra, Option.bind_assoc]
  case elpm idx =>
    rcases args with _ | ⟨a1, _ | ⟨a2, _ | ⟨a3, t⟩⟩⟩ <;>
      simp only [descOf, List.isEmpty_nil, List.isEmpty_cons, if_true, Bool.false_eq_true, if_false, Option.some.injEq] at hd <;> subst hd <;>
      simp [dispatch, decodeELPM, lpmOperands_desc x hp, Desc.run, fields_cons, okBytes_ite', f0, f1, noExtra, Option.bind_assoc]
  all_goals (simp [descOf] at hd)

end AslModel.Isa.IAvr
