import AslModel.Model.Cond
/-!
# Conditional assembly — lemmas

* `flat_ok`/`flatB_ok`/`flatE_ok`/`flatC_ok`: the stack machine of `asmif.c`, run on the flattening of a
  skeleton, leaves its control state alone and emits exactly the documented selection (frame predicate
  `Same`, composed by `same_trans`).
* `lock_step`/`run_reject`: the machine in lock step with the pushdown recogniser `wnStep`.
-/
set_option linter.unusedSimpArgs false
namespace AslModel.Cond

variable {cfg : Cfg}

theorem run_append (m : M) (a b : List Stmt) : run cfg m (a ++ b) = run cfg (run cfg m a) b := by
  simp [run, List.foldl_append]

theorem run_nil (m : M) : run cfg m [] = m := rfl

theorem run_cons (m : M) (s : Stmt) (ss : List Stmt) : run cfg m (s :: ss) = run cfg (step cfg m s) ss := rfl

/-- only "no CASE hit" warnings were added -/
def Warned (e e' : List Nat) : Prop := ∃ k, e' = List.replicate k errNoCaseHit ++ e

theorem warned_refl (e : List Nat) : Warned e e := ⟨0, rfl⟩

theorem warned_trans {a b c : List Nat} (h1 : Warned a b) (h2 : Warned b c) : Warned a c := by
  obtain ⟨k1, h1⟩ := h1
  obtain ⟨k2, h2⟩ := h2
  exact ⟨k2 + k1, by rw [h2, h1, ← List.append_assoc, List.replicate_append_replicate]⟩

theorem warned_one (e : List Nat) : Warned e (errNoCaseHit :: e) := ⟨1, rfl⟩

theorem hard_of_warned {e : List Nat} (h : Warned [] e) : e.filter (· ≥ 1000) = [] := by
  obtain ⟨k, hk⟩ := h
  subst hk
  simp [errNoCaseHit]

/- every IFB/IFNB of the skeleton is judged by the model as the manual says -/
mutual
def faithful (cfg : Cfg) : Skel → Bool
  | .leaf _ => true
  | .ladder c b e => (evalCond cfg c == c.holds) && faithfulB cfg b && faithfulE cfg e
  | .switch _ pre cs => faithfulB cfg pre && faithfulC cfg cs
def faithfulB (cfg : Cfg) : Block → Bool
  | .nil => true
  | .cons s b => faithful cfg s && faithfulB cfg b
def faithfulE (cfg : Cfg) : Elifs → Bool
  | .done => true
  | .els b => faithfulB cfg b
  | .elif _ b e => faithfulB cfg b && faithfulE cfg e
def faithfulC (cfg : Cfg) : Cases → Bool
  | .done => true
  | .elsecase b => faithfulB cfg b
  | .case _ _ b cs => faithfulB cfg b && faithfulC cfg cs
end

/-- with a loop that looks at every argument the model's verdict is the documented one -/
theorem blankLoop_one (nb : List Bool) : blankLoop 1 0 nb = nb.all (!·) := by
  induction nb with
  | nil => rfl
  | cons a r ih => simp [blankLoop, ih]

theorem evalCond_stride1 (cfg : Cfg) (h : cfg.ifbStride = 1) (c : Cond) : evalCond cfg c = c.holds := by
  cases c <;> simp [evalCond, Cond.holds, h, blankLoop_one]

mutual
theorem faithful_stride1 (cfg : Cfg) (h : cfg.ifbStride = 1) (s : Skel) : faithful cfg s = true := by
  cases s with
  | leaf k => rfl
  | ladder c b e => simp [faithful, evalCond_stride1 cfg h, faithfulB_stride1 cfg h b, faithfulE_stride1 cfg h e]
  | switch v pre cs => simp [faithful, faithfulB_stride1 cfg h pre, faithfulC_stride1 cfg h cs]
theorem faithfulB_stride1 (cfg : Cfg) (h : cfg.ifbStride = 1) (b : Block) : faithfulB cfg b = true := by
  cases b with
  | nil => rfl
  | cons s b => simp [faithfulB, faithful_stride1 cfg h s, faithfulB_stride1 cfg h b]
theorem faithfulE_stride1 (cfg : Cfg) (h : cfg.ifbStride = 1) (e : Elifs) : faithfulE cfg e = true := by
  cases e with
  | done => rfl
  | els b => simp [faithfulE, faithfulB_stride1 cfg h b]
  | elif c b e => simp [faithfulE, faithfulB_stride1 cfg h b, faithfulE_stride1 cfg h e]
theorem faithfulC_stride1 (cfg : Cfg) (h : cfg.ifbStride = 1) (cs : Cases) : faithfulC cfg cs = true := by
  cases cs with
  | done => rfl
  | elsecase b => simp [faithfulC, faithfulB_stride1 cfg h b]
  | case v vs b cs => simp [faithfulC, faithfulB_stride1 cfg h b, faithfulC_stride1 cfg h cs]
end

/-! ## events of a leaf -/

/-- everything an assembled leaf does, in order: the label in front (`labelPart`), then the statement -/
def leafEvs (l : Leaf) : List Ev :=
  (if (!l.isMacro || !l.intLabel) && l.labelPresent then [.define l.sym] else []) ++ l.exec

/-- the events of a list of assembled leaves -/
def evs (ls : List Leaf) : List Ev := ls.flatMap leafEvs

@[simp] theorem evs_nil : evs [] = [] := rfl
@[simp] theorem evs_append (a b : List Leaf) : evs (a ++ b) = evs a ++ evs b := by simp [evs]
@[simp] theorem evs_singleton (l : Leaf) : evs [l] = leafEvs l := by simp [evs]

theorem filterMap_evs {α} (f : Ev → Option α) (ls : List Leaf) :
    (evs ls).filterMap f = ls.flatMap (fun l => (leafEvs l).filterMap f) := by
  induction ls with
  | nil => rfl
  | cons l ls ih =>
    have : evs (l :: ls) = leafEvs l ++ evs ls := by simp [evs]
    rw [this, List.filterMap_append, ih]; simp

/-- the model's label condition and statement execution give the documented code, definitions and references -/
theorem leafEvs_code (l : Leaf) : (leafEvs l).filterMap Ev.code? = l.code := by
  obtain ⟨m, k, s⟩ := l
  cases k <;> rfl
theorem leafEvs_define (l : Leaf) : (leafEvs l).filterMap Ev.define? = l.defines := by
  obtain ⟨m, k, s⟩ := l
  cases k <;> rfl
theorem leafEvs_use (l : Leaf) : (leafEvs l).filterMap Ev.use? = l.uses := by
  obtain ⟨m, k, s⟩ := l
  cases k <;> rfl

theorem leafEvs_effect (l : Leaf) : (leafEvs l).filterMap Ev.effect? = l.effects := by
  obtain ⟨m, k, s⟩ := l
  cases k <;> rfl

theorem evs_effect (ls : List Leaf) : (evs ls).filterMap Ev.effect? = effectsOf ls := by
  rw [filterMap_evs]; simp only [leafEvs_effect]; rfl
theorem evs_code (ls : List Leaf) : (evs ls).filterMap Ev.code? = codeOf ls := by
  rw [filterMap_evs]; simp only [leafEvs_code]; rfl
theorem evs_define (ls : List Leaf) : (evs ls).filterMap Ev.define? = definedBy ls := by
  rw [filterMap_evs]; simp only [leafEvs_define]; rfl
theorem evs_use (ls : List Leaf) : (evs ls).filterMap Ev.use? = usedBy ls := by
  rw [filterMap_evs]; simp only [leafEvs_use]; rfl

/-! ## frame predicate -/

/-- a flattened skeleton/block leaves the machine's control state alone, reports nothing but
"no CASE hit" warnings, and emits exactly `emitted` if it was active and nothing otherwise -/
structure Same (m m' : M) (emitted : List Leaf) : Prop where
  ifAsm : m'.ifAsm = m.ifAsm
  stack : m'.stack = m.stack
  crashed : m'.crashed = false
  errs : Warned m.errs m'.errs
  out : m'.out = (if m.ifAsm then (evs emitted).reverse else []) ++ m.out

theorem same_trans {m m1 m2 : M} {a b : List Leaf} (h1 : Same m m1 a) (h2 : Same m1 m2 b) :
    Same m m2 (a ++ b) := by
  refine ⟨by rw [h2.ifAsm, h1.ifAsm], by rw [h2.stack, h1.stack], h2.crashed,
    warned_trans h1.errs h2.errs, ?_⟩
  rw [h2.out, h1.out, h1.ifAsm]
  by_cases h : m.ifAsm <;> simp [h]

theorem same_refl (m : M) (hc : m.crashed = false) : Same m m [] :=
  ⟨rfl, rfl, hc, warned_refl _, by simp⟩

/-! ## named intermediate states and one-statement lemmas -/

theorem run_leaf (m : M) (hc : m.crashed = false) (k : Leaf) :
    run cfg m [.leaf k] = if m.ifAsm then { m with out := (leafEvs k).reverse ++ m.out } else m := by
  by_cases h : m.ifAsm <;> by_cases h1 : (!k.isMacro || !k.intLabel) = true <;> by_cases h2 : k.labelPresent = true <;>
    simp [run, step, hc, labelPart, leafEvs, h, h1, h2]

theorem step_leaf (m : M) (hc : m.crashed = false) (k : Leaf) :
    step cfg m (.leaf k) = if m.ifAsm then { m with out := (leafEvs k).reverse ++ m.out } else m :=
  run_leaf (cfg := cfg) m hc k

theorem codeIF_flat (m : M) (c : Cond) :
    codeIF cfg m c.argc c = pushIF m (if m.ifAsm then evalCond cfg c else true) := by
  by_cases h : m.ifAsm <;> cases c <;> simp [codeIF, h, Cond.argc]

theorem run_iff (m : M) (hc : m.crashed = false) (c : Cond) :
    run cfg m [.iff c.argc c] = pushIF m (if m.ifAsm then evalCond cfg c else true) := by
  simp only [run, List.foldl, step, hc]
  exact codeIF_flat m c

def afterEls (m : M) (f : Frame) (rest : List Frame) : M :=
  { m with ifAsm := (if f.saveIfAsm then !f.caseFound else m.ifAsm),
           stack := { f with state := .ifelse } :: rest }

theorem run_els (m : M) (hc : m.crashed = false) (f rest) (hst : m.stack = f :: rest) (hs : f.state = .ifif) (c : Bool) :
    run cfg m [.elseif 0 c] = afterEls m f rest := by
  simp [run, step, hc, codeELSEIF, hst, hs, afterEls]

def afterElif (m : M) (f : Frame) (rest : List Frame) (c : Bool) : M :=
  { m with ifAsm := f.saveIfAsm && elifVal f c && !f.caseFound,
           stack := { f with caseFound := f.caseFound || elifVal f c } :: rest }

theorem run_elif (m : M) (hc : m.crashed = false) (f rest c) (hst : m.stack = f :: rest) (hs : f.state = .ifif) :
    run cfg m [.elseif 1 c] = afterElif m f rest c := by
  simp [run, step, hc, codeELSEIF, hst, hs, afterElif]

def afterEndif (m : M) (f : Frame) (rest : List Frame) : M :=
  { m with ifAsm := f.saveIfAsm, stack := rest }

theorem run_endif (m : M) (hc : m.crashed = false) (f rest) (hst : m.stack = f :: rest)
    (hs : f.state = .ifif ∨ f.state = .ifelse) :
    run cfg m [.endif 0] = afterEndif m f rest := by
  rcases hs with hs | hs <;> simp [run, step, hc, codeENDIF, hst, hs, afterEndif]

def afterSwitch (m : M) (v : Val) : M :=
  { m with stack := ⟨.caseswitch, false, m.ifAsm, some (if m.ifAsm then v else .int 1), saveIFs m + 1⟩ :: m.stack }

theorem run_switch (m : M) (hc : m.crashed = false) (v : Val) :
    run cfg m [.switch 1 v] = afterSwitch m v := by
  by_cases h : m.ifAsm <;> simp [run, step, hc, codeSWITCH, h, afterSwitch]

def afterCase (m : M) (f : Frame) (rest : List Frame) (vals : List Val) : M :=
  { m with ifAsm := f.saveIfAsm && caseEq f vals && !f.caseFound,
           stack := { f with caseFound := f.caseFound || caseEq f vals, state := .casecase } :: rest }

theorem run_case (m : M) (hc : m.crashed = false) (f rest) (v : Val) (vs : List Val) (hst : m.stack = f :: rest)
    (hs : f.state = .caseswitch ∨ f.state = .casecase) :
    run cfg m [.case (v :: vs)] = afterCase m f rest (v :: vs) := by
  rcases hs with hs | hs <;> simp [run, step, hc, codeCASE, hst, hs, afterCase]

def afterElsecase (m : M) (f : Frame) (rest : List Frame) : M :=
  { m with ifAsm := f.saveIfAsm && !f.caseFound,
           stack := { f with caseFound := true, state := .caseelse } :: rest }

theorem run_elsecase (m : M) (hc : m.crashed = false) (f rest) (hst : m.stack = f :: rest)
    (hs : f.state = .caseswitch ∨ f.state = .casecase) :
    run cfg m [.elsecase 0] = afterElsecase m f rest := by
  rcases hs with hs | hs <;> simp [run, step, hc, codeELSECASE, hst, hs, afterElsecase]

def afterEndcase (cfg : Cfg) (m : M) (f : Frame) (rest : List Frame) : M :=
  if f.caseFound || (!cfg.deadSwitchWarns && !f.saveIfAsm) then { m with ifAsm := f.saveIfAsm, stack := rest }
  else { m with ifAsm := f.saveIfAsm, errs := errNoCaseHit :: m.errs, stack := rest }

theorem run_endcase (m : M) (hc : m.crashed = false) (f rest) (hst : m.stack = f :: rest)
    (hs : f.state = .caseswitch ∨ f.state = .casecase ∨ f.state = .caseelse) :
    run cfg m [.endcase 0] = afterEndcase cfg m f rest := by
  rcases hs with hs | hs | hs <;> simp [run, step, hc, codeENDCASE, hst, hs, afterEndcase]

theorem valEq_some (t x : Val) : valEq t (some x) = (x == t) := by
  cases t <;> cases x <;> simp [valEq] <;>
    (rw [Bool.eq_iff_iff]; simp only [beq_iff_eq, Val.int.injEq, Val.flt.injEq, Val.str.injEq]; exact eq_comm)

theorem caseLoop_contains (x : Val) (l : List Val) : caseLoop (some x) l = l.contains x := by
  induction l with
  | nil => rfl
  | cons t r ih =>
    simp only [caseLoop, valEq_some, ih, List.contains_cons]
    by_cases h : x == t <;> simp [h]

/-! ## the refinement: flattening of a skeleton on the stack machine -/

/- the selection with the model's own IFB verdicts (`evalCond`) instead of the documented ones -/
mutual
def msel (cfg : Cfg) : Skel → List Leaf
  | .leaf m => [m]
  | .ladder c b e => if evalCond cfg c then mselB cfg b else mselE cfg e
  | .switch v pre cs => mselB cfg pre ++ mselC cfg v cs
def mselB (cfg : Cfg) : Block → List Leaf
  | .nil => []
  | .cons s b => msel cfg s ++ mselB cfg b
def mselE (cfg : Cfg) : Elifs → List Leaf
  | .done => []
  | .els b => mselB cfg b
  | .elif c b e => if c then mselB cfg b else mselE cfg e
def mselC (cfg : Cfg) (x : Val) : Cases → List Leaf
  | .done => []
  | .elsecase b => mselB cfg b
  | .case v vs b cs => if (v :: vs).contains x then mselB cfg b else mselC cfg x cs
end

mutual
theorem msel_eq (s : Skel) (hf : faithful cfg s = true) : msel cfg s = sel s := by
  cases s with
  | leaf k => rfl
  | ladder c b e =>
    simp only [faithful, Bool.and_eq_true, beq_iff_eq] at hf
    simp only [msel, sel, hf.1.1, mselB_eq b hf.1.2, mselE_eq e hf.2]
  | switch v pre cs =>
    simp only [faithful, Bool.and_eq_true] at hf
    simp only [msel, sel, mselB_eq pre hf.1, mselC_eq v cs hf.2]
theorem mselB_eq (b : Block) (hf : faithfulB cfg b = true) : mselB cfg b = selB b := by
  cases b with
  | nil => rfl
  | cons s b =>
    simp only [faithfulB, Bool.and_eq_true] at hf
    simp only [mselB, selB, msel_eq s hf.1, mselB_eq b hf.2]
theorem mselE_eq (e : Elifs) (hf : faithfulE cfg e = true) : mselE cfg e = selE e := by
  cases e with
  | done => rfl
  | els b =>
    simp only [faithfulE] at hf
    simp only [mselE, selE, mselB_eq b hf]
  | elif c b e =>
    simp only [faithfulE, Bool.and_eq_true] at hf
    simp only [mselE, selE, mselB_eq b hf.1, mselE_eq e hf.2]
theorem mselC_eq (x : Val) (cs : Cases) (hf : faithfulC cfg cs = true) : mselC cfg x cs = selC x cs := by
  cases cs with
  | done => rfl
  | elsecase b =>
    simp only [faithfulC] at hf
    simp only [mselC, selC, mselB_eq b hf]
  | case v vs b cs =>
    simp only [faithfulC, Bool.and_eq_true] at hf
    simp only [mselC, selC, mselB_eq b hf.1, mselC_eq x cs hf.2]
end

mutual
theorem flat_ok (s : Skel) (m : M) (hc : m.crashed = false) :
    Same m (run cfg m (flat s)) (msel cfg s) := by
  cases s with
  | leaf k =>
    rw [flat, run_leaf m hc]
    by_cases h : m.ifAsm <;> simp only [h, if_true] <;>
      exact ⟨by simp [h], rfl, hc, warned_refl _, by simp [h, msel]⟩
  | ladder c b e =>
    simp only [flat, run_append, run_iff m hc]
    have hc1 : (pushIF m (if m.ifAsm then evalCond cfg c else true)).crashed = false := hc
    have hb := flatB_ok b (pushIF m (if m.ifAsm then evalCond cfg c else true)) hc1
    have he := flatE_ok e (run cfg (pushIF m (if m.ifAsm then evalCond cfg c else true)) (flatB b))
      ⟨.ifif, (if m.ifAsm then evalCond cfg c else true), m.ifAsm, none, saveIFs m + 1⟩ m.stack hb.crashed
      (by rw [hb.stack]; rfl) rfl (by
        intro hs; rw [hb.ifAsm]; simp at hs; simp [pushIF, hs])
    obtain ⟨f', hst, hsave, hstate, hcr, herr, hout⟩ := he
    rw [run_endif _ hcr f' m.stack hst hstate]
    have hbe : Warned m.errs (run cfg (pushIF m (if m.ifAsm then evalCond cfg c else true)) (flatB b)).errs := hb.errs
    refine ⟨by simp [afterEndif, hsave], rfl, by simpa [afterEndif] using hcr,
      by simpa [afterEndif] using warned_trans hbe herr, ?_⟩
    simp only [afterEndif, hout, hb.out, msel]
    by_cases h : m.ifAsm <;> by_cases hcc : evalCond cfg c <;> simp [pushIF, h, hcc]
  | switch v pre cs =>
    simp only [flat, run_append, run_switch m hc]
    have hc1 : (afterSwitch m v).crashed = false := hc
    have hp := flatB_ok pre (afterSwitch m v) hc1
    have hcs := flatC_ok cs v (run cfg (afterSwitch m v) (flatB pre))
      ⟨.caseswitch, false, m.ifAsm, some (if m.ifAsm then v else .int 1), saveIFs m + 1⟩ m.stack hp.crashed
      (by rw [hp.stack]; rfl) (Or.inl rfl) (by intro hs; simp at hs; simp [hs])
    obtain ⟨f', hst, hsave, hstate, hcr, herr, hout⟩ := hcs
    rw [run_endcase _ hcr f' m.stack hst hstate]
    refine ⟨?_, ?_, ?_, ?_, ?_⟩
    · unfold afterEndcase; split <;> simp [hsave]
    · unfold afterEndcase; split <;> rfl
    · unfold afterEndcase; split <;> simpa using hcr
    · have hpe : Warned m.errs (run cfg (afterSwitch m v) (flatB pre)).errs := hp.errs
      have h0 := warned_trans hpe herr
      unfold afterEndcase; split
      · simpa using h0
      · exact warned_trans h0 (warned_one _)
    · have : (afterEndcase cfg (run cfg (run cfg (afterSwitch m v) (flatB pre)) (flatC cs)) f' m.stack).out
          = (run cfg (run cfg (afterSwitch m v) (flatB pre)) (flatC cs)).out := by
        unfold afterEndcase; split <;> rfl
      rw [this, hout, hp.out]
      simp only [msel]
      by_cases h : m.ifAsm <;> simp [afterSwitch, h]
theorem flatB_ok (l : Block) (m : M) (hc : m.crashed = false) :
    Same m (run cfg m (flatB l)) (mselB cfg l) := by
  cases l with
  | nil => simpa [flatB, run_nil, mselB] using same_refl m hc
  | cons s ss =>
    simp only [flatB, run_append, mselB]
    have h1 := flat_ok s m hc
    exact same_trans h1 (flatB_ok ss (run cfg m (flat s)) h1.crashed)
theorem flatE_ok (e : Elifs) (m : M) (f : Frame) (rest : List Frame) (hc : m.crashed = false)
    (hst : m.stack = f :: rest) (hstate : f.state = .ifif)
    (hdead : f.saveIfAsm = false → m.ifAsm = false) :
    ∃ f', (run cfg m (flatE e)).stack = f' :: rest ∧ f'.saveIfAsm = f.saveIfAsm ∧
      (f'.state = .ifif ∨ f'.state = .ifelse) ∧
      (run cfg m (flatE e)).crashed = false ∧
      Warned m.errs (run cfg m (flatE e)).errs ∧
      (run cfg m (flatE e)).out = (if f.saveIfAsm && !f.caseFound then (evs (mselE cfg e)).reverse else []) ++ m.out := by
  cases e with
  | done => exact ⟨f, by simp [flatE, run_nil, hst], rfl, Or.inl hstate, by simpa [flatE, run_nil] using hc,
      by simpa [flatE, run_nil] using warned_refl _, by simp [flatE, run_nil, mselE]⟩
  | els b =>
    simp only [flatE, run_append, run_els m hc f rest hst hstate]
    have hc1 : (afterEls m f rest).crashed = false := hc
    have hb := flatB_ok b (afterEls m f rest) hc1
    refine ⟨{ f with state := .ifelse }, by rw [hb.stack]; rfl, rfl, Or.inr rfl, hb.crashed, hb.errs, ?_⟩
    rw [hb.out]
    simp only [mselE]
    by_cases hs : f.saveIfAsm <;> by_cases hcf : f.caseFound <;> simp [afterEls, hs, hcf, hdead]
  | elif c b e' =>
    simp only [flatE, run_append, run_elif m hc f rest c hst hstate]
    have hc1 : (afterElif m f rest c).crashed = false := hc
    have hb := flatB_ok b (afterElif m f rest c) hc1
    have he := flatE_ok e' (run cfg (afterElif m f rest c) (flatB b))
      { f with caseFound := f.caseFound || elifVal f c } rest hb.crashed
      (by rw [hb.stack]; rfl) hstate (by
        intro hs; rw [hb.ifAsm]; simp at hs; simp [afterElif, hs])
    obtain ⟨f', hst', hsave', hstate', hcr', herr', hout'⟩ := he
    refine ⟨f', hst', by rw [hsave'], hstate', hcr', warned_trans hb.errs herr', ?_⟩
    rw [hout', hb.out]
    simp only [mselE]
    by_cases hs : f.saveIfAsm <;> by_cases hcf : f.caseFound <;> by_cases hcc : c <;>
      simp [afterElif, elifVal, hs, hcf, hcc]
theorem flatC_ok (cs : Cases) (x : Val) (m : M) (f : Frame) (rest : List Frame) (hc : m.crashed = false)
    (hst : m.stack = f :: rest) (hstate : f.state = .caseswitch ∨ f.state = .casecase)
    (hx : f.saveIfAsm = true → f.saveExpr = some x) :
    ∃ f', (run cfg m (flatC cs)).stack = f' :: rest ∧ f'.saveIfAsm = f.saveIfAsm ∧
      (f'.state = .caseswitch ∨ f'.state = .casecase ∨ f'.state = .caseelse) ∧
      (run cfg m (flatC cs)).crashed = false ∧
      Warned m.errs (run cfg m (flatC cs)).errs ∧
      (run cfg m (flatC cs)).out = (if f.saveIfAsm && !f.caseFound then (evs (mselC cfg x cs)).reverse else []) ++ m.out := by
  cases cs with
  | done =>
    refine ⟨f, by simp [flatC, run_nil, hst], rfl, ?_, by simpa [flatC, run_nil] using hc,
      by simpa [flatC, run_nil] using warned_refl _, by simp [flatC, run_nil, mselC]⟩
    rcases hstate with h | h
    · exact Or.inl h
    · exact Or.inr (Or.inl h)
  | elsecase b =>
    simp only [flatC, run_append, run_elsecase m hc f rest hst hstate]
    have hc1 : (afterElsecase m f rest).crashed = false := hc
    have hb := flatB_ok b (afterElsecase m f rest) hc1
    refine ⟨{ f with caseFound := true, state := .caseelse }, by rw [hb.stack]; rfl, rfl,
      Or.inr (Or.inr rfl), hb.crashed, hb.errs, ?_⟩
    rw [hb.out]
    simp only [mselC]
    by_cases hs : f.saveIfAsm <;> by_cases hcf : f.caseFound <;> simp [afterElsecase, hs, hcf]
  | case v vs b cs' =>
    simp only [flatC, run_append, run_case m hc f rest v vs hst hstate]
    have hc1 : (afterCase m f rest (v :: vs)).crashed = false := hc
    have hb := flatB_ok b (afterCase m f rest (v :: vs)) hc1
    have he := flatC_ok cs' x (run cfg (afterCase m f rest (v :: vs)) (flatB b))
      { f with caseFound := f.caseFound || caseEq f (v :: vs), state := .casecase } rest hb.crashed
      (by rw [hb.stack]; rfl) (Or.inr rfl) hx
    obtain ⟨f', hst', hsave', hstate', hcr', herr', hout'⟩ := he
    refine ⟨f', hst', by rw [hsave'], hstate', hcr', warned_trans hb.errs herr', ?_⟩
    rw [hout', hb.out]
    simp only [mselC]
    by_cases hs : f.saveIfAsm
    · have hxe := hx hs
      by_cases hcf : f.caseFound <;> by_cases hin : (x = v ∨ x ∈ vs) <;>
        simp [afterCase, caseEq, hs, hcf, hxe, caseLoop_contains, hin]
    · simp [afterCase, caseEq, hs]
end

/-- a whole pass over a faithful skeleton: the events are exactly those of the documented selection, the control
state is as at the start -/
theorem select_out (b : Block) (hf : faithfulB cfg b = true) :
    endPass (run cfg init (flatB b)) = run cfg init (flatB b) ∧
    (run cfg init (flatB b)).out.reverse = evs (selB b) ∧ (run cfg init (flatB b)).stack = [] ∧
    (run cfg init (flatB b)).ifAsm = true ∧ (run cfg init (flatB b)).crashed = false ∧
    Warned [] (run cfg init (flatB b)).errs := by
  have h := flatB_ok (cfg := cfg) b init rfl
  have hst : (run cfg init (flatB b)).stack = [] := h.stack
  refine ⟨by simp [endPass, h.crashed, hst], ?_, hst, h.ifAsm, h.crashed, h.errs⟩
  rw [h.out, ← mselB_eq b hf]
  simp [init]

/-! ## lock step with the pushdown recogniser -/

def stOf : Open → St
  | .ifThen => .ifif | .ifElse => .ifelse | .swHead => .caseswitch | .swCase => .casecase | .swElse => .caseelse

/-- the pass did not go through silently: the assembler died or reported an error (number ≥ 1000) -/
def Bad (m : M) : Prop := m.crashed = true ∨ ∃ e ∈ m.errs, e ≥ 1000

/-- the machine's stack of open constructs is the recogniser's -/
def Agree (m : M) (st : List Open) : Prop := m.crashed = false ∧ m.stack.map (·.state) = st.map stOf

theorem step_errs (m : M) (s : Stmt) : ∃ l, (step cfg m s).errs = l ++ m.errs := by
  unfold step
  split
  · exact ⟨[], rfl⟩
  · cases s with
    | leaf k =>
      refine ⟨[], ?_⟩
      simp only [labelPart]
      (repeat' split) <;> rfl
    | iff argc c =>
      simp only [codeIF]
      split
      · exact ⟨[], rfl⟩
      · split
        · exact ⟨[], rfl⟩
        · split
          · exact ⟨[errWrongArgCnt], rfl⟩
          · exact ⟨[], rfl⟩
    | elseif argc c =>
      simp only [codeELSEIF]
      split
      · exact ⟨[errMissingIf], rfl⟩
      · split
        · exact ⟨[errMissingIf], rfl⟩
        · split
          · exact ⟨[], rfl⟩
          · split
            · exact ⟨[], rfl⟩
            · exact ⟨[errWrongArgCnt], rfl⟩
    | endif argc =>
      simp only [codeENDIF]
      split
      · exact ⟨[errWrongArgCnt], rfl⟩
      · split
        · exact ⟨[errMissingIf], rfl⟩
        · split
          · exact ⟨[errMissingIf], rfl⟩
          · exact ⟨[], rfl⟩
    | switch argc v =>
      simp only [codeSWITCH]
      split
      · by_cases h : m.ifAsm
        · exact ⟨[errWrongArgCnt], by simp [h, M.err]⟩
        · exact ⟨[], by simp [h]⟩
      · exact ⟨[], rfl⟩
    | case vals =>
      simp only [codeCASE]
      split
      · exact ⟨[errMissingIf], rfl⟩
      · split
        · exact ⟨[errWrongArgCnt], rfl⟩
        · split
          · exact ⟨[errInvIfConst], rfl⟩
          · exact ⟨[], rfl⟩
    | elsecase argc =>
      simp only [codeELSECASE]
      split
      · exact ⟨[errWrongArgCnt], rfl⟩
      · split
        · split
          · exact ⟨[], rfl⟩
          · exact ⟨[errMissingIf], rfl⟩
        · split
          · exact ⟨[errInvIfConst], rfl⟩
          · exact ⟨[], rfl⟩
    | endcase argc =>
      simp only [codeENDCASE]
      split
      · exact ⟨[errWrongArgCnt], rfl⟩
      · split
        · exact ⟨[errMissingIf], rfl⟩
        · split
          · exact ⟨[errInvIfConst], rfl⟩
          · split
            · exact ⟨[], rfl⟩
            · exact ⟨[errNoCaseHit], rfl⟩

theorem step_crashed (m : M) (s : Stmt) (h : m.crashed = true) : step cfg m s = m := by
  simp [step, h]

theorem bad_step (m : M) (s : Stmt) (h : Bad m) : Bad (step cfg m s) := by
  by_cases hc : m.crashed = true
  · rw [step_crashed m s hc]; exact h
  · rcases h with h | ⟨e, he, hge⟩
    · exact absurd h hc
    · obtain ⟨l, hl⟩ := step_errs (cfg := cfg) m s
      exact Or.inr ⟨e, by rw [hl]; exact List.mem_append_right l he, hge⟩

theorem bad_run (ss : List Stmt) (m : M) (h : Bad m) : Bad (run cfg m ss) := by
  induction ss generalizing m with
  | nil => exact h
  | cons s ss ih => rw [run_cons]; exact ih _ (bad_step m s h)

theorem agree_nil_cons {m : M} {o : Open} {r : List Open} (hm : m.stack = []) (h : m.stack.map (·.state) = (o :: r).map stOf) : False := by
  simp [hm] at h

theorem agree_cons_nil {m : M} {f : Frame} {rest : List Frame} (hm : m.stack = f :: rest) (h : m.stack.map (·.state) = ([] : List Open).map stOf) : False := by
  simp [hm] at h

theorem agree_cons_cons {m : M} {f : Frame} {rest : List Frame} {o : Open} {r : List Open} (hm : m.stack = f :: rest)
    (h : m.stack.map (·.state) = (o :: r).map stOf) : f.state = stOf o ∧ rest.map (·.state) = r.map stOf := by
  simpa [hm] using h

/-- one statement: as long as the recogniser accepts, machine and recogniser agree on the open constructs (and
a statement with a well-formed argument list adds at most a warning); when the recogniser rejects, the machine
reports an error or dies -/
theorem lock_step (m : M) (st : List Open) (s : Stmt) (h : Agree m st) :
    match wnStep st s with
    | some st' => Agree (step cfg m s) st' ∧ (s.argsOK = true → Warned m.errs (step cfg m s).errs)
    | none => Bad (step cfg m s) := by
  obtain ⟨hc, hmap⟩ := h
  cases s with
  | leaf k =>
    rw [step_leaf m hc k]
    by_cases hi : m.ifAsm <;> simp [wnStep, hc, hi, Agree, hmap, warned_refl]
  | iff argc c =>
    simp only [wnStep, step, hc, codeIF, Bool.false_eq_true, if_false]
    by_cases hi : m.ifAsm
    · cases c <;> by_cases ha : argc = 1 <;>
        simp [hi, ha, pushIF, M.err, Agree, hc, hmap, stOf, Stmt.argsOK, warned_refl]
    · simp [hi, pushIF, Agree, hc, hmap, stOf, warned_refl]
  | switch argc v =>
    simp only [wnStep, step, hc, codeSWITCH, Bool.false_eq_true, if_false]
    by_cases hi : m.ifAsm <;> by_cases ha : argc = 1 <;>
      simp [hi, ha, M.err, Agree, hc, hmap, stOf, Stmt.argsOK, warned_refl]
  | elseif argc c =>
    cases hm : m.stack with
    | nil =>
      cases st with
      | nil => simp [wnStep, step, hc, codeELSEIF, hm, Bad, M.err, errMissingIf]
      | cons o r => exact (agree_nil_cons hm hmap).elim
    | cons f rest =>
      cases st with
      | nil => exact (agree_cons_nil hm hmap).elim
      | cons o r =>
        obtain ⟨hf, hr⟩ := agree_cons_cons hm hmap
        cases o <;> simp only [stOf] at hf <;>
          by_cases h0 : argc = 0 <;> by_cases h1 : argc = 1 <;>
          simp [wnStep, step, hc, codeELSEIF, hm, hf, h0, h1, Agree, hr, stOf, Bad, M.err, errMissingIf,
            errWrongArgCnt, Stmt.argsOK, warned_refl] <;> omega
  | endif argc =>
    cases hm : m.stack with
    | nil =>
      cases st with
      | nil => by_cases h0 : argc = 0 <;> simp [wnStep, step, hc, codeENDIF, hm, h0, Bad, M.err, errMissingIf, errWrongArgCnt]
      | cons o r => exact (agree_nil_cons hm hmap).elim
    | cons f rest =>
      cases st with
      | nil => exact (agree_cons_nil hm hmap).elim
      | cons o r =>
        obtain ⟨hf, hr⟩ := agree_cons_cons hm hmap
        cases o <;> simp only [stOf] at hf <;>
          by_cases h0 : argc = 0 <;>
          simp [wnStep, step, hc, codeENDIF, hm, hf, h0, Agree, hr, stOf, Bad, M.err, errMissingIf,
            errWrongArgCnt, Stmt.argsOK, warned_refl]
  | case vals =>
    cases hm : m.stack with
    | nil =>
      cases st with
      | nil => simp [wnStep, step, hc, codeCASE, hm, Bad, M.err, errMissingIf]
      | cons o r => exact (agree_nil_cons hm hmap).elim
    | cons f rest =>
      cases st with
      | nil => exact (agree_cons_nil hm hmap).elim
      | cons o r =>
        obtain ⟨hf, hr⟩ := agree_cons_cons hm hmap
        cases o <;> simp only [stOf] at hf <;>
          cases vals <;>
          simp [wnStep, step, hc, codeCASE, hm, hf, Agree, hr, stOf, Bad, M.err, errMissingIf,
            errWrongArgCnt, errInvIfConst, Stmt.argsOK, warned_refl]
  | elsecase argc =>
    cases hm : m.stack with
    | nil =>
      cases st with
      | nil =>
        by_cases h0 : argc = 0 <;> cases hcr : cfg.elsecaseNullCrash <;>
          simp [wnStep, step, hc, codeELSECASE, hm, h0, hcr, Bad, M.err, errMissingIf, errWrongArgCnt]
      | cons o r => exact (agree_nil_cons hm hmap).elim
    | cons f rest =>
      cases st with
      | nil => exact (agree_cons_nil hm hmap).elim
      | cons o r =>
        obtain ⟨hf, hr⟩ := agree_cons_cons hm hmap
        cases o <;> simp only [stOf] at hf <;>
          by_cases h0 : argc = 0 <;>
          simp [wnStep, step, hc, codeELSECASE, hm, hf, h0, Agree, hr, stOf, Bad, M.err, errMissingIf,
            errWrongArgCnt, errInvIfConst, Stmt.argsOK, warned_refl]
  | endcase argc =>
    cases hm : m.stack with
    | nil =>
      cases st with
      | nil => by_cases h0 : argc = 0 <;> simp [wnStep, step, hc, codeENDCASE, hm, h0, Bad, M.err, errMissingIf, errWrongArgCnt]
      | cons o r => exact (agree_nil_cons hm hmap).elim
    | cons f rest =>
      cases st with
      | nil => exact (agree_cons_nil hm hmap).elim
      | cons o r =>
        obtain ⟨hf, hr⟩ := agree_cons_cons hm hmap
        cases o <;> simp only [stOf] at hf <;>
          by_cases h0 : argc = 0 <;> by_cases hcf : f.caseFound <;> cases hd : cfg.deadSwitchWarns <;> cases hsv : f.saveIfAsm <;>
          simp [wnStep, step, hc, codeENDCASE, hm, hf, h0, hcf, hd, hsv, Agree, hr, stOf, Bad, M.err, errMissingIf,
            errWrongArgCnt, errInvIfConst, Stmt.argsOK, warned_refl, warned_one]

theorem wnRun_cons (st : List Open) (s : Stmt) (ss : List Stmt) :
    wnRun st (s :: ss) = match wnStep st s with | some st' => wnRun st' ss | none => none := rfl

/-- a whole statement list in lock step -/
theorem run_lock (ss : List Stmt) (m : M) (st : List Open) (h : Agree m st) :
    match wnRun st ss with
    | some st' => Agree (run cfg m ss) st' ∧ ((∀ s ∈ ss, s.argsOK = true) → Warned m.errs (run cfg m ss).errs)
    | none => Bad (run cfg m ss) := by
  induction ss generalizing m st with
  | nil => exact ⟨h, fun _ => warned_refl _⟩
  | cons s ss ih =>
    have hl := lock_step (cfg := cfg) m st s h
    rw [wnRun_cons, run_cons]
    cases hw : wnStep st s with
    | none =>
      rw [hw] at hl
      exact bad_run ss _ hl
    | some st1 =>
      rw [hw] at hl
      have ih1 := ih (step cfg m s) st1 hl.1
      dsimp only
      cases hr : wnRun st1 ss with
      | none => rw [hr] at ih1; exact ih1
      | some st2 =>
        rw [hr] at ih1
        dsimp only at ih1 ⊢
        refine ⟨ih1.1, fun ha => ?_⟩
        exact warned_trans (hl.2 (ha s (by simp))) (ih1.2 (fun t ht => ha t (by simp [ht])))

theorem agree_stack_nil {m : M} {st : List Open} (h : Agree m st) : m.stack = [] ↔ st = [] := by
  obtain ⟨_, hm⟩ := h
  constructor
  · intro h0; rw [h0] at hm; cases st with
    | nil => rfl
    | cons o r => simp at hm
  · intro h0; rw [h0] at hm; cases hs : m.stack with
    | nil => rfl
    | cons f r => simp [hs] at hm

theorem bad_endPass (m : M) (h : Bad m) : Bad (endPass m) := by
  unfold endPass
  split
  · exact h
  · split
    · exact h
    · rcases h with h | ⟨e, he, hge⟩
      · exact Or.inl h
      · exact Or.inr ⟨e, by simp [M.err, he], hge⟩

/-! ## every skeleton flattens to a well-nested statement list with well-formed argument lists -/

theorem wnRun_append (st : List Open) (a b : List Stmt) :
    wnRun st (a ++ b) = (wnRun st a).bind (fun st' => wnRun st' b) := by
  induction a generalizing st with
  | nil => rfl
  | cons s a ih =>
    simp only [List.cons_append, wnRun_cons]
    cases wnStep st s with
    | none => rfl
    | some st' => exact ih st'

theorem wnRun_append_some {st st1 : List Open} {a b : List Stmt} (h : wnRun st a = some st1) :
    wnRun st (a ++ b) = wnRun st1 b := by
  rw [wnRun_append, h]; rfl

mutual
theorem wn_flat (s : Skel) (st : List Open) : wnRun st (flat s) = some st := by
  cases s with
  | leaf k => rfl
  | ladder c b e =>
    obtain ⟨o, ho, he⟩ := wn_flatE e st
    have h1 : wnRun st [.iff c.argc c] = some (.ifThen :: st) := rfl
    simp only [flat, List.append_assoc]
    rw [wnRun_append_some h1, wnRun_append_some (wn_flatB b _), wnRun_append_some he]
    rcases ho with ho | ho <;> subst ho <;> rfl
  | switch v pre cs =>
    obtain ⟨o, ho, he⟩ := wn_flatC cs .swHead st (Or.inl rfl)
    have h1 : wnRun st [.switch 1 v] = some (.swHead :: st) := rfl
    simp only [flat, List.append_assoc]
    rw [wnRun_append_some h1, wnRun_append_some (wn_flatB pre _), wnRun_append_some he]
    rcases ho with ho | ho | ho <;> subst ho <;> rfl
theorem wn_flatB (b : Block) (st : List Open) : wnRun st (flatB b) = some st := by
  cases b with
  | nil => rfl
  | cons s b =>
    simp only [flatB]
    rw [wnRun_append_some (wn_flat s st)]
    exact wn_flatB b st
theorem wn_flatE (e : Elifs) (st : List Open) :
    ∃ o, (o = Open.ifThen ∨ o = Open.ifElse) ∧ wnRun (.ifThen :: st) (flatE e) = some (o :: st) := by
  cases e with
  | done => exact ⟨.ifThen, Or.inl rfl, rfl⟩
  | els b =>
    refine ⟨.ifElse, Or.inr rfl, ?_⟩
    have h1 : wnRun (.ifThen :: st) [.elseif 0 false] = some (.ifElse :: st) := rfl
    simp only [flatE]
    rw [wnRun_append_some h1]
    exact wn_flatB b _
  | elif c b e =>
    obtain ⟨o, ho, he⟩ := wn_flatE e st
    refine ⟨o, ho, ?_⟩
    have h1 : wnRun (.ifThen :: st) [.elseif 1 c] = some (.ifThen :: st) := rfl
    simp only [flatE, List.append_assoc]
    rw [wnRun_append_some h1, wnRun_append_some (wn_flatB b _)]
    exact he
theorem wn_flatC (cs : Cases) (o0 : Open) (st : List Open) (h0 : o0 = Open.swHead ∨ o0 = Open.swCase) :
    ∃ o, (o = Open.swHead ∨ o = Open.swCase ∨ o = Open.swElse) ∧ wnRun (o0 :: st) (flatC cs) = some (o :: st) := by
  cases cs with
  | done =>
    refine ⟨o0, ?_, rfl⟩
    rcases h0 with h | h
    · exact Or.inl h
    · exact Or.inr (Or.inl h)
  | elsecase b =>
    refine ⟨.swElse, Or.inr (Or.inr rfl), ?_⟩
    have h1 : wnRun (o0 :: st) [.elsecase 0] = some (.swElse :: st) := by
      rcases h0 with h | h <;> subst h <;> rfl
    simp only [flatC]
    rw [wnRun_append_some h1]
    exact wn_flatB b _
  | case v vs b cs =>
    obtain ⟨o, ho, he⟩ := wn_flatC cs .swCase st (Or.inr rfl)
    refine ⟨o, ho, ?_⟩
    have h1 : wnRun (o0 :: st) [.case (v :: vs)] = some (.swCase :: st) := by
      rcases h0 with h | h <;> subst h <;> rfl
    simp only [flatC, List.append_assoc]
    rw [wnRun_append_some h1, wnRun_append_some (wn_flatB b _)]
    exact he
end

theorem cond_argsOK (c : Cond) : (Stmt.iff c.argc c).argsOK = true := by
  cases c <;> simp [Stmt.argsOK, Cond.argc]

mutual
theorem argsOK_flat (s : Skel) : ∀ t ∈ flat s, t.argsOK = true := by
  cases s with
  | leaf k => intro t ht; simp [flat] at ht; subst ht; rfl
  | ladder c b e =>
    intro t ht
    simp only [flat, List.mem_append, List.mem_singleton] at ht
    rcases ht with ((ht | ht) | ht) | ht
    · subst ht; exact cond_argsOK c
    · exact argsOK_flatB b t ht
    · exact argsOK_flatE e t ht
    · subst ht; rfl
  | switch v pre cs =>
    intro t ht
    simp only [flat, List.mem_append, List.mem_singleton] at ht
    rcases ht with ((ht | ht) | ht) | ht
    · subst ht; rfl
    · exact argsOK_flatB pre t ht
    · exact argsOK_flatC cs t ht
    · subst ht; rfl
theorem argsOK_flatB (b : Block) : ∀ t ∈ flatB b, t.argsOK = true := by
  cases b with
  | nil => intro t ht; simp [flatB] at ht
  | cons s b =>
    intro t ht
    simp only [flatB, List.mem_append] at ht
    rcases ht with ht | ht
    · exact argsOK_flat s t ht
    · exact argsOK_flatB b t ht
theorem argsOK_flatE (e : Elifs) : ∀ t ∈ flatE e, t.argsOK = true := by
  cases e with
  | done => intro t ht; simp [flatE] at ht
  | els b =>
    intro t ht
    simp only [flatE, List.mem_append, List.mem_singleton] at ht
    rcases ht with ht | ht
    · subst ht; rfl
    · exact argsOK_flatB b t ht
  | elif c b e =>
    intro t ht
    simp only [flatE, List.mem_append, List.mem_singleton] at ht
    rcases ht with (ht | ht) | ht
    · subst ht; rfl
    · exact argsOK_flatB b t ht
    · exact argsOK_flatE e t ht
theorem argsOK_flatC (cs : Cases) : ∀ t ∈ flatC cs, t.argsOK = true := by
  cases cs with
  | done => intro t ht; simp [flatC] at ht
  | elsecase b =>
    intro t ht
    simp only [flatC, List.mem_append, List.mem_singleton] at ht
    rcases ht with ht | ht
    · subst ht; rfl
    · exact argsOK_flatB b t ht
  | case v vs b cs =>
    intro t ht
    simp only [flatC, List.mem_append, List.mem_singleton] at ht
    rcases ht with (ht | ht) | ht
    · subst ht; rfl
    · exact argsOK_flatB b t ht
    · exact argsOK_flatC cs t ht
end

/-! ## END lines: `runL` reads a prefix of the statements; liveness of a point -/

theorem runL_eq_run (m : M) (ls : List Line) : runL cfg m ls = run cfg m (readL cfg m ls) := by
  induction ls generalizing m with
  | nil => rfl
  | cons l ls ih =>
    cases l with
    | stmt s => simp only [runL, readL, run_cons]; exact ih _
    | endl =>
      simp only [runL, readL]
      split
      · rfl
      · exact ih _

theorem runL_stmts (m : M) (ss : List Stmt) (r : List Line) :
    runL cfg m (ss.map Line.stmt ++ r) = runL cfg (run cfg m ss) r := by
  induction ss generalizing m with
  | nil => rfl
  | cons s ss ih => simp only [List.map_cons, List.cons_append, runL, run_cons]; exact ih _

theorem readL_stmts (m : M) (ss : List Stmt) (r : List Line) :
    readL cfg m (ss.map Line.stmt ++ r) = ss ++ readL cfg (run cfg m ss) r := by
  induction ss generalizing m with
  | nil => rfl
  | cons s ss ih => simp only [List.map_cons, List.cons_append, readL, run_cons, ih]

theorem readL_prefix (m : M) (ls : List Line) : readL cfg m ls <+: stmtsOf ls := by
  induction ls generalizing m with
  | nil => exact List.prefix_refl _
  | cons l ls ih =>
    cases l with
    | stmt s => simp only [readL, stmtsOf]; exact (List.cons_prefix_cons).2 ⟨rfl, ih _⟩
    | endl =>
      simp only [readL, stmtsOf]
      split
      · exact List.nil_prefix
      · exact ih _

theorem step_closer_out (m : M) (o : Open) : (step cfg m (closer o)).out = m.out := by
  cases o <;> simp only [closer, step, codeENDIF, codeENDCASE, M.err] <;> (repeat' split) <;> rfl

theorem run_closers_out (m : M) (st : List Open) : (run cfg m (closers st)).out = m.out := by
  induction st generalizing m with
  | nil => rfl
  | cons o st ih =>
    show (run cfg m (closer o :: closers st)).out = m.out
    rw [run_cons, ih, step_closer_out]

/-- the machine state at a point of a skeleton's text agrees with the documented liveness of the point -/
theorem live_at (pre : List Stmt) (st : List Open) (b0 b1 : Block) (hw : wnRun [] pre = some st)
    (h0 : flatB b0 = pre ++ closers st) (h1 : flatB b1 = pre ++ .leaf probeLeaf :: closers st)
    (hf0 : faithfulB cfg b0 = true) (hf1 : faithfulB cfg b1 = true) :
    (run cfg init pre).ifAsm = decide ((codeOf (selB b1)).length = (codeOf (selB b0)).length + 1) := by
  have hl := run_lock (cfg := cfg) pre init [] ⟨rfl, rfl⟩
  rw [hw] at hl
  have hc : (run cfg init pre).crashed = false := hl.1.1
  have e0 := (select_out (cfg := cfg) b0 hf0).2.1
  have e1 := (select_out (cfg := cfg) b1 hf1).2.1
  rw [h0, run_append, run_closers_out] at e0
  rw [h1, run_append, run_cons, run_closers_out, step_leaf _ hc] at e1
  have c0 : codeOf (selB b0) = (run cfg init pre).codes := by rw [← evs_code, ← e0]; rfl
  cases hi : (run cfg init pre).ifAsm
  · rw [hi] at e1
    have c1 : codeOf (selB b1) = (run cfg init pre).codes := by rw [← evs_code, ← e1]; rfl
    rw [c0, c1]; simp
  · rw [hi] at e1
    have c1 : codeOf (selB b1) = (run cfg init pre).codes ++ [0] := by
      rw [← evs_code, ← e1]; simp [M.codes, leafEvs, probeLeaf, Leaf.isMacro, Leaf.intLabel, Leaf.labelPresent, Leaf.exec, Ev.code?]
    rw [c0, c1]; simp

end AslModel.Cond
