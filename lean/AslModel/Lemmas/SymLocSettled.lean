import AslModel.Lemmas.SymLocKeys
/-! helper lemmas for `C13_loc_refines`: a local table that holds exactly the keys the run is going to enter (`settled`)
is settled iteration by iteration (`SettledItems`), and a pass leaves such a table for the next one. -/
namespace AslModel.SymLoc
open AslModel.Sym AslModel.Generated.Sym
open AslModel.LocScope hiding Name

/-- the table holds the keys `ks`, and under the handles `lo ≤ h < hi` nothing else -/
def Cover (t : Tab) (lo hi : Nat) (ks : List Key) : Prop :=
  (∀ key ∈ ks, hasKey t key = true) ∧
    (∀ key, hasKey t key = true → (lo : Int) ≤ key.2 → key.2 < (hi : Int) → key ∈ ks)

theorem Cover.narrow {t : Tab} {lo lo' hi hi' : Nat} {ks : List Key} (h : Cover t lo hi ks) (h1 : lo ≤ lo') (h2 : hi' ≤ hi) :
    Cover t lo' hi' ks :=
  ⟨h.1, fun key hk hl hh => h.2 key hk (by omega) (by omega)⟩

theorem cover_split (t t1 : Tab) (lo mid hi : Nat) (k1 k2 : List Key) (hc : Cover t lo hi (k1 ++ k2))
    (hF1 : ∀ key ∈ k1, key.2 < (mid : Int)) (hF2 : ∀ key ∈ k2, key.2 < (lo : Int) ∨ (mid : Int) ≤ key.2)
    (hG : ∀ key, hasKey t1 key = (hasKey t key || k1.contains key)) (h1 : lo ≤ mid) (h2 : mid ≤ hi) :
    Cover t lo mid k1 ∧ Cover t1 mid hi k2 := by
  refine ⟨⟨fun key hk => hc.1 key (List.mem_append_left _ hk), ?_⟩, ⟨?_, ?_⟩⟩
  · intro key hk hl hh
    cases List.mem_append.mp (hc.2 key hk hl (by omega)) with
    | inl h => exact h
    | inr h => cases hF2 key h <;> omega
  · intro key hk
    rw [hG, hc.1 key (List.mem_append_right _ hk)]
    rfl
  · intro key hk hl hh
    rw [hG] at hk
    cases hkt : hasKey t key with
    | true =>
      cases List.mem_append.mp (hc.2 key hkt (by omega) hh) with
      | inl h => have := hF1 key h; omega
      | inr h => exact h
    | false =>
      rw [hkt] at hk
      have : key ∈ k1 := by simpa using hk
      have := hF1 key this
      omega

theorem KeysCh.below {st st' : LSt} {ks : List Key} {labs : List LocScope.Name} (h : KeysCh st st' ks labs) (hwf : WF st)
    (hc : st.cnt ≤ st'.cnt) : ∀ key ∈ ks, key.2 < (st'.cnt : Int) := by
  intro key hk
  unfold WF at hwf
  cases h.sound key hk with
  | inl h' => rw [h'.1]; omega
  | inr h' => exact h'.2

theorem KeysCh.outside {st st' : LSt} {ks : List Key} {labs : List LocScope.Name} (h : KeysCh st st' ks labs) {lo : Nat}
    (hm : st.mom < (lo : Int)) : ∀ key ∈ ks, key.2 < (lo : Int) ∨ (st.cnt : Int) ≤ key.2 := by
  intro key hk
  cases h.sound key hk with
  | inl h' => left; rw [h'.1]; exact hm
  | inr h' => exact Or.inr h'.1

def ItemsSettle (cs : Bool) (q : PItems) : Prop :=
  ∀ (st : LSt), WF st → st.g.cs = cs → q.ordinary (st.mom != -1) = true →
    Cover st.ltab st.cnt (execItems q.toModel st).cnt (labelKeys q.toModel st) → SettledItems cs q st

def ItemSettle (cs : Bool) (i : PItem) : Prop :=
  ∀ (st : LSt), WF st → st.g.cs = cs → i.ordinary (st.mom != -1) = true →
    Cover st.ltab st.cnt (execItem i.toModel st).cnt (keysItem i.toModel st) → SettledItem cs i st

theorem bne_of_ne {x : Int} (h : x ≠ -1) : (x != -1) = true := by simpa using h

theorem loop_settle_fresh (cs : Bool) (body : PItems) (hb : ItemsSettle cs body) (hord : body.ordinary true = true) :
    ∀ (n : Nat) (first : Bool) (st : LSt), st.g.cs = cs →
      Cover st.ltab st.cnt (loop false (execItems body.toModel) n first st).1.cnt
        (obsLoop false (execItems body.toModel) (labelKeys body.toModel) (fun _ => []) n first st) →
      SettledLoop false (execItems body.toModel) (SettledItems cs body) (labelsOf (fold cs) (body.toSpec false)) n first st := by
  intro n
  induction n with
  | zero => intro first st _ _; trivial
  | succ k ih =>
    intro first st hcs hcov
    simp only [loop, obsLoop, List.nil_append] at hcov
    -- the state at the first body line of this iteration
    have hwf := WF_iterOpen first st
    have hne := iterOpen_mom_ne first st
    have hcs1 : (iterOpen false first st).g.cs = cs := by rw [iterOpen_g]; exact hcs
    have hord1 : body.ordinary ((iterOpen false first st).mom != -1) = true := by rw [bne_of_ne hne]; exact hord
    have hkb := items_keys cs body (iterOpen false first st) hwf hcs1 hord1
    have hc0 : (iterOpen false first st).cnt = st.cnt + 1 := by simp [iterOpen_cnt]
    have hc1 := execItems_cnt_ge body.toModel (iterOpen false first st)
    have hc2 := loop_cnt_ge false body.toModel k false (execItems body.toModel (iterOpen false first st))
    have hcs2 : (execItems body.toModel (iterOpen false first st)).g.cs = cs := by rw [execItems_cs]; exact hcs1
    have hrest := loop_keys_fresh cs body (items_keys cs body) hord k false
      (execItems body.toModel (iterOpen false first st)) hcs2
    have hcov1 : Cover (iterOpen false first st).ltab (iterOpen false first st).cnt
        (loop false (execItems body.toModel) k false (execItems body.toModel (iterOpen false first st))).1.cnt
        (labelKeys body.toModel (iterOpen false first st) ++
          obsLoop false (execItems body.toModel) (labelKeys body.toModel) (fun _ => []) k false
            (execItems body.toModel (iterOpen false first st))) := by
      rw [iterOpen_ltab]
      exact hcov.narrow (by omega) (Nat.le_refl _)
    obtain ⟨hA, hB⟩ := cover_split _ (execItems body.toModel (iterOpen false first st)).ltab _
      (execItems body.toModel (iterOpen false first st)).cnt _ _ _ hcov1
      (hkb.below hwf hc1) (fun key hk => Or.inr (hrest key hk).1)
      (fun key => execItems_hasKey body.toModel _ key) hc1 hc2
    refine ⟨?_, hb _ hwf hcs1 hord1 hA, ih false _ hcs2 hB⟩
    intro _ nm
    rw [Bool.eq_iff_iff]
    constructor
    · intro hk
      rw [iterOpen_ltab] at hk
      have hmem := hcov.2 (nm, (iterOpen false first st).mom) hk
        (by simp only [iterOpen_mom]; omega) (by simp only [iterOpen_mom]; omega)
      cases List.mem_append.mp hmem with
      | inl h =>
        cases hkb.sound _ h with
        | inl h' => simpa using h'.2
        | inr h' => have := h'.1; simp only [iterOpen_mom, hc0] at this; omega
      | inr h =>
        have := (hrest _ h).1
        simp only [iterOpen_mom] at this
        omega
    · intro hk
      exact hcov1.1 _ (List.mem_append_left _ (hkb.complete hne nm (by simpa using hk)))

theorem loop_settle_glob (cs : Bool) (body : PItems) (hb : ItemsSettle cs body) :
    ∀ (n : Nat) (first : Bool) (st : LSt), WF st → st.g.cs = cs → body.ordinary (st.mom != -1) = true →
      Cover st.ltab st.cnt (loop true (execItems body.toModel) n first st).1.cnt
        (obsLoop true (execItems body.toModel) (labelKeys body.toModel) (fun _ => []) n first st) →
      SettledLoop true (execItems body.toModel) (SettledItems cs body) (labelsOf (fold cs) (body.toSpec false)) n first st := by
  intro n
  induction n with
  | zero => intro first st _ _ _ _; trivial
  | succ k ih =>
    intro first st hwf hcs hord hcov
    simp only [loop, obsLoop, List.nil_append, iterOpen_stack_glob] at hcov
    simp only [SettledLoop, iterOpen_stack_glob]
    have hkb := items_keys cs body st hwf hcs hord
    have hfr := execItems_frame body.toModel st
    have hc1 := execItems_cnt_ge body.toModel st
    have hc2 := loop_cnt_ge true body.toModel k false (execItems body.toModel st)
    have hwf1 : WF (execItems body.toModel st) := by unfold WF at *; rw [hfr.mom]; omega
    have hcs1 : (execItems body.toModel st).g.cs = cs := by rw [execItems_cs]; exact hcs
    have hord1 : body.ordinary ((execItems body.toModel st).mom != -1) = true := by rw [hfr.mom]; exact hord
    have hrest := loop_keys_glob cs body (items_keys cs body) k false (execItems body.toModel st) hwf1 hcs1 hord1
    obtain ⟨hA, hB⟩ := cover_split _ (execItems body.toModel st).ltab _ (execItems body.toModel st).cnt _ _ _ hcov
      (hkb.below hwf hc1) (hrest.outside (by rw [hfr.mom]; exact hwf))
      (fun key => execItems_hasKey body.toModel _ key) hc1 hc2
    exact ⟨(fun h => by cases h), hb _ hwf hcs hord hA, ih false _ hwf1 hcs1 hord1 hB⟩

mutual
theorem item_settle (cs : Bool) : ∀ (i : PItem), ItemSettle cs i
  | .op o => by intro st _ _ _ _; trivial
  | .con m wh true n body => by
    intro st hwf hcs hord hcov
    simp only [SettledItem]
    refine loop_settle_glob cs body (items_settle cs body) n true st hwf hcs
      (ordinary_mono body (by simpa [PItem.ordinary] using hord) _) ?_
    have hf := finish_cnt_ge wh true (loop true (execItems body.toModel) n true st)
    simp only [PItem.toModel, execItem, keysItem_con] at hcov
    exact hcov.narrow (Nat.le_refl _) hf
  | .con m wh false n body => by
    intro st hwf hcs hord hcov
    simp only [SettledItem]
    refine loop_settle_fresh cs body (items_settle cs body) (by simpa [PItem.ordinary] using hord) n true st hcs ?_
    have hf := finish_cnt_ge wh false (loop false (execItems body.toModel) n true st)
    simp only [PItem.toModel, execItem, keysItem_con] at hcov
    exact hcov.narrow (Nat.le_refl _) hf
theorem items_settle (cs : Bool) : ∀ (q : PItems), ItemsSettle cs q
  | .nil => by intro st _ _ _ _; trivial
  | .cons i r => by
    intro st hwf hcs hord hcov
    simp only [PItems.ordinary, Bool.and_eq_true] at hord
    simp only [PItems.toModel, labelKeys_cons, execItems] at hcov
    have hk1 := item_keys cs i st hwf hcs hord.1
    have hfr := execItem_frame i.toModel st
    have hc1 := execItem_cnt_ge i.toModel st
    have hc2 := execItems_cnt_ge r.toModel (execItem i.toModel st)
    have hwf1 : WF (execItem i.toModel st) := by unfold WF at *; rw [hfr.mom]; omega
    have hcs1 : (execItem i.toModel st).g.cs = cs := by rw [execItem_cs]; exact hcs
    have hord1 : r.ordinary ((execItem i.toModel st).mom != -1) = true := by rw [hfr.mom]; exact hord.2
    have hk2 := items_keys cs r (execItem i.toModel st) hwf1 hcs1 hord1
    obtain ⟨hA, hB⟩ := cover_split _ (execItem i.toModel st).ltab _ (execItem i.toModel st).cnt _ _ _ hcov
      (hk1.below hwf hc1) (hk2.outside (by rw [hfr.mom]; exact hwf))
      (fun key => execItem_hasKey i.toModel _ key) hc1 hc2
    exact ⟨item_settle cs i st hwf hcs hord.1 hA, items_settle cs r _ hwf1 hcs1 hord1 hB⟩
end

/-! ### the keys of a run do not depend on the tables -/

/-- two states with the same handle stack, handle counter and case sensitivity -/
def Agree (a b : LSt) : Prop := a.mom = b.mom ∧ a.conts = b.conts ∧ a.cnt = b.cnt ∧ a.g.cs = b.g.cs

theorem stepL_agree {a b : LSt} (h : Agree a b) (o : Op) : Agree (stepL a o) (stepL b o) := by
  obtain ⟨h1, h2, h3, h4⟩ := h
  exact ⟨by rw [(stepL_frame a o).mom, (stepL_frame b o).mom, h1], by rw [(stepL_frame a o).conts, (stepL_frame b o).conts, h2],
    by rw [stepL_cnt, stepL_cnt, h3], by rw [stepL_cs, stepL_cs, h4]⟩

theorem popLoc_agree {a b : LSt} (h : Agree a b) : Agree (popLoc a) (popLoc b) := by
  obtain ⟨h1, h2, h3, h4⟩ := h
  unfold popLoc
  rw [h2]
  split
  · exact ⟨h1, by assumption, h3, h4⟩
  · exact ⟨rfl, rfl, h3, h4⟩

theorem pushFresh_agree {a b : LSt} (h : Agree a b) : Agree (pushFresh a) (pushFresh b) := by
  obtain ⟨h1, h2, h3, h4⟩ := h
  unfold pushFresh pushLoc
  exact ⟨by simp [h3], by simp [h1, h2], by simp [h3], h4⟩

theorem iterOpen_agree {a b : LSt} (h : Agree a b) (glob first : Bool) : Agree (iterOpen glob first a) (iterOpen glob first b) := by
  unfold iterOpen
  split
  · exact h
  · split
    · exact pushFresh_agree h
    · exact pushFresh_agree (popLoc_agree h)

theorem restorer_agree {a b : LSt} (h : Agree a b) (glob first : Bool) : Agree (restorer glob first a) (restorer glob first b) := by
  unfold restorer
  split
  · exact popLoc_agree h
  · exact h

theorem loop_snd (glob : Bool) (body : LSt → LSt) : ∀ (n : Nat) (first : Bool) (st : LSt),
    (loop glob body n first st).2 = (if n = 0 then first else false) := by
  intro n
  induction n with
  | zero => intro first st; rfl
  | succ k ih => intro first st; simp only [loop, ih]; split <;> simp

theorem finish_agree {a b : LSt × Bool} (h : Agree a.1 b.1) (h2 : a.2 = b.2) (wh glob : Bool) :
    Agree (finish wh glob a) (finish wh glob b) := by
  unfold finish
  rw [h2]
  split
  · exact restorer_agree (iterOpen_agree h _ _) _ _
  · exact restorer_agree h _ _

theorem evOf_dkey_agree {a b : LSt} (h : Agree a b) (o : Op) (hord : a.mom ≠ -1 → opOrdinary o = true) :
    (evOf a o).dkey = (evOf b o).dkey := by
  obtain ⟨h1, h2, h3, h4⟩ := h
  have key : ∀ n, (a.mom ≠ -1 → isTmpName n = false) → defKey (bumpLine a) n = defKey (bumpLine b) n := by
    intro n hn
    by_cases hm : a.mom = -1
    · rw [defKey_top _ _ (by simpa [bumpLine] using hm), defKey_top _ _ (by simp only [bumpLine]; rw [← h1]; exact hm)]
    · rw [defKey_mom _ _ (by simpa [bumpLine] using hm) (hn hm),
        defKey_mom _ _ (by simp only [bumpLine]; rw [← h1]; exact hm) (hn hm)]
      simp [bumpLine, h1, h4]
  cases o
  case label n => exact key n (fun h => by simpa [opOrdinary] using hord h)
  case labelOnly n => exact key n (fun h => by simpa [opOrdinary] using hord h)
  case labelWord n r => exact key n (fun h => by have := hord h; simp [opOrdinary] at this; exact this.1)
  all_goals rfl

def ItemsAgree (q : PItems) : Prop :=
  ∀ (a b : LSt), Agree a b → q.ordinary (a.mom != -1) = true →
    Agree (execItems q.toModel a) (execItems q.toModel b) ∧ labelKeys q.toModel a = labelKeys q.toModel b

def ItemAgree (i : PItem) : Prop :=
  ∀ (a b : LSt), Agree a b → i.ordinary (a.mom != -1) = true →
    Agree (execItem i.toModel a) (execItem i.toModel b) ∧ keysItem i.toModel a = keysItem i.toModel b

theorem loop_agree (glob : Bool) (body : PItems) (hb : ItemsAgree body) :
    ∀ (n : Nat) (first : Bool) (a b : LSt), Agree a b → body.ordinary (glob || (a.mom != -1)) = true →
      (glob = false → body.ordinary true = true) →
      Agree (loop glob (execItems body.toModel) n first a).1 (loop glob (execItems body.toModel) n first b).1 ∧
        obsLoop glob (execItems body.toModel) (labelKeys body.toModel) (fun _ => []) n first a =
          obsLoop glob (execItems body.toModel) (labelKeys body.toModel) (fun _ => []) n first b := by
  intro n
  induction n with
  | zero => intro first a b h _ _; exact ⟨h, rfl⟩
  | succ k ih =>
    intro first a b h hord hord2
    simp only [loop, obsLoop, List.nil_append]
    have ho := iterOpen_agree h glob first
    have hordb : body.ordinary ((iterOpen glob first a).mom != -1) = true := by
      cases glob with
      | true => exact ordinary_mono body (by simpa using hord) _
      | false => rw [bne_of_ne (iterOpen_mom_ne first a)]; exact hord2 rfl
    obtain ⟨h1, h2⟩ := hb _ _ ho hordb
    have hfr := execItems_frame body.toModel (iterOpen glob first a)
    obtain ⟨h3, h4⟩ := ih false _ _ h1 (by
      cases glob with
      | true => simpa using hord
      | false => simpa using ordinary_mono body (hord2 rfl) _) hord2
    exact ⟨h3, by rw [h2, h4]⟩

mutual
theorem item_agree : ∀ (i : PItem), ItemAgree i
  | .op o => by
    intro a b h hord
    refine ⟨by simpa [PItem.toModel, execItem] using stepL_agree h o, ?_⟩
    simp only [PItem.toModel, keysItem_op]
    rw [evOf_dkey_agree h o (fun hm => by rw [bne_of_ne hm] at hord; simpa [PItem.ordinary] using hord)]
  | .con m wh glob n body => by
    intro a b h hord
    have hb : body.ordinary true = true := by simpa [PItem.ordinary] using hord
    obtain ⟨h1, h2⟩ := loop_agree glob body (items_agree body) n true a b h (ordinary_mono body hb _) (fun _ => hb)
    refine ⟨?_, by simpa [PItem.toModel, keysItem_con] using h2⟩
    simp only [PItem.toModel, execItem]
    exact finish_agree h1 (by rw [loop_snd, loop_snd]) wh glob
theorem items_agree : ∀ (q : PItems), ItemsAgree q
  | .nil => by intro a b h _; exact ⟨h, rfl⟩
  | .cons i r => by
    intro a b h hord
    simp only [PItems.ordinary, Bool.and_eq_true] at hord
    obtain ⟨h1, h2⟩ := item_agree i a b h hord.1
    obtain ⟨h3, h4⟩ := items_agree r _ _ h1 (by rw [(execItem_frame i.toModel a).mom]; exact hord.2)
    exact ⟨by simpa [PItems.toModel, execItems] using h3, by simp only [PItems.toModel, labelKeys_cons, h2, h4]⟩
end

end AslModel.SymLoc
