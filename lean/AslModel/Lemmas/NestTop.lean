import AslModel.Lemmas.NestRun
import AslModel.Lemmas.NestTwoPass
/-! `C11_nest_refines`, top level: the scope every handle stands for (`rhoOf`, read off the log of `walk`), one pass of
the machine against one pass of the SPEC (`pass_sim`), and the pass loop (`run_sim_passes`). -/
namespace AslModel.NestModel
open AslModel.NestSpec

/-! ### the scope of a handle -/

theorem getD_lt (l : List Nat) (i d : Nat) (h : i < l.length) : l.getD i d = l[i] := by
  simp [List.getD_eq_getElem?_getD, h]

theorem getD_ge (l : List Nat) (i d : Nat) (h : l.length ≤ i) : l.getD i d = d := by
  simp [List.getD_eq_getElem?_getD, h]

def rhoOf (log : List Nat) (ns : Nat) : Int → Nat := fun h => if h < 0 then 0 else log.getD h.toNat (ns + h.toNat)

theorem rhoOf_ok (w : Walk) (hw : WInv w) : RhoOK (rhoOf w.log w.ns) := by
  obtain ⟨hpw, hall, hns⟩ := hw
  refine ⟨by simp [rhoOf], fun a b ha hab => ?_⟩
  have hb : ¬ b < 0 := by omega
  have hpos : ∀ j : Nat, 1 ≤ w.log.getD j (w.ns + j) := by
    intro j
    by_cases hj : j < w.log.length
    · rw [getD_lt _ _ _ hj]
      exact (hall _ (List.getElem_mem hj)).1
    · have hj' : w.log.length ≤ j := by omega
      rw [getD_ge _ _ _ hj']; omega
  by_cases ha0 : a < 0
  · simp only [rhoOf, ha0, hb, if_true, if_false]
    exact hpos _
  · simp only [rhoOf, ha0, hb, if_false]
    have hij : a.toNat < b.toNat := by omega
    by_cases hj : b.toNat < w.log.length
    · have hi : a.toNat < w.log.length := by omega
      rw [getD_lt _ _ _ hi, getD_lt _ _ _ hj]
      exact (List.pairwise_iff_getElem.1 hpw) _ _ hi hj hij
    · have hj' : w.log.length ≤ b.toNat := by omega
      rw [getD_ge _ b.toNat _ hj']
      by_cases hi : a.toNat < w.log.length
      · rw [getD_lt _ _ _ hi]
        have := (hall _ (List.getElem_mem hi)).2
        omega
      · have hi' : w.log.length ≤ a.toNat := by omega
        rw [getD_ge _ a.toNat _ hi']; omega

theorem rhoOf_agree (log : List Nat) (ns : Nat) : Agree (rhoOf log ns) log := by
  intro i sc hi
  have h0 : ¬ (Int.ofNat i < 0) := by simp
  obtain ⟨hlt, rfl⟩ := List.getElem?_eq_some_iff.1 hi
  simp only [rhoOf, h0, if_false]
  rw [show (Int.ofNat i).toNat = i from rfl, getD_lt _ _ _ hlt]

theorem winv_init : WInv {} := ⟨List.Pairwise.nil, (fun _ h => nomatch h), Nat.le_refl 1⟩

/-! ### one pass -/

def srcFrame (p : Prog) : Frame := { kind := .srcFile, gs := true, body := p.top, rest := p.top, isEmpty := p.top.isEmpty }

theorem startPass_stack (p : Prog) (s : St) (n : Nat) : (startPass p s n).stack = [srcFrame p] := rfl

theorem restorer_src (q : Quirks) (f : Frame) (s : St) (h : f.kind = .srcFile) :
    (restorer q f s).mom = s.mom ∧ (restorer q f s).hstack = s.hstack ∧ ∀ x, (restorer q f s).use x = s.use x := by
  have hnp : (f.kind != .srcFile && !f.gs && (q.emptyPops || f.pushed)) = false := by rw [h]; rfl
  have := restorer_nopop q f s hnp
  refine ⟨this.1, this.2, fun x => ?_⟩
  rw [restorer_use, h]
  simp

/-- what a pass leaves behind -/
structure PassOut (ρ : Int → Nat) (s' : SSt) (r : St) : Prop where
  stack : r.stack = []
  data : Data ρ s' r
  mom : r.mom = -1
  hstack : r.hstack = []
  use : ∀ m, r.use m = 0

/-- One pass of the machine over the program is the SPEC's structural expansion of the program. -/
theorem pass_sim {p : Prog} {q : Quirks} {ρ : Int → Nat} (hq : q.emptyPops = false) (hρ : RhoOK ρ) (F : Nat) (ms0 : St)
    (s0 : SSt) (n : Nat) (hg : Good p (lines p F topCtx p.top s0)) (hag : Agree ρ (walk p F 0 p.top {}).log)
    (hd : Data ρ s0 (startPass p ms0 n)) (hu : ∀ m, ms0.use m = 0) (hns : s0.nextScope = 1)
    (fuel : Nat) (hfuel : (walk p F 0 p.top {}).steps + 1 ≤ fuel) :
    PassOut ρ (lines p F topCtx p.top s0) (runPass p q fuel (startPass p ms0 n)) := by
  have hcx : CtxRel ρ topCtx (startPass p ms0 n) :=
    ⟨by show [0] = [ρ (-1)]; rw [hρ.base], ⟨[], rfl, (fun _ h => nomatch h)⟩, fun m => by
      show ms0.use m = _
      rw [hu m]; rfl⟩
  -- the rounds up to the point where the source file tag is empty
  have key : ∃ k ms1, Steps p q k (startPass p ms0 n) ms1 ∧ k ≤ (walk p F 0 p.top {}).steps ∧
      (∃ f, ms1.stack = [f] ∧ f.kind = .srcFile ∧ f.isEmpty = true) ∧ Data ρ (lines p F topCtx p.top s0) ms1 ∧
      ms1.mom = -1 ∧ ms1.hstack = [] ∧ ∀ m, ms1.use m = 0 := by
    by_cases htop : p.top = []
    · refine ⟨0, _, Steps.refl _, Nat.zero_le _, ⟨srcFrame p, rfl, rfl, by simp [srcFrame, htop]⟩, ?_, rfl, rfl, hu⟩
      rw [htop] at hg ⊢
      rw [lines_nil_good hg]; exact hd
    · have hfe : (srcFrame p).isEmpty = false := by
        cases htt : p.top with
        | nil => exact absurd htt htop
        | cons _ _ => simp [srcFrame, htt]
      have hho : handleOps (srcFrame p) (startPass p ms0 n) = startPass p ms0 n := rfl
      obtain ⟨k, ms1, hsteps, ho⟩ := run_sim hq hρ F topCtx p.top s0 {} (srcFrame p) [] (startPass p ms0 n) hg hag htop rfl
        hfe rfl rfl (by rw [hho]; exact hd) (by rw [hho]; exact hcx) rfl hns
      refine ⟨k, ms1, hsteps, ?_, ⟨nextFrame (srcFrame p) [], ho.stack, rfl, rfl⟩, ho.data, ho.mom, ho.hstack, fun m => ?_⟩
      · have := ho.steps
        have e : ({} : Walk).steps = 0 := rfl
        show k ≤ (walk p F topCtx.arg p.top {}).steps
        omega
      · rw [ho.ctx.use m]; rfl
  obtain ⟨k, ms1, hsteps, hk, ⟨f, hst, hkind, hfe⟩, hd1, hm1, hh1, hu1⟩ := key
  have hstep : step p q ms1 = some (restorer q f { ms1 with stack := [] }) := step_pop hst hfe
  have hall := Steps.trans hsteps (Steps.one hstep)
  have hsrc := restorer_src q f { ms1 with stack := [] } hkind
  have hrun : runPass p q fuel (startPass p ms0 n) = restorer q f { ms1 with stack := [] } := by
    have : fuel = (k + 1) + (fuel - (k + 1)) := by omega
    rw [this, runPass_steps hall]
    exact runPass_done p q _ _ (by rw [restorer_stack])
  rw [hrun]
  exact ⟨by rw [restorer_stack],
    Data.of_deq (DEq.trans (a := ms1) (b := { ms1 with stack := [] }) ⟨rfl, rfl, rfl, rfl, rfl, rfl, rfl, rfl, rfl⟩
      (restorer_deq q _ _).symm) hd1,
    hsrc.1.trans hm1, hsrc.2.1.trans hh1, fun m => (hsrc.2.2 m).trans (hu1 m)⟩


/-! ### the pass loop -/

/-- what the run of the machine has in common with the SPEC's two passes -/
structure RunOut (p : Prog) (F : Nat) (r : St) : Prop where
  stack : r.stack = []
  hstack : r.hstack = []
  mom : r.mom = -1
  refused : r.refused = 0
  maxUse : r.maxUse = (NestSpec.run p F).maxOpen
  two : (first p F).dbl = 0 ∧ 0 < (first p F).undef →
    r.pass = 2 ∧ r.out = (NestSpec.run p F).out ∧ r.undef = (NestSpec.run p F).undef ∧ r.dbl = (NestSpec.run p F).dbl
  one : ¬ ((first p F).dbl = 0 ∧ 0 < (first p F).undef) →
    r.pass = 1 ∧ r.out = (first p F).out ∧ r.undef = 0 ∧ r.dbl = (first p F).dbl

theorem good_first {p : Prog} {F : Nat} (hg : Good p (NestSpec.run p F)) : Good p (first p F) := by
  rw [run_eq] at hg
  exact Good.of_mono (s := second0 p F) (lines_mono p F _ _ _) hg

theorem runPasses_succ (p : Prog) (q : Quirks) (fuel more n : Nat) (s : St) :
    runPasses p q fuel (more + 1) n s =
      if errors (runPass p q fuel (startPass p s n)) = 0 ∧ (runPass p q fuel (startPass p s n)).repass then
        runPasses p q fuel more (n + 1) (runPass p q fuel (startPass p s n))
      else runPass p q fuel (startPass p s n) := rfl

theorem run_sim_passes {p : Prog} {q : Quirks} (hq : q.emptyPops = false) (F : Nat) (hg : Good p (NestSpec.run p F))
    (fuel : Nat) (hfuel : cost p F ≤ fuel) : RunOut p F (run p q fuel) := by
  have hρ := rhoOf_ok _ ((walk_ext p F 0 p.top {}).2 winv_init)
  have hag := rhoOf_agree (walk p F 0 p.top {}).log (walk p F 0 p.top {}).ns
  have hg1 := good_first hg
  have hd0 : Data (rhoOf (walk p F 0 p.top {}).log (walk p F 0 p.top {}).ns) {} (startPass p {} 1) :=
    ⟨rfl, rfl, rfl, rfl, fun _ => rfl, fun _ => rfl, rfl, rfl, (fun _ h => nomatch h), rfl, rfl⟩
  have h1 := pass_sim hq hρ F {} {} 1 hg1 hag hd0 (fun _ => rfl) rfl fuel hfuel
  have hfp : (first p F).pass = 1 := lines_pass p F _ _ _
  have hp1 : (runPass p q fuel (startPass p {} 1)).pass = 1 := h1.data.pass.trans hfp
  have hu1 : (runPass p q fuel (startPass p {} 1)).undef = 0 := h1.data.undef1 hp1
  have hr1 : (runPass p q fuel (startPass p {} 1)).repass = decide (0 < (first p F).undef) := by
    rw [h1.data.repass, hp1]; simp; rfl
  have herr : errors (runPass p q fuel (startPass p {} 1)) = (first p F).dbl := by
    unfold errors
    rw [h1.data.refused, hu1, h1.data.dbl]; simp; rfl
  unfold run
  rw [runPasses_succ, herr, hr1]
  by_cases hC : (first p F).dbl = 0 ∧ 0 < (first p F).undef
  · have hcond : (first p F).dbl = 0 ∧ decide (0 < (first p F).undef) = true := ⟨hC.1, by simpa using hC.2⟩
    rw [if_pos hcond]
    have hd2 : Data (rhoOf (walk p F 0 p.top {}).log (walk p F 0 p.top {}).ns) (second0 p F)
        (startPass p (runPass p q fuel (startPass p {} 1)) 2) :=
      ⟨rfl, rfl, (h1.data.dbl.trans hC.1 : (runPass p q fuel (startPass p {} 1)).dbl = 0), rfl,
        (fun h => absurd (h : (2 : Nat) = 1) (show ¬ (2 : Nat) = 1 by decide)), (fun _ => hu1), rfl, h1.data.syms, h1.data.symsOK, h1.data.refused, h1.data.maxUse⟩
    have h2 := pass_sim hq hρ F (runPass p q fuel (startPass p {} 1)) (second0 p F) 2 (by rw [← run_eq]; exact hg) hag hd2
      h1.use rfl fuel hfuel
    rw [← run_eq] at h2
    have hp2 : (runPass p q fuel (startPass p (runPass p q fuel (startPass p {} 1)) 2)).pass = 2 := by
      rw [h2.data.pass, run_eq, lines_pass]; rfl
    have hr2 : (runPass p q fuel (startPass p (runPass p q fuel (startPass p {} 1)) 2)).repass = false := by
      rw [h2.data.repass, hp2]; rfl
    rw [runPasses_succ, hr2]
    simp only [Bool.false_eq_true, and_false, if_false]
    exact ⟨h2.stack, h2.hstack, h2.mom, h2.data.refused, h2.data.maxUse,
      fun _ => ⟨hp2, h2.data.out, h2.data.undef2 (by rw [hp2]; decide), h2.data.dbl⟩, fun h => absurd hC h⟩
  · have hcond : ¬ ((first p F).dbl = 0 ∧ decide (0 < (first p F).undef) = true) := by
      intro h; exact hC ⟨h.1, by simpa using h.2⟩
    rw [if_neg hcond]
    exact ⟨h1.stack, h1.hstack, h1.mom, h1.data.refused, h1.data.maxUse.trans (run_vs_first p F).2.2.symm, fun h => absurd h hC,
      fun _ => ⟨hp1, h1.data.out, hu1, h1.data.dbl⟩⟩


/-- no label is used inside an expansion BEFORE its private definition while a label of the same name of an enclosing
    scope is visible: if the SPEC's first pass has found every label, its second pass writes the same bytes.  (The assembler
    makes a second pass only when the first one has met an undefined label.) -/
def Stable (p : Prog) (F : Nat) : Prop := (first p F).undef = 0 → (first p F).out = (NestSpec.run p F).out

instance (p : Prog) (F : Nat) : Decidable (Stable p F) := by unfold Stable; infer_instance

end AslModel.NestModel
