import AslModel.Model.TargetDesc
/-! Helper lemmas for C18 (target description): lock-step simulation of two runs of the same file from different `Core`s. -/
namespace AslModel.TargetDesc

/-- the two cores agree on what the current target's statements can read: the start value of every valid segment, and its
limit unless the target checks addresses itself -/
def Agree (cur : Target) (c1 c2 : Core) : Prop :=
  ∀ s, (cur.seg s).valid = true → c1.inits s = c2.inits s ∧ (cur.ownChk = false → c1.limits s = c2.limits s)

structure Sim (s1 s2 : St) : Prop where
  cur : s1.cur = s2.cur
  act : s1.act = s2.act
  pcs : s1.pcs = s2.pcs
  used : s1.used = s2.used
  errs : s1.errs = s2.errs
  out : s1.out = s2.out
  agree : Agree s1.cur s1.core s2.core

theorem agree_switchTo (t : Target) (h : Complete t) (c1 c2 : Core) : Agree t (switchTo t c1) (switchTo t c2) := by
  intro s hs
  obtain ⟨hi, hl⟩ := h.2 s hs
  constructor
  · simp only [switchTo]
    cases hq : (t.seg s).init with
    | none => simp [hq] at hi
    | some v => simp [pick]
  · intro ho
    simp only [switchTo]
    cases hq : (t.seg s).limit with
    | none =>
      rcases hl with hl | hl
      · simp [hq] at hl
      · rw [ho] at hl; exact absurd hl (by decide)
    | some v => simp [pick]

theorem sim_initPass (d : Target) (h : Complete d) (c1 c2 : Core) : Sim (initPass d c1) (initPass d c2) :=
  ⟨rfl, rfl, rfl, rfl, rfl, rfl, agree_switchTo d h c1 c2⟩

theorem chkPC_eq (s1 s2 : St) (h : Sim s1 s2) (a : Nat) : chkPC s1 a = chkPC s2 a := by
  obtain ⟨hc, ha, _, _, _, _, hag⟩ := h
  unfold chkPC
  rw [← hc, ← ha]
  by_cases hv : (s1.cur.seg s1.act).valid = false
  · simp [hv]
  · have hv' : (s1.cur.seg s1.act).valid = true := by simpa using hv
    by_cases ho : s1.cur.ownChk = true
    · simp [hv', ho]
    · have ho' : s1.cur.ownChk = false := by simpa using ho
      have := (hag s1.act hv').2 ho'
      simp [hv', ho', this]

theorem sim_writeCode (s1 s2 : St) (h : Sim s1 s2) (len : Nat) : Sim (writeCode s1 len) (writeCode s2 len) := by
  have hchk := chkPC_eq s1 s2 h (s1.pcs s1.act + len - 1)
  obtain ⟨c1, cur, act, pcs, used, er, ou⟩ := s1
  obtain ⟨c2, cur2, act2, pcs2, used2, er2, ou2⟩ := s2
  obtain ⟨hc, ha, hp, hu, he, ho, hag⟩ := h
  simp only at hc ha hp hu he ho hag hchk
  subst hc ha hp hu he ho
  unfold writeCode
  simp only
  rw [← hchk]
  by_cases hq : len ≠ 0 ∧ chkPC ⟨c1, cur, act, pcs, used, er, ou⟩ (pcs act + len - 1) = false
  · rw [if_pos hq, if_pos hq]
    exact ⟨rfl, rfl, rfl, rfl, rfl, rfl, hag⟩
  · rw [if_neg hq, if_neg hq]
    exact ⟨rfl, rfl, rfl, rfl, rfl, rfl, hag⟩

theorem sim_setNSeg (s1 s2 : St) (h : Sim s1 s2) (s : Nat) (hv : (s1.cur.seg s).valid = true) :
    Sim (setNSeg s s1) (setNSeg s s2) := by
  obtain ⟨c1, cur, act, pcs, used, er, ou⟩ := s1
  obtain ⟨c2, cur2, act2, pcs2, used2, er2, ou2⟩ := s2
  obtain ⟨hc, ha, hp, hu, he, ho, hag⟩ := h
  simp only at hc ha hp hu he ho hag hv
  subst hc ha hp hu he ho
  have hi := (hag s hv).1
  unfold setNSeg
  simp only
  rw [← hi]
  by_cases hq : act ≠ s ∨ used act = false
  · rw [if_pos hq, if_pos hq]
    exact ⟨rfl, rfl, rfl, rfl, rfl, rfl, hag⟩
  · rw [if_neg hq, if_neg hq]
    exact ⟨rfl, rfl, rfl, rfl, rfl, rfl, hag⟩

theorem sim_errs (s1 s2 : St) (h : Sim s1 s2) :
    Sim { s1 with errs := s1.errs + 1 } { s2 with errs := s2.errs + 1 } := by
  obtain ⟨hc, ha, hp, hu, he, ho, hag⟩ := h
  exact ⟨hc, ha, hp, hu, by simp [he], ho, hag⟩

/-- every statement keeps two runs in lock step, provided a selected target has a complete description -/
theorem sim_step (tg : List Target) (s1 s2 : St) (op : Op) (h : Sim s1 s2)
    (hop : ∀ i t, op = .cpu i → tg[i]? = some t → Complete t) : Sim (step tg s1 op) (step tg s2 op) := by
  cases op with
  | cpu i =>
    simp only [step]
    cases ht : tg[i]? with
    | none => exact sim_writeCode _ _ (sim_errs s1 s2 h) 0
    | some t =>
      have hcmp := hop i t rfl ht
      simp only
      apply sim_writeCode
      apply sim_setNSeg
      · obtain ⟨hc, ha, hp, hu, he, ho, hag⟩ := h
        exact ⟨rfl, ha, hp, hu, he, ho, agree_switchTo t hcmp s1.core s2.core⟩
      · exact hcmp.1
  | segment s =>
    simp only [step]
    have hcur : (s2.cur.seg s).valid = (s1.cur.seg s).valid := by rw [h.cur]
    by_cases hq : s ≠ 0 ∧ (s1.cur.seg s).valid = true
    · have hq2 : s ≠ 0 ∧ (s2.cur.seg s).valid = true := ⟨hq.1, by rw [hcur]; exact hq.2⟩
      rw [if_pos hq, if_pos hq2]
      exact sim_writeCode _ _ (sim_setNSeg s1 s2 h s hq.2) 0
    · have hq2 : ¬ (s ≠ 0 ∧ (s2.cur.seg s).valid = true) := by rw [hcur]; exact hq
      rw [if_neg hq, if_neg hq2]
      exact sim_writeCode _ _ (sim_errs s1 s2 h) 0
  | label =>
    simp only [step]
    apply sim_writeCode
    obtain ⟨hc, ha, hp, hu, he, ho, hag⟩ := h
    exact ⟨hc, ha, hp, hu, he, by simp [ho, ha, hp], hag⟩
  | org v =>
    simp only [step]
    apply sim_writeCode
    obtain ⟨hc, ha, hp, hu, he, ho, hag⟩ := h
    exact ⟨hc, ha, by simp [hp, ha], hu, he, ho, hag⟩
  | align k =>
    simp only [step]
    by_cases hk : k = 0
    · rw [if_pos hk, if_pos hk]
      exact sim_writeCode _ _ (sim_errs s1 s2 h) 0
    · rw [if_neg hk, if_neg hk]
      have hpc : s2.pcs s2.act = s1.pcs s1.act := by rw [h.pcs, h.act]
      rw [hpc]
      exact sim_writeCode _ _ h _

theorem sim_run (tg : List Target) (ops : List Op) (s1 s2 : St) (h : Sim s1 s2)
    (hops : ∀ i ∈ selected ops, ∀ t, tg[i]? = some t → Complete t) : Sim (run tg s1 ops) (run tg s2 ops) := by
  induction ops generalizing s1 s2 with
  | nil => exact h
  | cons op rest ih =>
    simp only [run, List.foldl_cons]
    apply ih
    · apply sim_step tg s1 s2 op h
      intro i t hop ht
      subst hop
      exact hops i (by simp [selected]) t ht
    · intro i hi t ht
      apply hops i _ t ht
      cases op <;> simp [selected, hi]

/-- the result of one file does not depend on the core state it starts from -/
theorem file_result (tg : List Target) (d : Target) (hd : Complete d) (c1 c2 : Core) (ops : List Op)
    (hops : ∀ i ∈ selected ops, ∀ t, tg[i]? = some t → Complete t) :
    (assembleFile tg d c1 ops).1 = (assembleFile tg d c2 ops).1 := by
  have h := sim_run tg ops _ _ (sim_initPass d hd c1 c2) hops
  simp only [assembleFile, resultOf, h.errs, h.out]

theorem completeB_iff (t : Target) : completeB t = true → Complete t := by
  intro h
  simp only [completeB, Bool.and_eq_true, List.all_eq_true, List.mem_range, Bool.or_eq_true, Bool.not_eq_true'] at h
  refine ⟨h.1, ?_⟩
  intro s hs
  by_cases hlt : s < t.segs.length
  · rcases h.2 s hlt with h1 | h1
    · rw [hs] at h1; exact absurd h1 (by decide)
    · exact h1
  · have : t.seg s = noSeg := by
      unfold Target.seg
      simp [List.getD_eq_getElem?_getD, List.getElem?_eq_none (Nat.le_of_not_lt hlt)]
    rw [this] at hs
    exact absurd hs (by decide)

end AslModel.TargetDesc
