import AslModel.Spec.OperandPos
import AslModel.Model.M740Bbs
/-! Helper lemma for `Props/C01_Opnd.lean`, MELPS 740 part. -/
namespace AslModel.M740BbsLemmas
open AslModel.Spec.OperandPos

theorem sx8_rel8 (d : Int) (h1 : -128 ≤ d) (h2 : d ≤ 127) : sx8 (Model.M740Bbs.rel8 d) = d := by
  have : ((Model.M740Bbs.rel8 d : Nat) : Int) = d % 256 := by unfold Model.M740Bbs.rel8; omega
  generalize Model.M740Bbs.rel8 d = x at *
  unfold sx8
  by_cases hc : x < 128
  · rw [if_pos hc]; omega
  · rw [if_neg hc]; omega


end AslModel.M740BbsLemmas
