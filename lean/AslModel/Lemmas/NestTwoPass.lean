import AslModel.Lemmas.NestSpecAux
/-! The SPEC's two passes against each other (for the hypotheses of `C11_nest_refines`): the second pass defines the same
labels in the same scopes as the first, so it counts the same double definitions, and it finds every label the first
pass has found. -/
namespace AslModel.NestSpec

def hasKey (t : Syms) (l sc : Nat) : Bool := t.any fun e => e.label == l && e.scope == sc

def keyOf (e : Sym) : Nat × Nat := (e.label, e.scope)

theorem findSym_isSome (t : Syms) (l sc : Nat) : (findSym t l sc).isSome = hasKey t l sc := by
  unfold findSym hasKey
  induction t with
  | nil => rfl
  | cons e t ih =>
    rw [List.find?_cons, List.any_cons]
    cases (e.label == l && e.scope == sc)
    · simpa using ih
    · rfl

theorem hasKey_congr {t1 t2 : Syms} (h : t1.map keyOf = t2.map keyOf) (l sc : Nat) : hasKey t1 l sc = hasKey t2 l sc := by
  have e : ∀ t : Syms, hasKey t l sc = (t.map keyOf).any (fun k => k.1 == l && k.2 == sc) := by
    intro t
    unfold hasKey
    rw [List.any_map]
    rfl
  rw [e t1, e t2, h]

theorem hasKey_append (t1 t2 : Syms) (l sc : Nat) : hasKey (t1 ++ t2) l sc = (hasKey t1 l sc || hasKey t2 l sc) := by
  unfold hasKey; exact List.any_append

theorem lookup_none (t : Syms) (l : Nat) (ch : List Nat) : lookup t l ch = none ↔ ∀ sc ∈ ch, hasKey t l sc = false := by
  induction ch with
  | nil => simp [lookup]
  | cons sc ch ih =>
    unfold lookup
    cases hf : findSym t l sc with
    | some e =>
      have : hasKey t l sc = true := by rw [← findSym_isSome, hf]; rfl
      simp [this]
    | none =>
      have : hasKey t l sc = false := by rw [← findSym_isSome, hf]; rfl
      simp [this, ih]

/-- the "defined in this pass already" test of `defLabel` -/
def twice (t : Syms) (l sc pass : Nat) : Bool :=
  match findSym t l sc with
  | some e => e.pass == pass
  | none => false

theorem twice_all {t : Syms} {pass : Nat} (h : ∀ e ∈ t, e.pass = pass) (l sc : Nat) : twice t l sc pass = hasKey t l sc := by
  unfold twice
  rw [← findSym_isSome]
  cases hf : findSym t l sc with
  | none => rfl
  | some e =>
    have : e ∈ t := by unfold findSym at hf; exact List.mem_of_find?_eq_some hf
    simp [h e this]

theorem twice_append {nb fin : Syms} {pass : Nat} (h1 : ∀ e ∈ nb, e.pass = pass) (h2 : ∀ e ∈ fin, e.pass ≠ pass) (l sc : Nat) :
    twice (nb ++ fin) l sc pass = hasKey nb l sc := by
  unfold twice
  have hfa : findSym (nb ++ fin) l sc = (findSym nb l sc).or (findSym fin l sc) := by
    unfold findSym; exact List.find?_append
  rw [hfa, ← findSym_isSome]
  cases hf : findSym nb l sc with
  | some e =>
    have : e ∈ nb := by unfold findSym at hf; exact List.mem_of_find?_eq_some hf
    simp [h1 e this]
  | none =>
    cases hg : findSym fin l sc with
    | none => rfl
    | some e =>
      have : e ∈ fin := by unfold findSym at hg; exact List.mem_of_find?_eq_some hg
      have := h2 e this
      simp [this]

/-- pass `pa` (state `a`, started with an empty table) and pass `pb` (state `b`, started with the table `fin`) at the
    same place of the program -/
structure T (fin : Syms) (pa pb mx0 : Nat) (a b : SSt) : Prop where
  nb : ∃ nb : Syms, b.syms = nb ++ fin ∧ nb.map keyOf = a.syms.map keyOf ∧ ∀ e ∈ nb, e.pass = pb
  hfin : ∀ e ∈ fin, e.pass ≠ pb
  hpa : a.pass = pa
  hpb : b.pass = pb
  alla : ∀ e ∈ a.syms, e.pass = pa
  ns : a.nextScope = b.nextScope
  dbl : a.dbl = b.dbl
  undef : b.undef ≤ a.undef
  mx : max a.maxOpen mx0 = b.maxOpen

theorem t_defLabel {fin : Syms} {pa pb mx0 : Nat} {a b : SSt} (h : T fin pa pb mx0 a b) (c : Ctx) (l : Nat) :
    T fin pa pb mx0 (defLabel a c l) (defLabel b c l) := by
  obtain ⟨nb, hb, hk, hnb⟩ := h.nb
  have hta : twice a.syms l (c.chain.headD 0) a.pass = hasKey a.syms l (c.chain.headD 0) := twice_all (h.hpa ▸ h.alla) _ _
  have htb : twice b.syms l (c.chain.headD 0) b.pass = hasKey nb l (c.chain.headD 0) := by
    rw [hb]; exact twice_append (h.hpb ▸ hnb) (h.hpb ▸ h.hfin) _ _
  refine ⟨⟨_ :: nb, by show _ :: b.syms = _ :: nb ++ fin; rw [hb]; rfl, by show _ :: nb.map keyOf = _ :: a.syms.map keyOf; rw [hk]; rfl, ?_⟩,
    h.hfin, h.hpa, h.hpb, ?_, h.ns, ?_, h.undef, h.mx⟩
  · intro e he
    simp only [List.mem_cons] at he
    rcases he with rfl | he
    · exact h.hpb
    · exact hnb e he
  · intro e he
    have he' : e ∈ _ :: a.syms := he
    simp only [List.mem_cons] at he'
    rcases he' with rfl | he'
    · exact h.hpa
    · exact h.alla e he'
  · show (if twice a.syms l (c.chain.headD 0) a.pass = true then a.dbl + 1 else a.dbl) =
      (if twice b.syms l (c.chain.headD 0) b.pass = true then b.dbl + 1 else b.dbl)
    rw [hta, htb, hasKey_congr hk, h.dbl]

theorem t_useLabel {fin : Syms} {pa pb mx0 : Nat} {a b : SSt} (h : T fin pa pb mx0 a b) (c : Ctx) (l : Nat) :
    T fin pa pb mx0 (useLabel a c l) (useLabel b c l) := by
  obtain ⟨nb, hb, hk, hnb⟩ := h.nb
  have himp : lookup b.syms l c.chain = none → lookup a.syms l c.chain = none := by
    rw [lookup_none, lookup_none]
    intro hn sc hsc
    have := hn sc hsc
    rw [hb, hasKey_append] at this
    rw [← hasKey_congr hk]
    cases hh : hasKey nb l sc
    · rfl
    · rw [hh] at this; cases this
  unfold useLabel
  cases hla : lookup a.syms l c.chain with
  | some va =>
    cases hlb : lookup b.syms l c.chain with
    | some vb => exact ⟨h.nb, h.hfin, h.hpa, h.hpb, h.alla, h.ns, h.dbl, h.undef, h.mx⟩
    | none => rw [himp hlb] at hla; cases hla
  | none =>
    cases hlb : lookup b.syms l c.chain with
    | some vb => exact ⟨h.nb, h.hfin, h.hpa, h.hpb, h.alla, h.ns, h.dbl, Nat.le_succ_of_le h.undef, h.mx⟩
    | none => exact ⟨h.nb, h.hfin, h.hpa, h.hpb, h.alla, h.ns, h.dbl, Nat.succ_le_succ h.undef, h.mx⟩

theorem t_enter {fin : Syms} {pa pb mx0 : Nat} {a b : SSt} (h : T fin pa pb mx0 a b) (c : Ctx) (gs : Bool) :
    T fin pa pb mx0 (enter a c gs).1 (enter b c gs).1 ∧ (enter a c gs).2 = (enter b c gs).2 := by
  unfold enter
  cases gs
  · exact ⟨⟨h.nb, h.hfin, h.hpa, h.hpb, h.alla, by show a.nextScope + 1 = b.nextScope + 1; rw [h.ns], h.dbl, h.undef, h.mx⟩,
      by show a.nextScope :: c.chain = b.nextScope :: c.chain; rw [h.ns]⟩
  · exact ⟨h, rfl⟩

theorem t_iter {fin : Syms} {pa pb mx0 : Nat} (g1 g2 : SSt → SSt) (hg : ∀ a b, T fin pa pb mx0 a b → T fin pa pb mx0 (g1 a) (g2 b)) (n : Nat) :
    ∀ a b, T fin pa pb mx0 a b → T fin pa pb mx0 (iter g1 n a) (iter g2 n b) := by
  induction n with
  | zero => intro a b h; exact h
  | succ n ih => intro a b h; exact ih _ _ (hg a b h)

theorem two_pass (p : Prog) (fin : Syms) (pa pb mx0 : Nat) (F : Nat) :
    ∀ (c : Ctx) (ls : List BLine) (a b : SSt), T fin pa pb mx0 a b → T fin pa pb mx0 (lines p F c ls a) (lines p F c ls b) := by
  induction F with
  | zero =>
    intro c ls a b h
    rw [lines_zero, lines_zero]
    exact ⟨h.nb, h.hfin, h.hpa, h.hpb, h.alla, h.ns, h.dbl, h.undef, h.mx⟩
  | succ F ih =>
    intro c ls a b h
    cases ls with
    | nil => exact h
    | cons l ls =>
      rw [lines_cons, lines_cons]
      apply ih
      have hcall : ∀ m x, T fin pa pb mx0 (callM p F c a m x) (callM p F c b m x) := by
        intro m x
        unfold callM
        obtain ⟨he, hch⟩ := t_enter h c (getDef p m).gs
        rw [hch]
        apply ih
        refine ⟨he.nb, he.hfin, he.hpa, he.hpb, he.alla, he.ns, he.dbl, he.undef, ?_⟩
        show max (max (enter a c (getDef p m).gs).1.maxOpen (countOpen c m + 1)) mx0 =
          max (enter b c (getDef p m).gs).1.maxOpen (countOpen c m + 1)
        rw [← he.mx]; omega
      cases l with
      | emit k => exact ⟨h.nb, h.hfin, h.hpa, h.hpb, h.alla, h.ns, h.dbl, h.undef, h.mx⟩
      | deflab l => exact t_defLabel h c l
      | reflab l => exact t_useLabel h c l
      | defArg => exact t_defLabel h c _
      | refArg => exact t_useLabel h c _
      | call m x => exact hcall m x
      | callDec m =>
        show T fin pa pb mx0 (if c.arg > 0 then callM p F c a m (c.arg - 1) else a) (if c.arg > 0 then callM p F c b m (c.arg - 1) else b)
        split
        · exact hcall m _
        · exact h
      | loop d n k =>
        show T fin pa pb mx0 (iter (iterBody p F c (getDef p d)) n a) (iter (iterBody p F c (getDef p d)) n b)
        apply t_iter _ _ _ n a b h
        intro a' b' h'
        unfold iterBody
        obtain ⟨he, hch⟩ := t_enter h' c (getDef p d).gs
        rw [hch]
        exact ih _ _ _ _ he

/-- every entry of the first pass' table is of pass 1 -/
theorem first_all_pass (p : Prog) (F : Nat) : ∀ e ∈ (first p F).syms, e.pass = 1 := by
  have h0 : T [] 1 2 0 {} { pass := 2 } :=
    ⟨⟨[], rfl, rfl, fun _ h => nomatch h⟩, (fun _ h => nomatch h), rfl, rfl, (fun _ h => nomatch h), rfl, rfl, Nat.le_refl _, rfl⟩
  exact (two_pass p [] 1 2 0 F topCtx p.top _ _ h0).alla

/-- The SPEC's second pass counts the double definitions of the first, finds every label the first has found, and has
    the same numbers of open expansions. -/
theorem run_vs_first (p : Prog) (F : Nat) : (first p F).dbl = (run p F).dbl ∧ (run p F).undef ≤ (first p F).undef ∧
    (run p F).maxOpen = (first p F).maxOpen := by
  have h0 : T (first p F).syms 1 2 (first p F).maxOpen {} (second0 p F) :=
    ⟨⟨[], rfl, rfl, fun _ h => nomatch h⟩, (fun e he => by rw [first_all_pass p F e he]; decide), rfl, rfl,
      (fun _ h => nomatch h), rfl, rfl, Nat.le_refl _, Nat.zero_max _⟩
  have h := two_pass p (first p F).syms 1 2 (first p F).maxOpen F topCtx p.top _ _ h0
  rw [run_eq]
  refine ⟨h.dbl, h.undef, ?_⟩
  have := h.mx
  show (lines p F topCtx p.top (second0 p F)).maxOpen = (lines p F topCtx p.top {}).maxOpen
  rw [← this]
  exact Nat.max_self _

end AslModel.NestSpec
