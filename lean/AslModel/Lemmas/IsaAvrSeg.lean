import AslModel.Lemmas.IsaAvr
/-! Lemmas for C14 / AVR: the CPU argument `CODESEGSIZE` (`Model/Isa/IAvr.lean`, last section).  With `CodeSegSize = 1` the
handlers are the word-mode handlers; with `CodeSegSize = 0` (and `WRAPMODE OFF`) a statement at the even byte address `pc`
is assembled exactly like the statement with the halved code address at word `pc / 2`, and refused if the address is odd. -/
namespace AslModel.Isa.IAvr
open AslModel.PFile (Byte b b_toNat)
open AslModel.Spec.IAvr
open AslModel.Generated.IsaAvr

/-- `compat`, and the type `SwitchTo_AVR` picks for the doubled limit has the range of the byte addresses -/
def compatA (p : Props) (c : Cpu) : Bool :=
  compat p c && typeHasRange (codeAdrIntTypeA p 0) 0 ((2 : Int) ^ (c.pcBits + 1) - 1)

/-! ### `CodeSegSize = 1` -/

theorem segLimitCodeA_one (p : Props) : segLimitCodeA p 1 = segLimitCode p := by simp [segLimitCodeA]

theorem getWordCodeAddressA_word (x : CtxA) (h : x.codeSegSize = 1) (a : Int) :
    getWordCodeAddressA x a = getWordCodeAddress x.p a := by
  unfold getWordCodeAddressA getWordCodeAddress codeAdrIntTypeA codeAdrIntType
  rw [h, segLimitCodeA_one]
  cases evalInt (getSmallestUIntType (segLimitCode x.p)) a <;> simp

theorem relDistA_word (x : CtxA) (h : x.codeSegSize = 1) (a : Int) : relDistA x a = relDist x.toCtx a := by
  unfold relDistA relDist
  rw [getWordCodeAddressA_word x h]
  unfold getNextCodeAddressA getNextCodeAddress cutAdrA
  rw [h]
  simp

theorem dispatchA_word (x : CtxA) (h : x.codeSegSize = 1) (hd : Handler) (args : List Int) :
    dispatchA x hd args = dispatch x.toCtx hd args := by
  cases hd <;> try rfl
  case rel code => simp only [dispatchA, dispatch, decodeRelA, decodeRel, relDistA_word x h]
  case brbsbc idx => simp only [dispatchA, dispatch, decodeBRBSBCA, decodeBRBSBC, relDistA_word x h]
  case jmpcall idx => simp only [dispatchA, dispatch, decodeJMPCALLA, decodeJMPCALL, getWordCodeAddressA_word x h]
  case rjmpcall idx => simp only [dispatchA, dispatch, decodeRJMPCALLA, decodeRJMPCALL, relDistA_word x h]

/-! ### `CodeSegSize = 0` -/

theorem halveLast_length : ∀ (l l' : List Int), halveLast l = some l' → l'.length = l.length
  | [], l', h => by simp [halveLast] at h; subst h; rfl
  | [a], l', h => by
    simp only [halveLast] at h
    split at h
    · simp at h; subst h; rfl
    · simp at h
  | a :: b :: t, l', h => by
    simp only [halveLast, Option.map_eq_some_iff] at h
    obtain ⟨l2, h2, rfl⟩ := h
    simp [halveLast_length (b :: t) l2 h2]

/-- the word-mode context a byte-mode context stands for -/
def wordCtx (x : CtxA) : Ctx := ⟨x.p, false, x.pc / 2⟩

theorem pow_succ2 (n : Nat) : (2 : Int) ^ (n + 1) = 2 * 2 ^ n := by rw [Int.pow_succ]; omega

theorem getWordCodeAddressA_byte (x : CtxA) (c : Cpu) (hc : compatA x.p c = true) (hseg : x.codeSegSize = 0) (a : Int) :
    okBytes (andThen (getWordCodeAddressA x a) f) =
      if a % 2 = 0 then okBytes (andThen (getWordCodeAddress x.p (a / 2)) f) else none := by
  simp only [compatA, Bool.and_eq_true] at hc
  unfold getWordCodeAddressA
  rw [hseg, evalInt_range _ _ _ hc.2 a, codeAddr_eq x.p c hc.1, pow_succ2]
  by_cases hr : 0 ≤ a ∧ a ≤ 2 * 2 ^ c.pcBits - 1
  · by_cases he : a % 2 = 0
    · have : 0 ≤ a / 2 ∧ a / 2 ≤ 2 ^ c.pcBits - 1 := by omega
      simp [hr, he, this]
    · simp [hr, he]
  · by_cases he : a % 2 = 0
    · have : ¬ (0 ≤ a / 2 ∧ a / 2 ≤ 2 ^ c.pcBits - 1) := by omega
      simp [hr, he, this]
    · simp [hr, he]

theorem relDistA_byte (x : CtxA) (c : Cpu) (hc : compatA x.p c = true) (hseg : x.codeSegSize = 0) (hw : x.wrap = false)
    (a : Int) (f : Int → Except Err (List Byte)) :
    okBytes (andThen (relDistA x a) f) =
      if a % 2 = 0 then okBytes (andThen (relDist (wordCtx x) (a / 2)) f) else none := by
  have key := getWordCodeAddressA_byte (f := fun t => f (t - getNextCodeAddressA x)) x c hc hseg a
  unfold relDistA relDist
  have hn : getNextCodeAddressA x = getNextCodeAddress (wordCtx x) := by
    unfold getNextCodeAddressA getNextCodeAddress wordCtx
    simp only [hseg, if_true]
    omega
  have hwr : (wordCtx x).wrap = false := rfl
  have hp : (wordCtx x).p = x.p := rfl
  simp only [hw, hwr, hp, Bool.false_eq_true, if_false, ← hn]
  cases hg : getWordCodeAddressA x a <;> cases hg2 : getWordCodeAddress x.p (a / 2) <;> simp_all

/-- the other handlers do not look at the program counter or `WRAPMODE` -/
theorem dispatchA_other (x : CtxA) (hd : Handler) (hu : usesCodeAddr hd = false) (args : List Int) :
    dispatchA x hd args = dispatch (wordCtx x) hd args := by
  cases hd <;> first | rfl | simp [usesCodeAddr] at hu

/-- shape of the one- and two-operand handlers -/
def one (g : Int → Except Err (List Byte)) : List Int → Except Err (List Byte)
  | [a] => g a
  | _ => .error .argCnt
def two (g : Int → Int → Except Err (List Byte)) : List Int → Except Err (List Byte)
  | [a1, a2] => g a1 a2
  | _ => .error .argCnt

theorem one_len (g : Int → Except Err (List Byte)) (l : List Int) (hl : l.length ≠ 1) : okBytes (one g l) = none := by
  rcases l with _ | ⟨a, _ | ⟨a2, t⟩⟩
  · rfl
  · simp at hl
  · rfl

theorem two_len (g : Int → Int → Except Err (List Byte)) (l : List Int) (hl : l.length ≠ 2) : okBytes (two g l) = none := by
  rcases l with _ | ⟨a, _ | ⟨a2, _ | ⟨a3, t⟩⟩⟩
  · rfl
  · rfl
  · simp at hl
  · rfl

theorem one_halve (g g' : Int → Except Err (List Byte))
    (h : ∀ a, okBytes (g a) = if a % 2 = 0 then okBytes (g' (a / 2)) else none) (args : List Int) :
    okBytes (one g args) = (halveLast args).bind fun as => okBytes (one g' as) := by
  rcases args with _ | ⟨a, _ | ⟨a2, t⟩⟩
  · rfl
  · simp only [one, halveLast, h]; split <;> rfl
  · cases hh : halveLast (a :: a2 :: t) with
    | none => rfl
    | some l =>
      have := halveLast_length _ _ hh
      simp only [Option.bind_some]
      rw [one_len g' l (by simp at this; omega)]; rfl

theorem two_halve (g g' : Int → Int → Except Err (List Byte))
    (h : ∀ a1 a, okBytes (g a1 a) = if a % 2 = 0 then okBytes (g' a1 (a / 2)) else none) (args : List Int) :
    okBytes (two g args) = (halveLast args).bind fun as => okBytes (two g' as) := by
  rcases args with _ | ⟨a1, _ | ⟨a, _ | ⟨a3, t⟩⟩⟩
  · rfl
  · simp only [halveLast]; split <;> rfl
  · simp only [two, halveLast, h]; split <;> rfl
  · cases hh : halveLast (a1 :: a :: a3 :: t) with
    | none => rfl
    | some l =>
      have := halveLast_length _ _ hh
      simp only [Option.bind_some]
      rw [two_len g' l (by simp at this; omega)]; rfl

theorem decodeRelA_one (x : CtxA) (code : Nat) (args : List Int) :
    decodeRelA x code args = one (fun a => andThen (relDistA x a) fun d =>
      if d < -64 ∨ d > 63 then .error .jmpDist else .ok (appendCode (code ||| (lowBits d 7 <<< 3)))) args := by
  rcases args with _ | ⟨a, _ | ⟨a2, t⟩⟩ <;> rfl
theorem decodeRel_one (x : Ctx) (code : Nat) (args : List Int) :
    decodeRel x code args = one (fun a => andThen (relDist x a) fun d =>
      if d < -64 ∨ d > 63 then .error .jmpDist else .ok (appendCode (code ||| (lowBits d 7 <<< 3)))) args := by
  rcases args with _ | ⟨a, _ | ⟨a2, t⟩⟩ <;> rfl
theorem decodeRJMPCALLA_one (x : CtxA) (idx : Nat) (args : List Int) :
    decodeRJMPCALLA x idx args = one (fun a => andThen (relDistA x a) fun d =>
      if d < -2048 ∨ d > 2047 then .error .jmpDist else .ok (appendCode (0xc000 ||| idx ||| lowBits d 12))) args := by
  rcases args with _ | ⟨a, _ | ⟨a2, t⟩⟩ <;> rfl
theorem decodeRJMPCALL_one (x : Ctx) (idx : Nat) (args : List Int) :
    decodeRJMPCALL x idx args = one (fun a => andThen (relDist x a) fun d =>
      if d < -2048 ∨ d > 2047 then .error .jmpDist else .ok (appendCode (0xc000 ||| idx ||| lowBits d 12))) args := by
  rcases args with _ | ⟨a, _ | ⟨a2, t⟩⟩ <;> rfl

/-- what `DecodeJMPCALL` composes from the word address -/
def jmpWords (idx : Nat) (t : Int) : Except Err (List Byte) :=
  .ok (appendCode (0x940c ||| idx ||| ((t.toNat / 131072 % 32) <<< 4) ||| (t.toNat / 65536 % 2)) ++ appendCode (t.toNat % 65536))

theorem decodeJMPCALLA_one (x : CtxA) (idx : Nat) (args : List Int) :
    decodeJMPCALLA x idx args = one (fun a => if chkMinCore x.p gateJmpCall then andThen (getWordCodeAddressA x a) (jmpWords idx)
      else .error .cpu) args := by
  rcases args with _ | ⟨a, _ | ⟨a2, t⟩⟩ <;> rfl
theorem decodeJMPCALL_one (x : Ctx) (idx : Nat) (args : List Int) :
    decodeJMPCALL x idx args = one (fun a => if chkMinCore x.p gateJmpCall then andThen (getWordCodeAddress x.p a) (jmpWords idx)
      else .error .cpu) args := by
  rcases args with _ | ⟨a, _ | ⟨a2, t⟩⟩ <;> rfl

theorem decodeBRBSBCA_two (x : CtxA) (idx : Nat) (args : List Int) :
    decodeBRBSBCA x idx args = two (fun a1 a2 => andThen (evalInt itBrb a1) fun bv => andThen (relDistA x a2) fun d =>
      if d < -64 ∨ d > 63 then .error .jmpDist
      else .ok (appendCode (0xf000 ||| idx ||| (lowBits d 7 <<< 3) ||| toWord bv))) args := by
  rcases args with _ | ⟨a, _ | ⟨a2, _ | ⟨a3, t⟩⟩⟩ <;> rfl
theorem decodeBRBSBC_two (x : Ctx) (idx : Nat) (args : List Int) :
    decodeBRBSBC x idx args = two (fun a1 a2 => andThen (evalInt itBrb a1) fun bv => andThen (relDist x a2) fun d =>
      if d < -64 ∨ d > 63 then .error .jmpDist
      else .ok (appendCode (0xf000 ||| idx ||| (lowBits d 7 <<< 3) ||| toWord bv))) args := by
  rcases args with _ | ⟨a, _ | ⟨a2, _ | ⟨a3, t⟩⟩⟩ <;> rfl

/-- **byte mode = word mode on the halved code address**, handler by handler -/
theorem dispatchA_byte (x : CtxA) (c : Cpu) (hc : compatA x.p c = true) (hseg : x.codeSegSize = 0) (hw : x.wrap = false)
    (hd : Handler) (hu : usesCodeAddr hd = true) (args : List Int) :
    okBytes (dispatchA x hd args) = (halveLast args).bind fun as => okBytes (dispatch (wordCtx x) hd as) := by
  cases hd <;> try (simp [usesCodeAddr] at hu)
  case rel code =>
    simp only [dispatchA, dispatch, decodeRelA_one, decodeRel_one]
    exact one_halve _ _ (fun a => relDistA_byte x c hc hseg hw a _) args
  case rjmpcall idx =>
    simp only [dispatchA, dispatch, decodeRJMPCALLA_one, decodeRJMPCALL_one]
    exact one_halve _ _ (fun a => relDistA_byte x c hc hseg hw a _) args
  case jmpcall idx =>
    simp only [dispatchA, dispatch, decodeJMPCALLA_one, decodeJMPCALL_one]
    refine one_halve _ _ (fun a => ?_) args
    have hp : (wordCtx x).p = x.p := rfl
    simp only [hp]
    by_cases hg : chkMinCore x.p gateJmpCall = true
    · simp only [hg, if_true]
      exact getWordCodeAddressA_byte x c hc hseg a
    · have hg' : chkMinCore x.p gateJmpCall = false := by simpa using hg
      simp only [hg', Bool.false_eq_true, if_false, okBytes_error]; split <;> rfl
  case brbsbc idx =>
    simp only [dispatchA, dispatch, decodeBRBSBCA_two, decodeBRBSBC_two]
    refine two_halve _ _ (fun a1 a => ?_) args
    cases hb : evalInt itBrb a1 with
    | error e => simp only [andThen_error, okBytes_error]; split <;> rfl
    | ok bv => simp only [andThen_ok]; exact relDistA_byte x c hc hseg hw a _

/-- SPEC form and handler kind agree on "takes a code address" -/
theorem usesCodeAddr_form (m : Mn) : (lookup m).map usesCodeAddr = some (hasCodeOpd m) := by
  cases m <;> decide

theorem encodeA_word (x : CtxA) (h : x.codeSegSize = 1) (s : Src) : encodeA x s = encode x.toCtx s := by
  unfold encodeA encode
  cases lookup s.mn with
  | none => rfl
  | some hd => exact dispatchA_word x h hd s.args

theorem encodeA_byte (x : CtxA) (c : Cpu) (hc : compatA x.p c = true) (hseg : x.codeSegSize = 0) (hw : x.wrap = false) (s : Src) :
    okBytes (encodeA x s) = (wordStmt s).bind fun s' => okBytes (encode (wordCtx x) s') := by
  have hk := usesCodeAddr_form s.mn
  unfold encodeA wordStmt
  cases hl : lookup s.mn with
  | none => rw [hl] at hk; simp at hk
  | some hd =>
    rw [hl] at hk
    simp only [Option.map_some, Option.some.injEq] at hk
    by_cases hu : usesCodeAddr hd = true
    · rw [hu] at hk
      simp only [← hk, if_true]
      rw [dispatchA_byte x c hc hseg hw hd hu]
      cases halveLast s.args with
      | none => rfl
      | some as => simp only [Option.bind_some, Option.map_some, encode, hl]
    · have hu' : usesCodeAddr hd = false := by simpa using hu
      rw [hu'] at hk
      simp only [← hk, Bool.false_eq_true, if_false, Option.bind_some, encode, hl]
      rw [dispatchA_other x hd hu']

end AslModel.Isa.IAvr
