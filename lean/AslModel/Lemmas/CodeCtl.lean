import AslModel.Model.CodeCtl
import AslModel.Lemmas.CodeStmt
/-! Lemmas for `Props/C04_Ctl.lean`: the globals of `Model/CodeCtl.lean` against the manual's reading, statement by statement. -/
namespace AslModel.CodeFile
open AslModel.PFile

theorem setPC_ctx (s : CS) (v : Nat) : (s.setPC v).ctx = s.ctx := rfl
theorem setPC_pc (s : CS) (v : Nat) : (s.setPC v).pc = v := by simp [CS.setPC, CS.pc]
theorem setPC_self (s : CS) : s.setPC (s.pc + 0) = s := by
  cases s
  simp only [CS.setPC, CS.pc, Nat.add_zero, CS.mk.injEq, true_and, and_true]
  funext k
  split <;> simp_all
theorem setPC_setPC (s : CS) (a b : Nat) : (s.setPC a).setPC b = s.setPC b := by
  cases s
  simp only [CS.setPC, CS.mk.injEq, true_and, and_true]
  funext k
  split <;> simp_all

theorem setNSeg_state (s : CS) (g : Byte) : (setNSeg s g).1 = { s with actPC := g } := by
  unfold setNSeg
  by_cases h : s.actPC = g
  · subst h
    simp
  · simp [h]

theorem ctlStep_state (s : CS) (x : Ctl) : (ctlStep s x).1 = specStepC s x := by
  cases x with
  | data bs => rfl
  | res n => rfl
  | org a =>
    simp only [ctlStep, ctlDecode, specStepC]
    split
    · simp [setPC_pc, setPC_setPC]
    · rename_i h
      have : s.pc = a := by simpa using h
      subst this
      simp
  | segment g =>
    simp only [ctlStep, ctlDecode, specStepC, setNSeg_state]
    exact setPC_self _
  | cpu c =>
    simp only [ctlStep, ctlDecode, specStepC, setNSeg_state, setCPUCore]
    exact setPC_self _
  | save => exact setPC_self _
  | restore =>
    simp only [ctlStep, ctlDecode, specStepC]
    cases hsv : s.saves with
    | nil => exact setPC_self _
    | cons top rest =>
      obtain ⟨sc, sp⟩ := top
      simp only [setCPUCore]
      rw [setPC_self]
      cases s
      simp only at hsv
      subst hsv
      by_cases h1 : sp = ‹Byte› <;> by_cases h2 : sc = ‹Cpu› <;> simp_all

/-- a statement other than a data statement that does not set `DontPrint` leaves header context and counter alone -/
theorem quiet (s : CS) (x : Ctl) (hx : ∀ bs, x ≠ .data bs) (hq : (ctlDecode s x).2.2 = false) :
    (specStepC s x).ctx = s.ctx ∧ (specStepC s x).pc = s.pc := by
  cases x with
  | data bs => exact absurd rfl (hx bs)
  | res n => simp [ctlDecode] at hq
  | org a =>
    simp only [ctlDecode] at hq
    split at hq
    · simp at hq
    · rename_i h
      have : s.pc = a := by simpa using h
      subst this
      exact ⟨rfl, setPC_pc _ _⟩
  | segment g =>
    simp only [ctlDecode, setNSeg] at hq
    split at hq
    · simp at hq
    · rename_i h
      have : s.actPC = g := by simpa using h
      subst this
      exact ⟨rfl, rfl⟩
  | cpu c => simp [ctlDecode, setCPUCore] at hq
  | save => exact ⟨rfl, rfl⟩
  | restore =>
    simp only [ctlDecode, specStepC] at hq ⊢
    cases hsv : s.saves with
    | nil => exact ⟨rfl, rfl⟩
    | cons top rest =>
      obtain ⟨sc, sp⟩ := top
      rw [hsv] at hq
      simp only [setCPUCore] at hq
      by_cases h1 : sp = s.actPC
      · by_cases h2 : sc = s.cpu
        · subst h1 h2
          exact ⟨rfl, rfl⟩
        · simp [h1, h2] at hq
      · simp [h1] at hq

theorem specCells_ctl (l : List Ctl) : ∀ (s : CS), CtlsWF s l → specCells s.ctx s.pc (ctlEvs s l) = specCellsC s l := by
  induction l with
  | nil => intro s _; rfl
  | cons x r ih =>
    intro s hwf
    have hst := ctlStep_state s x
    simp only [ctlEvs]
    rw [hst]
    by_cases hd : ∃ bs, x = .data bs
    · obtain ⟨bs, rfl⟩ := hd
      have hwf' : CtlsWF (specStepC s (.data bs)) r := hwf.2.2
      simp only [ctlStep, List.singleton_append, specCells, specCellsC]
      have := ih _ hwf'
      simp only [specStepC, setPC_ctx, setPC_pc] at this ⊢
      rw [← this]
      rfl
    · have hx : ∀ bs, x ≠ .data bs := fun bs h => hd ⟨bs, h⟩
      have hwf' : CtlsWF (specStepC s x) r := by
        cases x with
        | data bs => exact absurd rfl (hx bs)
        | restore => exact hwf.2
        | res n => exact hwf
        | org a => exact hwf
        | segment g => exact hwf
        | cpu c => exact hwf
        | save => exact hwf
      have hcells : specCellsC s (x :: r) = specCellsC (specStepC s x) r := by
        cases x with
        | data bs => exact absurd rfl (hx bs)
        | _ => rfl
      rw [hcells, ← ih _ hwf']
      have hev : (ctlStep s x).2 = if (ctlDecode s x).2.2 then [Ev.jump (ctlStep s x).1.ctx (ctlStep s x).1.pc] else [] := by
        cases x with
        | data bs => exact absurd rfl (hx bs)
        | _ => rfl
      rw [hev, hst]
      cases hq : (ctlDecode s x).2.2 with
      | true => simp [specCells]
      | false =>
        obtain ⟨h1, h2⟩ := quiet s x hx hq
        simp [h1, h2]

theorem evsWF_ctl (l : List Ctl) : ∀ (s : CS), CtlsWF s l → EvsWF s.ctx (ctlEvs s l) := by
  induction l with
  | nil => intro s _; trivial
  | cons x r ih =>
    intro s hwf
    have hst := ctlStep_state s x
    simp only [ctlEvs]
    rw [hst]
    by_cases hd : ∃ bs, x = .data bs
    · obtain ⟨bs, rfl⟩ := hd
      have := ih _ hwf.2.2
      simp only [ctlStep, List.singleton_append, EvsWF]
      exact ⟨hwf.1, hwf.2.1, this⟩
    · have hx : ∀ bs, x ≠ .data bs := fun bs h => hd ⟨bs, h⟩
      have hwf' : CtlsWF (specStepC s x) r := by
        cases x with
        | data bs => exact absurd rfl (hx bs)
        | restore => exact hwf.2
        | res n => exact hwf
        | org a => exact hwf
        | segment g => exact hwf
        | cpu c => exact hwf
        | save => exact hwf
      have hev : (ctlStep s x).2 = if (ctlDecode s x).2.2 then [Ev.jump (ctlStep s x).1.ctx (ctlStep s x).1.pc] else [] := by
        cases x with
        | data bs => exact absurd rfl (hx bs)
        | _ => rfl
      rw [hev, hst]
      cases hq : (ctlDecode s x).2.2 with
      | true => simpa [EvsWF] using ih _ hwf'
      | false =>
        obtain ⟨h1, _⟩ := quiet s x hx hq
        have := ih _ hwf'
        rw [h1] at this
        simpa using this

theorem expand_map_ev (evs : List Ev) : ∀ (c : Ctx) (pc : Nat), expand c pc (evs.map Stmt.ev) = evs := by
  induction evs with
  | nil => intro c pc; rfl
  | cons e r ih =>
    intro c pc
    cases e with
    | emit bs => simp [expand, ih]
    | jump c' pc' => simp [expand, ih]

end AslModel.CodeFile
