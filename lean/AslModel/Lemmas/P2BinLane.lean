import AslModel.Lemmas.P2Bin
/-! C05, byte lanes (`-m`): `laneFilter` commutes with `ProcessFile`'s seek-and-write when the window and the part of every
record inside it begin on a boundary of the lane pattern. -/
namespace AslModel.P2Bin
open AslModel.PFile

/-! ### `laneFilter` / `laneCount` -/

theorem laneFilter_length {α : Type} (ok : Nat → Bool) : ∀ (l : List α) (base : Nat),
    (laneFilter ok base l).length = laneCount ok base l.length := by
  intro l
  induction l with
  | nil => intro base; rfl
  | cons x xs ih =>
    intro base
    simp only [laneFilter, List.length_cons, laneCount]
    split
    · simp only [List.length_cons, ih]; omega
    · simp only [ih]; simp

theorem laneFilter_append {α : Type} (ok : Nat → Bool) : ∀ (x y : List α) (base : Nat),
    laneFilter ok base (x ++ y) = laneFilter ok base x ++ laneFilter ok (base + x.length) y := by
  intro x
  induction x with
  | nil => intro y base; rfl
  | cons a x ih =>
    intro y base
    have e : base + (a :: x).length = base + 1 + x.length := by simp only [List.length_cons]; omega
    simp only [List.cons_append, laneFilter, e]
    split
    · rw [ih]; rfl
    · rw [ih]

theorem laneFilter_congr {α : Type} (ok1 ok2 : Nat → Bool) : ∀ (l : List α) (b1 b2 : Nat),
    (∀ k, k < l.length → ok1 (b1 + k) = ok2 (b2 + k)) → laneFilter ok1 b1 l = laneFilter ok2 b2 l := by
  intro l
  induction l with
  | nil => intro _ _ _; rfl
  | cons x xs ih =>
    intro b1 b2 h
    have h0 : ok1 b1 = ok2 b2 := h 0 (by simp)
    have hr : laneFilter ok1 (b1 + 1) xs = laneFilter ok2 (b2 + 1) xs := by
      apply ih
      intro k hk
      have := h (k + 1) (by simp only [List.length_cons]; omega)
      rw [show b1 + 1 + k = b1 + (k + 1) by omega, show b2 + 1 + k = b2 + (k + 1) by omega]
      exact this
    simp only [laneFilter, h0, hr]

theorem laneFilter_replicate {α : Type} (ok : Nat → Bool) (x : α) : ∀ (n base : Nat),
    laneFilter ok base (List.replicate n x) = List.replicate (laneCount ok base n) x := by
  intro n
  induction n with
  | zero => intro base; rfl
  | succ n ih =>
    intro base
    simp only [List.replicate_succ, laneFilter, laneCount]
    split
    · rw [ih, Nat.add_comm 1 (laneCount ok (base + 1) n), List.replicate_succ]
    · rw [ih]; simp

theorem laneFilter_true {α : Type} (ok : Nat → Bool) (h : ∀ a, ok a = true) : ∀ (l : List α) (base : Nat), laneFilter ok base l = l := by
  intro l
  induction l with
  | nil => intro _; rfl
  | cons x xs ih => intro base; simp only [laneFilter, h, if_true, ih]

theorem laneCount_add (ok : Nat → Bool) : ∀ (n m base : Nat),
    laneCount ok base (n + m) = laneCount ok base n + laneCount ok (base + n) m := by
  intro n
  induction n with
  | zero => intro m base; simp [laneCount]
  | succ n ih =>
    intro m base
    rw [show n + 1 + m = (n + m) + 1 by omega]
    simp only [laneCount]
    rw [ih, show base + 1 + n = base + (n + 1) by omega]
    omega

/-- a count that is the same in every period of the pattern -/
theorem laneCount_periodic (ok : Nat → Bool) (P c : Nat) (h1 : ∀ base, base % P = 0 → laneCount ok base P = c) :
    ∀ (k base : Nat), base % P = 0 → laneCount ok base (P * k) = c * k := by
  intro k
  induction k with
  | zero => intro base _; simp [laneCount]
  | succ k ih =>
    intro base hb
    rw [Nat.mul_succ, Nat.add_comm (P * k) P, laneCount_add, h1 base hb, ih (base + P) (by rw [Nat.add_mod, hb]; simp)]
    rw [Nat.mul_succ]; omega

theorem Lane.ok_period (lane : Lane) (a : Nat) : lane.ok a = lane.ok (a % lane.period) := by
  cases lane <;> simp only [Lane.ok, Lane.period, Nat.mod_mod]

theorem Lane.ok_shift (lane : Lane) (x y k : Nat) (h : x % lane.period = y % lane.period) : lane.ok (x + k) = lane.ok (y + k) := by
  rw [lane.ok_period (x + k), lane.ok_period (y + k), Nat.add_mod x, Nat.add_mod y, h]

theorem four_steps (ok : Nat → Bool) (base : Nat) :
    laneCount ok base 4 = (if ok base then 1 else 0) + ((if ok (base + 1) then 1 else 0) +
      ((if ok (base + 1 + 1) then 1 else 0) + ((if ok (base + 1 + 1 + 1) then 1 else 0) + 0))) := rfl

theorem two_steps (ok : Nat → Bool) (base : Nat) :
    laneCount ok base 2 = (if ok base then 1 else 0) + ((if ok (base + 1) then 1 else 0) + 0) := rfl

/-- in a range that starts on a boundary of the lane pattern and spans whole periods, `n / div` addresses belong to the lane -/
theorem laneCount_aligned (lane : Lane) (hv : lane.Valid) (base n : Nat) (hb : base % lane.period = 0) (hn : n % lane.period = 0) :
    laneCount lane.ok base n = n / lane.div := by
  cases lane with
  | all =>
    have : ∀ n base, laneCount Lane.all.ok base n = n := by
      intro n; induction n with
      | zero => intro _; rfl
      | succ n ih => intro base; simp only [laneCount, Lane.ok, if_true, ih]; omega
    rw [this]; simp [Lane.div]
  | even =>
    simp only [Lane.period] at hb hn
    obtain ⟨k, rfl⟩ : ∃ k, n = 2 * k := ⟨n / 2, by omega⟩
    rw [laneCount_periodic Lane.even.ok 2 1 ?_ k base hb]
    · simp only [Lane.div]; omega
    · intro b hb'
      have m1 : (b + 1) % 2 = 1 := by omega
      rw [two_steps]; simp [Lane.ok, hb', m1]
  | odd =>
    simp only [Lane.period] at hb hn
    obtain ⟨k, rfl⟩ : ∃ k, n = 2 * k := ⟨n / 2, by omega⟩
    rw [laneCount_periodic Lane.odd.ok 2 1 ?_ k base hb]
    · simp only [Lane.div]; omega
    · intro b hb'
      have m1 : (b + 1) % 2 = 1 := by omega
      rw [two_steps]; simp [Lane.ok, hb', m1]
  | byte j =>
    have hj : j < 4 := hv
    simp only [Lane.period] at hb hn
    obtain ⟨k, rfl⟩ : ∃ k, n = 4 * k := ⟨n / 4, by omega⟩
    rw [laneCount_periodic (Lane.byte j).ok 4 1 ?_ k base hb]
    · simp only [Lane.div]; omega
    · intro b hb'
      have m1 : (b + 1) % 4 = 1 := by omega
      have m2 : (b + 1 + 1) % 4 = 2 := by omega
      have m3 : (b + 1 + 1 + 1) % 4 = 3 := by omega
      rw [four_steps]
      simp only [Lane.ok, hb', m1, m2, m3]
      match j, hj with
      | 0, _ => simp
      | 1, _ => simp
      | 2, _ => simp
      | 3, _ => simp
  | word j =>
    have hj : j < 2 := hv
    simp only [Lane.period] at hb hn
    obtain ⟨k, rfl⟩ : ∃ k, n = 4 * k := ⟨n / 4, by omega⟩
    rw [laneCount_periodic (Lane.word j).ok 4 2 ?_ k base hb]
    · simp only [Lane.div]; omega
    · intro b hb'
      have m1 : (b + 1) % 4 = 1 := by omega
      have m2 : (b + 1 + 1) % 4 = 2 := by omega
      have m3 : (b + 1 + 1 + 1) % 4 = 3 := by omega
      rw [four_steps]
      simp only [Lane.ok, hb', m1, m2, m3]
      match j, hj with
      | 0, _ => simp
      | 1, _ => simp

/-! ### `fseek` + `fwrite` into the middle of a file -/

theorem writeAt_splice (a m c x : List Byte) (h : x.length = m.length) :
    writeAt (a ++ m ++ c) a.length x = a ++ x ++ c := by
  unfold writeAt
  split
  · rename_i he
    have hx : x = [] := by simpa using he
    subst hx
    have hm : m = [] := List.eq_nil_of_length_eq_zero (by simpa using h.symm)
    subst hm
    simp
  · have hlt : ¬ (a ++ m ++ c).length < a.length := by simp only [List.length_append]; omega
    simp only [hlt, if_false]
    have e1 : List.take a.length (a ++ m ++ c) = a := by
      rw [List.append_assoc, List.take_left']
      rfl
    have e2 : List.drop (a.length + x.length) (a ++ m ++ c) = c := by
      rw [h, show a.length + m.length = (a ++ m).length by simp, List.drop_left']
      rfl
    rw [e1, e2]

theorem split3 (l : List Byte) (off len : Nat) (h : off + len ≤ l.length) :
    ∃ a m c, l = a ++ m ++ c ∧ a.length = off ∧ m.length = len :=
  ⟨l.take off, (l.drop off).take len, l.drop (off + len), by
    rw [List.append_assoc, ← List.drop_drop, List.take_append_drop, List.take_append_drop],
    by simp only [List.length_take]; omega, by simp only [List.length_take, List.length_drop]; omega⟩

/-- the lane filter of an image into which a piece was written = the filtered piece written into the filtered image, at the
number of lane addresses in front of it; `z` is the header in front of the image -/
theorem laneFilter_writeAt (ok : Nat → Bool) (z img clip : List Byte) (B off : Nat) (h : off + clip.length ≤ img.length) :
    writeAt (z ++ laneFilter ok B img) (laneCount ok B off + z.length) (laneFilter ok (B + off) clip) =
      z ++ laneFilter ok B (writeAt img off clip) := by
  obtain ⟨a, m, c, rfl, ha, hm⟩ := split3 img off clip.length h
  subst ha
  rw [writeAt_splice a m c clip hm.symm]
  rw [laneFilter_append, laneFilter_append, laneFilter_append, laneFilter_append]
  have hl : (z ++ laneFilter ok B a).length = laneCount ok B a.length + z.length := by
    rw [List.length_append, laneFilter_length]; omega
  rw [← hl, show z ++ (laneFilter ok B a ++ laneFilter ok (B + a.length) m ++ laneFilter ok (B + (a ++ m).length) c) =
      (z ++ laneFilter ok B a) ++ laneFilter ok (B + a.length) m ++ laneFilter ok (B + (a ++ m).length) c by
        simp only [List.append_assoc],
    writeAt_splice _ _ _ _ (by rw [laneFilter_length, laneFilter_length, hm])]
  simp only [List.length_append, hm, List.append_assoc]

/-! ### one record of `ProcessFile`, any lane -/

theorem Sel.hi_eq (r : Sel) (hwf : r.WF) (we : Nat) :
    min ((we + 1) * r.gran) (r.start * r.gran + r.data.length) = (min we r.last + 1) * r.gran := by
  have hu := r.units_pos hwf
  have hlen := r.len_eq hwf
  unfold Sel.last
  generalize r.data.length / r.gran = units at hu hlen
  have e1 : r.start * r.gran + r.data.length = (r.start + units) * r.gran := by rw [Nat.add_mul, ← hlen]
  rw [e1, min_mul]
  congr 1
  omega

/-- `procRec` in byte space, without an assumption on the lane: the clipped part is filtered and written at the floor-divided
offset behind the header -/
theorem procRec_file_lane (q : Quirks) (o : Opts) (w : Win) (s : St) (r : Sel)
    (hq : q.laneExact = false) (hwf : r.WF) (hw : w.start ≤ w.stop)
    (hfit : (w.stop - w.start + 1) * w.maxGran < 4294967296) (hg : r.gran ≤ w.maxGran) :
    (procRec q o w s r).file =
      if max (w.start * r.gran) (r.start * r.gran) < min ((w.stop + 1) * r.gran) (r.start * r.gran + r.data.length) then
        writeAt s.file ((max (w.start * r.gran) (r.start * r.gran) - w.start * r.gran) / o.sizeDiv + absHeader o)
          (laneKeep o (max (w.start * r.gran) (r.start * r.gran) % M32)
            ((r.data.drop (max (w.start * r.gran) (r.start * r.gran) - r.start * r.gran)).take
              (min ((w.stop + 1) * r.gran) (r.start * r.gran + r.data.length) - max (w.start * r.gran) (r.start * r.gran))))
      else s.file := by
  have hu := r.units_pos hwf
  have hlen := r.len_eq hwf
  have hl16 := hwf.2.2.2.1
  have hgp := hwf.1
  have hhi := r.hi_eq hwf w.stop
  have hlast : r.last = r.start + r.data.length / r.gran - 1 := rfl
  rw [hlast] at hhi
  generalize hU : r.data.length / r.gran = units at hu hlen hhi
  unfold procRec
  rw [endAdr_eq r hwf, hU, max_mul, hhi]
  simp only []
  by_cases hlt : min w.stop (r.start + units - 1) < max w.start r.start
  · rw [if_pos hlt]
    have : ¬ max w.start r.start * r.gran < (min w.stop (r.start + units - 1) + 1) * r.gran := by
      intro hc
      have := Nat.lt_of_mul_lt_mul_right hc
      omega
    rw [if_neg this]
  · rw [if_neg hlt]
    have hlt' : max w.start r.start * r.gran < (min w.stop (r.start + units - 1) + 1) * r.gran :=
      Nat.mul_lt_mul_of_lt_of_le (by omega) (Nat.le_refl _) hgp
    rw [if_pos hlt']
    have e1 : (max w.start r.start - w.start) * r.gran = max w.start r.start * r.gran - w.start * r.gran := Nat.sub_mul _ _ _
    have e2 : (max w.start r.start - r.start) * r.gran = max w.start r.start * r.gran - r.start * r.gran := Nat.sub_mul _ _ _
    have e3 : (min w.stop (r.start + units - 1) + 1 - max w.start r.start) * r.gran
        = (min w.stop (r.start + units - 1) + 1) * r.gran - max w.start r.start * r.gran := Nat.sub_mul _ _ _
    have b1 : (max w.start r.start - w.start) * r.gran ≤ (w.stop - w.start + 1) * w.maxGran :=
      Nat.mul_le_mul (by omega) hg
    have b3 : (min w.stop (r.start + units - 1) + 1 - max w.start r.start) * r.gran ≤ units * r.gran :=
      Nat.mul_le_mul_right _ (by omega)
    have m1 : (max w.start r.start - w.start) * r.gran % M32 = (max w.start r.start - w.start) * r.gran := by
      rw [M32_eq]; exact Nat.mod_eq_of_lt (by omega)
    have m3 : (min w.stop (r.start + units - 1) + 1 - max w.start r.start) * r.gran % 65536 =
        (min w.stop (r.start + units - 1) + 1 - max w.start r.start) * r.gran := Nat.mod_eq_of_lt (by omega)
    rw [e1] at m1
    rw [e3] at m3
    simp only [targetPos, hq, Bool.false_eq_true, if_false, e1, e2, e3, m1, m3]

/-- the side condition under which floor division is the lane position: the window begins and ends on a boundary of the
lane pattern (in the window's byte scale), and for every record that reaches into the window the window start and the first
address taken from the record are on a boundary in the record's byte scale.  For a record of the window's granularity
(`r.gran = w.maxGran`) its first conjunct is the first conjunct of the window. -/
def LaneAligned (lane : Lane) (w : Win) (sel : List Sel) : Prop :=
  (w.start * w.maxGran) % lane.period = 0 ∧ ((w.stop + 1) * w.maxGran) % lane.period = 0 ∧
  ∀ r ∈ sel, max w.start r.start ≤ min w.stop r.last →
    (w.start * r.gran) % lane.period = 0 ∧ (max w.start r.start * r.gran) % lane.period = 0

instance (lane : Lane) (w : Win) (sel : List Sel) : Decidable (LaneAligned lane w sel) := by
  unfold LaneAligned; exact inferInstance

theorem period_dvd_M32 (lane : Lane) : lane.period ∣ M32 := by
  rw [M32_eq]; cases lane <;> simp only [Lane.period] <;> decide

theorem div_one_all (lane : Lane) (h : lane.div = 1) : ∀ a, lane.ok a = true := by
  cases lane <;> simp [Lane.div] at h
  intro a; rfl

theorem procRec_lane_step (q : Quirks) (o : Opts) (lane : Lane) (w : Win) (s : St) (r : Sel) (img : List Byte)
    (hq : q.laneExact = false) (hv : lane.Valid) (htab : ∀ a, laneHit o a = lane.ok a) (hdiv : o.sizeDiv = lane.div)
    (hw : w.start ≤ w.stop) (hfit : (w.stop - w.start + 1) * w.maxGran < 4294967296) (hwf : r.WF) (hg : r.gran ≤ w.maxGran)
    (hB : (w.start * w.maxGran) % lane.period = 0)
    (hr : max w.start r.start ≤ min w.stop r.last →
      (w.start * r.gran) % lane.period = 0 ∧ (max w.start r.start * r.gran) % lane.period = 0)
    (hlen : img.length = (w.stop - w.start + 1) * w.maxGran)
    (hfile : s.file = List.replicate (absHeader o) 0 ++ laneFilter lane.ok (w.start * w.maxGran) img) :
    (procRec q o w s r).file =
      List.replicate (absHeader o) 0 ++ laneFilter lane.ok (w.start * w.maxGran) (overlayAt 0 w.start w.stop img r) := by
  rw [procRec_file_lane q o w s r hq hwf hw hfit hg]
  unfold overlayAt
  simp only [Nat.zero_add]
  by_cases hlt : max (w.start * r.gran) (r.start * r.gran) < min ((w.stop + 1) * r.gran) (r.start * r.gran + r.data.length)
  · rw [if_pos hlt, if_pos hlt]
    obtain ⟨w1, w2⟩ := win_bytes w.start w.stop r.gran w.maxGran hw hg
    have hhi := r.hi_eq hwf w.stop
    have hlo := max_mul w.start r.start r.gran
    -- the record reaches into the window
    have hguard : max w.start r.start ≤ min w.stop r.last := by
      rw [hhi, hlo] at hlt
      have := Nat.lt_of_mul_lt_mul_right hlt
      omega
    obtain ⟨a1, a2⟩ := hr hguard
    generalize hLo : max (w.start * r.gran) (r.start * r.gran) = lo at *
    generalize hHi : min ((w.stop + 1) * r.gran) (r.start * r.gran + r.data.length) = hi at *
    have hlo1 : w.start * r.gran ≤ lo := by rw [← hLo]; exact Nat.le_max_left _ _
    have hlo2 : r.start * r.gran ≤ lo := by rw [← hLo]; exact Nat.le_max_right _ _
    have hhi1 : hi ≤ (w.stop + 1) * r.gran := by rw [← hHi]; exact Nat.min_le_left _ _
    have hhi2 : hi ≤ r.start * r.gran + r.data.length := by rw [← hHi]; exact Nat.min_le_right _ _
    have hcl : ((r.data.drop (lo - r.start * r.gran)).take (hi - lo)).length = hi - lo := by
      simp only [List.length_take, List.length_drop]; omega
    generalize hC : (r.data.drop (lo - r.start * r.gran)).take (hi - lo) = clip at *
    -- alignment of the offset and of the absolute address
    have alo : lo % lane.period = 0 := by rw [hlo]; exact a2
    have aoff : (lo - w.start * r.gran) % lane.period = 0 :=
      Nat.sub_mod_eq_zero_of_mod_eq (by rw [alo, a1])
    have hcount : laneCount lane.ok (w.start * w.maxGran) (lo - w.start * r.gran) = (lo - w.start * r.gran) / o.sizeDiv := by
      rw [hdiv]; exact laneCount_aligned lane hv _ _ hB aoff
    have hkeep : laneKeep o (lo % M32) clip = laneFilter lane.ok (w.start * w.maxGran + (lo - w.start * r.gran)) clip := by
      unfold laneKeep
      by_cases hd : o.sizeDiv = 1
      · rw [if_pos hd, laneFilter_true lane.ok (div_one_all lane (by rw [← hdiv]; exact hd))]
      · rw [if_neg hd]
        apply laneFilter_congr
        intro k _
        rw [htab]
        apply lane.ok_shift
        rw [Nat.mod_mod_of_dvd _ (period_dvd_M32 lane), alo, Nat.add_mod, hB, aoff]
        simp
    rw [hfile, hkeep, ← hcount]
    have hz : (List.replicate (absHeader o) (0 : Byte)).length = absHeader o := List.length_replicate
    rw [← hz]
    rw [hz, show laneCount lane.ok (w.start * w.maxGran) (lo - w.start * r.gran) + absHeader o =
      laneCount lane.ok (w.start * w.maxGran) (lo - w.start * r.gran) + (List.replicate (absHeader o) (0 : Byte)).length by rw [hz]]
    exact laneFilter_writeAt lane.ok _ img clip _ _ (by rw [hcl, hlen]; omega)
  · rw [if_neg hlt, if_neg hlt, hfile]

theorem overlayAt0_length (ws we G : Nat) (r : Sel) (img : List Byte) (hw : ws ≤ we) (hg : r.gran ≤ G)
    (hl : img.length = (we - ws + 1) * G) : (overlayAt 0 ws we img r).length = (we - ws + 1) * G := by
  obtain ⟨h1, h2⟩ := win_bytes ws we r.gran G hw hg
  have := overlay_core_length img r.data 0 ((we - ws + 1) * G) (ws * r.gran) ((we + 1) * r.gran) (r.start * r.gran)
    (by rw [hl]; simp) h1 h2
  simpa [overlayAt] using this

theorem foldl_procRec_lane (q : Quirks) (o : Opts) (lane : Lane) (w : Win)
    (hq : q.laneExact = false) (hv : lane.Valid) (htab : ∀ a, laneHit o a = lane.ok a) (hdiv : o.sizeDiv = lane.div)
    (hw : w.start ≤ w.stop) (hfit : (w.stop - w.start + 1) * w.maxGran < 4294967296)
    (hB : (w.start * w.maxGran) % lane.period = 0) (sel : List Sel) :
    ∀ (s : St) (img : List Byte), (∀ r ∈ sel, r.WF) → (∀ r ∈ sel, r.gran ≤ w.maxGran) →
      (∀ r ∈ sel, max w.start r.start ≤ min w.stop r.last →
        (w.start * r.gran) % lane.period = 0 ∧ (max w.start r.start * r.gran) % lane.period = 0) →
      img.length = (w.stop - w.start + 1) * w.maxGran →
      s.file = List.replicate (absHeader o) 0 ++ laneFilter lane.ok (w.start * w.maxGran) img →
      (sel.foldl (procRec q o w) s).file =
        List.replicate (absHeader o) 0 ++ laneFilter lane.ok (w.start * w.maxGran) (sel.foldl (overlayAt 0 w.start w.stop) img) := by
  induction sel with
  | nil => intro s img _ _ _ _ hf; exact hf
  | cons r rs ih =>
    intro s img hwf hg hal hlen hf
    simp only [List.foldl_cons]
    apply ih _ _ (fun r' h => hwf r' (by simp [h])) (fun r' h => hg r' (by simp [h])) (fun r' h => hal r' (by simp [h]))
    · exact overlayAt0_length w.start w.stop w.maxGran r img hw (hg r (by simp)) hlen
    · exact procRec_lane_step q o lane w s r img hq hv htab hdiv hw hfit (hwf r (by simp)) (hg r (by simp)) hB
        (hal r (by simp)) hlen hf

/-- the lane image: under `LaneAligned` the file behind the header is the window image thinned by the lane -/
theorem procAll_lane (q : Quirks) (o : Opts) (lane : Lane) (w : Win) (sel : List Sel)
    (hq : q.laneExact = false) (hv : lane.Valid) (htab : ∀ a, laneHit o a = lane.ok a) (hdiv : o.sizeDiv = lane.div)
    (hw : w.start ≤ w.stop) (hfit : (w.stop - w.start + 1) * w.maxGran < 4294967296)
    (hwf : ∀ r ∈ sel, r.WF) (hg : ∀ r ∈ sel, r.gran ≤ w.maxGran) (hal : LaneAligned lane w sel) :
    (procAll q o w sel).file =
      List.replicate (absHeader o) 0 ++ specImage lane w.start w.stop w.maxGran o.fill sel := by
  obtain ⟨hB, hE, hrs⟩ := hal
  have hN : ((w.stop - w.start + 1) * w.maxGran) % lane.period = 0 := by
    have e : (w.stop - w.start + 1) * w.maxGran = (w.stop + 1) * w.maxGran - w.start * w.maxGran := by
      rw [← Nat.sub_mul]; congr 1; omega
    rw [e]
    exact Nat.sub_mod_eq_zero_of_mod_eq (by rw [hE, hB])
  have hpre : prefill q o w = List.replicate (absHeader o) 0 ++
      laneFilter lane.ok (w.start * w.maxGran) (List.replicate ((w.stop - w.start + 1) * w.maxGran) o.fill) := by
    rw [laneFilter_replicate, laneCount_aligned lane hv _ _ hB hN]
    simp only [prefill, realFileLen, hq, lenBits_eq, Nat.mod_eq_of_lt hfit, hdiv, Bool.false_eq_true, if_false]
  unfold procAll
  rw [foldl_procRec_lane q o lane w hq hv htab hdiv hw hfit hB sel _ _ hwf hg hrs List.length_replicate hpre]
  have he : Sel.overlay w.start w.stop = overlayAt 0 w.start w.stop := by
    funext img r; exact overlay_eq w.start w.stop img r
  have : sel.foldl (overlayAt 0 w.start w.stop) (List.replicate ((w.stop - w.start + 1) * w.maxGran) o.fill) =
      imageFast w.start w.stop w.maxGran o.fill sel := by
    unfold imageFast; rw [he]
  rw [this, imageFast_eq_imageAll w.start w.stop w.maxGran o.fill sel hw hg]
  rfl

end AslModel.P2Bin
