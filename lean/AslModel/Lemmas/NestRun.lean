import AslModel.Lemmas.NestLoop
/-! The simulation behind `C11_nest_refines`: one line, and by induction on the SPEC's fuel the lines of a tag. -/
namespace AslModel.NestModel
open AslModel.NestSpec

theorem useLabel_hstack' (s : St) (l : Nat) : (useLabel s l).hstack = s.hstack := useLabel_hstack s l

/-- one delivered line and everything it sets off -/
theorem line_sim {p : Prog} {q : Quirks} {ρ : Int → Nat} (hq : q.emptyPops = false) (hρ : RhoOK ρ) (F : Nat)
    (ih : RunStmt p q ρ F) (c : Ctx) (l : BLine) (s : SSt) (w : Walk) (st : List Frame) (mh : St)
    (hg : Good p (lineStep p F c l s)) (hag : Agree ρ (walkLine p F c.arg l w).log) (hst : mh.stack = st)
    (hd : Data ρ s mh) (hc : CtxRel ρ c mh) (hcnt : mh.cnt = w.log.length) (hns : s.nextScope = w.ns) :
    ∃ k ms', Steps p q k (exec p c.arg l mh) ms' ∧
      Out ρ c (lineStep p F c l s) w.tick (walkLine p F c.arg l w) mh st k ms' := by
  have hdef : ∀ lab, ∃ k ms', Steps p q k (defLabel mh lab) ms' ∧
      Out ρ c (NestSpec.defLabel s c lab) w.tick w.tick mh st k ms' := fun lab =>
    ⟨0, _, Steps.refl _, Nat.le_refl _, hst, defLabel_data hρ hd hc lab, CtxRel.of_eq (a := mh) rfl rfl (fun _ => rfl) hc,
      rfl, rfl, hcnt, hns⟩
  have huse : ∀ lab, ∃ k ms', Steps p q k (useLabel mh lab) ms' ∧
      Out ρ c (NestSpec.useLabel s c lab) w.tick w.tick mh st k ms' := fun lab =>
    ⟨0, _, Steps.refl _, Nat.le_refl _, (useLabel_stack mh lab).trans hst, useLabel_data hρ hd hc lab,
      CtxRel.of_eq (a := mh) (useLabel_mom mh lab).symm (useLabel_hstack mh lab).symm
        (fun m => by rw [useLabel_use]) hc,
      useLabel_mom mh lab, useLabel_hstack mh lab, (useLabel_cnt mh lab).trans hcnt, by
        show (NestSpec.useLabel s c lab).nextScope = w.ns
        unfold NestSpec.useLabel; split <;> exact hns⟩
  cases l with
  | emit k =>
    exact ⟨0, _, Steps.refl _, Nat.le_refl _, hst,
      ⟨by show mh.pc + 1 = s.pc + 1; rw [hd.pc], by show _ :: mh.out = _ :: s.out; rw [hd.out], hd.dbl, hd.pass, hd.undef1,
        hd.undef2, hd.repass, hd.syms, hd.symsOK, hd.refused, hd.maxUse⟩,
      CtxRel.of_eq (a := mh) rfl rfl (fun _ => rfl) hc, rfl, rfl, hcnt, hns⟩
  | deflab lab => exact hdef lab
  | reflab lab => exact huse lab
  | defArg => exact hdef _
  | refArg => exact huse _
  | call m a => exact call_sim hq hρ F ih c s w st mh m a hg hag hst hd hc hcnt hns
  | callDec m =>
    show ∃ k ms', Steps p q k (if c.arg > 0 then expandMacro p mh m (c.arg - 1) else mh) ms' ∧
      Out ρ c (if c.arg > 0 then callM p F c s m (c.arg - 1) else s) w.tick
        (if c.arg > 0 then callW p F w m (c.arg - 1) else w.tick) mh st k ms'
    by_cases ha : c.arg > 0
    · have hg' : Good p (callM p F c s m (c.arg - 1)) := by
        have : lineStep p F c (.callDec m) s = callM p F c s m (c.arg - 1) := by
          show (if c.arg > 0 then _ else _) = _
          rw [if_pos ha]
        rw [← this]; exact hg
      have hag' : Agree ρ (callW p F w m (c.arg - 1)).log := by
        have : walkLine p F c.arg (.callDec m) w = callW p F w m (c.arg - 1) := by
          show (if c.arg > 0 then _ else _) = _
          rw [if_pos ha]
        rw [← this]; exact hag
      rw [if_pos ha, if_pos ha, if_pos ha]
      exact call_sim hq hρ F ih c s w st mh m _ hg' hag' hst hd hc hcnt hns
    · rw [if_neg ha, if_neg ha, if_neg ha]
      exact ⟨0, mh, Steps.refl mh, Nat.le_refl _, hst, hd, hc, rfl, rfl, hcnt, hns⟩
  | loop d n k => exact loop_sim hq F ih c s w st mh d n k hg hag hst hd hc hcnt hns

/-- the lines a tag still has to deliver are carried out like `NestSpec.lines` does, for every fuel of the SPEC -/
theorem run_sim {p : Prog} {q : Quirks} {ρ : Int → Nat} (hq : q.emptyPops = false) (hρ : RhoOK ρ) (F : Nat) :
    RunStmt p q ρ F := by
  induction F with
  | zero =>
    intro c ls s w f below ms hg
    rw [lines_zero] at hg
    cases hg.1
  | succ F ih =>
    intro c ls s w f below ms hg hag hne hrest hfe harg hst hd hc hcnt hns
    cases ls with
    | nil => exact absurd rfl hne
    | cons l ls =>
      rw [lines_cons] at hg ⊢
      rw [walk_cons] at hag ⊢
      have hg1 : Good p (lineStep p F c l s) := Good.of_mono (lines_mono p F c ls _) hg
      have hag1 : Agree ρ (walkLine p F c.arg l w).log := Agree.of_prefix (walk_ext p F c.arg ls _).1 hag
      have hstep := step_deliver (p := p) (q := q) hst hfe hrest
      rw [nextFrame_arg, harg] at hstep
      obtain ⟨k1, ms1, hsteps1, ho1⟩ := line_sim hq hρ F ih c l s w (nextFrame f ls :: below)
        { handleOps f ms with stack := nextFrame f ls :: below } hg1 hag1 rfl
        (Data.of_deq (a := handleOps f ms) ⟨rfl, rfl, rfl, rfl, rfl, rfl, rfl, rfl, rfl⟩ hd)
        (CtxRel.of_eq (a := handleOps f ms) rfl rfl (fun _ => rfl) hc) hcnt hns
      by_cases hls : ls = []
      · subst hls
        rw [lines_nil_good hg, walk_nil]
        refine ⟨1 + k1, ms1, Steps.trans (Steps.one hstep) hsteps1, ?_, ho1.stack, ho1.data, ho1.ctx, ho1.mom, ho1.hstack,
          ho1.cnt, ho1.ns⟩
        have := ho1.steps
        show w.steps + (1 + k1) ≤ _
        have e : w.tick.steps = w.steps + 1 := rfl
        omega
      · have hms1 : handleOps (nextFrame f ls) ms1 = ms1 := handleOps_nextFrame f ls hls ms1
        obtain ⟨k2, ms2, hsteps2, ho2⟩ := ih c ls (lineStep p F c l s) (walkLine p F c.arg l w) (nextFrame f ls) below ms1
          hg hag hls (nextFrame_rest f ls hls) (nextFrame_isEmpty f ls hls hfe) ((nextFrame_arg f ls).trans harg) ho1.stack
          (by rw [hms1]; exact ho1.data) (by rw [hms1]; exact ho1.ctx) (by rw [hms1]; exact ho1.cnt) ho1.ns
        rw [hms1, nextFrame_nextFrame f ls [] hls] at ho2
        refine ⟨1 + k1 + k2, ms2, Steps.trans (Steps.trans (Steps.one hstep) hsteps1) hsteps2, ?_, ho2.stack, ho2.data,
          ho2.ctx, ho2.mom.trans ho1.mom, ho2.hstack.trans ho1.hstack, ho2.cnt, ho2.ns⟩
        have h1 := ho1.steps
        have h2 := ho2.steps
        have e : w.tick.steps = w.steps + 1 := rfl
        omega

end AslModel.NestModel
