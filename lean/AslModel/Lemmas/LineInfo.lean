import AslModel.Model.LineInfo
import AslModel.Spec.LineInfo
import AslModel.Lemmas.Pos
/-!
# C19 helper lemmas: the `CurrLine` / `CurrFileName` / `MomLineCounter` machine of `Model/LineInfo.lean`

1. `realBody`: closed form of what the machine records (no counters): the *mode* of a place in the program says how the
   line number of a delivered line comes about — `phys c` (read from a file, `c` physical lines consumed),
   `body S z` (replayed body line of a block that was read from a file: `StartLine = S`, `z` logical lines delivered),
   `fixed L` (macro expansion, or block not read from a file: always `StartLine = L`).  `run_eq_real`: machine = closed form,
   for every nesting tree.
2. `real_adm`: for well-formed trees (no continuation line inside a block body) every record of the closed form is
   admissible for the SPEC (`specBody`): same statement, same file, line within the statement's own lines or the line
   of an enclosing statement of that file.
-/
namespace AslModel.LineInfo
open AslModel.Pos

inductive Mode where
  | phys (c : Nat)
  | body (S z : Nat)
  | fixed (L : Nat)
deriving Repr

/-- `CurrLine` after delivering a logical line of `p` physical lines -/
def Mode.lineOf : Mode → Nat → Nat
  | .phys c, p => c + p
  | .body S z, _ => S + z + 1
  | .fixed L, _ => L

def Mode.adv : Mode → List Nat → Mode
  | .phys c, ps => .phys (c + sumL ps)
  | .body S z, ps => .body S (z + ps.length)
  | .fixed L, _ => .fixed L

/-- the mode of the body of a block whose opening line is delivered in mode `m` -/
def Mode.inner : Mode → Mode
  | .phys c => .body (c + 1) 0
  | .body S z => .fixed (S + z + 1)
  | .fixed L => .fixed L

mutual
def realItem (file : String) (m : Mode) : Item → List Ev
  | .plain _ => []
  | .fault p id => [.stmt file (m.lineOf p) id]
  | .call _ b => realBody file (.fixed (m.lineOf 1)) b
  | .rept n b => repeatL n (realBody file m.inner b)
  | .irp k args b => repeatL (irpIters k args) (realBody file m.inner b)
  | .irpc s b => repeatL s.length (realBody file m.inner b)
  | .while_ n b => repeatL n (realBody file m.inner b)
  | .incl f b => .opn f :: realBody f (.phys 0) b
def realBody (file : String) (m : Mode) : Body → List Ev
  | .nil => []
  | .cons it b => realItem file m it ++ realBody file (m.adv it.lines) b
end

/-! ## arithmetic of modes -/

theorem sumL_append (a b : List Nat) : sumL (a ++ b) = sumL a + sumL b := by
  induction a with
  | nil => simp [sumL]
  | cons x xs ih => simp [sumL, ih]; omega

theorem adv_nil (m : Mode) : m.adv [] = m := by
  cases m <;> simp [Mode.adv, sumL]

theorem adv_append (m : Mode) (a b : List Nat) : m.adv (a ++ b) = (m.adv a).adv b := by
  cases m <;> simp [Mode.adv, sumL_append] <;> omega

theorem adv_cons (m : Mode) (p : Nat) (ps : List Nat) : m.adv (p :: ps) = (m.adv [p]).adv ps := by
  have := adv_append m [p] ps
  simpa using this

/-! ## the invariant tying a mode to the machine state -/

def Inv (m : Mode) (g : Glob) (t : Tag) : Prop :=
  match m with
  | .phys c => t.kind = .incl ∧ g.mom = c
  | .body S z => t.kind = .loop ∧ t.fromFile = true ∧ t.startLine = S ∧ z ≤ t.lineCnt ∧
      t.lineZ = (if z = t.lineCnt then 1 else z + 1)
  | .fixed L => (t.kind = .macro ∨ (t.kind = .loop ∧ t.fromFile = false)) ∧ t.startLine = L

/-- the body of the block still has `n` lines to deliver -/
def Room (m : Mode) (t : Tag) (n : Nat) : Prop :=
  match m with
  | .body _ z => z + n ≤ t.lineCnt
  | _ => True

/-- what a construct leaves untouched: `CurrFileName`, and `MomLineCounter` unless lines are read from the file -/
def Keep (m : Mode) (g g' : Glob) : Prop :=
  g'.curFile = g.curFile ∧ (match m with | .phys _ => True | _ => g'.mom = g.mom)

theorem Keep.refl (m : Mode) (g : Glob) : Keep m g g := by
  cases m <;> simp [Keep]

theorem Keep.trans {m : Mode} {a b c : Glob} (h1 : Keep m a b) (h2 : Keep m b c) : Keep m a c := by
  cases m <;> simp [Keep] at * <;> (try constructor) <;> (try omega) <;> simp_all

theorem Keep_adv {m : Mode} (ps : List Nat) {a b : Glob} (h : Keep (m.adv ps) a b) : Keep m a b := by
  cases m <;> simpa [Keep, Mode.adv] using h

theorem Keep_to_adv {m : Mode} (ps : List Nat) {a b : Glob} (h : Keep m a b) : Keep (m.adv ps) a b := by
  cases m <;> simpa [Keep, Mode.adv] using h

theorem Keep_of_fixed {L : Nat} {m : Mode} {a b : Glob} (h : Keep (.fixed L) a b) : Keep m a b := by
  cases m <;> simp [Keep] at * <;> simp_all

theorem Room_mono {m : Mode} {t : Tag} {n k : Nat} (h : Room m t n) (hk : k ≤ n) : Room m t k := by
  cases m <;> simp [Room] at * ; omega

theorem Inv_mom {m : Mode} {g g' : Glob} {t : Tag} (h : Inv m g t) (hm : g'.mom = g.mom) : Inv m g' t := by
  cases m <;> simp [Inv] at * <;> simp_all

/-- one delivered line -/
theorem deliver_spec {m : Mode} {g : Glob} {t : Tag} (p : Nat) (h : Inv m g t) (hr : Room m t 1) :
    Inv (m.adv [p]) (deliver g t p).1 (deliver g t p).2 ∧ (deliver g t p).1.curLine = m.lineOf p ∧
    Keep m g (deliver g t p).1 ∧ (deliver g t p).2.lineCnt = t.lineCnt := by
  cases m with
  | phys c =>
    obtain ⟨hk, hm⟩ := h
    simp [deliver, hk, Inv, Mode.adv, Mode.lineOf, Keep, sumL, hm]
  | body S z =>
    obtain ⟨hk, hf, hs, hz, hl⟩ := h
    simp only [Room] at hr
    have hne : z ≠ t.lineCnt := by omega
    simp only [hne, if_false] at hl
    simp only [deliver, hk, hf, if_true, Inv, Mode.adv, Mode.lineOf, Keep, List.length_singleton, hl, hs, and_true, true_and]
    refine ⟨⟨by omega, ?_⟩, by omega⟩
    by_cases h1 : z + 1 = t.lineCnt
    · simp [h1]
    · have : ¬ (z + 1 + 1 > t.lineCnt) := by omega
      simp [h1, this]
  | fixed L =>
    obtain ⟨hk, hs⟩ := h
    rcases hk with hk | ⟨hk, hf⟩
    · simp [deliver, hk, Inv, Mode.adv, Mode.lineOf, Keep, hs]
    · simp [deliver, hk, hf, Inv, Mode.adv, Mode.lineOf, Keep, hs]

/-- several delivered lines (a block is collected) -/
theorem consume_spec (ps : List Nat) : ∀ {m : Mode} {g : Glob} {t : Tag}, Inv m g t → Room m t ps.length →
    Inv (m.adv ps) (consume g t ps).1 (consume g t ps).2 ∧ Keep m g (consume g t ps).1 ∧
    (consume g t ps).2.lineCnt = t.lineCnt := by
  induction ps with
  | nil =>
    intro m g t h _
    refine ⟨?_, Keep.refl m g, rfl⟩
    rw [adv_nil]; exact h
  | cons p ps ih =>
    intro m g t h hr
    have hr1 : Room m t 1 := Room_mono hr (by simp)
    obtain ⟨h1, _, hk1, hc1⟩ := deliver_spec p h hr1
    have hr2 : Room (m.adv [p]) (deliver g t p).2 ps.length := by
      cases m <;> simp [Room, Mode.adv] at * ; omega
    obtain ⟨h2, hk2, hc2⟩ := ih h1 hr2
    simp only [consume]
    rw [adv_cons]
    exact ⟨h2, Keep.trans hk1 (Keep_adv [p] hk2), by rw [hc2, hc1]⟩

/-! ## iterations -/

theorem iter_spec {σ α : Type} (f : σ → σ × List α) (P : σ → Prop) (out : List α)
    (hstep : ∀ s, P s → P (f s).1 ∧ (f s).2 = out) :
    ∀ n s, P s → P (iter f n s).1 ∧ (iter f n s).2 = repeatL n out := by
  intro n
  induction n with
  | zero => intro s h; exact ⟨h, rfl⟩
  | succ n ih =>
    intro s h
    obtain ⟨h1, h2⟩ := hstep s h
    obtain ⟨h3, h4⟩ := ih (f s).1 h1
    simp only [iter, repeatL]
    exact ⟨h3, by rw [h2, h4]⟩

/-- result of running an item / a body that occupies the lines `ps` -/
structure Res (m : Mode) (g : Glob) (t : Tag) (ps : List Nat) (out : List Ev) (r : (Glob × Tag) × List Ev) : Prop where
  inv : Inv (m.adv ps) r.1.1 r.1.2
  keep : Keep m g r.1.1
  cnt : r.1.2.lineCnt = t.lineCnt
  out : r.2 = out

/-- the tag of a block generated after its opening line was delivered in mode `m` satisfies the invariant of the
body's mode (whatever the globals are) -/
theorem inner_inv {m : Mode} {g : Glob} {t : Tag} (p : List Nat) (h : Inv (m.adv p) g t) (g0 g' : Glob) (L : Nat)
    (hl : g0.curLine = m.lineOf 1) :
    Inv m.inner g' { genProc g0 t .loop with lineCnt := L } := by
  cases m with
  | phys c =>
    obtain ⟨hk, _⟩ := h
    simp [Inv, Mode.inner, genProc, hk, hl, Mode.lineOf]
  | body S z =>
    obtain ⟨hk, _⟩ := h
    simp [Inv, Mode.inner, genProc, hk, hl, Mode.lineOf]
  | fixed L0 =>
    obtain ⟨hk, _⟩ := h
    rcases hk with hk | ⟨hk, _⟩ <;> simp [Inv, Mode.inner, genProc, hk, hl, Mode.lineOf]

/-- the end of one pass through the body is the start of the next -/
theorem wrap_inv {m : Mode} {g : Glob} {t : Tag} (ps : List Nat) (h : Inv (m.inner.adv ps) g t) (hl : ps.length = t.lineCnt) :
    Inv m.inner g t := by
  cases m with
  | phys c =>
    simp only [Mode.inner, Mode.adv, Inv] at *
    obtain ⟨hk, hf, hs, _, hz⟩ := h
    refine ⟨hk, hf, hs, by omega, ?_⟩
    have : 0 + ps.length = t.lineCnt := by omega
    simp only [this, if_true] at hz
    rw [hz]; split <;> rfl
  | body S z => simpa [Mode.inner, Mode.adv, Inv] using h
  | fixed L => simpa [Mode.inner, Mode.adv, Inv] using h

theorem room_inner (m : Mode) (t : Tag) (n : Nat) (h : t.lineCnt = n) : Room m.inner t n := by
  cases m <;> simp [Mode.inner, Room]; omega

/-- a block: opening line, body and ENDM delivered by the supplying tag, then `n` passes through the body -/
theorem loop_spec (b : Body) (n : Nat) (m : Mode) (g : Glob) (t : Tag) (hI : Inv m g t)
    (hR : Room m t (1 :: (b.lines ++ [1])).length)
    (ih : ∀ (m : Mode) (g : Glob) (t : Tag), Inv m g t → Room m t b.lines.length →
      Res m g t b.lines (realBody g.curFile m b) (runBody g t b)) :
    Res m g t (1 :: (b.lines ++ [1])) (repeatL n (realBody g.curFile m.inner b))
      (((iter (fun s => runBody s.1 s.2 b) n
          ((consume (deliver g t 1).1 (deliver g t 1).2 (b.lines ++ [1])).1,
           { genProc (deliver g t 1).1 (deliver g t 1).2 .loop with lineCnt := b.lines.length })).1.1,
        (consume (deliver g t 1).1 (deliver g t 1).2 (b.lines ++ [1])).2),
       (iter (fun s => runBody s.1 s.2 b) n
          ((consume (deliver g t 1).1 (deliver g t 1).2 (b.lines ++ [1])).1,
           { genProc (deliver g t 1).1 (deliver g t 1).2 .loop with lineCnt := b.lines.length })).2) := by
  obtain ⟨h0, hl0, hk0, hc0⟩ := deliver_spec 1 hI (Room_mono hR (by simp))
  have hR1 : Room (m.adv [1]) (deliver g t 1).2 (b.lines ++ [1]).length := by
    cases m <;> simp [Room, Mode.adv] at * ; omega
  obtain ⟨h1, hk1, hc1⟩ := consume_spec (b.lines ++ [1]) h0 hR1
  generalize hr0 : deliver g t 1 = r0 at *
  generalize hr : consume r0.1 r0.2 (b.lines ++ [1]) = r at *
  let P : Glob × Tag → Prop := fun s =>
    Inv m.inner s.1 s.2 ∧ s.1.curFile = g.curFile ∧ s.1.mom = r.1.mom ∧ s.2.lineCnt = b.lines.length
  have hstep : ∀ s, P s → P (runBody s.1 s.2 b).1 ∧ (runBody s.1 s.2 b).2 = realBody g.curFile m.inner b := by
    intro s hs
    obtain ⟨hs1, hs2, hs3, hs4⟩ := hs
    have q := ih m.inner s.1 s.2 hs1 (room_inner m s.2 _ hs4)
    have hkeep : (runBody s.1 s.2 b).1.1.curFile = s.1.curFile ∧ (runBody s.1 s.2 b).1.1.mom = s.1.mom := by
      have := q.keep
      cases m <;> simpa [Keep, Mode.inner] using this
    refine ⟨⟨wrap_inv b.lines q.inv (by rw [q.cnt, hs4]), by rw [hkeep.1, hs2], by rw [hkeep.2, hs3], by rw [q.cnt, hs4]⟩, ?_⟩
    rw [q.out, hs2]
  have hP0 : P (r.1, { genProc r0.1 r0.2 .loop with lineCnt := b.lines.length }) := by
    refine ⟨inner_inv [1] h0 r0.1 r.1 _ hl0, ?_, rfl, rfl⟩
    have := (Keep.trans hk0 (Keep_adv [1] hk1)).1
    exact this
  obtain ⟨hPn, hout⟩ := iter_spec (fun s => runBody s.1 s.2 b) P _ hstep n _ hP0
  obtain ⟨_, hf, hm, _⟩ := hPn
  refine ⟨?_, ?_, ?_, hout⟩
  · rw [adv_cons]
    exact Inv_mom h1 hm
  · have hk : Keep m g r.1 := Keep.trans hk0 (Keep_adv [1] hk1)
    refine ⟨hf, ?_⟩
    have := hk.2
    cases m <;> simp at * <;> omega
  · show r.2.lineCnt = t.lineCnt
    rw [hc1, hc0]

mutual
theorem runItem_spec (it : Item) : ∀ (m : Mode) (g : Glob) (t : Tag), Inv m g t → Room m t it.lines.length →
    Res m g t it.lines (realItem g.curFile m it) (runItem g t it) := by
  intro m g t hI hR
  cases it with
  | plain p =>
    obtain ⟨h1, _, hk, hc⟩ := deliver_spec p hI hR
    exact ⟨h1, hk, hc, rfl⟩
  | fault p id =>
    obtain ⟨h1, hl, hk, hc⟩ := deliver_spec p hI hR
    refine ⟨h1, hk, hc, ?_⟩
    simp only [runItem, realItem, hl, hk.1]
  | call name b =>
    obtain ⟨h1, hl, hk, hc⟩ := deliver_spec 1 hI hR
    have hT : Inv (.fixed (m.lineOf 1)) (deliver g t 1).1 { genProc (deliver g t 1).1 (deliver g t 1).2 .macro with lineCnt := b.lines.length } := by
      simp [Inv, genProc, hl]
    have q := runBody_spec b (.fixed (m.lineOf 1)) _ _ hT trivial
    simp only [runItem, realItem, Item.lines]
    refine ⟨?_, ?_, hc, ?_⟩
    · have : ((runBody (deliver g t 1).1 { genProc (deliver g t 1).1 (deliver g t 1).2 .macro with lineCnt := b.lines.length } b).1.1).mom
          = (deliver g t 1).1.mom := by simpa [Keep] using q.keep.2
      exact Inv_mom h1 this
    · exact Keep.trans hk (Keep_of_fixed q.keep)
    · rw [q.out, hk.1]
  | rept n b =>
    simp only [runItem, realItem, Item.lines]
    exact loop_spec b n m g t hI hR (runBody_spec b)
  | irp k args b =>
    simp only [runItem, realItem, Item.lines, tagIrpIters_mkIrp]
    exact loop_spec b _ m g t hI hR (runBody_spec b)
  | irpc s b =>
    simp only [runItem, realItem, Item.lines]
    exact loop_spec b _ m g t hI hR (runBody_spec b)
  | while_ n b =>
    simp only [runItem, realItem, Item.lines]
    exact loop_spec b n m g t hI hR (runBody_spec b)
  | incl f b =>
    obtain ⟨h1, _, hk, hc⟩ := deliver_spec 1 hI hR
    have hT : Inv (.phys 0) { (deliver g t 1).1 with curFile := f, mom := 0 }
        { genProc (deliver g t 1).1 (deliver g t 1).2 .incl with startLine := (deliver g t 1).1.mom, saveAttr := (deliver g t 1).1.curFile, lineZ := 0 } := by
      simp [Inv, genProc]
    have q := runBody_spec b (.phys 0) _ _ hT trivial
    simp only [runItem, realItem, Item.lines]
    refine ⟨Inv_mom h1 rfl, ?_, hc, ?_⟩
    · refine ⟨hk.1, ?_⟩
      have := hk.2
      cases m <;> simp at * <;> exact this
    · rw [q.out]
theorem runBody_spec (b : Body) : ∀ (m : Mode) (g : Glob) (t : Tag), Inv m g t → Room m t b.lines.length →
    Res m g t b.lines (realBody g.curFile m b) (runBody g t b) := by
  intro m g t hI hR
  cases b with
  | nil =>
    simp only [runBody, realBody, Body.lines]
    exact ⟨by rw [adv_nil]; exact hI, Keep.refl m g, rfl, rfl⟩
  | cons it b =>
    have hR1 : Room m t it.lines.length := Room_mono hR (by simp [Body.lines])
    have r := runItem_spec it m g t hI hR1
    have hR2 : Room (m.adv it.lines) (runItem g t it).1.2 b.lines.length := by
      have := r.cnt
      cases m <;> simp [Room, Mode.adv, Body.lines] at * ; omega
    have q := runBody_spec b (m.adv it.lines) _ _ r.inv hR2
    simp only [runBody, realBody, Body.lines]
    refine ⟨by rw [adv_append]; exact q.inv, Keep.trans r.keep (Keep_adv _ q.keep), by rw [q.cnt, r.cnt], ?_⟩
    rw [r.out, q.out, r.keep.1]
end

/-- **machine = closed form**, for every nesting tree -/
theorem run_eq_real (name : String) (b : Body) : run name b = realBody name (.phys 0) b := by
  have h := runBody_spec b (.phys 0) { mom := 0, curLine := 0, curFile := name } mainTag ⟨rfl, rfl⟩ trivial
  exact h.out

/-! ## the closed form is admissible for the SPEC -/

/-- the statement records of an event list: (file, line, id) -/
def stmts : List Ev → List (String × Nat × Nat)
  | [] => []
  | .opn _ :: es => stmts es
  | .stmt f l id :: es => (f, l, id) :: stmts es

/-- one record against the executed statement it has to describe (addresses left out) -/
def okRec (r : String × Nat × Nat) (e : Exec) : Bool :=
  r.1 == e.file && r.2.2 == e.id && inRanges r.2.1 e.adm

def agree : List (String × Nat × Nat) → List Exec → Bool
  | [], [] => true
  | r :: rs, e :: es => okRec r e && agree rs es
  | _, _ => false

theorem stmts_append (a b : List Ev) : stmts (a ++ b) = stmts a ++ stmts b := by
  induction a with
  | nil => rfl
  | cons x xs ih => cases x <;> simp [stmts, ih]

theorem agree_append {a : List (String × Nat × Nat)} {c : List Exec} (h1 : agree a c = true) :
    ∀ {b : List (String × Nat × Nat)} {d : List Exec}, agree b d = true → agree (a ++ b) (c ++ d) = true := by
  induction a generalizing c with
  | nil =>
    cases c with
    | nil => intro b d h; simpa using h
    | cons _ _ => simp [agree] at h1
  | cons x xs ih =>
    cases c with
    | nil => simp [agree] at h1
    | cons y ys =>
      intro b d h
      simp only [agree, Bool.and_eq_true] at h1
      simp only [List.cons_append, agree, Bool.and_eq_true]
      exact ⟨h1.1, ih h1.2 h⟩

theorem agree_repeat {a : List Ev} {c : List Exec} (h : agree (stmts a) c = true) (n : Nat) :
    agree (stmts (repeatL n a)) (repeatL n c) = true := by
  induction n with
  | zero => rfl
  | succ n ih =>
    simp only [repeatL, stmts_append]
    exact agree_append h ih

mutual
theorem itemFlat_sumL (it : Item) (h : itemFlat it = true) : sumL it.lines = it.lines.length := by
  cases it with
  | plain p => simp [itemFlat] at h; simp [Item.lines, sumL, h]
  | fault p id => simp [itemFlat] at h; simp [Item.lines, sumL, h]
  | call n b => simp [Item.lines, sumL]
  | rept n b =>
    have := bodyFlat_sumL b (by simpa [itemFlat] using h)
    simp [Item.lines, sumL, sumL_append, this]; omega
  | irp k a b =>
    have := bodyFlat_sumL b (by simpa [itemFlat] using h)
    simp [Item.lines, sumL, sumL_append, this]; omega
  | irpc s b =>
    have := bodyFlat_sumL b (by simpa [itemFlat] using h)
    simp [Item.lines, sumL, sumL_append, this]; omega
  | while_ n b =>
    have := bodyFlat_sumL b (by simpa [itemFlat] using h)
    simp [Item.lines, sumL, sumL_append, this]; omega
  | incl f b => simp [Item.lines, sumL]
theorem bodyFlat_sumL (b : Body) (h : bodyFlat b = true) : sumL b.lines = b.lines.length := by
  cases b with
  | nil => simp [Body.lines, sumL]
  | cons it b =>
    simp only [bodyFlat, Bool.and_eq_true] at h
    have h1 := itemFlat_sumL it h.1
    have h2 := bodyFlat_sumL b h.2
    simp [Body.lines, sumL_append, h1, h2]
end

/-- how a mode is reflected in the SPEC's parameters -/
def Rel (m : Mode) (base : Option Nat) (encl : List (Nat × Nat)) : Prop :=
  match m with
  | .phys c => base = some c
  | .body S z => base = some (S + z)
  | .fixed L => (L, L) ∈ encl

/-- inside a block body read from a file the lines must not be continued -/
def FlatIfI (m : Mode) (it : Item) : Prop :=
  match m with
  | .body _ _ => itemFlat it = true
  | _ => True

def FlatIfB (m : Mode) (b : Body) : Prop :=
  match m with
  | .body _ _ => bodyFlat b = true
  | _ => True

theorem inRanges_append_right (l : Nat) (a b : List (Nat × Nat)) (h : inRanges l b = true) : inRanges l (a ++ b) = true := by
  simp [inRanges] at *
  obtain ⟨x, y, hm, hh⟩ := h
  exact Or.inr ⟨x, y, hm, hh⟩

theorem inRanges_own (lo hi l : Nat) (rest : List (Nat × Nat)) (h1 : lo ≤ l) (h2 : l ≤ hi) :
    inRanges l ((lo, hi) :: rest) = true := by
  have : (decide (lo ≤ l) && decide (l ≤ hi)) = true := by simp [h1, h2]
  simp [inRanges, this]

theorem inRanges_mem (L : Nat) (rs : List (Nat × Nat)) (h : (L, L) ∈ rs) : inRanges L rs = true := by
  simp [inRanges]
  exact ⟨L, L, h, by omega, by omega⟩

/-- the line of an opening line / macro call is among the enclosing lines of what it encloses -/
theorem rel_opener {m : Mode} {base : Option Nat} {encl : List (Nat × Nat)} (h : Rel m base encl) :
    (m.lineOf 1, m.lineOf 1) ∈ ownRange base 1 ++ encl := by
  cases m with
  | phys c => simp [Rel] at h; simp [h, ownRange, Mode.lineOf]
  | body S z => simp [Rel] at h; simp [h, ownRange, Mode.lineOf]
  | fixed L => simp [Rel] at h; simp [Mode.lineOf, h]

theorem rel_inner {m : Mode} {base : Option Nat} {encl : List (Nat × Nat)} (h : Rel m base encl) :
    Rel m.inner (base.map (· + 1)) (ownRange base 1 ++ encl) := by
  cases m with
  | phys c => simp [Rel] at h; simp [h, Rel, Mode.inner]
  | body S z => simp [Rel] at h; simp [h, Rel, Mode.inner, ownRange]
  | fixed L => simp [Rel] at h; simp [Rel, Mode.inner, h]

theorem flat_inner (m : Mode) (b : Body) (h : bodyFlat b = true) : FlatIfB m.inner b := by
  cases m <;> simp [Mode.inner, FlatIfB, h]

mutual
theorem realItem_adm (it : Item) : ∀ (file : String) (depth : Nat) (m : Mode) (base : Option Nat) (encl : List (Nat × Nat)),
    Rel m base encl → FlatIfI m it → itemWf it = true →
    agree (stmts (realItem file m it)) (specItem file depth base encl it) = true := by
  intro file depth m base encl hR hF hW
  cases it with
  | plain p => simp [realItem, specItem, stmts, agree]
  | fault p id =>
    simp only [realItem, specItem, stmts, agree, okRec, Bool.and_true, beq_self_eq_true, Bool.true_and]
    simp only [itemWf, decide_eq_true_eq] at hW
    cases m with
    | phys c =>
      simp [Rel] at hR
      simp only [hR, ownRange, Mode.lineOf, List.cons_append, List.nil_append]
      exact inRanges_own _ _ _ _ (by omega) (by omega)
    | body S z =>
      simp [Rel] at hR
      simp [FlatIfI, itemFlat] at hF
      simp only [hR, hF, ownRange, Mode.lineOf, List.cons_append, List.nil_append]
      exact inRanges_own _ _ _ _ (by omega) (by omega)
    | fixed L =>
      simp [Rel] at hR
      exact inRanges_append_right _ _ _ (inRanges_mem L encl hR)
  | call name b =>
    simp only [realItem, specItem]
    exact realBody_adm b file depth _ none _ (by simpa [Rel] using rel_opener hR) trivial (by simpa [itemWf] using hW)
  | rept n b =>
    simp only [realItem, specItem]
    simp only [itemWf, Bool.and_eq_true] at hW
    exact agree_repeat (realBody_adm b file depth _ _ _ (rel_inner hR) (flat_inner m b hW.1) hW.2) n
  | irp k args b =>
    simp only [realItem, specItem]
    simp only [itemWf, Bool.and_eq_true] at hW
    exact agree_repeat (realBody_adm b file depth _ _ _ (rel_inner hR) (flat_inner m b hW.1) hW.2) _
  | irpc s b =>
    simp only [realItem, specItem]
    simp only [itemWf, Bool.and_eq_true] at hW
    exact agree_repeat (realBody_adm b file depth _ _ _ (rel_inner hR) (flat_inner m b hW.1) hW.2) _
  | while_ n b =>
    simp only [realItem, specItem]
    simp only [itemWf, Bool.and_eq_true] at hW
    exact agree_repeat (realBody_adm b file depth _ _ _ (rel_inner hR) (flat_inner m b hW.1) hW.2) n
  | incl f b =>
    simp only [realItem, specItem, stmts]
    exact realBody_adm b f (depth + 1) (.phys 0) (some 0) [] (by simp [Rel]) trivial (by simpa [itemWf] using hW)
theorem realBody_adm (b : Body) : ∀ (file : String) (depth : Nat) (m : Mode) (base : Option Nat) (encl : List (Nat × Nat)),
    Rel m base encl → FlatIfB m b → bodyWf b = true →
    agree (stmts (realBody file m b)) (specBody file depth base encl b) = true := by
  intro file depth m base encl hR hF hW
  cases b with
  | nil => simp [realBody, specBody, stmts, agree]
  | cons it b =>
    simp only [bodyWf, Bool.and_eq_true] at hW
    have hFi : FlatIfI m it := by
      cases m <;> simp [FlatIfI, FlatIfB, bodyFlat] at * ; exact hF.1
    have hFb : FlatIfB (m.adv it.lines) b := by
      cases m <;> simp [FlatIfI, FlatIfB, bodyFlat, Mode.adv] at * ; exact hF.2
    have hR2 : Rel (m.adv it.lines) (base.map (· + sumL it.lines)) encl := by
      cases m with
      | phys c => simp [Rel] at hR; simp [hR, Rel, Mode.adv]
      | body S z =>
        simp [Rel] at hR
        have := itemFlat_sumL it (by simpa [FlatIfI] using hFi)
        simp [hR, Rel, Mode.adv, this]; omega
      | fixed L => simpa [Rel, Mode.adv] using hR
    simp only [realBody, specBody, stmts_append]
    exact agree_append (realItem_adm it file depth m base encl hR hFi hW.1)
      (realBody_adm b file depth _ _ encl hR2 hFb hW.2)
end

/-! ## addresses -/

def toEntry (r : String × Nat × Nat) : Entry := ⟨r.1, r.2.1, r.2.2⟩

def lenOf (id : Nat) : Nat := (stmtBytes id).length

theorem judge_of_agree : ∀ (evs : List Ev) (es : List Exec) (org : Nat), agree (stmts evs) es = true →
    judge ((recAddrs lenOf org evs).map toEntry) (layout org es) = true := by
  intro evs
  induction evs with
  | nil =>
    intro es org h
    cases es with
    | nil => rfl
    | cons _ _ => simp [stmts, agree] at h
  | cons e evs ih =>
    intro es org h
    cases e with
    | opn f => simpa [recAddrs, stmts] using ih es org (by simpa [stmts] using h)
    | stmt f l id =>
      cases es with
      | nil => simp [stmts, agree] at h
      | cons x xs =>
        simp only [stmts, agree, okRec, Bool.and_eq_true, beq_iff_eq] at h
        obtain ⟨⟨⟨hf, hid⟩, hin⟩, hrest⟩ := h
        simp only [recAddrs, List.map_cons, layout, judge, okEntry, toEntry, Bool.and_eq_true, beq_iff_eq]
        refine ⟨⟨⟨hf, ?_⟩, hin⟩, ?_⟩
        · trivial
        have : lenOf id = (stmtBytes x.id).length := by rw [lenOf, hid]
        rw [this]
        exact ih xs _ hrest

/-! ## exactness where the statement's text stands in the file being read -/

def okRecX (r : String × Nat × Nat) (e : Exec) : Bool :=
  r.1 == e.file && r.2.2 == e.id && inRanges r.2.1 (e.adm.take 1)

def agreeX : List (String × Nat × Nat) → List Exec → Bool
  | [], [] => true
  | r :: rs, e :: es => okRecX r e && agreeX rs es
  | _, _ => false

theorem agreeX_append {a : List (String × Nat × Nat)} {c : List Exec} (h1 : agreeX a c = true) :
    ∀ {b : List (String × Nat × Nat)} {d : List Exec}, agreeX b d = true → agreeX (a ++ b) (c ++ d) = true := by
  induction a generalizing c with
  | nil =>
    cases c with
    | nil => intro b d h; simpa using h
    | cons _ _ => simp [agreeX] at h1
  | cons x xs ih =>
    cases c with
    | nil => simp [agreeX] at h1
    | cons y ys =>
      intro b d h
      simp only [agreeX, Bool.and_eq_true] at h1
      simp only [List.cons_append, agreeX, Bool.and_eq_true]
      exact ⟨h1.1, ih h1.2 h⟩

theorem agreeX_repeat {a : List Ev} {c : List Exec} (h : agreeX (stmts a) c = true) (n : Nat) :
    agreeX (stmts (repeatL n a)) (repeatL n c) = true := by
  induction n with
  | zero => rfl
  | succ n ih =>
    simp only [repeatL, stmts_append]
    exact agreeX_append h ih

def RelX (m : Mode) (base : Option Nat) : Prop :=
  match m with
  | .phys c => base = some c
  | .body S z => base = some (S + z)
  | .fixed _ => False

def DirI (m : Mode) (it : Item) : Prop :=
  match m with
  | .phys _ => itemDirect it = true
  | .body _ _ => itemSimple it = true ∧ itemFlat it = true
  | .fixed _ => False

def DirB (m : Mode) (b : Body) : Prop :=
  match m with
  | .phys _ => bodyDirect b = true
  | .body _ _ => bodySimple b = true ∧ bodyFlat b = true
  | .fixed _ => False

theorem loopX {m : Mode} {base : Option Nat} {b : Body} (hR : RelX m base)
    (hD : match m with | .phys _ => bodySimple b = true | _ => False) (hF : bodyFlat b = true) :
    RelX m.inner (base.map (· + 1)) ∧ DirB m.inner b := by
  cases m with
  | phys c => simp [RelX] at hR; simp [hR, RelX, Mode.inner, DirB, hF]; exact hD
  | body S z => exact False.elim hD
  | fixed L => exact False.elim hD

mutual
theorem realItem_exact (it : Item) : ∀ (file : String) (depth : Nat) (m : Mode) (base : Option Nat) (encl : List (Nat × Nat)),
    RelX m base → DirI m it → itemWf it = true →
    agreeX (stmts (realItem file m it)) (specItem file depth base encl it) = true := by
  intro file depth m base encl hR hD hW
  cases it with
  | plain p => simp [realItem, specItem, stmts, agreeX]
  | fault p id =>
    simp only [realItem, specItem, stmts, agreeX, okRecX, Bool.and_true, beq_self_eq_true, Bool.true_and]
    simp only [itemWf, decide_eq_true_eq] at hW
    cases m with
    | phys c =>
      simp [RelX] at hR
      simp only [hR, ownRange, Mode.lineOf, List.cons_append, List.nil_append, List.take_succ_cons, List.take_zero]
      exact inRanges_own _ _ _ _ (by omega) (by omega)
    | body S z =>
      simp [RelX] at hR
      simp [DirI, itemFlat] at hD
      simp only [hR, hD, ownRange, Mode.lineOf, List.cons_append, List.nil_append, List.take_succ_cons, List.take_zero]
      exact inRanges_own _ _ _ _ (by omega) (by omega)
    | fixed L => exact False.elim hR
  | call name b =>
    cases m with
    | phys c => simp [DirI, itemDirect] at hD
    | body S z => simp [DirI, itemSimple] at hD
    | fixed L => exact False.elim hR
  | rept n b =>
    simp only [realItem, specItem]
    simp only [itemWf, Bool.and_eq_true] at hW
    have h := loopX (b := b) hR (by cases m <;> simp [DirI, itemDirect, itemSimple] at hD ⊢ <;> exact hD) hW.1
    exact agreeX_repeat (realBody_exact b file depth _ _ _ h.1 h.2 hW.2) n
  | irp k args b =>
    simp only [realItem, specItem]
    simp only [itemWf, Bool.and_eq_true] at hW
    have h := loopX (b := b) hR (by cases m <;> simp [DirI, itemDirect, itemSimple] at hD ⊢ <;> exact hD) hW.1
    exact agreeX_repeat (realBody_exact b file depth _ _ _ h.1 h.2 hW.2) _
  | irpc s b =>
    simp only [realItem, specItem]
    simp only [itemWf, Bool.and_eq_true] at hW
    have h := loopX (b := b) hR (by cases m <;> simp [DirI, itemDirect, itemSimple] at hD ⊢ <;> exact hD) hW.1
    exact agreeX_repeat (realBody_exact b file depth _ _ _ h.1 h.2 hW.2) _
  | while_ n b =>
    simp only [realItem, specItem]
    simp only [itemWf, Bool.and_eq_true] at hW
    have h := loopX (b := b) hR (by cases m <;> simp [DirI, itemDirect, itemSimple] at hD ⊢ <;> exact hD) hW.1
    exact agreeX_repeat (realBody_exact b file depth _ _ _ h.1 h.2 hW.2) n
  | incl f b =>
    simp only [realItem, specItem, stmts]
    have hb : bodyDirect b = true := by
      cases m with
      | phys c => simpa [DirI, itemDirect] using hD
      | body S z => simp [DirI, itemSimple] at hD; exact hD.1
      | fixed L => exact False.elim hR
    exact realBody_exact b f (depth + 1) (.phys 0) (some 0) [] (by simp [RelX]) (by simpa [DirB] using hb) (by simpa [itemWf] using hW)
theorem realBody_exact (b : Body) : ∀ (file : String) (depth : Nat) (m : Mode) (base : Option Nat) (encl : List (Nat × Nat)),
    RelX m base → DirB m b → bodyWf b = true →
    agreeX (stmts (realBody file m b)) (specBody file depth base encl b) = true := by
  intro file depth m base encl hR hD hW
  cases b with
  | nil => simp [realBody, specBody, stmts, agreeX]
  | cons it b =>
    simp only [bodyWf, Bool.and_eq_true] at hW
    have hDi : DirI m it := by
      cases m <;> simp [DirI, DirB, bodyDirect, bodySimple, bodyFlat] at * <;> simp [hD]
    have hDb : DirB (m.adv it.lines) b := by
      cases m <;> simp [DirI, DirB, bodyDirect, bodySimple, bodyFlat, Mode.adv] at * <;> simp [hD]
    have hR2 : RelX (m.adv it.lines) (base.map (· + sumL it.lines)) := by
      cases m with
      | phys c => simp [RelX] at hR; simp [hR, RelX, Mode.adv]
      | body S z =>
        simp [RelX] at hR
        have := itemFlat_sumL it (by simp [DirI] at hDi; exact hDi.2)
        simp [hR, RelX, Mode.adv, this]; omega
      | fixed L => exact False.elim hR
    simp only [realBody, specBody, stmts_append]
    exact agreeX_append (realItem_exact it file depth m base encl hR hDi hW.1)
      (realBody_exact b file depth _ _ encl hR2 hDb hW.2)
end

theorem judgeX_of_agreeX : ∀ (evs : List Ev) (es : List Exec) (org : Nat), agreeX (stmts evs) es = true →
    judgeX ((recAddrs lenOf org evs).map toEntry) (layout org es) = true := by
  intro evs
  induction evs with
  | nil =>
    intro es org h
    cases es with
    | nil => rfl
    | cons _ _ => simp [stmts, agreeX] at h
  | cons e evs ih =>
    intro es org h
    cases e with
    | opn f => simpa [recAddrs, stmts] using ih es org (by simpa [stmts] using h)
    | stmt f l id =>
      cases es with
      | nil => simp [stmts, agreeX] at h
      | cons x xs =>
        simp only [stmts, agreeX, okRecX, Bool.and_eq_true, beq_iff_eq] at h
        obtain ⟨⟨⟨hf, hid⟩, hin⟩, hrest⟩ := h
        simp only [recAddrs, List.map_cons, layout, judgeX, okEntryX, toEntry, Bool.and_eq_true, beq_iff_eq]
        refine ⟨⟨⟨hf, ?_⟩, hin⟩, ?_⟩
        · trivial
        have : lenOf id = (stmtBytes x.id).length := by rw [lenOf, hid]
        rw [this]
        exact ih xs _ hrest

end AslModel.LineInfo
