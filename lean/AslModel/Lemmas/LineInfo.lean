import AslModel.Model.LineInfo
import AslModel.Spec.LineInfo
import AslModel.Lemmas.Pos
/-!
# C19 helper lemmas: the `CurrLine` / `CurrFileName` / `MomLineCounter` machine of `Model/LineInfo.lean`

1. `realBody`: closed form of what the machine records (no counters, no stored offsets): the *mode* of a place in the
   program says how the line number of a delivered line comes about — `phys c` (read from a file, `c` physical lines
   consumed), `body S all z` (replayed body line of a block that was read from a file: `StartLine = S`, `all` = the physical
   sizes of the stored body lines, `z` of them delivered in this pass: the line is `S` + the physical lines of the body
   passed so far), `fixed L` (macro expansion, or block not read from a file: always `StartLine = L`).
   `run_eq_real`: machine = closed form, for every nesting tree (`collect_stored`: what `AddBodyLine` stores).
2. `realBody_adm`: every record of the closed form is admissible for the SPEC (`specBody`): same statement, same file, line
   within the statement's own lines or the line of an enclosing statement of that file.
-/
namespace AslModel.LineInfo
open AslModel.Pos

inductive Mode where
  | phys (c : Nat)
  | body (S : Nat) (all : List Nat) (z : Nat)
  | fixed (L : Nat)
deriving Repr

/-- `CurrLine` after delivering a logical line of `p` physical lines -/
def Mode.lineOf : Mode → Nat → Nat
  | .phys c, p => c + p
  | .body S all z, p => S + sumL (all.take z) + p
  | .fixed L, _ => L

def Mode.adv : Mode → List Nat → Mode
  | .phys c, ps => .phys (c + sumL ps)
  | .body S all z, ps => .body S all (z + ps.length)
  | .fixed L, _ => .fixed L

/-- the mode of the body (stored lines `ls`) of a block whose opening line is delivered in mode `m` -/
def Mode.inner : Mode → List Nat → Mode
  | .phys c, ls => .body (c + 1) ls 0
  | .body S all z, _ => .fixed (S + sumL (all.take z) + 1)
  | .fixed L, _ => .fixed L

mutual
def realItem (file : String) (m : Mode) : Item → List Ev
  | .plain _ => []
  | .fault p id => [.stmt file (m.lineOf p) id]
  | .call _ b => realBody file (.fixed (m.lineOf 1)) b
  | .rept n b => repeatL n (realBody file (m.inner b.lines) b)
  | .irp k args b => repeatL (irpIters k args) (realBody file (m.inner b.lines) b)
  | .irpc s b => repeatL s.length (realBody file (m.inner b.lines) b)
  | .while_ n b => repeatL n (realBody file (m.inner b.lines) b)
  | .incl f b => .opn f :: realBody f (.phys 0) b
def realBody (file : String) (m : Mode) : Body → List Ev
  | .nil => []
  | .cons it b => realItem file m it ++ realBody file (m.adv it.lines) b
end

/-! ## arithmetic of modes -/

theorem sumL_append (a b : List Nat) : sumL (a ++ b) = sumL a + sumL b := by
  induction a with
  | nil => simp [sumL]
  | cons x xs ih => simp [sumL, ih]; omega

theorem adv_nil (m : Mode) : m.adv [] = m := by
  cases m <;> simp [Mode.adv, sumL]

theorem adv_append (m : Mode) (a b : List Nat) : m.adv (a ++ b) = (m.adv a).adv b := by
  cases m <;> simp [Mode.adv, sumL_append] <;> omega

theorem adv_cons (m : Mode) (p : Nat) (ps : List Nat) : m.adv (p :: ps) = (m.adv [p]).adv ps := by
  have := adv_append m [p] ps
  simpa using this

/-- the physical lines of `ps` stored lines that follow the first `z` -/
theorem sumL_take_room {all ps rest : List Nat} {z : Nat} (h : all.drop z = ps ++ rest) :
    sumL (all.take (z + ps.length)) = sumL (all.take z) + sumL ps := by
  rw [List.take_add, h, List.take_left', sumL_append]
  rfl

/-! ## what `AddBodyLine` has stored -/

/-- `nums` = for every stored body line the physical lines of the body up to and including it -/
def Stored (nums all : List Nat) : Prop :=
  nums.length = all.length ∧ ∀ k, k < all.length → nums.getD k 0 = sumL (all.take (k + 1))

theorem Stored.nil : Stored [] [] := ⟨rfl, fun k h => by simp at h⟩

theorem Stored.snoc {nums pre : List Nat} (h : Stored nums pre) (p : Nat) :
    Stored (nums ++ [sumL pre + p]) (pre ++ [p]) := by
  obtain ⟨hl, hk⟩ := h
  refine ⟨by simp [hl], ?_⟩
  intro k hk'
  simp only [List.length_append, List.length_singleton] at hk'
  by_cases hlt : k < pre.length
  · have h1 := hk k hlt
    have h2 : (nums ++ [sumL pre + p]).getD k 0 = nums.getD k 0 := by
      simp [List.getD_eq_getElem?_getD, List.getElem?_append_left (by omega : k < nums.length)]
    have h3 : (pre ++ [p]).take (k + 1) = pre.take (k + 1) := List.take_append_of_le_length (by omega)
    rw [h2, h3, h1]
  · have hke : k = pre.length := by omega
    subst hke
    have h2 : (nums ++ [sumL pre + p]).getD pre.length 0 = sumL pre + p := by
      simp [List.getD_eq_getElem?_getD, ← hl]
    have h3 : (pre ++ [p]).take (pre.length + 1) = pre ++ [p] := by
      apply List.take_of_length_le; simp
    rw [h2, h3, sumL_append]
    simp [sumL]

/-! ## the invariant tying a mode to the machine state -/

def Inv (m : Mode) (g : Glob) (t : Tag) : Prop :=
  match m with
  | .phys c => t.kind = .incl ∧ g.mom = c
  | .body S all z => t.kind = .loop ∧ t.fromFile = true ∧ t.startLine = S ∧ t.lineCnt = all.length ∧
      Stored t.lineNums all ∧ z ≤ all.length ∧ t.lineZ = (if z = all.length then 1 else z + 1)
  | .fixed L => (t.kind = .macro ∨ (t.kind = .loop ∧ t.fromFile = false)) ∧ t.startLine = L

/-- the lines still to be delivered in this pass through the block's body begin with `ps` -/
def Room (m : Mode) (ps : List Nat) : Prop :=
  match m with
  | .body _ all z => ∃ rest, all.drop z = ps ++ rest
  | _ => True

/-- what a construct leaves untouched: `CurrFileName`, and `MomLineCounter` unless lines are read from the file -/
def Keep (m : Mode) (g g' : Glob) : Prop :=
  g'.curFile = g.curFile ∧ (match m with | .phys _ => True | _ => g'.mom = g.mom)

theorem Keep.refl (m : Mode) (g : Glob) : Keep m g g := by
  cases m <;> simp [Keep]

theorem Keep.trans {m : Mode} {a b c : Glob} (h1 : Keep m a b) (h2 : Keep m b c) : Keep m a c := by
  cases m <;> simp [Keep] at * <;> (try constructor) <;> (try omega) <;> simp_all

theorem Keep_adv {m : Mode} (ps : List Nat) {a b : Glob} (h : Keep (m.adv ps) a b) : Keep m a b := by
  cases m <;> simpa [Keep, Mode.adv] using h

theorem Keep_to_adv {m : Mode} (ps : List Nat) {a b : Glob} (h : Keep m a b) : Keep (m.adv ps) a b := by
  cases m <;> simpa [Keep, Mode.adv] using h

theorem Keep_of_fixed {L : Nat} {m : Mode} {a b : Glob} (h : Keep (.fixed L) a b) : Keep m a b := by
  cases m <;> simp [Keep] at * <;> simp_all

theorem Room_left {m : Mode} {a b : List Nat} (h : Room m (a ++ b)) : Room m a := by
  cases m with
  | body S all z =>
    obtain ⟨rest, hr⟩ := h
    exact ⟨b ++ rest, by rw [hr, List.append_assoc]⟩
  | phys c => trivial
  | fixed L => trivial

theorem Room_right {m : Mode} {a b : List Nat} (h : Room m (a ++ b)) : Room (m.adv a) b := by
  cases m with
  | body S all z =>
    obtain ⟨rest, hr⟩ := h
    refine ⟨rest, ?_⟩
    show all.drop (z + a.length) = b ++ rest
    rw [← List.drop_drop, hr, List.append_assoc, List.drop_left]
  | phys c => trivial
  | fixed L => trivial

theorem Inv_mom {m : Mode} {g g' : Glob} {t : Tag} (h : Inv m g t) (hm : g'.mom = g.mom) : Inv m g' t := by
  cases m <;> simp [Inv] at * <;> simp_all

/-- one delivered line -/
theorem deliver_spec {m : Mode} {g : Glob} {t : Tag} (p : Nat) (h : Inv m g t) (hr : Room m [p]) :
    Inv (m.adv [p]) (deliver g t p).1 (deliver g t p).2 ∧ (deliver g t p).1.curLine = m.lineOf p ∧
    Keep m g (deliver g t p).1 := by
  cases m with
  | phys c =>
    obtain ⟨hk, hm⟩ := h
    simp [deliver, hk, Inv, Mode.adv, Mode.lineOf, Keep, sumL, hm]
  | body S all z =>
    obtain ⟨hk, hf, hs, hc, hst, hz, hl⟩ := h
    obtain ⟨rest, hd⟩ := hr
    have hlt : z < all.length := by
      by_cases hge : all.length ≤ z
      · rw [List.drop_eq_nil_of_le hge] at hd; simp at hd
      · omega
    have hne : z ≠ all.length := by omega
    simp only [hne, if_false] at hl
    have hsum := sumL_take_room hd
    simp only [List.length_singleton, sumL, Nat.add_zero] at hsum
    have hget : t.lineNums.getD (t.lineZ - 1) 0 = sumL (all.take z) + p := by
      rw [hl, Nat.add_sub_cancel, hst.2 z hlt, hsum]
    refine ⟨?_, ?_, ?_⟩
    · simp only [deliver, hk, Inv, Mode.adv, List.length_singleton]
      refine ⟨trivial, hf, hs, hc, hst, by omega, ?_⟩
      rw [hl, hc]
      by_cases h1 : z + 1 = all.length
      · simp [h1]
      · have : ¬ (z + 1 + 1 > all.length) := by omega
        simp [h1, this]
    · simp only [deliver, hk, hf, if_true, Mode.lineOf, hget, hs]; omega
    · simp [deliver, hk, Keep]
  | fixed L =>
    obtain ⟨hk, hs⟩ := h
    rcases hk with hk | ⟨hk, hf⟩
    · simp [deliver, hk, Inv, Mode.adv, Mode.lineOf, Keep, hs]
    · simp [deliver, hk, hf, Inv, Mode.adv, Mode.lineOf, Keep, hs]

/-- several delivered lines -/
theorem consume_spec (ps : List Nat) : ∀ {m : Mode} {g : Glob} {t : Tag}, Inv m g t → Room m ps →
    Inv (m.adv ps) (consume g t ps).1 (consume g t ps).2 ∧ Keep m g (consume g t ps).1 := by
  induction ps with
  | nil =>
    intro m g t h _
    refine ⟨?_, Keep.refl m g⟩
    rw [adv_nil]; exact h
  | cons p ps ih =>
    intro m g t h hr
    have hr' : Room m ([p] ++ ps) := hr
    obtain ⟨h1, _, hk1⟩ := deliver_spec p h (Room_left hr')
    obtain ⟨h2, hk2⟩ := ih h1 (Room_right hr')
    simp only [consume]
    rw [adv_cons]
    exact ⟨h2, Keep.trans hk1 (Keep_adv [p] hk2)⟩

/-! ## collecting the body of a block -/

/-- the supplying tag's side of `collect` -/
theorem collect_sup (ps : List Nat) : ∀ (g : Glob) (sup tag : Tag), (collect g sup tag ps).1 = consume g sup ps := by
  induction ps with
  | nil => intro g sup tag; rfl
  | cons p ps ih => intro g sup tag; simp only [collect, consume]; exact ih _ _ _

/-- what `AddBodyLine` leaves alone, and `LineCnt` -/
theorem collect_frame (ps : List Nat) : ∀ (g : Glob) (sup tag : Tag),
    (collect g sup tag ps).2.kind = tag.kind ∧ (collect g sup tag ps).2.startLine = tag.startLine ∧
    (collect g sup tag ps).2.fromFile = tag.fromFile ∧ (collect g sup tag ps).2.lineZ = tag.lineZ ∧
    (collect g sup tag ps).2.lineCnt = tag.lineCnt + ps.length := by
  induction ps with
  | nil => intro g sup tag; simp [collect]
  | cons p ps ih =>
    intro g sup tag
    obtain ⟨h1, h2, h3, h4, h5⟩ := ih (deliver g sup p).1 (deliver g sup p).2 (addBodyLine (deliver g sup p).1 tag)
    simp only [collect]
    refine ⟨h1, h2, h3, h4, ?_⟩
    rw [h5]; simp [addBodyLine]; omega

/-- **`AddBodyLine`'s values** when the body is read from a file: the tag was generated at line `StartLine`, `pre` are the
body lines stored so far; every further line is stored with the physical lines of the body up to and including it (the
subtraction `CurrLine - StartLine` never truncates) -/
theorem collect_stored (ps : List Nat) : ∀ (g : Glob) (sup tag : Tag) (pre : List Nat), sup.kind = .incl →
    g.mom = tag.startLine + sumL pre → Stored tag.lineNums pre → Stored (collect g sup tag ps).2.lineNums (pre ++ ps) := by
  induction ps with
  | nil => intro g sup tag pre _ _ hs; simpa [collect] using hs
  | cons p ps ih =>
    intro g sup tag pre hk hm hs
    simp only [collect]
    have h := ih (deliver g sup p).1 (deliver g sup p).2 (addBodyLine (deliver g sup p).1 tag) (pre ++ [p])
      (by simp [deliver, hk]) (by simp [deliver, hk, addBodyLine, hm, sumL_append, sumL]; omega)
      (by
        have : (deliver g sup p).1.curLine - tag.startLine = sumL pre + p := by simp [deliver, hk, hm]; omega
        simp only [addBodyLine, this]
        exact hs.snoc p)
    simpa [List.append_assoc] using h

/-! ## iterations -/

theorem iter_spec {σ α : Type} (f : σ → σ × List α) (P : σ → Prop) (out : List α)
    (hstep : ∀ s, P s → P (f s).1 ∧ (f s).2 = out) :
    ∀ n s, P s → P (iter f n s).1 ∧ (iter f n s).2 = repeatL n out := by
  intro n
  induction n with
  | zero => intro s h; exact ⟨h, rfl⟩
  | succ n ih =>
    intro s h
    obtain ⟨h1, h2⟩ := hstep s h
    obtain ⟨h3, h4⟩ := ih (f s).1 h1
    simp only [iter, repeatL]
    exact ⟨h3, by rw [h2, h4]⟩

/-- result of running an item / a body that occupies the lines `ps` -/
structure Res (m : Mode) (g : Glob) (ps : List Nat) (out : List Ev) (r : (Glob × Tag) × List Ev) : Prop where
  inv : Inv (m.adv ps) r.1.1 r.1.2
  keep : Keep m g r.1.1
  out : r.2 = out

/-- the tag of a block, generated after the opening line was delivered in mode `m` and filled with the body lines `ls`,
satisfies the invariant of the body's mode (whatever the globals are) -/
theorem inner_inv {m : Mode} {g0 : Glob} {t0 : Tag} (h : Inv (m.adv [1]) g0 t0) (hl : g0.curLine = m.lineOf 1)
    (ls : List Nat) (g' : Glob) :
    Inv (m.inner ls) g' (collect g0 t0 (genProc g0 t0 .loop) ls).2 := by
  obtain ⟨f1, f2, f3, f4, f5⟩ := collect_frame ls g0 t0 (genProc g0 t0 .loop)
  cases m with
  | phys c =>
    obtain ⟨hk, hm⟩ := h
    have hst := collect_stored ls g0 t0 (genProc g0 t0 .loop) [] hk
      (by simp [genProc, hl, hm, Mode.lineOf, sumL]) Stored.nil
    simp only [List.nil_append] at hst
    simp only [Inv, Mode.inner]
    refine ⟨by rw [f1]; rfl, by rw [f3]; simp [genProc, hk], by rw [f2]; simp [genProc, hl, Mode.lineOf],
      by rw [f5]; simp [genProc], hst, Nat.zero_le _, ?_⟩
    rw [f4]; simp [genProc]
  | body S all z =>
    obtain ⟨hk, _⟩ := h
    simp only [Inv, Mode.inner]
    exact ⟨Or.inr ⟨by rw [f1]; rfl, by rw [f3]; simp [genProc, hk]⟩, by rw [f2]; simp [genProc, hl, Mode.lineOf]⟩
  | fixed L0 =>
    obtain ⟨hk, hs⟩ := h
    simp only [Inv, Mode.inner]
    refine ⟨Or.inr ⟨by rw [f1]; rfl, ?_⟩, by rw [f2]; simp [genProc, hl, Mode.lineOf]⟩
    rw [f3]
    rcases hk with hk | ⟨hk, _⟩ <;> simp [genProc, hk]

/-- the end of one pass through the body is the start of the next -/
theorem wrap_inv {m : Mode} {g : Glob} {t : Tag} (ls : List Nat) (h : Inv ((m.inner ls).adv ls) g t) :
    Inv (m.inner ls) g t := by
  cases m with
  | phys c =>
    simp only [Mode.inner, Mode.adv, Inv] at *
    obtain ⟨hk, hf, hs, hc, hst, _, hz⟩ := h
    refine ⟨hk, hf, hs, hc, hst, Nat.zero_le _, ?_⟩
    simp only [Nat.zero_add, if_true] at hz
    rw [hz]; split <;> rfl
  | body S all z => simpa [Mode.inner, Mode.adv, Inv] using h
  | fixed L => simpa [Mode.inner, Mode.adv, Inv] using h

theorem room_inner (m : Mode) (ls : List Nat) : Room (m.inner ls) ls := by
  cases m with
  | phys c => exact ⟨[], by simp⟩
  | body S all z => trivial
  | fixed L => trivial

/-- a block: opening line, body and ENDM delivered by the supplying tag, then `n` passes through the body -/
theorem loop_spec (b : Body) (n : Nat) (m : Mode) (g : Glob) (t : Tag) (hI : Inv m g t)
    (hR : Room m (1 :: (b.lines ++ [1])))
    (ih : ∀ (m : Mode) (g : Glob) (t : Tag), Inv m g t → Room m b.lines →
      Res m g b.lines (realBody g.curFile m b) (runBody g t b)) :
    Res m g (1 :: (b.lines ++ [1])) (repeatL n (realBody g.curFile (m.inner b.lines) b))
      (runLoop g t b.lines n (fun s => runBody s.1 s.2 b)) := by
  have hR' : Room m ([1] ++ (b.lines ++ [1])) := hR
  obtain ⟨h0, hl0, hk0⟩ := deliver_spec 1 hI (Room_left hR')
  have hR1 : Room (m.adv [1]) (b.lines ++ [1]) := Room_right hR'
  have hT := inner_inv h0 hl0 b.lines
  have hsup := collect_sup b.lines (deliver g t 1).1 (deliver g t 1).2 (genProc (deliver g t 1).1 (deliver g t 1).2 .loop)
  obtain ⟨h1, hk1⟩ := consume_spec b.lines h0 (Room_left hR1)
  rw [← hsup] at h1 hk1
  obtain ⟨h2, _, hk2⟩ := deliver_spec 1 h1 (Room_right hR1)
  simp only [runLoop]
  generalize hr0 : deliver g t 1 = r0 at *
  generalize hc : collect r0.1 r0.2 (genProc r0.1 r0.2 .loop) b.lines = c at *
  generalize hr : deliver c.1.1 c.1.2 1 = r at *
  have hk : Keep m g r.1 :=
    Keep.trans hk0 (Keep_adv [1] (Keep.trans hk1 (Keep_adv b.lines hk2)))
  let P : Glob × Tag → Prop := fun s =>
    Inv (m.inner b.lines) s.1 s.2 ∧ s.1.curFile = g.curFile ∧ s.1.mom = r.1.mom
  have hstep : ∀ s, P s → P (runBody s.1 s.2 b).1 ∧ (runBody s.1 s.2 b).2 = realBody g.curFile (m.inner b.lines) b := by
    intro s hs
    obtain ⟨hs1, hs2, hs3⟩ := hs
    have q := ih (m.inner b.lines) s.1 s.2 hs1 (room_inner m b.lines)
    have hkeep : (runBody s.1 s.2 b).1.1.curFile = s.1.curFile ∧ (runBody s.1 s.2 b).1.1.mom = s.1.mom := by
      have := q.keep
      cases m <;> simpa [Keep, Mode.inner] using this
    refine ⟨⟨wrap_inv b.lines q.inv, by rw [hkeep.1, hs2], by rw [hkeep.2, hs3]⟩, ?_⟩
    rw [q.out, hs2]
  have hP0 : P (r.1, c.2) := ⟨hT r.1, hk.1, rfl⟩
  obtain ⟨hPn, hout⟩ := iter_spec (fun s => runBody s.1 s.2 b) P _ hstep n _ hP0
  obtain ⟨_, hf, hm⟩ := hPn
  refine ⟨?_, ?_, hout⟩
  · rw [adv_cons, adv_append]
    exact Inv_mom h2 hm
  · refine ⟨hf, ?_⟩
    have := hk.2
    cases m <;> simp at * <;> omega

mutual
theorem runItem_spec (it : Item) : ∀ (m : Mode) (g : Glob) (t : Tag), Inv m g t → Room m it.lines →
    Res m g it.lines (realItem g.curFile m it) (runItem g t it) := by
  intro m g t hI hR
  cases it with
  | plain p =>
    obtain ⟨h1, _, hk⟩ := deliver_spec p hI hR
    exact ⟨h1, hk, rfl⟩
  | fault p id =>
    obtain ⟨h1, hl, hk⟩ := deliver_spec p hI hR
    refine ⟨h1, hk, ?_⟩
    simp only [runItem, realItem, hl, hk.1]
  | call name b =>
    obtain ⟨h1, hl, hk⟩ := deliver_spec 1 hI hR
    have hT : Inv (.fixed (m.lineOf 1)) (deliver g t 1).1 { genProc (deliver g t 1).1 (deliver g t 1).2 .macro with lineCnt := b.lines.length } := by
      simp [Inv, genProc, hl]
    have q := runBody_spec b (.fixed (m.lineOf 1)) _ _ hT trivial
    simp only [runItem, realItem, Item.lines]
    refine ⟨?_, ?_, ?_⟩
    · have : ((runBody (deliver g t 1).1 { genProc (deliver g t 1).1 (deliver g t 1).2 .macro with lineCnt := b.lines.length } b).1.1).mom
          = (deliver g t 1).1.mom := by simpa [Keep] using q.keep.2
      exact Inv_mom h1 this
    · exact Keep.trans hk (Keep_of_fixed q.keep)
    · rw [q.out, hk.1]
  | rept n b =>
    simp only [runItem, realItem, Item.lines]
    exact loop_spec b n m g t hI hR (runBody_spec b)
  | irp k args b =>
    simp only [runItem, realItem, Item.lines, tagIrpIters_mkIrp]
    exact loop_spec b _ m g t hI hR (runBody_spec b)
  | irpc s b =>
    simp only [runItem, realItem, Item.lines]
    exact loop_spec b _ m g t hI hR (runBody_spec b)
  | while_ n b =>
    simp only [runItem, realItem, Item.lines]
    exact loop_spec b n m g t hI hR (runBody_spec b)
  | incl f b =>
    obtain ⟨h1, _, hk⟩ := deliver_spec 1 hI hR
    have hT : Inv (.phys 0) { (deliver g t 1).1 with curFile := f, mom := 0 }
        { genProc (deliver g t 1).1 (deliver g t 1).2 .incl with startLine := (deliver g t 1).1.mom, saveAttr := (deliver g t 1).1.curFile, lineZ := 0 } := by
      simp [Inv, genProc]
    have q := runBody_spec b (.phys 0) _ _ hT trivial
    simp only [runItem, realItem, Item.lines]
    refine ⟨Inv_mom h1 rfl, ?_, ?_⟩
    · refine ⟨hk.1, ?_⟩
      have := hk.2
      cases m <;> simp at * <;> exact this
    · rw [q.out]
theorem runBody_spec (b : Body) : ∀ (m : Mode) (g : Glob) (t : Tag), Inv m g t → Room m b.lines →
    Res m g b.lines (realBody g.curFile m b) (runBody g t b) := by
  intro m g t hI hR
  cases b with
  | nil =>
    simp only [runBody, realBody, Body.lines]
    exact ⟨by rw [adv_nil]; exact hI, Keep.refl m g, rfl⟩
  | cons it b =>
    have hR' : Room m (it.lines ++ b.lines) := hR
    have r := runItem_spec it m g t hI (Room_left hR')
    have q := runBody_spec b (m.adv it.lines) _ _ r.inv (Room_right hR')
    simp only [runBody, realBody, Body.lines]
    refine ⟨by rw [adv_append]; exact q.inv, Keep.trans r.keep (Keep_adv _ q.keep), ?_⟩
    rw [r.out, q.out, r.keep.1]
end

/-- **machine = closed form**, for every nesting tree -/
theorem run_eq_real (name : String) (b : Body) : run name b = realBody name (.phys 0) b := by
  have h := runBody_spec b (.phys 0) { mom := 0, curLine := 0, curFile := name } mainTag ⟨rfl, rfl⟩ trivial
  exact h.out

/-! ## the closed form is admissible for the SPEC -/

/-- the statement records of an event list: (file, line, id) -/
def stmts : List Ev → List (String × Nat × Nat)
  | [] => []
  | .opn _ :: es => stmts es
  | .stmt f l id :: es => (f, l, id) :: stmts es

/-- one record against the executed statement it has to describe (addresses left out) -/
def okRec (r : String × Nat × Nat) (e : Exec) : Bool :=
  r.1 == e.file && r.2.2 == e.id && inRanges r.2.1 e.adm

def agree : List (String × Nat × Nat) → List Exec → Bool
  | [], [] => true
  | r :: rs, e :: es => okRec r e && agree rs es
  | _, _ => false

theorem stmts_append (a b : List Ev) : stmts (a ++ b) = stmts a ++ stmts b := by
  induction a with
  | nil => rfl
  | cons x xs ih => cases x <;> simp [stmts, ih]

theorem agree_append {a : List (String × Nat × Nat)} {c : List Exec} (h1 : agree a c = true) :
    ∀ {b : List (String × Nat × Nat)} {d : List Exec}, agree b d = true → agree (a ++ b) (c ++ d) = true := by
  induction a generalizing c with
  | nil =>
    cases c with
    | nil => intro b d h; simpa using h
    | cons _ _ => simp [agree] at h1
  | cons x xs ih =>
    cases c with
    | nil => simp [agree] at h1
    | cons y ys =>
      intro b d h
      simp only [agree, Bool.and_eq_true] at h1
      simp only [List.cons_append, agree, Bool.and_eq_true]
      exact ⟨h1.1, ih h1.2 h⟩

theorem agree_repeat {a : List Ev} {c : List Exec} (h : agree (stmts a) c = true) (n : Nat) :
    agree (stmts (repeatL n a)) (repeatL n c) = true := by
  induction n with
  | zero => rfl
  | succ n ih =>
    simp only [repeatL, stmts_append]
    exact agree_append h ih

/-- how a mode is reflected in the SPEC's parameters -/
def Rel (m : Mode) (base : Option Nat) (encl : List (Nat × Nat)) : Prop :=
  match m with
  | .phys c => base = some c
  | .body S all z => base = some (S + sumL (all.take z))
  | .fixed L => (L, L) ∈ encl

theorem inRanges_append_right (l : Nat) (a b : List (Nat × Nat)) (h : inRanges l b = true) : inRanges l (a ++ b) = true := by
  simp [inRanges] at *
  obtain ⟨x, y, hm, hh⟩ := h
  exact Or.inr ⟨x, y, hm, hh⟩

theorem inRanges_own (lo hi l : Nat) (rest : List (Nat × Nat)) (h1 : lo ≤ l) (h2 : l ≤ hi) :
    inRanges l ((lo, hi) :: rest) = true := by
  have : (decide (lo ≤ l) && decide (l ≤ hi)) = true := by simp [h1, h2]
  simp [inRanges, this]

theorem inRanges_mem (L : Nat) (rs : List (Nat × Nat)) (h : (L, L) ∈ rs) : inRanges L rs = true := by
  simp [inRanges]
  exact ⟨L, L, h, by omega, by omega⟩

/-- the line of an opening line / macro call is among the enclosing lines of what it encloses -/
theorem rel_opener {m : Mode} {base : Option Nat} {encl : List (Nat × Nat)} (h : Rel m base encl) :
    (m.lineOf 1, m.lineOf 1) ∈ ownRange base 1 ++ encl := by
  cases m with
  | phys c => simp [Rel] at h; simp [h, ownRange, Mode.lineOf]
  | body S all z => simp [Rel] at h; simp [h, ownRange, Mode.lineOf]
  | fixed L => simp [Rel] at h; simp [Mode.lineOf, h]

theorem rel_inner {m : Mode} {base : Option Nat} {encl : List (Nat × Nat)} (h : Rel m base encl) (ls : List Nat) :
    Rel (m.inner ls) (base.map (· + 1)) (ownRange base 1 ++ encl) := by
  cases m with
  | phys c => simp [Rel] at h; simp [h, Rel, Mode.inner, sumL]
  | body S all z => simp [Rel] at h; simp [h, Rel, Mode.inner, ownRange]
  | fixed L => simp [Rel] at h; simp [Rel, Mode.inner, h]

/-- passing the lines `ps` of an item -/
theorem rel_adv {m : Mode} {base : Option Nat} {encl : List (Nat × Nat)} {ps : List Nat} (h : Rel m base encl)
    (hr : Room m ps) : Rel (m.adv ps) (base.map (· + sumL ps)) encl := by
  cases m with
  | phys c => simp [Rel] at h; simp [h, Rel, Mode.adv]
  | body S all z =>
    simp [Rel] at h
    obtain ⟨rest, hd⟩ := hr
    have := sumL_take_room hd
    simp [h, Rel, Mode.adv, this]; omega
  | fixed L => simpa [Rel, Mode.adv] using h

mutual
theorem realItem_adm (it : Item) : ∀ (file : String) (depth : Nat) (m : Mode) (base : Option Nat) (encl : List (Nat × Nat)),
    Rel m base encl → Room m it.lines → itemWf it = true →
    agree (stmts (realItem file m it)) (specItem file depth base encl it) = true := by
  intro file depth m base encl hR hF hW
  cases it with
  | plain p => simp [realItem, specItem, stmts, agree]
  | fault p id =>
    simp only [realItem, specItem, stmts, agree, okRec, Bool.and_true, beq_self_eq_true, Bool.true_and]
    simp only [itemWf, decide_eq_true_eq] at hW
    cases m with
    | phys c =>
      simp [Rel] at hR
      simp only [hR, ownRange, Mode.lineOf, List.cons_append, List.nil_append]
      exact inRanges_own _ _ _ _ (by omega) (by omega)
    | body S all z =>
      simp [Rel] at hR
      simp only [hR, ownRange, Mode.lineOf, List.cons_append, List.nil_append]
      exact inRanges_own _ _ _ _ (by omega) (by omega)
    | fixed L =>
      simp [Rel] at hR
      exact inRanges_append_right _ _ _ (inRanges_mem L encl hR)
  | call name b =>
    simp only [realItem, specItem]
    exact realBody_adm b file depth _ none _ (by simpa [Rel] using rel_opener hR) trivial (by simpa [itemWf] using hW)
  | rept n b =>
    simp only [realItem, specItem]
    exact agree_repeat (realBody_adm b file depth _ _ _ (rel_inner hR b.lines) (room_inner m b.lines) (by simpa [itemWf] using hW)) n
  | irp k args b =>
    simp only [realItem, specItem]
    exact agree_repeat (realBody_adm b file depth _ _ _ (rel_inner hR b.lines) (room_inner m b.lines) (by simpa [itemWf] using hW)) _
  | irpc s b =>
    simp only [realItem, specItem]
    exact agree_repeat (realBody_adm b file depth _ _ _ (rel_inner hR b.lines) (room_inner m b.lines) (by simpa [itemWf] using hW)) _
  | while_ n b =>
    simp only [realItem, specItem]
    exact agree_repeat (realBody_adm b file depth _ _ _ (rel_inner hR b.lines) (room_inner m b.lines) (by simpa [itemWf] using hW)) n
  | incl f b =>
    simp only [realItem, specItem, stmts]
    exact realBody_adm b f (depth + 1) (.phys 0) (some 0) [] (by simp [Rel]) trivial (by simpa [itemWf] using hW)
theorem realBody_adm (b : Body) : ∀ (file : String) (depth : Nat) (m : Mode) (base : Option Nat) (encl : List (Nat × Nat)),
    Rel m base encl → Room m b.lines → bodyWf b = true →
    agree (stmts (realBody file m b)) (specBody file depth base encl b) = true := by
  intro file depth m base encl hR hF hW
  cases b with
  | nil => simp [realBody, specBody, stmts, agree]
  | cons it b =>
    simp only [bodyWf, Bool.and_eq_true] at hW
    have hF' : Room m (it.lines ++ b.lines) := hF
    simp only [realBody, specBody, stmts_append]
    exact agree_append (realItem_adm it file depth m base encl hR (Room_left hF') hW.1)
      (realBody_adm b file depth _ _ encl (rel_adv hR (Room_left hF')) (Room_right hF') hW.2)
end

/-! ## addresses -/

def toEntry (r : String × Nat × Nat) : Entry := ⟨r.1, r.2.1, r.2.2⟩

def lenOf (id : Nat) : Nat := (stmtBytes id).length

theorem judge_of_agree : ∀ (evs : List Ev) (es : List Exec) (org : Nat), agree (stmts evs) es = true →
    judge ((recAddrs lenOf org evs).map toEntry) (layout org es) = true := by
  intro evs
  induction evs with
  | nil =>
    intro es org h
    cases es with
    | nil => rfl
    | cons _ _ => simp [stmts, agree] at h
  | cons e evs ih =>
    intro es org h
    cases e with
    | opn f => simpa [recAddrs, stmts] using ih es org (by simpa [stmts] using h)
    | stmt f l id =>
      cases es with
      | nil => simp [stmts, agree] at h
      | cons x xs =>
        simp only [stmts, agree, okRec, Bool.and_eq_true, beq_iff_eq] at h
        obtain ⟨⟨⟨hf, hid⟩, hin⟩, hrest⟩ := h
        simp only [recAddrs, List.map_cons, layout, judge, okEntry, toEntry, Bool.and_eq_true, beq_iff_eq]
        refine ⟨⟨⟨hf, ?_⟩, hin⟩, ?_⟩
        · trivial
        have : lenOf id = (stmtBytes x.id).length := by rw [lenOf, hid]
        rw [this]
        exact ih xs _ hrest

/-! ## exactness where the statement's text stands in the file being read -/

def okRecX (r : String × Nat × Nat) (e : Exec) : Bool :=
  r.1 == e.file && r.2.2 == e.id && inRanges r.2.1 (e.adm.take 1)

def agreeX : List (String × Nat × Nat) → List Exec → Bool
  | [], [] => true
  | r :: rs, e :: es => okRecX r e && agreeX rs es
  | _, _ => false

theorem agreeX_append {a : List (String × Nat × Nat)} {c : List Exec} (h1 : agreeX a c = true) :
    ∀ {b : List (String × Nat × Nat)} {d : List Exec}, agreeX b d = true → agreeX (a ++ b) (c ++ d) = true := by
  induction a generalizing c with
  | nil =>
    cases c with
    | nil => intro b d h; simpa using h
    | cons _ _ => simp [agreeX] at h1
  | cons x xs ih =>
    cases c with
    | nil => simp [agreeX] at h1
    | cons y ys =>
      intro b d h
      simp only [agreeX, Bool.and_eq_true] at h1
      simp only [List.cons_append, agreeX, Bool.and_eq_true]
      exact ⟨h1.1, ih h1.2 h⟩

theorem agreeX_repeat {a : List Ev} {c : List Exec} (h : agreeX (stmts a) c = true) (n : Nat) :
    agreeX (stmts (repeatL n a)) (repeatL n c) = true := by
  induction n with
  | zero => rfl
  | succ n ih =>
    simp only [repeatL, stmts_append]
    exact agreeX_append h ih

def RelX (m : Mode) (base : Option Nat) : Prop :=
  match m with
  | .phys c => base = some c
  | .body S all z => base = some (S + sumL (all.take z))
  | .fixed _ => False

def DirI (m : Mode) (it : Item) : Prop :=
  match m with
  | .phys _ => itemDirect it = true
  | .body _ _ _ => itemSimple it = true
  | .fixed _ => False

def DirB (m : Mode) (b : Body) : Prop :=
  match m with
  | .phys _ => bodyDirect b = true
  | .body _ _ _ => bodySimple b = true
  | .fixed _ => False

theorem loopX {m : Mode} {base : Option Nat} {b : Body} (hR : RelX m base)
    (hD : match m with | .phys _ => bodySimple b = true | _ => False) (ls : List Nat) :
    RelX (m.inner ls) (base.map (· + 1)) ∧ DirB (m.inner ls) b := by
  cases m with
  | phys c => simp [RelX] at hR; simp [hR, RelX, Mode.inner, DirB, sumL]; exact hD
  | body S all z => exact False.elim hD
  | fixed L => exact False.elim hD

theorem relX_adv {m : Mode} {base : Option Nat} {ps : List Nat} (h : RelX m base) (hr : Room m ps) :
    RelX (m.adv ps) (base.map (· + sumL ps)) := by
  cases m with
  | phys c => simp [RelX] at h; simp [h, RelX, Mode.adv]
  | body S all z =>
    simp [RelX] at h
    obtain ⟨rest, hd⟩ := hr
    have := sumL_take_room hd
    simp [h, RelX, Mode.adv, this]; omega
  | fixed L => exact False.elim h

mutual
theorem realItem_exact (it : Item) : ∀ (file : String) (depth : Nat) (m : Mode) (base : Option Nat) (encl : List (Nat × Nat)),
    RelX m base → DirI m it → Room m it.lines → itemWf it = true →
    agreeX (stmts (realItem file m it)) (specItem file depth base encl it) = true := by
  intro file depth m base encl hR hD hF hW
  cases it with
  | plain p => simp [realItem, specItem, stmts, agreeX]
  | fault p id =>
    simp only [realItem, specItem, stmts, agreeX, okRecX, Bool.and_true, beq_self_eq_true, Bool.true_and]
    simp only [itemWf, decide_eq_true_eq] at hW
    cases m with
    | phys c =>
      simp [RelX] at hR
      simp only [hR, ownRange, Mode.lineOf, List.cons_append, List.nil_append, List.take_succ_cons, List.take_zero]
      exact inRanges_own _ _ _ _ (by omega) (by omega)
    | body S all z =>
      simp [RelX] at hR
      simp only [hR, ownRange, Mode.lineOf, List.cons_append, List.nil_append, List.take_succ_cons, List.take_zero]
      exact inRanges_own _ _ _ _ (by omega) (by omega)
    | fixed L => exact False.elim hR
  | call name b =>
    cases m with
    | phys c => simp [DirI, itemDirect] at hD
    | body S all z => simp [DirI, itemSimple] at hD
    | fixed L => exact False.elim hR
  | rept n b =>
    simp only [realItem, specItem]
    have h := loopX (b := b) hR (by cases m <;> simp [DirI, itemDirect, itemSimple] at hD ⊢ <;> exact hD) b.lines
    exact agreeX_repeat (realBody_exact b file depth _ _ _ h.1 h.2 (room_inner m b.lines) (by simpa [itemWf] using hW)) n
  | irp k args b =>
    simp only [realItem, specItem]
    have h := loopX (b := b) hR (by cases m <;> simp [DirI, itemDirect, itemSimple] at hD ⊢ <;> exact hD) b.lines
    exact agreeX_repeat (realBody_exact b file depth _ _ _ h.1 h.2 (room_inner m b.lines) (by simpa [itemWf] using hW)) _
  | irpc s b =>
    simp only [realItem, specItem]
    have h := loopX (b := b) hR (by cases m <;> simp [DirI, itemDirect, itemSimple] at hD ⊢ <;> exact hD) b.lines
    exact agreeX_repeat (realBody_exact b file depth _ _ _ h.1 h.2 (room_inner m b.lines) (by simpa [itemWf] using hW)) _
  | while_ n b =>
    simp only [realItem, specItem]
    have h := loopX (b := b) hR (by cases m <;> simp [DirI, itemDirect, itemSimple] at hD ⊢ <;> exact hD) b.lines
    exact agreeX_repeat (realBody_exact b file depth _ _ _ h.1 h.2 (room_inner m b.lines) (by simpa [itemWf] using hW)) n
  | incl f b =>
    simp only [realItem, specItem, stmts]
    have hb : bodyDirect b = true := by
      cases m with
      | phys c => simpa [DirI, itemDirect] using hD
      | body S all z => simpa [DirI, itemSimple] using hD
      | fixed L => exact False.elim hR
    exact realBody_exact b f (depth + 1) (.phys 0) (some 0) [] (by simp [RelX]) (by simpa [DirB] using hb) trivial (by simpa [itemWf] using hW)
theorem realBody_exact (b : Body) : ∀ (file : String) (depth : Nat) (m : Mode) (base : Option Nat) (encl : List (Nat × Nat)),
    RelX m base → DirB m b → Room m b.lines → bodyWf b = true →
    agreeX (stmts (realBody file m b)) (specBody file depth base encl b) = true := by
  intro file depth m base encl hR hD hF hW
  cases b with
  | nil => simp [realBody, specBody, stmts, agreeX]
  | cons it b =>
    simp only [bodyWf, Bool.and_eq_true] at hW
    have hF' : Room m (it.lines ++ b.lines) := hF
    have hDi : DirI m it := by
      cases m <;> simp [DirI, DirB, bodyDirect, bodySimple] at * <;> simp [hD]
    have hDb : DirB (m.adv it.lines) b := by
      cases m <;> simp [DirI, DirB, bodyDirect, bodySimple, Mode.adv] at * <;> simp [hD]
    simp only [realBody, specBody, stmts_append]
    exact agreeX_append (realItem_exact it file depth m base encl hR hDi (Room_left hF') hW.1)
      (realBody_exact b file depth _ _ encl (relX_adv hR (Room_left hF')) hDb (Room_right hF') hW.2)
end

theorem judgeX_of_agreeX : ∀ (evs : List Ev) (es : List Exec) (org : Nat), agreeX (stmts evs) es = true →
    judgeX ((recAddrs lenOf org evs).map toEntry) (layout org es) = true := by
  intro evs
  induction evs with
  | nil =>
    intro es org h
    cases es with
    | nil => rfl
    | cons _ _ => simp [stmts, agreeX] at h
  | cons e evs ih =>
    intro es org h
    cases e with
    | opn f => simpa [recAddrs, stmts] using ih es org (by simpa [stmts] using h)
    | stmt f l id =>
      cases es with
      | nil => simp [stmts, agreeX] at h
      | cons x xs =>
        simp only [stmts, agreeX, okRecX, Bool.and_eq_true, beq_iff_eq] at h
        obtain ⟨⟨⟨hf, hid⟩, hin⟩, hrest⟩ := h
        simp only [recAddrs, List.map_cons, layout, judgeX, okEntryX, toEntry, Bool.and_eq_true, beq_iff_eq]
        refine ⟨⟨⟨hf, ?_⟩, hin⟩, ?_⟩
        · trivial
        have : lenOf id = (stmtBytes x.id).length := by rw [lenOf, hid]
        rw [this]
        exact ih xs _ hrest

end AslModel.LineInfo
