import AslModel.Model.AddrLab
/-!
# Helper lemmas for `Props/C10_Lab.lean`
-/
namespace AslModel.AddrLabLemmas
open AslModel.PFile (Byte b)
open AslModel.Data AslModel.DataModel AslModel.AddrLab AslModel.AddrLabModel

/-! ## reservation operands of the Motorola pseudo-ops -/

/-- an operand list made of placeholders only: `?` and `[n]?` with `n ≥ 0` -/
def resArgs : Args → Bool
  | .nil => true
  | .cons .q as => resArgs as
  | .cons (.rep n .q) as => decide (0 ≤ n) && resArgs as
  | .cons _ _ => false

/-- number of cells such a list reserves: one per `?`, `n` per `[n]?` -/
def cellCount : Args → Nat
  | .nil => 0
  | .cons .q as => 1 + cellCount as
  | .cons (.rep n .q) as => n.toNat + cellCount as
  | .cons _ as => cellCount as

def cellBytes (wide : Bool) : Nat := if wide then 2 else 1

theorem moto8_res_loop (c : MCfg) (wide : Bool) : ∀ (as : Args) (st : MSt), resArgs as = true → st.space = 1 →
    moto8Args c wide false as st = some { st with res := st.res + ((cellBytes wide * cellCount as : Nat) : Int) }
  | .nil, st, _, _ => by simp [moto8Args, cellCount]
  | .cons .q as, st, h, hs => by
    have h' : resArgs as = true := by simpa [resArgs] using h
    have hne : ¬ st.space = 0 := by omega
    simp only [moto8Args, moto8Arg, cutRep, hne, if_false, Bool.false_eq_true]
    rw [moto8_res_loop c wide as _ h' rfl]
    cases wide <;> simp [cellBytes, cellCount, hs] <;> omega
  | .cons (.rep n .q) as, st, h, hs => by
    have h' : 0 ≤ n ∧ resArgs as = true := by simpa [resArgs] using h
    have hne : ¬ st.space = 0 := by omega
    simp only [moto8Args, moto8Arg, cutRep, hne, if_false, Bool.false_eq_true]
    rw [moto8_res_loop c wide as _ h'.2 rfl]
    have hn : ((n.toNat : Nat) : Int) = n := Int.toNat_of_nonneg h'.1
    cases wide <;> simp [cellBytes, cellCount, hs] <;> omega
  | .cons (.int _) _, _, h, _ => by simp [resArgs] at h
  | .cons (.str _) _, _, h, _ => by simp [resArgs] at h
  | .cons (.flt _) _, _, h, _ => by simp [resArgs] at h
  | .cons (.dup _ _) _, _, h, _ => by simp [resArgs] at h
  | .cons (.rep _ (.int _)) _, _, h, _ => by simp [resArgs] at h
  | .cons (.rep _ (.str _)) _, _, h, _ => by simp [resArgs] at h
  | .cons (.rep _ (.flt _)) _, _, h, _ => by simp [resArgs] at h
  | .cons (.rep _ (.dup _ _)) _, _, h, _ => by simp [resArgs] at h
  | .cons (.rep _ (.rep _ _)) _, _, h, _ => by simp [resArgs] at h


/-- a non-empty placeholder list -/
def resStmtArgs : Args → Bool
  | .nil => false
  | as => resArgs as

theorem writeBytes_nil (c : MCfg) : writeBytes c [] = [] := by
  unfold writeBytes
  split <;> simp [swapPairs]

/-- `DecodeMotoBYT` / `DecodeMotoADR` on placeholders: `CodeLen` = cells × cell size, nothing written -/
theorem moto8_res (c : MCfg) (wide : Bool) (as : Args) (h : resStmtArgs as = true) :
    decodeMoto8 c wide false as = some ⟨none, mkOut true ((cellBytes wide * cellCount as : Nat) : Int) [], []⟩ := by
  cases as with
  | nil => simp [resStmtArgs] at h
  | cons a as =>
    have hr : resArgs (.cons a as) = true := by simpa [resStmtArgs] using h
    unfold decodeMoto8
    cases a with
    | q =>
      have h' : resArgs as = true := by simpa [resArgs] using hr
      simp only [moto8Args, moto8Arg, cutRep, Bool.false_eq_true, if_false]
      have hne : ¬ ((-1 : Int) = 0) := by omega
      simp only [hne, if_false]
      rw [moto8_res_loop c wide as _ h' rfl]
      cases wide <;> simp [cellBytes, cellCount, writeBytes_nil] <;> congr 1 <;> omega
    | rep n a =>
      cases a with
      | q =>
        have h' : 0 ≤ n ∧ resArgs as = true := by simpa [resArgs] using hr
        simp only [moto8Args, moto8Arg, cutRep, Bool.false_eq_true, if_false]
        have hne : ¬ ((-1 : Int) = 0) := by omega
        simp only [hne, if_false]
        rw [moto8_res_loop c wide as _ h'.2 rfl]
        have hn : ((n.toNat : Nat) : Int) = n := Int.toNat_of_nonneg h'.1
        cases wide <;> simp [cellBytes, cellCount, writeBytes_nil] <;> congr 1 <;> omega
      | _ => simp [resArgs] at hr
    | _ => simp [resArgs] at hr


theorem motoDC_res_loop (c : MCfg) (e : Elem) : ∀ (as : Args) (st : MSt), resArgs as = true → st.space = 1 → st.padPending = false →
    motoDCArgs c e as st = some { st with res := st.res + ((e.bytes * cellCount as : Nat) : Int) }
  | .nil, st, _, _, _ => by simp [motoDCArgs, cellCount]
  | .cons .q as, st, h, hs, hp => by
    have h' : resArgs as = true := by simpa [resArgs] using h
    have hne : ¬ st.space = 0 := by omega
    simp only [motoDCArgs, motoDCArg, cutRep, hne, if_false, doPad, hp, Bool.false_eq_true]
    refine (motoDC_res_loop c e as _ h' rfl (by simp)).trans ?_
    simp [cellCount, hs, Nat.mul_add] ; omega
  | .cons (.rep n .q) as, st, h, hs, hp => by
    have h' : 0 ≤ n ∧ resArgs as = true := by simpa [resArgs] using h
    have hne : ¬ st.space = 0 := by omega
    simp only [motoDCArgs, motoDCArg, cutRep, hne, if_false, doPad, hp, Bool.false_eq_true]
    refine (motoDC_res_loop c e as _ h'.2 rfl (by simp)).trans ?_
    obtain ⟨k, rfl⟩ := Int.eq_ofNat_of_zero_le h'.1
    simp [cellCount, hs, Nat.mul_add, Nat.mul_comm, Int.add_assoc]
  | .cons (.int _) _, _, h, _, _ => by simp [resArgs] at h
  | .cons (.str _) _, _, h, _, _ => by simp [resArgs] at h
  | .cons (.flt _) _, _, h, _, _ => by simp [resArgs] at h
  | .cons (.dup _ _) _, _, h, _, _ => by simp [resArgs] at h
  | .cons (.rep _ (.int _)) _, _, h, _, _ => by simp [resArgs] at h
  | .cons (.rep _ (.str _)) _, _, h, _, _ => by simp [resArgs] at h
  | .cons (.rep _ (.flt _)) _, _, h, _, _ => by simp [resArgs] at h
  | .cons (.rep _ (.dup _ _)) _, _, h, _, _ => by simp [resArgs] at h
  | .cons (.rep _ (.rep _ _)) _, _, h, _, _ => by simp [resArgs] at h

/-- `DecodeMotoDC` on placeholders: one *reserved* pad byte when `PadBeforeStart`, `CodeLen` = cells × element size -/
theorem motoDC_res (c : MCfg) (pc : Nat) (e : Elem) (as : Args) (h : resStmtArgs as = true) :
    decodeMotoDC c pc e as =
      some ⟨if pc % 2 == 1 && c.padding && decide (e.bytes ≠ 1) then some true else none,
            mkOut true ((e.bytes * cellCount as : Nat) : Int) [], []⟩ := by
  cases as with
  | nil => simp [resStmtArgs] at h
  | cons a as =>
    have hr : resArgs (.cons a as) = true := by simpa [resStmtArgs] using h
    unfold decodeMotoDC
    generalize (pc % 2 == 1 && c.padding && decide (e.bytes ≠ 1)) = p
    have hne : ¬ ((-1 : Int) = 0) := by omega
    cases a with
    | q =>
      have h' : resArgs as = true := by simpa [resArgs] using hr
      simp only [motoDCArgs, motoDCArg, cutRep, hne, if_false]
      rw [motoDC_res_loop c e as _ h' rfl (by cases p <;> simp [doPad])]
      cases p <;> simp [doPad, cellCount, writeBytes_nil, Nat.mul_add] <;> congr 1 <;> omega
    | rep n a =>
      cases a with
      | q =>
        have h' : 0 ≤ n ∧ resArgs as = true := by simpa [resArgs] using hr
        simp only [motoDCArgs, motoDCArg, cutRep, hne, if_false]
        rw [motoDC_res_loop c e as _ h'.2 rfl (by cases p <;> simp [doPad])]
        obtain ⟨k, rfl⟩ := Int.eq_ofNat_of_zero_le h'.1
        cases p <;> simp [doPad, cellCount, writeBytes_nil, Nat.mul_add, Nat.mul_comm]
      | _ => simp [resArgs] at hr
    | _ => simp [resArgs] at hr


/-! ## the manual's rule on the same operand lists -/

theorem spec_res (e : Elem) (big : Bool) : ∀ (as : Args), resArgs as = true →
    specArgs e big as = some (match as with | .nil => .empty | _ => .space (e.bytes * cellCount as))
  | .nil, _ => by simp [specArgs]
  | .cons .q as, h => by
    have h' : resArgs as = true := by simpa [resArgs] using h
    simp only [specArgs, specArg, spec_res e big as h']
    cases as <;> simp [Out.add, cellCount, Nat.mul_add]
  | .cons (.rep n .q) as, h => by
    have h' : 0 ≤ n ∧ resArgs as = true := by simpa [resArgs] using h
    simp only [specArgs, specArg, spec_res e big as h'.2, Option.map_some, Out.times]
    cases as <;> simp [Out.add, cellCount, Nat.mul_add, Nat.mul_comm]
  | .cons (.int _) _, h => by simp [resArgs] at h
  | .cons (.str _) _, h => by simp [resArgs] at h
  | .cons (.flt _) _, h => by simp [resArgs] at h
  | .cons (.dup _ _) _, h => by simp [resArgs] at h
  | .cons (.rep _ (.int _)) _, h => by simp [resArgs] at h
  | .cons (.rep _ (.str _)) _, h => by simp [resArgs] at h
  | .cons (.rep _ (.flt _)) _, h => by simp [resArgs] at h
  | .cons (.rep _ (.dup _ _)) _, h => by simp [resArgs] at h
  | .cons (.rep _ (.rep _ _)) _, h => by simp [resArgs] at h

theorem spec_res_stmt (e : Elem) (big : Bool) (as : Args) (h : resStmtArgs as = true) :
    specArgs e big as = some (.space (e.bytes * cellCount as)) := by
  cases as with
  | nil => simp [resStmtArgs] at h
  | cons a as => exact spec_res e big _ (by simpa [resStmtArgs] using h)

/-- address units an `Out` advances the program counter by -/
def outAdv : Out → Nat
  | .empty => 0
  | .space n => n
  | .data bs => bs.length

def outWrites : Out → Bool
  | .data _ => true
  | _ => false

theorem mkOut_space_adv (n : Nat) : outAdv (mkOut true (n : Int) []) = n ∧ outWrites (mkOut true (n : Int) []) = false := by
  unfold mkOut
  by_cases h : n = 0
  · subst h
    simp [outAdv, outWrites]
  · simp [h, outAdv, outWrites]


/-! ## the label memory of `Produce_Code` -/

theorem lookup_setSym (syms : List (Sym × Int)) (k : Sym) (v : Int) : lookup (setSym syms k v) k = some v := by
  induction syms with
  | nil => simp [setSym, lookup]
  | cons e t ih =>
    by_cases he : e.1 = k
    · simp [setSym, lookup, he]
    · by_cases ht : t.any (fun x => decide (x.1 = k)) = true
      · have ih' : lookup (t.map fun x => if x.1 = k then (k, v) else x) k = some v := by
          simpa [setSym, ht] using ih
        simp only [setSym, List.any_cons, he, decide_false, Bool.false_or, ht, if_true, List.map_cons, if_false]
        simpa [lookup, he] using ih'
      · have ht' : t.any (fun x => decide (x.1 = k)) = false := (Bool.not_eq_true _).mp ht
        have ih' : lookup (t ++ [(k, v)]) k = some v := by
          simpa [setSym, ht'] using ih
        simp only [setSym, List.any_cons, he, decide_false, Bool.false_or, ht', Bool.false_eq_true, if_false, List.cons_append]
        simpa [lookup, he] using ih'

/-- lines that neither define a label nor touch the label memory: empty lines and opening lines of constructs -/
def transparent (x : Line) : Prop := x.label = none ∧ (x.op = .blank ∨ x.op = .opener true)

theorem step_transparent (c : Cfg) (m : M) (x : Line) (h : transparent x) : step c m x = some m := by
  obtain ⟨hl, ho⟩ := h
  rcases ho with ho | ho <;> simp [AddrLabModel.step, hl, ho, decode, opEmpty, resetLast]

theorem run_transparent (c : Cfg) : ∀ (mid : List Line) (m : M) (rest : List Line) (i : Nat), (∀ x ∈ mid, transparent x) →
    run c m (mid ++ rest) i = run c m rest (i + mid.length)
  | [], m, rest, i, _ => by simp
  | x :: mid, m, rest, i, h => by
    have hx := step_transparent c m x (h x (by simp))
    simp only [List.cons_append, AddrLabModel.run, hx]
    rw [run_transparent c mid m rest (i + 1) (fun y hy => h y (by simp [hy]))]
    simp [Nat.add_assoc, Nat.add_comm 1]


/-- pad bytes `InsertPadding` puts in front of a word-sized object at the state `m` -/
def padOf (m : M) : Nat := if AddrLabModel.epc m % 2 == 1 && m.padding then 1 else 0

/-- the state after the opening line of a construct that carries the label `l` -/
def afterOpener (m : M) (l : Nat) : M :=
  { m with syms := setSym m.syms ⟨none, some l⟩ (AddrLabModel.epc m), last := some ⟨⟨none, some l⟩, false, AddrLabModel.epc m⟩ }

theorem step_opener (c : Cfg) (m : M) (src l : Nat) (hf : m.frame = none) :
    AddrLabModel.step c m ⟨src, some l, .opener true⟩ = some (afterOpener m l) := by
  simp [AddrLabModel.step, labelPresent, labelHandle, hf, decode, opEmpty, resetLast, afterOpener]

theorem toNat_succ (x : Int) (h : 0 ≤ x) : (x + 1).toNat = x.toNat + 1 := by omega

theorem writeCode_none (m : M) (hf : m.frame = none) (n : Nat) (bytes : List Byte) :
    writeCode m n bytes = { m with pc := m.pc + n, cells := m.cells ++ cellsAt m.pc.toNat bytes } := by
  simp [writeCode, hf]

/-- the state after `InsertPadding(1, False)` right behind the opening line: the pad byte is written, the label is moved -/
def afterPad (m : M) (l : Nat) : M :=
  { m with pc := m.pc + 1, cells := m.cells ++ cellsAt m.pc.toNat [0],
           syms := setSym (setSym m.syms ⟨none, some l⟩ (AddrLabModel.epc m)) ⟨none, some l⟩ (AddrLabModel.epc m + 1),
           last := some ⟨⟨none, some l⟩, false, AddrLabModel.epc m + 1⟩ }

theorem insertPadding_afterOpener (c : Cfg) (m : M) (l : Nat) (hf : m.frame = none) :
    insertPadding c (afterOpener m l) false = afterPad m l := by
  have hf' : (afterOpener m l).frame = none := hf
  have he : AddrLabModel.epc m = m.pc + m.ph := by simp [AddrLabModel.epc, hf]
  simp only [insertPadding, writeCode_none _ hf']
  have harith : m.pc + 1 + m.ph = m.pc + m.ph + 1 := by omega
  simp [labelModify, afterOpener, afterPad, AddrLabModel.epc, hf, harith]

/-- state after a word-sized object of bytes `bs` placed from state `x` (label memory cleared) -/
def afterObj (x : M) (bs : List Byte) : M :=
  { x with pc := x.pc + bs.length, cells := x.cells ++ cellsAt x.pc.toNat bs, last := none }

theorem step_obj_pad (c : Cfg) (m : M) (l : Nat) (ln : Line) (bs : List Byte)
    (hf : m.frame = none) (hop : ln.op = .obj bs) (hlab : ln.label = none)
    (hodd : AddrLabModel.epc m % 2 = 1) (hp : m.padding = true) :
    AddrLabModel.step c (afterOpener m l) ln = some (afterObj (afterPad m l) bs) := by
  have he : AddrLabModel.epc (afterOpener m l) = AddrLabModel.epc m := rfl
  have hf' : (afterOpener m l).frame = none := hf
  have hp' : (afterOpener m l).padding = true := hp
  have hfp : (afterPad m l).frame = none := hf
  simp only [AddrLabModel.step, hlab, hop, decode, hf', he, hodd, hp', insertPadding_afterOpener c m l hf,
    writeCode_none _ hfp, opEmpty, resetLast]
  simp [afterObj]

theorem step_obj_nopad (c : Cfg) (m : M) (l : Nat) (ln : Line) (bs : List Byte)
    (hf : m.frame = none) (hop : ln.op = .obj bs) (hlab : ln.label = none)
    (hno : ¬ (AddrLabModel.epc m % 2 = 1 ∧ m.padding = true)) :
    AddrLabModel.step c (afterOpener m l) ln = some (afterObj (afterOpener m l) bs) := by
  have he : AddrLabModel.epc (afterOpener m l) = AddrLabModel.epc m := rfl
  have hf' : (afterOpener m l).frame = none := hf
  have hp' : (afterOpener m l).padding = m.padding := rfl
  by_cases hodd : AddrLabModel.epc m % 2 = 1
  · have hp : m.padding = false := by
      cases h : m.padding
      · rfl
      · exact absurd ⟨hodd, h⟩ hno
    have hp'' : (afterOpener m l).padding = false := hp
    simp only [AddrLabModel.step, hlab, hop, decode, hf', he, hodd, hp'', writeCode_none _ hf', opEmpty, resetLast]
    simp [afterObj, hp'', hf']
  · simp only [AddrLabModel.step, hlab, hop, decode, hf', he, writeCode_none _ hf', opEmpty, resetLast]
    simp [afterObj, hodd, hf']


/-! ## the same lines when the opening line clears the label memory -/

/-- the state after an opening line that carries the label `l` and resets the label memory -/
def afterReset (m : M) (l : Nat) : M :=
  { m with syms := setSym m.syms ⟨none, some l⟩ (AddrLabModel.epc m), last := none }

theorem step_opener_failed (c : Cfg) (m : M) (src l : Nat) (hf : m.frame = none) :
    AddrLabModel.step c m ⟨src, some l, .opener false⟩ = some (afterReset m l) := by
  simp [AddrLabModel.step, labelPresent, labelHandle, hf, decode, opEmpty, resetLast, afterReset]

/-- `InsertPadding` with an empty label memory: the pad byte is written, no label moves -/
def afterPadReset (m : M) (l : Nat) : M :=
  { afterReset m l with pc := m.pc + 1, cells := m.cells ++ cellsAt m.pc.toNat [0] }

theorem insertPadding_afterReset (c : Cfg) (m : M) (l : Nat) (hf : m.frame = none) :
    insertPadding c (afterReset m l) false = afterPadReset m l := by
  have hf' : (afterReset m l).frame = none := hf
  simp only [insertPadding, writeCode_none _ hf']
  simp [labelModify, afterReset, afterPadReset]

theorem step_obj_reset (c : Cfg) (m : M) (l : Nat) (ln : Line) (bs : List Byte)
    (hf : m.frame = none) (hop : ln.op = .obj bs) (hlab : ln.label = none)
    (hodd : AddrLabModel.epc m % 2 = 1) (hp : m.padding = true) :
    AddrLabModel.step c (afterReset m l) ln = some (afterObj (afterPadReset m l) bs) := by
  have he : AddrLabModel.epc (afterReset m l) = AddrLabModel.epc m := rfl
  have hf' : (afterReset m l).frame = none := hf
  have hp' : (afterReset m l).padding = true := hp
  have hfp : (afterPadReset m l).frame = none := hf
  simp only [AddrLabModel.step, hlab, hop, decode, hf', he, hodd, hp', insertPadding_afterReset c m l hf,
    writeCode_none _ hfp, opEmpty, resetLast]
  simp [afterObj]


/-! ## the SPEC machine on the same scenario -/

/-- SPEC: pad bytes the manual demands in front of a word-sized object -/
def padOfS (s : S) : Nat := if AddrLab.isOdd (AddrLab.epc s) && s.padding then 1 else 0

/-- SPEC state after a line that only holds the label `l` -/
def afterLabelS (s : S) (l : Nat) : S :=
  { s with syms := define s.syms ⟨none, some l⟩ (some (AddrLab.epc s)), pending := some ⟨none, some l⟩,
           older := s.older ++ s.pending.toList }

theorem stepS_label (big : Bool) (s : S) (src l : Nat) (hf : s.frame = none) :
    AddrLab.step big s ⟨src, some l, .blank⟩ = .ok (afterLabelS s l) := by
  simp [AddrLab.step, symOf, hf, afterLabelS]

/-- SPEC: an empty line -/
def emptyLine (x : Line) : Prop := x.label = none ∧ x.op = .blank

theorem runS_empty (big : Bool) : ∀ (mid : List Line) (s : S) (rest : List Line) (i : Nat), (∀ x ∈ mid, emptyLine x) →
    AddrLab.run big s (mid ++ rest) i = AddrLab.run big s rest (i + mid.length)
  | [], s, rest, i, _ => by simp
  | x :: mid, s, rest, i, h => by
    obtain ⟨hl, ho⟩ := h x (by simp)
    have hx : AddrLab.step big s x = .ok s := by simp [AddrLab.step, hl, ho]
    simp only [List.cons_append, AddrLab.run, hx]
    rw [runS_empty big mid s rest (i + 1) (fun y hy => h y (by simp [hy]))]
    simp [Nat.add_assoc, Nat.add_comm 1]

/-- SPEC state after the word-sized object behind the label line: the label points behind the pad byte -/
def afterObjS (s : S) (l : Nat) (bs : List Byte) : S :=
  let a : Int := AddrLab.epc s + (padOfS s : Nat)
  { s with syms := if padOfS s != 0 then move (define s.syms ⟨none, some l⟩ (some (AddrLab.epc s))) ⟨none, some l⟩ (some a)
                   else define s.syms ⟨none, some l⟩ (some (AddrLab.epc s)),
           cells := s.cells ++ cellsAt s.pc.toNat (List.replicate (padOfS s) 0) ++ cellsAt (s.pc.toNat + padOfS s) bs,
           pending := none, older := [],
           movedBefore := if padOfS s != 0 then s.movedBefore ++ [⟨none, some l⟩] else s.movedBefore,
           pc := s.pc + (padOfS s : Nat) + (bs.length : Nat) }

theorem moveAll_nil (syms : List (Sym × Option Int)) (v : Option Int) : moveAll syms [] v = syms := by
  simp [moveAll]

theorem stepS_obj (big : Bool) (s : S) (l : Nat) (ln : Line) (bs : List Byte)
    (hf : s.frame = none) (hpend : s.pending = none) (hold : s.older = [])
    (hop : ln.op = .obj bs) (hlab : ln.label = none) (hbs : bs ≠ []) :
    AddrLab.step big (afterLabelS s l) ln = .ok (afterObjS s l bs) := by
  have he : AddrLab.epc (afterLabelS s l) = AddrLab.epc s := rfl
  have hne : bs.isEmpty = false := by cases bs <;> simp_all
  have hpad : (if AddrLab.isOdd (AddrLab.epc s) && (afterLabelS s l).padding then 1 else 0) = padOfS s := rfl
  simp only [AddrLab.step, hop, hne, Bool.false_eq_true, if_false, he, hpad]
  unfold place
  have hfr : (afterLabelS s l).frame = none := hf
  simp only [hfr, hlab, he]
  by_cases hp : padOfS s = 0
  · simp [hp, afterObjS, afterLabelS, hne, hpend, hold, hf]
  · have hp1 : padOfS s = 1 := by
      unfold padOfS at hp ⊢
      split <;> simp_all
    simp [hp1, afterObjS, afterLabelS, hne, hpend, hold, hf, moveAll_nil]

/-- the value the SPEC gives a symbol (`none`: not defined; `some none`: defined but not determined by the text) -/
def lookupS (syms : List (Sym × Option Int)) (k : Sym) : Option (Option Int) := (syms.find? (fun e => e.1 = k)).map (·.2)

theorem lookupS_define_fresh (syms : List (Sym × Option Int)) (k : Sym) (v : Option Int) (h : ∀ e ∈ syms, e.1 ≠ k) :
    lookupS (define syms k v) k = some v := by
  induction syms with
  | nil => simp [define, lookupS]
  | cons e t ih =>
    have he : e.1 ≠ k := h e (by simp)
    have := ih (fun x hx => h x (by simp [hx]))
    simpa [define, lookupS, he] using this

theorem lookupS_move_define_fresh (syms : List (Sym × Option Int)) (k : Sym) (v w : Option Int) (h : ∀ e ∈ syms, e.1 ≠ k) :
    lookupS (move (define syms k v) k w) k = some w := by
  induction syms with
  | nil => simp [define, move, lookupS]
  | cons e t ih =>
    have he : e.1 ≠ k := h e (by simp)
    have := ih (fun x hx => h x (by simp [hx]))
    simpa [define, move, lookupS, he] using this

end AslModel.AddrLabLemmas
