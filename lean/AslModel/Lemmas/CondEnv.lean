import AslModel.Lemmas.Cond
import AslModel.Model.CondEnv
/-! Helper lemmas for Props/C12_Env.lean: the symbol table of Model/CondEnv.lean mirrors the events of the running pass. -/
namespace AslModel.CondEnv
open AslModel.Cond AslModel.CtxSpec

variable {cfg : Cfg}

/-- the table agrees with the events of the running pass (`t0`: the table the pass started from, before the reset) -/
structure TabInv (t0 : Tab) (tab : Tab) (out : List Ev) : Prop where
  has : ∀ s, tab.has s = true ↔ (t0.has s = true ∨ Ev.define s ∈ out)
  defined : ∀ s, tab.defined s = true ↔ Ev.define s ∈ out
  used : ∀ s, t0.has s = true → (tab.used s = true ↔ Ev.use s ∈ out)

theorem inv_init (t0 : Tab) : TabInv t0 (resetSymbolDefines t0) [] :=
  ⟨by intro s; simp [resetSymbolDefines], by intro s; simp [resetSymbolDefines], by intro s _; simp [resetSymbolDefines]⟩

theorem inv_ev {t0 tab : Tab} {out : List Ev} (h : TabInv t0 tab out) (ev : Ev) : TabInv t0 (applyEv tab ev) (ev :: out) := by
  cases ev with
  | code b =>
    exact ⟨by intro s; simp [applyEv, h.has s], by intro s; simp [applyEv, h.defined s], by intro s hs; simp [applyEv, h.used s hs]⟩
  | effect b =>
    exact ⟨by intro s; simp [applyEv, h.has s], by intro s; simp [applyEv, h.defined s], by intro s hs; simp [applyEv, h.used s hs]⟩
  | define x =>
    by_cases hx : tab.has x = true
    · refine ⟨?_, ?_, ?_⟩
      · intro s
        by_cases hsx : s = x
        · subst hsx; simp [applyEv, enterSym, hx]
        · simp [applyEv, enterSym, hx, h.has s, hsx]
      · intro s
        by_cases hsx : s = x
        · subst hsx; simp [applyEv, enterSym, hx]
        · simp [applyEv, enterSym, hx, h.defined s, hsx]
      · intro s hs
        simp [applyEv, enterSym, hx, h.used s hs]
    · refine ⟨?_, ?_, ?_⟩
      · intro s
        by_cases hsx : s = x
        · subst hsx; simp [applyEv, enterSym, hx]
        · simp [applyEv, enterSym, hx, h.has s, hsx]
      · intro s
        by_cases hsx : s = x
        · subst hsx; simp [applyEv, enterSym, hx]
        · simp [applyEv, enterSym, hx, h.defined s, hsx]
      · intro s hs
        have hsx : s ≠ x := by
          intro e; subst e
          exact hx ((h.has s).2 (Or.inl hs))
        simp [applyEv, enterSym, hx, h.used s hs, hsx]
  | use x =>
    by_cases hx : tab.has x = true
    · refine ⟨?_, ?_, ?_⟩
      · intro s; simp [applyEv, lookupSym, hx, h.has s]
      · intro s; simp [applyEv, lookupSym, hx, h.defined s]
      · intro s hs
        by_cases hsx : s = x
        · subst hsx; simp [applyEv, lookupSym, hx]
        · simp [applyEv, lookupSym, hx, h.used s hs, hsx]
    · refine ⟨?_, ?_, ?_⟩
      · intro s; simp [applyEv, lookupSym, hx, h.has s]
      · intro s; simp [applyEv, lookupSym, hx, h.defined s]
      · intro s hs
        have hsx : s ≠ x := by
          intro e; subst e
          exact hx ((h.has s).2 (Or.inl hs))
        simp [applyEv, lookupSym, hx, h.used s hs, hsx]

theorem inv_evs {t0 : Tab} (evs : List Ev) : ∀ {tab : Tab} {out : List Ev}, TabInv t0 tab out →
    TabInv t0 (evs.foldl applyEv tab) (evs.reverse ++ out) := by
  induction evs with
  | nil => intro tab out h; simpa using h
  | cons e r ih =>
    intro tab out h
    have := ih (inv_ev h e)
    simpa [List.reverse_cons, List.append_assoc] using this

/-- what a line adds to the events of the pass -/
theorem step_out (m : M) (s : Stmt) : (step cfg m s).out = (lineEvs m s).reverse ++ m.out := by
  by_cases hc : m.crashed = true
  · have : step cfg m s = m := step_crashed m s hc
    rw [this]
    cases s <;> simp [lineEvs, hc]
  · have hc' : m.crashed = false := by simpa using hc
    cases s with
    | leaf l =>
      rw [step_leaf m hc' l]
      by_cases h : m.ifAsm = true
      · simp [lineEvs, h, hc', Leaf.evs, leafEvs]
      · simp [lineEvs, h]
    | iff a c =>
      simp only [step, hc', lineEvs, List.reverse_nil, List.nil_append, Bool.false_eq_true, ↓reduceIte, codeIF]
      repeat' split
      all_goals simp [pushIF, M.err]
    | elseif a c =>
      simp only [step, hc', lineEvs, List.reverse_nil, List.nil_append, Bool.false_eq_true, ↓reduceIte, codeELSEIF]
      repeat' split
      all_goals simp [M.err]
    | endif a =>
      simp only [step, hc', lineEvs, List.reverse_nil, List.nil_append, Bool.false_eq_true, ↓reduceIte, codeENDIF]
      repeat' split
      all_goals simp [M.err]
    | switch a v =>
      simp only [step, hc', lineEvs, List.reverse_nil, List.nil_append, Bool.false_eq_true, ↓reduceIte, codeSWITCH]
      repeat' split
      all_goals simp [M.err]
    | case vs =>
      simp only [step, hc', lineEvs, List.reverse_nil, List.nil_append, Bool.false_eq_true, ↓reduceIte, codeCASE]
      repeat' split
      all_goals simp [M.err]
    | elsecase a =>
      simp only [step, hc', lineEvs, List.reverse_nil, List.nil_append, Bool.false_eq_true, ↓reduceIte, codeELSECASE]
      repeat' split
      all_goals simp [M.err]
    | endcase a =>
      simp only [step, hc', lineEvs, List.reverse_nil, List.nil_append, Bool.false_eq_true, ↓reduceIte, codeENDCASE]
      repeat' split
      all_goals simp [M.err]

/-- one line keeps the table in step with the events -/
theorem inv_stepE {ec : EnvCfg} {fs : FS} {t0 : Tab} {e : ES} (h : TabInv t0 e.tab e.m.out) (l : ELine) :
    TabInv t0 (stepE cfg ec fs e l).tab (stepE cfg ec fs e l).m.out := by
  simp only [stepE, step_out]
  exact inv_evs _ h

theorem inv_runE {ec : EnvCfg} {fs : FS} {t0 : Tab} (ls : List ELine) : ∀ {e : ES}, TabInv t0 e.tab e.m.out →
    TabInv t0 (runE cfg ec fs e ls).tab (runE cfg ec fs e ls).m.out := by
  induction ls with
  | nil => intro e h; exact h
  | cons l r ih => intro e h; exact ih (inv_stepE h l)

theorem mem_defs (m : M) (s : Nat) : s ∈ m.defs ↔ Ev.define s ∈ m.out := by
  simp only [M.defs, List.mem_filterMap, List.mem_reverse]
  constructor
  · rintro ⟨ev, hm, he⟩
    cases ev <;> simp [Ev.define?] at he
    subst he; exact hm
  · intro h; exact ⟨_, h, rfl⟩

theorem mem_uses (m : M) (s : Nat) : s ∈ m.uses ↔ Ev.use s ∈ m.out := by
  simp only [M.uses, List.mem_filterMap, List.mem_reverse]
  constructor
  · rintro ⟨ev, hm, he⟩
    cases ev <;> simp [Ev.use?] at he
    subst he; exact hm
  · intro h; exact ⟨_, h, rfl⟩

/-- the machine goes through the statements `seenAll` lists -/
theorem runE_m {ec : EnvCfg} {fs : FS} (ls : List ELine) : ∀ (e : ES),
    (runE cfg ec fs e ls).m = run cfg e.m (seenAll cfg ec fs e ls) := by
  induction ls with
  | nil => intro e; rfl
  | cons l r ih =>
    intro e
    show (runE cfg ec fs (stepE cfg ec fs e l) r).m = _
    rw [ih, seenAll, run_cons]
    rfl

theorem isSome_find? {α} (p : α → Bool) (l : List α) : (l.find? p).isSome = l.any p := by
  induction l with
  | nil => rfl
  | cons a r ih => by_cases h : p a = true <;> simp [List.find?, h, ih]

theorem mem_filterMap_define (l : List Ev) (s : Nat) : s ∈ l.filterMap Ev.define? ↔ Ev.define s ∈ l := by
  simp only [List.mem_filterMap]
  constructor
  · rintro ⟨ev, hm, he⟩
    cases ev <;> simp [Ev.define?] at he
    subst he; exact hm
  · intro h; exact ⟨_, h, rfl⟩

theorem mem_filterMap_use (l : List Ev) (s : Nat) : s ∈ l.filterMap Ev.use? ↔ Ev.use s ∈ l := by
  simp only [List.mem_filterMap]
  constructor
  · rintro ⟨ev, hm, he⟩
    cases ev <;> simp [Ev.use?] at he
    subst he; exact hm
  · intro h; exact ⟨_, h, rfl⟩

/-- closing what is open emits nothing -/
theorem run_closers_out (st : List Open) : ∀ m : M, (run cfg m (closers st)).out = m.out := by
  induction st with
  | nil => intro m; rfl
  | cons o r ih =>
    intro m
    show (run cfg m (closer o :: closers r)).out = m.out
    rw [run_cons, ih, step_out]
    cases o <;> simp [closer, lineEvs]

/-- the events of a pass over the beginning `pre` of a skeleton text are those of the leaves the SPEC calls assembled -/
theorem out_of_assembledBefore (h1 : cfg.ifbStride = 1) {pre : List Stmt} {lv : List Leaf} (h : AssembledBefore pre lv) :
    (run cfg init pre).out.reverse = evs lv := by
  obtain ⟨st, b, _, hfl, hlv⟩ := h
  have hs := (select_out (cfg := cfg) b (faithfulB_stride1 cfg h1 b)).2.1
  rw [hfl, run_append, run_closers_out] at hs
  rw [hs, hlv]

/-- the truth value the table delivers is the documented one -/
theorem symRaw_eq_symTruth (h1 : cfg.ifbStride = 1) {t0 : Tab} {e : ES} {pre : List Stmt} {lv : List Leaf} (hm : e.m = run cfg init pre)
    (hi : TabInv t0 e.tab e.m.out) (h : AssembledBefore pre lv) (t : SymTest) (s : Nat) (hk : t = .used → t0.has s = true) :
    symRaw e.tab t s = symTruth t lv s := by
  have ho := out_of_assembledBefore (cfg := cfg) h1 h
  rw [← hm] at ho
  cases t with
  | exist => rfl
  | defined =>
    rw [Bool.eq_iff_iff]
    simp only [symRaw, symTruth, isSymbolDefined, Bool.and_eq_true, List.contains_iff_mem, hi.has, hi.defined]
    rw [← evs_define, mem_filterMap_define, ← ho, List.mem_reverse]
    constructor
    · exact fun h => h.2
    · exact fun h => ⟨Or.inr h, h⟩
  | used =>
    have hs := hk rfl
    rw [Bool.eq_iff_iff]
    simp only [symRaw, symTruth, isSymbolUsed, Bool.and_eq_true, List.contains_iff_mem, hi.has, hi.used s hs]
    rw [← evs_use, mem_filterMap_use, ← ho, List.mem_reverse]
    constructor
    · exact fun h => h.2
    · exact fun h => ⟨Or.inl hs, h⟩

/-- the statements the model goes through are the text with the documented truth values -/
theorem seenAll_eq_resolve (h1 : cfg.ifbStride = 1) {ec : EnvCfg} {fs : FS} {t0 : Tab} {asm : List Stmt → Option (List Leaf)}
    (hs : SoundAsm asm) (rs : List Stmt) (ls : List ELine) : ∀ (acc : List Stmt) (e : ES), e.m = run cfg init acc → TabInv t0 e.tab e.m.out →
    (∀ neg s, ELine.ifsym .used neg s ∈ ls → t0.has s = true) →
    (∀ neg file f, ELine.ifexist neg file f ∈ ls → existFound ec fs file f = fileTruth fs file f) →
    resolveText fs asm acc ls = some rs → acc ++ seenAll cfg ec fs e ls = rs := by
  induction ls with
  | nil => intro acc e _ _ _ _ hr; simpa [resolveText, seenAll] using hr
  | cons l r ih =>
    intro acc e hm hi hk hx hr
    have next : ∀ (st : Stmt), seen ec fs e l = st → resolveText fs asm (acc ++ [st]) r = some rs →
        acc ++ seenAll cfg ec fs e (l :: r) = rs := by
      intro st hst hr'
      have hm' : (stepE cfg ec fs e l).m = run cfg init (acc ++ [st]) := by
        rw [run_append, ← hm]; simp [stepE, hst, run]
      have := ih (acc ++ [st]) (stepE cfg ec fs e l) hm' (inv_stepE hi l)
        (fun neg s h => hk neg s (List.mem_cons_of_mem _ h)) (fun neg file f h => hx neg file f (List.mem_cons_of_mem _ h)) hr'
      rw [seenAll, hst]
      simpa [List.append_assoc] using this
    cases l with
    | plain s => exact next s rfl (by simpa [resolveText] using hr)
    | ifsym t neg s =>
      simp only [resolveText] at hr
      cases ha : asm acc with
      | none => rw [ha] at hr; cases hr
      | some lv =>
        rw [ha] at hr
        have hraw := symRaw_eq_symTruth (cfg := cfg) h1 hm hi (hs acc lv ha) t s
          (fun ht => hk neg s (by subst ht; exact List.mem_cons_self ..))
        exact next _ (by simp [seen, hraw]) hr
    | ifexist neg file f =>
      simp only [resolveText] at hr
      exact next _ (by simp [seen, hx neg file f (List.mem_cons_self ..)]) hr

end AslModel.CondEnv
