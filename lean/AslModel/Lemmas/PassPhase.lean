import AslModel.Model.PassPhase
/-! Helper lemmas for the multipass model with PHASE blocks (`Model/PassPhase.lean`). -/
namespace AslModel.PassPhase

@[simp] theorem tick_tab (s : PS) : (tick s).tab = s.tab := by unfold tick; split <;> rfl
@[simp] theorem tick_out (s : PS) : (tick s).out = s.out := by unfold tick; split <;> rfl
@[simp] theorem tick_repass (s : PS) : (tick s).repass = s.repass := by unfold tick; split <;> rfl
@[simp] theorem tick_pc (s : PS) : (tick s).pc = s.pc := by unfold tick; split <;> rfl
@[simp] theorem tick_off (s : PS) : (tick s).off = s.off := by unfold tick; split <;> rfl
@[simp] theorem tick_stk (s : PS) : (tick s).stk = s.stk := by unfold tick; split <;> rfl
@[simp] theorem tick_epc (s : PS) : (tick s).epc = s.epc := by simp [PS.epc]

theorem exec_repass_mono (s : PS) (st : Stmt) (h : s.repass = true) : (exec s st).repass = true := by
  cases st with
  | label n => simp [exec, h]
  | ref n size bsr => simp only [exec]; split <;> simp [h]
  | skip k => simp [exec, h]
  | phase a => simp [exec, h]
  | dephase => simp only [exec]; split <;> simp [h]

theorem step_repass_mono (s : PS) (st : Stmt) (h : s.repass = true) : (step s st).repass = true :=
  exec_repass_mono (tick s) st (by simpa using h)

theorem run_repass_mono (p : List Stmt) (s : PS) (h : s.repass = true) : (run s p).repass = true := by
  induction p generalizing s with
  | nil => simpa [run]
  | cons st p ih => exact ih _ (step_repass_mono s st h)

/-- while no repass has been requested, every recorded reference holds the value the table has for its symbol -/
def Agree (s : PS) : Prop := s.repass = false → ∀ r ∈ s.out, ∃ fl, s.tab r.sym = some (r.val, fl)

theorem exec_agree (s : PS) (st : Stmt) (h : Agree s) : Agree (exec s st) := by
  intro hr r hm
  have hs : s.repass = false := by
    cases hsr : s.repass with
    | false => rfl
    | true => have := exec_repass_mono s st hsr; rw [this] at hr; cases hr
  cases st with
  | skip k => exact h hs r (by simpa [exec] using hm)
  | phase a => exact h hs r (by simpa [exec] using hm)
  | dephase =>
    simp only [exec] at hm ⊢
    split at hm <;> exact h hs r hm
  | label m =>
    simp only [exec] at hr hm ⊢
    obtain ⟨fl, hold⟩ := h hs r hm
    by_cases hnm : r.sym = m
    · rw [hnm] at hold
      rw [hold] at hr
      simp [hs] at hr
      exact ⟨r.val == s.after, by simp [upd, hnm, hr]⟩
    · exact ⟨fl, by simp [upd, hnm, hold]⟩
  | ref m size bsr =>
    simp only [exec] at hr hm ⊢
    split at hr <;> rename_i htab
    · split at hm <;> rename_i htab'
      · rw [htab] at htab'; cases htab'
        simp only [List.mem_append, List.mem_singleton] at hm
        rcases hm with hm | rfl
        · exact h hs r hm
        · exact ⟨_, htab⟩
      · rw [htab] at htab'; cases htab'
    · cases hr

theorem tick_agree (s : PS) (h : Agree s) : Agree (tick s) := by
  intro hr r hm
  simp only [tick_repass, tick_out, tick_tab] at hr hm ⊢
  exact h hr r hm

theorem step_agree (s : PS) (st : Stmt) (h : Agree s) : Agree (step s st) :=
  exec_agree (tick s) st (tick_agree s h)

theorem run_agree (p : List Stmt) (s : PS) (h : Agree s) : Agree (run s p) := by
  induction p generalizing s with
  | nil => simpa [run]
  | cons st p ih => exact ih _ (step_agree s st h)

/-- label values are phased addresses: what a `label` statement stores is `EProgCounter()` -/
theorem exec_label_value (s : PS) (n : Sym) :
    ∃ fl, (exec s (.label n)).tab n = some ((s.pc : Int) + s.off, fl) :=
  ⟨(s.pc : Int) + s.off == s.after, by simp [exec, upd, PS.epc]⟩

/-- the pass loop only ever returns the state of a pass that ended without Repass -/
theorem phase_assemble_some (p : List Stmt) (base fuel : Nat) (T : Tab) (k n : Nat) (s : PS)
    (h : assemble p base fuel T k = some (n, s)) : ∃ T', s = pass T' base p ∧ s.repass = false ∧ k < n := by
  induction fuel generalizing T k with
  | zero => simp [assemble] at h
  | succ f ih =>
    simp only [assemble] at h
    split at h
    · obtain ⟨T', h1, h2, h3⟩ := ih _ _ h
      exact ⟨T', h1, h2, by omega⟩
    · rename_i hr
      simp only [Option.some.injEq, Prod.mk.injEq] at h
      obtain ⟨rfl, rfl⟩ := h
      exact ⟨T, rfl, by simpa using hr, by omega⟩

/-- `phase a / bsr next / next: <2 bytes> / dephase` – the BSR to the label directly behind it, inside a PHASE block -/
def bsrNext (a : Int) : List Stmt := [.phase a, .ref 1 sizeBsr true, .label 1, .skip 2, .dephase]

theorem bsrNext_pass1 (base : Nat) (a : Int) :
    pass emptyTab base (bsrNext a) =
      { pc := base + 4, off := 0, stk := [], after := 0, tab := upd emptyTab 1 (a + 2, true), repass := true,
        out := [⟨base, a, 1, a, 2⟩] } := by
  simp +arith [pass, run, bsrNext, step, exec, tick, emptyTab, PS.epc, sizeBsr, isDisp8]

theorem bsrNext_pass2 (base : Nat) (a : Int) :
    pass (upd emptyTab 1 (a + 2, true)) base (bsrNext a) =
      { pc := base + 6, off := 0, stk := [], after := 0, tab := upd (upd emptyTab 1 (a + 2, true)) 1 (a + 4, true),
        repass := true, out := [⟨base, a, 1, a + 2, 4⟩] } := by
  simp +arith [pass, run, bsrNext, step, exec, tick, PS.epc, sizeBsr, isDisp8, upd]

theorem bsrNext_pass3 (base : Nat) (a : Int) (T : Tab) (hT : T 1 = some (a + 4, true)) :
    pass T base (bsrNext a) =
      { pc := base + 6, off := 0, stk := [], after := 0, tab := upd T 1 (a + 4, true),
        repass := false, out := [⟨base, a, 1, a + 4, 4⟩] } := by
  simp +arith [pass, run, bsrNext, step, exec, tick, PS.epc, sizeBsr, isDisp8, hT]

/-- `bsr l3 / l2: bsr l2 / l3: <2 bytes>` – the first BSR's target stands directly behind ANOTHER BSR -/
def bsrCycle : List Stmt := [.ref 3 sizeBsr true, .label 2, .ref 2 sizeBsr true, .label 3, .skip 2]

/-- the two symbol tables the pass loop alternates between on `bsrCycle` -/
def Cyc (base : Nat) (T : Tab) : Prop :=
  (T 2 = some ((base : Int) + 4, true) ∧ T 3 = some ((base : Int) + 6, true)) ∨
  (T 2 = some ((base : Int) + 2, true) ∧ T 3 = some ((base : Int) + 4, true))

theorem bsrCycle_first (base : Nat) :
    (pass emptyTab base bsrCycle).repass = true ∧ Cyc base (pass emptyTab base bsrCycle).tab := by
  refine ⟨?_, Or.inr ?_⟩ <;>
    simp +arith [pass, run, bsrCycle, step, exec, tick, emptyTab, PS.epc, sizeBsr, isDisp8, upd]

theorem bsrCycle_pass (base : Nat) (T : Tab) (h : Cyc base T) :
    (pass T base bsrCycle).repass = true ∧ Cyc base (pass T base bsrCycle).tab := by
  rcases h with ⟨h2, h3⟩ | ⟨h2, h3⟩
  · refine ⟨?_, Or.inr ?_⟩ <;>
      simp +arith [pass, run, bsrCycle, step, exec, tick, PS.epc, sizeBsr, isDisp8, upd, h2, h3]
  · refine ⟨?_, Or.inl ?_⟩ <;>
      simp +arith [pass, run, bsrCycle, step, exec, tick, PS.epc, sizeBsr, isDisp8, upd, h2, h3]

theorem bsrCycle_never (base fuel : Nat) (T : Tab) (k : Nat) (h : Cyc base T) :
    assemble bsrCycle base fuel T k = none := by
  induction fuel generalizing T k with
  | zero => rfl
  | succ f ih =>
    have hp := bsrCycle_pass base T h
    simp only [assemble, hp.1, if_true]
    exact ih _ _ hp.2

end AslModel.PassPhase
