import AslModel.Spec.PFile
/-!
# SPEC of the `-f` / `+f` options of BIND, P2BIN, P2HEX (doc/utility-programs.md, BIND)

"`f <Header[,Header]>`: sets a list of record headers that should be copied.  Records with other header
IDs will not be copied.  Without such an option, all records will be copied."  Options given with `+`
instead of `-` are negated (doc/assembler-usage.md); a negated `f` takes the listed headers out again.
Options of the environment variable come before those of the command line.

The options denote a SET of header ids: an id is in the set iff it was named by a `-f` and not named
by a `+f` afterwards.  With an empty set nothing is filtered.  Nothing here knows about arrays.
-/
namespace AslModel.PFile

/-- the option sequence as events, in processing order: (negated?, id) -/
def filterEvents (ops : List (Bool × List Nat)) : List (Bool × Nat) :=
  (ops.map (fun o => o.2.map (fun v => (o.1, v)))).flatten

/-- `x` was added by some `-f` and not removed by a `+f` afterwards -/
def InSet {α : Type} (evs : List (Bool × α)) (x : α) : Prop :=
  ∃ pre post, evs = pre ++ (false, x) :: post ∧ (true, x) ∉ post

/-- executable form: the last event that names `x` decides (`cur` = membership before the events) -/
def inSetFrom {α : Type} [DecidableEq α] (cur : Bool) : List (Bool × α) → α → Bool
  | [], _ => cur
  | (neg, v) :: rest, x => inSetFrom (if v = x then !neg else cur) rest x

def inSet {α : Type} [DecidableEq α] (evs : List (Bool × α)) (x : α) : Bool := inSetFrom false evs x

/-- the set is not empty (only a named id can be a member) -/
def setNonEmpty {α : Type} [DecidableEq α] (evs : List (Bool × α)) : Bool := evs.any (fun e => inSet evs e.2)

/-- what BIND has to keep under an option sequence: every entry record; every data record if the set is
empty, else the data records whose header id is in the set -/
def keepByOptions (evs : List (Bool × Nat)) : Item → Bool
  | .data r => if setNonEmpty evs then inSet evs r.cpu.toNat else true
  | .entry _ => true

end AslModel.PFile
