import AslModel.Spec.MacroSubst
/-! SPEC for C11, argument collection: what happens to the TEXT of an argument before it is inserted.

Written from the manual, not from the C code:
* doc/pseudo-instructions.md, MACRO: "the assembler converts all parameter names to upper case when operating in
  case-insensitive mode, but this conversion never takes place inside of string constants";
* doc/assembler-usage.md, "String Constants": constants are enclosed in single or double quotation marks; inside a
  constant a backslash and the character after it form an escape (`\\` is a backslash, `\'` / `\"` are quotation
  marks that do not end the constant);
* IRPC: "no automatic conversion to uppercase characters is done";
* default values are part of the macro DEFINITION (they are written once, in the header), not arguments of a call.

`marks` cuts an argument text into characters that belong to a quoted constant (delimiters included) and characters
outside; `foldArg` upper-cases exactly the characters outside (case-insensitive mode only).  `foldProg` applies it to
every argument of a construct tree according to the construct kind; the hand expansion of a program in
case-insensitive mode is `expand false (foldProg false prog)`. Core only. -/
namespace AslModel.ArgFold
open AslModel.MacroSpec

/-- where the scan is: outside every constant, inside '...', inside "..." -/
inductive Mode where
  | out | chr | str
  deriving DecidableEq, Repr

structure St where
  mode : Mode
  esc : Bool        -- inside a constant, the previous character was a backslash that starts an escape
  deriving DecidableEq, Repr

def St.init : St := ⟨.out, false⟩

/-- one character: the next state and whether the character belongs to a quoted constant -/
def step (st : St) (c : Ch) : St × Bool :=
  match st.mode with
  | .out =>
    if c = 39 then (⟨.chr, false⟩, true)
    else if c = 34 then (⟨.str, false⟩, true)
    else (⟨.out, false⟩, false)
  | .chr =>
    if st.esc then (⟨.chr, false⟩, true)
    else if c = 92 then (⟨.chr, true⟩, true)
    else if c = 39 then (⟨.out, false⟩, true)
    else (⟨.chr, false⟩, true)
  | .str =>
    if st.esc then (⟨.str, false⟩, true)
    else if c = 92 then (⟨.str, true⟩, true)
    else if c = 34 then (⟨.out, false⟩, true)
    else (⟨.str, false⟩, true)

/-- every character with the flag "belongs to a quoted constant" -/
def marksFrom : St → Line → List (Ch × Bool)
  | _, [] => []
  | st, c :: rest => (c, (step st c).2) :: marksFrom (step st c).1 rest

def marks (s : Line) : List (Ch × Bool) := marksFrom St.init s

def foldMarked (cp : Ch × Bool) : Ch := if cp.2 then cp.1 else upc cp.1

/-- the argument text as it is inserted: upper case outside quoted constants unless case sensitive -/
def foldArg (cs : Bool) (s : Line) : Line := if cs then s else (marks s).map foldMarked

/-! the texts the theorems about the C code need a hypothesis for: a backslash outside a quoted constant, and an
escaped backslash (`\\`) inside one.  `tame` is decidable and evaluated by the driver on every generated text. -/
def tameFrom : St → Line → Bool
  | _, [] => true
  | st, c :: rest =>
    (if c = 92 then (st.mode != .out && !st.esc) else true) && tameFrom (step st c).1 rest

def tame (s : Line) : Bool := tameFrom St.init s

/-! ## which texts of which construct are arguments -/

def foldCallArg (cs : Bool) (a : CallArg) : CallArg :=
  { key := a.key.map (foldArg cs), val := foldArg cs a.val }

mutual
/-- MACRO call: every argument as written (keyword part included); IRP / IRPN: the iteration arguments; IRPC: nothing
    ("no automatic conversion"); default values, parameter names, label lists and body lines: nothing -/
def foldItem (f : Line → Line) : Item → Item
  | .line l => .line l
  | .exitm => .exitm
  | .rept id n locals body => .rept id n locals (foldBody f body)
  | .irp id var args locals body => .irp id var (args.map f) locals (foldBody f body)
  | .irpn id vars args locals body => .irpn id vars (args.map f) locals (foldBody f body)
  | .irpc id var chars locals body => .irpc id var chars locals (foldBody f body)
  | .call id params defaults locals body args =>
    .call id params defaults locals (foldBody f body)
      (args.map fun a => { key := a.key.map f, val := f a.val })
def foldBody (f : Line → Line) : Body → Body
  | .nil => .nil
  | .cons i rest => .cons (foldItem f i) (foldBody f rest)
end

def foldProg (cs : Bool) (prog : Body) : Body := foldBody (foldArg cs) prog

def tameCallArg (a : CallArg) : Bool := (a.key.map tame).getD true && tame a.val

mutual
/-- every argument text of the tree is `tame` -/
def tameItem : Item → Bool
  | .line _ => true
  | .exitm => true
  | .rept _ _ _ body => tameBody body
  | .irp _ _ args _ body => args.all tame && tameBody body
  | .irpn _ _ args _ body => args.all tame && tameBody body
  | .irpc _ _ _ _ body => tameBody body
  | .call _ _ _ _ body args => args.all tameCallArg && tameBody body
def tameBody : Body → Bool
  | .nil => true
  | .cons i rest => tameItem i && tameBody rest
end

/-- the hand expansion with the argument texts as they are inserted -/
def expandFolded (cs : Bool) (prog : Body) : List Line := expand cs (foldProg cs prog)

end AslModel.ArgFold
