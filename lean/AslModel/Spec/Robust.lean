import AslModel.Spec.PFile
/-!
# Robustness — SPEC (C03)

Written from the manual, not from the C code:

* `doc/utility-programs.md`: the utilities end with return code 0 (no errors), 1 (error in command
  line parameters), 2 (I/O error), 3 (file format error).
* `doc/assembler-usage.md`: the assembler ends with 0, 1, 2 (errors, no code file), 3 (fatal error),
  4 (error while starting); 255 is an internal error "that should not occur in any case".
* `doc/file-formats.md`: a code file is well formed when the format reader `PFile.parseFile` accepts it.

An observed outcome is an exit status, a terminating signal, a time-out or a sanitizer report; only the
first can be documented.
-/
namespace AslModel.Robust
open AslModel.PFile

inductive Outcome where
  | exit (status : Nat)
  | signal (n : Nat)
  | timeout
  | sanitizer
deriving DecidableEq, Repr

def toolStatuses : List Nat := [0, 1, 2, 3]
def aslStatuses : List Nat := [0, 1, 2, 3, 4]

def documented (allowed : List Nat) : Outcome → Bool
  | .exit s => allowed.contains s
  | _ => false

/-- a code file is well formed when the reader written from the format description accepts it -/
def WellFormed (bs : List Byte) : Prop := (parseFile bs).isSome

instance (bs : List Byte) : Decidable (WellFormed bs) := by unfold WellFormed; infer_instance

/-- statuses the property allows for a utility that is given the code file `bs` and otherwise correct
parameters: a well-formed file is processed (0; `lenient` adds 3 where the tool may still refuse,
e.g. a granularity of 0 it cannot divide by); anything else is refused with I/O error or format error -/
def allowedFor (bs : List Byte) (lenient : Bool) : List Nat :=
  if WellFormed bs then (if lenient then [0, 3] else [0]) else [2, 3]

end AslModel.Robust
