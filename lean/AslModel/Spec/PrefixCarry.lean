/-! SPEC (C16): a directive statement that acts on "the instruction following directly" – Z380 `DDIR`

doc/assembler-usage.md, "Format of the Input Files": "AS expects exactly one instruction per line (blank lines are
naturally allowed as well)"; "the whole line can consist of comment".  A blank line, a comment-only line and a line that
only carries a label contain no instruction, so the *statements* of a program are its lines with a mnemonic, and the
code of a program is a function of its statements.

doc/processor-specific-hints.md, "Z380": "AS will note the occurrence of such instructions [`DDIR`] and will toggle
setting for the instruction following directly. [...] AS will introduce [`IB`/`IW`] automatically when an operand is
discovered that is too long [...] the necessary `IW` prefix will automatically be merged into the previous instruction".

Decoder directive opcodes (Zilog Z380 user's manual, DDIR):
   W DD C0 | IB,W DD C1 | IW,W DD C2 | IB DD C3 | LW FD C0 | IB,LW FD C1 | IW,LW FD C2 | IW FD C3

The fragment described here: `DDIR <modes>` and `JP [cc,]nn` with a constant address in extended mode (EXTMODE ON),
the instruction whose address field grows with the immediate part of the directive. -/
namespace AslModel.PrefixSpec

inductive Mode where
  | W | LW | IB | IW
  deriving DecidableEq, Repr

/-- one source line as far as this fragment is concerned -/
inductive Stmt where
  | empty                                   -- blank line, comment-only line, label-only line: no instruction
  | ddir (mods : List Mode)                 -- `DDIR m[,m]`
  | jp (cond : Option Nat) (addr : Nat)     -- `JP [cc,]addr`; cc = 0..7 (NZ Z NC C PO PE P M)
  deriving DecidableEq, Repr

def Stmt.isEmpty : Stmt → Bool
  | .empty => true
  | _ => false

inductive SPart where
  | none | w | lw
  deriving DecidableEq, Repr

inductive IPart where
  | none | ib | iw
  deriving DecidableEq, Repr

/-- a decoder directive: word-size part and immediate-size part -/
structure Dir where
  s : SPart
  i : IPart
  deriving DecidableEq, Repr

def Dir.nothing : Dir := ⟨.none, .none⟩

def Dir.add (d : Dir) : Mode → Dir
  | .W => { d with s := .w }
  | .LW => { d with s := .lw }
  | .IB => { d with i := .ib }
  | .IW => { d with i := .iw }

/-- the directive a `DDIR` statement names -/
def dirOf (mods : List Mode) : Dir := mods.foldl Dir.add Dir.nothing

/-- opcode table of the decoder directives (no directive: no bytes) -/
def dirCode : Dir → List UInt8
  | ⟨.none, .none⟩ => []
  | ⟨.w, .none⟩ => [0xdd, 0xc0]
  | ⟨.w, .ib⟩ => [0xdd, 0xc1]
  | ⟨.w, .iw⟩ => [0xdd, 0xc2]
  | ⟨.none, .ib⟩ => [0xdd, 0xc3]
  | ⟨.lw, .none⟩ => [0xfd, 0xc0]
  | ⟨.lw, .ib⟩ => [0xfd, 0xc1]
  | ⟨.lw, .iw⟩ => [0xfd, 0xc2]
  | ⟨.none, .iw⟩ => [0xfd, 0xc3]

/-- immediate part an address needs: none up to 16 bits, IB up to 24 bits, IW above -/
def need (addr : Nat) : IPart :=
  if addr ≤ 0xffff then .none else if addr ≤ 0xffffff then .ib else .iw

/-- "merged into the previous instruction": the operand's need replaces the immediate part -/
def merge (d : Dir) (n : IPart) : Dir :=
  match n with
  | .none => d
  | n => { d with i := n }

def byteOf (n : Nat) : UInt8 := UInt8.ofNat (n % 256)

/-- `JP nn` = C3, `JP cc,nn` = C2 + 8*cc, address low byte first, as many bytes as the immediate part says -/
def jpOpcode (cond : Option Nat) : Nat := match cond with | none => 0xc3 | some c => 0xc2 + 8 * c

def jpCode (cond : Option Nat) (addr : Nat) : List UInt8 :=
  let opc : Nat := jpOpcode cond
  let lo := [byteOf opc, byteOf addr, byteOf (addr / 256)]
  match need addr with
  | .none => lo
  | .ib => lo ++ [byteOf (addr / 65536)]
  | .iw => lo ++ [byteOf (addr / 65536), byteOf (addr / 16777216)]

/-- code of a list of statements (no empty lines): a `DDIR` acts on the `JP` that follows it directly -/
def codeOfStmts : List Stmt → List UInt8
  | [] => []
  | .ddir m :: .jp c a :: rest => dirCode (merge (dirOf m) (need a)) ++ jpCode c a ++ codeOfStmts rest
  | .ddir m :: rest => dirCode (dirOf m) ++ codeOfStmts rest
  | .jp c a :: rest => dirCode (merge Dir.nothing (need a)) ++ jpCode c a ++ codeOfStmts rest
  | .empty :: rest => codeOfStmts rest

/-- code of a program: the code of its statements; lines without an instruction do not take part -/
def code (prog : List Stmt) : List UInt8 := codeOfStmts (prog.filter (fun s => !s.isEmpty))

/-- the programs the fragment covers: `DDIR` with one or two modes, condition codes 0..7, 32-bit addresses -/
def Stmt.ok : Stmt → Bool
  | .empty => true
  | .ddir m => m.length == 1 || m.length == 2
  | .jp c a => (match c with | none => true | some c => c < 8) && a < 4294967296

end AslModel.PrefixSpec
