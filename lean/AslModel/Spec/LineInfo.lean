import AslModel.Spec.Pos
/-!
# Source positions of the debug outputs — SPEC (C19, third clause)

"each MAP `line:address` entry names a source line whose code starts at that address in that segment";
doc/file-formats.md, Debug Files: "Such an entry states that the machine code generated for the source statement
in a certain line is stored at the mentioned address ... As a program may consist of several include files ... the
entries in one of these sections are sorted according to files ... `File <file name>`";
doc/assembler-usage.md: "The first line of a file has the number 1"; a logical line may be spread over several physical
lines with a trailing `\`.

A program is a nesting tree (`Pos.Item` / `Pos.Body` of Spec/Pos.lean: plain lines, code statements `fault p id`
— here: a statement that stores the marker bytes `stmtBytes id` —, macro calls, REPT/IRP/IRPN/IRPC/WHILE blocks,
INCLUDE with the included file's contents).  `specBody` computes *structurally* (line offsets are sums of the sizes
of the preceding items; no counters, no input stack) for every executed code statement, in execution order,

* the file whose text is being read when the statement is executed (the innermost include file), and
* the lines of that file the statement may be attributed to: the physical lines the statement itself is written on
  if its text stands in that file (also as a body line of a REPT/IRP/IRPC/WHILE block written there), and the line of
  every enclosing statement of that file through which it is reached (the macro call, the opening line of the block).
  Inside a macro expansion the statement's own text is not at a line of the file being read: only the enclosing
  statements remain.

`judge` is the join executed on the debug file of the real assembler (driver mode `c19l`) and proved of the model
(`Props/C19_LineInfo.lean`).  Core only.
-/
namespace AslModel.LineInfo
open AslModel.Pos

/-- the marker bytes a code statement stores: a 16-bit identification, then `id % 3` more bytes -/
def stmtBytes (id : Nat) : List Nat :=
  [id / 256 % 256, id % 256] ++ List.replicate (id % 3) ((id * 7 + 1) % 256)

/-- one executed code statement: identification, file being read, admissible line ranges `(lo, hi)` (own lines first),
include depth -/
structure Exec where
  id : Nat
  file : String
  adm : List (Nat × Nat)
  depth : Nat
deriving Repr, DecidableEq

/-- `n` copies of a list, concatenated -/
def repeatL {α : Type} : Nat → List α → List α
  | 0, _ => []
  | n + 1, l => l ++ repeatL n l

/-- the line range of a statement of `p` physical lines that follows `c` physical lines of the file; nothing when the
text is not at a line of the file being read (`base = none`: inside a macro expansion) -/
def ownRange (base : Option Nat) (p : Nat) : List (Nat × Nat) :=
  match base with
  | some c => [(c + 1, c + p)]
  | none => []

mutual
/-- `file`: the file being read, `depth` its include depth, `base = some c`: the item's text starts after `c` physical
lines of `file`; `encl`: lines of the enclosing statements of `file` -/
def specItem (file : String) (depth : Nat) (base : Option Nat) (encl : List (Nat × Nat)) : Item → List Exec
  | .plain _ => []
  | .fault p id => [⟨id, file, ownRange base p ++ encl, depth⟩]
  | .call _ b => specBody file depth none (ownRange base 1 ++ encl) b
  | .rept n b => repeatL n (specBody file depth (base.map (· + 1)) (ownRange base 1 ++ encl) b)
  | .irp k args b => repeatL (irpIters k args) (specBody file depth (base.map (· + 1)) (ownRange base 1 ++ encl) b)
  | .irpc s b => repeatL s.length (specBody file depth (base.map (· + 1)) (ownRange base 1 ++ encl) b)
  | .while_ n b => repeatL n (specBody file depth (base.map (· + 1)) (ownRange base 1 ++ encl) b)
  | .incl f b => specBody f (depth + 1) (some 0) [] b
def specBody (file : String) (depth : Nat) (base : Option Nat) (encl : List (Nat × Nat)) : Body → List Exec
  | .nil => []
  | .cons it b => specItem file depth base encl it ++ specBody file depth (base.map (· + sumL it.lines)) encl b
end

/-- the executed code statements of a program: main file `name` with contents `b` -/
def spec (name : String) (b : Body) : List Exec := specBody name 0 (some 0) [] b

/-- the code is stored contiguously from `org` on: start address of every executed statement -/
def layout (org : Nat) : List Exec → List (Nat × Exec)
  | [] => []
  | e :: es => (org, e) :: layout (org + (stmtBytes e.id).length) es

/-- a line-info record of a debug file: file, line, address -/
structure Entry where
  file : String
  line : Nat
  addr : Nat
deriving Repr, DecidableEq

def inRanges (l : Nat) (rs : List (Nat × Nat)) : Bool := rs.any (fun r => decide (r.1 ≤ l) && decide (l ≤ r.2))

/-- one record against the statement it has to describe -/
def okEntry (r : Entry) (x : Nat × Exec) : Bool :=
  r.file == x.2.file && r.addr == x.1 && inRanges r.line x.2.adm

/-- the records (sorted by address) against the executed statements: one record per statement, naming its address,
its file and one of its admissible lines -/
def judge : List Entry → List (Nat × Exec) → Bool
  | [], [] => true
  | r :: rs, x :: xs => okEntry r x && judge rs xs
  | _, _ => false

/-- index of the first record that fails (`none`: all fine) -/
def firstBad : Nat → List Entry → List (Nat × Exec) → Option Nat
  | _, [], [] => none
  | i, r :: rs, x :: xs => if okEntry r x then firstBad (i + 1) rs xs else some i
  | i, _, _ => some i

/-- insertion sort by address (stable) -/
def insertByAddr (e : Entry) : List Entry → List Entry
  | [] => [e]
  | x :: xs => if e.addr < x.addr then e :: x :: xs else x :: insertByAddr e xs

def sortByAddr (es : List Entry) : List Entry := es.foldr insertByAddr []

/-! ## Valid trees -/

mutual
/-- the tree describes a program: every logical line occupies at least one physical line (`phys` = 1 + number of
continuation lines, Spec/Pos.lean) -/
def itemWf : Item → Bool
  | .plain p => decide (1 ≤ p)
  | .fault p _ => decide (1 ≤ p)
  | .call _ b => bodyWf b
  | .rept _ b => bodyWf b
  | .irp _ _ b => bodyWf b
  | .irpc _ b => bodyWf b
  | .while_ _ b => bodyWf b
  | .incl _ b => bodyWf b
def bodyWf : Body → Bool
  | .nil => true
  | .cons i b => itemWf i && bodyWf b
end

mutual
/-- every code statement is reached through files and at most one block level: no macro call, no block inside a block
(`itemSimple`: what may stand inside a block body) -/
def itemDirect : Item → Bool
  | .plain _ => true
  | .fault _ _ => true
  | .call _ _ => false
  | .rept _ b => bodySimple b
  | .irp _ _ b => bodySimple b
  | .irpc _ b => bodySimple b
  | .while_ _ b => bodySimple b
  | .incl _ b => bodyDirect b
def bodyDirect : Body → Bool
  | .nil => true
  | .cons i b => itemDirect i && bodyDirect b
def itemSimple : Item → Bool
  | .plain _ => true
  | .fault _ _ => true
  | .incl _ b => bodyDirect b
  | .call _ _ => false
  | .rept _ _ => false
  | .irp _ _ _ => false
  | .irpc _ _ => false
  | .while_ _ _ => false
def bodySimple : Body → Bool
  | .nil => true
  | .cons i b => itemSimple i && bodySimple b
end

/-- the exact reading: the record names one of the statement's own physical lines -/
def okEntryX (r : Entry) (x : Nat × Exec) : Bool :=
  r.file == x.2.file && r.addr == x.1 && inRanges r.line (x.2.adm.take 1)

def judgeX : List Entry → List (Nat × Exec) → Bool
  | [], [] => true
  | r :: rs, x :: xs => okEntryX r x && judgeX rs xs
  | _, _ => false

/-! ## NoICE command file

`FILE <name> 0x<address>` opens the line block of a source file, `LINE <n> 0x<offset>` states that the code of line `n`
of that file starts `offset` address units after the block's address, `ENDFILE 0x<address>` closes the block. -/

def hexVal (s : String) : Option Nat :=
  let t := if s.startsWith "0x" then (s.drop 2).toString else s
  if t.isEmpty then none else
  t.toList.foldl (fun acc c => acc.bind fun a =>
    if '0' ≤ c ∧ c ≤ '9' then some (a * 16 + (c.toNat - '0'.toNat))
    else if 'A' ≤ c ∧ c ≤ 'F' then some (a * 16 + (c.toNat - 'A'.toNat + 10))
    else if 'a' ≤ c ∧ c ≤ 'f' then some (a * 16 + (c.toNat - 'a'.toNat + 10))
    else none) (some 0)

/-- state: open block (file, start) and the records so far; `none` on a malformed line -/
def noiceStep (st : Option (Option (String × Nat) × List Entry)) (l : String) : Option (Option (String × Nat) × List Entry) :=
  st.bind fun (cur, acc) =>
    match (l.splitOn " ").filter (· ≠ "") with
    | ["FILE", name, a] => (hexVal a).map fun a => (some (name, a), acc)
    | ["LINE", n, o] =>
      match cur, n.toNat?, hexVal o with
      | some (f, a), some n, some o => some (cur, acc ++ [⟨f, n, a + o⟩])
      | _, _, _ => none
    | "ENDFILE" :: _ => some (none, acc)
    | _ => some (cur, acc)

def parseNoice (ls : List String) : Option (List Entry) :=
  (ls.foldl noiceStep (some (none, []))).map (·.2)

/-! ## Atmel AVR object file

Header: offset of the file-name table (4 bytes, big endian), offset of the first record (4), record size 9, number of
file names, the text `AVR Object File` with its NUL.  A record: address (3 bytes, big endian), code word (2), file index
(1), line (2), macro flag (1).  The name table: NUL-terminated names (without directories), closed by an empty name.
One record per address unit of a statement that occupies more than one. -/

def beVal (bs : List UInt8) : Nat := bs.foldl (fun a b => a * 256 + b.toNat) 0

structure AtmelRec where
  addr : Nat
  file : Nat
  line : Nat
deriving Repr, DecidableEq

def atmelRecs : Nat → List UInt8 → List AtmelRec
  | 0, _ => []
  | f + 1, bs =>
    if bs.length < 9 then [] else
    ⟨beVal (bs.take 3), (bs.getD 5 0).toNat, beVal ((bs.drop 6).take 2)⟩ :: atmelRecs f (bs.drop 9)

def cstrings : Nat → List UInt8 → List (List UInt8)
  | 0, _ => []
  | f + 1, bs =>
    let s := bs.takeWhile (· ≠ 0)
    if s.isEmpty then [] else s :: cstrings f (bs.drop (s.length + 1))

/-- records and name table -/
def parseAtmel (bs : List UInt8) : Option (List AtmelRec × List String) :=
  if bs.length < 26 then none else
  let fpos := beVal (bs.take 4)
  let rpos := beVal ((bs.drop 4).take 4)
  if bs.getD 8 0 ≠ 9 ∨ rpos > fpos ∨ fpos > bs.length ∨ (fpos - rpos) % 9 ≠ 0 then none else
  let recs := atmelRecs ((fpos - rpos) / 9) ((bs.drop rpos).take (fpos - rpos))
  let names := (cstrings bs.length (bs.drop fpos)).map (fun s => String.ofList (s.map (fun b => Char.ofNat b.toNat)))
  some (recs, names)

/-- the address units a statement's records cover -/
def unitsOf (x : Nat × Exec) : List (Nat × Exec) :=
  let n := (stmtBytes x.2.id).length
  if n > 1 then (List.range n).map (fun z => (x.1 + z, x.2)) else [x]

end AslModel.LineInfo
