/-! SPEC for C11 (macro, repetition and inclusion constructs are transparent), written from
doc/pseudo-instructions.md ("Macro Instructions"), not from the C code.

Token layer: "When a macro is called, the parameters given for the call are textually inserted into the
instruction block"; parameter names consist of letters and digits only, so that `part1_part2` concatenates;
a parameter is substituted only where a *whole* name occurs.  `substWhole` cuts the ORIGINAL line into
maximal runs of letters/digits and single other characters and replaces every run that equals a parameter
name (up to case when the assembler is not case sensitive) by the corresponding argument - simultaneously,
so an argument that happens to contain another parameter's name is not substituted again.

Construct layer: `expand` carries out MACRO calls, REPT, IRP, IRPN, IRPC by hand, by structural recursion
over a construct tree, producing the flat list of source lines that remain. Core only. -/
namespace AslModel.MacroSpec

abbrev Ch := UInt8
abbrev Line := List Ch

/-- letters and digits (ASCII) -/
def isAlnum (c : Ch) : Bool :=
  (65 ≤ c.toNat && c.toNat ≤ 90) || (97 ≤ c.toNat && c.toNat ≤ 122) || (48 ≤ c.toNat && c.toNat ≤ 57)

/-- ASCII upper case -/
def upc (c : Ch) : Ch := if 97 ≤ c.toNat ∧ c.toNat ≤ 122 then UInt8.ofNat (c.toNat - 32) else c

/-- character equality; up to ASCII case unless `cs` (case sensitive mode) -/
def eqCh (cs : Bool) (a b : Ch) : Bool := if cs then a == b else upc a == upc b

/-- a whole run equals a name -/
def eqLine (cs : Bool) : Line → Line → Bool
  | [], [] => true
  | p :: ps, x :: xs => eqCh cs p x && eqLine cs ps xs
  | _, _ => false

/-- a line cut into maximal alphanumeric runs and single other characters -/
inductive Seg where
  | run (r : Line)
  | oth (c : Ch)
  deriving Repr, BEq

def flushSeg (acc : Line) : List Seg := if acc.isEmpty then [] else [Seg.run acc]

def segsGo : Line → Line → List Seg
  | acc, [] => flushSeg acc
  | acc, c :: rest =>
    if isAlnum c then segsGo (acc ++ [c]) rest
    else flushSeg acc ++ Seg.oth c :: segsGo [] rest

def segs (line : Line) : List Seg := segsGo [] line

/-- the argument bound to the first parameter whose name is this run -/
def lookup (cs : Bool) : List Line → List Line → Line → Option Line
  | p :: ps, a :: as, r => if eqLine cs p r then some a else lookup cs ps as r
  | _, _, _ => none

def substSeg (cs : Bool) (params args : List Line) : Seg → Line
  | .run r => (lookup cs params args r).getD r
  | .oth c => [c]

/-- whole-name substitution in the original line -/
def substWhole (cs : Bool) (params args : List Line) (line : Line) : Line :=
  (segs line).flatMap (substSeg cs params args)

/-! ## construct layer -/

/-- how a macro call binds arguments (doc: positional, keyword, defaults, excess) -/
structure CallArg where
  key : Option Line      -- `name=` prefix (keyword argument) or positional
  val : Line
  deriving Repr

/-- join with commas (ALLARGS) -/
def joinComma : List Line → Line
  | [] => []
  | [a] => a
  | a :: rest => a ++ 44 :: joinComma rest

def natDigits (n : Nat) : Line := (toString n).toList.map (fun c => UInt8.ofNat c.toNat)

/-- positional arguments: the i-th non-empty positional argument replaces the i-th slot; arguments beyond
    the formal parameters are appended ("excess") -/
def bindPos : List (Option Line) → List Line → List (Option Line) × List Line
  | slots, [] => (slots, [])
  | [], extra => ([], extra)
  | s :: slots, a :: rest =>
    let (ss, ex) := bindPos slots rest
    ((if a.isEmpty then s else some a) :: ss, ex)

def bindKey (cs : Bool) : List Line → List (Option Line) → Line → Line → List (Option Line)
  | p :: ps, s :: ss, k, v => if eqLine cs p k then some v :: ss else s :: bindKey cs ps ss k v
  | _, ss, _, _ => ss

/-- the argument list of one call: formal parameters filled with positional arguments, then keyword
    arguments, then defaults (empty string if none); excess positional arguments follow -/
def bindArgs (cs : Bool) (params defaults : List Line) (call : List CallArg) : List Line :=
  let pos := (call.filter (fun a => a.key.isNone)).map (·.val)
  let (slots, extra) := bindPos (params.map fun _ => none) pos
  let slots := (call.filter (fun a => a.key.isSome)).foldl
    (fun ss a => bindKey cs params ss (a.key.getD []) a.val) slots
  let filled := (slots.zip defaults).map fun (s, d) => s.getD d
  filled ++ extra

/-- groups of `k` arguments, the last one padded with empty arguments (IRPN ragged tail) -/
def groupsOf (k : Nat) : Nat → List Line → List (List Line)
  | 0, _ => []
  | fuel + 1, l =>
    if l.isEmpty then [] else
    let g := l.take k
    (g ++ List.replicate (k - g.length) []) :: groupsOf k fuel (l.drop k)

/-! Body items: a plain line, EXITM, or a nested construct.  First-order mutual inductives.
`id` is a unique number of the construct occurrence; `locals` are the labels defined directly in its body
(they are private to each expansion: the hand expansion renames them with a suffix built from the path of
construct ids and iteration numbers; with GLOBALSYMBOLS the list is empty and the labels stay as written).
`call` is one call of a macro that was defined at top level (the definition itself emits nothing). -/
mutual
inductive Item where
  | line (l : Line)
  | exitm
  | rept (id : Nat) (n : Nat) (locals : List Line) (body : Body)
  | irp (id : Nat) (var : Line) (args : List Line) (locals : List Line) (body : Body)
  | irpn (id : Nat) (vars : List Line) (args : List Line) (locals : List Line) (body : Body)
  | irpc (id : Nat) (var : Line) (chars : Line) (locals : List Line) (body : Body)
  | call (id : Nat) (params defaults : List Line) (locals : List Line) (body : Body) (args : List CallArg)
inductive Body where
  | nil
  | cons (i : Item) (rest : Body)
end

/-- substitution environment: one simultaneous whole-name substitution per enclosing construct, outermost first -/
abbrev Env := List (List Line × List Line)

def applyEnv (cs : Bool) (env : Env) (l : Line) : Line :=
  env.foldl (fun l (pa : List Line × List Line) => substWhole cs pa.1 pa.2 l) l

/-- suffix that makes a private label unique: X<id>Y<iteration> appended to the enclosing suffix -/
def instSfx (sfx : Line) (id iter : Nat) : Line := sfx ++ 88 :: natDigits id ++ 89 :: natDigits iter

def withLocals (pa : List Line × List Line) (locals : List Line) (sfx : Line) : List Line × List Line :=
  (pa.1 ++ locals, pa.2 ++ locals.map (· ++ sfx))

/-- run the iterations of a repetition; EXITM inside the body ends the whole repetition -/
def runIters {α} (f : Nat → α → List Line × Bool) : Nat → List α → List Line
  | _, [] => []
  | i, x :: xs => if (f i x).2 then (f i x).1 else (f i x).1 ++ runIters f (i + 1) xs

def allArgsName : Line := [65, 76, 76, 65, 82, 71, 83]        -- ALLARGS
def argCountName : Line := [65, 82, 71, 67, 79, 85, 78, 84]  -- ARGCOUNT

/-- a call argument as written (ALLARGS lists the arguments as passed) -/
def CallArg.text (a : CallArg) : Line :=
  match a.key with
  | some k => k ++ 61 :: a.val
  | none => a.val

mutual
/-- carry out the constructs by hand; result: the remaining lines, and whether EXITM ended the enclosing body.
    `env` holds the substitutions of the enclosing constructs: a body line of an inner construct is substituted
    by the outer constructs first (the outer body is expanded before the inner construct is even read) and by
    its own construct last.  A macro body was defined at top level, so a call starts a fresh environment;
    only the call's arguments see the caller's substitutions. -/
def expandItem (cs : Bool) (env : Env) (sfx : Line) : Item → List Line × Bool
  | .line l => ([applyEnv cs env l], false)
  | .exitm => ([], true)
  | .rept id n locals body =>
    (runIters (fun i (_ : Nat) =>
        expandBody cs (env ++ [withLocals ([], []) locals (instSfx sfx id i)]) (instSfx sfx id i) body)
      0 (List.range n), false)
  | .irp id var args locals body =>
    (runIters (fun i a =>
        expandBody cs (env ++ [withLocals ([var], [a]) locals (instSfx sfx id i)]) (instSfx sfx id i) body)
      0 (args.map (applyEnv cs env)), false)
  | .irpn id vars args locals body =>
    (runIters (fun i g =>
        expandBody cs (env ++ [withLocals (vars, g) locals (instSfx sfx id i)]) (instSfx sfx id i) body)
      0 (groupsOf vars.length args.length (args.map (applyEnv cs env))), false)
  | .irpc id var chars locals body =>
    (runIters (fun i c =>
        expandBody cs (env ++ [withLocals ([var], [[c]]) locals (instSfx sfx id i)]) (instSfx sfx id i) body)
      0 (applyEnv cs env chars), false)
  | .call id params defaults locals body args =>
    let args' := args.map fun a => { a with val := applyEnv cs env a.val, key := a.key.map (applyEnv cs env) }
    let bound := bindArgs cs params defaults args'
    let pa : List Line × List Line :=
      (params ++ [allArgsName, argCountName], bound.take params.length ++
        [joinComma (args'.map CallArg.text), natDigits bound.length])
    ((expandBody cs [withLocals pa locals (instSfx sfx id 0)] (instSfx sfx id 0) body).1, false)
def expandBody (cs : Bool) (env : Env) (sfx : Line) : Body → List Line × Bool
  | .nil => ([], false)
  | .cons i rest =>
    if (expandItem cs env sfx i).2 then ((expandItem cs env sfx i).1, true)
    else ((expandItem cs env sfx i).1 ++ (expandBody cs env sfx rest).1, (expandBody cs env sfx rest).2)
end

/-- the hand expansion of a whole program -/
def expand (cs : Bool) (prog : Body) : List Line := (expandBody cs [] [] prog).1

end AslModel.MacroSpec
