import AslModel.Spec.IntLiteral
/-!
# SPEC: integer constants of every notation INSIDE formulas and operand lists (C08)

Written from doc/assembler-usage.md, sections "Integer Constants" and "Formula Expressions":

* the IBM notation "puts the actual value into apostrophes and prepends the numbering system ('x' or 'h' for
  hexadecimal, 'o' for octal and 'b' for binary)"; "another variant of this notation for some targets is to leave
  away the closing apostrophe" (`quotedOpen`; the targets are a parameter `noTerm` of the reading - on the pinned tree
  H8/300, H8/500, NS32000 and SC/MP);
* a constant is a component of a formula like any other: the value of a formula over constants is the fold of the
  operator semantics over the values the constants have in the enabled notations (`LF.eval`), whatever characters
  the constants are written with.  In particular the apostrophe of an IBM-style constant is part of that constant
  (`openIbmAt`), not the start of a character string.

`LF` is a formula whose leaves are constant TEXTS (so that the SPEC, not the generator, says what a text denotes);
`LF.render` is `Formula.render` (minimal parentheses by rank) plus explicit parentheses `par`.
-/
namespace AslModel.LitFormula
open AslModel.Formula AslModel.IntLiteral

/-- numbering system named by the letter in front of the apostrophe -/
def ibmBase (c : Char) : Option Nat :=
  if up c = 'H' ∨ up c = 'X' then some 16 else if up c = 'O' then some 8 else if up c = 'B' then some 2 else none

/-- is the character a digit of the base ("numbers from 0 to 9 and letters from A to Z (value 10 to 35) up to the
numbering system's base minus one") -/
def isDigitOf (base : Nat) (c : Char) : Bool := decide (digit c < base)

/-- IBM notation without the closing apostrophe: letter, apostrophe, digits up to the end of the constant -/
def quotedOpen (letter : Char) (base : Nat) (s : List Char) : Option Nat :=
  match s with
  | c :: '\'' :: rest => if up c = letter ∧ !rest.contains '\'' then number base rest else none
  | _ => none

/-- the value a text has in one notation on a target that allows (`noTerm`) / does not allow the open IBM form -/
def denoteT (noTerm : Bool) (radix : Nat) (n : Notation) (s : List Char) : Option Nat :=
  match denote radix n s with
  | some v => some v
  | none =>
    if noTerm then
      match n with
      | .ibmH => quotedOpen 'H' 16 s
      | .ibmX => quotedOpen 'X' 16 s
      | .ibmB => quotedOpen 'B' 2 s
      | .ibmO => quotedOpen 'O' 8 s
      | _ => none
    else none

/-- `IntLiteral.literal` with the open IBM forms -/
def literalT (enabled : List Notation) (noTerm : Bool) (radix : Nat) (s : List Char) : Lit :=
  let marked := (enabled.filter (· ≠ .dec)).filterMap fun n => denoteT noTerm radix n s
  match marked.eraseDups with
  | [v] => .value v
  | [] =>
    if enabled.contains .dec then
      match denote radix .dec s with
      | some v => .value v
      | none => .notConst
    else .notConst
  | _ => .undef

/-- **where an open IBM constant sits in a text**: the apostrophe at position `p` of `t` belongs to an IBM-style
constant written without closing apostrophe iff the character in front of it names a numbering system, a non-empty
run of digits of that system follows, and the run ends at the end of the text or at a character that is neither an
apostrophe (that would be the closed form `x'..'`, which needs no special rule) nor a letter or digit (the text
would be one longer word, not this constant). -/
def openIbmAt (t : List Char) (p : Nat) : Bool :=
  if p = 0 then false
  else
    match ibmBase (t.getD (p - 1) ' ') with
    | none => false
    | some b =>
      let after := t.drop (p + 1)
      !(after.takeWhile (isDigitOf b)).isEmpty &&
        (match after.dropWhile (isDigitOf b) with
         | [] => true
         | c :: _ => c != '\'' && !c.isAlphanum)

/-! ## formulas over constant texts -/

inductive LF where
  | lit (text : List Char)
  /-- character constant `'c'` (one self-denoting character) -/
  | chr (c : Char)
  | un (u : UnOp) (e : LF)
  | bin (o : BinOp) (l r : LF)
  /-- explicit (redundant) parentheses -/
  | par (e : LF)

def LF.rootRank : LF → Nat
  | .un u _ => u.rank
  | .bin o _ _ => o.rank
  | _ => 0

def LF.render : LF → List Char
  | .lit t => t
  | .chr c => ['\'', c, '\'']
  | .un u e => u.spelling ++ paren (u.rank ≤ e.rootRank) e.render
  | .bin o l r => paren (o.rank < l.rootRank) l.render ++ o.spelling ++ paren (o.rank ≤ r.rootRank) r.render
  | .par e => ['('] ++ e.render ++ [')']

/-- the documented value: constants as `read` says, operators as `Formula.specUn` / `specBin` (right operand first, as
`Formula.evalWith`); a text that is not a constant of an enabled notation has no value (it would be a symbol) -/
def LF.eval (read : List Char → Lit) : LF → Except Err Val
  | .lit t =>
    match read t with
    | .value v => .ok (.int (BitVec.ofNat 64 v))
    | .notConst => .error .symbol
    | .undef => .error .undef
  | .chr c => .ok (.str [c])
  | .un u e =>
    match e.eval read with
    | .error x => .error x
    | .ok v => specUn u v
  | .bin o l r =>
    match r.eval read, l.eval read with
    | .error x, _ => .error x
    | .ok _, .error x => .error x
    | .ok b, .ok a => specBin o a b
  | .par e => e.eval read

def LF.size : LF → Nat
  | .lit _ => 1
  | .chr _ => 1
  | .un _ e => 1 + e.size
  | .bin _ l r => 1 + l.size + r.size
  | .par e => 1 + e.size

/-- the operand list of a statement: formulas separated by commas -/
def renderList : List LF → List Char
  | [] => []
  | [f] => f.render
  | f :: fs => f.render ++ [','] ++ renderList fs

end AslModel.LitFormula
