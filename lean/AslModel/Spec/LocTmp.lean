import AslModel.Spec.LocScope
import AslModel.Spec.Scope
/-! SPEC for C13, composed temporary symbols inside macro and loop bodies - written from the manual only:

* `doc/assembler-usage.md`, "Composed Temporary Symbols": "Whenever a symbol's name begins with a dot (.), the symbol is not
  directly stored with this name in the symbol table.  Instead, the name of the most recently-defined symbol not beginning with
  a dot is prepended to the symbols name" (`.loop` behind `proc1:` "actually defines 'proc1.loop'"; "the most recent
  non-temporary symbol is not stored per-section, but simply globally").  So `.lp`
  *denotes* `<last>.lp`, where `<last>` is the symbol defined most recently **in the order the statements are assembled**
  (a repetition of a loop body is assembled after the previous one; the first line of the second repetition follows the
  last line of the first).
* "Nesting and Scope Rules" / the `-U` option: names are compared without regard to case unless `-U` is given - the
  *composed* name is a name like any other, so both of its parts are compared that way.
* `doc/pseudo-instructions.md` MACRO / REPT / IRP / IRPC / WHILE: labels of a body are local to the expansion / repetition
  (`Spec/LocScope.lean`).  A label written `.lp` in a body is a label: the label `<last>.lp` of that expansion.

Hence a program with composed names in bodies means the same as the program in which
1. every loop of `n` repetitions is written out as `n` single repetitions (`LocScope.expand` gives every repetition its own
   label space either way - `unrollItem` below; the meaning of a body statement may now differ per repetition), and
2. every label and reference `.name` is replaced by `<last>.name`, `<last>` tracked over the statements in assembly order by
   the bookkeeping of `Spec/Scope.lean` (`Scope.defNames`: which statements define a non-temporary symbol),
and that program is judged by `LocScope.expand` + `Scope.judge`.

Nothing here looks at the C code (no LastGlobSymbol, no handles, no folding order). -/
namespace AslModel.LocTmp
open AslModel.LocScope

abbrev Name := List Nat

/-- "a symbol whose name begins with a dot" -/
def isDot : Name → Bool
  | 46 :: _ => true
  | _ => false

/-- what a name written `n` denotes when `last` is the most recently defined symbol not beginning with a dot -/
def denote (last n : Name) : Name := if isDot n then last ++ n else n

/-- one statement: the label is defined by the line (a composed label belongs to the range that is open *before* the line;
it does not open one), the operand is read afterwards.  `defs` = the symbols the statement defines, in order, with the kind
of defining statement (`name[section]` without the bracket part: it is the *name* that is "most recently defined"). -/
def stmt {α : Type} (defs : α → List (Name × Scope.DefBy)) (t : Scope.TmpSt) (s : Stmt α) : Scope.TmpSt × Stmt α :=
  let lab := s.label.map (denote t.last)
  let t' := (defs s.payload).foldl (fun t d => (Scope.defNames t d.1 d.2).1) t
  (t', { s with label := lab, ref := s.ref.map (denote t'.last) })

/-- `n` times `f`, collecting what each round produced -/
def rounds {σ β : Type} (f : σ → σ × List β) : Nat → σ → σ × List β
  | 0, t => (t, [])
  | n + 1, t => let r := f t; let q := rounds f n r.1; (q.1, r.2 ++ q.2)

def ofList {α : Type} : List (Item α) → Items α
  | [] => .nil
  | i :: r => .cons i (ofList r)

mutual
def unrollItem {α : Type} (defs : α → List (Name × Scope.DefBy)) : Item α → Scope.TmpSt → Scope.TmpSt × List (Item α)
  | .stmt s, t => let r := stmt defs t s; (r.1, [.stmt r.2])
  | .con isMacro glob n body, t =>
    rounds (fun t => let r := unrollItems defs body t; (r.1, [Item.con isMacro glob 1 (ofList r.2)])) n t
def unrollItems {α : Type} (defs : α → List (Name × Scope.DefBy)) : Items α → Scope.TmpSt → Scope.TmpSt × List (Item α)
  | .nil, t => (t, [])
  | .cons i r, t => let a := unrollItem defs i t; let b := unrollItems defs r a.1; (b.1, a.2 ++ b.2)
end

/-- the program without composed names -/
def compose {α : Type} (defs : α → List (Name × Scope.DefBy)) (prog : Items α) : Items α :=
  ofList (unrollItems defs prog {}).2

/-- does a composed name occur at all (programs without one are left as they are) -/
def stmtHasDot {α : Type} (s : Stmt α) : Bool := (s.label.map isDot).getD false || (s.ref.map isDot).getD false

mutual
def itemHasDot {α : Type} : Item α → Bool
  | .stmt s => stmtHasDot s
  | .con _ _ _ body => itemsHasDot body
def itemsHasDot {α : Type} : Items α → Bool
  | .nil => false
  | .cons i r => itemHasDot i || itemsHasDot r
end

end AslModel.LocTmp
