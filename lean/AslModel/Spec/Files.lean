/-!
# SPEC for C18 — files assembled in one invocation do not influence each other

Written from the statement of the property (and doc/as.md: "several files given on the command line are
assembled one after the other"), not from the C code.  An assembler invocation is abstracted to
`asm : C → S → R × C`: assembling one source `S` from the process state `C` left by its predecessors yields
the observable result `R` of that file (code file, diagnostics, exit contribution) and the state handed on.
-/
namespace AslModel.FilesSpec

/-- one invocation on a list of files: the results in order, and the final process state -/
def runFiles {C S R : Type} (asm : C → S → R × C) : C → List S → List R × C
  | c, [] => ([], c)
  | c, s :: rest =>
    let rc := asm c s
    let tl := runFiles asm rc.2 rest
    (rc.1 :: tl.1, tl.2)

/-- what the same files give when each is assembled by its own fresh process -/
def alone {C S R : Type} (asm : C → S → R × C) (boot : C) (srcs : List S) : List R :=
  srcs.map (fun s => (asm boot s).1)

/-- **C18**: `asl a b c …` yields, file by file, what `asl a; asl b; asl c; …` yields -/
def Independent {C S R : Type} (asm : C → S → R × C) (boot : C) : Prop :=
  ∀ srcs : List S, (runFiles asm boot srcs).1 = alone asm boot srcs

/-- executable form used on the real program's observations: results of the joint run vs the single runs -/
def independentB {R : Type} [BEq R] (joint single : List R) : Bool := joint == single

end AslModel.FilesSpec
