/-!
# Conditional assembly — SPEC

Written from `doc/pseudo-instructions.md`, section "Conditional Assembly" only:

* `IF e … ELSEIF e … ELSEIF/ELSE … ENDIF`: "only **one** of the blocks will be assembled: the
  first one whose IF/ELSEIF had a true expression as argument"; the argument-less ELSEIF/ELSE is the
  default branch and "must be the last branch".
* `IFDEF/IFNDEF`, `IFUSED/IFNUSED`, `IFEXIST/IFNEXIST` test a symbol / file and their counterparts
  negate; `IFB <arg-list>` is "true if **all** arguments of the parameter list are empty strings",
  `IFNB` is its counterpart.
* `SWITCH e … CASE v1[,v2…] … ELSECASE … ENDCASE`: "Even when value lists of CASE branches overlap,
  only **one** branch is executed, which is the first one"; ELSECASE is the trap for "none of the
  CASE conditions was met", and "AS will issue a warning in case it is missing and all comparisons
  fail"; "an arbitrary number of statements may be between SWITCH and the first CASE".
* "The following constructs may be nested arbitrarily"; "For every IF... statement, there has to be
  a corresponding ENDIF. 'Open' constructs will lead to an error message at the end of an assembly
  path"; "there must be exactly one ENDCASE for every SWITCH".

* "only one of the blocks will be *assembled*": a line that is not assembled has no effect at all – it
  emits no code, defines no symbol and references none.  What an assembled ordinary line does with symbols
  is written from `doc/assembler-usage.md` (source line format `[label[:]] <mnemonic> …`) and
  `doc/pseudo-instructions.md`: EQU/SET (`=`, `:=`); STRUCT – calling a structure "reserves as much memory as
  needed to hold an instance of the structure, and additionally defines a symbol for every element of the
  structure with its address", named `<label>_<element>`; MACRO – `INTLABEL` "rules whether a label defined in a
  line that calls this macro may be used as an additional parameter inside the [body] or not, instead of simply
  'labeling' the line" (parameter `__LABEL__`), `GLOBALSYMBOLS` "rules whether labels defined in the macro's body
  shall be local to this macro or also be available outside the macro"; IFUSED tests whether the symbol was
  referenced so far.

Conditions are abstracted to what the evaluator delivered (a truth value, a raw
defined/used/found observation, one "is non-empty" flag per IFB argument, a selector value).
-/
namespace AslModel.Cond

/-- value of a SWITCH/CASE expression: integer, float (identified by a key the generator keeps
injective on the doubles it uses) or string (list of character codes).  Values of different type
never compare equal. -/
inductive Val where
  | int (i : Int)
  | flt (key : Int)
  | str (s : List Nat)
deriving DecidableEq, Repr, Inhabited

inductive SymTest where | defined | used | exist
deriving DecidableEq, Repr

/-- the condition of an `IF…` statement, already evaluated -/
inductive Cond where
  /-- `IF <expr>`: whether the expression is non-zero -/
  | expr (c : Bool)
  /-- `IFDEF/IFUSED/IFEXIST` (`neg = false`) and `IFNDEF/IFNUSED/IFNEXIST` (`neg = true`);
      `raw` = the symbol is defined / was used / the file exists -/
  | sym (t : SymTest) (neg : Bool) (raw : Bool)
  /-- `IFB` (`neg = false`) / `IFNB` (`neg = true`); one flag per argument: it is a non-empty string -/
  | blank (neg : Bool) (nonblank : List Bool)
deriving DecidableEq, Repr

/-- the documented truth value of a condition -/
def Cond.holds : Cond → Bool
  | .expr c => c
  | .sym _ neg raw => if neg then !raw else raw
  | .blank neg nb => if neg then !(nb.all (!·)) else nb.all (!·)

/-- number of arguments a well-formed `IF…` line with this condition carries -/
def Cond.argc : Cond → Nat
  | .blank _ nb => nb.length
  | _ => 1

/-- what an ordinary source line ("leaf") has to do with symbols -/
inductive LeafKind where
  /-- no label, no symbol involved (`db m`) -/
  | plain
  /-- `sym: <machine instruction>` (the generated sources use `cp m` = bytes `FE m`) -/
  | instr
  /-- `sym: db m` – label in front of a data pseudo-op -/
  | pseudo
  /-- `sym: mac m` – label in front of a call of a macro defined without `INTLABEL` -/
  | macro
  /-- `sym: mac m`, macro with `{INTLABEL}` whose body does not place `__LABEL__`: no symbol comes into being -/
  | macroInt
  /-- `{INTLABEL},{GLOBALSYMBOLS}` macro whose body is `__LABEL__: db m`: the body defines `sym` -/
  | macroIntGlobal
  /-- `{INTLABEL}` macro whose body is `__LABEL__: db m`: the symbol is local to the expansion -/
  | macroIntLocal
  /-- `sym: srec` – instantiation of a one-element structure: reserves a cell, defines `sym` and `sym_elem` -/
  | struct
  /-- `sym equ m` / `sym = m` -/
  | equ
  /-- `sym set m` / `sym := m` -/
  | set
  /-- `db sym` – a reference to a symbol (defined in front of the construct with value `m`) -/
  | use
  /-- `#define sym …` – a preprocessor line that establishes the text replacement number `sym`
  (manual, "Conditional Assembly": a line that is not assembled has no effect at all – also a `#` line) -/
  | ppDefine
  /-- `#undef sym` – a preprocessor line that removes the text replacement number `sym` -/
  | ppUndef
deriving DecidableEq, Repr

/-- an ordinary source line: `marker` identifies it, `sym` is the number of the symbol it is about -/
structure Leaf where
  marker : Nat
  kind : LeafKind := .plain
  sym : Nat := 0
deriving DecidableEq, Repr

/-- number of the element symbol `<label>_<element>` that instantiating the structure under label `s` defines -/
def elemSym (s : Nat) : Nat := s + 500

/-- the (globally visible) symbols an *assembled* leaf defines -/
def Leaf.defines (l : Leaf) : List Nat :=
  match l.kind with
  | .instr | .pseudo | .macro | .macroIntGlobal | .equ | .set => [l.sym]
  | .struct => [l.sym, elemSym l.sym]
  | .plain | .macroInt | .macroIntLocal | .use | .ppDefine | .ppUndef => []

/-- the symbols an assembled leaf references -/
def Leaf.uses (l : Leaf) : List Nat :=
  match l.kind with
  | .use => [l.sym]
  | _ => []

/-- the effects other than code, symbol definitions and references an assembled leaf has: the text
replacement it establishes (`#define`) resp. removes (`#undef`) -/
def Leaf.effects (l : Leaf) : List Nat :=
  match l.kind with
  | .ppDefine | .ppUndef => [l.sym]
  | _ => []

/-- the code bytes an assembled leaf emits -/
def Leaf.code (l : Leaf) : List Nat :=
  match l.kind with
  | .instr => [254, l.marker]
  | .struct | .equ | .set | .ppDefine | .ppUndef => []
  | _ => [l.marker]

/-- one source line, as far as conditional assembly is concerned.  `argc` is the number of arguments
written on the line (the well-formed number is 1 for IF-family/ELSEIF/SWITCH, 0 for
ELSE/ENDIF/ELSECASE/ENDCASE, ≥ 1 for CASE, any for IFB/IFNB). -/
inductive Stmt where
  /-- any other statement (the generated sources use `db m` and the labelled forms of `LeafKind`) -/
  | leaf (l : Leaf)
  | iff (argc : Nat) (c : Cond)
  /-- `ELSEIF e` (argc = 1) and `ELSE` = `ELSEIF` without argument (argc = 0) -/
  | elseif (argc : Nat) (c : Bool)
  | endif (argc : Nat)
  | switch (argc : Nat) (v : Val)
  | case (vals : List Val)
  | elsecase (argc : Nat)
  | endcase (argc : Nat)
deriving DecidableEq, Repr

/-! ## Skeletons: well-nested programs as trees (first-order mutual inductives) -/

mutual
inductive Skel where
  | leaf (l : Leaf)
  /-- `IF c / b / e… / ENDIF` -/
  | ladder (c : Cond) (b : Block) (e : Elifs)
  /-- `SWITCH v / pre / cases… / ENDCASE` -/
  | switch (v : Val) (pre : Block) (cs : Cases)
inductive Block where
  | nil
  | cons (s : Skel) (b : Block)
inductive Elifs where
  | done
  | els (b : Block)
  | elif (c : Bool) (b : Block) (e : Elifs)
inductive Cases where
  | done
  | elsecase (b : Block)
  /-- `CASE v, vs…` -/
  | case (v : Val) (vs : List Val) (b : Block) (cs : Cases)
end

/- source order of the statements of a skeleton -/
mutual
def flat : Skel → List Stmt
  | .leaf l => [.leaf l]
  | .ladder c b e => [.iff c.argc c] ++ flatB b ++ flatE e ++ [.endif 0]
  | .switch v pre cs => [.switch 1 v] ++ flatB pre ++ flatC cs ++ [.endcase 0]
def flatB : Block → List Stmt
  | .nil => []
  | .cons s b => flat s ++ flatB b
def flatE : Elifs → List Stmt
  | .done => []
  | .els b => [.elseif 0 false] ++ flatB b
  | .elif c b e => [.elseif 1 c] ++ flatB b ++ flatE e
def flatC : Cases → List Stmt
  | .done => []
  | .elsecase b => [.elsecase 0] ++ flatB b
  | .case v vs b cs => [.case (v :: vs)] ++ flatB b ++ flatC cs
end

/- **the documented selection**: the leaves that are assembled, in order -/
mutual
def sel : Skel → List Leaf
  | .leaf l => [l]
  | .ladder c b e => if c.holds then selB b else selE e
  | .switch v pre cs => selB pre ++ selC v cs
def selB : Block → List Leaf
  | .nil => []
  | .cons s b => sel s ++ selB b
def selE : Elifs → List Leaf
  | .done => []
  | .els b => selB b
  | .elif c b e => if c then selB b else selE e
def selC (x : Val) : Cases → List Leaf
  | .done => []
  | .elsecase b => selB b
  | .case v vs b cs => if (v :: vs).contains x then selB b else selC x cs
end

/-- the code of a list of assembled leaves -/
def codeOf (ls : List Leaf) : List Nat := ls.flatMap Leaf.code

/-- **only labels of selected branches exist**: the symbols defined after the pass are the union over the
selected leaves of what each defines -/
def definedBy (ls : List Leaf) : List Nat := ls.flatMap Leaf.defines

/-- the symbols referenced ("used") are those the selected leaves reference -/
def usedBy (ls : List Leaf) : List Nat := ls.flatMap Leaf.uses

/-- **a line that is not assembled has no effect at all**: the text replacements established / removed are those of
the selected `#define` / `#undef` leaves -/
def effectsOf (ls : List Leaf) : List Nat := ls.flatMap Leaf.effects

/- the documented "none of the CASE conditions was true" warnings: one per *assembled* SWITCH
without ELSECASE whose comparisons all fail -/
mutual
def warn : Skel → Nat
  | .leaf _ => 0
  | .ladder c b e => if c.holds then warnB b else warnE e
  | .switch v pre cs => warnB pre + warnC v cs
def warnB : Block → Nat
  | .nil => 0
  | .cons s b => warn s + warnB b
def warnE : Elifs → Nat
  | .done => 0
  | .els b => warnB b
  | .elif c b e => if c then warnB b else warnE e
def warnC (x : Val) : Cases → Nat
  | .done => 1
  | .elsecase b => warnB b
  | .case v vs b cs => if (v :: vs).contains x then warnB b else warnC x cs
end

/-! ## Well-nestedness of an arbitrary statement list (pushdown recogniser)

The open constructs, innermost first.  `ELSEIF`/`ELSE` refer to the innermost unfinished IF and are
only allowed before its ELSE; `CASE`/`ELSECASE` belong to the innermost open SWITCH and no CASE or
second ELSECASE may follow an ELSECASE; ENDIF closes an IF, ENDCASE closes a SWITCH.  Statements
with a malformed argument list (`ELSE a,b`, `ENDIF x`, `CASE` without value, `ELSECASE x`,
`ENDCASE x`) are not conditional statements of the documented form and make the list ill-formed. -/

inductive Open where
  | ifThen | ifElse | swHead | swCase | swElse
deriving DecidableEq, Repr

def wnStep (st : List Open) : Stmt → Option (List Open)
  | .leaf _ => some st
  | .iff _ _ => some (.ifThen :: st)
  | .switch _ _ => some (.swHead :: st)
  | .elseif argc _ =>
    match st with
    | .ifThen :: r => if argc = 0 then some (.ifElse :: r) else if argc = 1 then some (.ifThen :: r) else none
    | _ => none
  | .endif argc =>
    match st with
    | .ifThen :: r => if argc = 0 then some r else none
    | .ifElse :: r => if argc = 0 then some r else none
    | _ => none
  | .case vals =>
    match st with
    | .swHead :: r => if vals.isEmpty then none else some (.swCase :: r)
    | .swCase :: r => if vals.isEmpty then none else some (.swCase :: r)
    | _ => none
  | .elsecase argc =>
    match st with
    | .swHead :: r => if argc = 0 then some (.swElse :: r) else none
    | .swCase :: r => if argc = 0 then some (.swElse :: r) else none
    | _ => none
  | .endcase argc =>
    match st with
    | .swHead :: r => if argc = 0 then some r else none
    | .swCase :: r => if argc = 0 then some r else none
    | .swElse :: r => if argc = 0 then some r else none
    | _ => none

/-- run the recogniser from a given stack of open constructs -/
def wnRun : List Open → List Stmt → Option (List Open)
  | st, [] => some st
  | st, s :: ss => match wnStep st s with
    | some st' => wnRun st' ss
    | none => none

/-- a statement list is well nested iff every conditional statement is in a legal position and
nothing is left open at the end -/
def WellNested (ss : List Stmt) : Prop := wnRun [] ss = some []

instance (ss : List Stmt) : Decidable (WellNested ss) := by unfold WellNested; infer_instance

/-- live IF-family and SWITCH statements carry exactly one argument (IFB/IFNB: any number) -/
def Stmt.argsOK : Stmt → Bool
  | .iff _ (.blank _ _) => true
  | .iff argc _ => argc == 1
  | .switch argc _ => argc == 1
  | _ => true

/-! ## END and the end of the pass

Written from `doc/pseudo-instructions.md`, section "END": "`END` marks the end of an assembler program.  Lines that
eventually follow in the source file will be ignored.  IMPORTANT: `END` may be called from within a macro, but the
`IF`-stack for conditional assembly is not cleared automatically.  The following construct therefore results in an
error: `IF DontWantAnymore / END / ELSEIF`"; together with "'Open' constructs will lead to an error message at the
end of an assembly path" and "a line that is not assembled has no effect at all" (an `END` in a branch that is not
selected does not end anything).  So: the pass ends at the end of the text or at the first `END` that stands in an
assembled part - written there directly, or issued by a macro / `REPT` body called there - and whatever is still
open at that moment is an error, whatever text follows. -/

/-- a source line: a conditional-assembly statement / ordinary line, or a line that issues `END` (the statement
itself, with or without entry-point argument, or a call of a macro / a `REPT` whose body issues it) -/
inductive Line where
  | stmt (s : Stmt)
  | endl
deriving DecidableEq, Repr

/-- the statements of a text, `END` lines left out -/
def stmtsOf : List Line → List Stmt
  | [] => []
  | .stmt s :: r => s :: stmtsOf r
  | .endl :: r => stmtsOf r

/-- the statement that closes an open construct -/
def closer : Open → Stmt
  | .ifThen | .ifElse => .endif 0
  | .swHead | .swCase | .swElse => .endcase 0

/-- closing everything that is open, innermost first -/
def closers (st : List Open) : List Stmt := st.map closer

/-- `pre` leaves a construct open: every conditional statement stands in a legal position, but something is not closed -/
def OpenAtEnd (pre : List Stmt) : Prop := ∃ o st, wnRun [] pre = some (o :: st)

instance (pre : List Stmt) : Decidable (OpenAtEnd pre) :=
  match h : wnRun [] pre with
  | some (o :: st) => isTrue ⟨o, st, h⟩
  | some [] => isFalse (by rintro ⟨o, st, h'⟩; rw [h] at h'; cases h')
  | none => isFalse (by rintro ⟨o, st, h'⟩; rw [h] at h'; cases h')

/-- an ordinary line used as a probe -/
def probeLeaf : Leaf := { marker := 0 }

/-- **Is the point behind `pre` in an assembled part?**  `pre` is the beginning of a skeleton's text (all statements
in legal positions, constructs may be open).  Close every open construct right at the point - once as it is (`b0`), once
with an ordinary line put at the point (`b1`): the point is assembled iff that line is among the documented selection,
i.e. iff the selection of `b1` yields one code byte more (the probe's). -/
def AssembledAt (pre : List Stmt) (live : Bool) : Prop :=
  ∃ st b0 b1, wnRun [] pre = some st ∧ flatB b0 = pre ++ closers st ∧ flatB b1 = pre ++ .leaf probeLeaf :: closers st ∧
    live = decide ((codeOf (selB b1)).length = (codeOf (selB b0)).length + 1)

end AslModel.Cond
