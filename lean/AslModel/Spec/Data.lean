import AslModel.Spec.PFile
/-!
# Data-definition statements — SPEC (C09)

Written from `doc/pseudo-instructions.md` (DC, DS, DN/DB/DW/DD/DQ/DT, DS, BYT/FCB, ADR/FDB, FCC,
DFS/RMB, PADDING, BIGENDIAN), `doc/assembler-usage.md` (integer arguments may be given "signed or
unsigned": a `w`-bit field accepts `-2^(w-1) ≤ v < 2^w`) and the public IEEE-754 / MC68881 / x87
format definitions.  Nothing here is derived from the C code.

* integers: two's complement, target byte order, error when the value does not fit;
* floats: round-to-nearest-even from the double value to half/single, double = identity,
  extended = exact widening (every double is representable);
* strings: one element per character, identity character map;
* `[n]x` (Motorola) and `n DUP (…)` (Intel): list replication;
* `?`: reserves one element, emits nothing; data and `?` must not be mixed in one statement;
* PADDING ON: a zero byte before a DC statement of 16 bits or more that would start at an odd address
  (also when its repeat counts are all zero: the statement is aligned, not the individual item).
-/
namespace AslModel.Data
open AslModel.PFile (Byte b)

/-! ## integers -/

/-- `n` little-endian bytes of `u` -/
def encLE : Nat → Nat → List Byte
  | 0, _ => []
  | n + 1, u => b u :: encLE n (u / 256)

def decLE : List Byte → Nat
  | [] => 0
  | x :: xs => x.toNat + 256 * decLE xs

def encNat (n : Nat) (big : Bool) (u : Nat) : List Byte :=
  if big then (encLE n u).reverse else encLE n u

def decNat (big : Bool) (bs : List Byte) : Nat :=
  if big then decLE bs.reverse else decLE bs

/-- two's-complement residue of `v` in `w` bits -/
def twos (w : Nat) (v : Int) : Nat := (v % (2 : Int) ^ w).toNat

/-- the manual's "signed or unsigned" rule -/
def inRange (w : Nat) (v : Int) : Bool := decide (-((2 : Int) ^ (w - 1)) ≤ v ∧ v < (2 : Int) ^ w)

/-- bytes of an integer argument in a `w`-bit field, `none` = the statement is in error -/
def encInt (w : Nat) (big : Bool) (v : Int) : Option (List Byte) :=
  if inRange w v then some (encNat (w / 8) big (twos w v)) else none

/-! ## floats (on the bit pattern of the IEEE double the argument denotes) -/

/-- `m / 2^k` rounded to nearest, ties to even -/
def rneDiv (m k : Nat) : Nat :=
  if k = 0 then m else
  let q := m / 2 ^ k
  let r := m % 2 ^ k
  let h := 2 ^ (k - 1)
  if r > h ∨ (r = h ∧ q % 2 = 1) then q + 1 else q

/-- a binary interchange format narrower than double: exponent and fraction widths -/
structure FFmt where
  ew : Nat
  mw : Nat
deriving DecidableEq, Repr

def fmtHalf : FFmt := ⟨5, 10⟩
def fmtSingle : FFmt := ⟨8, 23⟩

def dSign (bits : Nat) : Nat := bits / 2 ^ 63 % 2
def dExp (bits : Nat) : Nat := bits / 2 ^ 52 % 2048
def dMant (bits : Nat) : Nat := bits % 2 ^ 52

/-- double → narrower format, round-to-nearest-even incl. gradual underflow.
`none`: the rounded magnitude is not finite in the format (the assembler must reject it).
Infinity maps to infinity, NaN to a quiet NaN. -/
def narrow (f : FFmt) (bits : Nat) : Option Nat :=
  let s := dSign bits
  let e := dExp bits
  let m := dMant bits
  let top := s * 2 ^ (f.ew + f.mw)
  let infBody := (2 ^ f.ew - 1) * 2 ^ f.mw
  if e = 2047 then
    if m = 0 then some (top + infBody) else some (top + infBody + 2 ^ (f.mw - 1))
  else
    let sig := if e = 0 then m else 2 ^ 52 + m
    let e1 := if e = 0 then 1 else e
    let t := 1025 - 2 ^ (f.ew - 1)          -- biased double exponent of the format's smallest normal
    let kN := 52 - f.mw
    let k := if e1 ≥ t then kN else t + kN - e1
    let base := if e1 ≥ t then (e1 - t) * 2 ^ f.mw else 0
    let body := base + rneDiv sig k
    if body ≥ infBody then none else some (top + body)

/-- double → x87/68881 extended (sign, 15-bit exponent, 64-bit significand with explicit integer
bit); exact.  Zero keeps exponent 0, subnormal doubles are normalised. -/
def widen80 (bits : Nat) : Nat × Nat × Nat :=
  let s := dSign bits
  let e := dExp bits
  let m := dMant bits
  if e = 2047 then (s, 32767, 2 ^ 63 + m * 2 ^ 11)
  else if e = 0 then
    if m = 0 then (s, 0, 0)
    else
      let l := Nat.log2 m
      (s, 15309 + l, m * 2 ^ (63 - l))      -- m·2^-1074 = (m·2^(63-l))·2^-63 · 2^(l-1074)
  else (s, e + 15360, (2 ^ 52 + m) * 2 ^ 11)

/-- x87 `DT`: 10 bytes -/
def enc80 (big : Bool) (bits : Nat) : List Byte :=
  let (s, e, m) := widen80 bits
  encNat 10 big (m + 2 ^ 64 * (e + 32768 * s))

/-- MC68881 `DC.X`: 12 bytes, big endian: sign+exponent, 16 zero bits, 64-bit significand -/
def enc96 (bits : Nat) : List Byte :=
  let (s, e, m) := widen80 bits
  encNat 2 true (e + 32768 * s) ++ [0, 0] ++ encNat 8 true m

/-- the double nearest to a natural number below 2^53 (exact) -/
def natToDouble (n : Nat) : Nat :=
  if n = 0 then 0 else
  let l := Nat.log2 n
  (1023 + l) * 2 ^ 52 + (n * 2 ^ (52 - l) - 2 ^ 52)

def intToDouble (v : Int) : Nat :=
  if v < 0 then 2 ^ 63 + natToDouble v.natAbs else natToDouble v.natAbs

/-! ## statements -/

inductive FKind | half | single | double | ext80 | ext96
deriving DecidableEq, Repr

/-- element type of a statement: size in bytes, whether integer arguments are stored as
integers, and the float format (if float arguments are allowed) -/
structure Elem where
  bytes : Nat
  intOK : Bool
  flt : Option FKind
deriving DecidableEq, Repr

mutual
/-- one argument -/
inductive Arg where
  | int (v : Int)
  | str (cs : List Byte)
  | flt (bits : Nat)
  | q
  | rep (n : Int) (a : Arg)       -- Motorola `[n]a`
  | dup (n : Int) (as : Args)     -- Intel `n DUP (a, …)`
/-- argument list -/
inductive Args where
  | nil
  | cons (a : Arg) (as : Args)
end

/-- what a statement (or argument) lays down -/
inductive Out where
  | empty
  | data (bs : List Byte)
  | space (n : Nat)
deriving DecidableEq, Repr

/-- concatenation; mixing constants and `?` is an error -/
def Out.add : Out → Out → Option Out
  | .empty, o => some o
  | o, .empty => some o
  | .data x, .data y => some (.data (x ++ y))
  | .space x, .space y => some (.space (x + y))
  | _, _ => none

/-- `n`-fold repetition (`n ≤ 0`: nothing, but still a constant resp. a placeholder) -/
def Out.times (n : Int) : Out → Out
  | .empty => .empty
  | .data bs => .data (List.replicate n.toNat bs).flatten
  | .space k => .space (n.toNat * k)

def encFloat (k : FKind) (big : Bool) (bits : Nat) : Option (List Byte) :=
  match k with
  | .half => (narrow fmtHalf bits).map (encNat 2 big)
  | .single => (narrow fmtSingle bits).map (encNat 4 big)
  | .double => some (encNat 8 big bits)
  | .ext80 => some (enc80 big bits)
  | .ext96 => some (enc96 bits)

def specInt (e : Elem) (big : Bool) (v : Int) : Option (List Byte) :=
  if e.intOK then encInt (8 * e.bytes) big v
  else match e.flt with
    | some k => encFloat k big (intToDouble v)
    | none => none

def specChars (e : Elem) (big : Bool) : List Byte → Option (List Byte)
  | [] => some []
  | c :: cs => do
    let x ← specInt e big c.toNat
    let r ← specChars e big cs
    pure (x ++ r)

mutual
def specArg (e : Elem) (big : Bool) : Arg → Option Out
  | .int v => (specInt e big v).map Out.data
  | .str cs => (specChars e big cs).map Out.data
  | .flt bits =>
    match e.flt with
    | some k => (encFloat k big bits).map Out.data
    | none => none
  | .q => some (.space e.bytes)
  | .rep n a => (specArg e big a).map (Out.times n)
  | .dup n as => if n ≤ 0 then some .empty else (specArgs e big as).map (Out.times n)
def specArgs (e : Elem) (big : Bool) : Args → Option Out
  | .nil => some .empty
  | .cons a as =>
    match specArg e big a, specArgs e big as with
    | some x, some y => Out.add x y
    | _, _ => none
end

/-- number of pad bytes PADDING demands before an item of `bytes`-sized elements at `pc` -/
def padBefore (padding : Bool) (pc : Nat) (elemBytes : Nat) : Nat :=
  if padding && pc % 2 == 1 && decide (elemBytes ≠ 1) then 1 else 0

/-- address/byte cells; the statement list of a test slot is observed as this -/
abbrev Cells := List (Nat × Byte)

def cellsAt (pc : Nat) : List Byte → Cells
  | [] => []
  | x :: xs => (pc, x) :: cellsAt (pc + 1) xs

/-! ## statements and slots -/

inductive Stmt where
  | dc (e : Elem) (as : Args)      -- Motorola DC.x
  | byt (as : Args)                -- BYT / FCB
  | adr (as : Args)                -- ADR / FDB
  | fcc (as : Args)                -- FCC
  | dfs (n : Int)                  -- DFS / RMB
  | dx (e : Elem) (as : Args)      -- Intel DB/DW/DD/DQ/DT
  | ds (n : Int)                   -- Intel DS

def elemByte : Elem := ⟨1, true, none⟩
def elemWord : Elem := ⟨2, true, none⟩

mutual
def onlyStrings : Arg → Bool
  | .str _ => true
  | .rep _ a => onlyStrings a
  | _ => false
def onlyStringsL : Args → Bool
  | .nil => true
  | .cons a as => onlyStrings a && onlyStringsL as
end

structure SCfg where
  big : Bool
  padding : Bool

/-- (pad bytes before, what is laid down) -/
def specStmt (c : SCfg) (pc : Nat) : Stmt → Option (Nat × Out)
  | .dc e as => (specArgs e c.big as).map fun o => (padBefore c.padding pc e.bytes, o)
  | .byt as => (specArgs elemByte c.big as).map fun o => (0, o)
  | .adr as => (specArgs elemWord c.big as).map fun o => (0, o)
  | .fcc as => if onlyStringsL as then (specArgs elemByte c.big as).map fun o => (0, o) else none
  | .dfs n => if n < 0 then none else some (0, .space n.toNat)
  | .dx e as => (specArgs e c.big as).map fun o => (0, o)
  | .ds n => if n < 0 then none else some (0, .space n.toNat)

/-- cells and end address of a statement list starting at `pc`; `none` = some statement is in error -/
def specRun (c : SCfg) : Nat → List Stmt → Option (Cells × Nat)
  | pc, [] => some ([], pc)
  | pc, st :: rest =>
    match specStmt c pc st with
    | none => none
    | some (pad, o) =>
      let (padCells, pc1) : Cells × Nat :=
        match o with
        | .data _ => (cellsAt pc (List.replicate pad 0), pc + pad)
        | _ => ([], pc + pad)
      let (cs, pc2) : Cells × Nat :=
        match o with
        | .data bs => (cellsAt pc1 bs, pc1 + bs.length)
        | .space n => ([], pc1 + n)
        | .empty => ([], pc1)
      match specRun c pc2 rest with
      | none => none
      | some (r, pcEnd) => some (padCells ++ cs ++ r, pcEnd)

end AslModel.Data
