import AslModel.Spec.Cond
import AslModel.Spec.MacroCtx
/-!
# Conditional assembly — SPEC of the conditions whose truth comes from the environment or from the history of the pass

Written from `doc/pseudo-instructions.md`, section "Conditional Assembly":

* "`IFDEF <symbol>`: true if the given symbol has been defined.  The definition has to appear before `IFDEF`."
* "`IFUSED <symbol>`: true if the given symbol has been referenced at least once up to now."
* "`IFEXIST <name>`: true if the given file exists.  The same rules for search paths and syntax apply as for the
  `INCLUDE` instruction" - i.e. `CtxSpec.search` of Spec/MacroCtx.lean (directory of the source file that contains the
  statement first, then the `-i` list): **IFEXIST name is true iff INCLUDE name at the same place succeeds**.
* `IFNDEF`/`IFNUSED`/`IFNEXIST`: "counterpart".

"Up to now" / "before": the lines in front of the statement *that are assembled* ("a line that is not assembled has no
effect at all", Spec/Cond.lean) - in the pass that is running: the manual knows no other history (the code file is what the
last pass produces, and a statement of the source text has one meaning).  `AssembledBefore` says which ordinary lines in front
of a point are assembled, in the words of Spec/Cond.lean: close whatever is open at the point and take the documented selection.

`resolveText` turns a text whose IF lines name a symbol / a file into a text of Spec/Cond.lean whose IF lines carry the
documented truth value; everything of Spec/Cond.lean (`selB`, `WellNested`, ...) then applies to the result.
-/
namespace AslModel.CondEnv
open AslModel.Cond AslModel.CtxSpec

/-- a source line of a program whose conditions test the environment -/
inductive ELine where
  /-- anything Spec/Cond.lean knows: ordinary lines (labels, EQU/SET, references), IF with an expression, ELSE, ... -/
  | plain (s : Stmt)
  /-- `IFDEF/IFNDEF <sym>` (`t = .defined`), `IFUSED/IFNUSED <sym>` (`t = .used`) -/
  | ifsym (t : SymTest) (neg : Bool) (sym : Nat)
  /-- `IFEXIST/IFNEXIST <f>`, written in the source file `file` -/
  | ifexist (neg : Bool) (file : Path) (f : FName)
deriving Repr

/-- the ordinary lines in front of a point of the text that are assembled: `pre` is the (resolved) text in front of the
point; close every open construct right there, the documented selection of the resulting skeleton -/
def AssembledBefore (pre : List Stmt) (ls : List Leaf) : Prop :=
  ∃ st b, wnRun [] pre = some st ∧ flatB b = pre ++ closers st ∧ ls = selB b

/-- defined before / referenced up to now -/
def symTruth (t : SymTest) (ls : List Leaf) (s : Nat) : Bool :=
  match t with
  | .defined => (definedBy ls).contains s
  | .used => (usedBy ls).contains s
  | .exist => false

/-- the file exists under the rules of INCLUDE = INCLUDE of this name, written in `file`, finds a file -/
def fileTruth (fs : FS) (file : Path) (f : FName) : Bool := (search fs file f).isSome

/-- the text with the documented truth values filled in.  `asm` decides `AssembledBefore` (the driver supplies a reader of
skeleton texts; `none` = the text in front is not the beginning of a skeleton, the manual says nothing). -/
def resolveText (fs : FS) (asm : List Stmt → Option (List Leaf)) : List Stmt → List ELine → Option (List Stmt)
  | acc, [] => some acc
  | acc, .plain s :: r => resolveText fs asm (acc ++ [s]) r
  | acc, .ifsym t neg s :: r =>
    match asm acc with
    | none => none
    | some ls => resolveText fs asm (acc ++ [.iff 1 (.sym t neg (symTruth t ls s))]) r
  | acc, .ifexist neg file f :: r => resolveText fs asm (acc ++ [.iff 1 (.sym .exist neg (fileTruth fs file f))]) r

/-- an oracle for `AssembledBefore` that may be used in `resolveText` -/
def SoundAsm (asm : List Stmt → Option (List Leaf)) : Prop := ∀ pre ls, asm pre = some ls → AssembledBefore pre ls

end AslModel.CondEnv
