import AslModel.Spec.Data
/-!
# Data statements behind CPU switches — SPEC (C09)

Written from `doc/pseudo-instructions.md`: *CPU* ("This command rules for which processor the further code
shall be generated"), *ADR or FDB* ("stores word constants when in 65xx/68xx mode.  It is therefore the
equivalent to `DC.W` on the 68000 or `DW` on Intel platforms"), *BYT or FCB*, *FCC*, *DFS or RMB*, and the
targets' byte order (65xx / MELPS-7700: low byte first; 68xx, 6805, 6809, 68HC12/16, S12Z, ST7, XGATE, 6804:
high byte first).

A source may switch the target any number of times.  What a data statement lays down is a function of the
statement and of the target that is active **at that statement** — never of the targets that were active
before it (in this source or in a source assembled earlier by the same run).  So a source that consists of
segments `CPU t_i / ORG a_i / statements_i` lays, segment by segment, what `Spec/Data.lean` prescribes for
`statements_i` on target `t_i` alone.
-/
namespace AslModel.DataSw
open AslModel.PFile (Byte b)
open AslModel.Data

/-- one `CPU … / ORG …` segment: byte order of that target, start address, its statements -/
structure SwSeg where
  big : Bool
  pc : Nat
  stmts : List Stmt

/-- the cells of all segments; `none` = some statement is in error -/
def specRunSw : List SwSeg → Option Cells
  | [] => some []
  | s :: rest =>
    match specRun ⟨s.big, false⟩ s.pc s.stmts, specRunSw rest with
    | some (cs, _), some r => some (cs ++ r)
    | _, _ => none

end AslModel.DataSw
