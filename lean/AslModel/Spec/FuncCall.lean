/-! SPEC (C08, user-defined functions): manual, section FUNCTION - "name FUNCTION arg,...,expression": a call of the function
means the defining expression with the VALUES of the actual arguments in the place of the formal ones.  Values: 64-bit integers,
IEEE doubles (bit patterns; arithmetic by the machine's IEEE unit), strings (character codes 0..255).  The evaluator is written
once over a parameter `rt` - what happens to an argument value on its way into the body; the SPEC is `rt = some` (nothing). -/
namespace AslModel.FuncCall

inductive V where
  | int (n : UInt64)
  | flt (bits : UInt64)
  | str (s : List Char)
deriving DecidableEq, Repr, Inhabited

inductive Op where | add | sub | mul | eq
deriving DecidableEq, Repr

inductive E where
  | lit (v : V)
  | par (i : Nat)
  | bin (o : Op) (a b : E)
  | sqrt (a : E)
  | call1 (f : Nat) (a : E)
  | call2 (f : Nat) (a b : E)
  | call3 (f : Nat) (a b c : E)
deriving Repr, Inhabited

def finite (b : UInt64) : Bool := (b.toNat / 2 ^ 52) % 2048 != 2047

def fltOfInt (n : UInt64) : Float :=
  if n.toNat < 2 ^ 63 then Float.ofNat n.toNat else -(Float.ofNat (2 ^ 64 - n.toNat))

def mkF (x : Float) : Option V := if finite x.toBits then some (.flt x.toBits) else none

def fbin (o : Op) (x y : Float) : Option V :=
  match o with
  | .add => mkF (x + y) | .sub => mkF (x - y) | .mul => mkF (x * y)
  | .eq => some (.int (if x == y then 1 else 0))

/-- dyadic operators of the manual's table on equal types, integer with float promoted to float; every other
combination is left to the main C08 check (`none` = not judged here) -/
def binop (o : Op) : V → V → Option V
  | .int a, .int b =>
    match o with
    | .add => some (.int (a + b)) | .sub => some (.int (a - b)) | .mul => some (.int (a * b))
    | .eq => some (.int (if a = b then 1 else 0))
  | .flt a, .flt b => fbin o (Float.ofBits a) (Float.ofBits b)
  | .int a, .flt b => fbin o (fltOfInt a) (Float.ofBits b)
  | .flt a, .int b => fbin o (Float.ofBits a) (fltOfInt b)
  | .str a, .str b =>
    match o with
    | .add => some (.str (a ++ b))
    | .eq => some (.int (if a = b then 1 else 0))
    | _ => none
  | _, _ => none

def sqrtV : V → Option V
  | .flt a => if Float.ofBits a < 0 then none else mkF (Float.sqrt (Float.ofBits a))
  | .int a => if a.toNat ≥ 2 ^ 63 then none else mkF (Float.sqrt (fltOfInt a))
  | _ => none

/-- evaluator; `rt` is applied to an argument value at every place of the body where the formal parameter stands
(an argument whose parameter does not occur in the body is not looked at again) -/
def evalG (rt : V → Option V) (fns : List E) : Nat → List V → E → Option V
  | 0, _, _ => none
  | fuel + 1, env, e =>
    match e with
    | .lit v => some v
    | .par i => do rt (← env[i]?)
    | .bin o a b => do
      let x ← evalG rt fns fuel env a
      let y ← evalG rt fns fuel env b
      binop o x y
    | .sqrt a => do sqrtV (← evalG rt fns fuel env a)
    | .call1 f a => do
      let x ← evalG rt fns fuel env a
      let body ← fns[f]?
      evalG rt fns fuel [x] body
    | .call2 f a b => do
      let x ← evalG rt fns fuel env a
      let y ← evalG rt fns fuel env b
      let body ← fns[f]?
      evalG rt fns fuel [x, y] body
    | .call3 f a b c => do
      let x ← evalG rt fns fuel env a
      let y ← evalG rt fns fuel env b
      let z ← evalG rt fns fuel env c
      let body ← fns[f]?
      evalG rt fns fuel [x, y, z] body

/-- SPEC: the body with the values of the arguments -/
def eval (fns : List E) (fuel : Nat) (env : List V) (e : E) : Option V := evalG some fns fuel env e

end AslModel.FuncCall
