import AslModel.Spec.OperandPos
/-! SPEC for C01, part "assumptions": *which address a memory operand stands for under the register contents declared
for its source line* - written from the manual's section on `ASSUME` (doc/pseudo-instructions.md: "This instruction
allows to tell AS the current setting of certain registers ... that influence addressing modes"; the defaults it
states per target) and from the processor manuals, not from the code generators:

* the assumption in force at a line is the default of the manual, overwritten by every `ASSUME` in front of the line
  (`assumedAt`); it does not depend on the number of passes the assembler needs;
* MC6809/HD6309: direct addressing - "the contents of the direct page register supply the upper 8 bits of the
  address, the byte following the opcode the lower 8 bits"; extended: 16-bit address follows the opcode;
* 65CE02: base page addressing - the B register supplies the upper address byte of every "zero page" mode;
* CPU12X (S12X): direct addressing `opr8a` with the DIRECT register as upper byte, extended `opr16a`;
* W65C816 / MELPS 7700: direct `d` = (D + offset) in bank 0, absolute `a` = DBR/DT : 16-bit address, absolute long
  `al` = 24-bit address;
* C166/ST10: a 16-bit `mem` operand - bits 15/14 select DPP0..DPP3, whose content is the physical 16-Kbyte page,
  bits 13..0 the offset in that page;
* iAPX 86: segment override prefixes; the manual's `ASSUME CS:CODE, DS:DATA` says which segment a register points to.

Core only. -/
namespace AslModel.Spec.AssumePos
open AslModel.Spec.OperandPos

/-- one line of a program as far as this SPEC looks at it -/
inductive Item where
  /-- `ASSUME <register idx>:<val>` -/
  | assume (idx val : Nat)
  /-- a memory reference at address `a` with the bytes found there (the instruction and what follows it), the
  address `want` of the variable the source line names, and the two marker bytes the source puts behind the line -/
  | ref (a : Nat) (bytes : List Nat) (want : Nat) (trail : List Nat)
  /-- a data item whose source expression is `ASSUMEDVAL(<register idx>)` (or the symbol of an ON/OFF switch), and
  the value found in the code file -/
  | probe (idx : Nat) (seen : Nat)
deriving Repr

/-- the registers assumed at a line: `regs` before it, updated by the line itself when it is an `ASSUME` -/
def stepRegs (regs : List Nat) : Item → List Nat
  | .assume i v => regs.set i v
  | _ => regs

/-- the registers in force *at* line `k` (0-based) of the program: the defaults, then every `ASSUME` in front of it -/
def assumedAt (dflt : List Nat) (prog : List Item) (k : Nat) : List Nat :=
  (prog.take k).foldl stepRegs dflt

/-- what an instruction denotes -/
structure Den where
  addr : Nat
  len : Nat
  form : String
deriving Repr

def le16 (bs : List Nat) (k : Nat) : Option Nat := do
  let l ← bs[k]?
  let h ← bs[k + 1]?
  some (h * 256 + l)

def be16 (bs : List Nat) (k : Nat) : Option Nat := do
  let h ← bs[k]?
  let l ← bs[k + 1]?
  some (h * 256 + l)

/-- MC6809 / HD6309, register file `[DPR]` (the instruction layout comes from `Spec/OperandPos.M6809`) -/
def den6809 (h6309 : Bool) (regs : List Nat) (a : Nat) (bs : List Nat) : Option Den := do
  let r ← M6809.decode a bs h6309
  let dpr ← regs[0]?
  if r.form = "direct" then
    if dpr < 256 then some { addr := dpr * 256 + r.value, len := r.len, form := "direct" } else none
  else if r.form = "extended" then some { addr := r.value, len := r.len, form := "extended" }
  else none

/-- 65CE02, register file `[B]`: opcodes `xxx001xx`, `xxx00100`, `xxx00110` … (low five bits 4, 5, 6) are the base page
forms, low five bits 12, 13, 14 the absolute forms of the same instructions -/
def den65ce02 (regs : List Nat) (_a : Nat) (bs : List Nat) : Option Den := do
  let op ← bs[0]?
  let b ← regs[0]?
  if op % 32 = 4 ∨ op % 32 = 5 ∨ op % 32 = 6 then
    let z ← bs[1]?
    if b < 256 then some { addr := b * 256 + z, len := 2, form := "basepage" } else none
  else if op % 32 = 12 ∨ op % 32 = 13 ∨ op % 32 = 14 then
    let v ← le16 bs 1
    some { addr := v, len := 3, form := "absolute" }
  else none

/-- CPU12X, register file `[DIRECT]` (CPU12 opcode map, page 1): rows 9x / Dx direct, Bx / Fx extended; stores 5A..5F
direct, 7A..7F extended; 70..79 extended read-modify-write; JSR 17 direct / 16 extended, JMP 06 extended -/
def denHc12x (regs : List Nat) (_a : Nat) (bs : List Nat) : Option Den := do
  let op ← bs[0]?
  let d ← regs[0]?
  let hn := op / 16
  let direct := hn = 9 ∨ hn = 13 ∨ (90 ≤ op ∧ op ≤ 95) ∨ op = 23
  let extended := hn = 11 ∨ hn = 15 ∨ hn = 7 ∨ op = 22 ∨ op = 6
  if direct then
    let z ← bs[1]?
    if d < 256 then some { addr := d * 256 + z, len := 2, form := "direct" } else none
  else if extended then
    let v ← be16 bs 1
    some { addr := v, len := 3, form := "extended" }
  else none

/-- W65C816 / MELPS 7700, register file `[DPR, DT]`: low five opcode bits 4/5/6 direct, 12/13/14 absolute (data bank),
15 absolute long.  JMP/JSR (4C, 20) use the program bank and are not described here. -/
def den65816 (regs : List Nat) (_a : Nat) (bs : List Nat) : Option Den := do
  let op ← bs[0]?
  let dpr ← regs[0]?
  let dt ← regs[1]?
  if op = 76 ∨ op = 32 then none
  else if op % 32 = 4 ∨ op % 32 = 5 ∨ op % 32 = 6 then
    let z ← bs[1]?
    if dpr < 65536 then some { addr := (dpr + z) % 65536, len := 2, form := "direct" } else none
  else if op % 32 = 12 ∨ op % 32 = 13 ∨ op % 32 = 14 then
    let v ← le16 bs 1
    if dt < 256 then some { addr := dt * 65536 + v, len := 3, form := "absolute" } else none
  else if op % 32 = 15 then
    let v ← le16 bs 1
    let bk ← bs[3]?
    some { addr := bk * 65536 + v, len := 4, form := "long" }
  else none

/-- C166 / ST10, register file `[DPP0, DPP1, DPP2, DPP3]`: `op Rx, mem` / `op mem, Rx` in the four-byte format
`op RR MM MM` (ADD/ADDC/SUB/SUBC/CMP/XOR/AND/OR x2..x5, MOV/MOVB F2 F3 F6 F7) -/
def denC166 (regs : List Nat) (_a : Nat) (bs : List Nat) : Option Den := do
  let op ← bs[0]?
  let lo := op % 16
  let hi := op / 16
  if (hi ≤ 7 ∧ 2 ≤ lo ∧ lo ≤ 5) ∨ (hi = 15 ∧ (lo = 2 ∨ lo = 3 ∨ lo = 6 ∨ lo = 7)) then
    let m ← le16 bs 2
    let page ← regs[m / 16384]?
    some { addr := page * 16384 + m % 16384, len := 4, form := s!"mem/dpp{m / 16384}" }
  else none

/-- 8086, register file `[CS, DS, ES, SS]` with the values 0 = NOTHING, 1 = CODE, 2 = DATA (the manual's defaults:
`CS:CODE, DS:DATA, ES:NOTHING, SS:NOTHING`): a direct memory operand is addressed through DS unless a segment override
prefix (26 ES, 2E CS, 36 SS, 3E DS) precedes the instruction; the operand denotes offset `disp16` in the segment that
register is assumed to point to (segment * 65536 + offset).  Instruction layout from `Spec/OperandPos.I86`. -/
def segOfPrefix (b : Nat) : Option Nat :=
  if b = 46 then some 0 else if b = 62 then some 1 else if b = 38 then some 2 else if b = 54 then some 3 else none

def den8086 (regs : List Nat) (a : Nat) (bs : List Nat) : Option Den := do
  let r ← I86.decode a bs
  if r.pcrel ∨ r.form = "imm16" ∨ r.form = "disp8" then none
  let n := I86.npfx bs
  let sr := ((bs.take n).filterMap segOfPrefix).getLast?.getD 1
  let seg ← regs[sr]?
  if seg = 0 then none
  let len := if r.len = 0 then r.pos + r.flen else r.len
  some { addr := seg * 65536 + r.value, len := len, form := s!"{r.form}/sreg{sr}" }

def denote (t : String) (regs : List Nat) (a : Nat) (bs : List Nat) : Option Den :=
  if t = "6809" then den6809 false regs a bs
  else if t = "6309" then den6809 true regs a bs
  else if t = "65ce02" then den65ce02 regs a bs
  else if t = "hc12x" then denHc12x regs a bs
  else if t = "65816" then den65816 regs a bs
  else if t = "c166" then denC166 regs a bs
  else if t = "8086" then den8086 regs a bs
  else none

/-- verdict on one line: `none` = nothing to say / fine, `some why` = the line violates the SPEC -/
def judgeItem (t : String) (regs : List Nat) : Item → Option String × String
  | .assume _ _ => (none, "")
  | .ref a bs want trail =>
    match denote t regs a bs with
    | none => (some "undecodable", "?")
    | some d =>
      if d.addr ≠ want then (some s!"denotes:{d.addr}:{d.form}", d.form)
      else if (bs.drop d.len).take trail.length ≠ trail then (some s!"length:{d.len}:{d.form}", d.form)
      else (none, d.form)
  | .probe i seen =>
    match regs[i]? with
    | none => (some "no-such-register", "")
    | some v => if v = seen then (none, "probe") else (some s!"assumed:{v}", "probe")

/-- run the SPEC over a program: for every line its verdict under the registers in force at that line -/
def judge (t : String) (dflt : List Nat) (prog : List Item) : List (Option String × String) :=
  (prog.foldl (fun (acc : List Nat × List (Option String × String)) it =>
      (stepRegs acc.1 it, acc.2 ++ [judgeItem t acc.1 it])) (dflt, [])).2

end AslModel.Spec.AssumePos
